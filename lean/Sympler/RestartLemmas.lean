import Sympler.Restart

/-!
Helper lemmas for property C18 (`Props/C18.lean`): the number round trip `%g` → `strtod`, the token
scanner `readNext`, `fromStringByIndex ∘ toStringByIndex`, and the line/column structure.  Core only.
-/

namespace Sympler.Restart
open Sympler.Gen.Restart

theorem digit_ne {c k : Char} (h : c.isDigit = true) (hk : k.isDigit = false) : c ≠ k := by
  intro e; subst e; simp [h] at hk

theorem isDigit_not_space {c : Char} (h : c.isDigit = true) : isCSpace c = false := by
  have h1 := digit_ne h (k := ' ') (by decide)
  have h2 := digit_ne h (k := '\t') (by decide)
  have h3 := digit_ne h (k := '\n') (by decide)
  have h4 := digit_ne h (k := '\x0b') (by decide)
  have h5 := digit_ne h (k := '\x0c') (by decide)
  have h6 := digit_ne h (k := '\r') (by decide)
  simp [isCSpace, h1, h2, h3, h4, h5, h6]

/-! ## digits -/

theorem digits_isDigit {n : Nat} {c : Char} (h : c ∈ digits n) : c.isDigit = true :=
  Nat.isDigit_of_mem_toDigits (by decide) (by decide) h

theorem digits_ne_nil (n : Nat) : digits n ≠ [] := Nat.toDigits_ne_nil

theorem ofDigitChars_digits (n : Nat) : Nat.ofDigitChars 10 (digits n) 0 = n :=
  Nat.ofDigitChars_ten_toDigits

/-- the next character does not continue a run of digits -/
def NoDigitHead (r : List Char) : Prop := ∀ c ∈ r.head?, c.isDigit = false

theorem takeWhile_digits {ds r : List Char} (h : ∀ c ∈ ds, c.isDigit = true) (hr : NoDigitHead r) :
    (ds ++ r).takeWhile Char.isDigit = ds := by
  rw [List.takeWhile_append_of_pos h]
  cases r with
  | nil => simp
  | cons c t =>
    have : c.isDigit = false := hr c (by simp)
    simp [this]

theorem dropWhile_digits {ds r : List Char} (h : ∀ c ∈ ds, c.isDigit = true) (hr : NoDigitHead r) :
    (ds ++ r).dropWhile Char.isDigit = r := by
  rw [List.dropWhile_append_of_pos h]
  cases r with
  | nil => simp
  | cons c t =>
    have : c.isDigit = false := hr c (by simp)
    simp [this]

/-! ## normalisation -/

theorem stripZeros_pow {m : Nat} (hm : m % 10 ≠ 0) :
    ∀ (k fuel : Nat) (e : Int), k ≤ fuel → stripZeros fuel (m * 10 ^ k) e = (m, e + k) := by
  intro k
  induction k with
  | zero =>
    intro fuel e _
    cases fuel with
    | zero => simp [stripZeros]
    | succ f => simp [stripZeros, hm]
  | succ k ih =>
    intro fuel e hk
    cases fuel with
    | zero => omega
    | succ f =>
      have h1 : m * 10 ^ (k + 1) = (m * 10 ^ k) * 10 := by rw [Nat.pow_succ, Nat.mul_assoc]
      have hm0 : m ≠ 0 := by intro h; subst h; simp at hm
      have hp : 10 ^ k ≠ 0 := by exact Nat.pos_iff_ne_zero.mp (Nat.pow_pos (by decide))
      have h2 : m * 10 ^ k * 10 ≠ 0 := by
        intro h
        rcases Nat.mul_eq_zero.mp h with h | h
        · rcases Nat.mul_eq_zero.mp h with h | h
          · exact hm0 h
          · exact hp h
        · omega
      rw [h1]
      simp only [stripZeros]
      rw [if_pos ⟨h2, by omega⟩]
      rw [Nat.mul_div_cancel _ (by decide : 0 < 10)]
      rw [ih f (e + 1) (by omega)]
      simp; omega

theorem normalize_pow {m : Nat} (hm : m % 10 ≠ 0) (k : Nat) (e : Int) :
    normalize (m * 10 ^ k) e = (m, e + k) := by
  have hm0 : 1 ≤ m := by
    rcases Nat.eq_zero_or_pos m with h | h
    · subst h; simp at hm
    · exact h
  have hk : k < 10 ^ k := Nat.lt_pow_self (by decide)
  have hge : k ≤ m * 10 ^ k := by
    calc k ≤ 1 * 10 ^ k := by omega
      _ ≤ m * 10 ^ k := Nat.mul_le_mul_right _ hm0
  have hne : m * 10 ^ k ≠ 0 := by
    have : 0 < 10 ^ k := Nat.pow_pos (by decide)
    have : 0 < m * 10 ^ k := Nat.mul_pos hm0 this
    omega
  unfold normalize
  rw [if_neg hne]
  exact stripZeros_pow hm k _ e hge

theorem normalize_self {m : Nat} (hm : m % 10 ≠ 0) (e : Int) : normalize m e = (m, e) := by
  have := normalize_pow hm 0 e
  simpa using this

theorem normalize_zero (e : Int) : normalize 0 e = (0, 0) := by simp [normalize]
/-! ## the scanners -/

theorem takeSign_minus (t : List Char) : takeSign ('-' :: t) = (true, t) := by simp [takeSign]
theorem takeSign_plus (t : List Char) : takeSign ('+' :: t) = (false, t) := by simp [takeSign]
theorem takeSign_digit {c : Char} (t : List Char) (h : c.isDigit = true) :
    takeSign (c :: t) = (false, c :: t) := by
  have h1 := digit_ne h (k := '-') (by decide)
  have h2 := digit_ne h (k := '+') (by decide)
  simp [takeSign, h1, h2]

/-- the next character can not continue a decimal literal -/
def NumEnd (r : List Char) : Prop :=
  ∀ c ∈ r.head?, c.isDigit = false ∧ c ≠ '.' ∧ c ≠ 'e' ∧ c ≠ 'E'

theorem NumEnd.noDigit {r : List Char} (h : NumEnd r) : NoDigitHead r := fun c hc => (h c hc).1

theorem numEnd_nil : NumEnd [] := by intro c hc; simp at hc

theorem scanFrac_dot {fp r : List Char} (h : ∀ c ∈ fp, c.isDigit = true) (hr : NoDigitHead r) :
    scanFrac ('.' :: (fp ++ r)) = (fp, r) := by
  simp [scanFrac, takeWhile_digits h hr, dropWhile_digits h hr]

theorem scanFrac_none {r : List Char} (hr : ∀ c ∈ r.head?, c ≠ '.') : scanFrac r = ([], r) := by
  cases r with
  | nil => simp [scanFrac]
  | cons c t =>
    have : c ≠ '.' := hr c (by simp)
    simp [scanFrac, this]

theorem ofDigitChars_zero_cons (ds : List Char) :
    Nat.ofDigitChars 10 ('0' :: ds) 0 = Nat.ofDigitChars 10 ds 0 := by
  rw [Nat.ofDigitChars_cons]; simp

theorem expField_scan (x : Int) :
    ∃ ds : List Char, ds ≠ [] ∧ (∀ c ∈ ds, c.isDigit = true) ∧ Nat.ofDigitChars 10 ds 0 = x.natAbs ∧
      expField x = (if x < 0 then '-' else '+') :: ds := by
  by_cases h : x.natAbs < 10
  · refine ⟨'0' :: digits x.natAbs, by simp, ?_, ?_, by simp [expField, h]⟩
    · intro c hc
      rcases List.mem_cons.mp hc with hc | hc
      · subst hc; decide
      · exact digits_isDigit hc
    · rw [ofDigitChars_zero_cons, ofDigitChars_digits]
  · refine ⟨digits x.natAbs, digits_ne_nil _, fun c hc => digits_isDigit hc, ofDigitChars_digits _, by simp [expField, h]⟩

theorem scanExp_some (x : Int) {r : List Char} (hr : NoDigitHead r) :
    scanExp ('e' :: (expField x ++ r)) = (x, r) := by
  obtain ⟨ds, hne, hd, hv, he⟩ := expField_scan x
  rw [he]
  by_cases hx : x < 0
  · simp only [hx, if_true, List.cons_append, scanExp, takeSign_minus, true_or]
    rw [takeWhile_digits hd hr, dropWhile_digits hd hr, if_neg hne, hv]
    simp; omega
  · simp only [hx, if_false, List.cons_append, scanExp, takeSign_plus, true_or]
    rw [takeWhile_digits hd hr, dropWhile_digits hd hr, if_neg hne, hv]
    simp; omega

theorem scanExp_none {r : List Char} (hr : ∀ c ∈ r.head?, c ≠ 'e' ∧ c ≠ 'E') : scanExp r = (0, r) := by
  cases r with
  | nil => simp [scanExp]
  | cons c t =>
    have := hr c (by simp)
    simp [scanExp, this.1, this.2]

theorem dropWhile_space_digit {c : Char} (t : List Char) (h : c.isDigit = true) :
    (c :: t).dropWhile isCSpace = c :: t := by
  simp [isDigit_not_space h]

theorem scanNum_of {ws : List Char} (neg : Bool) {ip r1 fp r2 r3 : List Char} {x : Int}
    (hws : ∀ c ∈ ws, isCSpace c = true)
    (hip : ∀ c ∈ ip, c.isDigit = true) (hne : ip ≠ [])
    (h1 : NoDigitHead r1) (hf : scanFrac r1 = (fp, r2)) (hx : scanExp r2 = (x, r3)) :
    scanNum (ws ++ ((if neg then ['-'] else []) ++ (ip ++ r1))) =
      (some ⟨neg, (normalize (Nat.ofDigitChars 10 (ip ++ fp) 0) (x - fp.length)).1,
                  (normalize (Nat.ofDigitChars 10 (ip ++ fp) 0) (x - fp.length)).2⟩, r3) := by
  cases ip with
  | nil => exact absurd rfl hne
  | cons c t =>
    have hc : c.isDigit = true := hip c (by simp)
    have hs : takeSign (((if neg then ['-'] else []) ++ (c :: t ++ r1))) = (neg, c :: t ++ r1) := by
      cases neg with
      | true => simp [takeSign_minus]
      | false => simpa using takeSign_digit (t ++ r1) hc
    have hd : (ws ++ ((if neg then ['-'] else []) ++ (c :: t ++ r1))).dropWhile isCSpace
        = (if neg then ['-'] else []) ++ (c :: t ++ r1) := by
      rw [List.dropWhile_append_of_pos hws]
      cases neg with
      | true => simp [isCSpace]
      | false => simpa using dropWhile_space_digit (t ++ r1) hc
    unfold scanNum
    simp only [hd, hs]
    rw [takeWhile_digits hip h1, dropWhile_digits hip h1, hf]
    simp only [hx]
    rw [if_neg (by simp)]


theorem noDigitHead_cons {c : Char} {t : List Char} (h : c.isDigit = false) : NoDigitHead (c :: t) := by
  intro a ha; simp at ha; subst ha; exact h

theorem ofDigitChars_zeros_append (z : Nat) (ds : List Char) :
    Nat.ofDigitChars 10 (List.replicate z '0' ++ ds) 0 = Nat.ofDigitChars 10 ds 0 := by
  rw [Nat.ofDigitChars_append, Nat.ofDigitChars_replicate_zero]; simp

theorem ofDigitChars_append_zeros (z : Nat) (ds : List Char) :
    Nat.ofDigitChars 10 (ds ++ List.replicate z '0') 0 = Nat.ofDigitChars 10 ds 0 * 10 ^ z := by
  rw [Nat.ofDigitChars_append, Nat.ofDigitChars_replicate_zero, Nat.mul_comm]

theorem take_ne_nil {l : List Char} {k : Nat} (hl : l ≠ []) (hk : 1 ≤ k) : l.take k ≠ [] := by
  cases l with
  | nil => exact absurd rfl hl
  | cons a t => cases k with
    | zero => omega
    | succ k => simp

/-- the shape of `fmtMag … ++ r` as a decimal literal: integer digits `ip`, then a tail on which the
    fraction and exponent scanners recover the value -/
theorem fmtMag_scan (P : Nat) {mant : Nat} (exp : Int) (hcan : mant % 10 ≠ 0) {r : List Char} (hr : NumEnd r) :
    ∃ (ip r1 fp r2 : List Char) (x : Int),
      fmtMag P mant exp ++ r = ip ++ r1 ∧ (∀ c ∈ ip, c.isDigit = true) ∧ ip ≠ [] ∧ NoDigitHead r1 ∧
      scanFrac r1 = (fp, r2) ∧ scanExp r2 = (x, r) ∧
      normalize (Nat.ofDigitChars 10 (ip ++ fp) 0) (x - fp.length) = (mant, exp) := by
  have hrdot : ∀ c ∈ r.head?, c ≠ '.' := fun c h => (hr c h).2.1
  have hre : ∀ c ∈ r.head?, c ≠ 'e' ∧ c ≠ 'E' := fun c h => (hr c h).2.2
  have hD : ∀ c ∈ digits mant, c.isDigit = true := fun c h => digits_isDigit h
  have hDne := digits_ne_nil mant
  have hlen : 0 < (digits mant).length := List.length_pos_iff.mpr hDne
  unfold fmtMag
  simp only
  by_cases hsci : exp + ((digits mant).length : Int) - 1 < -4 ∨ exp + ((digits mant).length : Int) - 1 ≥ P
  · rw [if_pos hsci]
    have htake : ∀ c ∈ (digits mant).take 1, c.isDigit = true := fun c h => hD c (List.mem_of_mem_take h)
    have htne : (digits mant).take 1 ≠ [] := take_ne_nil hDne (Nat.le_refl 1)
    by_cases hn : (digits mant).length > 1
    · rw [if_pos hn]
      have hdrop : ∀ c ∈ (digits mant).drop 1, c.isDigit = true := fun c h => hD c (List.mem_of_mem_drop h)
      refine ⟨(digits mant).take 1, '.' :: ((digits mant).drop 1 ++ 'e' :: (expField (exp + ((digits mant).length : Int) - 1) ++ r)),
        (digits mant).drop 1, 'e' :: (expField (exp + ((digits mant).length : Int) - 1) ++ r), _,
        by simp, htake, htne, noDigitHead_cons (by decide),
        scanFrac_dot hdrop (noDigitHead_cons (by decide)), scanExp_some _ hr.noDigit, ?_⟩
      rw [List.take_append_drop, ofDigitChars_digits, normalize_self hcan]
      simp; omega
    · rw [if_neg hn]
      refine ⟨(digits mant).take 1, 'e' :: (expField (exp + ((digits mant).length : Int) - 1) ++ r), [],
        'e' :: (expField (exp + ((digits mant).length : Int) - 1) ++ r), _,
        by simp, htake, htne, noDigitHead_cons (by decide),
        scanFrac_none (by intro c hc; simp at hc; subst hc; decide), scanExp_some _ hr.noDigit, ?_⟩
      have ht : (digits mant).take 1 = digits mant := List.take_of_length_le (by omega)
      rw [ht, List.append_nil, ofDigitChars_digits, normalize_self hcan]
      simp; omega
  · rw [if_neg hsci]
    by_cases hX : exp + ((digits mant).length : Int) - 1 ≥ 0
    · rw [if_pos hX]
      by_cases hnk : (digits mant).length ≤ (exp + ((digits mant).length : Int) - 1).toNat + 1
      · rw [if_pos hnk]
        refine ⟨digits mant ++ List.replicate ((exp + ((digits mant).length : Int) - 1).toNat + 1 - (digits mant).length) '0',
          r, [], r, 0, rfl, ?_, by simp [hDne], hr.noDigit, scanFrac_none hrdot, scanExp_none hre, ?_⟩
        · intro c hc
          rcases List.mem_append.mp hc with hc | hc
          · exact hD c hc
          · rw [List.mem_replicate] at hc; rw [hc.2]; decide
        · rw [List.append_nil, ofDigitChars_append_zeros, ofDigitChars_digits, normalize_pow hcan]
          simp; omega
      · rw [if_neg hnk]
        have htake : ∀ c ∈ (digits mant).take ((exp + ((digits mant).length : Int) - 1).toNat + 1), c.isDigit = true :=
          fun c h => hD c (List.mem_of_mem_take h)
        have hdrop : ∀ c ∈ (digits mant).drop ((exp + ((digits mant).length : Int) - 1).toNat + 1), c.isDigit = true :=
          fun c h => hD c (List.mem_of_mem_drop h)
        refine ⟨(digits mant).take ((exp + ((digits mant).length : Int) - 1).toNat + 1),
          '.' :: ((digits mant).drop ((exp + ((digits mant).length : Int) - 1).toNat + 1) ++ r),
          (digits mant).drop ((exp + ((digits mant).length : Int) - 1).toNat + 1), r, 0,
          by simp, htake, take_ne_nil hDne (by omega), noDigitHead_cons (by decide),
          scanFrac_dot hdrop hr.noDigit, scanExp_none hre, ?_⟩
        rw [List.take_append_drop, ofDigitChars_digits, normalize_self hcan]
        simp; omega
    · rw [if_neg hX]
      have hfp : ∀ c ∈ List.replicate ((-(exp + ((digits mant).length : Int) - 1)).toNat - 1) '0' ++ digits mant,
          c.isDigit = true := by
        intro c hc
        rcases List.mem_append.mp hc with hc | hc
        · rw [List.mem_replicate] at hc; rw [hc.2]; decide
        · exact hD c hc
      refine ⟨['0'], '.' :: ((List.replicate ((-(exp + ((digits mant).length : Int) - 1)).toNat - 1) '0' ++ digits mant) ++ r),
        List.replicate ((-(exp + ((digits mant).length : Int) - 1)).toNat - 1) '0' ++ digits mant, r, 0,
        by simp, by simp, by simp, noDigitHead_cons (by decide), scanFrac_dot hfp hr.noDigit, scanExp_none hre, ?_⟩
      rw [List.singleton_append, ofDigitChars_zero_cons, ofDigitChars_zeros_append, ofDigitChars_digits,
        normalize_self hcan]
      simp; omega

theorem scanNum_fmtG (P : Nat) {d : Dec} (hz : d.mant = 0 → d.exp = 0) (hc : d.mant ≠ 0 → d.mant % 10 ≠ 0)
    {ws r : List Char} (hws : ∀ c ∈ ws, isCSpace c = true) (hr : NumEnd r) :
    scanNum (ws ++ (fmtG P d ++ r)) = (some d, r) := by
  obtain ⟨neg, mant, exp⟩ := d
  simp only at hz hc
  by_cases h0 : mant = 0
  · subst h0
    have he : exp = 0 := hz rfl
    subst he
    have := scanNum_of (ws := ws) neg (ip := ['0']) (r1 := r) hws (by simp) (by simp) hr.noDigit
      (scanFrac_none (fun c h => (hr c h).2.1)) (scanExp_none (fun c h => (hr c h).2.2))
    simp only [fmtG, if_true, List.append_assoc]
    rw [this]
    simp [Nat.ofDigitChars, normalize]
  · obtain ⟨ip, r1, fp, r2, x, heq, hip, hne, h1, hf, hx, hn⟩ := fmtMag_scan P exp (hc h0) hr
    have := scanNum_of (ws := ws) neg hws hip hne h1 hf hx
    simp only [fmtG, if_neg h0, List.append_assoc]
    rw [heq, this, hn]


/-! ## alphabet of the printed numbers -/

/-- characters `%g` / `%i` can print on the modelled domain -/
def numChar (c : Char) : Prop := c.isDigit = true ∨ c = '-' ∨ c = '.' ∨ c = 'e' ∨ c = '+'

theorem expField_chars {x : Int} {c : Char} (h : c ∈ expField x) : numChar c := by
  unfold expField at h
  rcases List.mem_cons.mp h with h | h
  · by_cases hx : x < 0
    · simp [hx] at h; exact Or.inr (Or.inl h)
    · simp [hx] at h; exact Or.inr (Or.inr (Or.inr (Or.inr h)))
  · rcases List.mem_append.mp h with h | h
    · left
      by_cases hx : x.natAbs < 10
      · simp [hx] at h; subst h; decide
      · simp [hx] at h
    · exact Or.inl (digits_isDigit h)

theorem fmtMag_chars {P mant : Nat} {exp : Int} {c : Char} (h : c ∈ fmtMag P mant exp) : numChar c := by
  have hD : ∀ c ∈ digits mant, numChar c := fun c h => Or.inl (digits_isDigit h)
  unfold fmtMag at h
  simp only at h
  split at h
  · rcases List.mem_append.mp h with h | h
    · exact hD c (List.mem_of_mem_take h)
    · rcases List.mem_append.mp h with h | h
      · split at h
        · rcases List.mem_cons.mp h with h | h
          · exact Or.inr (Or.inr (Or.inl h))
          · exact hD c (List.mem_of_mem_drop h)
        · simp at h
      · rcases List.mem_cons.mp h with h | h
        · exact Or.inr (Or.inr (Or.inr (Or.inl h)))
        · exact expField_chars h
  · split at h
    · split at h
      · rcases List.mem_append.mp h with h | h
        · exact hD c h
        · rw [List.mem_replicate] at h; left; rw [h.2]; decide
      · rcases List.mem_append.mp h with h | h
        · exact hD c (List.mem_of_mem_take h)
        · rcases List.mem_cons.mp h with h | h
          · exact Or.inr (Or.inr (Or.inl h))
          · exact hD c (List.mem_of_mem_drop h)
    · rcases List.mem_cons.mp h with h | h
      · left; rw [h]; decide
      · rcases List.mem_cons.mp h with h | h
        · exact Or.inr (Or.inr (Or.inl h))
        · rcases List.mem_append.mp h with h | h
          · rw [List.mem_replicate] at h; left; rw [h.2]; decide
          · exact hD c h

theorem fmtG_chars {P : Nat} {d : Dec} {c : Char} (h : c ∈ fmtG P d) : numChar c := by
  unfold fmtG at h
  rcases List.mem_append.mp h with h | h
  · split at h
    · simp at h; exact Or.inr (Or.inl h)
    · simp at h
  · split at h
    · simp at h; left; rw [h]; decide
    · exact fmtMag_chars h

theorem fmtInt_chars {i : Int} {c : Char} (h : c ∈ fmtInt i) : numChar c := by
  unfold fmtInt at h
  split at h
  · rcases List.mem_cons.mp h with h | h
    · exact Or.inr (Or.inl h)
    · exact Or.inl (digits_isDigit h)
  · exact Or.inl (digits_isDigit h)

theorem numChar_accepts {c : Char} (h : numChar c) : readNextAccepts c = true := by
  rcases h with h | h | h | h | h
  · simp [readNextAccepts, Char.isAlphanum, h]
  all_goals (subst h; decide)

theorem numChar_ne {c k : Char} (h : numChar c) (hk : k.isDigit = false) (h1 : k ≠ '-') (h2 : k ≠ '.')
    (h3 : k ≠ 'e') (h4 : k ≠ '+') : c ≠ k := by
  rcases h with h | h | h | h | h
  · exact digit_ne h hk
  all_goals (subst h; exact fun e => by subst e; simp_all)

/-! ## integers -/

theorem atoi_fmtInt (i : Int) : atoi (fmtInt i) = i := by
  unfold atoi fmtInt
  have hne := digits_ne_nil
  by_cases h : i < 0
  · simp only [h, if_true]
    have : ('-' :: digits i.natAbs).dropWhile isCSpace = '-' :: digits i.natAbs := by simp [isCSpace]
    rw [this, takeSign_minus]
    simp only
    have := takeWhile_digits (ds := digits i.natAbs) (r := []) (fun c h => digits_isDigit h) (by intro c hc; simp at hc)
    rw [List.append_nil] at this
    rw [this, ofDigitChars_digits]
    simp; omega
  · simp only [h, if_false]
    cases hd : digits i.toNat with
    | nil => exact absurd hd (hne _)
    | cons c t =>
      have hc : c.isDigit = true := digits_isDigit (n := i.toNat) (by rw [hd]; simp)
      rw [dropWhile_space_digit t hc, takeSign_digit t hc]
      simp only
      have := takeWhile_digits (ds := digits i.toNat) (r := []) (fun c h => digits_isDigit h) (by intro c hc; simp at hc)
      rw [List.append_nil, hd] at this
      rw [this, ← hd, ofDigitChars_digits]
      simp; omega


/-! ## `fromStringByIndex ∘ toStringByIndex` -/

theorem atof_fmtG (P : Nat) {d : Dec} (h : d.wf P) {ws : List Char} (hws : ∀ c ∈ ws, isCSpace c = true) :
    atof (ws ++ fmtG P d) = d := by
  have := scanNum_fmtG P h.zero h.canon hws numEnd_nil
  rw [List.append_nil] at this
  simp [atof, this]

theorem cut_found {c : Char} {whole b a : List Char} (h : ∀ x ∈ b, x ≠ c) :
    cut c whole (b ++ c :: a) = (b, a) := by
  have hp : ∀ x ∈ b, (x != c) = true := fun x hx => by simp [h x hx]
  unfold cut
  rw [List.dropWhile_append_of_pos hp, List.takeWhile_append_of_pos hp]
  simp

theorem fmtG_ne {P : Nat} {d : Dec} {k : Char} (hk : k.isDigit = false) (h1 : k ≠ '-') (h2 : k ≠ '.')
    (h3 : k ≠ 'e') (h4 : k ≠ '+') : ∀ x ∈ fmtG P d, x ≠ k :=
  fun _ hx => numChar_ne (fmtG_chars hx) hk h1 h2 h3 h4

theorem fmtPoint_append (P : Nat) (p : P3) (X : List Char) :
    fmtPoint P p ++ X = '(' :: (fmtG P p.x ++ ',' :: ' ' :: (fmtG P p.y ++ ',' :: ' ' :: (fmtG P p.z ++ ')' :: X))) := by
  simp [fmtPoint]

theorem pointFrom_body {P : Nat} {p : P3} (h : p.wf P) (whole X : List Char) :
    pointFrom whole (fmtG P p.x ++ ',' :: ' ' :: (fmtG P p.y ++ ',' :: ' ' :: (fmtG P p.z ++ ')' :: X))) = (p, X) := by
  unfold pointFrom
  have hsp : ∀ c ∈ [' '], isCSpace c = true := by intro c hc; simp at hc; subst hc; decide
  rw [cut_found (fmtG_ne (by decide) (by decide) (by decide) (by decide) (by decide))]
  simp only
  have e1 : ' ' :: (fmtG P p.y ++ ',' :: ' ' :: (fmtG P p.z ++ ')' :: X))
      = (' ' :: fmtG P p.y) ++ ',' :: (' ' :: (fmtG P p.z ++ ')' :: X)) := by simp
  rw [e1, cut_found (by
    intro x hx
    rcases List.mem_cons.mp hx with hx | hx
    · subst hx; decide
    · exact fmtG_ne (by decide) (by decide) (by decide) (by decide) (by decide) x hx)]
  simp only
  have e2 : ' ' :: (fmtG P p.z ++ ')' :: X) = (' ' :: fmtG P p.z) ++ ')' :: X := by simp
  rw [e2, cut_found (by
    intro x hx
    rcases List.mem_cons.mp hx with hx | hx
    · subst hx; decide
    · exact fmtG_ne (by decide) (by decide) (by decide) (by decide) (by decide) x hx)]
  simp only
  have a1 := atof_fmtG P h.1 (ws := []) (by simp)
  have a2 := atof_fmtG P h.2.1 hsp
  have a3 := atof_fmtG P h.2.2 hsp
  simp only [List.nil_append, List.singleton_append] at a1 a2 a3
  rw [a1, a2, a3]

/-- find the next `'('` (after a prefix without one) and read a printed point -/
theorem pointFrom_fmtPoint {P : Nat} {p : P3} (h : p.wf P) (whole pre X : List Char) (hpre : ∀ x ∈ pre, x ≠ '(') :
    pointFrom whole (cut '(' whole (pre ++ (fmtPoint P p ++ X))).2 = (p, X) := by
  rw [fmtPoint_append, cut_found hpre]
  exact pointFrom_body h whole X

theorem fromStr_toStr {ty : Ty} {v : Val} (h : Val.wf ty v) : fromStr ty (toStr v) = v := by
  cases ty <;> cases v <;> simp only [Val.wf] at h
  · -- int
    simp [fromStr, toStr, atoi_fmtInt]
  · -- double
    rename_i d
    have := atof_fmtG 6 h (ws := []) (by simp)
    simp only [List.nil_append] at this
    simp [fromStr, toStr, this]
  · -- point
    rename_i p
    have := pointFrom_fmtPoint h (fmtPoint 6 p) [] [] (by simp)
    simp only [List.nil_append, List.append_nil] at this
    simp [fromStr, toStr, this]
  · -- tensor
    rename_i a b c
    obtain ⟨ha, hb, hc⟩ := h
    simp only [fromStr, toStr]
    generalize hv : (['t', 'e', 'n', 's', 'o', 'r', '('] ++
      (fmtPoint 6 a ++ ',' :: ' ' :: (fmtPoint 6 b ++ ',' :: ' ' :: (fmtPoint 6 c ++ [')'])))) = value
    have h0 : (cut '(' value value).2 = fmtPoint 6 a ++ ',' :: ' ' :: (fmtPoint 6 b ++ ',' :: ' ' :: (fmtPoint 6 c ++ [')'])) := by
      have : value = ['t', 'e', 'n', 's', 'o', 'r'] ++ '(' ::
          (fmtPoint 6 a ++ ',' :: ' ' :: (fmtPoint 6 b ++ ',' :: ' ' :: (fmtPoint 6 c ++ [')']))) := by rw [← hv]; simp
      conv => lhs; arg 1; arg 3; rw [this]
      rw [cut_found (by decide)]
    rw [h0]
    have pa := pointFrom_fmtPoint ha value [] (',' :: ' ' :: (fmtPoint 6 b ++ ',' :: ' ' :: (fmtPoint 6 c ++ [')']))) (by simp)
    rw [List.nil_append] at pa
    rw [pa]
    simp only
    have c1 : (cut ',' value (',' :: ' ' :: (fmtPoint 6 b ++ ',' :: ' ' :: (fmtPoint 6 c ++ [')'])))).2
        = ' ' :: (fmtPoint 6 b ++ ',' :: ' ' :: (fmtPoint 6 c ++ [')'])) := by
      have := cut_found (c := ',') (whole := value) (b := []) (a := ' ' :: (fmtPoint 6 b ++ ',' :: ' ' :: (fmtPoint 6 c ++ [')']))) (by simp)
      rw [List.nil_append] at this
      rw [this]
    rw [c1]
    have pb := pointFrom_fmtPoint hb value [' '] (',' :: ' ' :: (fmtPoint 6 c ++ [')'])) (by decide)
    rw [List.singleton_append] at pb
    rw [pb]
    simp only
    have c2 : (cut ',' value (',' :: ' ' :: (fmtPoint 6 c ++ [')']))).2 = ' ' :: (fmtPoint 6 c ++ [')']) := by
      have := cut_found (c := ',') (whole := value) (b := []) (a := ' ' :: (fmtPoint 6 c ++ [')'])) (by simp)
      rw [List.nil_append] at this
      rw [this]
    rw [c2]
    have pc := pointFrom_fmtPoint hc value [' '] [')'] (by decide)
    rw [List.singleton_append] at pc
    rw [pc]


/-! ## `readNext` -/

/-- the parenthesis counter after a character -/
def stepLevel (l : Int) (c : Char) : Int := if c = '(' then l + 1 else if c = ')' then l - 1 else l

/-- all characters of `tok` are accumulated by the loop of `readNext` started at `level`; the final level -/
def scanTok (acc : Char → Bool) : Int → List Char → Option Int
  | l, [] => some l
  | l, c :: cs => if l > 0 ∨ acc c = true then scanTok acc (stepLevel l c) cs else none

theorem scanTok_append (acc : Char → Bool) (a b : List Char) (l : Int) :
    scanTok acc l (a ++ b) = (scanTok acc l a).bind (fun l' => scanTok acc l' b) := by
  induction a generalizing l with
  | nil => simp [scanTok]
  | cons c cs ih =>
    simp only [List.cons_append, scanTok]
    split
    · exact ih _
    · simp

theorem readNextLoop_tok (acc : Char → Bool) (tok rest : List Char) (l l' : Int)
    (h : scanTok acc l tok = some l') :
    readNextLoop acc l (tok ++ rest) = (readNextLoop acc l' rest).map (fun tr => (tok ++ tr.1, tr.2)) := by
  induction tok generalizing l with
  | nil =>
    simp only [scanTok, Option.some.injEq] at h
    subst h
    simp
  | cons c cs ih =>
    simp only [scanTok] at h
    split at h
    · rename_i hc
      simp only [List.cons_append, readNextLoop, if_pos hc]
      have := ih _ h
      unfold stepLevel at this
      rw [this]
      simp [Option.map_map, Function.comp_def]
    · simp at h

/-- characters accepted at any level that do not change the level -/
theorem scanTok_plain (acc : Char → Bool) (l : Int) (tok : List Char)
    (h : ∀ c ∈ tok, acc c = true ∧ c ≠ '(' ∧ c ≠ ')') : scanTok acc l tok = some l := by
  induction tok with
  | nil => simp [scanTok]
  | cons c cs ih =>
    have hc := h c (by simp)
    simp only [scanTok, hc.1, or_true, if_true, stepLevel, if_neg hc.2.1, if_neg hc.2.2]
    exact ih (fun x hx => h x (by simp [hx]))

/-- inside parentheses everything but parentheses is kept -/
theorem scanTok_inside (acc : Char → Bool) (l : Int) (hl : l > 0) (tok : List Char)
    (h : ∀ c ∈ tok, c ≠ '(' ∧ c ≠ ')') : scanTok acc l tok = some l := by
  induction tok with
  | nil => simp [scanTok]
  | cons c cs ih =>
    have hc := h c (by simp)
    simp only [scanTok, hl, true_or, if_true, stepLevel, if_neg hc.1, if_neg hc.2]
    exact ih (fun x hx => h x (by simp [hx]))

theorem scanTok_open (acc : Char → Bool) (hacc : acc '(' = true) (l : Int) (cs : List Char) :
    scanTok acc l ('(' :: cs) = scanTok acc (l + 1) cs := by
  simp [scanTok, hacc, stepLevel]

theorem scanTok_close (acc : Char → Bool) (l : Int) (hl : l > 0) (cs : List Char) :
    scanTok acc l (')' :: cs) = scanTok acc (l - 1) cs := by
  simp [scanTok, hl, stepLevel]

theorem numChar_noParen {c : Char} (h : numChar c) : c ≠ '(' ∧ c ≠ ')' :=
  ⟨numChar_ne h (by decide) (by decide) (by decide) (by decide) (by decide),
   numChar_ne h (by decide) (by decide) (by decide) (by decide) (by decide)⟩

/-- a printed point is kept whole at any non-negative level, for every class that accepts `'('` -/
theorem scanTok_fmtPoint (acc : Char → Bool) (hacc : acc '(' = true) (P : Nat) (p : P3) (l : Int) (hl : l ≥ 0) :
    scanTok acc l (fmtPoint P p) = some l := by
  have hin : ∀ c ∈ fmtG P p.x ++ ',' :: ' ' :: (fmtG P p.y ++ ',' :: ' ' :: fmtG P p.z), c ≠ '(' ∧ c ≠ ')' := by
    intro c hc
    simp only [List.mem_append, List.mem_cons] at hc
    rcases hc with hc | hc | hc | hc | hc | hc | hc
    · exact numChar_noParen (fmtG_chars hc)
    · subst hc; decide
    · subst hc; decide
    · exact numChar_noParen (fmtG_chars hc)
    · subst hc; decide
    · subst hc; decide
    · exact numChar_noParen (fmtG_chars hc)
  have e : fmtPoint P p = '(' :: ((fmtG P p.x ++ ',' :: ' ' :: (fmtG P p.y ++ ',' :: ' ' :: fmtG P p.z)) ++ [')']) := by
    simp [fmtPoint]
  rw [e, scanTok_open acc hacc, scanTok_append, scanTok_inside acc (l + 1) (by omega) _ hin]
  simp only [Option.bind_some]
  rw [scanTok_close acc (l + 1) (by omega)]
  simp [scanTok]

/-- every token of `toStringByIndex` is accumulated completely by `readNext`, level back at 0 -/
theorem scanTok_toStr (v : Val) : scanTok readNextAccepts 0 (toStr v) = some 0 := by
  have hacc : readNextAccepts '(' = true := by decide
  cases v with
  | int i =>
    exact scanTok_plain _ 0 _ (fun c hc => ⟨numChar_accepts (fmtInt_chars hc), numChar_noParen (fmtInt_chars hc)⟩)
  | double d =>
    exact scanTok_plain _ 0 _ (fun c hc => ⟨numChar_accepts (fmtG_chars hc), numChar_noParen (fmtG_chars hc)⟩)
  | point p => exact scanTok_fmtPoint _ hacc 6 p 0 (by omega)
  | tensor a b c =>
    have e : toStr (.tensor a b c) = ['t', 'e', 'n', 's', 'o', 'r'] ++ ('(' :: (fmtPoint 6 a ++ ([',', ' '] ++
        (fmtPoint 6 b ++ ([',', ' '] ++ (fmtPoint 6 c ++ [')'])))))) := by simp [toStr]
    have hsep : ∀ c ∈ [',', ' '], c ≠ '(' ∧ c ≠ ')' := by decide
    rw [e, scanTok_append, scanTok_plain _ 0 _ (by decide)]
    simp only [Option.bind_some]
    rw [scanTok_open _ hacc, scanTok_append, scanTok_fmtPoint _ hacc 6 a _ (by omega)]
    simp only [Option.bind_some]
    rw [scanTok_append, scanTok_inside _ _ (by omega) _ hsep]
    simp only [Option.bind_some]
    rw [scanTok_append, scanTok_fmtPoint _ hacc 6 b _ (by omega)]
    simp only [Option.bind_some]
    rw [scanTok_append, scanTok_inside _ _ (by omega) _ hsep]
    simp only [Option.bind_some]
    rw [scanTok_append, scanTok_fmtPoint _ hacc 6 c _ (by omega)]
    simp only [Option.bind_some]
    rw [scanTok_close _ _ (by omega)]
    simp [scanTok]

/-- `readNext` returns a completely accumulated token unsplit when a rejected character follows -/
theorem readNextWith_unsplit (acc : Char → Bool) (tok rest : List Char) (sep : Char) (n : Nat)
    (h : scanTok acc 0 tok = some 0) (hsep : acc sep = false) (hhd : ∀ c ∈ tok.head?, c ≠ ' ')
    (hne : tok ≠ []) :
    readNextWith acc (List.replicate n ' ' ++ (tok ++ sep :: rest)) = some (tok, rest) := by
  unfold readNextWith
  have hd : (List.replicate n ' ' ++ (tok ++ sep :: rest)).dropWhile (· == ' ') = tok ++ sep :: rest := by
    rw [List.dropWhile_append_of_pos (by intro c hc; rw [List.mem_replicate] at hc; simp [hc.2])]
    cases tok with
    | nil => exact absurd rfl hne
    | cons c t =>
      have : c ≠ ' ' := hhd c (by simp)
      simp [this]
  rw [hd, readNextLoop_tok acc tok (sep :: rest) 0 0 h]
  simp [readNextLoop, hsep]


/-! ## words, positions and velocities -/

/-- the stream ends or goes on with white space -/
def SpaceHead (r : List Char) : Prop := ∀ c ∈ r.head?, isCSpace c = true

theorem spaceHead_cons {c : Char} {t : List Char} (h : isCSpace c = true) : SpaceHead (c :: t) := by
  intro a ha; simp at ha; subst ha; exact h

theorem readWord_word {ws w r : List Char} (hws : ∀ c ∈ ws, isCSpace c = true) (hne : w ≠ [])
    (hw : ∀ c ∈ w, isCSpace c = false) (hr : SpaceHead r) : readWord (ws ++ (w ++ r)) = (w, r) := by
  unfold readWord
  have hd : (ws ++ (w ++ r)).dropWhile isCSpace = w ++ r := by
    rw [List.dropWhile_append_of_pos hws]
    cases w with
    | nil => exact absurd rfl hne
    | cons c t => simp [hw c (by simp)]
  have hp : ∀ c ∈ w, (!isCSpace c) = true := fun c hc => by simp [hw c hc]
  simp only [hd]
  rw [List.takeWhile_append_of_pos hp, List.dropWhile_append_of_pos hp]
  cases r with
  | nil => simp
  | cons c t =>
    have : isCSpace c = true := hr c (by simp)
    simp [this]

theorem numEnd_of_space {c : Char} {t : List Char} (h : c = ' ' ∨ c = '\n') : NumEnd (c :: t) := by
  intro a ha
  simp at ha
  subst ha
  rcases h with h | h <;> subst h <;> decide

theorem readDouble_fmtG (P : Nat) {d : Dec} (h : d.wf P) {r : List Char} (hr : NumEnd r) :
    readDouble (' ' :: (fmtG P d ++ r)) = some (d, r) := by
  have := scanNum_fmtG P h.zero h.canon (ws := [' ']) (by decide) hr
  simp only [List.singleton_append] at this
  simp [readDouble, this]

theorem fmtP3s_append (P : Nat) (p : P3) (R : List Char) :
    fmtP3s P p ++ R = fmtG P p.x ++ ' ' :: (fmtG P p.y ++ ' ' :: (fmtG P p.z ++ R)) := by
  simp [fmtP3s]

theorem read3_fmt (P : Nat) {p : P3} (h : p.wf P) {R : List Char} (hR : NumEnd R) :
    read3 (' ' :: (fmtP3s P p ++ R)) = some (p, R) := by
  rw [fmtP3s_append]
  unfold read3
  rw [readDouble_fmtG P h.1 (numEnd_of_space (Or.inl rfl))]
  simp only
  rw [readDouble_fmtG P h.2.1 (numEnd_of_space (Or.inl rfl))]
  simp only
  rw [readDouble_fmtG P h.2.2 hR]

theorem readParticle_line (frozen : Bool) {r v : P3} (hr : r.wf 8) (hv : v.wf 8) {R : List Char} (hR : NumEnd R) :
    readParticle (' ' :: ((if frozen then wFrozen else wFree) ++ ' ' :: (fmtP3s 8 r ++ ' ' :: (fmtP3s 8 v ++ R))))
      = some (frozen, r, v, R) := by
  unfold readParticle
  have hw : readWord ([' '] ++ ((if frozen then wFrozen else wFree) ++ ' ' :: (fmtP3s 8 r ++ ' ' :: (fmtP3s 8 v ++ R))))
      = ((if frozen then wFrozen else wFree), ' ' :: (fmtP3s 8 r ++ ' ' :: (fmtP3s 8 v ++ R))) := by
    apply readWord_word (by decide)
    · cases frozen <;> simp [wFrozen, wFree]
    · cases frozen <;> simp only [Bool.false_eq_true, if_false, if_true] <;> decide
    · exact spaceHead_cons (by decide)
  rw [List.singleton_append] at hw
  rw [hw]
  simp only
  have hff : ((if frozen then wFrozen else wFree) = wFree ∨ (if frozen then wFrozen else wFree) = wFrozen) := by
    cases frozen <;> simp
  rw [if_pos hff, read3_fmt 8 hr (numEnd_of_space (Or.inl rfl))]
  simp only
  rw [read3_fmt 8 hv hR]
  cases frozen <;> simp [wFree, wFrozen]


/-! ## the attribute columns of a particle line -/

theorem fmtG_ne_nil (P : Nat) {d : Dec} (h : d.wf P) : fmtG P d ≠ [] := by
  intro e
  have := scanNum_fmtG P h.zero h.canon (ws := []) (r := []) (by simp) numEnd_nil
  rw [e] at this
  simp [scanNum, takeSign, scanFrac] at this

theorem fmtInt_ne_nil (i : Int) : fmtInt i ≠ [] := by
  unfold fmtInt
  split
  · simp
  · exact digits_ne_nil _

theorem toStr_head {ty : Ty} {v : Val} (h : Val.wf ty v) : toStr v ≠ [] ∧ ∀ c ∈ (toStr v).head?, c ≠ ' ' := by
  have hnum : ∀ l : List Char, l ≠ [] → (∀ c ∈ l, numChar c) → l ≠ [] ∧ ∀ c ∈ l.head?, c ≠ ' ' := by
    intro l hl hc
    refine ⟨hl, ?_⟩
    intro c hm
    cases l with
    | nil => simp at hm
    | cons a t =>
      simp at hm; subst hm
      exact numChar_ne (hc _ (by simp)) (by decide) (by decide) (by decide) (by decide) (by decide)
  cases ty <;> cases v <;> simp only [Val.wf] at h
  · exact hnum _ (fmtInt_ne_nil _) (fun c hc => fmtInt_chars hc)
  · exact hnum _ (fmtG_ne_nil 6 h) (fun c hc => fmtG_chars hc)
  · simp [toStr, fmtPoint]
  · simp [toStr]

theorem tagTokens_head (as : List Attr) (vs : List Val) (R : List Char) :
    ∃ c t, tagTokens as vs ++ '\n' :: R = c :: t ∧ (c = ' ' ∨ c = '\n') := by
  induction as generalizing vs with
  | nil => exact ⟨'\n', R, by simp [tagTokens], Or.inr rfl⟩
  | cons a as ih =>
    cases vs with
    | nil => exact ⟨'\n', R, by simp [tagTokens], Or.inr rfl⟩
    | cons v vs =>
      by_cases hp : a.persistent = true
      · exact ⟨' ', toStr v ++ (tagTokens as vs ++ '\n' :: R), by simp [tagTokens, hp], Or.inl rfl⟩
      · obtain ⟨c, t, e, hc⟩ := ih vs
        exact ⟨c, t, by simp [tagTokens, hp, e], hc⟩

theorem findAttr_append (pre : List Attr) (a : Attr) (as : List Attr)
    (h : ((pre ++ a :: as).map (·.name)).Nodup) : findAttr a.name (pre ++ a :: as) = some (pre.length, a) := by
  induction pre with
  | nil => simp [findAttr]
  | cons b pre ih =>
    simp only [List.cons_append, List.map_cons, List.nodup_cons] at h
    have hb : b.name ≠ a.name := by
      intro e
      apply h.1
      rw [e]
      simp
    simp [findAttr, hb, ih h.2]

theorem entryFor_append (nm : List Char) (pre : List Attr) (a : Attr) (as : List Attr)
    (h : ((pre ++ a :: as).map (·.name)).Nodup) (hk : a.recomputed = false) :
    entryFor ⟨nm, pre ++ a :: as⟩ a.name = some (pre.length, a.ty) := by
  simp [entryFor, findAttr_append pre a as h, hk]

theorem readTags_tagTokens (nm : List Char) (suf : List Attr) :
    ∀ (pre : List Attr) (pv sv : List Val) (R cs : List Char),
      pre.length = pv.length →
      All2 (fun a v => Val.wf a.ty v) suf sv →
      ((pre ++ suf).map (·.name)).Nodup →
      (∀ a ∈ suf, a.persistent = true → a.recomputed = false) →
      (cs = tagTokens suf sv ++ '\n' :: R ∨ ∃ c, tagTokens suf sv ++ '\n' :: R = c :: cs) →
      ∃ R', readTags ((suf.filter (·.persistent)).map (fun a => entryFor ⟨nm, pre ++ suf⟩ a.name)) cs
                (pv ++ suf.map (fun a => defaultVal a.ty))
              = some (pv ++ List.zipWith (fun a v => if a.persistent then v else defaultVal a.ty) suf sv, R')
            ∧ (R' = R ∨ R' = '\n' :: R) := by
  induction suf with
  | nil =>
    intro pre pv sv R cs _ hwf _ _ hcs
    cases sv with
    | cons _ _ => simp [All2] at hwf
    | nil =>
      refine ⟨cs, by simp [readTags], ?_⟩
      rcases hcs with h | ⟨c, h⟩
      · right; simpa [tagTokens] using h
      · left; simp [tagTokens] at h; exact h.2.symm
  | cons a as ih =>
    intro pre pv sv R cs hlen hwf hnd hrec hcs
    cases sv with
    | nil => simp [All2] at hwf
    | cons v vs =>
      simp only [All2] at hwf
      have e : pre ++ a :: as = (pre ++ [a]) ++ as := by simp
      by_cases hp : a.persistent = true
      · -- a column of the file
        have hk := hrec a (by simp) hp
        obtain ⟨hne, hhd⟩ := toStr_head hwf.1
        obtain ⟨sep, T2', hT2, hsep⟩ := tagTokens_head as vs R
        have hcs' : ∃ n, cs = List.replicate n ' ' ++ (toStr v ++ sep :: T2') := by
          have hT : tagTokens (a :: as) (v :: vs) ++ '\n' :: R = ' ' :: (toStr v ++ sep :: T2') := by
            simp [tagTokens, hp, ← hT2]
          rcases hcs with h | ⟨c, h⟩
          · exact ⟨1, by rw [h, hT]; rfl⟩
          · rw [hT] at h
            simp only [List.cons.injEq] at h
            exact ⟨0, by simp [← h.2]⟩
        obtain ⟨n, hn⟩ := hcs'
        have hacc : readNextAccepts sep = false := by rcases hsep with h | h <;> subst h <;> decide
        have hrn : readNext cs = some (toStr v, T2') := by
          rw [hn]
          exact readNextWith_unsplit _ _ _ _ n (scanTok_toStr v) hacc hhd hne
        obtain ⟨R', hR', hRR⟩ := ih (pre ++ [a]) (pv ++ [v]) vs R T2' (by simp [hlen]) hwf.2 (by rw [← e]; exact hnd)
          (fun b hb => hrec b (by simp [hb])) (Or.inr ⟨sep, hT2⟩)
        refine ⟨R', ?_, hRR⟩
        simp only [List.filter_cons, hp, if_true, List.map_cons, readTags, hrn]
        rw [entryFor_append nm pre a as hnd hk]
        simp only
        rw [fromStr_toStr hwf.1]
        have hset : (pv ++ (defaultVal a.ty :: as.map (fun a => defaultVal a.ty))).set pre.length v
            = (pv ++ [v]) ++ as.map (fun a => defaultVal a.ty) := by
          rw [hlen, List.set_append_right _ _ (Nat.le_refl _)]
          simp
        rw [hset]
        rw [e, hR']
        simp [List.zipWith, hp]
      · -- not in the file: keeps the default
        obtain ⟨R', hR', hRR⟩ := ih (pre ++ [a]) (pv ++ [defaultVal a.ty]) vs R cs (by simp [hlen]) hwf.2
          (by rw [← e]; exact hnd) (fun b hb => hrec b (by simp [hb]))
          (by simpa [tagTokens, hp] using hcs)
        refine ⟨R', ?_, hRR⟩
        simp only [List.filter_cons, hp, List.map_cons]
        have : pv ++ (defaultVal a.ty :: as.map (fun a => defaultVal a.ty))
            = (pv ++ [defaultVal a.ty]) ++ as.map (fun a => defaultVal a.ty) := by simp
        rw [this, e]
        simp only [Bool.false_eq_true, if_false] at hR' ⊢
        rw [hR']
        simp [List.zipWith, hp]


/-! ## the header -/

/-- `tags[c]` / `writeTags[c]` after the header of species `f` has been read -/
def entriesOf (f : Format) : List Entry := (f.attrs.filter (·.persistent)).map (fun a => entryFor f a.name)

theorem bang_word : bang ≠ [] ∧ ∀ c ∈ bang, isCSpace c = false := by decide

theorem readWord_bang {lead more : List Char} (hl : ∀ c ∈ lead, isCSpace c = true) :
    readWord (lead ++ (bang ++ '\n' :: more)) = (bang, '\n' :: more) :=
  readWord_word hl bang_word.1 bang_word.2 (spaceHead_cons (by decide))

theorem tagLoop_cols (f : Format) (pa : List Attr) :
    ∀ (lead : List Char) (acc : List Entry) (more : List Char) (fuel : Nat),
      (∀ c ∈ lead, isCSpace c = true) → (∀ a ∈ pa, WordLike a.name) → pa.length + 1 ≤ fuel →
      tagLoop f fuel (readWord (lead ++ (pa.flatMap (fun a => a.name ++ [' ']) ++ (bang ++ '\n' :: more)))).1
          (readWord (lead ++ (pa.flatMap (fun a => a.name ++ [' ']) ++ (bang ++ '\n' :: more)))).2 acc
        = (acc ++ pa.map (fun a => entryFor f a.name), '\n' :: more) := by
  induction pa with
  | nil =>
    intro lead acc more fuel hl _ hf
    simp only [List.flatMap_nil, List.nil_append, readWord_bang hl]
    cases fuel with
    | zero => omega
    | succ k => simp [tagLoop]
  | cons a as ih =>
    intro lead acc more fuel hl hw hf
    have hwa := hw a (by simp)
    have e : lead ++ ((a :: as).flatMap (fun a => a.name ++ [' ']) ++ (bang ++ '\n' :: more))
        = lead ++ (a.name ++ ' ' :: (as.flatMap (fun a => a.name ++ [' ']) ++ (bang ++ '\n' :: more))) := by
      simp
    rw [e, readWord_word hl hwa.1 hwa.2.1 (spaceHead_cons (by decide))]
    cases fuel with
    | zero => omega
    | succ k =>
      simp only [tagLoop]
      rw [if_neg (by simp [hwa.2.2])]
      have := ih [' '] (acc ++ [entryFor f a.name]) more k (by decide) (fun b hb => hw b (by simp [hb]))
        (by simp at hf; omega)
      simp only [List.singleton_append] at this
      rw [this]
      simp

theorem getColour_append (done : List Format) (f : Format) (todo : List Format)
    (h : ((done ++ f :: todo).map (·.name)).Nodup) : getColour (done ++ f :: todo) f.name = some done.length := by
  induction done with
  | nil => simp [getColour]
  | cons b done ih =>
    simp only [List.cons_append, List.map_cons, List.nodup_cons] at h
    have hb : b.name ≠ f.name := by
      intro e
      apply h.1
      rw [e]
      simp
    simp [getColour, hb, ih h.2]

theorem getD_append_length (done : List Format) (f : Format) (todo : List Format) :
    (done ++ f :: todo).getD done.length default = f := by
  simp [List.getD]

theorem length_le_flatMap_names (pa : List Attr) : pa.length ≤ (pa.flatMap (fun a => a.name ++ [' '])).length := by
  induction pa with
  | nil => simp
  | cons a as ih =>
    rw [List.flatMap_cons, List.length_append, List.length_append, List.length_cons, List.length_cons,
      List.length_nil]
    omega

theorem headerLine_eq (f : Format) (X : List Char) :
    headerLine f ++ X = f.name ++ ' ' :: ((f.attrs.filter (·.persistent)).flatMap (fun a => a.name ++ [' ']) ++
      (bang ++ '\n' :: X)) := by
  simp [headerLine]

theorem hdrLoop_headers (todo : List Format) :
    ∀ (done : List Format) (lead REST : List Char) (table : Nat → List Entry) (fuel : Nat),
      (∀ f ∈ done ++ todo, f.wf) → (((done ++ todo).map (·.name)).Nodup) →
      (∀ c ∈ lead, isCSpace c = true) → (todo.flatMap headerLine).length + 1 ≤ fuel →
      (∀ c, table c = if c < done.length then entriesOf ((done ++ todo).getD c default) else []) →
      ∃ table', hdrLoop (done ++ todo) fuel
            (readWord (lead ++ (todo.flatMap headerLine ++ (bang ++ '\n' :: REST)))).1
            (readWord (lead ++ (todo.flatMap headerLine ++ (bang ++ '\n' :: REST)))).2 table
          = .ok (table', '\n' :: REST)
        ∧ ∀ c, table' c = if c < (done ++ todo).length then entriesOf ((done ++ todo).getD c default) else [] := by
  induction todo with
  | nil =>
    intro done lead REST table fuel _ _ hl hf htab
    refine ⟨table, ?_, by simpa using htab⟩
    simp only [List.flatMap_nil, List.nil_append, readWord_bang hl]
    cases fuel with
    | zero => omega
    | succ k => simp [hdrLoop]
  | cons f fs ih =>
    intro done lead REST table fuel hwf hnd hl hf htab
    have hfwf : f.wf := hwf f (by simp)
    have e : lead ++ ((f :: fs).flatMap headerLine ++ (bang ++ '\n' :: REST))
        = lead ++ (f.name ++ ' ' :: ((f.attrs.filter (·.persistent)).flatMap (fun a => a.name ++ [' ']) ++
            (bang ++ '\n' :: (fs.flatMap headerLine ++ (bang ++ '\n' :: REST))))) := by
      simp only [List.flatMap_cons, List.append_assoc]
      rw [headerLine_eq]
    rw [e, readWord_word hl hfwf.name.1 hfwf.name.2.1 (spaceHead_cons (by decide))]
    cases fuel with
    | zero => omega
    | succ k =>
      simp only [hdrLoop]
      rw [if_neg (by simp [hfwf.name.2.2])]
      rw [getColour_append done f fs hnd]
      simp only
      rw [getD_append_length]
      have hlen : (f.attrs.filter (·.persistent)).length + 1 ≤ k + 1 := by
        have h1 := length_le_flatMap_names (f.attrs.filter (·.persistent))
        have h2 : ((f.attrs.filter (·.persistent)).flatMap (fun a => a.name ++ [' '])).length
            ≤ (headerLine f).length := by simp [headerLine]; omega
        simp only [List.flatMap_cons, List.length_append] at hf
        omega
      have ht := tagLoop_cols f (f.attrs.filter (·.persistent)) [' '] [] (fs.flatMap headerLine ++ (bang ++ '\n' :: REST))
        (k + 1) (by decide) (fun a ha => hfwf.attrNames a (List.mem_filter.mp ha).1) hlen
      simp only [List.singleton_append, List.nil_append] at ht
      rw [ht]
      simp only
      rw [if_neg (by simp)]
      have e2 : done ++ f :: fs = (done ++ [f]) ++ fs := by simp
      have hk : (fs.flatMap headerLine).length + 1 ≤ k := by
        have : 1 ≤ (headerLine f).length := by simp [headerLine]; omega
        simp only [List.flatMap_cons, List.length_append] at hf
        omega
      obtain ⟨table', h1, h2⟩ := ih (done ++ [f]) ['\n'] REST
        (fun c' => if c' = done.length then table c' ++ entriesOf f else table c') k
        (by rw [← e2]; exact hwf) (by rw [← e2]; exact hnd) (by decide) hk
        (by
          intro c
          rw [← e2]
          by_cases hc : c = done.length
          · subst hc
            simp [htab, entriesOf]
          · simp only [hc, if_false, htab, List.length_append, List.length_singleton]
            by_cases hlt : c < done.length
            · simp [hlt, Nat.lt_succ_of_lt hlt]
            · have : ¬ c < done.length + 1 := by omega
              simp [hlt, this])
      refine ⟨table', ?_, by rw [e2]; exact h2⟩
      rw [← e2] at h1
      simp only [List.singleton_append] at h1
      exact h1


/-! ## the particle lines -/

/-- the line the writer emits for a record -/
def lineOf (fmts : List Format) (r : Rec) : List Char :=
  particleLine (fmts.getD r.colour default) r.frozen r.p

/-- the record the reader can restore at best -/
def restrictRec (fmts : List Format) (r : Rec) : Rec :=
  { r with p := r.p.persistentPart (fmts.getD r.colour default) }

theorem particleLine_append (f : Format) (frozen : Bool) (p : Particle) (X : List Char) :
    particleLine f frozen p ++ X = f.name ++ ' ' :: ((if frozen then wFrozen else wFree) ++ ' ' ::
      (fmtP3s 8 p.r ++ ' ' :: (fmtP3s 8 p.v ++ (tagTokens f.attrs p.tags ++ '\n' :: X)))) := by
  simp [particleLine]

theorem getColour_getD (fmts : List Format) (hnd : (fmts.map (·.name)).Nodup) (c : Nat) (hc : c < fmts.length) :
    getColour fmts (fmts.getD c default).name = some c := by
  have hsplit : fmts = fmts.take c ++ fmts[c] :: fmts.drop (c + 1) := by
    rw [List.getElem_cons_drop]; simp
  have hlen : (fmts.take c).length = c := by simp; omega
  have hg : fmts.getD c default = fmts[c] := by simp [List.getD, hc]
  rw [hg]
  have := getColour_append (fmts.take c) fmts[c] (fmts.drop (c + 1)) (by rw [← hsplit]; exact hnd)
  rw [← hsplit, hlen] at this
  exact this

theorem partLoop_lines (fmts : List Format) (table : Nat → List Entry)
    (hfm : ∀ f ∈ fmts, f.wf) (hnd : (fmts.map (·.name)).Nodup)
    (htab : ∀ c, c < fmts.length → table c = entriesOf (fmts.getD c default)) (recs : List Rec) :
    ∀ (lead : List Char) (acc : List Rec) (fuel : Nat),
      (∀ c ∈ lead, isCSpace c = true) → recs.length + 1 ≤ fuel →
      (∀ r ∈ recs, r.colour < fmts.length ∧ Particle.wf (fmts.getD r.colour default) r.p) →
      partLoop fmts table fuel
          (readWord (lead ++ (recs.flatMap (lineOf fmts) ++ (bang ++ ['\n'])))).1
          (readWord (lead ++ (recs.flatMap (lineOf fmts) ++ (bang ++ ['\n'])))).2 acc
        = .ok (acc ++ recs.map (restrictRec fmts)) := by
  induction recs with
  | nil =>
    intro lead acc fuel hl hf _
    simp only [List.flatMap_nil, List.nil_append, readWord_bang hl]
    cases fuel with
    | zero => omega
    | succ k => simp [partLoop]
  | cons r rs ih =>
    intro lead acc fuel hl hf hw
    obtain ⟨hc, hp⟩ := hw r (by simp)
    have hmem : fmts.getD r.colour default ∈ fmts := by
      simp only [List.getD, List.getElem?_eq_getElem hc, Option.getD_some]
      exact List.getElem_mem hc
    have hfwf : (fmts.getD r.colour default).wf := hfm _ hmem
    have e : lead ++ ((r :: rs).flatMap (lineOf fmts) ++ (bang ++ ['\n']))
        = lead ++ ((fmts.getD r.colour default).name ++ ' ' :: ((if r.frozen then wFrozen else wFree) ++ ' ' ::
            (fmtP3s 8 r.p.r ++ ' ' :: (fmtP3s 8 r.p.v ++ (tagTokens (fmts.getD r.colour default).attrs r.p.tags ++
              '\n' :: (rs.flatMap (lineOf fmts) ++ (bang ++ ['\n']))))))) := by
      simp only [List.flatMap_cons, List.append_assoc, lineOf]
      rw [particleLine_append]
    rw [e, readWord_word hl hfwf.name.1 hfwf.name.2.1 (spaceHead_cons (by decide))]
    cases fuel with
    | zero => omega
    | succ k =>
      simp only [partLoop]
      rw [if_neg (not_or.mpr ⟨hfwf.name.2.2, List.cons_ne_nil _ _⟩)]
      rw [getColour_getD fmts hnd r.colour hc]
      simp only
      obtain ⟨sep, T, hT, hsep⟩ := tagTokens_head (fmts.getD r.colour default).attrs r.p.tags
        (rs.flatMap (lineOf fmts) ++ (bang ++ ['\n']))
      have hne : NumEnd (tagTokens (fmts.getD r.colour default).attrs r.p.tags ++
          '\n' :: (rs.flatMap (lineOf fmts) ++ (bang ++ ['\n']))) := by
        rw [hT]; exact numEnd_of_space hsep
      rw [readParticle_line r.frozen hp.r hp.v hne]
      simp only
      obtain ⟨R', hR', hRR⟩ := readTags_tagTokens (fmts.getD r.colour default).name (fmts.getD r.colour default).attrs
        [] [] r.p.tags (rs.flatMap (lineOf fmts) ++ (bang ++ ['\n'])) _ rfl hp.tags
        (by simpa using hfwf.nodup) hfwf.kept (Or.inl rfl)
      simp only [List.nil_append] at hR'
      rw [htab r.colour hc]
      have hent : entriesOf (fmts.getD r.colour default)
          = List.map (fun a => entryFor ⟨(fmts.getD r.colour default).name, (fmts.getD r.colour default).attrs⟩ a.name)
              (List.filter (fun x => x.persistent) (fmts.getD r.colour default).attrs) := rfl
      rw [hent, hR']
      simp only
      have hrec : (⟨r.colour, r.frozen, ⟨r.p.r, r.p.v, List.zipWith (fun a v => if a.persistent = true then v else defaultVal a.ty)
          (fmts.getD r.colour default).attrs r.p.tags⟩⟩ : Rec) = restrictRec fmts r := by
        simp [restrictRec, Particle.persistentPart]
      rw [hrec]
      rcases hRR with h | h
      · subst h
        have := ih [] (acc ++ [restrictRec fmts r]) k (by simp) (by simp at hf; omega)
          (fun x hx => hw x (by simp [hx]))
        simp only [List.nil_append] at this
        rw [this]
        simp
      · subst h
        have := ih ['\n'] (acc ++ [restrictRec fmts r]) k (by decide) (by simp at hf; omega)
          (fun x hx => hw x (by simp [hx]))
        simp only [List.singleton_append] at this
        rw [this]
        simp


/-! ## lists of lists -/

theorem All2.length_eq {α β : Type} {R : α → β → Prop} : ∀ {l : List α} {m : List β}, All2 R l m → l.length = m.length
  | [], [], _ => rfl
  | [], _ :: _, h => by simp [All2] at h
  | _ :: _, [], h => by simp [All2] at h
  | _ :: l, _ :: m, h => by simp only [All2] at h; simp [All2.length_eq h.2]

theorem getD_eq_getElem (fmts : List Format) (k : Nat) (hk : k < fmts.length) : fmts.getD k default = fmts[k] := by
  simp [List.getD, hk]

theorem particleLines_eq (fmts : List Format) (fz : Bool) (pss : List (List Particle)) :
    ∀ k, k + pss.length ≤ fmts.length →
      particleLines fz (fmts.drop k) pss = (recsFrom fz k pss).flatMap (lineOf fmts) := by
  induction pss with
  | nil => intro k _; cases fmts.drop k <;> simp [particleLines, recsFrom]
  | cons ps pss ih =>
    intro k hk
    have hk' : k < fmts.length := by simp at hk; omega
    rw [List.drop_eq_getElem_cons hk']
    simp only [particleLines, recsFrom, List.flatMap_append]
    rw [ih (k + 1) (by simp at hk; omega)]
    congr 1
    rw [List.flatMap_map]
    simp [lineOf, List.getElem?_eq_getElem hk']

theorem recsFrom_wf (fmts : List Format) (fz : Bool) (pss : List (List Particle)) :
    ∀ k, All2 (fun f ps => ∀ p ∈ ps, Particle.wf f p) (fmts.drop k) pss →
      ∀ r ∈ recsFrom fz k pss, r.colour < fmts.length ∧ Particle.wf (fmts.getD r.colour default) r.p := by
  induction pss with
  | nil => intro k _ r hr; simp [recsFrom] at hr
  | cons ps pss ih =>
    intro k h r hr
    by_cases hk' : k < fmts.length
    · rw [List.drop_eq_getElem_cons hk'] at h
      simp only [All2] at h
      simp only [recsFrom, List.mem_append, List.mem_map] at hr
      rcases hr with ⟨p, hp, rfl⟩ | hr
      · exact ⟨hk', by rw [getD_eq_getElem fmts k hk']; exact h.1 p hp⟩
      · exact ih (k + 1) (by simpa using h.2) r hr
    · rw [List.drop_eq_nil_of_le (by omega)] at h
      simp [All2] at h

theorem recsFrom_restrict (fmts : List Format) (fz : Bool) (pss : List (List Particle)) :
    ∀ k, k + pss.length ≤ fmts.length →
      (recsFrom fz k pss).map (restrictRec fmts)
        = recsFrom fz k (List.zipWith (fun f ps => ps.map (Particle.persistentPart f)) (fmts.drop k) pss) := by
  induction pss with
  | nil => intro k _; simp [recsFrom]
  | cons ps pss ih =>
    intro k hk
    have hk' : k < fmts.length := by simp at hk; omega
    rw [List.drop_eq_getElem_cons hk']
    simp only [recsFrom, List.map_append, List.zipWith_cons_cons]
    rw [ih (k + 1) (by simp at hk; omega)]
    congr 1
    simp [restrictRec, List.getElem?_eq_getElem hk']

theorem filter_recsFrom (fz fz' : Bool) (c : Nat) (pss : List (List Particle)) :
    ∀ k, ((recsFrom fz k pss).filter (fun r => r.colour = c ∧ r.frozen = fz')).map (·.p)
      = if fz = fz' ∧ k ≤ c then pss.getD (c - k) [] else [] := by
  induction pss with
  | nil => intro k; simp [recsFrom]
  | cons ps pss ih =>
    intro k
    simp only [recsFrom, List.filter_append, List.map_append]
    rw [ih (k + 1)]
    by_cases h1 : fz = fz'
    · subst h1
      by_cases h2 : k = c
      · subst h2
        have : ¬ (k + 1 ≤ k) := by omega
        simp [this, List.filter_map, Function.comp_def]
      · by_cases h3 : k ≤ c
        · have h4 : k + 1 ≤ c := by omega
          have h5 : c - k = (c - (k + 1)) + 1 := by omega
          simp [h3, h4, List.filter_map, Function.comp_def, h2, h5]
        · have h4 : ¬ k + 1 ≤ c := by omega
          simp [h3, h4, List.filter_map, Function.comp_def, h2]
    · simp [h1, List.filter_map, Function.comp_def]

theorem range_getD {α : Type} (l : List α) (d : α) (n : Nat) (h : l.length = n) :
    (List.range n).map (fun c => l.getD c d) = l := by
  apply List.ext_getElem
  · simp [h]
  · intro i h1 h2
    simp [List.getD, List.getElem?_eq_getElem h2]

theorem toPhase_records (n : Nat) (sys : System) (h1 : sys.free.length = n) (h2 : sys.frozen.length = n) :
    toPhase n sys.records = sys := by
  have hf : ∀ c, ((sys.records).filter (fun r => r.colour = c ∧ r.frozen = false)).map (·.p) = sys.free.getD c [] := by
    intro c
    simp only [System.records, List.filter_append, List.map_append]
    rw [filter_recsFrom false false c sys.free 0, filter_recsFrom true false c sys.frozen 0]
    simp
  have hz : ∀ c, ((sys.records).filter (fun r => r.colour = c ∧ r.frozen = true)).map (·.p) = sys.frozen.getD c [] := by
    intro c
    simp only [System.records, List.filter_append, List.map_append]
    rw [filter_recsFrom false true c sys.free 0, filter_recsFrom true true c sys.frozen 0]
    simp
  cases sys with
  | mk free frozen =>
    simp only [toPhase, hf, hz]
    simp only at h1 h2
    rw [range_getD free [] n h1, range_getD frozen [] n h2]

theorem length_le_flatMap_lines (fmts : List Format) (recs : List Rec) :
    recs.length ≤ (recs.flatMap (lineOf fmts)).length := by
  induction recs with
  | nil => simp
  | cons r rs ih =>
    have : 1 ≤ (lineOf fmts r).length := by simp [lineOf, particleLine]; omega
    rw [List.flatMap_cons, List.length_append, List.length_cons]
    omega

/-! ## the whole file -/

theorem read_write (fmts : List Format) (sys : System) (h : System.wf fmts sys) :
    read fmts (write fmts sys) = .ok (sys.persistentPart fmts).records := by
  have hlf := h.free.length_eq
  have hlz := h.frozen.length_eq
  have hPL : particleLines false fmts sys.free ++ (particleLines true fmts sys.frozen ++ (bang ++ ['\n']))
      = sys.records.flatMap (lineOf fmts) ++ (bang ++ ['\n']) := by
    have a := particleLines_eq fmts false sys.free 0 (by omega)
    have b := particleLines_eq fmts true sys.frozen 0 (by omega)
    simp only [List.drop_zero] at a b
    rw [a, b]
    simp [System.records, List.flatMap_append]
  have hrw : ∀ r ∈ sys.records, r.colour < fmts.length ∧ Particle.wf (fmts.getD r.colour default) r.p := by
    intro r hr
    simp only [System.records, List.mem_append] at hr
    rcases hr with hr | hr
    · exact recsFrom_wf fmts false sys.free 0 (by simpa using h.free) r hr
    · exact recsFrom_wf fmts true sys.frozen 0 (by simpa using h.frozen) r hr
  have hres : sys.records.map (restrictRec fmts) = (sys.persistentPart fmts).records := by
    have a := recsFrom_restrict fmts false sys.free 0 (by omega)
    have b := recsFrom_restrict fmts true sys.frozen 0 (by omega)
    simp only [List.drop_zero] at a b
    simp [System.records, System.persistentPart, a, b]
  unfold read
  have hw : write fmts sys = [] ++ (fmts.flatMap headerLine ++ (bang ++ '\n' ::
      (sys.records.flatMap (lineOf fmts) ++ (bang ++ ['\n'])))) := by
    simp only [write, List.nil_append]
    rw [hPL]
  have hlen1 : (fmts.flatMap headerLine).length + 1 ≤ (write fmts sys).length + 1 := by
    rw [hw]; simp only [List.nil_append, List.length_append]; omega
  have hlen2 : sys.records.length + 1 ≤ (write fmts sys).length + 1 := by
    have := length_le_flatMap_lines fmts sys.records
    rw [hw]; simp only [List.nil_append, List.length_append, List.length_cons]; omega
  obtain ⟨table', ht1, ht2⟩ := hdrLoop_headers fmts [] [] (sys.records.flatMap (lineOf fmts) ++ (bang ++ ['\n']))
    (fun _ => []) ((write fmts sys).length + 1) (by simpa using h.formats) (by simpa using h.names) (by simp)
    hlen1 (by intro c; simp)
  simp only [List.nil_append] at ht1 ht2 hw
  generalize (write fmts sys).length + 1 = fuel at *
  rw [hw]
  simp only
  rw [ht1]
  simp only
  have := partLoop_lines fmts table' h.formats h.names (fun c hc => by rw [ht2 c, if_pos hc]) sys.records
    ['\n'] [] fuel (by decide) hlen2 hrw
  simp only [List.singleton_append, List.nil_append] at this
  rw [this, hres]

theorem restore_write (fmts : List Format) (sys : System) (h : System.wf fmts sys) :
    restore fmts (write fmts sys) = .ok (sys.persistentPart fmts) := by
  unfold restore
  rw [read_write fmts sys h]
  simp only
  have hlf := h.free.length_eq
  have hlz := h.frozen.length_eq
  rw [toPhase_records]
  · simp [System.persistentPart, ← hlf]
  · simp [System.persistentPart, ← hlz]


end Sympler.Restart
