import Sympler.DataFormatFrame
/-!
# Inversion of the copy constructor and of `operator=`, facts about the deep copy (C14)

Core Lean only.
-/
namespace Sympler.DataFormat

local notation "Addr" => Nat

/-- the successful outcomes of `Data::Data(const Data&)` -/
theorem copyData_ok_cases {s s' : State} {e id : Nat} (h : copyData s e = .ok (s', id)) :
    ∃ src : Data, s.datas[e]? = some (some src) ∧ id = s.datas.length ∧
      ((src.fmt = none ∧ s' = { s with datas := s.datas ++ [some ⟨none, none⟩] }) ∨
       (∃ (fid : Nat) (f : Format), src.fmt = some fid ∧ s.fmts[fid]? = some f ∧ f.size = 0 ∧
          s' = { s with datas := s.datas ++ [some ⟨some fid, none⟩] }) ∨
       (∃ (fid : Nat) (f : Format) (b : Block) (vals : List Val) (h' : Heap),
          src.fmt = some fid ∧ s.fmts[fid]? = some f ∧ f.size ≠ 0 ∧ src.block = some b ∧
          ¬ b.size < f.size ∧ b.vals.any Val.isLiveStr = false ∧ spMisaligned f.byIndex = false ∧
          deepCopyVals s.heap f.byIndex b.vals b.vals = .ok (vals, h') ∧
          s' = { s with datas := s.datas ++ [some ⟨some fid, some ⟨f.size, vals⟩⟩], heap := h' })) := by
  unfold copyData at h
  split at h
  · cases h
  · rename_i src hsrc
    refine ⟨src, getData_ok.1 hsrc, ?_⟩
    split at h
    · rename_i hn
      simp only [Except.ok.injEq, Prod.mk.injEq] at h
      exact ⟨h.2.symm, Or.inl ⟨hn, h.1.symm⟩⟩
    · rename_i fid hfid
      split at h
      · cases h
      · rename_i f hf
        split at h
        · rename_i h0
          simp only [Except.ok.injEq, Prod.mk.injEq] at h
          exact ⟨h.2.symm, Or.inr (Or.inl ⟨fid, f, hfid, getFmt_ok.1 hf, h0, h.1.symm⟩)⟩
        · rename_i h0
          split at h
          · cases h
          · rename_i b hb
            split at h
            · cases h
            · rename_i hfull
              split at h
              · cases h
              · rename_i hstr
                split at h
                · cases h
                · rename_i hmis
                  split at h
                  · cases h
                  · rename_i vals h' hc
                    simp only [Except.ok.injEq, Prod.mk.injEq] at h
                    exact ⟨h.2.symm, Or.inr (Or.inr ⟨fid, f, b, vals, h', hfid, getFmt_ok.1 hf, h0, hb, hfull,
                      by simpa using hstr, by simpa using hmis, hc, h.1.symm⟩)⟩

/-- what the deep copy loop produces in a state satisfying the invariant -/
theorem deepCopy_props {al : Option Nat} {s : State} (hs : Inv al s) {e fid : Nat} {f : Format} {src : Data}
    {b : Block} {vals : List Val} {h' : Heap}
    (hsrc : s.datas[e]? = some (some src)) (hsf : src.fmt = some fid) (hsb : src.block = some b)
    (hf : s.fmts[fid]? = some f) (hfull : ¬ b.size < f.size)
    (hc : deepCopyVals s.heap f.byIndex b.vals b.vals = .ok (vals, h')) :
    (∃ extra : List (Option Cell), h' = s.heap ++ extra) ∧ vals.length = b.vals.length ∧
      b.vals.length = f.byIndex.length ∧
      ∀ (k : Nat) (v : Val), b.vals[k]? = some v →
        ∃ v' : Val, vals[k]? = some v' ∧ ∀ r, resolve s.heap v = .ok r → resolve h' v' = .ok r := by
  have hfo := hs.fmts fid f hf
  have hdo := hs.datas e src hsrc
  unfold DataOk at hdo
  simp only [hsf] at hdo
  obtain ⟨f0, hf0, hb0⟩ := hdo
  rw [hf] at hf0; cases hf0
  have hbo := hb0 b hsb
  have hlenb := hbo.full_of_not_lt hfo hfull
  have hv : valsOf s.datas e = b.vals := valsOf_of_block hsrc hsb
  have hlive := hs.heap.ownedLive e
  rw [hv] at hlive
  rcases deepCopyVals_spec f.byIndex s.heap b.vals hlenb hbo.typed hlive with he | ⟨vs', h'', extra, h1, h2, h3, h4, h5, h6, h7, h8⟩
  · rw [he] at hc; cases hc
  · rw [h1] at hc
    simp only [Except.ok.injEq, Prod.mk.injEq] at hc
    obtain ⟨hc1, hc2⟩ := hc
    subst hc1 hc2
    refine ⟨⟨extra, h2⟩, h4, hlenb, ?_⟩
    intro k v hk
    have hklt : k < f.byIndex.length := by rw [← hlenb]; exact lt_of_getElem?_some hk
    have hatt : f.byIndex[k]? = some f.byIndex[k] := by simp [hklt]
    have := h8 k v _ hk hatt
    by_cases hcon : (f.byIndex[k]).dtype.isContainer = true
    · simp only [hcon, if_true] at this
      obtain ⟨y, n, c, e1, e2, e3, e4⟩ := this
      refine ⟨Val.sp (some n), e3, ?_⟩
      intro r hr
      subst e1
      simp only [resolve, Heap.get_eq_some.2 e2] at hr
      simp only [resolve, Heap.get_eq_some.2 e4]
      exact hr
    · simp only [hcon] at this
      rw [if_neg (by simp)] at this
      refine ⟨v, this, ?_⟩
      intro r hr
      have hns : ∀ x, v ≠ Val.sp x :=
        hasType_noncontainer (hbo.typed k v _ hk hatt) (by simpa using hcon)
      apply resolve_frame _ hr
      intro adr c hv' _
      exact absurd hv' (hns _)

/-- the successful outcomes of `Data::operator=` -/
theorem assignData_ok_cases {s s' : State} {d e : Nat} (h : assignData s d e = .ok s') :
    ∃ dst src : Data, s.datas[d]? = some (some dst) ∧ s.datas[e]? = some (some src) ∧
      ((dst.fmt ≠ src.fmt ∧ ∃ h1 : Heap, releaseIfFmt s dst = .ok h1 ∧
          ((src.fmt = none ∧ s' = { s with heap := h1 }.setData d (some ⟨none, none⟩)) ∨
           (∃ (fid : Nat) (f : Format) (b : Block) (vals : List Val) (h' : Heap),
              src.fmt = some fid ∧ s.fmts[fid]? = some f ∧ f.size ≠ 0 ∧ src.block = some b ∧
              ¬ b.size < f.size ∧ b.vals.any Val.isLiveStr = false ∧ spMisaligned f.byIndex = false ∧
              deepCopyVals h1 f.byIndex b.vals b.vals = .ok (vals, h') ∧
              s' = { s with heap := h' }.setData d (some ⟨some fid, some ⟨f.size, vals⟩⟩)))) ∨
       (dst.fmt = src.fmt ∧
          ((src.fmt = none ∧ s' = s) ∨
           (∃ (fid : Nat) (f : Format) (db b : Block) (vals : List Val) (h' : Heap),
              src.fmt = some fid ∧ s.fmts[fid]? = some f ∧ dst.block = some db ∧ src.block = some b ∧
              ¬ db.size < f.size ∧ ¬ b.size < f.size ∧ b.vals.any Val.isLiveStr = false ∧
              spMisaligned f.byIndex = false ∧
              deepCopyVals s.heap f.byIndex b.vals b.vals = .ok (vals, h') ∧
              s' = { s with heap := h', leaked := s.leaked ++ db.vals.filterMap Val.spAddr }.setData d
                    (some ⟨some fid, some ⟨db.size, vals⟩⟩))))) := by
  unfold assignData at h
  split at h
  · cases h
  · rename_i dst hdst
    split at h
    · cases h
    · rename_i src hsrc
      refine ⟨dst, src, getData_ok.1 hdst, getData_ok.1 hsrc, ?_⟩
      split at h
      · rename_i hne
        left
        refine ⟨hne, ?_⟩
        split at h
        · cases h
        · rename_i h1 hrel
          refine ⟨h1, by unfold releaseIfFmt; exact hrel, ?_⟩
          split at h
          · rename_i hn
            injection h with h
            exact Or.inl ⟨hn, h.symm⟩
          · rename_i fid hfid
            split at h
            · cases h
            · rename_i f hf
              split at h
              · cases h
              · rename_i h0
                split at h
                · cases h
                · rename_i b hb
                  split at h
                  · cases h
                  · rename_i hfull
                    split at h
                    · cases h
                    · rename_i hstr
                      split at h
                      · cases h
                      · rename_i hmis
                        split at h
                        · cases h
                        · rename_i vals h' hc
                          injection h with h
                          exact Or.inr ⟨fid, f, b, vals, h', hfid, getFmt_ok.1 hf, h0, hb, hfull,
                            by simpa using hstr, by simpa using hmis, hc, h.symm⟩
      · rename_i heq
        right
        refine ⟨Decidable.not_not.1 heq, ?_⟩
        split at h
        · rename_i hn
          injection h with h
          exact Or.inl ⟨hn, h.symm⟩
        · rename_i fid hfid
          split at h
          · cases h
          · rename_i f hf
            split at h
            · rename_i db b hdb hb
              split at h
              · cases h
              · rename_i hnst
                split at h
                · cases h
                · rename_i hstr
                  split at h
                  · cases h
                  · rename_i hmis
                    split at h
                    · cases h
                    · rename_i vals h' hc
                      injection h with h
                      have hst : ¬ db.size < f.size ∧ ¬ b.size < f.size := by
                        simp only [Bool.or_eq_true, decide_eq_true_eq, not_or] at hnst
                        exact hnst
                      exact Or.inr ⟨fid, f, db, b, vals, h', hfid, getFmt_ok.1 hf, hdb, hb, hst.1, hst.2,
                        by simpa using hstr, by simpa using hmis, hc, h.symm⟩
            · cases h

end Sympler.DataFormat
