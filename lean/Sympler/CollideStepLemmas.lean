import Sympler.CollideLemmas
/-!
Lemmas about `Cell::checkNewPosition` and the whole step of `Sympler.Collide` (core Lean only).
-/
namespace Sympler.Collide
open V3

theorem intCast_add_one (a : Int) : ((a + 1 : Int) : Rat) = (a : Rat) + 1 := by grind
theorem intCast_sub_one (a : Int) : ((a - 1 : Int) : Rat) = (a : Rat) - 1 := by grind
theorem intCast_add (a b : Int) : ((a + b : Int) : Rat) = (a : Rat) + (b : Rat) := by grind
theorem intCast_sub (a b : Int) : ((a - b : Int) : Rat) = (a : Rat) - (b : Rat) := by grind

/-- `checkNewPosition` in one direction: with a displacement below one cell width the particle is in its cell or in
the neighbouring one (after the periodic shift), and a neighbour beyond a wall is never needed when the particle is
between the walls. -/
theorem cell1d {w L geps : Rat} {n ci : Int} {per : Bool} {r0 r1 : Rat}
    (hw : 0 < w) (hL : (n : Rat) * w = L) (hc0 : 0 ≤ ci) (hc1 : ci < n)
    (hr0 : (ci : Rat) * w - geps ≤ r0) (hr0' : r0 < ((ci + 1 : Int) : Rat) * w + geps)
    (hd : -(w - geps) < r1 - r0) (hd' : r1 - r0 < w - geps)
    (hins : per = false → 0 < r1 ∧ r1 < L) (off : Int)
    (hoff : off = if r1 < (ci : Rat) * w then -1 else if r1 ≥ ((ci + 1 : Int) : Rat) * w then 1 else 0) :
    (per = true ∨ (0 ≤ ci + off ∧ ci + off < n)) ∧
    (∀ cell' r', cell' = (if ci + off < 0 then ci + off + n else if ci + off ≥ n then ci + off - n else ci + off) →
      r' = (if ci + off < 0 then r1 + L else if ci + off ≥ n then r1 - L else r1) →
      0 ≤ cell' ∧ cell' < n ∧ (cell' : Rat) * w ≤ r' ∧ r' < ((cell' + 1 : Int) : Rat) * w ∧
      (per = false → r' = r1)) := by
  rw [intCast_add_one] at hr0' hoff
  by_cases h1 : r1 < (ci : Rat) * w
  · -- off = -1
    rw [if_pos h1] at hoff
    subst hoff
    have hper : per = false → 0 < ci := by
      intro hp
      have := (hins hp).1
      apply int_lt_of_mul_lt hw
      have e : ((0 : Int) : Rat) = 0 := by grind
      rw [e]; grind
    refine ⟨?_, ?_⟩
    · cases per
      · have := hper rfl; right; omega
      · left; rfl
    · intro cell' r' hcell hr
      by_cases hneg : ci + -1 < 0
      · have hci : ci = 0 := by omega
        have hp : per = true := by
          cases per
          · have := hper rfl; omega
          · rfl
        rw [if_pos hneg] at hcell hr
        subst hcell hr hci
        rw [intCast_add_one]
        have e : ((0 + -1 + n : Int) : Rat) = (n : Rat) - 1 := by grind
        rw [e]
        have e0 : ((0 : Int) : Rat) = 0 := by grind
        rw [e0] at h1 hr0
        refine ⟨by omega, by omega, by grind, by grind, by simp [hp]⟩
      · rw [if_neg hneg, if_neg (by omega)] at hcell hr
        subst hcell hr
        rw [intCast_add_one]
        have e : ((ci + -1 : Int) : Rat) = (ci : Rat) - 1 := by grind
        rw [e]
        refine ⟨by omega, by omega, by grind, by grind, fun _ => rfl⟩
  · rw [if_neg h1] at hoff
    by_cases h2 : r1 ≥ ((ci : Rat) + 1) * w
    · -- off = +1
      rw [if_pos h2] at hoff
      subst hoff
      have hper : per = false → ci + 1 < n := by
        intro hp
        have := (hins hp).2
        apply int_lt_of_mul_lt hw
        rw [intCast_add_one]; grind
      refine ⟨?_, ?_⟩
      · cases per
        · have := hper rfl; right; omega
        · left; rfl
      · intro cell' r' hcell hr
        by_cases hge : ci + 1 ≥ n
        · have hci : ci = n - 1 := by omega
          have hp : per = true := by
            cases per
            · have := hper rfl; omega
            · rfl
          rw [if_neg (by omega), if_pos hge] at hcell hr
          subst hcell hr
          rw [intCast_add_one]
          have e : ((ci + 1 - n : Int) : Rat) = 0 := by
            have : ci + 1 - n = 0 := by omega
            rw [this]; grind
          have e2 : (ci : Rat) = (n : Rat) - 1 := by rw [hci]; grind
          rw [e]
          rw [e2] at h2 hr0'
          refine ⟨by omega, by omega, by grind, by grind, by simp [hp]⟩
        · rw [if_neg (by omega), if_neg hge] at hcell hr
          subst hcell hr
          rw [intCast_add_one, intCast_add_one]
          refine ⟨by omega, by omega, by grind, by grind, fun _ => rfl⟩
    · -- off = 0
      rw [if_neg h2] at hoff
      subst hoff
      refine ⟨Or.inr ⟨by omega, by omega⟩, ?_⟩
      intro cell' r' hcell hr
      rw [if_neg (by omega), if_neg (by omega)] at hcell hr
      subst hcell hr
      rw [intCast_add_one]
      have e : ((ci + 0 : Int) : Rat) = (ci : Rat) := by grind
      rw [e]
      refine ⟨by omega, by omega, by grind, by grind, fun _ => rfl⟩


theorem insideEps_iff (c : Cfg) (cell : I3) (r : V3) :
    insideEps c cell r = true ↔ ∀ d, c1 c cell d - c.geps ≤ r d ∧ r d < c2 c cell d + c.geps := by
  unfold insideEps
  rw [all3_iff]
  constructor <;> intro h d <;> have := h d <;> simp at this ⊢ <;> grind

theorem inside_iff (c : Cfg) (cell : I3) (r : V3) :
    inside c cell r = true ↔ ∀ d, c1 c cell d ≤ r d ∧ r d < c2 c cell d := by
  unfold inside
  rw [all3_iff]
  constructor <;> intro h d <;> have := h d <;> simp at this ⊢ <;> grind

theorem hasOutlet_iff (c : Cfg) (cell off : I3) :
    hasOutlet c cell off = true ↔ ∀ d, c.per d = true ∨ (0 ≤ cell d + off d ∧ cell d + off d < c.ncell d) := by
  unfold hasOutlet
  rw [all3_iff]
  constructor <;> intro h d <;> have := h d <;> simp at this ⊢ <;> grind

/-- `checkNewPosition` keeps a particle that is between the walls and moved by less than one cell width -/
theorem checkNewPosition_ok {c : Cfg} (ok : CfgOK c) {p0 : PState} (cell : CellOK c p0) {r1 : V3}
    (ins : InsideW c r1)
    (hdisp : ∀ d, -(c.w d - c.geps) < r1 d - p0.r d ∧ r1 d - p0.r d < c.w d - c.geps) (v : V3) (tr : List Hit) :
    ∃ p', checkNewPosition c p0.cell r1 v tr = .ok p' tr ∧ p'.v = v ∧ InsideW c p'.r ∧ CellOK c p' := by
  unfold checkNewPosition
  by_cases hin : insideEps c p0.cell r1 = true
  · rw [if_pos hin]
    refine ⟨_, rfl, rfl, ins, ?_⟩
    intro d
    have := (insideEps_iff c p0.cell r1).mp hin d
    have := cell d
    grind
  · rw [if_neg hin]
    have h1d : ∀ d, _ := fun d =>
      cell1d (w_pos ok d) (ncell_mul_w ok d) (cell d).1 (cell d).2.1 (cell d).2.2.1 (cell d).2.2.2
        (hdisp d).1 (hdisp d).2 (ins d) (offs c p0.cell r1 d) rfl
    have hout : hasOutlet c p0.cell (offs c p0.cell r1) = true := by
      rw [hasOutlet_iff]
      intro d
      exact (h1d d).1
    simp only [hout, Bool.not_true, Bool.false_eq_true, if_false]
    have key : ∀ d, 0 ≤ (target c p0.cell (offs c p0.cell r1) r1).1 d ∧
        (target c p0.cell (offs c p0.cell r1) r1).1 d < c.ncell d ∧
        (((target c p0.cell (offs c p0.cell r1) r1).1 d : Int) : Rat) * c.w d ≤ (target c p0.cell (offs c p0.cell r1) r1).2 d ∧
        (target c p0.cell (offs c p0.cell r1) r1).2 d <
          (((target c p0.cell (offs c p0.cell r1) r1).1 d + 1 : Int) : Rat) * c.w d ∧
        (c.per d = false → (target c p0.cell (offs c p0.cell r1) r1).2 d = r1 d) :=
      fun d => (h1d d).2 _ _ rfl rfl
    generalize target c p0.cell (offs c p0.cell r1) r1 = T at key ⊢
    have hins : inside c T.1 T.2 = true := by
      rw [inside_iff]
      intro d
      have := key d
      unfold c1 c2
      exact ⟨this.2.2.1, this.2.2.2.1⟩
    rw [if_pos hins]
    refine ⟨_, rfl, rfl, ?_, ?_⟩
    · intro d hp
      show 0 < T.2 d ∧ T.2 d < c.box d
      rw [(key d).2.2.2.2 hp]
      exact ins d hp
    · intro d
      have := key d
      have hg := ok.geps_nonneg
      show 0 ≤ T.1 d ∧ T.1 d < c.ncell d ∧ c1 c T.1 d - c.geps ≤ T.2 d ∧ T.2 d < c2 c T.1 d + c.geps
      unfold c1 c2
      refine ⟨this.1, this.2.1, ?_, ?_⟩ <;> grind


theorem checkNewPosition_trace (c : Cfg) (cell : I3) (r v : V3) (tr : List Hit) :
    (checkNewPosition c cell r v tr).trace = tr := by
  unfold checkNewPosition
  split
  · rfl
  · dsimp only
    split
    · rfl
    · split <;> rfl

theorem step_trace {c : Cfg} {dt : Rat} {p : PState} {st : LoopSt}
    (h : doCollision c p.cell 100 ⟨p.r, p.v, dt, []⟩ = .done st) : (step c dt p).trace = st.trace := by
  unfold step
  rw [h]
  exact checkNewPosition_trace ..

theorem linv_init {c : Cfg} {dt : Rat} {p : PState} (hdt : 0 ≤ dt) (ins : InsideW c p.r) :
    LInv c dt p ⟨p.r, p.v, dt, []⟩ := by
  constructor
  · exact hdt
  · exact Rat.le_refl
  · exact ins
  · intro d; exact Or.inl rfl
  · intro d
    simp only [List.length_nil]
    have e : ((0 : Nat) : Rat) = 0 := by grind
    rw [e]
    constructor <;> grind

theorem speedOK_of_sign {c : Cfg} {dt : Rat} {v v' : V3} (sp : SpeedOK c dt v)
    (hs : ∀ d, v' d = v d ∨ v' d = - v d) : SpeedOK c dt v' := by
  intro d
  have := sp d
  rcases hs d with h | h <;> rw [h]
  · exact this
  · rw [absq_neg]; exact this

/-- one time step of one particle: confinement (see `Props/C08.lean`, `C08_confined_cuboid`) -/
theorem step_confined {c : Cfg} (ok : CfgOK c) {dt : Rat} (hdt : 0 ≤ dt) {p : PState}
    (g : Good c p) (sp : SpeedOK c dt p.v) (hne : ∀ h ∈ (step c dt p).trace, NoEdge c h) :
    step c dt p = .tooManyHits ∨
    ∃ p', step c dt p = .ok p' (step c dt p).trace ∧ Good c p' ∧ SpeedOK c dt p'.v ∧
      (∀ d, p'.v d = p.v d ∨ p'.v d = - p.v d) ∧ (step c dt p).trace.length ≤ 99 := by
  cases hdc : doCollision c p.cell 100 ⟨p.r, p.v, dt, []⟩ with
  | tooManyHits => left; unfold step; rw [hdc]
  | done st =>
    right
    have htr := step_trace hdc
    rw [htr] at hne ⊢
    have heb : ∀ d, c.eps < c.box d := eps_lt_box ok hdt sp
    have inv := doCollision_inv ok heb 100 _ _ (linv_init hdt g.1) hdc hne
    obtain ⟨_, hno, hlen, _⟩ := doCollision_done _ _ _ hdc
    simp only [List.length_nil] at hlen
    have hk : st.trace.length ≤ 100 := by omega
    have ins := nohit_inside ok inv g.2 sp hk (checkForHit_none hno)
    have hdisp : ∀ d, -(c.w d - c.geps) < (add st.r (smul st.dtLeft st.v)) d - p.r d ∧
        (add st.r (smul st.dtLeft st.v)) d - p.r d < c.w d - c.geps := by
      intro d
      simp only [add_apply, smul_apply]
      have hd := inv.disp d
      have hb := mul_abs_bound inv.dt_nonneg (inv.vsign d)
      have hsp := sp d
      have hl := Rat.mul_le_mul_of_nonneg_right (natCast_le_100 hk)
        (show 0 ≤ c.eps from by have := ok.eps_pos; grind)
      constructor <;> grind
    obtain ⟨p', hp', hv', hin', hcell'⟩ := checkNewPosition_ok ok g.2 ins hdisp st.v st.trace
    refine ⟨p', ?_, ⟨hin', hcell'⟩, ?_, ?_, by omega⟩
    · unfold step; rw [hdc]; exact hp'
    · apply speedOK_of_sign sp; intro d; rw [hv']; exact inv.vsign d
    · intro d; rw [hv']; exact inv.vsign d


/-! ### all particles, several steps -/

/-- no hit of this particle's next step is on an edge or corner -/
def NoEdgeStep (c : Cfg) (dt : Rat) (p : PState) : Prop := ∀ h ∈ (step c dt p).trace, NoEdge c h

def AllOK (c : Cfg) (dt : Rat) (ps : List PState) : Prop := ∀ p ∈ ps, Good c p ∧ SpeedOK c dt p.v

/-- no edge/corner hit during the next `n` steps of the run -/
def NoEdgeRun (c : Cfg) (dt : Rat) : Nat → List PState → Prop
  | 0, _ => True
  | n + 1, ps => (∀ p ∈ ps, NoEdgeStep c dt p) ∧ ∀ ps', stepAll c dt ps = .ok ps' → NoEdgeRun c dt n ps'

theorem stepAll_count {c : Cfg} (ok : CfgOK c) {dt : Rat} (hdt : 0 ≤ dt) :
    ∀ ps : List PState, AllOK c dt ps → (∀ p ∈ ps, NoEdgeStep c dt p) →
      stepAll c dt ps = .error .tooManyHits ∨
      ∃ ps', stepAll c dt ps = .ok ps' ∧ ps'.length = ps.length ∧ AllOK c dt ps' := by
  intro ps
  induction ps with
  | nil => intro _ _; right; exact ⟨[], rfl, rfl, fun p hp => by cases hp⟩
  | cons p ps ih =>
    intro hall hne
    have hp := hall p List.mem_cons_self
    rcases step_confined ok hdt hp.1 hp.2 (hne p List.mem_cons_self) with h | ⟨p', h, hg, hs, _, _⟩
    · left; unfold stepAll; rw [h]
    · rcases ih (fun q hq => hall q (List.mem_cons_of_mem _ hq)) (fun q hq => hne q (List.mem_cons_of_mem _ hq))
        with h2 | ⟨ps', h2, hl, ha⟩
      · left; unfold stepAll; rw [h]; simp only; rw [h2]; rfl
      · right
        refine ⟨p' :: ps', ?_, by simp [hl], ?_⟩
        · unfold stepAll; rw [h]; simp only; rw [h2]; rfl
        · intro q hq
          rcases List.mem_cons.mp hq with rfl | hq'
          · exact ⟨hg, hs⟩
          · exact ha q hq'

theorem run_count {c : Cfg} (ok : CfgOK c) {dt : Rat} (hdt : 0 ≤ dt) :
    ∀ (n : Nat) (ps : List PState), AllOK c dt ps → NoEdgeRun c dt n ps →
      run c dt n ps = .error .tooManyHits ∨
      ∃ ps', run c dt n ps = .ok ps' ∧ ps'.length = ps.length ∧ AllOK c dt ps' := by
  intro n
  induction n with
  | zero => intro ps hall _; right; exact ⟨ps, rfl, rfl, hall⟩
  | succ n ih =>
    intro ps hall hne
    rcases stepAll_count ok hdt ps hall hne.1 with h | ⟨ps', h, hl, ha⟩
    · left; unfold run; rw [h]
    · rcases ih ps' ha (hne.2 ps' h) with h2 | ⟨ps'', h2, hl2, ha2⟩
      · left; unfold run; rw [h]; exact h2
      · right; exact ⟨ps'', by unfold run; rw [h]; exact h2, by omega, ha2⟩


/-! ### Boolean versions (for `decide` on concrete scenarios) -/

def noEdgeB (c : Cfg) (h : Hit) : Bool :=
  all3 fun k => decide (k = h.wall.d) || c.per k || (decide (0 < h.pos k) && decide (h.pos k < c.box k))

theorem noEdgeB_iff (c : Cfg) (h : Hit) : noEdgeB c h = true ↔ NoEdge c h := by
  unfold noEdgeB NoEdge
  rw [all3_iff]
  constructor
  · intro hh k hk hp
    have := hh k
    simp at this
    grind
  · intro hh k
    simp
    by_cases hk : k = h.wall.d
    · exact Or.inl (Or.inl hk)
    · cases hp : c.per k
      · exact Or.inr (hh k hk hp)
      · exact Or.inl (Or.inr rfl)

def StepRes.isLost : StepRes → Bool
  | .lost _ => true
  | _ => false

def StepRes.isTooManyHits : StepRes → Bool
  | .tooManyHits => true
  | _ => false

def StepRes.isOk : StepRes → Bool
  | .ok _ _ => true
  | _ => false

end Sympler.Collide
