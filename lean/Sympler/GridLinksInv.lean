import Sympler.GridLinksGeo
import Sympler.GridChecks

/-!
The invariant of the loop "look for neighbours" of `cellSubdivide` that yields completeness and uniqueness of the
link list (`LInv`), its preservation by `neighborStep` (`neighborStep_linv`), by the two folds, and its validity
after the `init()` loop.  Core Lean only.
-/
namespace Sympler.Grid
open Sympler Sympler.Cells Sympler.Gen.CellTables

/-- what every link looks like: the local link of a cell, or a link with a direction in `0..25` between two
different existing cells that acts on both, with the `cellDist` distance -/
def LinkWF (N : Nat) (cells : Array CellGeom) (lk : LinkGeom) : Prop :=
  (lk.align = -1 ∧ lk.first = lk.second) ∨
  (0 ≤ lk.align ∧ lk.align < 26 ∧ lk.first < N ∧ lk.second < N ∧ lk.first ≠ lk.second ∧ lk.aoF = true ∧
    lk.aoS = true ∧
    lk.dist = cellDist (cells.getD lk.first default) (cells.getD lk.second default) lk.align.toNat)

/-- `lk` is a local link with an end at `c` -/
def isLocalOf (c : Nat) (lk : LinkGeom) : Bool := lk.align == -1 && (lk.first == c || lk.second == c)

/-- the local links: exactly one per cell, it is `m_links[c]`, and `m_local_link` points to it -/
structure LocalOK (N : Nat) (g : Grid) : Prop where
  cnt : ∀ c, c < N → g.links.toList.countP (isLocalOf c) = 1
  loc : ∀ c, c < N → g.loc.get c = c
  lk : ∀ c, c < N → ∃ lk, g.links[c]? = some lk ∧ lk.align = -1 ∧ lk.first = c ∧ lk.second = c ∧ lk.dist = (0, 0, 0)

/-- Invariant of the neighbour loop.  `C c m` = "slot `(c, m)` is covered": the step `(c, m)` or the step of its
mirror slot has created the link. -/
structure LInv (nc : V3 Int) (cells : Array CellGeom) (per : V3 Bool) (N : Nat) (C : Nat → Nat → Prop) (g : Grid) :
    Prop where
  cells_eq : g.cells = cells
  nc_eq : g.nc = nc
  wf : ∀ lk, lk ∈ g.links.toList → LinkWF N cells lk
  locals : LocalOK N g
  len : ∀ c m, c < N → m < 26 → (g.nbAt c m).length = g.links.toList.countP (occupiesSlot · c m)
  cov : ∀ c m, c < N → m < 26 → C c m → ∃ t, nbr nc cells per c m = some t ∧
    g.links.toList.countP (represents · c m t) = 1 ∧ g.links.toList.countP (occupiesSlot · c m) = 1 ∧
    g.outAt c m = [t]
  ncov : ∀ c m, c < N → m < 26 → ¬ C c m →
    g.links.toList.countP (occupiesSlot · c m) = 0 ∧ g.outAt c m = []
  closed : ∀ c m t, c < N → m < 26 → C c m → nbr nc cells per c m = some t → C t (25 - m)

/-! ### the new link -/

theorem occ_new (g : Grid) {i t n : Nat} (hn : n < 26) (c : Nat) {m : Nat} (_hm : m < 26) :
    occupiesSlot (mkLink g i t n true true) c m = true ↔ (c = i ∧ m = n) ∨ (c = t ∧ m = 25 - n) := by
  unfold occupiesSlot mkLink invNeighbor numNeighbors
  simp only [Bool.and_eq_true, Bool.or_eq_true, beq_iff_eq, bne_iff_ne, ne_eq]
  constructor
  · rintro ⟨_, h | h⟩
    · left; exact ⟨h.1.symm, by omega⟩
    · right; exact ⟨h.1.symm, by omega⟩
  · rintro (h | h)
    · exact ⟨by omega, Or.inl ⟨h.1.symm, by omega⟩⟩
    · exact ⟨by omega, Or.inr ⟨h.1.symm, by omega⟩⟩

theorem rep_new (g : Grid) {i t n : Nat} (hn : n < 26) (c : Nat) {m : Nat} (_hm : m < 26) (t' : Nat) :
    represents (mkLink g i t n true true) c m t' = true ↔
      (c = i ∧ t' = t ∧ m = n) ∨ (t' = i ∧ c = t ∧ m = 25 - n) := by
  unfold represents mkLink invNeighbor numNeighbors
  simp only [Bool.and_eq_true, Bool.or_eq_true, beq_iff_eq]
  constructor
  · rintro (h | h)
    · left; exact ⟨h.1.1.symm, h.1.2.symm, by omega⟩
    · right; exact ⟨h.1.1.symm, h.1.2.symm, by omega⟩
  · rintro (h | h)
    · left; exact ⟨⟨h.1.symm, h.2.1.symm⟩, by omega⟩
    · right; exact ⟨⟨h.1.symm, h.2.1.symm⟩, by omega⟩

theorem rep_occ {lk : LinkGeom} {c m t : Nat} (hm : m < 26) (h : represents lk c m t = true) :
    occupiesSlot lk c m = true := by
  unfold represents at h
  unfold occupiesSlot
  unfold invNeighbor numNeighbors at *
  simp only [Bool.and_eq_true, Bool.or_eq_true, beq_iff_eq, bne_iff_ne, ne_eq] at h ⊢
  rcases h with h | h
  · exact ⟨by omega, Or.inl ⟨h.1.1, h.2⟩⟩
  · exact ⟨by omega, Or.inr ⟨h.1.2, h.2⟩⟩

theorem countP_push {α : Type} (p : α → Bool) (a : Array α) (x : α) :
    (a.push x).toList.countP p = a.toList.countP p + (if p x = true then 1 else 0) := by
  rw [Array.toList_push, List.countP_append, List.countP_singleton]

theorem pushOutlet_get_nil (s : Store (Store (List Nat))) {c d : Nat} (v : Nat) (h : (s.get c).get d = [])
    (c' d' : Nat) :
    ((pushOutlet s c d v).get c').get d' = if c' = c ∧ d' = d then [v] else (s.get c').get d' := by
  unfold pushOutlet
  rw [h]
  simp only [List.contains_nil, Bool.false_eq_true, if_false]
  rw [get_pushAt, h]
  rfl

theorem addNeighbor_eq (g : Grid) (i t n : Nat) (hnb : g.nbAt i n = []) :
    addNeighbor g i t n =
      { g with
        nb := pushAt (pushAt g.nb i n g.links.size) t (invNeighbor n).toNat g.links.size
        links := g.links.push (mkLink g i t n true true)
        out := pushOutlet (pushOutlet g.out i n t) t (invNeighbor n).toNat i } := by
  unfold addNeighbor establishLink
  simp [hnb]

theorem localOK_push {N : Nat} {g g' : Grid} (h : LocalOK N g) (hN : N ≤ g.links.size) {lk : LinkGeom}
    (hl : g'.links = g.links.push lk) (hloc : g'.loc = g.loc) (ha : lk.align ≠ -1) : LocalOK N g' := by
  refine ⟨?_, ?_, ?_⟩
  · intro c hc
    rw [hl, countP_push, h.cnt c hc]
    have : isLocalOf c lk = false := by
      unfold isLocalOf
      simp [ha]
    simp [this]
  · intro c hc; rw [hloc]; exact h.loc c hc
  · intro c hc
    obtain ⟨l, e, r⟩ := h.lk c hc
    refine ⟨l, ?_, r⟩
    rw [hl, Array.getElem?_push]
    have : c ≠ g.links.size := by omega
    simp only [this, if_false]
    exact e

/-- the step that creates a link: slot `(i, n)` is empty, the neighbour `t` exists -/
theorem addNeighbor_linv {nc : V3 Int} {cells : Array CellGeom} {N : Nat} (geo : GeoOK nc cells N) {per : V3 Bool}
    {C : Nat → Nat → Prop} {g : Grid} (h : LInv nc cells per N C g) (hsz : N ≤ g.links.size) {i n t : Nat}
    (hi : i < N) (hn : n < 26) (hnb : g.nbAt i n = []) (ht : nbr nc cells per i n = some t) {g' : Grid}
    (gcells : g'.cells = g.cells) (gnc : g'.nc = g.nc) (gloc : g'.loc = g.loc)
    (glinks : g'.links = g.links.push (mkLink g i t n true true))
    (gnb : g'.nb = pushAt (pushAt g.nb i n g.links.size) t (25 - n) g.links.size)
    (gout : g'.out = pushOutlet (pushOutlet g.out i n t) t (25 - n) i) :
    LInv nc cells per N (fun c m => C c m ∨ (c = i ∧ m = n) ∨ (c = t ∧ m = 25 - n)) g' := by
  have htN : t < N := nbr_lt geo ht
  have hne : t ≠ i := nbr_ne geo hi hn ht
  have hmir : nbr nc cells per t (25 - n) = some i := nbr_mirror geo hi hn ht
  have hn' : 25 - n < 26 := by omega
  have hnn : 25 - (25 - n) = n := by omega
  have hocc0 : g.links.toList.countP (occupiesSlot · i n) = 0 := by
    rw [← h.len i n hi hn, hnb]; rfl
  have hnC : ¬ C i n := by
    intro hC
    obtain ⟨_, _, _, h1, _⟩ := h.cov i n hi hn hC
    omega
  have hnC' : ¬ C t (25 - n) := by
    intro hC
    have := h.closed t (25 - n) i htN hn' hC hmir
    rw [hnn] at this
    exact hnC this
  obtain ⟨hocc_i, hout_i⟩ := h.ncov i n hi hn hnC
  obtain ⟨hocc_t, hout_t⟩ := h.ncov t (25 - n) htN hn' hnC'
  -- the lists of the new grid
  have hocc : ∀ c m, m < 26 → (g.links.push (mkLink g i t n true true)).toList.countP (occupiesSlot · c m) =
      g.links.toList.countP (occupiesSlot · c m) + (if (c = i ∧ m = n) ∨ (c = t ∧ m = 25 - n) then 1 else 0) := by
    intro c m hm
    rw [countP_push]
    have := occ_new g (i := i) (t := t) hn c hm
    by_cases e : (c = i ∧ m = n) ∨ (c = t ∧ m = 25 - n)
    · rw [if_pos e, if_pos (this.mpr e)]
    · rw [if_neg e, if_neg (fun x => e (this.mp x))]
  have hrep : ∀ c m t', m < 26 → (g.links.push (mkLink g i t n true true)).toList.countP (represents · c m t') =
      g.links.toList.countP (represents · c m t') +
        (if (c = i ∧ t' = t ∧ m = n) ∨ (t' = i ∧ c = t ∧ m = 25 - n) then 1 else 0) := by
    intro c m t' hm
    rw [countP_push]
    have := rep_new g (i := i) (t := t) hn c hm t'
    by_cases e : (c = i ∧ t' = t ∧ m = n) ∨ (t' = i ∧ c = t ∧ m = 25 - n)
    · rw [if_pos e, if_pos (this.mpr e)]
    · rw [if_neg e, if_neg (fun x => e (this.mp x))]
  have hrep_le : ∀ c m t', m < 26 → g.links.toList.countP (represents · c m t') ≤
      g.links.toList.countP (occupiesSlot · c m) := by
    intro c m t' hm
    exact List.countP_mono_left (fun lk _ hr => rep_occ hm hr)
  have hout : ∀ c m, ((pushOutlet (pushOutlet g.out i n t) t (25 - n) i).get c).get m =
      if c = t ∧ m = 25 - n then [i] else if c = i ∧ m = n then [t] else g.outAt c m := by
    intro c m
    have h1 := pushOutlet_get_nil g.out t hout_i
    have h2 : ((pushOutlet g.out i n t).get t).get (25 - n) = [] := by
      rw [h1]
      have : ¬ (t = i ∧ 25 - n = n) := fun e => hne e.1
      rw [if_neg this]; exact hout_t
    rw [pushOutlet_get_nil _ i h2, h1]
    rfl
  have hnbl : ∀ c m, (((pushAt (pushAt g.nb i n g.links.size) t (25 - n) g.links.size).get c).get m).length =
      (g.nbAt c m).length + (if (c = i ∧ m = n) ∨ (c = t ∧ m = 25 - n) then 1 else 0) := by
    intro c m
    rw [get_pushAt, get_pushAt, get_pushAt]
    have d1 : ¬ (t = i ∧ 25 - n = n) := fun e => hne e.1
    rw [if_neg d1]
    by_cases e2 : c = t ∧ m = 25 - n
    · obtain ⟨rfl, rfl⟩ := e2
      have : ¬ (c = i ∧ 25 - n = n) := fun e => hne e.1
      simp [Grid.nbAt, this]
    · rw [if_neg e2]
      by_cases e1 : c = i ∧ m = n
      · obtain ⟨rfl, rfl⟩ := e1
        simp [Grid.nbAt]
      · rw [if_neg e1]
        simp [Grid.nbAt, e1, e2]
  refine ⟨gcells.trans h.cells_eq, gnc.trans h.nc_eq, ?_, ?_, ?_, ?_, ?_, ?_⟩
  · -- wf
    intro lk hlk
    rw [glinks] at hlk
    simp only [Array.toList_push, List.mem_append, List.mem_singleton] at hlk
    rcases hlk with hlk | rfl
    · exact h.wf lk hlk
    · right
      have hti : ¬ i = t := fun e => hne e.symm
      refine ⟨by show (0 : Int) ≤ (n : Int); omega, by show ((n : Nat) : Int) < 26; omega, hi, htN, hti, rfl, rfl, ?_⟩
      simp [mkLink, hti, h.cells_eq]
  · exact localOK_push h.locals hsz glinks gloc (by show ((n : Nat) : Int) ≠ -1; omega)
  · -- len
    intro c m hc hm
    unfold Grid.nbAt
    rw [gnb, glinks, hnbl, hocc c m hm, h.len c m hc hm]
  · -- cov
    intro c m hc hm hC
    unfold Grid.outAt
    rw [gout, glinks]
    by_cases e1 : c = i ∧ m = n
    · obtain ⟨ec, em⟩ := e1
      subst ec em
      refine ⟨t, ht, ?_, ?_, ?_⟩
      · rw [hrep c m t hm, if_pos (Or.inl ⟨rfl, rfl, rfl⟩)]
        have := hrep_le c m t hm
        omega
      · rw [hocc c m hm, if_pos (Or.inl ⟨rfl, rfl⟩)]; omega
      · rw [hout]
        have : ¬ (c = t ∧ m = 25 - m) := fun e => hne e.1.symm
        rw [if_neg this, if_pos ⟨rfl, rfl⟩]
    · by_cases e2 : c = t ∧ m = 25 - n
      · obtain ⟨ec, em⟩ := e2
        subst ec em
        refine ⟨i, hmir, ?_, ?_, ?_⟩
        · rw [hrep c (25 - n) i hn', if_pos (Or.inr ⟨rfl, rfl, rfl⟩)]
          have := hrep_le c (25 - n) i hn'
          omega
        · rw [hocc c (25 - n) hn', if_pos (Or.inr ⟨rfl, rfl⟩)]; omega
        · rw [hout, if_pos ⟨rfl, rfl⟩]
      · have hC' : C c m := by
          rcases hC with hC | hC | hC
          · exact hC
          · exact absurd hC e1
          · exact absurd hC e2
        obtain ⟨t', a1, a2, a3, a4⟩ := h.cov c m hc hm hC'
        refine ⟨t', a1, ?_, ?_, ?_⟩
        · rw [hrep c m t' hm, a2]
          have : ¬ ((c = i ∧ t' = t ∧ m = n) ∨ (t' = i ∧ c = t ∧ m = 25 - n)) := by
            rintro (e | e)
            · exact e1 ⟨e.1, e.2.2⟩
            · exact e2 e.2
          simp [this]
        · rw [hocc c m hm, a3]
          have : ¬ ((c = i ∧ m = n) ∨ (c = t ∧ m = 25 - n)) := by
            rintro (e | e)
            · exact e1 e
            · exact e2 e
          simp [this]
        · rw [hout, if_neg e2, if_neg e1]; exact a4
  · -- ncov
    intro c m hc hm hC
    have e1 : ¬ (c = i ∧ m = n) := fun e => hC (Or.inr (Or.inl e))
    have e2 : ¬ (c = t ∧ m = 25 - n) := fun e => hC (Or.inr (Or.inr e))
    have hC' : ¬ C c m := fun e => hC (Or.inl e)
    obtain ⟨a1, a2⟩ := h.ncov c m hc hm hC'
    unfold Grid.outAt
    rw [gout, glinks]
    refine ⟨?_, ?_⟩
    · rw [hocc c m hm, a1]
      have : ¬ ((c = i ∧ m = n) ∨ (c = t ∧ m = 25 - n)) := by
        rintro (e | e)
        · exact e1 e
        · exact e2 e
      simp [this]
    · rw [hout, if_neg e2, if_neg e1]; exact a2
  · -- closed
    intro c m t' hc hm hC hnt
    rcases hC with hC | hC | hC
    · exact Or.inl (h.closed c m t' hc hm hC hnt)
    · obtain ⟨ec, em⟩ := hC
      subst ec em
      have : t' = t := by rw [ht] at hnt; exact (Option.some.inj hnt).symm
      exact Or.inr (Or.inr ⟨this, rfl⟩)
    · obtain ⟨ec, em⟩ := hC
      subst ec em
      have : t' = i := by rw [hmir] at hnt; exact (Option.some.inj hnt).symm
      exact Or.inr (Or.inl ⟨this, hnn⟩)

/-- with at least two cells per direction the `addPeriodic` branch of the loop body is dead -/
theorem neighborStep_eq (per : V3 Bool) (g : Grid) (i n : Nat) (h2 : 2 ≤ g.nc.1 ∧ 2 ≤ g.nc.2.1 ∧ 2 ≤ g.nc.2.2) :
    neighborStep per g i n =
      if g.nbAt i n = [] then
        (match nbr g.nc g.cells per i n with
         | some t => addNeighbor g i t n
         | none => g)
      else g := by
  unfold neighborStep nbr
  by_cases hnb : g.nbAt i n = []
  · have hno : (V3.map2 (fun (k o : Int) => decide (k = 1) && decide (o ≠ 0)) g.nc (offsets.getD n (0, 0, 0))).any
        = false := by
      obtain ⟨a, b, c⟩ := h2
      have a' : ¬ g.nc.1 = 1 := by omega
      have b' : ¬ g.nc.2.1 = 1 := by omega
      have c' : ¬ g.nc.2.2 = 1 := by omega
      simp [V3.any, V3.map2, a', b', c']
    simp only [hnb, List.isEmpty_nil, if_true, hno]
    split <;> simp
  · have : (g.nbAt i n).isEmpty = false := by
      cases hl : g.nbAt i n with
      | nil => exact absurd hl hnb
      | cons a r => rfl
    simp [hnb, this]

theorem neighborStep_linv {nc : V3 Int} {cells : Array CellGeom} {N : Nat} (geo : GeoOK nc cells N) {per : V3 Bool}
    {C : Nat → Nat → Prop} {g : Grid} (h : LInv nc cells per N C g) (hsz : N ≤ g.links.size) {i n : Nat}
    (hi : i < N) (hn : n < 26) :
    ∃ C' : Nat → Nat → Prop, LInv nc cells per N C' (neighborStep per g i n) ∧
      N ≤ (neighborStep per g i n).links.size ∧ (∀ c m, C c m → C' c m) ∧
      (∀ t, nbr nc cells per i n = some t → C' i n) := by
  rw [neighborStep_eq per g i n (by rw [h.nc_eq]; exact geo.nc2), h.nc_eq, h.cells_eq]
  by_cases hnb : g.nbAt i n = []
  · rw [if_pos hnb]
    cases ht : nbr nc cells per i n with
    | none => exact ⟨C, h, hsz, fun _ _ x => x, fun t e => by simp at e⟩
    | some t =>
      simp only []
      refine ⟨_, addNeighbor_linv geo h hsz hi hn hnb ht ?_ ?_ ?_ ?_ ?_ ?_, ?_, fun c m x => Or.inl x,
        fun _ _ => Or.inr (Or.inl ⟨rfl, rfl⟩)⟩
      · rw [addNeighbor_eq g i t n hnb]
      · rw [addNeighbor_eq g i t n hnb]
      · rw [addNeighbor_eq g i t n hnb]
      · rw [addNeighbor_eq g i t n hnb]
      · rw [addNeighbor_eq g i t n hnb, invNeighbor_toNat hn]
      · rw [addNeighbor_eq g i t n hnb, invNeighbor_toNat hn]
      · rw [addNeighbor_eq g i t n hnb]
        simp only [Array.size_push]; omega
  · rw [if_neg hnb]
    refine ⟨C, h, hsz, fun _ _ x => x, fun t _ => ?_⟩
    apply Classical.byContradiction
    intro hC
    have := (h.ncov i n hi hn hC).1
    rw [← h.len i n hi hn] at this
    exact hnb (List.eq_nil_of_length_eq_zero this)

theorem foldl_dirs_linv {nc : V3 Int} {cells : Array CellGeom} {N : Nat} (geo : GeoOK nc cells N) (per : V3 Bool)
    {i : Nat} (hi : i < N) :
    ∀ (ns : List Nat) (C : Nat → Nat → Prop) (g : Grid), (∀ n ∈ ns, n < 26) → LInv nc cells per N C g →
      N ≤ g.links.size →
      ∃ C' : Nat → Nat → Prop, LInv nc cells per N C' (ns.foldl (fun g n => neighborStep per g i n) g) ∧
        N ≤ (ns.foldl (fun g n => neighborStep per g i n) g).links.size ∧ (∀ c m, C c m → C' c m) ∧
        (∀ n ∈ ns, ∀ t, nbr nc cells per i n = some t → C' i n) := by
  intro ns
  induction ns with
  | nil => intro C g _ h hsz; exact ⟨C, h, hsz, fun _ _ x => x, fun n hn => by simp at hn⟩
  | cons n ns ih =>
    intro C g hns h hsz
    rw [List.foldl_cons]
    obtain ⟨C1, h1, s1, m1, d1⟩ := neighborStep_linv (per := per) geo h hsz hi (hns n (by simp))
    obtain ⟨C2, h2, s2, m2, d2⟩ := ih C1 _ (fun m hm => hns m (by simp [hm])) h1 s1
    refine ⟨C2, h2, s2, fun c m x => m2 c m (m1 c m x), ?_⟩
    intro n' hn' t ht
    rcases List.mem_cons.mp hn' with e | e
    · subst e; exact m2 _ _ (d1 t ht)
    · exact d2 n' e t ht

theorem foldl_cells_linv {nc : V3 Int} {cells : Array CellGeom} {N : Nat} (geo : GeoOK nc cells N) (per : V3 Bool) :
    ∀ (cs : List Nat) (C : Nat → Nat → Prop) (g : Grid), (∀ i ∈ cs, i < N) → LInv nc cells per N C g →
      N ≤ g.links.size →
      ∃ C' : Nat → Nat → Prop,
        LInv nc cells per N C'
          (cs.foldl (fun g i => (List.range numNeighbors).foldl (fun g n => neighborStep per g i n) g) g) ∧
        (∀ c m, C c m → C' c m) ∧
        (∀ i ∈ cs, ∀ n, n < 26 → ∀ t, nbr nc cells per i n = some t → C' i n) := by
  intro cs
  induction cs with
  | nil => intro C g _ h _; exact ⟨C, h, fun _ _ x => x, fun n hn => by simp at hn⟩
  | cons i cs ih =>
    intro C g hcs h hsz
    rw [List.foldl_cons]
    obtain ⟨C1, h1, s1, m1, d1⟩ := foldl_dirs_linv geo per (hcs i (by simp)) (List.range numNeighbors) C g
      (fun n hn => List.mem_range.mp hn) h hsz
    obtain ⟨C2, h2, m2, d2⟩ := ih C1 _ (fun m hm => hcs m (by simp [hm])) h1 s1
    refine ⟨C2, h2, fun c m x => m2 c m (m1 c m x), ?_⟩
    intro i' hi' n hn t ht
    rcases List.mem_cons.mp hi' with e | e
    · subst e; exact m2 _ _ (d1 n (List.mem_range.mpr hn) t ht)
    · exact d2 i' e n hn t ht

end Sympler.Grid
