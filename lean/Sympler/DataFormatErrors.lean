import Sympler.DataFormatReads
/-!
# Which errors an operation can end in (C14)

From a state satisfying the invariant no operation ever dereferences a freed cell (`ubUaf`), and
after `alignDataFor(a)` with `a ≥ 3` no operation touches a misaligned object (`ubMisaligned`).
Core Lean only.
-/
namespace Sympler.DataFormat

local notation "Addr" => Nat

/-- the error is neither a use after free nor (when `alignDataFor(a)`, `a ≥ 3`, was called) a
    misaligned access -/
def Err.expected (al : Option Nat) (e : Err) : Prop :=
  e ≠ .ubUaf ∧ ∀ a, al = some a → 3 ≤ a → e ≠ .ubMisaligned

theorem expected_of_ne {al : Option Nat} {e : Err} (h1 : e ≠ .ubUaf) (h2 : e ≠ .ubMisaligned) :
    Err.expected al e := ⟨h1, fun _ _ _ => h2⟩

theorem getData_err {s : State} {d : Nat} {e : Err} (h : s.getData d = .error e) : e = .nodata := by
  unfold State.getData at h
  split at h
  · cases h
  · injection h with h; exact h.symm

theorem getFmt_err {s : State} {f : Nat} {e : Err} (h : s.getFmt f = .error e) : e = .nofmt := by
  unfold State.getFmt at h
  split at h
  · cases h
  · injection h with h; exact h.symm

theorem fmtOf_err {s : State} {dat : Data} {e : Err} (h : s.fmtOf dat = .error e) :
    e = .ubNullFmt ∨ e = .nofmt := by
  unfold State.fmtOf at h
  split at h
  · injection h with h; exact Or.inl h.symm
  · split at h
    · rename_i e' he'
      injection h with h; subst h
      exact Or.inr (getFmt_err he')
    · cases h

theorem attrAt_err {al : Option Nat} {s : State} {d i : Nat} {e : Err} (h : s.attrAt d i = .error e) :
    Err.expected al e := by
  unfold State.attrAt at h
  split at h
  · rename_i e' he'
    injection h with h; subst h
    rw [getData_err he']; exact expected_of_ne (by decide) (by decide)
  · split at h
    · injection h with h; subst h; exact expected_of_ne (by decide) (by decide)
    · split at h
      · rename_i e' he'
        injection h with h; subst h
        rw [getFmt_err he']; exact expected_of_ne (by decide) (by decide)
      · split at h
        · injection h with h; subst h; exact expected_of_ne (by decide) (by decide)
        · cases h

theorem attr_aligned {al : Option Nat} {s : State} (hs : Inv al s) {fid i : Nat} {f : Format} {a : Attr}
    (hf : s.fmts[fid]? = some f) (ha : f.byIndex[i]? = some a) :
    ∀ n, al = some n → 3 ≤ n → a.misaligned = false := by
  intro n hal hn
  subst hal
  exact ((hs.fmts fid f hf).aligned hn ha).2

theorem sp_aligned {al : Option Nat} {s : State} (hs : Inv al s) {fid : Nat} {f : Format}
    (hf : s.fmts[fid]? = some f) (k : Nat) :
    ∀ n, al = some n → 3 ≤ n → spMisaligned (f.byIndex.take k) = false := by
  intro n hal hn
  subst hal
  exact spMisaligned_false_of_aligned hn (hs.fmts fid f hf) k

theorem sp_aligned_all {al : Option Nat} {s : State} (hs : Inv al s) {fid : Nat} {f : Format}
    (hf : s.fmts[fid]? = some f) :
    ∀ n, al = some n → 3 ≤ n → spMisaligned f.byIndex = false := by
  intro n hal hn
  have := sp_aligned hs hf f.byIndex.length n hal hn
  rwa [List.take_length] at this

theorem slot_err {al : Option Nat} {s : State} (hs : Inv al s) {d i : Nat} {l : AttrAt} {e : Err}
    (hl : s.attrAt d i = .ok l) (h : l.slot i = .error e) : Err.expected al e := by
  obtain ⟨_, _, hf, ha⟩ := attrAt_ok hl
  unfold AttrAt.slot at h
  split at h
  · injection h with h; subst h; exact expected_of_ne (by decide) (by decide)
  · split at h
    · injection h with h; subst h; exact expected_of_ne (by decide) (by decide)
    · split at h
      · rename_i hm
        injection h with h; subst h
        refine ⟨by decide, fun n hal hn _ => ?_⟩
        rw [attr_aligned hs hf ha n hal hn] at hm; cases hm
      · cases h

/-- a value stored in a live record never points to a freed cell -/
theorem resolve_ok {al : Option Nat} {s : State} (hs : Inv al s) {d i : Nat} {dat : Data} {b : Block} {v : Val}
    (hd : s.datas[d]? = some (some dat)) (hb : dat.block = some b) (hv : b.vals[i]? = some v) :
    ∃ r, resolve s.heap v = .ok r := by
  cases v with
  | sp p =>
    cases p with
    | none => exact ⟨none, rfl⟩
    | some adr =>
      have hown : owns (valsOf s.datas d) adr := by rw [valsOf_of_block hd hb]; exact ⟨i, hv⟩
      obtain ⟨c, hc⟩ := hs.heap.live d adr hown
      exact ⟨some (.vec c.val), by simp [resolve, Heap.get_eq_some.2 hc]⟩
  | str x => cases x <;> exact ⟨_, rfl⟩
  | int n => exact ⟨_, rfl⟩
  | dbl x => exact ⟨_, rfl⟩
  | ipt a b c => exact ⟨_, rfl⟩
  | pt p => exact ⟨_, rfl⟩
  | tens t => exact ⟨_, rfl⟩

theorem allocSp_err {al : Option Nat} {s : State} (hs : Inv al s) {fid : Nat} {f : Format} {h : Heap} {e : Err}
    (hf : s.fmts[fid]? = some f) (he : f.allocSp h = .error e) : Err.expected al e := by
  unfold Format.allocSp at he
  split at he
  · rename_i hm
    injection he with he; subst he
    refine ⟨by decide, fun n hal hn _ => ?_⟩
    rw [sp_aligned_all hs hf n hal hn] at hm
    simp at hm
  · cases he

theorem format_release_err {al : Option Nat} {s : State} (hs : Inv al s) {d fid : Nat} {dat : Data} {f : Format}
    {e : Err} (hd : s.datas[d]? = some (some dat)) (hfid : dat.fmt = some fid) (hf : s.fmts[fid]? = some f)
    (hr : f.release s.heap dat.block = .error e) : Err.expected al e := by
  have hdo := hs.datas d dat hd
  unfold DataOk at hdo
  simp only [hfid] at hdo
  obtain ⟨f0, hf0, hb0⟩ := hdo
  rw [hf] at hf0; cases hf0
  cases hblk : dat.block with
  | none => rw [hblk] at hr; simp [Format.release] at hr
  | some b =>
    rw [hblk] at hr
    simp only [Format.release] at hr
    split at hr
    · rename_i hm
      injection hr with hr; subst hr
      refine ⟨by decide, fun n hal hn _ => ?_⟩
      rw [sp_aligned hs hf _ n hal hn] at hm; cases hm
    · have hbo := hb0 b hblk
      have hv : valsOf s.datas d = b.vals := valsOf_of_block hd hblk
      have hinj := hs.heap.inj d
      have hlive := hs.heap.ownedLive d
      rw [hv] at hinj hlive
      rcases releaseVals_spec f.byIndex s.heap b.vals hbo.len hbo.typed hinj hlive with he | ⟨h', h1, _⟩
      · rw [he] at hr; injection hr with hr; subst hr
        exact expected_of_ne (by decide) (by decide)
      · rw [h1] at hr; cases hr

theorem releaseIfFmt_err {al : Option Nat} {s : State} (hs : Inv al s) {d : Nat} {dat : Data} {e : Err}
    (hd : s.datas[d]? = some (some dat)) (hr : releaseIfFmt s dat = .error e) : Err.expected al e := by
  unfold releaseIfFmt at hr
  split at hr
  · cases hr
  · rename_i fid hfid
    split at hr
    · rename_i e' he'
      injection hr with hr; subst hr
      rw [getFmt_err he']; exact expected_of_ne (by decide) (by decide)
    · rename_i f hf
      exact format_release_err hs hd hfid (getFmt_ok.1 hf) hr

theorem deepCopy_err {al : Option Nat} {s : State} (hs : Inv al s) {e0 fid : Nat} {f : Format} {src : Data}
    {b : Block} {e : Err}
    (hsrc : s.datas[e0]? = some (some src)) (hsf : src.fmt = some fid) (hsb : src.block = some b)
    (hf : s.fmts[fid]? = some f) (hfull : ¬ b.size < f.size)
    (hc : deepCopyVals s.heap f.byIndex b.vals b.vals = .error e) : Err.expected al e := by
  have hfo := hs.fmts fid f hf
  have hdo := hs.datas e0 src hsrc
  unfold DataOk at hdo
  simp only [hsf] at hdo
  obtain ⟨f0, hf0, hb0⟩ := hdo
  rw [hf] at hf0; cases hf0
  have hbo := hb0 b hsb
  have hlenb := hbo.full_of_not_lt hfo hfull
  have hv : valsOf s.datas e0 = b.vals := valsOf_of_block hsrc hsb
  have hlive := hs.heap.ownedLive e0
  rw [hv] at hlive
  rcases deepCopyVals_spec f.byIndex s.heap b.vals hlenb hbo.typed hlive with he | ⟨vs', h'', extra, h1, _⟩
  · rw [he] at hc; injection hc with hc; subst hc
    exact expected_of_ne (by decide) (by decide)
  · rw [h1] at hc; cases hc

theorem copyData_err {al : Option Nat} {s : State} (hs : Inv al s) {e0 : Nat} {e : Err}
    (h : copyData s e0 = .error e) : Err.expected al e := by
  unfold copyData at h
  split at h
  · rename_i e' he'
    injection h with h; subst h
    rw [getData_err he']; exact expected_of_ne (by decide) (by decide)
  · rename_i src hsrc
    split at h
    · cases h
    · rename_i fid hfid
      split at h
      · rename_i e' he'
        injection h with h; subst h
        rw [getFmt_err he']; exact expected_of_ne (by decide) (by decide)
      · rename_i f hf
        split at h
        · cases h
        · split at h
          · injection h with h; subst h; exact expected_of_ne (by decide) (by decide)
          · rename_i b hb
            split at h
            · injection h with h; subst h; exact expected_of_ne (by decide) (by decide)
            · rename_i hfull
              split at h
              · injection h with h; subst h; exact expected_of_ne (by decide) (by decide)
              · split at h
                · rename_i hm
                  injection h with h; subst h
                  refine ⟨by decide, fun n hal hn _ => ?_⟩
                  rw [sp_aligned_all hs (getFmt_ok.1 hf) n hal hn] at hm; cases hm
                · split at h
                  · rename_i e' hc
                    injection h with h; subst h
                    exact deepCopy_err hs (getData_ok.1 hsrc) hfid hb (getFmt_ok.1 hf) hfull hc
                  · cases h

theorem assignData_err {al : Option Nat} {s : State} (hs : Inv al s) {d e0 : Nat} {e : Err}
    (h : assignData s d e0 = .error e) : Err.expected al e := by
  unfold assignData at h
  split at h
  · rename_i e' he'
    injection h with h; subst h
    rw [getData_err he']; exact expected_of_ne (by decide) (by decide)
  · rename_i dst hdst
    have hdst' := getData_ok.1 hdst
    split at h
    · rename_i e' he'
      injection h with h; subst h
      rw [getData_err he']; exact expected_of_ne (by decide) (by decide)
    · rename_i src hsrc
      have hsrc' := getData_ok.1 hsrc
      split at h
      · rename_i hne
        split at h
        · rename_i e' hrel
          injection h with h; subst h
          exact releaseIfFmt_err hs hdst' (by unfold releaseIfFmt; exact hrel)
        · rename_i h1 hrel
          have hrel' : releaseIfFmt s dst = .ok h1 := by unfold releaseIfFmt; exact hrel
          obtain ⟨r1, r2, r3⟩ := releaseIfFmt_spec hs hdst' hrel'
          have hs1 := hs.dropped hdst' r1 r2 r3
          have hed : e0 ≠ d := by
            intro hed; subst hed
            rw [hdst'] at hsrc'; injection hsrc' with hsrc'; injection hsrc' with hsrc'
            subst hsrc'; exact hne rfl
          split at h
          · cases h
          · rename_i fid hfid
            split at h
            · rename_i e' he'
              injection h with h; subst h
              rw [getFmt_err he']; exact expected_of_ne (by decide) (by decide)
            · rename_i f hf
              split at h
              · injection h with h; subst h; exact expected_of_ne (by decide) (by decide)
              · split at h
                · injection h with h; subst h; exact expected_of_ne (by decide) (by decide)
                · rename_i b hb
                  split at h
                  · injection h with h; subst h; exact expected_of_ne (by decide) (by decide)
                  · rename_i hfull
                    split at h
                    · injection h with h; subst h; exact expected_of_ne (by decide) (by decide)
                    · split at h
                      · rename_i hm
                        injection h with h; subst h
                        refine ⟨by decide, fun n hal hn _ => ?_⟩
                        rw [sp_aligned_all hs (getFmt_ok.1 hf) n hal hn] at hm; cases hm
                      · split at h
                        · rename_i e' hc
                          injection h with h; subst h
                          have hsrc1 : (s.datas.set d (some ⟨none, none⟩))[e0]? = some (some src) := by
                            rw [List.getElem?_set_ne (Ne.symm hed)]; exact hsrc'
                          exact deepCopy_err hs1 hsrc1 hfid hb (getFmt_ok.1 hf) hfull hc
                        · cases h
      · split at h
        · cases h
        · rename_i fid hfid
          split at h
          · rename_i e' he'
            injection h with h; subst h
            rw [getFmt_err he']; exact expected_of_ne (by decide) (by decide)
          · rename_i f hf
            split at h
            · rename_i db b hdb hb
              split at h
              · injection h with h; subst h; exact expected_of_ne (by decide) (by decide)
              · rename_i hnst
                have hst : ¬ db.size < f.size ∧ ¬ b.size < f.size := by
                  simp only [Bool.or_eq_true, decide_eq_true_eq, not_or] at hnst
                  exact hnst
                split at h
                · injection h with h; subst h; exact expected_of_ne (by decide) (by decide)
                · split at h
                  · rename_i hm
                    injection h with h; subst h
                    refine ⟨by decide, fun n hal hn _ => ?_⟩
                    rw [sp_aligned_all hs (getFmt_ok.1 hf) n hal hn] at hm; cases hm
                  · split at h
                    · rename_i e' hc
                      injection h with h; subst h
                      exact deepCopy_err hs hsrc' hfid hb (getFmt_ok.1 hf) hst.2 hc
                    · cases h
            · injection h with h; subst h; exact expected_of_ne (by decide) (by decide)

theorem addAttribute_err {al : Option Nat} {f : Format} {n sym : String} {t : DType} {p : Bool} {e : Err}
    (h : f.addAttribute al n t p sym = .error e) : e = .typeMismatch := by
  unfold Format.addAttribute at h
  split at h
  · cases h
  · split at h
    · injection h with h; exact h.symm
    · cases h

theorem dataAddAttribute_err {al : Option Nat} {s : State} (hs : Inv al s) {d : Nat} {name symbol : String}
    {t : DType} {pers : Bool} {e : Err}
    (h : dataAddAttribute al s d name t pers symbol = .error e) : Err.expected al e := by
  unfold dataAddAttribute at h
  split at h
  · rename_i e' he'
    injection h with h; subst h
    rw [getData_err he']; exact expected_of_ne (by decide) (by decide)
  · split at h
    · rename_i e' he'
      injection h with h; subst h
      rcases fmtOf_err he' with h' | h' <;> rw [h'] <;> exact expected_of_ne (by decide) (by decide)
    · rename_i fid f hfo
      obtain ⟨_, hf⟩ := fmtOf_ok hfo
      split at h
      · rename_i e' he'
        injection h with h; subst h
        rw [addAttribute_err he']; exact expected_of_ne (by decide) (by decide)
      · rename_i attr f' hadd
        split at h
        · cases h
        · rename_i hsz
          split at h
          · injection h with h; subst h; exact expected_of_ne (by decide) (by decide)
          · split at h
            · injection h with h; subst h; exact expected_of_ne (by decide) (by decide)
            · split at h
              · rename_i hm
                injection h with h; subst h
                refine ⟨by decide, fun n hal hn _ => ?_⟩
                subst hal
                have hf'ok := (hs.fmts fid f hf).addAttribute hadd
                -- the new attribute is the last one of the new format
                rcases Format.addAttribute_ok_cases hadd with ⟨_, hattr, hf'⟩ | ⟨_, _, hf'⟩
                · have hatt : f'.byIndex[f.byIndex.length]? = some attr := by rw [hf']; simp
                  have := (hf'ok.aligned hn hatt).2
                  rw [this] at hm; simp at hm
                · exact hsz (by rw [hf'])
              · cases h

theorem clearData_err {al : Option Nat} {s : State} (hs : Inv al s) {all : Bool} {d : Nat} {e : Err}
    (h : clearData all s d = .error e) : Err.expected al e := by
  unfold clearData at h
  split at h
  · rename_i e' he'
    injection h with h; subst h
    rw [getData_err he']; exact expected_of_ne (by decide) (by decide)
  · rename_i dat hdat
    have hd := getData_ok.1 hdat
    split at h
    · rename_i e' he'
      injection h with h; subst h
      rcases fmtOf_err he' with h' | h' <;> rw [h'] <;> exact expected_of_ne (by decide) (by decide)
    · rename_i fid x hfo
      obtain ⟨hfid, hf⟩ := fmtOf_ok hfo
      split at h
      · split at h
        · injection h with h; subst h; exact expected_of_ne (by decide) (by decide)
        · cases h
      · rename_i b hb
        split at h
        · rename_i hm
          injection h with h; subst h
          refine ⟨by decide, fun n hal hn _ => ?_⟩
          have hsp := sp_aligned hs hf b.vals.length n hal hn
          rw [List.any_eq_true] at hm
          obtain ⟨a, ha, hp⟩ := hm
          have : spMisaligned (x.byIndex.take b.vals.length) = true := by
            rw [spMisaligned, List.any_eq_true]
            refine ⟨a, ha, ?_⟩
            simp only [Bool.and_eq_true] at hp ⊢
            exact ⟨hp.1.2, hp.2⟩
          rw [hsp] at this; cases this
        · have hdo := hs.datas d dat hd
          unfold DataOk at hdo
          simp only [hfid] at hdo
          obtain ⟨f0, hf0, hb0⟩ := hdo
          rw [hf] at hf0; cases hf0
          have hbo := hb0 b hb
          have hv : valsOf s.datas d = b.vals := valsOf_of_block hd hb
          have hinj := hs.heap.inj d
          have hlive := hs.heap.ownedLive d
          rw [hv] at hinj hlive
          split at h
          · rename_i e' hc
            injection h with h; subst h
            rcases clearVals_spec all x.byIndex s.heap b.vals hbo.len hbo.typed hinj hlive with he | ⟨vs', h'', h1, _⟩
            · rw [he] at hc; injection hc with hc; subst hc
              exact expected_of_ne (by decide) (by decide)
            · rw [h1] at hc; cases hc
          · cases h

theorem writeVal_err {al : Option Nat} {s : State} (hs : Inv al s) {d i : Nat} {l : AttrAt} {v : Val} {e : Err}
    (hl : s.attrAt d i = .ok l) (h : writeVal s l d i v = .error e) : Err.expected al e := by
  unfold writeVal at h
  split at h
  · rename_i e' he'
    injection h with h; subst h
    exact slot_err hs hl he'
  · split at h
    · injection h with h; subst h; exact expected_of_ne (by decide) (by decide)
    · cases h

theorem read_err {al : Option Nat} {s : State} (hs : Inv al s) {d i : Nat} {e : Err}
    (h : s.read d i = .error e) : Err.expected al e := by
  unfold State.read at h
  split at h
  · rename_i e' he'
    injection h with h; subst h; exact attrAt_err he'
  · rename_i l hl
    obtain ⟨hd, _, _, _⟩ := attrAt_ok hl
    split at h
    · rename_i e' he'
      injection h with h; subst h; exact slot_err hs hl he'
    · rename_i b v hslot
      obtain ⟨hb, hv, _⟩ := slot_ok hslot
      obtain ⟨r, hr⟩ := resolve_ok hs hd hb hv
      rw [hr] at h
      cases r with
      | none => injection h with h; subst h; exact expected_of_ne (by decide) (by decide)
      | some r => cases h

theorem toText_err {nc : NumCodec} {t : DType} {r : RVal} {e : Err} (h : toText nc t r = .error e) :
    e = .unsupported := by
  unfold toText at h
  split at h <;> first | (injection h with h; exact h.symm) | cases h

theorem fromText_err {nc : NumCodec} {t : DType} {v : List Char} {e : Err} (h : fromText nc t v = .error e) :
    e = .unsupported := by
  cases t <;> simp [fromText] at h <;> exact h.symm

/-- no operation ends in a use after free; after `alignDataFor(a)`, `a ≥ 3`, none ends in a
    misaligned access -/
theorem step_err {al : Option Nat} {nc : NumCodec} {s : State} {op : Op} {e : Err} (hs : Inv al s)
    (h : step al nc s op = .error e) : Err.expected al e := by
  cases op with
  | fmt => simp [DataFormat.step] at h
  | fmtcopy f =>
    simp only [DataFormat.step] at h
    split at h
    · rename_i e' he'
      injection h with h; subst h
      rw [getFmt_err he']; exact expected_of_ne (by decide) (by decide)
    · cases h
  | fadd f name t pers symbol =>
    simp only [DataFormat.step] at h
    split at h
    · rename_i e' he'
      injection h with h; subst h
      rw [getFmt_err he']; exact expected_of_ne (by decide) (by decide)
    · split at h
      · rename_i e' he'
        injection h with h; subst h
        rw [addAttribute_err he']; exact expected_of_ne (by decide) (by decide)
      · cases h
  | layout f =>
    simp only [DataFormat.step] at h
    split at h
    · rename_i e' he'
      injection h with h; subst h
      rw [getFmt_err he']; exact expected_of_ne (by decide) (by decide)
    · cases h
  | new f =>
    simp only [DataFormat.step] at h
    split at h
    · rename_i e' he'
      injection h with h; subst h
      rw [getFmt_err he']; exact expected_of_ne (by decide) (by decide)
    · rename_i x hx
      split at h
      · rename_i e' he'
        injection h with h; subst h
        exact allocSp_err hs (getFmt_ok.1 hx) he'
      · cases h
  | new0 => simp [DataFormat.step] at h
  | copy e0 =>
    simp only [DataFormat.step] at h
    split at h
    · rename_i e' he'
      injection h with h; subst h; exact copyData_err hs he'
    · cases h
  | assign d e0 =>
    simp only [DataFormat.step] at h
    split at h
    · rename_i e' he'
      injection h with h; subst h; exact assignData_err hs he'
    · cases h
  | del d =>
    simp only [DataFormat.step] at h
    split at h
    · rename_i e' he'
      injection h with h; subst h
      rw [getData_err he']; exact expected_of_ne (by decide) (by decide)
    · rename_i dat hdat
      split at h
      · rename_i e' he'
        injection h with h; subst h
        exact releaseIfFmt_err hs (getData_ok.1 hdat) he'
      · cases h
  | setfmt d f =>
    simp only [DataFormat.step] at h
    split at h
    · rename_i e' he'
      injection h with h; subst h
      rw [getData_err he']; exact expected_of_ne (by decide) (by decide)
    · rename_i dat hdat
      split at h
      · rename_i e' he'
        injection h with h; subst h
        rw [getFmt_err he']; exact expected_of_ne (by decide) (by decide)
      · rename_i x hx
        split at h
        · rename_i e' he'
          injection h with h; subst h
          exact releaseIfFmt_err hs (getData_ok.1 hdat) he'
        · split at h
          · rename_i e' he'
            injection h with h; subst h
            exact allocSp_err hs (getFmt_ok.1 hx) he'
          · cases h
  | release d =>
    simp only [DataFormat.step] at h
    split at h
    · rename_i e' he'
      injection h with h; subst h
      rw [getData_err he']; exact expected_of_ne (by decide) (by decide)
    · rename_i dat hdat
      split at h
      · rename_i e' he'
        injection h with h; subst h
        rcases fmtOf_err he' with h' | h' <;> rw [h'] <;> exact expected_of_ne (by decide) (by decide)
      · rename_i fid x hfo
        obtain ⟨hfid, hf⟩ := fmtOf_ok hfo
        split at h
        · rename_i e' he'
          injection h with h; subst h
          exact format_release_err hs (getData_ok.1 hdat) hfid hf he'
        · cases h
  | realloc d =>
    simp only [DataFormat.step] at h
    split at h
    · rename_i e' he'
      injection h with h; subst h
      rw [getData_err he']; exact expected_of_ne (by decide) (by decide)
    · rename_i dat hdat
      split at h
      · rename_i e' he'
        injection h with h; subst h
        rcases fmtOf_err he' with h' | h' <;> rw [h'] <;> exact expected_of_ne (by decide) (by decide)
      · rename_i fid x hfo
        obtain ⟨hfid, hf⟩ := fmtOf_ok hfo
        split at h
        · rename_i e' he'
          injection h with h; subst h
          exact format_release_err hs (getData_ok.1 hdat) hfid hf he'
        · split at h
          · rename_i e' he'
            injection h with h; subst h
            exact allocSp_err hs hf he'
          · cases h
  | dadd d name t pers symbol =>
    simp only [DataFormat.step] at h
    split at h
    · rename_i e' he'
      injection h with h; subst h; exact dataAddAttribute_err hs he'
    · cases h
  | clear d =>
    simp only [DataFormat.step] at h
    split at h
    · rename_i e' he'
      injection h with h; subst h; exact clearData_err hs he'
    · cases h
  | clearall d =>
    simp only [DataFormat.step] at h
    split at h
    · rename_i e' he'
      injection h with h; subst h; exact clearData_err hs he'
    · cases h
  | protect d i =>
    simp only [DataFormat.step, protectData] at h
    split at h
    · rename_i e' he'
      split at he'
      · rename_i e'' he''
        injection he' with he'; subst he'
        injection h with h; subst h; exact attrAt_err he''
      · cases he'
    · cases h
  | unprotect d i =>
    simp only [DataFormat.step, protectData] at h
    split at h
    · rename_i e' he'
      split at he'
      · rename_i e'' he''
        injection he' with he'; subst he'
        injection h with h; subst h; exact attrAt_err he''
      · cases he'
    · cases h
  | set d i v =>
    simp only [DataFormat.step] at h
    split at h
    · rename_i e' he'
      injection h with h; subst h; exact attrAt_err he'
    · rename_i l hl
      split at h
      · injection h with h; subst h; exact expected_of_ne (by decide) (by decide)
      · split at h
        · rename_i e' he'
          injection h with h; subst h; exact writeVal_err hs hl he'
        · cases h
  | get d i =>
    simp only [DataFormat.step] at h
    split at h
    · rename_i e' he'
      injection h with h; subst h; exact read_err hs he'
    · cases h
  | push d i el =>
    simp only [DataFormat.step, pushData] at h
    split at h
    · rename_i e' he'
      injection h with h; subst h
      split at he'
      · rename_i e'' he''
        injection he' with he'; subst he'; exact attrAt_err he''
      · rename_i l hl
        obtain ⟨hd, _, _, _⟩ := attrAt_ok hl
        split at he'
        · injection he' with he'; subst he'; exact expected_of_ne (by decide) (by decide)
        · split at he'
          · rename_i e'' he''
            injection he' with he'; subst he'; exact slot_err hs hl he''
          · rename_i b v hslot
            obtain ⟨hb, hv, _⟩ := slot_ok hslot
            split at he'
            · injection he' with he'; subst he'; exact expected_of_ne (by decide) (by decide)
            · rename_i a ha
              split at he'
              · rename_i hg
                exfalso
                have hvv : v = Val.sp (some a) := by
                  cases v <;> simp [Val.spAddr] at ha
                  rw [ha]
                have hown : owns (valsOf s.datas d) a := by
                  rw [valsOf_of_block hd hb]; exact ⟨i, by rw [hv, hvv]⟩
                obtain ⟨c, hc⟩ := hs.heap.live d a hown
                rw [Heap.get_eq_some.2 hc] at hg; cases hg
              · cases he'
    · cases h
  | rc d i =>
    simp only [DataFormat.step, rcData] at h
    split at h
    · rename_i e' he'
      injection h with h; subst h
      split at he'
      · rename_i e'' he''
        injection he' with he'; subst he'; exact attrAt_err he''
      · rename_i l hl
        obtain ⟨hd, _, _, _⟩ := attrAt_ok hl
        split at he'
        · injection he' with he'; subst he'; exact expected_of_ne (by decide) (by decide)
        · split at he'
          · rename_i e'' he''
            injection he' with he'; subst he'; exact slot_err hs hl he''
          · rename_i b v hslot
            obtain ⟨hb, hv, _⟩ := slot_ok hslot
            split at he'
            · cases he'
            · rename_i a ha
              split at he'
              · rename_i hg
                exfalso
                have hvv : v = Val.sp (some a) := by
                  cases v <;> simp [Val.spAddr] at ha
                  rw [ha]
                have hown : owns (valsOf s.datas d) a := by
                  rw [valsOf_of_block hd hb]; exact ⟨i, by rw [hv, hvv]⟩
                obtain ⟨c, hc⟩ := hs.heap.live d a hown
                rw [Heap.get_eq_some.2 hc] at hg; cases hg
              · cases he'
    · cases h
  | dump d =>
    simp only [DataFormat.step, dumpData] at h
    split at h
    · rename_i e' he'
      injection h with h; subst h
      split at he'
      · rename_i e'' he''
        injection he' with he'; subst he'
        rw [getData_err he'']; exact expected_of_ne (by decide) (by decide)
      · split at he'
        · cases he'
        · split at he'
          · rename_i e'' he''
            injection he' with he'; subst he'
            rw [getFmt_err he'']; exact expected_of_ne (by decide) (by decide)
          · split at he' <;> cases he'
    · cases h
  | tostr d i =>
    simp only [DataFormat.step, toStrData] at h
    split at h
    · rename_i e' he'
      injection h with h; subst h
      split at he'
      · rename_i e'' he''
        injection he' with he'; subst he'; exact attrAt_err he''
      · rename_i l hl
        obtain ⟨hd, _, _, _⟩ := attrAt_ok hl
        split at he'
        · injection he' with he'; subst he'; exact expected_of_ne (by decide) (by decide)
        · split at he'
          · rename_i e'' he''
            injection he' with he'; subst he'; exact slot_err hs hl he''
          · rename_i b v hslot
            obtain ⟨hb, hv, _⟩ := slot_ok hslot
            obtain ⟨r, hr⟩ := resolve_ok hs hd hb hv
            rw [hr] at he'
            cases r with
            | none => injection he' with he'; subst he'; exact expected_of_ne (by decide) (by decide)
            | some r =>
              simp only at he'
              rw [toText_err he']; exact expected_of_ne (by decide) (by decide)
    · cases h
  | leakcheck => simp [DataFormat.step] at h
  | fromstr d i text =>
    simp only [DataFormat.step, fromStrData] at h
    split at h
    · rename_i e' he'
      injection h with h; subst h
      split at he'
      · rename_i e'' he''
        injection he' with he'; subst he'; exact attrAt_err he''
      · rename_i l hl
        split at he'
        · rename_i e'' he''
          injection he' with he'; subst he'
          rw [fromText_err he'']; exact expected_of_ne (by decide) (by decide)
        · exact writeVal_err hs hl he'
    · cases h

end Sympler.DataFormat
