import Sympler.Basic
import Sympler.Store
import Sympler.Gen.CellTablesGen

/-!
Executable model of the static part of the cell machinery:
`ManagerCell::cellSubdivide` (/repo/source/src/basic/manager_cell.cpp:399-592) for the single
region of a `BoundaryCuboid` (`BoundaryCuboid::setup(Simulation*, ManagerCell*)`,
/repo/source/src/boundary/boundary_cuboid.cpp), `Cell::init`, `Cell::addNeighbor`,
`Cell::establishLink`, `Cell::addPeriodic` (/repo/source/src/basic/cell.cpp:636-684, 953-958),
`cellDist` and `CellLink::set` (cell.cpp:117-154), `ManagerCell::findCell` /
`region_t::cellAtPos` (manager_cell.cpp:200-232, manager_cell.h).

Objects are indices: cell `i` = position in `ManagerCell::m_cells` (= `region_t::cells`), link `l` =
position in `ManagerCell::m_links`.  Not modelled: `smartCells` (every cell of the region exists, so
`cells_by_pos` is the identity), inlet/outlet cells (`pc == NULL`), several regions (`connect`).
The tables `c_offsets`, `OFFSET2NEIGHBOR`, `INV_NEIGHBOR`, `TOCELLINDEX` come from the GENERATED
file `Sympler/Gen/CellTablesGen.lean`.  Core Lean only.
-/
namespace Sympler

/-- `point_t` / `int_point_t` / `bool_point_t` : three components `(x, y, z)` -/
abbrev V3 (α : Type) := α × α × α

namespace V3
variable {α β γ δ : Type}
@[inline] def x (v : V3 α) : α := v.1
@[inline] def y (v : V3 α) : α := v.2.1
@[inline] def z (v : V3 α) : α := v.2.2
def map (f : α → β) (v : V3 α) : V3 β := (f v.1, f v.2.1, f v.2.2)
def map2 (f : α → β → γ) (a : V3 α) (b : V3 β) : V3 γ := (f a.1 b.1, f a.2.1 b.2.1, f a.2.2 b.2.2)
def map3 (f : α → β → γ → δ) (a : V3 α) (b : V3 β) (c : V3 γ) : V3 δ :=
  (f a.1 b.1 c.1, f a.2.1 b.2.1 c.2.1, f a.2.2 b.2.2 c.2.2)
def all (v : V3 Bool) : Bool := v.1 && v.2.1 && v.2.2
def any (v : V3 Bool) : Bool := v.1 || v.2.1 || v.2.2
def add (a b : V3 Rat) : V3 Rat := map2 (· + ·) a b
def sub (a b : V3 Rat) : V3 Rat := map2 (· - ·) a b
end V3

namespace Grid
open Sympler.Gen.CellTables

/-- geometry of one `Cell` (a `cuboid_t` with `tag` = integer position in the region) -/
structure CellGeom where
  tag : V3 Int
  c1 : V3 Rat
  c2 : V3 Rat
deriving Inhabited

/-- the constant fields of one `CellLink`: `m_first`, `m_second`, `m_alignment` (−1 = local link),
`m_cell_dist`, `m_acts_on` -/
structure LinkGeom where
  first : Nat
  second : Nat
  align : Int
  dist : V3 Rat
  aoF : Bool
  aoS : Bool
deriving Inhabited

/-- `cuboid_t::isInside` (geometric_primitives.h:394): `corner1 ≤ pos < corner2` in every direction -/
def isInside (c1 c2 pos : V3 Rat) : Bool :=
  (V3.map3 (fun a b p => !(decide (p < a) || decide (p ≥ b))) c1 c2 pos).all

/-- `cuboid_t::isInsideEps` (geometric_primitives.h:405): `corner1 − eps ≤ pos < corner2 + eps` -/
def isInsideEps (c1 c2 pos : V3 Rat) (eps : Rat) : Bool :=
  (V3.map3 (fun a b p => !(decide (p < a - eps) || decide (p ≥ b + eps))) c1 c2 pos).all

/-- `cellDist` (cell.cpp:117): per direction `width(first)` if the offset is `+1`, `−width(second)` if
it is `−1`, else `0` -/
def cellDist (a b : CellGeom) (alignment : Nat) : V3 Rat :=
  let off := offsets.getD alignment (0, 0, 0)
  let width1 := V3.sub a.c2 a.c1
  let width2 := V3.sub b.c2 b.c1
  V3.map3 cellDistComponent off width1 width2

/-- The region with its cells, links and per-cell neighbour / outlet lists. -/
structure Grid where
  /-- `region_t::n_cells` (C `int`s) -/
  nc : V3 Int
  /-- `region_t::corner1/corner2` -/
  c1 : V3 Rat
  c2 : V3 Rat
  /-- `region_t::inv_width` -/
  invWidth : V3 Rat
  /-- `ManagerCell::m_cells` -/
  cells : Array CellGeom
  /-- `ManagerCell::m_links` -/
  links : Array LinkGeom
  /-- `Cell::m_local_link` (index into `links`) -/
  loc : Store Nat
  /-- `Cell::m_neighbors[dir]` : cell → direction → link indices in list order -/
  nb : Store (Store (List Nat))
  /-- `Cell::m_outlets[dir]` : cell → direction → cell indices in list order -/
  out : Store (Store (List Nat))

def Grid.nbAt (g : Grid) (c dir : Nat) : List Nat := (g.nb.get c).get dir
def Grid.outAt (g : Grid) (c dir : Nat) : List Nat := (g.out.get c).get dir

/-- `list.push_back` on one of the nested per-cell, per-direction lists -/
def pushAt (s : Store (Store (List Nat))) (c dir v : Nat) : Store (Store (List Nat)) :=
  s.set c ((s.get c).set dir (((s.get c).get dir) ++ [v]))

/-- `CellLink::other` -/
def other (l : LinkGeom) (c : Nat) : Nat := if c = l.first then l.second else l.first

/-- `CellLink::CellLink(first, second, alignment, …)` → `CellLink::set`: distance `0` for a local link,
else `cellDist` -/
def mkLink (g : Grid) (first second : Nat) (alignment : Int) (aoF aoS : Bool) : LinkGeom :=
  let dist : V3 Rat :=
    if first = second then (0, 0, 0)
    else cellDist (g.cells.getD first default) (g.cells.getD second default) alignment.toNat
  { first := first, second := second, align := alignment, dist := dist, aoF := aoF, aoS := aoS }

/-- `Cell::init`: `m_local_link = new CellLink(this, this, -1); m_manager->m_links.push_back(…)` -/
def initCell (g : Grid) (i : Nat) : Grid :=
  { g with loc := g.loc.set i g.links.size, links := g.links.push (mkLink g i i (-1) true true) }

/-- `Cell::establishLink(neighbor, where, first, second)`: look in `m_neighbors[where]` for a link whose
other end is `neighbor`; if there is none create one and append it to `this->m_neighbors[where]`,
to `neighbor->m_neighbors[INV_NEIGHBOR(where)]` and to `m_manager->m_links`. -/
def establishLink (g : Grid) (this neighbor wh : Nat) (aoF aoS : Bool) : Grid :=
  if (g.nbAt this wh).any (fun l => match g.links[l]? with
        | some lk => other lk this == neighbor
        | none => false) then g
  else
    let li := g.links.size
    let nb1 := pushAt g.nb this wh li
    let nb2 := pushAt nb1 neighbor (invNeighbor wh).toNat li
    { g with nb := nb2, links := g.links.push (mkLink g this neighbor wh aoF aoS) }

/-- `if (find(m_outlets[where]…, c) == end) m_outlets[where].push_back(c)` -/
def pushOutlet (s : Store (Store (List Nat))) (c dir v : Nat) : Store (Store (List Nat)) :=
  if ((s.get c).get dir).contains v then s else pushAt s c dir v

/-- `Cell::addNeighbor(neighbor, where)` -/
def addNeighbor (g : Grid) (this neighbor wh : Nat) : Grid :=
  let g := establishLink g this neighbor wh true true
  let o1 := pushOutlet g.out this wh neighbor
  let o2 := pushOutlet o1 neighbor (invNeighbor wh).toNat this
  { g with out := o2 }

/-- `Cell::addPeriodic(neighbor, where)`: outlet only, no link -/
def addPeriodic (g : Grid) (this neighbor wh : Nat) : Grid :=
  { g with out := pushOutlet g.out this wh neighbor }

/-- position of the neighbour of the cell at `tag` in direction `off`:
`neighbor[dim] = tag[dim] + c_offsets[n][dim]; if (periodic[dim]) neighbor[dim] = (neighbor[dim] + n_cells[dim]) % n_cells[dim];`
(C `%` = truncated remainder) -/
def neighborPos (nc : V3 Int) (periodic : V3 Bool) (tag off : V3 Int) : V3 Int :=
  V3.map3 (fun (nb : Int) (p : Bool) (n : Int) => if p then (nb + n).tmod n else nb)
    (V3.map2 (· + ·) tag off) periodic nc

/-- `neighbor.x >= 0 && neighbor.x < n_cells.x && …` -/
def posInRange (nc p : V3 Int) : Bool :=
  (V3.map2 (fun (a n : Int) => decide (0 ≤ a) && decide (a < n)) p nc).all

/-- body of the double loop "Look for neighbors" of `cellSubdivide` for cell `i`, direction `n` -/
def neighborStep (periodic : V3 Bool) (g : Grid) (i n : Nat) : Grid :=
  if (g.nbAt i n).isEmpty then
    let off := offsets.getD n (0, 0, 0)
    let tag := (g.cells.getD i default).tag
    let neighbor := neighborPos g.nc periodic tag off
    let noNeighbour := (V3.map2 (fun (k o : Int) => decide (k = 1) && decide (o ≠ 0)) g.nc off).any
    if posInRange g.nc neighbor then
      -- `r->cellByPos(neighbor)`: `cells_by_pos` is the identity (all cells exist)
      let c := (toCellIndex neighbor g.nc).toNat
      if noNeighbour then addPeriodic g i c n else addNeighbor g i c n
    else g
  else g

/-- `(int) q` for a `double` quotient: truncation towards zero -/
def truncRat (q : Rat) : Int := if q ≥ 0 then q.floor else -((-q).floor)

/-- the cells in creation order: `for z for y for x` -/
def cellPositions (nc : V3 Int) : List (V3 Int) :=
  (List.range nc.z.toNat).flatMap fun (z : Nat) =>
    (List.range nc.y.toNat).flatMap fun (y : Nat) =>
      (List.range nc.x.toNat).map fun (x : Nat) => ((x : Int), (y : Int), (z : Int))

/-- the cells in creation order with `corner1[i] = region.corner1[i] + cell_pos[i]*width[i]`,
`corner2 = corner1 + width` -/
def mkCells (nc : V3 Int) (c1 width : V3 Rat) : Array CellGeom :=
  ((cellPositions nc).map fun p =>
    let cc1 : V3 Rat := V3.map3 (fun (a : Rat) (k : Int) (w : Rat) => a + (k : Rat) * w) c1 p width
    ({ tag := p, c1 := cc1, c2 := V3.add cc1 width } : CellGeom)).toArray

/-- the region with its cells, before any link exists -/
def grid0 (nc : V3 Int) (c1 c2 invWidth : V3 Rat) (cells : Array CellGeom) : Grid :=
  { nc := nc, c1 := c1, c2 := c2, invWidth := invWidth, cells := cells, links := #[],
    loc := Store.const 0, nb := Store.const (Store.const []), out := Store.const (Store.const []) }

/-- the body of `ManagerCell::cellSubdivide` once `n_cells`, `inv_width` and `width` are known: create the
cells (`for z for y for x`), `init()` each (local links), then the "look for neighbours" double loop -/
def buildGrid (nc : V3 Int) (c1 c2 invWidth width : V3 Rat) (periodic : V3 Bool) : Grid :=
  let cells := mkCells nc c1 width
  let g1 := (List.range cells.size).foldl initCell (grid0 nc c1 c2 invWidth cells)
  (List.range cells.size).foldl
    (fun g i => (List.range numNeighbors).foldl (fun g n => neighborStep periodic g i n) g) g1

/-- `ManagerCell::cellSubdivide(cutoff, corner1, corner2, periodic, …)`.  `none` = the `gError`
"Box length too small! No room, for at least two cells!". -/
def subdivide (cutoff : Rat) (c1 c2 : V3 Rat) (periodic : V3 Bool) : Option Grid :=
  let d := V3.sub c2 c1
  let nc : V3 Int := V3.map (fun (di : Rat) => if cutoff > 0 then truncRat (di / cutoff) else 2) d
  if (V3.map (fun (n : Int) => decide (n < 2)) nc).any then none
  else
    let invWidth : V3 Rat := V3.map2 (fun (n : Int) (di : Rat) => (n : Rat) / di) nc d
    let width : V3 Rat := V3.map2 (fun (di : Rat) (n : Int) => di / (n : Rat)) d nc
    some (buildGrid nc c1 c2 invWidth width periodic)

/-- `region_t::isInside` then `region_t::cellAtPos` as used by `ManagerCell::findCell`:
`p = (int)(inv_width * (pos − corner1))`, `cellByPos(p)`; `none` = no region contains `pos`
(→ "No cell for free particle") or the final `isInsideEps` test fails (→ "FATAL: Point is not inside"). -/
def findCell (g : Grid) (eps : Rat) (pos : V3 Rat) : Option Nat :=
  if isInside g.c1 g.c2 pos then
    let p : V3 Int := V3.map3 (fun (iw a c : Rat) => truncRat (iw * (a - c))) g.invWidth pos g.c1
    let idx := (toCellIndex p g.nc).toNat
    match g.cells[idx]? with
    | some cg => if isInsideEps cg.c1 cg.c2 pos eps then some idx else none
    | none => none
  else none

end Grid
end Sympler
