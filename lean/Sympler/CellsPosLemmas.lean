import Sympler.CellsSweepLemmas

/-!
Positions: invariant (5) of C09 (after every `integrateStep1` each registered particle lies in its cell),
the exactness of the periodic wrap, conservation of the particle number, and the characterisation of the
errors of the state machine.  Continues `Sympler/CellsSweepLemmas.lean`.  Core Lean only.
-/
namespace Sympler.Cells
open Sympler Sympler.Grid Sympler.Gen.CellTables

attribute [local irreducible] checkNewPosition updateCell

/-! ### which errors are reachable -/

/-- an error the real code can raise too (`PARTICLEFLEWTOOFAR`), or the model's refusal of a grid with
several outlets in one direction -/
def Err.Allowed (G : Grid.Grid) (e : Err) : Prop :=
  (∃ k p, e = .flewTooFar k p) ∨ (e = .multiOutlet ∧ ¬ OutSingle G)

theorem updateParticles_err {S : Sys} (hG : GridOK S.G) {U UF : List (Nat × Nat)} (c k : Nat) :
    ∀ (ps : List Nat) (s : St), Inv S U UF s → ps.Nodup → (∀ p ∈ ps, p ∈ s.freeAt c k) →
      ∀ e, updateParticles S c k ps s = .error e → Err.Allowed S.G e := by
  intro ps
  induction ps with
  | nil => intro s _ _ _ e he; rw [updateParticles_nil] at he; simp at he
  | cons p ps ih =>
    intro s h hn hmem e he
    have hp : p ∈ s.freeAt c k := hmem p (by simp)
    have hpn : p ∉ ps := (List.nodup_cons.mp hn).1
    rw [updateParticles_cons] at he
    rcases checkNewPosition_inv hG h hp with ⟨s1, e1, inv1, out1, _⟩ | e1 | ⟨e1, hns⟩
    · rw [e1] at he
      exact ih s1 inv1 (List.nodup_cons.mp hn).2
        (fun q hq => out1.mem_of_ne (fun e => hpn (e ▸ hq)) (hmem q (by simp [hq]))) e he
    · rw [e1] at he
      have : e = .flewTooFar k p := (Except.error.inj he).symm
      exact Or.inl ⟨k, p, this⟩
    · rw [e1] at he
      have : e = .multiOutlet := (Except.error.inj he).symm
      exact Or.inr ⟨this, hns⟩

theorem sweepList_err {S : Sys} (hG : GridOK S.G) {U UF : List (Nat × Nat)} (k : Nat) :
    ∀ (cs : List Nat) (s : St), Inv S U UF s → ∀ e, sweepList S k cs s = .error e → Err.Allowed S.G e := by
  intro cs
  induction cs with
  | nil => intro s _ e he; simp [sweepList] at he
  | cons c cs ih =>
    intro s h e he
    rw [sweepList_cons] at he
    cases e1 : updateCell S k s c with
    | error err =>
      rw [e1] at he
      have : e = err := (Except.error.inj he).symm
      subst this
      rw [updateCell_eq] at e1
      exact updateParticles_err hG c k _ s h (h.free_nodup c k) (fun p hp => hp) _ e1
    | ok s1 =>
      rw [e1] at he
      exact ih s1 (updateCell_inv hG h e1) e he

/-- from a state satisfying the invariant an operation can only fail with an allowed error: no `abort()`
in the link counters, no iteration bound, no "no cell" -/
theorem applyOp_err {S : Sys} (hG : GridOK S.G) {U UF : List (Nat × Nat)} {s : St} (h : Inv S U UF s)
    (op : Op) {e : Err} (he : applyOp S s op = .error e) : Err.Allowed S.G e := by
  cases op with
  | move k ms =>
    have h0 := setPositions_inv k ms h
    obtain ⟨L, hL, _⟩ := h0.book.act
    have he' : sweep S k (setPositions k ms s) = .error e := he
    rw [sweep_eq_sweepList hG k h0 hL.cl] at he'
    exact sweepList_err hG k L _ h0 e he'
  | commit =>
    obtain ⟨s2, e2, _⟩ := commitAll_inv hG h
    have he' : commitAll S s = .error e := he
    rw [e2] at he'; simp at he'

/-! ### invariant (5): positions lie in the cells -/

/-- ε-containment of `r` in cell `c` (`cuboid_t::isInsideEps` with `g_geom_eps`) -/
def InEps (S : Sys) (c : Nat) (r : V3 Rat) : Prop :=
  isInsideEps (S.G.cells.getD c default).c1 (S.G.cells.getD c default).c2 r S.eps = true

/-- (5): every registered particle (free list, injection buffer, frozen list) lies in its cell -/
structure PosOK (S : Sys) (s : St) : Prop where
  free : ∀ c k p, p ∈ s.freeAt c k → InEps S c (s.posAt k p)
  inj : ∀ c k p, p ∈ s.injAt c k → InEps S c (s.posAt k p)
  frozen : ∀ c k p, p ∈ s.frozenAt c k → InEps S c (s.fposAt k p)

/-- (5) during the sweep of colour `k`: particles of colour `k` that are still `pend`ing may be anywhere -/
structure SweepPos (S : Sys) (k : Nat) (pend : Nat → Nat → Prop) (s : St) : Prop where
  other : ∀ c k' p, k' ≠ k → p ∈ s.freeAt c k' → InEps S c (s.posAt k' p)
  inj : ∀ c k' p, p ∈ s.injAt c k' → InEps S c (s.posAt k' p)
  done : ∀ c p, p ∈ s.freeAt c k → ¬ pend c p → InEps S c (s.posAt k p)
  frozen : ∀ c k' p, p ∈ s.frozenAt c k' → InEps S c (s.fposAt k' p)

theorem CheckOutcome.injAt_eq {S : Sys} {s s' : St} {c k p : Nat} (h : CheckOutcome S s s' c k p) :
    (∀ c' k', s'.injAt c' k' = s.injAt c' k') ∨
    (∃ t, ∀ c' k', s'.injAt c' k' = if c' = t ∧ k' = k then s.injAt t k ++ [p] else s.injAt c' k') := by
  cases h with
  | stay h _ => left; intro c' k'; rw [h]
  | erased hfree hinj => left; intro c' k'; simp only [St.injAt, hinj]
  | moved t n ht hn hout outside hfree hinj =>
    right; exact ⟨t, fun c' k' => by simp only [St.injAt, hinj, get_setAt]⟩

theorem CheckOutcome.frozen_eq {S : Sys} {s s' : St} {c k p : Nat} (h : CheckOutcome S s s' c k p) :
    s'.frozen = s.frozen ∧ s'.fpos = s.fpos := by
  cases h with
  | stay h _ => rw [h]; exact ⟨rfl, rfl⟩
  | erased hfree hinj hfrozen hpos hfpos => exact ⟨hfrozen, hfpos⟩
  | moved t n ht hn hout outside hfree hinj hfrozen hpos hfpos => exact ⟨hfrozen, hfpos⟩

/-- only the position of the checked particle can change -/
theorem CheckOutcome.posAt_ne {S : Sys} {s s' : St} {c k p : Nat} (h : CheckOutcome S s s' c k p)
    {k' p' : Nat} (hne : ¬ (k' = k ∧ p' = p)) : s'.posAt k' p' = s.posAt k' p' := by
  cases h with
  | stay h _ => rw [h]
  | erased hfree hinj hfrozen hpos => simp only [St.posAt, hpos]
  | moved t n ht hn hout outside hfree hinj hfrozen hpos =>
    simp only [St.posAt, hpos, get_setAt, hne, if_false]

/-- one `checkNewPosition` of the sweep of colour `k` in cell `c0`, remaining cells `cs` -/
theorem sweepPos_step {S : Sys} (he : 0 ≤ S.eps) {U UF : List (Nat × Nat)} {k c0 : Nat} {cs : List Nat}
    {s s' : St} {p0 : Nat} {ps : List Nat} (h : Inv S U UF s) (hp0 : p0 ∈ s.freeAt c0 k) (hp0n : p0 ∉ ps)
    (hQ : SweepPos S k (fun c p => c ∈ cs ∨ (c = c0 ∧ p ∈ p0 :: ps)) s)
    (out : CheckOutcome S s s' c0 k p0) :
    SweepPos S k (fun c p => c ∈ cs ∨ (c = c0 ∧ p ∈ ps)) s' := by
  have hnd := h.free_nodup c0 k
  -- a particle of another list is a different particle
  have hdiff : ∀ c p, p ∈ s.freeAt c k → (c ≠ c0 ∨ p ∈ (s.freeAt c0 k).erase p0) → p ≠ p0 := by
    intro c p hp hc e
    subst e
    rcases hc with hc | hc
    · exact hc (h.unique hp0 (Or.inl hp)).1
    · exact ((List.Nodup.mem_erase_iff hnd).mp hc).1 rfl
  have hinjne : ∀ c k' p, p ∈ s.injAt c k' → ¬ (k' = k ∧ p = p0) := by
    rintro c k' p hp ⟨rfl, rfl⟩
    have := (h.unique hp0 (Or.inr hp)).1
    subst this
    exact (h.unique hp0 (Or.inr hp)).2 hp
  obtain ⟨hfz, hfp⟩ := out.frozen_eq
  have hfrozen : ∀ c k' p, p ∈ s'.frozenAt c k' → InEps S c (s'.fposAt k' p) := by
    intro c k' p hp
    simp only [St.frozenAt, St.fposAt, hfz, hfp] at hp ⊢
    exact hQ.frozen c k' p hp
  -- common part of the two outcomes in which the particle leaves the free list of `c0`
  have left_aux : (∀ c' k', s'.freeAt c' k' =
        if c' = c0 ∧ k' = k then (s.freeAt c0 k).erase p0 else s.freeAt c' k') →
      (∀ c k' p, p ∈ s'.injAt c k' → p ∈ s.injAt c k' ∨ (k' = k ∧ p = p0 ∧ InEps S c (s'.posAt k p0))) →
      SweepPos S k (fun c p => c ∈ cs ∨ (c = c0 ∧ p ∈ ps)) s' := by
    intro hf hi
    have hmemfree : ∀ c k' p, p ∈ s'.freeAt c k' → p ∈ s.freeAt c k' ∧ (k' = k → p ≠ p0) := by
      intro c k' p hp
      rw [hf c k'] at hp
      by_cases hck : c = c0 ∧ k' = k
      · obtain ⟨rfl, rfl⟩ := hck
        simp only [and_self, if_true] at hp
        exact ⟨List.mem_of_mem_erase hp, fun _ => ((List.Nodup.mem_erase_iff hnd).mp hp).1⟩
      · simp only [hck, if_false] at hp
        refine ⟨hp, ?_⟩
        rintro rfl
        have : c ≠ c0 := fun e => hck ⟨e, rfl⟩
        exact hdiff c p hp (Or.inl this)
    refine ⟨?_, ?_, ?_, hfrozen⟩
    · intro c k' p hk hp
      obtain ⟨hp1, _⟩ := hmemfree c k' p hp
      rw [out.posAt_ne (fun hh => hk hh.1)]
      exact hQ.other c k' p hk hp1
    · intro c k' p hp
      rcases hi c k' p hp with hp | ⟨rfl, rfl, hin⟩
      · rw [out.posAt_ne (hinjne c k' p hp)]
        exact hQ.inj c k' p hp
      · exact hin
    · intro c p hp hnp
      obtain ⟨hp1, hp2⟩ := hmemfree c k p hp
      rw [out.posAt_ne (fun hh => hp2 rfl hh.2)]
      apply hQ.done c p hp1
      rintro (hc | ⟨hc, hpp⟩)
      · exact hnp (Or.inl hc)
      · rcases List.mem_cons.mp hpp with e | e
        · exact hp2 rfl e
        · exact hnp (Or.inr ⟨hc, e⟩)
  cases out with
  | stay hs inside =>
    subst hs
    refine ⟨hQ.other, hQ.inj, ?_, hQ.frozen⟩
    intro c p hp hnp
    by_cases hcp : c = c0 ∧ p = p0
    · obtain ⟨rfl, rfl⟩ := hcp; exact inside
    · apply hQ.done c p hp
      rintro (hc | ⟨hc, hpp⟩)
      · exact hnp (Or.inl hc)
      · rcases List.mem_cons.mp hpp with e | e
        · exact hcp ⟨hc, e⟩
        · exact hnp (Or.inr ⟨hc, e⟩)
  | erased hfree hinj hfrozen' hpos hfpos herased hout _ =>
    apply left_aux
    · intro c' k'; simp only [St.freeAt, hfree, get_setAt]
    · intro c k' p hp; left; simpa only [St.injAt, hinj] using hp
  | moved t n ht hn hout outside hfree hinj hfrozen' hpos hfpos herased inside =>
    apply left_aux
    · intro c' k'; simp only [St.freeAt, hfree, get_setAt]
    · intro c k' p hp
      simp only [St.injAt, hinj, get_setAt] at hp
      by_cases hck : c = t ∧ k' = k
      · obtain ⟨rfl, rfl⟩ := hck
        simp only [and_self, if_true, List.mem_append, List.mem_singleton] at hp
        rcases hp with hp | rfl
        · exact Or.inl hp
        · right
          refine ⟨rfl, rfl, ?_⟩
          unfold InEps
          have : s'.posAt k' p = wrapPos (S.G.cells.getD c0 default) (S.G.cells.getD c default) n
              (s.posAt k' p) := by
            simp only [St.posAt, hpos, get_setAt, and_self, if_true]
          rw [this]
          exact isInsideEps_of_isInside he inside
      · simp only [hck, if_false] at hp
        exact Or.inl hp

/-- a cell that is not active lists no particle -/
theorem free_empty_of_inactive {S : Sys} {U UF : List (Nat × Nat)} {s : St} (h : Inv S U UF s)
    {L : List Nat} (hL : s.act.cl.Repr L) {c : Nat} (hc : c ∉ L) (k : Nat) : s.freeAt c k = [] := by
  obtain ⟨L0, hL0, hiff⟩ := h.book.act
  have hLL : L = L0 := DLL.repr_unique hL hL0.cl
  subst hLL
  by_cases hk : c < S.nCells ∧ k < S.nCol
  · have h0 : s.nPart.get c = 0 := by
      have := mt (hiff c).mpr hc; omega
    rw [h.book.npart c] at h0
    have := term_le_sum (fun k => (s.freeAt c k).length + (s.frozenAt c k).length) S.nCol k hk.2
    unfold cellCount at h0
    have hl : (s.freeAt c k).length = 0 := by omega
    exact List.length_eq_zero_iff.mp hl
  · exact (h.supp c k hk).1

/-- the sweep of colour `k` re-establishes ε-containment for colour `k` -/
theorem sweep_pos {S : Sys} (hG : GridOK S.G) (he : 0 ≤ S.eps) {U UF : List (Nat × Nat)} {k : Nat}
    {s s' : St} (h : Inv S U UF s)
    (hother : ∀ c k' p, k' ≠ k → p ∈ s.freeAt c k' → InEps S c (s.posAt k' p))
    (hinj : ∀ c k' p, p ∈ s.injAt c k' → InEps S c (s.posAt k' p))
    (hfrozen : ∀ c k' p, p ∈ s.frozenAt c k' → InEps S c (s.fposAt k' p))
    (e : sweep S k s = .ok s') : Inv S U UF s' ∧ PosOK S s' := by
  obtain ⟨L, hL, _⟩ := h.book.act
  rw [sweep_eq_sweepList hG k h hL.cl] at e
  have hR0 : L.Nodup ∧ SweepPos S k (fun c _ => c ∈ L) s := by
    refine ⟨hL.cl.nodup, hother, hinj, ?_, hfrozen⟩
    intro c p hp hc
    rw [free_empty_of_inactive h hL.cl hc k] at hp; simp at hp
  obtain ⟨inv', _, hR⟩ := sweepList_ind hG k (fun cs s => cs.Nodup ∧ SweepPos S k (fun c _ => c ∈ cs) s)
    (by
      intro s1 s2 c cs h1 hR1 e1
      obtain ⟨hnd, hR1⟩ := hR1
      have hc : c ∉ cs := (List.nodup_cons.mp hnd).1
      refine ⟨(List.nodup_cons.mp hnd).2, ?_⟩
      rw [updateCell_eq] at e1
      have hQ0 : SweepPos S k (fun c' p => c' ∈ cs ∨ (c' = c ∧ p ∈ s1.freeAt c k)) s1 := by
        refine ⟨hR1.other, hR1.inj, ?_, hR1.frozen⟩
        intro c' p hp hnp
        apply hR1.done c' p hp
        intro hm
        rcases List.mem_cons.mp hm with e | e
        · subst e; exact hnp (Or.inr ⟨rfl, hp⟩)
        · exact hnp (Or.inl e)
      obtain ⟨_, hQ, _⟩ := updateParticles_ind hG c k
        (fun ps st => SweepPos S k (fun c' p => c' ∈ cs ∨ (c' = c ∧ p ∈ ps)) st)
        (fun sa sb p ps ha hp hpn _ hQa out _ => sweepPos_step he ha hp hpn hQa out)
        (s1.freeAt c k) s1 h1 (h1.free_nodup c k) (fun p hp => hp) hQ0 s2 e1
      refine ⟨hQ.other, hQ.inj, ?_, hQ.frozen⟩
      intro c' p hp hnp
      apply hQ.done c' p hp
      rintro (hm | ⟨_, hm⟩)
      · exact hnp hm
      · simp at hm)
    L s h hR0 s' e
  refine ⟨inv', ?_, hR.inj, hR.frozen⟩
  intro c k' p hp
  by_cases hk : k' = k
  · subst hk; exact hR.done c p hp (by simp)
  · exact hR.other c k' p hk hp

/-- **one integrator's `integrateStep1` re-establishes (5)**: if before the step every registered particle
lies in its cell (ε-containment) and the injection buffers are empty, then after new positions for colour `k`
(arbitrary!), the sweep and the commit the same holds — unless the step fails. -/
theorem moveColour_pos {S : Sys} (hG : GridOK S.G) (he : 0 ≤ S.eps) {U UF : List (Nat × Nat)} {k : Nat}
    {ms : List (Nat × V3 Rat)} {s s' : St} (h : Inv S U UF s) (hp : PosOK S s)
    (hbuf : ∀ c k', s.injAt c k' = []) (e : moveColour S k ms s = .ok s') :
    Inv S U UF s' ∧ PosOK S s' ∧ ∀ c k', s'.injAt c k' = [] := by
  unfold moveColour invalidatePositions at e
  cases e1 : sweep S k (setPositions k ms s) with
  | error err => rw [e1] at e; simp at e
  | ok s1 =>
    rw [e1] at e
    simp only at e
    obtain ⟨a1, a2, a3, a4, a5, a6, a7, a8⟩ := setPositions_frame k ms s
    have h0 := setPositions_inv k ms h
    obtain ⟨inv1, pos1⟩ := sweep_pos hG he h0
      (by
        intro c k' p hk hm
        rw [a8 k' p hk]
        simp only [St.freeAt, a1] at hm
        exact hp.free c k' p hm)
      (by
        intro c k' p hm
        simp only [St.injAt, a3] at hm
        have := hbuf c k'
        simp only [St.injAt] at this
        rw [this] at hm; simp at hm)
      (by
        intro c k' p hm
        simp only [St.frozenAt, St.fposAt, a2, a6] at hm ⊢
        exact hp.frozen c k' p hm)
      e1
    obtain ⟨s2, e2, inv2, f2, j2, z2, p2, q2, _⟩ := commitAll_inv hG inv1
    rw [e2] at e
    have : s2 = s' := Except.ok.inj e
    subst this
    refine ⟨inv2, ⟨?_, ?_, ?_⟩, j2⟩
    · intro c k' p hm
      rw [f2 c k'] at hm
      simp only [St.posAt, p2]
      rcases List.mem_append.mp hm with hm | hm
      · exact pos1.free c k' p hm
      · exact pos1.inj c k' p hm
    · intro c k' p hm; rw [j2 c k'] at hm; simp at hm
    · intro c k' p hm
      simp only [St.frozenAt, St.fposAt, z2, q2] at hm ⊢
      exact pos1.frozen c k' p hm

/-! ### (5) after the initial assignment -/

theorem assignFree_pos {S : Sys} : ∀ (fs : List (Nat × Nat × V3 Rat)) {U : List (Nat × Nat)} {s s' : St},
    (∀ c k p, p ∈ s.injAt c k → (k, p) ∈ U ∧ InEps S c (s.posAt k p)) →
    (∀ c k, s.freeAt c k = []) →
    (fs.map fun x => (x.1, x.2.1)).Nodup → (∀ x ∈ fs, (x.1, x.2.1) ∉ U) → assignFree S fs s = .ok s' →
    (∀ c k p, p ∈ s'.injAt c k → InEps S c (s'.posAt k p)) ∧ (∀ c k, s'.freeAt c k = []) ∧
      s'.frozen = s.frozen ∧ s'.fpos = s.fpos := by
  intro fs
  induction fs with
  | nil =>
    intro U s s' h hf _ _ e
    have : s = s' := Except.ok.inj e
    subst this
    exact ⟨fun c k p hp => (h c k p hp).2, hf, rfl, rfl⟩
  | cons x fs ih =>
    intro U s s' h hf hn hx e
    obtain ⟨k0, p0, r⟩ := x
    simp only [assignFree] at e
    cases hfc : findCell S.G S.eps r with
    | none => rw [hfc] at e; simp at e
    | some c0 =>
      rw [hfc] at e
      simp only at e
      have hin := (findCell_lt hfc).2
      have hx0 : (k0, p0) ∉ U := hx (k0, p0, r) (by simp)
      simp only [List.map_cons, List.nodup_cons] at hn
      obtain ⟨r1, r2, r3, r4⟩ := ih (U := (k0, p0) :: U)
        (s := injectFree { s with pos := setAt s.pos k0 p0 r } c0 k0 p0)
        (by
          intro c k p hp
          simp only [St.injAt, injectFree, get_setAt] at hp
          simp only [St.posAt, injectFree, get_setAt]
          by_cases hck : c = c0 ∧ k = k0
          · obtain ⟨rfl, rfl⟩ := hck
            simp only [and_self, if_true, List.mem_append, List.mem_singleton] at hp
            rcases hp with hp | rfl
            · obtain ⟨hU, hI⟩ := h c k p hp
              have hne : ¬ (True ∧ p = p0) := fun hh => hx0 (hh.2 ▸ hU)
              refine ⟨List.mem_cons_of_mem _ hU, ?_⟩
              simp only [true_and] at hne
              simp only [hne, and_false, if_false]
              exact hI
            · exact ⟨List.mem_cons_self, by simp only [and_self, if_true]; exact hin⟩
          · simp only [hck, if_false] at hp
            obtain ⟨hU, hI⟩ := h c k p hp
            have hne : ¬ (k = k0 ∧ p = p0) := fun hh => hx0 (by rw [← hh.1, ← hh.2]; exact hU)
            refine ⟨List.mem_cons_of_mem _ hU, ?_⟩
            simp only [hne, if_false]
            exact hI)
        hf hn.2
        (by
          intro y hy
          simp only [List.mem_cons, not_or]
          refine ⟨?_, hx y (by simp [hy])⟩
          intro heq
          apply hn.1
          rw [← heq]
          exact List.mem_map.mpr ⟨y, hy, rfl⟩) e
      exact ⟨r1, r2, r3, r4⟩

theorem assignFrozen_pos {S : Sys} (hG : GridOK S.G) :
    ∀ (fs : List (Nat × Nat × V3 Rat)) {U UF0 UF : List (Nat × Nat)} {s s' : St},
    Inv S U UF0 s →
    (∀ c k p, p ∈ s.frozenAt c k → (k, p) ∈ UF ∧ InEps S c (s.fposAt k p)) →
    (fs.map fun x => (x.1, x.2.1)).Nodup → (∀ x ∈ fs, (x.1, x.2.1) ∉ UF ∧ (x.1, x.2.1) ∉ UF0 ∧ x.1 < S.nCol) →
    assignFrozen S fs s = .ok s' →
    (∀ c k p, p ∈ s'.frozenAt c k → InEps S c (s'.fposAt k p)) ∧ s'.free = s.free ∧ s'.inj = s.inj ∧
      s'.pos = s.pos := by
  intro fs
  induction fs with
  | nil =>
    intro U UF0 UF s s' _ h _ _ e
    have : s = s' := Except.ok.inj e
    subst this
    exact ⟨fun c k p hp => (h c k p hp).2, rfl, rfl, rfl⟩
  | cons x fs ih =>
    intro U UF0 UF s s' hinv h hn hx e
    obtain ⟨k0, p0, r⟩ := x
    simp only [assignFrozen] at e
    cases hfc : findCell S.G S.eps r with
    | none => rw [hfc] at e; simp at e
    | some c0 =>
      rw [hfc] at e
      simp only at e
      obtain ⟨hc, hin⟩ := findCell_lt hfc
      obtain ⟨hx1, hx2, hx3⟩ := hx (k0, p0, r) (by simp)
      simp only [List.map_cons, List.nodup_cons] at hn
      have h0 : Inv S U UF0 ({ s with fpos := setAt s.fpos k0 p0 r } : St) :=
        ⟨⟨hinv.book.act, hinv.book.npart⟩, hinv.occ, hinv.focc, hinv.supp⟩
      obtain ⟨s1, e1, inv1, _, g1, g2, g3, g4, g5⟩ := injectFrozen_inv hG h0 hc hx3 hx2
      rw [e1] at e
      simp only at e
      obtain ⟨r1, r2, r3, r4⟩ := ih (UF := (k0, p0) :: UF) inv1
        (by
          intro c k p hp
          simp only [St.frozenAt, g5, get_setAt] at hp
          simp only [St.fposAt, g4, get_setAt]
          by_cases hck : c = c0 ∧ k = k0
          · obtain ⟨rfl, rfl⟩ := hck
            simp only [and_self, if_true, List.mem_append, List.mem_singleton] at hp
            rcases hp with hp | rfl
            · obtain ⟨hU, hI⟩ := h c k p hp
              have hne : ¬ p = p0 := fun hh => hx1 (hh ▸ hU)
              refine ⟨List.mem_cons_of_mem _ hU, ?_⟩
              simp only [hne, and_false, if_false]
              exact hI
            · exact ⟨List.mem_cons_self, by simp only [and_self, if_true]; exact hin⟩
          · simp only [hck, if_false] at hp
            obtain ⟨hU, hI⟩ := h c k p hp
            have hne : ¬ (k = k0 ∧ p = p0) := fun hh => hx1 (by rw [← hh.1, ← hh.2]; exact hU)
            refine ⟨List.mem_cons_of_mem _ hU, ?_⟩
            simp only [hne, if_false]
            exact hI)
        hn.2
        (by
          intro y hy
          obtain ⟨y1, y2, y3⟩ := hx y (by simp [hy])
          have hne : (y.1, y.2.1) ≠ (k0, p0) := by
            intro heq
            apply hn.1
            rw [← heq]
            exact List.mem_map.mpr ⟨y, hy, rfl⟩
          refine ⟨?_, ?_, y3⟩
          · simp only [List.mem_cons, not_or]; exact ⟨hne, y1⟩
          · simp only [List.mem_cons, not_or]; exact ⟨hne, y2⟩) e
      exact ⟨r1, r2.trans g1, r3.trans g2, r4.trans g3⟩

/-- (5) holds after `Phase::assignParticlesToCells` -/
theorem assignParticlesToCells_pos {S : Sys} (hG : GridOK S.G) {free frozen : List (Nat × Nat × V3 Rat)}
    (hfn : (free.map fun x => (x.1, x.2.1)).Nodup) (hzn : (frozen.map fun x => (x.1, x.2.1)).Nodup)
    (hfc : ∀ x ∈ free, x.1 < S.nCol) (hzc : ∀ x ∈ frozen, x.1 < S.nCol) {s : St}
    (e : assignParticlesToCells S free frozen = .ok s) : PosOK S s := by
  unfold assignParticlesToCells at e
  cases e1 : assignFree S free St.init with
  | error err => rw [e1] at e; simp at e
  | ok s1 =>
    rw [e1] at e
    simp only at e
    obtain ⟨inv1, er1, _⟩ := assignFree_inv free (inv_init S) rfl hfn
      (fun x hx => ⟨by simp, hfc x hx⟩) e1
    obtain ⟨p1, p2, p3, p4⟩ := assignFree_pos (S := S) free (U := []) (s := St.init)
      (by intro c k p hp; simp [St.init, St.injAt] at hp)
      (by intro c k; simp [St.init, St.freeAt]) hfn (by simp) e1
    cases e2 : assignFrozen S frozen s1 with
    | error err => rw [e2] at e; simp at e
    | ok s2 =>
      rw [e2] at e
      simp only at e
      obtain ⟨inv2, er2⟩ := assignFrozen_inv hG frozen inv1 er1 hzn (fun x hx => ⟨by simp, hzc x hx⟩) e2
      obtain ⟨q1, q2, q3, q4⟩ := assignFrozen_pos hG frozen (UF := []) inv1
        (by
          intro c k p hp
          simp only [St.frozenAt, p3] at hp
          simp [St.init] at hp)
        hzn (fun x hx => ⟨by simp, by simp, hzc x hx⟩) e2
      obtain ⟨s3, e3, inv3, f3, j3, z3, pp3, fp3, _⟩ := commitAll_inv hG inv2
      rw [e3] at e
      have : s3 = s := Except.ok.inj e
      subst this
      refine ⟨?_, ?_, ?_⟩
      · intro c k p hp
        rw [f3 c k] at hp
        have hfree2 : s2.freeAt c k = [] := by simp only [St.freeAt, q2]; exact p2 c k
        rw [hfree2, List.nil_append] at hp
        simp only [St.posAt, pp3, q4]
        simp only [St.injAt, q3] at hp
        exact p1 c k p hp
      · intro c k p hp; rw [j3 c k] at hp; simp at hp
      · intro c k p hp
        simp only [St.frozenAt, St.fposAt, z3, fp3] at hp ⊢
        exact q1 c k p hp

/-! ### exact wrap, no erase inside walls -/

/-- a position that failed the `isInsideEps` test (with `eps ≥ 0`) has a non-zero leave offset, hence the
direction index `n` decodes back to that offset -/
theorem leaveOffset_decode {cg : CellGeom} {r : V3 Rat} {eps : Rat} (he : 0 ≤ eps)
    (hout : isInsideEps cg.c1 cg.c2 r eps = false) :
    offsets.getD (offset2neighbor (leaveOffset cg r)).toNat (0, 0, 0) = leaveOffset cg r := by
  have h1 := offComponent_mem r.1 cg.c1.1 cg.c2.1
  have h2 := offComponent_mem r.2.1 cg.c1.2.1 cg.c2.2.1
  have h3 := offComponent_mem r.2.2 cg.c1.2.2 cg.c2.2.2
  have hne : leaveOffset cg r ≠ (0, 0, 0) := by
    intro h0
    have hin : isInsideEps cg.c1 cg.c2 r eps = true := by
      rw [isInsideEps_iff]
      unfold leaveOffset V3.map3 at h0
      have e1 : offComponent r.1 cg.c1.1 cg.c2.1 = 0 := congrArg (·.1) h0
      have e2 : offComponent r.2.1 cg.c1.2.1 cg.c2.2.1 = 0 := congrArg (·.2.1) h0
      have e3 : offComponent r.2.2 cg.c1.2.2 cg.c2.2.2 = 0 := congrArg (·.2.2) h0
      unfold offComponent at e1 e2 e3
      refine ⟨?_, ?_, ?_⟩
      · split at e1
        · simp at e1
        · split at e1
          · simp at e1
          · grind
      · split at e2
        · simp at e2
        · split at e2
          · simp at e2
          · grind
      · split at e3
        · simp at e3
        · split at e3
          · simp at e3
          · grind
    rw [hin] at hout; simp at hout
  exact (off_range _ h1 _ h2 _ h3 hne).2.2

/-- **exactness of the wrap**: the position handed to the outlet cell differs from the integrated
position by `∓(box length)` exactly in the periodic directions in which the particle is beyond the box
face, and by nothing in the others -/
theorem wrapPos_exact {S : Sys} {per : V3 Bool} (hGeo : GeomOK S.G per) (he : 0 ≤ S.eps) {c t n : Nat}
    {r : V3 Rat} (hc : c < S.nCells)
    (hn : n = (offset2neighbor (leaveOffset (S.G.cells.getD c default) r)).toNat)
    (hout : S.G.outAt c n = [t])
    (outside : isInsideEps (S.G.cells.getD c default).c1 (S.G.cells.getD c default).c2 r S.eps = false)
    (inside : isInside (S.G.cells.getD t default).c1 (S.G.cells.getD t default).c2
      (wrapPos (S.G.cells.getD c default) (S.G.cells.getD t default) n r) = true) :
    WrapComp per.1 S.G.c1.1 S.G.c2.1 r.1 (wrapPos (S.G.cells.getD c default) (S.G.cells.getD t default) n r).1 ∧
    WrapComp per.2.1 S.G.c1.2.1 S.G.c2.2.1 r.2.1
      (wrapPos (S.G.cells.getD c default) (S.G.cells.getD t default) n r).2.1 ∧
    WrapComp per.2.2 S.G.c1.2.2 S.G.c2.2.2 r.2.2
      (wrapPos (S.G.cells.getD c default) (S.G.cells.getD t default) n r).2.2 := by
  have hnlt : n < numNeighbors := by rw [hn]; exact leaveOffset_lt _ _
  obtain ⟨d1, d2, d3⟩ := (hGeo c hc n hnlt).1 t (by rw [hout]; simp)
  have hoff : offsets.getD n (0, 0, 0) = leaveOffset (S.G.cells.getD c default) r := by
    rw [hn]; exact leaveOffset_decode he outside
  rw [hoff] at d1 d2 d3
  rw [isInside_iff] at inside
  obtain ⟨i1, i2, i3⟩ := inside
  exact ⟨wrap_dim d1 i1, wrap_dim d2 i2, wrap_dim d3 i3⟩

/-- inside the walls: in every NON-periodic direction the coordinate lies in the box -/
def InWalls (G : Grid.Grid) (per : V3 Bool) (r : V3 Rat) : Prop :=
  (per.1 = false → G.c1.1 ≤ r.1 ∧ r.1 < G.c2.1) ∧ (per.2.1 = false → G.c1.2.1 ≤ r.2.1 ∧ r.2.1 < G.c2.2.1) ∧
  (per.2.2 = false → G.c1.2.2 ≤ r.2.2 ∧ r.2.2 < G.c2.2.2)

/-- a particle inside the walls is never erased, and stays inside the walls when it is wrapped -/
theorem checkOutcome_walls {S : Sys} {per : V3 Bool} (hGeo : GeomOK S.G per) (he : 0 ≤ S.eps)
    {s s' : St} {c k p : Nat} (hc : c < S.nCells) (out : CheckOutcome S s s' c k p)
    (hw : ∀ q, InWalls S.G per (s.posAt k q)) :
    s'.erased = s.erased ∧ ∀ q, InWalls S.G per (s'.posAt k q) := by
  cases out with
  | stay hs _ => subst hs; exact ⟨rfl, hw⟩
  | erased hfree hinj hfrozen hpos hfpos herased hout outside =>
    exfalso
    have hnlt := leaveOffset_lt (S.G.cells.getD c default) (s.posAt k p)
    have hwall := (hGeo c hc _ hnlt).2 hout
    rw [leaveOffset_decode he outside] at hwall
    obtain ⟨w1, w2, w3⟩ := hw p
    unfold WallDim leaveOffset V3.map3 offComponent at hwall
    simp only at hwall
    rcases hwall with ⟨hp, h⟩ | ⟨hp, h⟩ | ⟨hp, h⟩
    · have := w1 hp; grind
    · have := w2 hp; grind
    · have := w3 hp; grind
  | moved t n ht hn hout outside hfree hinj hfrozen hpos hfpos herased inside =>
    refine ⟨herased, ?_⟩
    intro q
    by_cases hq : q = p
    · subst hq
      have hq' : s'.posAt k q = wrapPos (S.G.cells.getD c default) (S.G.cells.getD t default) n (s.posAt k q) := by
        simp only [St.posAt, hpos, get_setAt, and_self, if_true]
      rw [hq']
      obtain ⟨c1, c2, c3⟩ := wrapPos_exact hGeo he hc hn hout outside inside
      obtain ⟨w1, w2, w3⟩ := hw q
      unfold WrapComp at c1 c2 c3
      refine ⟨fun hp => ?_, fun hp => ?_, fun hp => ?_⟩
      · have := w1 hp; rw [c1.2.2 this.1 this.2]; exact this
      · have := w2 hp; rw [c2.2.2 this.1 this.2]; exact this
      · have := w3 hp; rw [c3.2.2 this.1 this.2]; exact this
    · have : s'.posAt k q = s.posAt k q := by
        simp only [St.posAt, hpos, get_setAt, hq, and_false, if_false]
      rw [this]; exact hw q

/-- **no particle is lost in a periodic or wall-closed box**: if after integration every particle of the
moved colour is inside the walls (non-periodic directions), the sweep erases nothing -/
theorem sweep_no_erase {S : Sys} {per : V3 Bool} (hG : GridOK S.G) (hGeo : GeomOK S.G per) (he : 0 ≤ S.eps)
    {U UF : List (Nat × Nat)} {k : Nat} {s s' : St} (h : Inv S U UF s)
    (hw : ∀ q, InWalls S.G per (s.posAt k q)) (e : sweep S k s = .ok s') :
    s'.erased = s.erased ∧ ∀ q, InWalls S.G per (s'.posAt k q) := by
  obtain ⟨L, hL, _⟩ := h.book.act
  rw [sweep_eq_sweepList hG k h hL.cl] at e
  obtain ⟨_, hR⟩ := sweepList_ind hG k
    (fun _ st => st.erased = s.erased ∧ ∀ q, InWalls S.G per (st.posAt k q))
    (by
      intro s1 s2 c cs h1 hR1 e1
      rw [updateCell_eq] at e1
      obtain ⟨_, hQ, _⟩ := updateParticles_ind hG c k
        (fun _ st => st.erased = s.erased ∧ ∀ q, InWalls S.G per (st.posAt k q))
        (by
          intro sa sb p ps ha hp _ _ hQa out _
          have hc := (mem_free_occ_pos ha hp).1
          obtain ⟨r1, r2⟩ := checkOutcome_walls hGeo he hc out hQa.2
          exact ⟨r1.trans hQa.1, r2⟩)
        (s1.freeAt c k) s1 h1 (h1.free_nodup c k) (fun p hp => hp) hR1 s2 e1
      exact hQ)
    L s h ⟨rfl, hw⟩ s' e
  exact hR

end Sympler.Cells
