import Sympler.Geom
/-!
# Lemmas for `Sympler.Geom` (C01)

* Part 1, one axis (all arithmetic over core `Rat`; the only non-linear facts are
  `int_lt_of_mul_lt` and the squares lemmas): `axis_sound`, `axis_unique`, `axis_complete`,
  minimum image `mi_mem` / `mi_unique` / `mi_minimal` / `mi_neg`, `axis_sound_sep`.
* Part 2, lists: `forSame`, `forDifferent`, pairwise "not the same unordered pair".
* Part 3, three axes: links (`Link.Valid.flip`, `Link.vec`), provenance of entries
  (`linkPairs_prov`), no duplicates (`cellPairs_pairwise`), soundness (`cellPairs_sound`),
  completeness (`cellPairs_complete`), the reference list (`bruteRc_*`), permutation modulo
  orientation (`cellPairs_perm_brute`), `allLinks_ok`, refinement helpers
  (`registered_of_cellOf`, `cellParts_of_lists`), `sepV_minimal`.
-/
namespace Sympler.Geom

/-! ## Part 1: one axis -/

theorem int_lt_of_mul_lt {m k : Int} {w : Rat} (hw : 0 < w) (h : (m : Rat) * w < (k : Rat) * w) :
    m < k :=
  Rat.intCast_lt_intCast.1 ((Rat.mul_lt_mul_right hw).1 h)

theorem sq_nonneg (x : Rat) : 0 ≤ x * x := by
  rcases Rat.le_total (a := 0) (b := x) with h | h
  · exact Rat.mul_nonneg h h
  · have := Rat.mul_nonneg (a := -x) (b := -x) (by grind) (by grind)
    grind

/-- `x² ≤ s < rc²` and `0 < rc` give `|x| < rc`. -/
theorem abs_lt_of_sq {x s rc : Rat} (h0 : 0 < rc) (h1 : x * x ≤ s) (h2 : s < rc * rc) :
    -rc < x ∧ x < rc := by
  constructor
  · apply Rat.not_le.1
    intro h
    have := Rat.mul_nonneg (a := -x - rc) (b := -x + rc) (by grind) (by grind)
    grind
  · apply Rat.not_le.1
    intro h
    have := Rat.mul_nonneg (a := x - rc) (b := x + rc) (by grind) (by grind)
    grind

/-- `|x| ≤ |y|` (written without `abs`) gives `x² ≤ y²`. -/
theorem sq_le_sq_of_abs_le {x y : Rat} (h : (-y ≤ x ∧ x ≤ y) ∨ (y ≤ x ∧ x ≤ -y)) :
    x * x ≤ y * y := by
  rcases h with ⟨h1, h2⟩ | ⟨h1, h2⟩
  · have := Rat.mul_nonneg (a := y - x) (b := y + x) (by grind) (by grind)
    grind
  · have := Rat.mul_nonneg (a := x - y) (b := -y - x) (by grind) (by grind)
    grind

/-- Every component of a vector shorter than `rc` is smaller than `rc` in modulus. -/
theorem comp_lt_of_normSq {d : V3 Rat} {rc : Rat} (h0 : 0 < rc) (h : normSq d < rc * rc) :
    (-rc < d.x ∧ d.x < rc) ∧ (-rc < d.y ∧ d.y < rc) ∧ (-rc < d.z ∧ d.z < rc) := by
  have hx := sq_nonneg d.x
  have hy := sq_nonneg d.y
  have hz := sq_nonneg d.z
  unfold normSq at h
  exact ⟨abs_lt_of_sq h0 (s := d.x * d.x + d.y * d.y + d.z * d.z) (by grind) h,
    abs_lt_of_sq h0 (s := d.x * d.x + d.y * d.y + d.z * d.z) (by grind) h,
    abs_lt_of_sq h0 (s := d.x * d.x + d.y * d.y + d.z * d.z) (by grind) h⟩

theorem cellDist1_eq {o : Int} (ho : IsOff1 o) (w : Rat) : cellDist1 w o = (o : Rat) * w := by
  rcases ho with rfl | rfl | rfl <;> simp [cellDist1] <;> grind

/-- The link component is `x - y` shifted by the integer number `j - i - o` of cell widths. -/
theorem linkDelta_eq {a : Axis} {o : Int} (ho : IsOff1 o) (i j : Int) (x y : Rat) :
    a.linkDelta o i j x y = x - y + ((j - i - o : Int) : Rat) * a.w := by
  simp only [Axis.linkDelta, addPair1, Axis.corner, cellDist1_eq ho, Rat.intCast_sub]
  grind

/-- The component delivered with `dir = -1` by the same link for the pair listed the other way
round is the negative. -/
theorem addPair1_neg (cd x ci y cj : Rat) :
    addPair1 (-1) cd y cj x ci = -(addPair1 1 cd x ci y cj) := by
  simp only [addPair1]
  have h1 : (((-1 : Int)) : Rat) = -1 := by rfl
  have h2 : (((1 : Int)) : Rat) = 1 := by rfl
  rw [h1, h2]
  grind

theorem addPair1_zero (x c y : Rat) : addPair1 0 0 x c y c = x - y := by
  simp only [addPair1]
  grind

/-- `findCell` puts `x` into the cell `i` with `i·w ≤ x < (i+1)·w`. -/
theorem cellIdx_spec {a : Axis} (hw : 0 < a.w) (x : Rat) :
    a.corner (a.cellIdx x) ≤ x ∧ x < a.corner (a.cellIdx x + 1) := by
  have hne : a.w ≠ 0 := Rat.ne_of_gt hw
  have h1 := Rat.floor_le (x / a.w)
  have h2 := Rat.lt_floor_add_one (x / a.w)
  have h3 : x / a.w * a.w = x := Rat.div_mul_cancel hne
  constructor
  · have := Rat.mul_le_mul_of_nonneg_right h1 (Rat.le_of_lt hw)
    rw [h3] at this
    exact this
  · have := Rat.mul_lt_mul_of_pos_right h2 hw
    rw [h3] at this
    exact this

/-- … and it is the only such cell. -/
theorem cellIdx_unique {a : Axis} (hw : 0 < a.w) {x : Rat} {i : Int}
    (h1 : a.corner i ≤ x) (h2 : x < a.corner (i + 1)) : a.cellIdx x = i := by
  have ⟨h3, h4⟩ := cellIdx_spec hw x
  simp only [Axis.corner, Rat.intCast_add] at *
  have ha : i < a.cellIdx x + 1 := int_lt_of_mul_lt hw (by simp only [Rat.intCast_add]; grind)
  have hb : a.cellIdx x < i + 1 := int_lt_of_mul_lt hw (by simp only [Rat.intCast_add]; grind)
  omega

/-- With exact containment (`ε = 0`) the registered cell is the one `findCell` computes. -/
theorem Contains.cellIdx_eq {a : Axis} (hw : 0 < a.w) {x : Rat} {i : Int}
    (h : a.Contains 0 i x) : a.cellIdx x = i :=
  cellIdx_unique hw (by have := h.2.1; grind) (by have := h.2.2; grind)

theorem nb_inRange {a : Axis} (hn : 0 < a.n) {i o j : Int} (h : a.nb i o = some j) :
    a.InRange j := by
  unfold Axis.nb at h
  have hn' : (0 : Int) < (a.n : Int) := by omega
  split at h
  · cases h
    exact ⟨Int.emod_nonneg _ (by omega), Int.emod_lt_of_pos _ hn'⟩
  · split at h
    · cases h; assumption
    · cases h

/-- **Soundness, one axis.**  Whatever link `(i, o) → j` exists, the component it delivers is
`x - y - k·L` with `k ∈ {-1,0,1}`, and `k = 0` on a non-periodic axis.  (No containment
hypothesis: the formula only uses the registered cells.) -/
theorem axis_sound {a : Axis} {i o j : Int} (hn : 0 < a.n) (hi : a.InRange i) (ho : IsOff1 o)
    (hnb : a.nb i o = some j) (x y : Rat) :
    ∃ k : Int, IsOff1 k ∧ (a.per = false → k = 0) ∧
      a.linkDelta o i j x y = x - y - (k : Rat) * a.L := by
  have hn' : (0 : Int) < (a.n : Int) := by omega
  rw [linkDelta_eq ho]
  unfold Axis.nb at hnb
  unfold Axis.InRange at hi
  have key : ∀ k : Int, j - i - o = -(k * (a.n : Int)) →
      x - y + ((j - i - o : Int) : Rat) * a.w = x - y - (k : Rat) * a.L := by
    intro k hk
    rw [hk]
    simp only [Axis.L, Rat.intCast_neg, Rat.intCast_mul, Rat.intCast_natCast]
    grind
  split at hnb
  · rename_i hper
    injection hnb with hj
    by_cases h1 : i + o < 0
    · -- wrap below: j = n - 1, k = -1
      refine ⟨-1, Or.inl rfl, by simp [hper], key (-1) ?_⟩
      have : (i + o + (a.n : Int)) % (a.n : Int) = i + o + (a.n : Int) :=
        Int.emod_eq_of_lt (by unfold IsOff1 at ho; omega) (by omega)
      omega
    · by_cases h2 : (a.n : Int) ≤ i + o
      · -- wrap above: j = 0, k = 1
        refine ⟨1, Or.inr (Or.inr rfl), by simp [hper], key 1 ?_⟩
        have e : i + o + (a.n : Int) = (i + o - (a.n : Int)) + (a.n : Int) * 2 := by omega
        have : (i + o + (a.n : Int)) % (a.n : Int) = i + o - (a.n : Int) := by
          rw [e, Int.add_mul_emod_self_left]
          exact Int.emod_eq_of_lt (by omega) (by unfold IsOff1 at ho; omega)
        omega
      · refine ⟨0, Or.inr (Or.inl rfl), fun _ => rfl, key 0 ?_⟩
        have e : i + o + (a.n : Int) = (i + o) + (a.n : Int) * 1 := by omega
        have : (i + o + (a.n : Int)) % (a.n : Int) = i + o := by
          rw [e, Int.add_mul_emod_self_left]
          exact Int.emod_eq_of_lt (by omega) (by omega)
        omega
  · split at hnb
    · injection hnb with hj
      exact ⟨0, Or.inr (Or.inl rfl), fun _ => rfl, key 0 (by omega)⟩
    · cases hnb

/-- **No duplicates, one axis.**  Two offsets that lead from cell `i` to the same cell `j` and
both deliver a component of modulus `< w` are equal.  For `n ≥ 3` the neighbour condition alone
forces this; for `n = 2` periodic (`o = 1` and `o = -1` reach the same cell) the two components
differ by `2w = L`.  (No containment hypothesis.) -/
theorem axis_unique {a : Axis} {i j o1 o2 : Int} (hw : 0 < a.w) (hn : 2 ≤ a.n)
    (ho1 : IsOff1 o1) (ho2 : IsOff1 o2) (h1 : a.nb i o1 = some j) (h2 : a.nb i o2 = some j)
    {x y : Rat}
    (b1 : -a.w < a.linkDelta o1 i j x y ∧ a.linkDelta o1 i j x y < a.w)
    (b2 : -a.w < a.linkDelta o2 i j x y ∧ a.linkDelta o2 i j x y < a.w) : o1 = o2 := by
  rw [linkDelta_eq ho1] at b1
  rw [linkDelta_eq ho2] at b2
  simp only [Rat.intCast_sub] at b1 b2
  -- |o1 - o2| < 2
  have hlt : o1 - o2 < 2 := int_lt_of_mul_lt hw (by
    simp only [Rat.intCast_sub]
    have : ((2 : Int) : Rat) = 2 := rfl
    rw [this]; grind)
  have hgt : o2 - o1 < 2 := int_lt_of_mul_lt hw (by
    simp only [Rat.intCast_sub]
    have : ((2 : Int) : Rat) = 2 := rfl
    rw [this]; grind)
  -- n ∣ o1 - o2
  unfold Axis.nb at h1 h2
  split at h1
  · rw [if_pos (by assumption)] at h2
    injection h1 with h1
    injection h2 with h2
    have h := h1.trans h2.symm
    rw [Int.emod_eq_emod_iff_emod_sub_eq_zero] at h
    have hd : (a.n : Int) ∣ (o1 - o2) := by
      have := Int.dvd_of_emod_eq_zero h
      have e : i + o1 + (a.n : Int) - (i + o2 + (a.n : Int)) = o1 - o2 := by omega
      rwa [e] at this
    by_cases hz : o1 - o2 = 0
    · omega
    · exfalso
      by_cases hp : 0 < o1 - o2
      · have := Int.le_of_dvd hp hd
        omega
      · have hd' : (a.n : Int) ∣ (o2 - o1) := by
          have := Int.dvd_neg.2 hd
          have e : -(o1 - o2) = o2 - o1 := by omega
          rwa [e] at this
        have := Int.le_of_dvd (by omega) hd'
        omega
  · rw [if_neg (by assumption)] at h2
    split at h1
    · split at h2
      · injection h1 with h1
        injection h2 with h2
        omega
      · cases h2
    · cases h1

/-- **Completeness, one axis.**  Particles registered in cells `i`, `j` at most `ε` outside
them; any image `δ = x - y - k·L` of the separation (`k = 0` if the axis is not periodic) with
`|δ| < w - 2ε` is delivered by the link with offset `o = j - i + k·n ∈ {-1,0,1}` from `i` to
`j`. -/
theorem axis_complete_off {a : Axis} {ε : Rat} {i j : Int} {x y : Rat} (hw : 0 < a.w)
    (hi : a.Contains ε i x) (hj : a.Contains ε j y) (k : Int) (hk : a.per = false → k = 0)
    (hlo : -(a.w - 2 * ε) < x - y - (k : Rat) * a.L)
    (hhi : x - y - (k : Rat) * a.L < a.w - 2 * ε) :
    IsOff1 (j - i + k * (a.n : Int)) ∧ a.nb i (j - i + k * (a.n : Int)) = some j ∧
      a.linkDelta (j - i + k * (a.n : Int)) i j x y = x - y - (k : Rat) * a.L := by
  obtain ⟨⟨hi0, hin⟩, hi1, hi2⟩ := hi
  obtain ⟨⟨hj0, hjn⟩, hj1, hj2⟩ := hj
  simp only [Axis.corner, Rat.intCast_add, Axis.L] at *
  have c1 : ((1 : Int) : Rat) = 1 := rfl
  have c2 : ((2 : Int) : Rat) = 2 := rfl
  have hlt : j - i + k * (a.n : Int) < 2 := int_lt_of_mul_lt hw (by
    simp only [Rat.intCast_sub, Rat.intCast_add, Rat.intCast_mul, Rat.intCast_natCast, c2]
    grind)
  have hgt : -2 < j - i + k * (a.n : Int) := int_lt_of_mul_lt hw (by
    simp only [Rat.intCast_sub, Rat.intCast_add, Rat.intCast_mul, Rat.intCast_natCast,
      Rat.intCast_neg, c2]
    grind)
  have ho : IsOff1 (j - i + k * (a.n : Int)) := by unfold IsOff1; omega
  refine ⟨ho, ?_, ?_⟩
  · unfold Axis.nb
    split
    · have e : i + (j - i + k * (a.n : Int)) + (a.n : Int) = j + (a.n : Int) * (k + 1) := by
        grind
      rw [e, Int.add_mul_emod_self_left, Int.emod_eq_of_lt hj0 hjn]
    · rename_i hper
      have : k = 0 := hk (by simpa using hper)
      subst this
      simp only [Int.zero_mul, Int.add_zero]
      rw [if_pos (by omega)]
      congr 1
      omega
  · rw [linkDelta_eq ho]
    simp only [Rat.intCast_sub, Rat.intCast_add, Rat.intCast_mul, Rat.intCast_natCast]
    grind

theorem axis_complete {a : Axis} {ε : Rat} {i j : Int} {x y : Rat} (hw : 0 < a.w)
    (hi : a.Contains ε i x) (hj : a.Contains ε j y) (k : Int) (hk : a.per = false → k = 0)
    (hlo : -(a.w - 2 * ε) < x - y - (k : Rat) * a.L)
    (hhi : x - y - (k : Rat) * a.L < a.w - 2 * ε) :
    ∃ o, IsOff1 o ∧ a.nb i o = some j ∧ a.linkDelta o i j x y = x - y - (k : Rat) * a.L :=
  ⟨_, axis_complete_off hw hi hj k hk hlo hhi⟩

/-! ### Minimum image -/

theorem mi_eq (L t : Rat) : mi L t = t - (((t / L + 1 / 2).floor : Int) : Rat) * L := by
  unfold mi; grind

/-- `mi L t ∈ [-L/2, L/2)`. -/
theorem mi_mem {L : Rat} (hL : 0 < L) (t : Rat) : -(L / 2) ≤ mi L t ∧ mi L t < L / 2 := by
  have hne : L ≠ 0 := Rat.ne_of_gt hL
  have h1 := Rat.floor_le (t / L + 1 / 2)
  have h2 := Rat.lt_floor_add_one (t / L + 1 / 2)
  have h3 : t / L * L = t := Rat.div_mul_cancel hne
  have h4 := Rat.mul_le_mul_of_nonneg_right h1 (Rat.le_of_lt hL)
  have h5 := Rat.mul_lt_mul_of_pos_right h2 hL
  simp only [Rat.intCast_add] at h5
  have c1 : ((1 : Int) : Rat) = 1 := rfl
  rw [c1] at h5
  unfold mi
  constructor <;> grind

/-- Uniqueness: any image of `t` in `[-L/2, L/2)` is `mi L t`. -/
theorem mi_unique {L : Rat} (hL : 0 < L) {t : Rat} {k : Int}
    (h1 : -(L / 2) ≤ t - (k : Rat) * L) (h2 : t - (k : Rat) * L < L / 2) :
    t - (k : Rat) * L = mi L t := by
  have ⟨m1, m2⟩ := mi_mem hL t
  rw [mi_eq] at *
  have c1 : ((1 : Int) : Rat) = 1 := rfl
  have ha : k < (t / L + 1 / 2).floor + 1 := int_lt_of_mul_lt hL (by
    simp only [Rat.intCast_add, c1]; grind)
  have hb : (t / L + 1 / 2).floor < k + 1 := int_lt_of_mul_lt hL (by
    simp only [Rat.intCast_add, c1]; grind)
  have : k = (t / L + 1 / 2).floor := by omega
  rw [this]

/-- For `-L < t < L` (two points of the box) the image number is in `{-1,0,1}`. -/
theorem mi_image {L : Rat} (hL : 0 < L) {t : Rat} (h1 : -L < t) (h2 : t < L) :
    ∃ k : Int, IsOff1 k ∧ mi L t = t - (k : Rat) * L := by
  have ⟨m1, m2⟩ := mi_mem hL t
  rw [mi_eq] at *
  refine ⟨(t / L + 1 / 2).floor, ?_, rfl⟩
  have c2 : ((2 : Int) : Rat) = 2 := rfl
  have ha : (t / L + 1 / 2).floor < 2 := int_lt_of_mul_lt hL (by rw [c2]; grind)
  have hb : -2 < (t / L + 1 / 2).floor := int_lt_of_mul_lt hL (by
    simp only [Rat.intCast_neg, c2]; grind)
  unfold IsOff1; omega

/-- Minimality of the modulus: no image of `t` is shorter than `mi L t`. -/
theorem mi_minimal {L : Rat} (hL : 0 < L) (t : Rat) (k : Int) :
    mi L t * mi L t ≤ (t - (k : Rat) * L) * (t - (k : Rat) * L) := by
  have ⟨m1, m2⟩ := mi_mem hL t
  rw [mi_eq] at *
  have c1 : ((1 : Int) : Rat) = 1 := rfl
  rcases Int.lt_trichotomy k (t / L + 1 / 2).floor with h | h | h
  · -- k ≤ m - 1: t - kL ≥ t - mL + L ≥ L/2
    apply sq_le_sq_of_abs_le
    left
    have h' : k + 1 ≤ (t / L + 1 / 2).floor := h
    have := Rat.mul_le_mul_of_nonneg_right (Rat.intCast_le_intCast.2 h') (Rat.le_of_lt hL)
    simp only [Rat.intCast_add, c1] at this
    constructor <;> grind
  · rw [h]; exact Rat.le_refl
  · apply sq_le_sq_of_abs_le
    right
    have h' : (t / L + 1 / 2).floor + 1 ≤ k := h
    have := Rat.mul_le_mul_of_nonneg_right (Rat.intCast_le_intCast.2 h') (Rat.le_of_lt hL)
    simp only [Rat.intCast_add, c1] at this
    constructor <;> grind

/-- Away from the tie `|mi| = L/2` the minimum image is antisymmetric. -/
theorem mi_neg {L : Rat} (hL : 0 < L) {t : Rat} (h : -(L / 2) < mi L t) :
    mi L (-t) = -(mi L t) := by
  have ⟨_, m2⟩ := mi_mem hL t
  rw [mi_eq] at h m2
  rw [mi_eq L t]
  have := mi_unique hL (t := -t) (k := -(t / L + 1 / 2).floor)
    (by simp only [Rat.intCast_neg]; grind) (by simp only [Rat.intCast_neg]; grind)
  rw [← this]
  simp only [Rat.intCast_neg]; grind

/-- A link component of modulus `< rc ≤ L/2` *is* the reference separation component. -/
theorem axis_sound_sep {a : Axis} {i o j : Int} (hw : 0 < a.w) (hn : 2 ≤ a.n)
    (hi : a.InRange i) (ho : IsOff1 o) (hnb : a.nb i o = some j) {x y : Rat}
    (b : -a.w < a.linkDelta o i j x y ∧ a.linkDelta o i j x y < a.w) :
    a.linkDelta o i j x y = a.sep x y := by
  obtain ⟨k, _, hk0, hk⟩ := axis_sound (by omega) hi ho hnb x y
  unfold Axis.sep
  have hL : 0 < a.L := by
    unfold Axis.L
    exact Rat.mul_pos (Rat.natCast_pos.2 (by omega)) hw
  have hwL : a.w ≤ a.L / 2 := by
    unfold Axis.L
    have : ((2 : Nat) : Rat) * a.w ≤ (a.n : Rat) * a.w :=
      Rat.mul_le_mul_of_nonneg_right (Rat.natCast_le_natCast.2 hn) (Rat.le_of_lt hw)
    have c2 : ((2 : Nat) : Rat) = 2 := rfl
    rw [c2] at this
    grind
  split
  · rw [hk] at b ⊢
    exact mi_unique hL (by grind) (by grind)
  · rename_i hper
    rw [hk, hk0 (by simpa using hper)]
    simp only [Rat.intCast_zero]
    grind

/-! ## Part 2: lists -/

theorem mem_forDifferent {f : Particle → Particle → Option Pair} {ps qs : List Particle} {e : Pair} :
    e ∈ forDifferent f ps qs ↔ ∃ p, p ∈ ps ∧ ∃ q, q ∈ qs ∧ f p q = some e := by
  simp [forDifferent, List.mem_flatMap, List.mem_filterMap]

theorem mem_forSame {f : Particle → Particle → Option Pair} {l : List Particle} {e : Pair} :
    e ∈ forSame f l ↔ ∃ p q, [p, q].Sublist l ∧ f p q = some e := by
  induction l with
  | nil => simp [forSame]
  | cons a l ih =>
    simp only [forSame, List.mem_append, List.mem_filterMap, ih]
    constructor
    · rintro (⟨q, hq, h⟩ | ⟨p, q, hs, h⟩)
      · exact ⟨a, q, by simpa using hq, h⟩
      · exact ⟨p, q, hs.cons _, h⟩
    · rintro ⟨p, q, hs, h⟩
      cases hs with
      | cons _ hs => exact Or.inr ⟨p, q, hs, h⟩
      | cons_cons _ hs => exact Or.inl ⟨q, by simpa using hs, h⟩

theorem sublist_pair_of_mem {α} {l : List α} {p q : α} (hp : p ∈ l) (hq : q ∈ l) (hne : p ≠ q) :
    [p, q].Sublist l ∨ [q, p].Sublist l := by
  induction l with
  | nil => cases hp
  | cons a l ih =>
    rcases List.mem_cons.1 hp with rfl | hp' <;> rcases List.mem_cons.1 hq with rfl | hq'
    · exact absurd rfl hne
    · exact Or.inl (by simpa using hq')
    · exact Or.inr (by simpa using hp')
    · rcases ih hp' hq' with h | h
      · exact Or.inl (h.cons _)
      · exact Or.inr (h.cons _)

theorem pairwise_of_sublist_pair {α} {R : α → α → Prop} {l : List α} {p q : α}
    (h : l.Pairwise R) (hs : [p, q].Sublist l) : R p q := by
  have := h.sublist hs
  simpa using this

/-- `f` labels its output with the ids of its arguments. -/
def IdsOf (f : Particle → Particle → Option Pair) : Prop :=
  ∀ p q e, f p q = some e → e.i = p.id ∧ e.j = q.id

abbrev IdNe (p q : Particle) : Prop := p.id ≠ q.id

theorem pairwise_filterMap_row {f : Particle → Particle → Option Pair} (hf : IdsOf f)
    {p : Particle} {qs : List Particle} (hqs : qs.Pairwise IdNe) (hd : ∀ q, q ∈ qs → p.id ≠ q.id) :
    (qs.filterMap (f p)).Pairwise (fun e e' => ¬ e.same e') := by
  rw [List.pairwise_filterMap]
  refine hqs.imp_of_mem ?_
  intro q q' hq hq' hne e he e' he' hs
  have ⟨h1, h2⟩ := hf _ _ _ he
  have ⟨h3, h4⟩ := hf _ _ _ he'
  have := hd q' hq'
  unfold Pair.same at hs
  unfold IdNe at hne
  grind

theorem pairwise_forDifferent {f : Particle → Particle → Option Pair} (hf : IdsOf f)
    {ps qs : List Particle} (hps : ps.Pairwise IdNe) (hqs : qs.Pairwise IdNe)
    (hd : ∀ p, p ∈ ps → ∀ q, q ∈ qs → p.id ≠ q.id) :
    (forDifferent f ps qs).Pairwise (fun e e' => ¬ e.same e') := by
  unfold forDifferent
  rw [List.pairwise_flatMap]
  refine ⟨fun p hp => pairwise_filterMap_row hf hqs (hd p hp), hps.imp_of_mem ?_⟩
  intro p p' hp hp' hne e he e' he' hs
  obtain ⟨q, hq, he⟩ := List.mem_filterMap.1 he
  obtain ⟨q', hq', he'⟩ := List.mem_filterMap.1 he'
  have ⟨h1, h2⟩ := hf _ _ _ he
  have ⟨h3, h4⟩ := hf _ _ _ he'
  have := hd p hp q' hq'
  unfold Pair.same at hs
  unfold IdNe at hne
  grind

theorem pairwise_forSame {f : Particle → Particle → Option Pair} (hf : IdsOf f)
    {l : List Particle} (hl : l.Pairwise IdNe) :
    (forSame f l).Pairwise (fun e e' => ¬ e.same e') := by
  induction l with
  | nil => simp [forSame]
  | cons a l ih =>
    rw [List.pairwise_cons] at hl
    simp only [forSame]
    rw [List.pairwise_append]
    refine ⟨pairwise_filterMap_row hf hl.2 hl.1, ih hl.2, ?_⟩
    intro e he e' he' hs
    obtain ⟨q, hq, he⟩ := List.mem_filterMap.1 he
    obtain ⟨p', q', hsub, he'⟩ := mem_forSame.1 he'
    have ⟨h1, h2⟩ := hf _ _ _ he
    have ⟨h3, h4⟩ := hf _ _ _ he'
    have hp' : p' ∈ l := hsub.subset (by simp)
    have hq' : q' ∈ l := hsub.subset (by simp)
    have := hl.1 p' hp'
    have := hl.1 q' hq'
    unfold Pair.same at hs
    unfold IdNe at *
    grind

/-! ## Part 3: three axes -/

theorem nb_zero {a : Axis} {i : Int} (hi : a.InRange i) : a.nb i 0 = some i := by
  unfold Axis.InRange at hi
  unfold Axis.nb
  split
  · have e : i + 0 + (a.n : Int) = i + (a.n : Int) * 1 := by omega
    rw [e, Int.add_mul_emod_self_left, Int.emod_eq_of_lt hi.1 hi.2]
  · simp only [Int.add_zero]
    rw [if_pos hi]

/-- Two offsets leading from `i` to the same cell differ by a multiple of `n`. -/
theorem nb_eq_dvd {a : Axis} {i j o1 o2 : Int} (h1 : a.nb i o1 = some j) (h2 : a.nb i o2 = some j) :
    (a.n : Int) ∣ o1 - o2 := by
  unfold Axis.nb at h1 h2
  split at h1
  · rw [if_pos (by assumption)] at h2
    injection h1 with h1
    injection h2 with h2
    have h := h1.trans h2.symm
    rw [Int.emod_eq_emod_iff_emod_sub_eq_zero] at h
    have := Int.dvd_of_emod_eq_zero h
    have e : i + o1 + (a.n : Int) - (i + o2 + (a.n : Int)) = o1 - o2 := by omega
    rwa [e] at this
  · rw [if_neg (by assumption)] at h2
    split at h1
    · split at h2
      · injection h1 with h1
        injection h2 with h2
        have : o1 - o2 = 0 := by omega
        rw [this]; exact Int.dvd_zero _
      · cases h2
    · cases h1

theorem off_eq_of_dvd {n : Nat} (hn : 2 ≤ n) {o1 o2 : Int}
    (hd : (n : Int) ∣ o1 - o2) (hlt : o1 - o2 < 2) (hgt : o2 - o1 < 2) : o1 = o2 := by
  by_cases hz : o1 - o2 = 0
  · omega
  · exfalso
    by_cases hp : 0 < o1 - o2
    · have := Int.le_of_dvd hp hd
      omega
    · have hd' : (n : Int) ∣ (o2 - o1) := by
        have := Int.dvd_neg.2 hd
        have e : -(o1 - o2) = o2 - o1 := by omega
        rwa [e] at this
      have := Int.le_of_dvd (by omega) hd'
      omega

/-- With `n ≥ 2` a non-zero offset never leads back to the same cell. -/
theorem nb_self {a : Axis} (hn : 2 ≤ a.n) {i o : Int} (hi : a.InRange i) (ho : IsOff1 o)
    (h : a.nb i o = some i) : o = 0 := by
  have hd := nb_eq_dvd h (nb_zero hi)
  exact off_eq_of_dvd hn hd (by unfold IsOff1 at ho; omega)
    (by unfold IsOff1 at ho; omega)

/-- The neighbour relation is symmetric: `(i, o) → j` gives `(j, -o) → i`. -/
theorem nb_flip {a : Axis} {i j o : Int} (hi : a.InRange i) (h : a.nb i o = some j) :
    a.nb j (-o) = some i := by
  unfold Axis.InRange at hi
  unfold Axis.nb at h ⊢
  split at h
  · rw [if_pos (by assumption)]
    injection h with h
    rw [Int.emod_def] at h
    have e : j + -o + (a.n : Int) = i + (a.n : Int) * (2 - (i + o + (a.n : Int)) / (a.n : Int)) := by
      rw [← h]; grind
    rw [e, Int.add_mul_emod_self_left, Int.emod_eq_of_lt hi.1 hi.2]
  · rw [if_neg (by assumption)]
    split at h
    · injection h with h
      rw [if_pos (by omega)]
      congr 1; omega
    · cases h

theorem isOff1_neg {o : Int} (h : IsOff1 o) : IsOff1 (-o) := by unfold IsOff1 at *; omega

theorem Grid.nb_eq_some {g : Grid} {c o c' : V3 Int} :
    g.nb c o = some c' ↔
      g.x.nb c.x o.x = some c'.x ∧ g.y.nb c.y o.y = some c'.y ∧ g.z.nb c.z o.z = some c'.z := by
  unfold Grid.nb
  cases c' with | mk a b d =>
  cases hx : g.x.nb c.x o.x <;> cases hy : g.y.nb c.y o.y <;> cases hz : g.z.nb c.z o.z <;> simp

theorem vneg_vneg (o : V3 Int) : vneg (vneg o) = o := by
  cases o; simp [vneg]

theorem vnegR_vnegR (d : V3 Rat) : vnegR (vnegR d) = d := by
  cases d; simp [vnegR, Rat.neg_neg]

theorem normSq_vnegR (d : V3 Rat) : normSq (vnegR d) = normSq d := by
  simp only [normSq, vnegR]; grind

theorem Link.flip_flip (l : Link) : l.flip.flip = l := by
  cases l; simp [Link.flip, vneg_vneg]

theorem Grid.nb_inGrid {g : Grid} (hg : g.OK) {c o c' : V3 Int} (h : g.nb c o = some c') :
    g.InGrid c' := by
  rw [Grid.nb_eq_some] at h
  obtain ⟨⟨_, h1⟩, ⟨_, h2⟩, ⟨_, h3⟩⟩ := hg
  exact ⟨nb_inRange (by omega) h.1, nb_inRange (by omega) h.2.1, nb_inRange (by omega) h.2.2⟩

theorem Link.Valid.flip {g : Grid} (hg : g.OK) {l : Link} (h : l.Valid g) : l.flip.Valid g := by
  obtain ⟨hin, hoff, hnb⟩ := h
  refine ⟨Grid.nb_inGrid hg hnb, ⟨isOff1_neg hoff.1, isOff1_neg hoff.2.1, isOff1_neg hoff.2.2⟩, ?_⟩
  rw [Grid.nb_eq_some] at hnb ⊢
  exact ⟨nb_flip hin.1 hnb.1, nb_flip hin.2.1 hnb.2.1, nb_flip hin.2.2 hnb.2.2⟩

/-- `first = second` iff the offset is zero (needs `n ≥ 2` in every direction). -/
theorem Link.Valid.local_iff {g : Grid} (hg : g.OK) {l : Link} (h : l.Valid g) :
    l.first = l.second ↔ l.o = ⟨0, 0, 0⟩ := by
  obtain ⟨hin, hoff, hnb⟩ := h
  rw [Grid.nb_eq_some] at hnb
  constructor
  · intro e
    rw [← e] at hnb
    have h1 := nb_self hg.1.2 hin.1 hoff.1 hnb.1
    have h2 := nb_self hg.2.1.2 hin.2.1 hoff.2.1 hnb.2.1
    have h3 := nb_self hg.2.2.2 hin.2.2 hoff.2.2 hnb.2.2
    cases ho : l.o with | mk a b c =>
    rw [ho] at h1 h2 h3
    simp at h1 h2 h3
    simp [h1, h2, h3]
  · intro e
    rw [e] at hnb
    simp only at hnb
    rw [nb_zero hin.1, nb_zero hin.2.1, nb_zero hin.2.2] at hnb
    cases h1 : l.first; cases h2 : l.second
    rw [h1, h2] at hnb
    simp at hnb
    simp [hnb]

/-- The vector the link delivers (`dir = 1`) for a particle at `r1` in `first` and one at `r2`
in `second`. -/
def Link.vec (g : Grid) (l : Link) (r1 r2 : V3 Rat) : V3 Rat :=
  ⟨g.x.linkDelta l.o.x l.first.x l.second.x r1.x r2.x,
   g.y.linkDelta l.o.y l.first.y l.second.y r1.y r2.y,
   g.z.linkDelta l.o.z l.first.z l.second.z r1.z r2.z⟩

theorem linkDelta_flip {a : Axis} {o : Int} (ho : IsOff1 o) (i j : Int) (x y : Rat) :
    a.linkDelta (-o) j i y x = -(a.linkDelta o i j x y) := by
  rw [linkDelta_eq ho, linkDelta_eq (isOff1_neg ho)]
  simp only [Rat.intCast_sub, Rat.intCast_neg]
  grind

theorem Link.flip_vec {g : Grid} {l : Link} (ho : IsOff l.o) (r1 r2 : V3 Rat) :
    l.flip.vec g r2 r1 = vnegR (l.vec g r1 r2) := by
  simp only [Link.vec, Link.flip, vneg, vnegR, linkDelta_flip ho.1, linkDelta_flip ho.2.1,
    linkDelta_flip ho.2.2]

theorem Link.Valid.cellDist_eq {g : Grid} (hg : g.OK) {l : Link} (h : l.Valid g) :
    l.cellDist g = g.cellDist l.o := by
  unfold Link.cellDist
  split
  · rename_i e
    rw [(h.local_iff hg).1 e]
    simp [Grid.cellDist, cellDist1]
  · rfl

/-! ### Provenance of the produced entries -/

theorem IdsNodup.eq_of_id {cfg : Config} (h : IdsNodup cfg) {p q : Particle}
    (hp : p ∈ cfg.parts) (hq : q ∈ cfg.parts) (e : p.id = q.id) : p = q := by
  unfold IdsNodup at h
  false_or_by_contra
  rename_i hne
  rcases sublist_pair_of_mem hp hq hne with hs | hs
  · exact pairwise_of_sublist_pair h hs e
  · exact pairwise_of_sublist_pair h hs e.symm

theorem mem_cellParts {cfg : Config} {c : V3 Int} {col : Nat} {fr : Bool} {p : Particle} :
    p ∈ cfg.cellParts c col fr ↔ p ∈ cfg.parts ∧ p.cell = c ∧ p.colour = col ∧ p.frozen = fr := by
  simp [Config.cellParts, List.mem_filter, and_assoc]

theorem cellParts_sublist (cfg : Config) (c : V3 Int) (col : Nat) (fr : Bool) :
    (cfg.cellParts c col fr).Sublist cfg.parts := List.filter_sublist

def Slot.Fits (s : Slot) (p q : Particle) : Prop :=
  (p.cell = s.c1 ∧ p.colour = s.col1 ∧ p.frozen = s.fr1) ∧
  (q.cell = s.c2 ∧ q.colour = s.col2 ∧ q.frozen = s.fr2)

/-- Well-formedness of a call: the `ForSame` routine is called with one list. -/
def Slot.WF (s : Slot) : Prop :=
  s.same = true → s.c2 = s.c1 ∧ s.col2 = s.col1 ∧ s.fr2 = s.fr1

theorem mem_runSlot {cfg : Config} {rc2 : Rat} {cd : V3 Rat} {s : Slot} {e : Pair} (hwf : s.WF)
    (h : e ∈ runSlot cfg rc2 cd s) :
    ∃ p q, p ∈ cfg.parts ∧ q ∈ cfg.parts ∧ s.Fits p q ∧
      addPair cfg.grid rc2 s.dir s.c1 s.c2 cd s.ao1 s.ao2 p q = some e ∧
      (s.same = true → [p, q].Sublist cfg.parts) := by
  unfold runSlot at h
  simp only at h
  split at h
  · rename_i hs
    obtain ⟨p, q, hsub, he⟩ := mem_forSame.1 h
    have hp := mem_cellParts.1 (hsub.subset (by simp : p ∈ [p, q]))
    have hq := mem_cellParts.1 (hsub.subset (by simp : q ∈ [p, q]))
    obtain ⟨w1, w2, w3⟩ := hwf hs
    exact ⟨p, q, hp.1, hq.1, ⟨hp.2, by rw [w1, w2, w3]; exact hq.2⟩, he,
      fun _ => hsub.trans (cellParts_sublist ..)⟩
  · rename_i hs
    obtain ⟨p, hp, q, hq, he⟩ := mem_forDifferent.1 h
    rw [mem_cellParts] at hp hq
    exact ⟨p, q, hp.1, hq.1, ⟨hp.2, hq.2⟩, he, by simp [hs]⟩

/-- What every call in the table looks like. -/
theorem slots_spec {l : Link} {a b : Nat} {s : Slot} (h : s ∈ slots l a b) :
    s.col1 = a ∧ s.col2 = b ∧ s.ao1 = (!s.fr1) ∧ s.ao2 = (!s.fr2) ∧ ¬(s.fr1 = true ∧ s.fr2 = true) ∧
    ((s.c1 = l.first ∧ s.c2 = l.second ∧ (s.dir = 1 ∨ (s.dir = 0 ∧ l.first = l.second))) ∨
     (s.c1 = l.second ∧ s.c2 = l.first ∧ s.dir = -1)) ∧
    s.WF ∧
    (s.same = false → ¬(s.c1 = s.c2 ∧ s.col1 = s.col2 ∧ s.fr1 = s.fr2)) := by
  unfold slots at h
  unfold Slot.WF
  split at h
  · rename_i hloc
    split at h
    · rename_i hab
      simp only [List.mem_cons, List.not_mem_nil, or_false] at h
      rcases h with rfl | rfl <;> simp [hloc, hab]
    · rename_i hab
      simp only [List.mem_cons, List.not_mem_nil, or_false] at h
      rcases h with rfl | rfl | rfl <;> simp [hloc, hab]
  · rename_i hloc
    have hloc' : ¬ l.second = l.first := fun e => hloc e.symm
    simp only [List.mem_append, List.mem_cons, List.not_mem_nil, or_false] at h
    rcases h with h | h
    · split at h
      · cases h
      · rename_i hab
        simp only [List.mem_cons, List.not_mem_nil, or_false] at h
        rcases h with rfl | rfl | rfl <;> simp [hloc, hab]
    · rcases h with rfl | rfl | rfl <;> simp [hloc']

theorem addPair_eq_some {g : Grid} {rc2 : Rat} {dir : Int} {c1 c2 : V3 Int} {cd : V3 Rat}
    {ao1 ao2 : Bool} {p q : Particle} {e : Pair}
    (h : addPair g rc2 dir c1 c2 cd ao1 ao2 p q = some e) :
    normSq e.d < rc2 ∧ e = ⟨p.id, q.id,
      ⟨addPair1 dir cd.x p.r.x (g.corner c1).x q.r.x (g.corner c2).x,
       addPair1 dir cd.y p.r.y (g.corner c1).y q.r.y (g.corner c2).y,
       addPair1 dir cd.z p.r.z (g.corner c1).z q.r.z (g.corner c2).z⟩, ao1, ao2⟩ := by
  unfold addPair at h
  simp only at h
  split at h
  · injection h with h
    subst h
    exact ⟨by assumption, rfl⟩
  · cases h

theorem addPair_ids (g : Grid) (rc2 : Rat) (dir : Int) (c1 c2 : V3 Int) (cd : V3 Rat)
    (ao1 ao2 : Bool) : IdsOf (addPair g rc2 dir c1 c2 cd ao1 ao2) := by
  intro p q e h
  have := (addPair_eq_some h).2
  subst this
  exact ⟨rfl, rfl⟩

/-- The entry the link `l` delivers for `u` in `first`, `v` in `second` when `u` is listed
first. -/
def mkLinkPair (g : Grid) (l : Link) (u v : Particle) : Pair :=
  ⟨u.id, v.id, l.vec g u.r v.r, !u.frozen, !v.frozen⟩

theorem addPair1_dir0 (cd x c y : Rat) : addPair1 0 cd x c y c = x - y := by
  simp only [addPair1]
  have h : (((0 : Int)) : Rat) = 0 := rfl
  rw [h]; grind

theorem linkDelta_local (a : Axis) (i : Int) (x y : Rat) : a.linkDelta 0 i i x y = x - y := by
  rw [linkDelta_eq (Or.inr (Or.inl rfl))]
  have e : i - i - 0 = (0 : Int) := by omega
  rw [e]
  have h : (((0 : Int)) : Rat) = 0 := rfl
  rw [h]; grind

/-- **Provenance**: every entry of `linkPairs` comes from a particle `u` registered in `first`
and a particle `v ≠ u` registered in `second`, carries the link vector (negated if `v` is listed
first), the colours `(a, b)` in listing order, flags `(free?, free?)`, passed the cutoff test, and
`u`, `v` are not both frozen. -/
theorem linkPairs_prov {cfg : Config} (hg : cfg.grid.OK) (hid : IdsNodup cfg) {l : Link}
    (hl : l.Valid cfg.grid) {a b : Nat} {e : Pair} (h : e ∈ linkPairs cfg l a b) :
    ∃ u v, u ∈ cfg.parts ∧ v ∈ cfg.parts ∧ u.id ≠ v.id ∧ u.cell = l.first ∧ v.cell = l.second ∧
      ¬(u.frozen = true ∧ v.frozen = true) ∧
      normSq (l.vec cfg.grid u.r v.r) < cfg.cut a b * cfg.cut a b ∧
      ((e = mkLinkPair cfg.grid l u v ∧ u.colour = a ∧ v.colour = b) ∨
       (e = (mkLinkPair cfg.grid l u v).swap ∧ v.colour = a ∧ u.colour = b)) := by
  unfold linkPairs at h
  obtain ⟨s, hs, he⟩ := List.mem_flatMap.1 h
  obtain ⟨hc1, hc2, ha1, ha2, hfr, hor, hwf, hdiff⟩ := slots_spec hs
  obtain ⟨p, q, hp, hq, ⟨⟨fp1, fp2, fp3⟩, ⟨fq1, fq2, fq3⟩⟩, hadd, hsame⟩ := mem_runSlot hwf he
  obtain ⟨hn, heq⟩ := addPair_eq_some hadd
  rw [hl.cellDist_eq hg] at heq
  have hne : p.id ≠ q.id := by
    by_cases hsm : s.same = true
    · exact pairwise_of_sublist_pair (R := IdNe) hid (hsame hsm)
    · intro e
      have := hid.eq_of_id hp hq e
      subst this
      exact hdiff (by simpa using hsm) ⟨fp1.symm.trans fq1, fp2.symm.trans fq2, fp3.symm.trans fq3⟩
  rcases hor with ⟨e1, e2, hdir⟩ | ⟨e1, e2, hdir⟩
  · -- p in first, q in second
    refine ⟨p, q, hp, hq, hne, fp1.trans e1, fq1.trans e2, by rw [fp3, fq3]; exact hfr, ?_, ?_⟩
    all_goals
      have hv : e.d = l.vec cfg.grid p.r q.r := by
        rw [heq, e1, e2]
        rcases hdir with hdir | ⟨hdir, hloc⟩
        · rw [hdir]; rfl
        · rw [hdir]
          have ho := (hl.local_iff hg).1 hloc
          simp only [Link.vec, ← hloc, ho, Grid.corner, addPair1_dir0, linkDelta_local]
    · rw [← hv]; exact hn
    · left
      refine ⟨?_, fp2.trans hc1, fq2.trans hc2⟩
      rw [heq] at hv ⊢
      simp only at hv
      simp only [mkLinkPair, ← hv, ha1, ha2, fp3, fq3]
  · -- p in second, q in first, dir = -1
    refine ⟨q, p, hq, hp, fun e => hne e.symm, fq1.trans e2, fp1.trans e1,
      by rw [fp3, fq3]; exact fun h => hfr ⟨h.2, h.1⟩, ?_, ?_⟩
    all_goals
      have hv : e.d = vnegR (l.vec cfg.grid q.r p.r) := by
        rw [heq, e1, e2, hdir]
        simp only [Link.vec, vnegR, Grid.corner, Grid.cellDist, Axis.linkDelta, addPair1_neg]
    · have := normSq_vnegR (l.vec cfg.grid q.r p.r)
      rw [← hv] at this
      rw [← this]; exact hn
    · right
      refine ⟨?_, fp2.trans hc1, fq2.trans hc2⟩
      rw [heq] at hv ⊢
      simp only at hv
      simp only [mkLinkPair, Pair.swap, ← hv, ha1, ha2, fp3, fq3]

/-! ### No duplicates -/

/-- Two links between the same two cells that both deliver a vector shorter than the cutoff for
the same two positions are the same link. -/
theorem vec_unique {g : Grid} (hg : g.OK) {rc : Rat} (hc : CutOK g rc) {l1 l2 : Link}
    (h1 : l1.Valid g) (h2 : l2.Valid g) (ef : l1.first = l2.first) (es : l1.second = l2.second)
    {r1 r2 : V3 Rat} (n1 : normSq (l1.vec g r1 r2) < rc * rc)
    (n2 : normSq (l2.vec g r1 r2) < rc * rc) : l1 = l2 := by
  obtain ⟨c0, cx, cy, cz⟩ := hc
  obtain ⟨ax, ay, az⟩ := comp_lt_of_normSq c0 n1
  obtain ⟨bx, by', bz⟩ := comp_lt_of_normSq c0 n2
  obtain ⟨_, o1, nb1⟩ := h1
  obtain ⟨_, o2, nb2⟩ := h2
  rw [Grid.nb_eq_some] at nb1 nb2
  simp only [Link.vec] at ax ay az bx by' bz
  rw [← ef, ← es] at nb2 bx by' bz
  have ex := axis_unique hg.1.1 hg.1.2 o1.1 o2.1 nb1.1 nb2.1 (x := r1.x) (y := r2.x)
    ⟨by grind, by grind⟩ ⟨by grind, by grind⟩
  have ey := axis_unique hg.2.1.1 hg.2.1.2 o1.2.1 o2.2.1 nb1.2.1 nb2.2.1 (x := r1.y) (y := r2.y)
    ⟨by grind, by grind⟩ ⟨by grind, by grind⟩
  have ez := axis_unique hg.2.2.1 hg.2.2.2 o1.2.2 o2.2.2 nb1.2.2 nb2.2.2 (x := r1.z) (y := r2.z)
    ⟨by grind, by grind⟩ ⟨by grind, by grind⟩
  cases l1 with | mk f1 s1 oo1 =>
  cases l2 with | mk f2 s2 oo2 =>
  cases oo1; cases oo2
  simp only at ef es ex ey ez
  simp [ef, es, ex, ey, ez]

theorem mkLinkPair_ids {g : Grid} {l : Link} {u v : Particle} {e : Pair} {P Q : Prop}
    (h : (e = mkLinkPair g l u v ∧ P) ∨ (e = (mkLinkPair g l u v).swap ∧ Q)) :
    (e.i = u.id ∧ e.j = v.id) ∨ (e.i = v.id ∧ e.j = u.id) := by
  rcases h with ⟨rfl, _⟩ | ⟨rfl, _⟩
  · exact Or.inl ⟨rfl, rfl⟩
  · exact Or.inr ⟨rfl, rfl⟩

/-- Entries for the same unordered pair produced by two links: the links are the same link
(possibly seen from the other side). -/
theorem linkPairs_same_link {cfg : Config} (hg : cfg.grid.OK) (hid : IdsNodup cfg) {a b : Nat}
    (hc : CutOK cfg.grid (cfg.cut a b)) {l1 l2 : Link}
    (h1 : l1.Valid cfg.grid) (h2 : l2.Valid cfg.grid) {e1 e2 : Pair}
    (he1 : e1 ∈ linkPairs cfg l1 a b) (he2 : e2 ∈ linkPairs cfg l2 a b) (hs : e1.same e2) :
    l1 = l2 ∨ l1 = l2.flip := by
  obtain ⟨u1, v1, hu1, hv1, _, cu1, cv1, _, n1, d1⟩ := linkPairs_prov hg hid h1 he1
  obtain ⟨u2, v2, hu2, hv2, _, cu2, cv2, _, n2, d2⟩ := linkPairs_prov hg hid h2 he2
  have i1 := mkLinkPair_ids d1
  have i2 := mkLinkPair_ids d2
  have : (u1.id = u2.id ∧ v1.id = v2.id) ∨ (u1.id = v2.id ∧ v1.id = u2.id) := by
    unfold Pair.same at hs; grind
  rcases this with ⟨eu, ev⟩ | ⟨eu, ev⟩
  · have := hid.eq_of_id hu1 hu2 eu
    subst this
    have := hid.eq_of_id hv1 hv2 ev
    subst this
    exact Or.inl (vec_unique hg hc h1 h2 (cu1.symm.trans cu2) (cv1.symm.trans cv2) n1 n2)
  · have := hid.eq_of_id hu1 hv2 eu
    subst this
    have := hid.eq_of_id hv1 hu2 ev
    subst this
    refine Or.inr (vec_unique hg hc h1 (h2.flip hg) (cu1.symm.trans cv2) (cv1.symm.trans cu2) n1 ?_)
    rw [Link.flip_vec h2.2.1, normSq_vnegR]
    exact n2

/-- Signatures of two calls neither agree nor agree crosswise. -/
def Slot.Apart (s s' : Slot) : Prop :=
  ¬(s.c1 = s'.c1 ∧ s.col1 = s'.col1 ∧ s.fr1 = s'.fr1 ∧ s.c2 = s'.c2 ∧ s.col2 = s'.col2 ∧
      s.fr2 = s'.fr2) ∧
  ¬(s.c1 = s'.c2 ∧ s.col1 = s'.col2 ∧ s.fr1 = s'.fr2 ∧ s.c2 = s'.c1 ∧ s.col2 = s'.col1 ∧
      s.fr2 = s'.fr1)

theorem slots_pairwise (l : Link) (a b : Nat) : (slots l a b).Pairwise Slot.Apart := by
  unfold slots
  split
  · split
    · simp [Slot.Apart]
    · rename_i hab
      simp [Slot.Apart, hab]
  · rename_i hloc
    have hloc' : ¬ l.second = l.first := fun e => hloc e.symm
    split
    · simp [Slot.Apart, hloc, hloc']
    · rename_i hab
      have hab' : ¬ b = a := fun e => hab e.symm
      simp [Slot.Apart, hloc, hloc', hab, hab']

theorem Slot.Apart.not_fits {s s' : Slot} (h : s.Apart s') {p q : Particle} (hf : s.Fits p q) :
    ¬ s'.Fits p q ∧ ¬ s'.Fits q p := by
  obtain ⟨⟨a1, a2, a3⟩, ⟨b1, b2, b3⟩⟩ := hf
  constructor
  · rintro ⟨⟨a1', a2', a3'⟩, ⟨b1', b2', b3'⟩⟩
    exact h.1 ⟨a1.symm.trans a1', a2.symm.trans a2', a3.symm.trans a3', b1.symm.trans b1',
      b2.symm.trans b2', b3.symm.trans b3'⟩
  · rintro ⟨⟨a1', a2', a3'⟩, ⟨b1', b2', b3'⟩⟩
    exact h.2 ⟨a1.symm.trans b1', a2.symm.trans b2', a3.symm.trans b3', b1.symm.trans a1',
      b2.symm.trans a2', b3.symm.trans a3'⟩

theorem cellParts_pairwise {cfg : Config} (hid : IdsNodup cfg) (c : V3 Int) (col : Nat) (fr : Bool) :
    (cfg.cellParts c col fr).Pairwise IdNe :=
  List.Pairwise.sublist (cellParts_sublist cfg c col fr) hid

theorem runSlot_pairwise {cfg : Config} (hid : IdsNodup cfg) (rc2 : Rat) (cd : V3 Rat) {s : Slot}
    (hdiff : s.same = false → ¬(s.c1 = s.c2 ∧ s.col1 = s.col2 ∧ s.fr1 = s.fr2)) :
    (runSlot cfg rc2 cd s).Pairwise (fun e e' => ¬ e.same e') := by
  unfold runSlot
  simp only
  split
  · exact pairwise_forSame (addPair_ids _ _ _ _ _ _ _ _) (cellParts_pairwise hid ..)
  · rename_i hs
    refine pairwise_forDifferent (addPair_ids _ _ _ _ _ _ _ _) (cellParts_pairwise hid ..)
      (cellParts_pairwise hid ..) ?_
    intro p hp q hq e
    rw [mem_cellParts] at hp hq
    have := hid.eq_of_id hp.1 hq.1 e
    subst this
    exact hdiff (by simpa using hs) ⟨hp.2.1.symm.trans hq.2.1, hp.2.2.1.symm.trans hq.2.2.1,
      hp.2.2.2.symm.trans hq.2.2.2⟩

/-- Within one link no unordered pair is produced twice. -/
theorem linkPairs_pairwise {cfg : Config} (hid : IdsNodup cfg) (l : Link) (a b : Nat) :
    (linkPairs cfg l a b).Pairwise (fun e e' => ¬ e.same e') := by
  unfold linkPairs
  rw [List.pairwise_flatMap]
  refine ⟨fun s hs => runSlot_pairwise hid _ _ (slots_spec hs).2.2.2.2.2.2.2,
    (slots_pairwise l a b).imp_of_mem ?_⟩
  intro s s' hs hs' hap e he e' he' hsame
  obtain ⟨p, q, hp, hq, hfit, hadd, _⟩ := mem_runSlot (slots_spec hs).2.2.2.2.2.2.1 he
  obtain ⟨p', q', hp', hq', hfit', hadd', _⟩ := mem_runSlot (slots_spec hs').2.2.2.2.2.2.1 he'
  have ⟨i1, i2⟩ := addPair_ids _ _ _ _ _ _ _ _ _ _ _ hadd
  have ⟨i3, i4⟩ := addPair_ids _ _ _ _ _ _ _ _ _ _ _ hadd'
  have hnf := hap.not_fits hfit
  unfold Pair.same at hsame
  rcases hsame with ⟨e1, e2⟩ | ⟨e1, e2⟩
  · have := hid.eq_of_id hp hp' (by omega)
    subst this
    have := hid.eq_of_id hq hq' (by omega)
    subst this
    exact hnf.1 hfit'
  · have := hid.eq_of_id hp hq' (by omega)
    subst this
    have := hid.eq_of_id hq hp' (by omega)
    subst this
    exact hnf.2 hfit'

/-- **None listed twice**: no two entries of `cellPairs` are for the same unordered pair. -/
theorem cellPairs_pairwise {cfg : Config} (hg : cfg.grid.OK) (hid : IdsNodup cfg) {a b : Nat}
    (hc : CutOK cfg.grid (cfg.cut a b)) {links : List Link} (hl : LinkSetOK cfg.grid links) :
    (cellPairs cfg links a b).Pairwise (fun e e' => ¬ e.same e') := by
  unfold cellPairs
  rw [List.pairwise_flatMap]
  refine ⟨fun l _ => linkPairs_pairwise hid l a b, (hl.nodup.filter _).imp_of_mem ?_⟩
  intro l1 l2 h1 h2 hne e1 he1 e2 he2 hs
  have v1 := hl.valid l1 (List.mem_filter.1 h1).1
  have v2 := hl.valid l2 (List.mem_filter.1 h2).1
  rcases linkPairs_same_link hg hid hc v1 v2 he1 he2 hs with e | e
  · exact hne.1 e
  · exact hne.2 e

/-! ### Soundness -/

theorem Axis.OK.L_facts {a : Axis} (h : a.OK) : 0 < a.L ∧ a.w ≤ a.L / 2 := by
  obtain ⟨hw, hn⟩ := h
  constructor
  · unfold Axis.L
    exact Rat.mul_pos (Rat.natCast_pos.2 (by omega)) hw
  · unfold Axis.L
    have : ((2 : Nat) : Rat) * a.w ≤ (a.n : Rat) * a.w :=
      Rat.mul_le_mul_of_nonneg_right (Rat.natCast_le_natCast.2 hn) (Rat.le_of_lt hw)
    have c2 : ((2 : Nat) : Rat) = 2 := rfl
    rw [c2] at this
    grind

/-- A link vector shorter than the cutoff is the reference (minimum-image) separation. -/
theorem vec_eq_sepV {g : Grid} (hg : g.OK) {rc : Rat} (hc : CutOK g rc) {l : Link}
    (hl : l.Valid g) {r1 r2 : V3 Rat} (n : normSq (l.vec g r1 r2) < rc * rc) :
    l.vec g r1 r2 = g.sepV r1 r2 := by
  obtain ⟨c0, cx, cy, cz⟩ := hc
  obtain ⟨ax, ay, az⟩ := comp_lt_of_normSq c0 n
  obtain ⟨hin, ho, nb⟩ := hl
  rw [Grid.nb_eq_some] at nb
  simp only [Link.vec] at ax ay az
  simp only [Link.vec, Grid.sepV]
  rw [axis_sound_sep hg.1.1 hg.1.2 hin.1 ho.1 nb.1 ⟨by grind, by grind⟩,
    axis_sound_sep hg.2.1.1 hg.2.1.2 hin.2.1 ho.2.1 nb.2.1 ⟨by grind, by grind⟩,
    axis_sound_sep hg.2.2.1 hg.2.2.2 hin.2.2 ho.2.2 nb.2.2 ⟨by grind, by grind⟩]

/-- Every link vector is an image of `r1 - r2`. -/
theorem vec_image {g : Grid} (hg : g.OK) {l : Link} (hl : l.Valid g) (r1 r2 : V3 Rat) :
    IsImage g r1 r2 (l.vec g r1 r2) := by
  obtain ⟨hin, ho, nb⟩ := hl
  rw [Grid.nb_eq_some] at nb
  obtain ⟨kx, ox, px, ex⟩ := axis_sound (by have := hg.1.2; omega) hin.1 ho.1 nb.1 r1.x r2.x
  obtain ⟨ky, oy, py, ey⟩ := axis_sound (by have := hg.2.1.2; omega) hin.2.1 ho.2.1 nb.2.1 r1.y r2.y
  obtain ⟨kz, oz, pz, ez⟩ := axis_sound (by have := hg.2.2.2; omega) hin.2.2 ho.2.2 nb.2.2 r1.z r2.z
  exact ⟨⟨kx, ky, kz⟩, ⟨ox, oy, oz⟩, px, py, pz, ex, ey, ez⟩

theorem IsImage.neg {g : Grid} {r1 r2 d : V3 Rat} (h : IsImage g r1 r2 d) :
    IsImage g r2 r1 (vnegR d) := by
  obtain ⟨k, ⟨ox, oy, oz⟩, px, py, pz, ex, ey, ez⟩ := h
  refine ⟨vneg k, ⟨isOff1_neg ox, isOff1_neg oy, isOff1_neg oz⟩, ?_, ?_, ?_, ?_, ?_, ?_⟩
  · intro h; simp [vneg, px h]
  · intro h; simp [vneg, py h]
  · intro h; simp [vneg, pz h]
  · simp only [vnegR, vneg, ex, Rat.intCast_neg]; grind
  · simp only [vnegR, vneg, ey, Rat.intCast_neg]; grind
  · simp only [vnegR, vneg, ez, Rat.intCast_neg]; grind

/-- Away from the tie the reference separation is antisymmetric, one axis. -/
theorem sep_neg {a : Axis} (h : a.OK) {x y : Rat} (hb : -(a.L / 2) < a.sep x y) :
    a.sep y x = -(a.sep x y) := by
  unfold Axis.sep at *
  split
  · rename_i hp
    rw [if_pos hp] at hb
    have e : y - x = -(x - y) := by grind
    rw [e, mi_neg h.L_facts.1 hb]
  · grind

theorem sepV_neg {g : Grid} (hg : g.OK) {rc : Rat} (hc : CutOK g rc) {r1 r2 : V3 Rat}
    (n : normSq (g.sepV r1 r2) < rc * rc) : g.sepV r2 r1 = vnegR (g.sepV r1 r2) := by
  obtain ⟨c0, cx, cy, cz⟩ := hc
  obtain ⟨ax, ay, az⟩ := comp_lt_of_normSq c0 n
  simp only [Grid.sepV] at ax ay az
  have fx := hg.1.L_facts.2
  have fy := hg.2.1.L_facts.2
  have fz := hg.2.2.L_facts.2
  simp only [Grid.sepV, vnegR]
  rw [sep_neg hg.1 (by grind), sep_neg hg.2.1 (by grind), sep_neg hg.2.2 (by grind)]

theorem mkPair_swap {g : Grid} (hg : g.OK) {rc : Rat} (hc : CutOK g rc) {p q : Particle}
    (n : normSq (g.sepV p.r q.r) < rc * rc) : mkPair g q p = (mkPair g p q).swap := by
  simp only [mkPair, Pair.swap, sepV_neg hg hc n]

/-- **Soundness**: every listed entry is the reference entry `mkPair p q` of a pair `(p, q)` of
the reference list, and its vector is an image of `r_p - r_q` with image numbers in `{-1,0,1}`
(`0` in non-periodic directions).  Needs no containment hypothesis. -/
theorem cellPairs_sound {cfg : Config} (hg : cfg.grid.OK) (hid : IdsNodup cfg) {a b : Nat}
    (hc : CutOK cfg.grid (cfg.cut a b)) {links : List Link}
    (hl : ∀ l, l ∈ links → l.Valid cfg.grid) {e : Pair} (he : e ∈ cellPairs cfg links a b) :
    ∃ p q, InBrute cfg (cfg.cut a b) a b p q ∧ e = mkPair cfg.grid p q ∧
      IsImage cfg.grid p.r q.r e.d := by
  unfold cellPairs at he
  obtain ⟨l, hlm, he⟩ := List.mem_flatMap.1 he
  have hv := hl l (List.mem_filter.1 hlm).1
  obtain ⟨u, v, hu, hv', hne, _, _, hfr, n, d⟩ := linkPairs_prov hg hid hv he
  have hsep := vec_eq_sepV hg hc hv n
  have him := vec_image hg hv u.r v.r
  rcases d with ⟨rfl, ca, cb⟩ | ⟨rfl, ca, cb⟩
  · refine ⟨u, v, ⟨hu, hv', hne, ca, cb, hfr, by rw [← hsep]; exact n⟩, ?_, him⟩
    simp only [mkLinkPair, mkPair, hsep]
  · have n' : normSq (cfg.grid.sepV u.r v.r) < cfg.cut a b * cfg.cut a b := by rw [← hsep]; exact n
    refine ⟨v, u, ⟨hv', hu, fun e => hne e.symm, ca, cb, fun h => hfr ⟨h.2, h.1⟩, ?_⟩, ?_, ?_⟩
    · rw [sepV_neg hg hc n', normSq_vnegR]; exact n'
    · rw [mkPair_swap hg hc n']
      simp only [mkLinkPair, mkPair, hsep]
    · exact him.neg

/-! ### Completeness -/

theorem sep_form {a : Axis} (x y : Rat) :
    ∃ k : Int, (a.per = false → k = 0) ∧ a.sep x y = x - y - (k : Rat) * a.L := by
  unfold Axis.sep
  split
  · rename_i hp
    exact ⟨((x - y) / a.L + 1 / 2).floor, by simp [hp], mi_eq _ _⟩
  · refine ⟨0, fun _ => rfl, ?_⟩
    have h : (((0 : Int)) : Rat) = 0 := rfl
    rw [h]; grind

/-- The link from the registered cell of `p` to the registered cell of `q` that delivers the
reference separation, provided that is shorter than `w - 2ε` in every component. -/
theorem exists_link {g : Grid} (hg : g.OK) {ε : Rat} {cp cq : V3 Int} {rp rq : V3 Rat}
    (hp : g.x.Contains ε cp.x rp.x ∧ g.y.Contains ε cp.y rp.y ∧ g.z.Contains ε cp.z rp.z)
    (hq : g.x.Contains ε cq.x rq.x ∧ g.y.Contains ε cq.y rq.y ∧ g.z.Contains ε cq.z rq.z)
    {rc' : Rat} (h0 : 0 < rc')
    (hw : rc' ≤ g.x.w - 2 * ε ∧ rc' ≤ g.y.w - 2 * ε ∧ rc' ≤ g.z.w - 2 * ε)
    (n : normSq (g.sepV rp rq) < rc' * rc') :
    ∃ o, (⟨cp, cq, o⟩ : Link).Valid g ∧ (⟨cp, cq, o⟩ : Link).vec g rp rq = g.sepV rp rq := by
  obtain ⟨ax, ay, az⟩ := comp_lt_of_normSq h0 n
  simp only [Grid.sepV] at ax ay az
  obtain ⟨kx, px, ex⟩ := sep_form (a := g.x) rp.x rq.x
  obtain ⟨ky, py, ey⟩ := sep_form (a := g.y) rp.y rq.y
  obtain ⟨kz, pz, ez⟩ := sep_form (a := g.z) rp.z rq.z
  rw [ex] at ax; rw [ey] at ay; rw [ez] at az
  obtain ⟨ox, o1, n1, d1⟩ := axis_complete hg.1.1 hp.1 hq.1 kx px (by grind) (by grind)
  obtain ⟨oy, o2, n2, d2⟩ := axis_complete hg.2.1.1 hp.2.1 hq.2.1 ky py (by grind) (by grind)
  obtain ⟨oz, o3, n3, d3⟩ := axis_complete hg.2.2.1 hp.2.2 hq.2.2 kz pz (by grind) (by grind)
  refine ⟨⟨ox, oy, oz⟩, ⟨⟨hp.1.1, hp.2.1.1, hp.2.2.1⟩, ⟨o1, o2, o3⟩, ?_⟩, ?_⟩
  · rw [Grid.nb_eq_some]; exact ⟨n1, n2, n3⟩
  · simp only [Link.vec, Grid.sepV, d1, d2, d3, ex, ey, ez]

theorem runSlot_mem_diff {cfg : Config} {rc2 : Rat} {cd : V3 Rat} {s : Slot} (hs : s.same = false)
    {p q : Particle} (hp : p ∈ cfg.parts) (hq : q ∈ cfg.parts) (hf : s.Fits p q) {e : Pair}
    (he : addPair cfg.grid rc2 s.dir s.c1 s.c2 cd s.ao1 s.ao2 p q = some e) :
    e ∈ runSlot cfg rc2 cd s := by
  unfold runSlot
  simp only [hs]
  exact mem_forDifferent.2 ⟨p, mem_cellParts.2 ⟨hp, hf.1⟩, q, mem_cellParts.2 ⟨hq, hf.2⟩, he⟩

theorem runSlot_mem_same {cfg : Config} {rc2 : Rat} {cd : V3 Rat} {s : Slot} (hs : s.same = true)
    {p q : Particle} (hsub : [p, q].Sublist (cfg.cellParts s.c1 s.col1 s.fr1)) {e : Pair}
    (he : addPair cfg.grid rc2 s.dir s.c1 s.c2 cd s.ao1 s.ao2 p q = some e) :
    e ∈ runSlot cfg rc2 cd s := by
  unfold runSlot
  simp only [hs]
  exact mem_forSame.2 ⟨p, q, hsub, he⟩

theorem addPair_dir1 {g : Grid} {rc2 : Rat} {l : Link} {u v : Particle} (ao1 ao2 : Bool)
    (n : normSq (l.vec g u.r v.r) < rc2) :
    addPair g rc2 1 l.first l.second (g.cellDist l.o) ao1 ao2 u v =
      some ⟨u.id, v.id, l.vec g u.r v.r, ao1, ao2⟩ := by
  unfold addPair
  simp only
  rw [if_pos (by exact n)]
  rfl

theorem addPair_dirm1 {g : Grid} {rc2 : Rat} {l : Link} {u v : Particle} (ao1 ao2 : Bool)
    (n : normSq (l.vec g u.r v.r) < rc2) :
    addPair g rc2 (-1) l.second l.first (g.cellDist l.o) ao1 ao2 v u =
      some ⟨v.id, u.id, vnegR (l.vec g u.r v.r), ao1, ao2⟩ := by
  have e : (⟨addPair1 (-1) (g.cellDist l.o).x v.r.x (g.corner l.second).x u.r.x (g.corner l.first).x,
       addPair1 (-1) (g.cellDist l.o).y v.r.y (g.corner l.second).y u.r.y (g.corner l.first).y,
       addPair1 (-1) (g.cellDist l.o).z v.r.z (g.corner l.second).z u.r.z (g.corner l.first).z⟩
        : V3 Rat) = vnegR (l.vec g u.r v.r) := by
    simp only [Link.vec, vnegR, Grid.corner, Grid.cellDist, Axis.linkDelta, addPair1_neg]
  unfold addPair
  simp only
  rw [e, if_pos (by rw [normSq_vnegR]; exact n)]

theorem addPair_dir0 {g : Grid} {rc2 : Rat} {l : Link} (hloc : l.first = l.second)
    (ho : l.o = ⟨0, 0, 0⟩) {u v : Particle} (cd : V3 Rat) (ao1 ao2 : Bool)
    (n : normSq (l.vec g u.r v.r) < rc2) :
    addPair g rc2 0 l.first l.first cd ao1 ao2 u v =
      some ⟨u.id, v.id, l.vec g u.r v.r, ao1, ao2⟩ ∧
    addPair g rc2 0 l.first l.first cd ao1 ao2 v u =
      some ⟨v.id, u.id, vnegR (l.vec g u.r v.r), ao1, ao2⟩ := by
  have e1 : l.vec g u.r v.r = ⟨u.r.x - v.r.x, u.r.y - v.r.y, u.r.z - v.r.z⟩ := by
    simp only [Link.vec, ← hloc, ho, linkDelta_local]
  have e2 : vnegR (l.vec g u.r v.r) = ⟨v.r.x - u.r.x, v.r.y - u.r.y, v.r.z - u.r.z⟩ := by
    rw [e1]; simp only [vnegR, Rat.neg_sub]
  have n2 : normSq (vnegR (l.vec g u.r v.r)) < rc2 := by rw [normSq_vnegR]; exact n
  rw [e2] at n2 ⊢
  rw [e1] at n ⊢
  unfold addPair
  simp only [addPair1_dir0]
  rw [if_pos n, if_pos n2]
  exact ⟨rfl, rfl⟩

theorem slots_has_dir1 {l : Link} {a b : Nat} (hloc : ¬ l.first = l.second) (hab : ¬ a = b)
    {f1 f2 : Bool} (hf : ¬(f1 = true ∧ f2 = true)) :
    (⟨false, 1, l.first, l.second, a, f1, b, f2, !f1, !f2⟩ : Slot) ∈ slots l a b := by
  cases f1 <;> cases f2 <;> simp [slots, hloc, hab] at hf ⊢

theorem slots_has_dirm1 {l : Link} {a b : Nat} (hloc : ¬ l.first = l.second)
    {f1 f2 : Bool} (hf : ¬(f1 = true ∧ f2 = true)) :
    (⟨false, -1, l.second, l.first, a, f1, b, f2, !f1, !f2⟩ : Slot) ∈ slots l a b := by
  cases f1 <;> cases f2 <;> simp [slots, hloc] at hf ⊢

theorem slots_has_local_ne {l : Link} {a b : Nat} (hloc : l.first = l.second) (hab : ¬ a = b)
    {f1 f2 : Bool} (hf : ¬(f1 = true ∧ f2 = true)) :
    (⟨false, 0, l.first, l.first, a, f1, b, f2, !f1, !f2⟩ : Slot) ∈ slots l a b := by
  cases f1 <;> cases f2 <;> simp [slots, hloc, hab] at hf ⊢

theorem slots_has_local_same {l : Link} {a : Nat} (hloc : l.first = l.second) :
    (⟨true, 0, l.first, l.first, a, false, a, false, true, true⟩ : Slot) ∈ slots l a a := by
  simp [slots, hloc]

theorem slots_has_local_ft {l : Link} {a : Nat} (hloc : l.first = l.second) :
    (⟨false, 0, l.first, l.first, a, false, a, true, true, false⟩ : Slot) ∈ slots l a a := by
  simp [slots, hloc]

/-- A valid link lists every pair `u ∈ first`, `v ∈ second` with colours `{a,b}`, not both
frozen, whose link vector passes the cutoff test (in one of the two orientations). -/
theorem linkPairs_complete {cfg : Config} (hg : cfg.grid.OK) {l : Link} (hl : l.Valid cfg.grid)
    {a b : Nat} {u v : Particle} (hu : u ∈ cfg.parts) (hv : v ∈ cfg.parts) (hne : u ≠ v)
    (cu : u.cell = l.first) (cv : v.cell = l.second)
    (hcol : (u.colour = a ∧ v.colour = b) ∨ (u.colour = b ∧ v.colour = a))
    (hfr : ¬(u.frozen = true ∧ v.frozen = true))
    (n : normSq (l.vec cfg.grid u.r v.r) < cfg.cut a b * cfg.cut a b) :
    ∃ e, e ∈ linkPairs cfg l a b ∧ e.same (mkLinkPair cfg.grid l u v) := by
  have hcd := hl.cellDist_eq hg
  unfold linkPairs
  rw [hcd]
  -- it suffices to exhibit a call and an entry
  suffices h : ∃ s, s ∈ slots l a b ∧ ∃ e, e ∈ runSlot cfg (cfg.cut a b * cfg.cut a b)
      (cfg.grid.cellDist l.o) s ∧ ((e.i = u.id ∧ e.j = v.id) ∨ (e.i = v.id ∧ e.j = u.id)) by
    obtain ⟨s, hs, e, he, hi⟩ := h
    exact ⟨e, List.mem_flatMap.2 ⟨s, hs, he⟩, hi⟩
  have hfr' : ¬(v.frozen = true ∧ u.frozen = true) := fun h => hfr ⟨h.2, h.1⟩
  by_cases hloc : l.first = l.second
  · have ho := (hl.local_iff hg).1 hloc
    have cv' : v.cell = l.first := cv.trans hloc.symm
    by_cases hab : a = b
    · subst hab
      have ca : u.colour = a := by rcases hcol with h | h <;> exact h.1
      have cb : v.colour = a := by rcases hcol with h | h <;> exact h.2
      cases fu : u.frozen <;> cases fv : v.frozen
      · -- both free: the `ForSame` call
        have hu' : u ∈ cfg.cellParts l.first a false := mem_cellParts.2 ⟨hu, cu, ca, fu⟩
        have hv' : v ∈ cfg.cellParts l.first a false := mem_cellParts.2 ⟨hv, cv', cb, fv⟩
        have had := addPair_dir0 (g := cfg.grid) hloc ho (cfg.grid.cellDist l.o) true true n
        refine ⟨_, slots_has_local_same hloc, ?_⟩
        rcases sublist_pair_of_mem hu' hv' hne with hs | hs
        · exact ⟨_, runSlot_mem_same rfl hs had.1, Or.inl ⟨rfl, rfl⟩⟩
        · exact ⟨_, runSlot_mem_same rfl hs had.2, Or.inr ⟨rfl, rfl⟩⟩
      · have had := addPair_dir0 (g := cfg.grid) hloc ho (cfg.grid.cellDist l.o) true false n
        exact ⟨_, slots_has_local_ft hloc, _,
          runSlot_mem_diff rfl hu hv ⟨⟨cu, ca, fu⟩, ⟨cv', cb, fv⟩⟩ had.1, Or.inl ⟨rfl, rfl⟩⟩
      · have had := addPair_dir0 (g := cfg.grid) hloc ho (cfg.grid.cellDist l.o) true false n
        exact ⟨_, slots_has_local_ft hloc, _,
          runSlot_mem_diff rfl hv hu ⟨⟨cv', cb, fv⟩, ⟨cu, ca, fu⟩⟩ had.2, Or.inr ⟨rfl, rfl⟩⟩
      · exact absurd ⟨fu, fv⟩ hfr
    · rcases hcol with ⟨ca, cb⟩ | ⟨ca, cb⟩
      · have had := addPair_dir0 (g := cfg.grid) hloc ho (cfg.grid.cellDist l.o)
          (!u.frozen) (!v.frozen) n
        exact ⟨_, slots_has_local_ne hloc hab hfr, _,
          runSlot_mem_diff rfl hu hv ⟨⟨cu, ca, rfl⟩, ⟨cv', cb, rfl⟩⟩ had.1, Or.inl ⟨rfl, rfl⟩⟩
      · have had := addPair_dir0 (g := cfg.grid) hloc ho (cfg.grid.cellDist l.o)
          (!v.frozen) (!u.frozen) n
        exact ⟨_, slots_has_local_ne hloc hab hfr', _,
          runSlot_mem_diff rfl hv hu ⟨⟨cv', cb, rfl⟩, ⟨cu, ca, rfl⟩⟩ had.2, Or.inr ⟨rfl, rfl⟩⟩
  · by_cases hcb : u.colour = b ∧ v.colour = a
    · -- `else` branch of the colour loop, `dir = -1`, `v` listed first
      have had := addPair_dirm1 (g := cfg.grid) (!v.frozen) (!u.frozen) n
      exact ⟨_, slots_has_dirm1 (a := a) (b := b) hloc hfr', _,
        runSlot_mem_diff rfl hv hu ⟨⟨cv, hcb.2, rfl⟩, ⟨cu, hcb.1, rfl⟩⟩ had, Or.inr ⟨rfl, rfl⟩⟩
    · have hca : u.colour = a ∧ v.colour = b := by
        rcases hcol with h | h
        · exact h
        · exact absurd h hcb
      have hab : ¬ a = b := by
        intro e; subst e; exact hcb hca
      have had := addPair_dir1 (g := cfg.grid) (!u.frozen) (!v.frozen) n
      exact ⟨_, slots_has_dir1 hloc hab hfr, _,
        runSlot_mem_diff rfl hu hv ⟨⟨cu, hca.1, rfl⟩, ⟨cv, hca.2, rfl⟩⟩ had, Or.inl ⟨rfl, rfl⟩⟩

theorem occupied_of_mem {cfg : Config} {p : Particle} (hp : p ∈ cfg.parts) :
    cfg.occupied p.cell = true := by
  unfold Config.occupied
  rw [List.any_eq_true]
  exact ⟨p, hp, by simp⟩

theorem sq_lt_of_le {x y s : Rat} (h0 : 0 ≤ x) (h : x ≤ y) (hs : s < x * x) : s < y * y := by
  have := sq_le_sq_of_abs_le (x := x) (y := y) (Or.inl ⟨by grind, h⟩)
  grind

/-- **Completeness** (with slack `ε`): every pair of the reference list for the cutoff
`rc - 2ε` is listed (in one of the two orientations). -/
theorem cellPairs_complete {cfg : Config} (hg : cfg.grid.OK) {ε : Rat} (hε : 0 ≤ ε)
    (hreg : Registered cfg ε) {a b : Nat} (hc : CutOK cfg.grid (cfg.cut a b)) {links : List Link}
    (hl : LinkSetOK cfg.grid links) (hpos : 0 < cfg.cut a b - 2 * ε) {p q : Particle}
    (h : InBrute cfg (cfg.cut a b - 2 * ε) a b p q) :
    ∃ e, e ∈ cellPairs cfg links a b ∧ e.same (mkPair cfg.grid p q) := by
  obtain ⟨hp, hq, hne, ca, cb, hfr, n⟩ := h
  obtain ⟨c0, cx, cy, cz⟩ := hc
  obtain ⟨o, hv, hvec⟩ := exists_link hg (hreg p hp) (hreg q hq) hpos
    ⟨by grind, by grind, by grind⟩ n
  have n2 : normSq (cfg.grid.sepV p.r q.r) < cfg.cut a b * cfg.cut a b :=
    sq_lt_of_le (Rat.le_of_lt hpos) (by grind) n
  have hpq : p ≠ q := fun e => hne (by rw [e])
  have hact : ∀ l : Link, (l.first = p.cell ∧ l.second = q.cell) ∨
      (l.first = q.cell ∧ l.second = p.cell) → cfg.active l = true := by
    intro l h
    unfold Config.active
    rcases h with ⟨h1, h2⟩ | ⟨h1, h2⟩ <;>
      simp [h1, h2, occupied_of_mem hp, occupied_of_mem hq]
  rcases hl.complete p.cell o q.cell hv.1 hv.2.1 hv.2.2 with hm | hm
  · obtain ⟨e, he, hs⟩ := linkPairs_complete hg hv (a := a) (b := b) hp hq hpq rfl rfl
      (Or.inl ⟨ca, cb⟩) hfr (by rw [hvec]; exact n2)
    refine ⟨e, ?_, hs⟩
    unfold cellPairs
    exact List.mem_flatMap.2 ⟨_, List.mem_filter.2 ⟨hm, hact _ (Or.inl ⟨rfl, rfl⟩)⟩, he⟩
  · have hv' := hv.flip hg
    have hm' : (⟨p.cell, q.cell, o⟩ : Link).flip ∈ links := hm
    obtain ⟨e, he, hs⟩ := linkPairs_complete hg hv' (a := a) (b := b) hq hp (fun e => hpq e.symm)
      rfl rfl (Or.inr ⟨cb, ca⟩) (fun h => hfr ⟨h.2, h.1⟩)
      (by rw [Link.flip_vec hv.2.1, normSq_vnegR, hvec]; exact n2)
    refine ⟨e, ?_, ?_⟩
    · unfold cellPairs
      exact List.mem_flatMap.2 ⟨_, List.mem_filter.2 ⟨hm', hact _ (Or.inr ⟨rfl, rfl⟩)⟩, he⟩
    · unfold Pair.same at hs ⊢
      simp only [mkLinkPair, mkPair] at hs ⊢
      omega

/-! ### The reference list -/

theorem bruteF_eq_some {g : Grid} {rc2 : Rat} {p q : Particle} {e : Pair} :
    bruteF g rc2 p q = some e ↔
      ¬(p.frozen = true ∧ q.frozen = true) ∧ normSq (g.sepV p.r q.r) < rc2 ∧ e = mkPair g p q := by
  unfold bruteF
  split
  · rename_i h
    simp only [Bool.and_eq_true, Bool.not_eq_true', Bool.and_eq_false_iff, decide_eq_true_eq] at h
    constructor
    · intro he
      injection he with he
      refine ⟨?_, h.2, he.symm⟩
      rcases h.1 with h1 | h1 <;> simp [h1]
    · rintro ⟨_, _, rfl⟩; rfl
  · rename_i h
    simp only [Bool.and_eq_true, Bool.not_eq_true', Bool.and_eq_false_iff, decide_eq_true_eq] at h
    constructor
    · intro he; cases he
    · rintro ⟨h1, h2, _⟩
      exfalso
      apply h
      refine ⟨?_, h2⟩
      cases hp : p.frozen <;> cases hq : q.frozen <;> simp_all

theorem bruteF_ids (g : Grid) (rc2 : Rat) : IdsOf (bruteF g rc2) := by
  intro p q e h
  obtain ⟨_, _, rfl⟩ := bruteF_eq_some.1 h
  exact ⟨rfl, rfl⟩

theorem mem_filter_colour {cfg : Config} {a : Nat} {p : Particle} :
    p ∈ cfg.parts.filter (fun p => p.colour = a) ↔ p ∈ cfg.parts ∧ p.colour = a := by
  simp [List.mem_filter]

/-- Every entry of the reference list is `mkPair p q` for a pair satisfying `InBrute`. -/
theorem bruteRc_sound {cfg : Config} (hid : IdsNodup cfg) {rc : Rat} {a b : Nat} {e : Pair}
    (h : e ∈ bruteRc cfg rc a b) : ∃ p q, InBrute cfg rc a b p q ∧ e = mkPair cfg.grid p q := by
  unfold bruteRc at h
  split at h
  · rename_i hab
    subst hab
    obtain ⟨p, q, hsub, he⟩ := mem_forSame.1 h
    obtain ⟨hfr, n, rfl⟩ := bruteF_eq_some.1 he
    have hp := mem_filter_colour.1 (hsub.subset (by simp : p ∈ [p, q]))
    have hq := mem_filter_colour.1 (hsub.subset (by simp : q ∈ [p, q]))
    have hne : p.id ≠ q.id :=
      pairwise_of_sublist_pair (R := IdNe) hid (hsub.trans List.filter_sublist)
    exact ⟨p, q, ⟨hp.1, hq.1, hne, hp.2, hq.2, hfr, n⟩, rfl⟩
  · rename_i hab
    obtain ⟨p, hp, q, hq, he⟩ := mem_forDifferent.1 h
    obtain ⟨hfr, n, rfl⟩ := bruteF_eq_some.1 he
    rw [mem_filter_colour] at hp hq
    have hne : p.id ≠ q.id := by
      intro e
      have := hid.eq_of_id hp.1 hq.1 e
      subst this
      exact hab (hp.2.symm.trans hq.2)
    exact ⟨p, q, ⟨hp.1, hq.1, hne, hp.2, hq.2, hfr, n⟩, rfl⟩

/-- `sep`² is symmetric (also at the tie). -/
theorem sep_sq_symm {a : Axis} (h : a.OK) (x y : Rat) :
    a.sep y x * a.sep y x = a.sep x y * a.sep x y := by
  have hL := h.L_facts.1
  unfold Axis.sep
  split
  · have m1 := mi_minimal hL (x - y)
    have m2 := mi_minimal hL (y - x)
    obtain ⟨k1, _, e1⟩ := sep_form (a := ⟨a.w, a.n, true⟩) x y
    obtain ⟨k2, _, e2⟩ := sep_form (a := ⟨a.w, a.n, true⟩) y x
    simp only [Axis.sep, if_true] at e1 e2
    have L' : Axis.L ⟨a.w, a.n, true⟩ = a.L := rfl
    rw [L'] at e1 e2
    have i1 := m1 (-k2)
    have i2 := m2 (-k1)
    simp only [Rat.intCast_neg] at i1 i2
    apply Rat.le_antisymm
    · have : (y - x - -(k1 : Rat) * a.L) * (y - x - -(k1 : Rat) * a.L) =
          mi a.L (x - y) * mi a.L (x - y) := by rw [e1]; grind
      rw [← this]; exact i2
    · have : (x - y - -(k2 : Rat) * a.L) * (x - y - -(k2 : Rat) * a.L) =
          mi a.L (y - x) * mi a.L (y - x) := by rw [e2]; grind
      rw [← this]; exact i1
  · grind

theorem normSq_sepV_symm {g : Grid} (hg : g.OK) (r1 r2 : V3 Rat) :
    normSq (g.sepV r2 r1) = normSq (g.sepV r1 r2) := by
  simp only [normSq, Grid.sepV, sep_sq_symm hg.1, sep_sq_symm hg.2.1, sep_sq_symm hg.2.2]

theorem InBrute.symm {cfg : Config} (hg : cfg.grid.OK) {rc : Rat} {a : Nat} {p q : Particle}
    (h : InBrute cfg rc a a p q) : InBrute cfg rc a a q p := by
  obtain ⟨hp, hq, hne, ca, cb, hfr, n⟩ := h
  exact ⟨hq, hp, fun e => hne e.symm, cb, ca, fun h => hfr ⟨h.2, h.1⟩,
    by rw [normSq_sepV_symm hg]; exact n⟩

/-- Every pair satisfying `InBrute` is in the reference list (for equal colours: in one of the
two orientations). -/
theorem bruteRc_complete {cfg : Config} (hg : cfg.grid.OK) {rc : Rat} {a b : Nat} {p q : Particle}
    (h : InBrute cfg rc a b p q) :
    mkPair cfg.grid p q ∈ bruteRc cfg rc a b ∨ (a = b ∧ mkPair cfg.grid q p ∈ bruteRc cfg rc a b) := by
  unfold bruteRc
  split
  · rename_i hab
    subst hab
    have h' := h.symm hg
    obtain ⟨hp, hq, hne, ca, cb, hfr, n⟩ := h
    have hpq : p ≠ q := fun e => hne (by rw [e])
    rcases sublist_pair_of_mem (mem_filter_colour.2 ⟨hp, ca⟩) (mem_filter_colour.2 ⟨hq, cb⟩) hpq
      with hs | hs
    · exact Or.inl (mem_forSame.2 ⟨p, q, hs, bruteF_eq_some.2 ⟨hfr, n, rfl⟩⟩)
    · exact Or.inr ⟨rfl, mem_forSame.2 ⟨q, p, hs, bruteF_eq_some.2 ⟨h'.2.2.2.2.2.1, h'.2.2.2.2.2.2, rfl⟩⟩⟩
  · obtain ⟨hp, hq, hne, ca, cb, hfr, n⟩ := h
    exact Or.inl (mem_forDifferent.2 ⟨p, mem_filter_colour.2 ⟨hp, ca⟩, q,
      mem_filter_colour.2 ⟨hq, cb⟩, bruteF_eq_some.2 ⟨hfr, n, rfl⟩⟩)

theorem bruteRc_pairwise {cfg : Config} (hid : IdsNodup cfg) (rc : Rat) (a b : Nat) :
    (bruteRc cfg rc a b).Pairwise (fun e e' => ¬ e.same e') := by
  unfold bruteRc
  have hs : ∀ c, (cfg.parts.filter (fun p => p.colour = c)).Pairwise IdNe :=
    fun c => List.Pairwise.sublist List.filter_sublist hid
  split
  · exact pairwise_forSame (bruteF_ids _ _) (hs a)
  · rename_i hab
    refine pairwise_forDifferent (bruteF_ids _ _) (hs a) (hs b) ?_
    intro p hp q hq e
    rw [mem_filter_colour] at hp hq
    have := hid.eq_of_id hp.1 hq.1 e
    subst this
    exact hab (hp.2.symm.trans hq.2)

/-! ### Permutation modulo orientation -/

theorem Pair.swap_swap (e : Pair) : e.swap.swap = e := by
  cases e; simp [Pair.swap, vnegR_vnegR]

theorem canon_same {e1 e2 : Pair} (h : e1.canon = e2.canon) : e1.same e2 := by
  have hi := congrArg Pair.i h
  have hj := congrArg Pair.j h
  unfold Pair.canon at hi hj
  unfold Pair.same
  split at hi <;> split at hi <;> simp_all [Pair.swap]

theorem canon_swap {e : Pair} (h : e.i ≠ e.j) : e.swap.canon = e.canon := by
  unfold Pair.canon
  by_cases h1 : e.i ≤ e.j
  · rw [if_pos h1, if_neg (by simp only [Pair.swap]; omega), Pair.swap_swap]
  · rw [if_neg h1, if_pos (by simp only [Pair.swap]; omega)]

theorem nodup_map_canon {l : List Pair} (h : l.Pairwise (fun e e' => ¬ e.same e')) :
    (l.map Pair.canon).Nodup := by
  rw [List.nodup_iff_pairwise_ne, List.pairwise_map]
  exact h.imp (fun hs he => hs (canon_same he))

theorem canon_mkPair_swap {g : Grid} (hg : g.OK) {rc : Rat} (hc : CutOK g rc) {p q : Particle}
    (hne : p.id ≠ q.id) (n : normSq (g.sepV p.r q.r) < rc * rc) :
    (mkPair g q p).canon = (mkPair g p q).canon := by
  rw [mkPair_swap hg hc n]
  exact canon_swap hne

/-- **Exactness**: with every particle registered in the cell that contains it, the list of
the cell search is a permutation of the reference list, up to the orientation of each entry. -/
theorem cellPairs_perm_brute {cfg : Config} (hg : cfg.grid.OK) (hid : IdsNodup cfg)
    (hreg : Registered cfg 0) {a b : Nat} (hc : CutOK cfg.grid (cfg.cut a b)) {links : List Link}
    (hl : LinkSetOK cfg.grid links) :
    ((cellPairs cfg links a b).map Pair.canon).Perm ((brute cfg a b).map Pair.canon) := by
  have e0 : cfg.cut a b - 2 * 0 = cfg.cut a b := by grind
  refine (List.perm_ext_iff_of_nodup (nodup_map_canon (cellPairs_pairwise hg hid hc hl))
    (nodup_map_canon (bruteRc_pairwise hid _ a b))).2 (fun x => ⟨?_, ?_⟩)
  · intro hx
    obtain ⟨e, he, rfl⟩ := List.mem_map.1 hx
    obtain ⟨p, q, hb, rfl, _⟩ := cellPairs_sound hg hid hc hl.valid he
    rcases bruteRc_complete hg hb with h | ⟨_, h⟩
    · exact List.mem_map.2 ⟨_, h, rfl⟩
    · exact List.mem_map.2 ⟨_, h, canon_mkPair_swap hg hc hb.2.2.1 hb.2.2.2.2.2.2⟩
  · intro hx
    obtain ⟨e, he, rfl⟩ := List.mem_map.1 hx
    obtain ⟨p, q, hb, rfl⟩ := bruteRc_sound hid he
    obtain ⟨e', he', hs⟩ := cellPairs_complete hg (Rat.le_refl) hreg hc hl
      (by rw [e0]; exact hc.1) (p := p) (q := q) (by rw [e0]; exact hb)
    obtain ⟨p', q', hb', rfl, _⟩ := cellPairs_sound hg hid hc hl.valid he'
    refine List.mem_map.2 ⟨_, he', ?_⟩
    unfold Pair.same at hs
    simp only [mkPair] at hs
    rcases hs with ⟨e1, e2⟩ | ⟨e1, e2⟩
    · rw [hid.eq_of_id hb'.1 hb.1 e1, hid.eq_of_id hb'.2.1 hb.2.1 e2]
    · rw [hid.eq_of_id hb'.1 hb.2.1 e1, hid.eq_of_id hb'.2.1 hb.1 e2]
      exact canon_mkPair_swap hg hc hb.2.2.1 hb.2.2.2.2.2.2

/-! ### The canonical link set satisfies `LinkSetOK` -/

theorem mem_cells {g : Grid} {c : V3 Int} : c ∈ g.cells ↔ g.InGrid c := by
  unfold Grid.cells Grid.InGrid Axis.InRange
  simp only [List.mem_flatMap, List.mem_map, List.mem_range]
  constructor
  · rintro ⟨k, hk, j, hj, i, hi, rfl⟩
    simp only
    omega
  · rintro ⟨⟨x0, x1⟩, ⟨y0, y1⟩, ⟨z0, z1⟩⟩
    refine ⟨c.z.toNat, by omega, c.y.toNat, by omega, c.x.toNat, by omega, ?_⟩
    cases c
    simp only [V3.mk.injEq] at *
    omega

theorem cells_nodup (g : Grid) : g.cells.Nodup := by
  unfold Grid.cells
  rw [List.nodup_iff_pairwise_ne, List.pairwise_flatMap]
  refine ⟨fun k _ => ?_, ?_⟩
  · rw [List.pairwise_flatMap]
    refine ⟨fun j _ => ?_, ?_⟩
    · rw [List.pairwise_map]
      exact (List.nodup_iff_pairwise_ne.1 List.nodup_range).imp (by
        intro i i' h e; injection e with e; exact h (by omega))
    · exact (List.nodup_iff_pairwise_ne.1 List.nodup_range).imp (by
        intro j j' h x hx y hy e
        obtain ⟨i, _, rfl⟩ := List.mem_map.1 hx
        obtain ⟨i', _, rfl⟩ := List.mem_map.1 hy
        injection e with _ e; exact h (by omega))
  · exact (List.nodup_iff_pairwise_ne.1 List.nodup_range).imp (by
      intro k k' h x hx y hy e
      obtain ⟨j, _, hx⟩ := List.mem_flatMap.1 hx
      obtain ⟨i, _, rfl⟩ := List.mem_map.1 hx
      obtain ⟨j', _, hy⟩ := List.mem_flatMap.1 hy
      obtain ⟨i', _, rfl⟩ := List.mem_map.1 hy
      injection e with _ _ e; exact h (by omega))

theorem halfOffsets_isOff : ∀ o, o ∈ halfOffsets → IsOff o := by decide

theorem halfOffsets_nodup : halfOffsets.Nodup := by decide

theorem halfOffsets_neg : ∀ o, o ∈ halfOffsets → vneg o ∈ halfOffsets → o = ⟨0, 0, 0⟩ := by decide

theorem halfOffsets_cover {o : V3 Int} (h : IsOff o) : o ∈ halfOffsets ∨ vneg o ∈ halfOffsets := by
  obtain ⟨hx, hy, hz⟩ := h
  cases o with | mk x y z =>
  simp only at hx hy hz
  rcases hx with rfl | rfl | rfl <;> rcases hy with rfl | rfl | rfl <;>
    rcases hz with rfl | rfl | rfl <;> decide

theorem mem_allLinks {g : Grid} {l : Link} :
    l ∈ g.allLinks ↔ g.InGrid l.first ∧ l.o ∈ halfOffsets ∧ g.nb l.first l.o = some l.second := by
  unfold Grid.allLinks
  simp only [List.mem_flatMap, List.mem_filterMap, Option.map_eq_some_iff, mem_cells]
  constructor
  · rintro ⟨c, hc, o, ho, c', hnb, rfl⟩
    exact ⟨hc, ho, hnb⟩
  · rintro ⟨hc, ho, hnb⟩
    exact ⟨l.first, hc, l.o, ho, l.second, hnb, rfl⟩

theorem allLinks_nodup (g : Grid) : g.allLinks.Nodup := by
  unfold Grid.allLinks
  rw [List.nodup_iff_pairwise_ne, List.pairwise_flatMap]
  refine ⟨fun c _ => ?_, ?_⟩
  · rw [List.pairwise_filterMap]
    refine (List.nodup_iff_pairwise_ne.1 halfOffsets_nodup).imp ?_
    intro o o' hne l hl l' hl' e
    obtain ⟨c1, _, rfl⟩ := Option.map_eq_some_iff.1 hl
    obtain ⟨c2, _, rfl⟩ := Option.map_eq_some_iff.1 hl'
    injection e with _ _ e
    exact hne e
  · refine (List.nodup_iff_pairwise_ne.1 (cells_nodup g)).imp ?_
    intro c c' hne l hl l' hl' e
    obtain ⟨o, _, hl⟩ := List.mem_filterMap.1 hl
    obtain ⟨o', _, hl'⟩ := List.mem_filterMap.1 hl'
    obtain ⟨c1, _, rfl⟩ := Option.map_eq_some_iff.1 hl
    obtain ⟨c2, _, rfl⟩ := Option.map_eq_some_iff.1 hl'
    injection e with e _ _
    exact hne e

/-- Non-vacuity of `LinkSetOK`: for every grid with `n ≥ 2` cells per direction (any
periodicity) the canonical link set is complete and duplicate-free. -/
theorem allLinks_ok {g : Grid} (hg : g.OK) : LinkSetOK g g.allLinks := by
  have hvalid : ∀ l, l ∈ g.allLinks → l.Valid g := by
    intro l hl
    obtain ⟨h1, h2, h3⟩ := mem_allLinks.1 hl
    exact ⟨h1, halfOffsets_isOff _ h2, h3⟩
  refine ⟨hvalid, ?_, ?_⟩
  · intro c o c' hc ho hnb
    rcases halfOffsets_cover ho with h | h
    · exact Or.inl (mem_allLinks.2 ⟨hc, h, hnb⟩)
    · have hv : (⟨c, c', o⟩ : Link).Valid g := ⟨hc, ho, hnb⟩
      have := hv.flip hg
      exact Or.inr (mem_allLinks.2 ⟨this.1, h, this.2.2⟩)
  · have hnd := List.nodup_iff_pairwise_ne.1 (allLinks_nodup g)
    refine hnd.imp_of_mem ?_
    intro l1 l2 h1 h2 hne
    refine ⟨hne, fun e => hne ?_⟩
    obtain ⟨_, o1, _⟩ := mem_allLinks.1 h1
    obtain ⟨_, o2, _⟩ := mem_allLinks.1 h2
    have ho : l2.o = ⟨0, 0, 0⟩ := by
      apply halfOffsets_neg _ o2
      have : l1.o = vneg l2.o := by rw [e]; rfl
      rw [← this]; exact o1
    have hloc := ((hvalid l2 h2).local_iff hg).2 ho
    rw [e]
    cases l2 with | mk f s o =>
    simp only at ho hloc
    subst ho; subst hloc
    simp [Link.flip, vneg]

/-! ### Connecting `Registered 0` with `findCell`, minimality of `sepV` -/

/-- A point of the box lies in the cell `findCell` computes, and that cell exists. -/
theorem contains_cellIdx {a : Axis} (hw : 0 < a.w) {x : Rat} (h0 : 0 ≤ x) (h1 : x < a.L) :
    a.Contains 0 (a.cellIdx x) x := by
  obtain ⟨s1, s2⟩ := cellIdx_spec hw x
  refine ⟨⟨?_, ?_⟩, by grind, by grind⟩
  · have : (-1 : Int) < a.cellIdx x := int_lt_of_mul_lt hw (by
      simp only [Axis.corner, Rat.intCast_add] at s2
      have c1 : ((1 : Int) : Rat) = 1 := rfl
      have c2 : ((-1 : Int) : Rat) = -1 := rfl
      rw [c1] at s2; rw [c2]; grind)
    omega
  · exact int_lt_of_mul_lt hw (by
      simp only [Axis.corner, Axis.L] at s1 h1
      rw [Rat.intCast_natCast]; grind)

/-- If every particle is in the box and registered in the cell `findCell` computes for it, the
configuration satisfies `Registered cfg 0`. -/
theorem registered_of_cellOf {cfg : Config} (hg : cfg.grid.OK)
    (h : ∀ p, p ∈ cfg.parts → p.cell = cfg.grid.cellOf p.r ∧
      (0 ≤ p.r.x ∧ p.r.x < cfg.grid.x.L) ∧ (0 ≤ p.r.y ∧ p.r.y < cfg.grid.y.L) ∧
      (0 ≤ p.r.z ∧ p.r.z < cfg.grid.z.L)) : Registered cfg 0 := by
  intro p hp
  obtain ⟨hc, hx, hy, hz⟩ := h p hp
  rw [hc]
  exact ⟨contains_cellIdx hg.1.1 hx.1 hx.2, contains_cellIdx hg.2.1.1 hy.1 hy.2,
    contains_cellIdx hg.2.2.1 hz.1 hz.2⟩

/-- … and conversely `Registered cfg 0` pins the registered cell to `findCell`'s. -/
theorem Registered.cell_eq {cfg : Config} (hg : cfg.grid.OK) (h : Registered cfg 0) {p : Particle}
    (hp : p ∈ cfg.parts) : p.cell = cfg.grid.cellOf p.r := by
  obtain ⟨hx, hy, hz⟩ := h p hp
  cases hc : p.cell with | mk i j k =>
  rw [hc] at hx hy hz
  simp only [Grid.cellOf, Contains.cellIdx_eq hg.1.1 hx, Contains.cellIdx_eq hg.2.1.1 hy,
    Contains.cellIdx_eq hg.2.2.1 hz]

theorem sep_minimal {a : Axis} (h : a.OK) (x y : Rat) (k : Int) (hk : a.per = false → k = 0) :
    a.sep x y * a.sep x y ≤ (x - y - (k : Rat) * a.L) * (x - y - (k : Rat) * a.L) := by
  unfold Axis.sep
  split
  · exact mi_minimal h.L_facts.1 _ k
  · rename_i hp
    rw [hk (by simpa using hp)]
    have c : ((0 : Int) : Rat) = 0 := rfl
    rw [c]
    have e : x - y - 0 * a.L = x - y := by grind
    rw [e]
    exact Rat.le_refl

/-- `sepV` is the shortest image: no vector `r1 - r2 - (k_x L_x, k_y L_y, k_z L_z)` (`k` integer,
zero in non-periodic directions) is shorter. -/
theorem sepV_minimal {g : Grid} (hg : g.OK) (r1 r2 : V3 Rat) (k : V3 Int)
    (hx : g.x.per = false → k.x = 0) (hy : g.y.per = false → k.y = 0)
    (hz : g.z.per = false → k.z = 0) :
    normSq (g.sepV r1 r2) ≤ normSq ⟨r1.x - r2.x - (k.x : Rat) * g.x.L,
      r1.y - r2.y - (k.y : Rat) * g.y.L, r1.z - r2.z - (k.z : Rat) * g.z.L⟩ := by
  have ax := sep_minimal hg.1 r1.x r2.x k.x hx
  have ay := sep_minimal hg.2.1 r1.y r2.y k.y hy
  have az := sep_minimal hg.2.2 r1.z r2.z k.z hz
  simp only [normSq, Grid.sepV]
  grind

/-! ### Connecting per-cell particle lists of a cell model -/

/-- Refinement helper for a cell model that keeps one list per (cell, colour, frozen?) key: if the
particle list of the configuration is the concatenation of these lists (any order of keys, any
order within a list) and every particle carries the attributes of the key of its list, then
`cellParts` returns exactly the model's list.  So the freedom in the orders of the C++ lists is
covered by the freedom in the order of `cfg.parts`. -/
theorem cellParts_of_lists {cfg : Config} {ks : List (V3 Int × Nat × Bool)}
    {lists : V3 Int × Nat × Bool → List Particle} (hparts : cfg.parts = ks.flatMap lists)
    (hnd : ks.Nodup)
    (hattr : ∀ k, k ∈ ks → ∀ p, p ∈ lists k → (p.cell, p.colour, p.frozen) = k) :
    ∀ k, cfg.cellParts k.1 k.2.1 k.2.2 = if k ∈ ks then lists k else [] := by
  intro k
  unfold Config.cellParts
  rw [hparts]
  clear hparts
  induction ks with
  | nil => simp
  | cons k0 ks ih =>
    rw [List.nodup_cons] at hnd
    have ih' := ih hnd.2 (fun k hk => hattr k (List.mem_cons_of_mem _ hk))
    simp only [List.flatMap_cons, List.filter_append, ih']
    by_cases h0 : k = k0
    · subst h0
      simp only [List.mem_cons, true_or, if_true, if_neg hnd.1, List.append_nil]
      rw [List.filter_eq_self]
      intro p hp
      have := hattr k (List.mem_cons_self) p hp
      rw [← this]; simp
    · have hf : (lists k0).filter (fun p => p.cell = k.1 && p.colour = k.2.1 && p.frozen = k.2.2) = [] := by
        rw [List.filter_eq_nil_iff]
        intro p hp
        have := hattr k0 (List.mem_cons_self) p hp
        intro hc
        apply h0
        rw [← this]
        simp only [Bool.and_eq_true, decide_eq_true_eq] at hc
        obtain ⟨⟨c1, c2⟩, c3⟩ := hc
        rw [c1, c2, c3]
      rw [hf, List.nil_append]
      have : (k ∈ k0 :: ks) ↔ k ∈ ks := by simp [h0]
      simp only [this]

end Sympler.Geom
