import Sympler.DataFormatSteps
/-!
# `step` keeps the invariant (C14)

Case analysis of `step` on top of the building blocks of `DataFormatSteps.lean`.  Core Lean only.
-/
namespace Sympler.DataFormat

local notation "Addr" => Nat

theorem mem_filterMap_spAddr {vs : List Val} {a : Addr} : a ∈ vs.filterMap Val.spAddr ↔ owns vs a := by
  rw [List.mem_filterMap]
  constructor
  · rintro ⟨v, hv, hs⟩
    obtain ⟨k, hk⟩ := List.mem_iff_getElem?.1 hv
    cases v <;> simp [Val.spAddr] at hs
    subst hs
    exact ⟨k, hk⟩
  · rintro ⟨k, hk⟩
    exact ⟨_, List.mem_of_getElem? hk, rfl⟩

theorem HeapOk.sameDatas {s : State} (hs : HeapOk s) (fmts' : List Format) :
    HeapOk ⟨fmts', s.datas, s.heap, s.leaked⟩ :=
  hs.congr fmts' s.datas (fun _ _ _ => Iff.rfl)

/-- replacing one format by an extension of itself -/
theorem Inv.setFmt {al : Option Nat} {s : State} (hs : Inv al s) {fid : Nat} {f f' : Format}
    (hf : s.fmts[fid]? = some f) (hok : FormatOk al f') (hext : f.extendedBy f') :
    Inv al (s.setFmt fid f') := by
  refine ⟨?_, ?_, hs.heap.sameDatas _⟩
  · intro k x hx
    show FormatOk al x
    have hx' : (s.fmts.set fid f')[k]? = some x := hx
    rw [List.getElem?_set] at hx'
    split at hx'
    · split at hx'
      · injection hx' with hx'; subst hx'; exact hok
      · cases hx'
    · exact hs.fmts k x hx'
  · intro d dat hd
    exact (hs.datas d dat hd).mono_fmts (fun f0 hf0 => by rw [hf] at hf0; cases hf0; exact hext)

theorem Inv.appendFmt {al : Option Nat} {s : State} (hs : Inv al s) {f' : Format} (hok : FormatOk al f') :
    Inv al { s with fmts := s.fmts ++ [f'] } := by
  refine ⟨?_, ?_, hs.heap.sameDatas _⟩
  · intro k x hx
    have hx' : (s.fmts ++ [f'])[k]? = some x := hx
    rw [List.getElem?_append] at hx'
    split at hx'
    · exact hs.fmts k x hx'
    · have : k - s.fmts.length = 0 := by
        by_cases h0 : k - s.fmts.length = 0
        · exact h0
        · rw [List.getElem?_eq_none (by simp; omega)] at hx'; cases hx'
      rw [this] at hx'; simp at hx'; subst hx'; exact hok
  · intro d dat hd
    exact (hs.datas d dat hd).mono_append

/-- a new record without block -/
theorem Inv.appendNoBlock {al : Option Nat} {s : State} (hs : Inv al s) {fm : Option Nat}
    (hfm : ∀ fid, fm = some fid → ∃ f, s.fmts[fid]? = some f) :
    Inv al { s with datas := s.datas ++ [some ⟨fm, none⟩] } := by
  have ho := OnlyAt.append s.datas (some ⟨fm, none⟩)
  refine ⟨hs.fmts, ?_, ?_⟩
  · apply datasOk_onlyAt hs ho
    intro dat hdat
    injection hdat with hdat; subst hdat
    exact dataOk_noblock hfm
  · apply hs.heap.congr
    intro x k a
    by_cases hx : x = s.datas.length
    · subst hx
      rw [ho.valsOf_self_noblock, valsOf_none (Or.inr (List.getElem?_eq_none (Nat.le_refl _)))]
    · rw [ho.valsOf_other x hx]

theorem valsOf_length_nil (s : State) : valsOf s.datas s.datas.length = [] :=
  valsOf_none (Or.inr (List.getElem?_eq_none (Nat.le_refl _)))

theorem allocSp_ok {f : Format} {h : Heap} {r : Option Block × Heap} (ha : f.allocSp h = .ok r) :
    f.alloc h true = r := by
  unfold Format.allocSp at ha
  split at ha
  · cases ha
  · injection ha

/-! ## The operations -/

theorem Inv.step_new {al : Option Nat} {s : State} (hs : Inv al s) {f : Nat}
    {x : Format} (hx : s.fmts[f]? = some x) {b : Option Block} {h : Heap}
    (ha : x.allocSp s.heap = .ok (b, h)) :
    Inv al { s with datas := s.datas ++ [some ⟨some f, b⟩], heap := h } :=
  hs.allocInto (OnlyAt.append s.datas _) (valsOf_length_nil s) hx (allocSp_ok ha)

theorem Inv.step_copy {al : Option Nat} {s s' : State} {e id : Nat} (hs : Inv al s)
    (h : copyData s e = .ok (s', id)) : Inv al s' := by
  unfold copyData at h
  split at h
  · cases h
  · rename_i src hsrc
    have hsrc' := getData_ok.1 hsrc
    split at h
    · -- no format
      simp only [Except.ok.injEq, Prod.mk.injEq] at h
      rw [← h.1]
      exact hs.appendNoBlock (fun fid hfid => by cases hfid)
    · rename_i fid hfid
      split at h
      · cases h
      · rename_i f hf
        have hf' := getFmt_ok.1 hf
        split at h
        · simp only [Except.ok.injEq, Prod.mk.injEq] at h
          rw [← h.1]
          exact hs.appendNoBlock (fun fid' hfid' => by injection hfid' with e'; subst e'; exact ⟨f, hf'⟩)
        · split at h
          · cases h
          · rename_i b hb
            split at h
            · cases h
            · rename_i hfull
              split at h
              · cases h
              · split at h
                · cases h
                · split at h
                  · cases h
                  · rename_i vals h' hc
                    simp only [Except.ok.injEq, Prod.mk.injEq] at h
                    rw [← h.1]
                    have := hs.deepCopyInto (L := []) (OnlyAt.append s.datas _) hsrc' hfid hb hf' hfull
                      (fun a => by rw [valsOf_length_nil]; simp [owns_nil]) hc
                    simpa using this

/-- `if (m_format) m_format->release(m_data)` -/
theorem releaseIfFmt_spec {al : Option Nat} {s : State} (hs : Inv al s) {d : Nat} {dat : Data} {h : Heap}
    (hd : s.datas[d]? = some (some dat)) (hr : releaseIfFmt s dat = .ok h) :
    h.length = s.heap.length ∧ (∀ a, owns (valsOf s.datas d) a → h[a]? = some none) ∧
      (∀ a, ¬ owns (valsOf s.datas d) a → h[a]? = s.heap[a]?) := by
  unfold releaseIfFmt at hr
  split at hr
  · rename_i hnone
    injection hr with hr; subst hr
    have hdo := hs.datas d dat hd
    unfold DataOk at hdo
    simp only [hnone] at hdo
    have : valsOf s.datas d = [] := by rw [valsOf_eq hd, hdo]
    rw [this]
    exact ⟨rfl, fun a ha => absurd ha (owns_nil a), fun _ _ => rfl⟩
  · rename_i fid hfid
    split at hr
    · cases hr
    · rename_i f hf
      exact format_release_spec hs hd hfid (getFmt_ok.1 hf) hr

/-- the state in which record `d` has given up block and format -/
theorem Inv.dropped {al : Option Nat} {s : State} (hs : Inv al s) {d : Nat} {dat : Data} {h : Heap}
    (hd : s.datas[d]? = some (some dat))
    (hlen : h.length = s.heap.length) (hfreed : ∀ a, owns (valsOf s.datas d) a → h[a]? = some none)
    (hkept : ∀ a, ¬ owns (valsOf s.datas d) a → h[a]? = s.heap[a]?) :
    Inv al ⟨s.fmts, s.datas.set d (some ⟨none, none⟩), h, s.leaked⟩ :=
  hs.afterRelease (OnlyAt.set (lt_of_getElem?_some hd) _)
    (Or.inr ⟨none, rfl, fun fid hfid => by cases hfid⟩) hlen hfreed hkept

theorem onlyAt_set_set {datas : List (Option Data)} {d : Nat} (hd : d < datas.length) (y x : Option Data) :
    OnlyAt (datas.set d y) (datas.set d x) d x := by
  refine ⟨fun i hi => ?_, List.getElem?_set_self hd⟩
  rw [List.getElem?_set_ne (Ne.symm hi), List.getElem?_set_ne (Ne.symm hi)]

theorem Inv.step_assign {al : Option Nat} {s s' : State} {d e : Nat} (hs : Inv al s)
    (h : assignData s d e = .ok s') : Inv al s' := by
  unfold assignData at h
  split at h
  · cases h
  · rename_i dst hdst
    have hdst' := getData_ok.1 hdst
    have hdlt : d < s.datas.length := lt_of_getElem?_some hdst'
    split at h
    · cases h
    · rename_i src hsrc
      have hsrc' := getData_ok.1 hsrc
      split at h
      · -- different formats
        rename_i hne
        split at h
        · cases h
        · rename_i h1 hrel
          have hrel' : releaseIfFmt s dst = .ok h1 := by
            unfold releaseIfFmt
            exact hrel
          obtain ⟨r1, r2, r3⟩ := releaseIfFmt_spec hs hdst' hrel'
          have hs1 := hs.dropped hdst' r1 r2 r3
          have hed : e ≠ d := by
            intro hed; subst hed
            rw [hdst'] at hsrc'; injection hsrc' with hsrc'; injection hsrc' with hsrc'
            subst hsrc'; exact hne rfl
          split at h
          · injection h with h; rw [← h]; exact hs1
          · rename_i fid hfid
            split at h
            · cases h
            · rename_i f hf
              split at h
              · cases h
              · split at h
                · cases h
                · rename_i b hb
                  split at h
                  · cases h
                  · rename_i hfull
                    split at h
                    · cases h
                    · split at h
                      · cases h
                      · split at h
                        · cases h
                        · rename_i vals h' hc
                          injection h with h; rw [← h]
                          have hsrc1 : (s.datas.set d (some ⟨none, none⟩))[e]? = some (some src) := by
                            rw [List.getElem?_set_ne (Ne.symm hed)]; exact hsrc'
                          have := hs1.deepCopyInto (L := []) (e := e) (d := d)
                            (onlyAt_set_set hdlt _ (some ⟨some fid, some ⟨f.size, vals⟩⟩))
                            hsrc1 hfid hb (getFmt_ok.1 hf) hfull
                            (fun a => by
                              show a ∈ [] ↔ owns (valsOf (s.datas.set d (some ⟨none, none⟩)) d) a
                              rw [(OnlyAt.set hdlt _).valsOf_self_noblock]; simp [owns_nil])
                            hc
                          simpa [State.setData] using this
      · -- same format
        rename_i heq
        split at h
        · injection h with h; rw [← h]; exact hs
        · rename_i fid hfid
          split at h
          · cases h
          · rename_i f hf
            have hf' := getFmt_ok.1 hf
            have hfo := hs.fmts fid f hf'
            split at h
            · rename_i db b hdb hb
              split at h
              · cases h
              · rename_i hnst
                split at h
                · cases h
                · split at h
                  · cases h
                  · split at h
                    · cases h
                    · rename_i vals h' hc
                      injection h with h; rw [← h]
                      have hst : ¬ db.size < f.size ∧ ¬ b.size < f.size := by
                        simp only [Bool.or_eq_true, decide_eq_true_eq, not_or] at hnst
                        exact hnst
                      -- the block of the destination has the size of the format
                      have hdfmt : dst.fmt = some fid := by
                        have : dst.fmt = src.fmt := Decidable.not_not.1 heq
                        rw [this]; exact hfid
                      have hdo := hs.datas d dst hdst'
                      unfold DataOk at hdo
                      simp only [hdfmt] at hdo
                      obtain ⟨f0, hf0, hb0⟩ := hdo
                      rw [hf'] at hf0; cases hf0
                      have hdbo := hb0 db hdb
                      have hsz : db.size = f.size := by
                        have := hdbo.size_le hfo; omega
                      have hv : valsOf s.datas d = db.vals := valsOf_of_block hdst' hdb
                      have := hs.deepCopyInto (L := db.vals.filterMap Val.spAddr) (e := e) (d := d)
                        (OnlyAt.set hdlt (some ⟨some fid, some ⟨f.size, vals⟩⟩))
                        hsrc' hfid hb hf' hst.2
                        (fun a => by rw [hv]; exact mem_filterMap_spAddr)
                        hc
                      rw [hsz]
                      exact this
            · cases h

theorem Inv.step_del {al : Option Nat} {s : State} {d : Nat} {dat : Data} {h : Heap} (hs : Inv al s)
    (hd : s.datas[d]? = some (some dat)) (hr : releaseIfFmt s dat = .ok h) :
    Inv al ({ s with heap := h }.setData d none) := by
  obtain ⟨r1, r2, r3⟩ := releaseIfFmt_spec hs hd hr
  exact hs.afterRelease (OnlyAt.set (lt_of_getElem?_some hd) none) (Or.inl rfl) r1 r2 r3

theorem Inv.step_realloc {al : Option Nat} {s : State} {d fid : Nat} {dat : Data} {h h' : Heap} {x : Format}
    {b : Option Block} (hs : Inv al s) (hd : s.datas[d]? = some (some dat))
    (hlen : h.length = s.heap.length) (hfreed : ∀ a, owns (valsOf s.datas d) a → h[a]? = some none)
    (hkept : ∀ a, ¬ owns (valsOf s.datas d) a → h[a]? = s.heap[a]?)
    (hx : s.fmts[fid]? = some x) (ha : x.allocSp h = .ok (b, h')) :
    Inv al ({ s with heap := h' }.setData d (some ⟨some fid, b⟩)) := by
  have hdlt : d < s.datas.length := lt_of_getElem?_some hd
  have hs1 := hs.dropped hd hlen hfreed hkept
  have := hs1.allocInto (d := d) (onlyAt_set_set hdlt _ (some ⟨some fid, b⟩))
    (by show valsOf (s.datas.set d (some ⟨none, none⟩)) d = []
        exact (OnlyAt.set hdlt _).valsOf_self_noblock)
    hx (allocSp_ok ha)
  exact this

theorem Inv.step_dadd {al : Option Nat} {s s' : State} {d : Nat} {name symbol : String} {t : DType} {pers : Bool}
    {a : Attr} (hs : Inv al s) (h : dataAddAttribute al s d name t pers symbol = .ok (s', a)) : Inv al s' := by
  unfold dataAddAttribute at h
  split at h
  · cases h
  · rename_i dat hdat
    have hd := getData_ok.1 hdat
    have hdlt : d < s.datas.length := lt_of_getElem?_some hd
    split at h
    · cases h
    · rename_i fid f hfo
      obtain ⟨hfid, hf⟩ := fmtOf_ok hfo
      have hfok := hs.fmts fid f hf
      split at h
      · cases h
      · rename_i attr f' hadd
        have hf'ok := hfok.addAttribute hadd
        have hext := Format.extendedBy_addAttribute hadd
        split at h
        · simp only [Except.ok.injEq, Prod.mk.injEq] at h
          rw [← h.1]
          exact hs.setFmt hf hf'ok hext
        · rename_i hsize
          split at h
          · cases h
          · rename_i b hb
            split at h
            · cases h
            · rename_i hfull
              split at h
              · cases h
              · simp only [Except.ok.injEq, Prod.mk.injEq] at h
                rw [← h.1]
                -- the attribute is new
                have hnew : a = ⟨name, f.byIndex.length, f.size, t, pers, if symbol == "" then name else symbol⟩ ∧
                    f' = ⟨f.byIndex ++ [attr], f.byName ++ [attr], f.size + csize al t⟩ ∧
                    attr = ⟨name, f.byIndex.length, f.size, t, pers, if symbol == "" then name else symbol⟩ := by
                  rcases Format.addAttribute_ok_cases hadd with ⟨_, h1, h2⟩ | ⟨_, _, hf'⟩
                  · exact ⟨by rw [← h.2, h1], h2, h1⟩
                  · exact absurd (by rw [hf']) hsize
                obtain ⟨_, hf', hattr⟩ := hnew
                have hty : attr.dtype = t := by rw [hattr]
                have hdo := hs.datas d dat hd
                unfold DataOk at hdo
                simp only [hfid] at hdo
                obtain ⟨f0, hf0, hb0⟩ := hdo
                rw [hf] at hf0; cases hf0
                have hbo := hb0 b hb
                have hlenb := hbo.full_of_not_lt hfok hfull
                have hv : valsOf s.datas d = b.vals := valsOf_of_block hd hb
                have hbyIndex : f'.byIndex = f.byIndex ++ [attr] := by rw [hf']
                -- the new block is well formed for the new format
                have hblock : ∀ v : Val, v.hasType t = true → BlockOk al f' ⟨f'.size, b.vals ++ [v]⟩ := by
                  intro v hvt
                  apply blockOk_full hf'ok
                  · rw [hbyIndex]; simp [hlenb]
                  · intro k v' a' hk ha'
                    rw [hbyIndex] at ha'
                    by_cases hkl : k < b.vals.length
                    · rw [List.getElem?_append_left hkl] at hk
                      rw [List.getElem?_append_left (by rw [← hlenb]; exact hkl)] at ha'
                      exact hbo.typed k v' a' hk ha'
                    · have hk' := lt_of_getElem?_some hk
                      simp at hk'
                      have hke : k = b.vals.length := by omega
                      subst hke
                      simp at hk
                      rw [hlenb] at ha'; simp at ha'
                      subst hk ha'
                      rw [hty]; exact hvt
                have hfmts : ∀ (k : Nat) (x : Format), (s.fmts.set fid f')[k]? = some x → FormatOk al x := by
                  intro k x hx
                  rw [List.getElem?_set] at hx
                  split at hx
                  · split at hx
                    · injection hx with hx; subst hx; exact hf'ok
                    · cases hx
                  · exact hs.fmts k x hx
                have hdatas : ∀ (v : Val), v.hasType t = true → ∀ (i : Nat) (dat' : Data),
                    (s.datas.set d (some ⟨some fid, some ⟨f'.size, b.vals ++ [v]⟩⟩))[i]? = some (some dat') →
                    DataOk al (s.fmts.set fid f') dat' := by
                  intro v hvt i dat' hi
                  rcases (OnlyAt.set hdlt _).cases hi with ⟨_, hx⟩ | hold
                  · injection hx with hx; subst hx
                    exact ⟨f', List.getElem?_set_self (lt_of_getElem?_some hf), fun b' hb' => by
                      injection hb' with hb'; subst hb'; exact hblock v hvt⟩
                  · exact (hs.datas i dat' hold).mono_fmts (fun f0 hf0 => by rw [hf] at hf0; cases hf0; exact hext)
                by_cases hc : t.isContainer = true
                · simp only [hc, if_true, Heap.allocCell]
                  show Inv al ⟨s.fmts.set fid f', s.datas.set d (some ⟨some fid, some ⟨f'.size,
                    b.vals ++ [Val.sp (some s.heap.length)]⟩⟩), s.heap ++ [some ⟨[], 1⟩], s.leaked⟩
                  have hvt : (Val.sp (some s.heap.length)).hasType t = true := by simp [Val.hasType, hc]
                  refine ⟨hfmts, hdatas _ hvt, ?_⟩
                  have ho := OnlyAt.set hdlt (some (⟨some fid, some ⟨f'.size, b.vals ++ [Val.sp (some s.heap.length)]⟩⟩ : Data))
                  exact hs.heap.appendedSp d _ _ ho.valsOf_other (by rw [ho.valsOf_self_block, hv])
                · have hc' : t.isContainer = false := by simpa using hc
                  simp only [hc', Bool.false_eq_true, if_false]
                  show Inv al ⟨s.fmts.set fid f', s.datas.set d (some ⟨some fid, some ⟨f'.size,
                    b.vals ++ [zeroVal t]⟩⟩), s.heap, s.leaked⟩
                  refine ⟨hfmts, hdatas _ (zeroVal_hasType t), ?_⟩
                  have ho := OnlyAt.set hdlt (some (⟨some fid, some ⟨f'.size, b.vals ++ [zeroVal t]⟩⟩ : Data))
                  apply hs.heap.congr
                  intro x k a'
                  by_cases hx : x = d
                  · subst hx
                    show (valsOf (s.datas.set x _) x)[k]? = _ ↔ _
                    rw [ho.valsOf_self_block, hv]
                    by_cases hkl : k < b.vals.length
                    · rw [List.getElem?_append_left hkl]
                    · constructor
                      · intro hk
                        have hk' := lt_of_getElem?_some hk
                        simp at hk'
                        have hke : k = b.vals.length := by omega
                        subst hke
                        simp at hk
                        exact absurd hk (zeroVal_not_owns t a')
                      · intro hk
                        exact absurd (lt_of_getElem?_some hk) hkl
                  · show (valsOf (s.datas.set d _) x)[k]? = _ ↔ _
                    rw [ho.valsOf_other x hx]

theorem Inv.step_clear {al : Option Nat} {s s' : State} {all : Bool} {d : Nat} (hs : Inv al s)
    (h : clearData all s d = .ok s') : Inv al s' := by
  unfold clearData at h
  split at h
  · cases h
  · rename_i dat hdat
    have hd := getData_ok.1 hdat
    split at h
    · cases h
    · rename_i fid x hfo
      obtain ⟨hfid, hf⟩ := fmtOf_ok hfo
      split at h
      · split at h
        · cases h
        · injection h with h; rw [← h]; exact hs
      · rename_i b hb
        split at h
        · cases h
        · split at h
          · cases h
          · rename_i vs h' hc
            injection h with h; rw [← h]
            exact (hs.clearInto hd hfid hb hf hc).1

theorem Inv.step_protect {al : Option Nat} {s s' : State} {p : Bool} {d i : Nat} (hs : Inv al s)
    (h : protectData p s d i = .ok s') : Inv al s' := by
  unfold protectData at h
  split at h
  · cases h
  · rename_i l hl
    obtain ⟨_, _, hf, _⟩ := attrAt_ok hl
    injection h with h; rw [← h]
    exact hs.setFmt hf ((hs.fmts _ _ hf).setPersistent i p) (Format.extendedBy_setPersistent _ i p)

theorem Inv.step_writeVal {al : Option Nat} {s s' : State} {d i : Nat} {l : AttrAt} {v : Val} (hs : Inv al s)
    (hl : s.attrAt d i = .ok l) (hv : v.hasType l.attr.dtype = true) (hnc : l.attr.dtype.isContainer = false)
    (h : writeVal s l d i v = .ok s') : Inv al s' := by
  obtain ⟨hd, hfid, hf, hatt⟩ := attrAt_ok hl
  unfold writeVal at h
  split at h
  · cases h
  · rename_i b old hslot
    obtain ⟨hb, _, _⟩ := slot_ok hslot
    split at h
    · cases h
    · injection h with h; rw [← h]
      exact hs.wrote hd hfid hb hf hatt hv hnc

theorem fromText_hasType {nc : NumCodec} {t : DType} {value : List Char} {v : Val}
    (h : fromText nc t value = .ok v) : v.hasType t = true ∧ t.isContainer = false := by
  cases t <;> simp [fromText] at h <;> subst h <;> exact ⟨rfl, by decide⟩

theorem Inv.step_push {al : Option Nat} {s s' : State} {d i : Nat} {e : Elem} (hs : Inv al s)
    (h : pushData s d i e = .ok s') : Inv al s' := by
  unfold pushData at h
  split at h
  · cases h
  · split at h
    · cases h
    · split at h
      · cases h
      · split at h
        · cases h
        · split at h
          · cases h
          · rename_i a c hc
            injection h with h; rw [← h]
            exact ⟨hs.fmts, hs.datas, hs.heap.setCell (Heap.get_eq_some.1 hc) rfl⟩

/-- every operation keeps the invariant -/
theorem Inv.step {al : Option Nat} {nc : NumCodec} {s s' : State} {op : Op} {o : Out} (hs : Inv al s)
    (h : step al nc s op = .ok (s', o)) : Inv al s' := by
  cases op with
  | fmt =>
    simp only [DataFormat.step, Except.ok.injEq, Prod.mk.injEq] at h
    rw [← h.1]; exact hs.appendFmt (FormatOk.empty al)
  | fmtcopy f =>
    simp only [DataFormat.step] at h
    split at h
    · cases h
    · rename_i x hx
      simp only [Except.ok.injEq, Prod.mk.injEq] at h
      rw [← h.1]; exact hs.appendFmt (hs.fmts f x (getFmt_ok.1 hx))
  | fadd f name t pers symbol =>
    simp only [DataFormat.step] at h
    split at h
    · cases h
    · rename_i x hx
      split at h
      · cases h
      · rename_i a x' hadd
        simp only [Except.ok.injEq, Prod.mk.injEq] at h
        rw [← h.1]
        have hf := getFmt_ok.1 hx
        exact hs.setFmt hf ((hs.fmts f x hf).addAttribute hadd) (Format.extendedBy_addAttribute hadd)
  | layout f =>
    simp only [DataFormat.step] at h
    split at h
    · cases h
    · simp only [Except.ok.injEq, Prod.mk.injEq] at h
      rw [← h.1]; exact hs
  | new f =>
    simp only [DataFormat.step] at h
    split at h
    · cases h
    · rename_i x hx
      split at h
      · cases h
      · rename_i b hh ha
        simp only [Except.ok.injEq, Prod.mk.injEq] at h
        rw [← h.1]
        exact hs.step_new (getFmt_ok.1 hx) ha
  | new0 =>
    simp only [DataFormat.step, Except.ok.injEq, Prod.mk.injEq] at h
    rw [← h.1]; exact hs.appendNoBlock (fun fid hfid => by cases hfid)
  | copy e =>
    simp only [DataFormat.step] at h
    split at h
    · cases h
    · rename_i s1 id hc
      simp only [Except.ok.injEq, Prod.mk.injEq] at h
      rw [← h.1]; exact hs.step_copy hc
  | assign d e =>
    simp only [DataFormat.step] at h
    split at h
    · cases h
    · rename_i s1 hc
      simp only [Except.ok.injEq, Prod.mk.injEq] at h
      rw [← h.1]; exact hs.step_assign hc
  | del d =>
    simp only [DataFormat.step] at h
    split at h
    · cases h
    · rename_i dat hdat
      split at h
      · cases h
      · rename_i hh hr
        simp only [Except.ok.injEq, Prod.mk.injEq] at h
        rw [← h.1]; exact hs.step_del (getData_ok.1 hdat) hr
  | setfmt d f =>
    simp only [DataFormat.step] at h
    split at h
    · cases h
    · rename_i dat hdat
      split at h
      · cases h
      · rename_i x hx
        split at h
        · cases h
        · rename_i hh hr
          split at h
          · cases h
          · rename_i b h' ha
            simp only [Except.ok.injEq, Prod.mk.injEq] at h
            rw [← h.1]
            obtain ⟨r1, r2, r3⟩ := releaseIfFmt_spec hs (getData_ok.1 hdat) hr
            exact hs.step_realloc (getData_ok.1 hdat) r1 r2 r3 (getFmt_ok.1 hx) ha
  | release d =>
    simp only [DataFormat.step] at h
    split at h
    · cases h
    · rename_i dat hdat
      split at h
      · cases h
      · rename_i fid x hfo
        obtain ⟨hfid, hf⟩ := fmtOf_ok hfo
        split at h
        · cases h
        · rename_i hh hr
          simp only [Except.ok.injEq, Prod.mk.injEq] at h
          rw [← h.1]
          have hd := getData_ok.1 hdat
          obtain ⟨r1, r2, r3⟩ := format_release_spec hs hd hfid hf hr
          exact hs.afterRelease (OnlyAt.set (lt_of_getElem?_some hd) _)
            (Or.inr ⟨some fid, rfl, fun fid' hfid' => by injection hfid' with e; subst e; exact ⟨x, hf⟩⟩) r1 r2 r3
  | realloc d =>
    simp only [DataFormat.step] at h
    split at h
    · cases h
    · rename_i dat hdat
      split at h
      · cases h
      · rename_i fid x hfo
        obtain ⟨hfid, hf⟩ := fmtOf_ok hfo
        split at h
        · cases h
        · rename_i hh hr
          split at h
          · cases h
          · rename_i b h' ha
            simp only [Except.ok.injEq, Prod.mk.injEq] at h
            rw [← h.1]
            have hd := getData_ok.1 hdat
            obtain ⟨r1, r2, r3⟩ := format_release_spec hs hd hfid hf hr
            exact hs.step_realloc hd r1 r2 r3 hf ha
  | dadd d name t pers symbol =>
    simp only [DataFormat.step] at h
    split at h
    · cases h
    · rename_i s1 a hc
      simp only [Except.ok.injEq, Prod.mk.injEq] at h
      rw [← h.1]; exact hs.step_dadd hc
  | clear d =>
    simp only [DataFormat.step] at h
    split at h
    · cases h
    · rename_i s1 hc
      simp only [Except.ok.injEq, Prod.mk.injEq] at h
      rw [← h.1]; exact hs.step_clear hc
  | clearall d =>
    simp only [DataFormat.step] at h
    split at h
    · cases h
    · rename_i s1 hc
      simp only [Except.ok.injEq, Prod.mk.injEq] at h
      rw [← h.1]; exact hs.step_clear hc
  | protect d i =>
    simp only [DataFormat.step] at h
    split at h
    · cases h
    · rename_i s1 hc
      simp only [Except.ok.injEq, Prod.mk.injEq] at h
      rw [← h.1]; exact hs.step_protect hc
  | unprotect d i =>
    simp only [DataFormat.step] at h
    split at h
    · cases h
    · rename_i s1 hc
      simp only [Except.ok.injEq, Prod.mk.injEq] at h
      rw [← h.1]; exact hs.step_protect hc
  | set d i v =>
    simp only [DataFormat.step] at h
    split at h
    · cases h
    · rename_i l hl
      split at h
      · cases h
      · rename_i hty
        split at h
        · cases h
        · rename_i s1 hw
          simp only [Except.ok.injEq, Prod.mk.injEq] at h
          rw [← h.1]
          simp only [Bool.or_eq_true, Bool.not_eq_true', not_or, Bool.not_eq_false, Bool.not_eq_true] at hty
          exact hs.step_writeVal hl hty.1 hty.2 hw
  | get d i =>
    simp only [DataFormat.step] at h
    split at h
    · cases h
    · simp only [Except.ok.injEq, Prod.mk.injEq] at h
      rw [← h.1]; exact hs
  | push d i e =>
    simp only [DataFormat.step] at h
    split at h
    · cases h
    · rename_i s1 hc
      simp only [Except.ok.injEq, Prod.mk.injEq] at h
      rw [← h.1]; exact hs.step_push hc
  | rc d i =>
    simp only [DataFormat.step] at h
    split at h
    · cases h
    · simp only [Except.ok.injEq, Prod.mk.injEq] at h
      rw [← h.1]; exact hs
  | dump d =>
    simp only [DataFormat.step] at h
    split at h
    · cases h
    · simp only [Except.ok.injEq, Prod.mk.injEq] at h
      rw [← h.1]; exact hs
  | tostr d i =>
    simp only [DataFormat.step] at h
    split at h
    · cases h
    · simp only [Except.ok.injEq, Prod.mk.injEq] at h
      rw [← h.1]; exact hs
  | leakcheck =>
    simp only [DataFormat.step, Except.ok.injEq, Prod.mk.injEq] at h
    rw [← h.1]; exact hs
  | fromstr d i text =>
    simp only [DataFormat.step] at h
    split at h
    · cases h
    · rename_i s1 hc
      simp only [Except.ok.injEq, Prod.mk.injEq] at h
      rw [← h.1]
      unfold fromStrData at hc
      split at hc
      · cases hc
      · rename_i l hl
        split at hc
        · cases hc
        · rename_i v hv
          obtain ⟨h1, h2⟩ := fromText_hasType hv
          exact hs.step_writeVal hl h1 h2 hc

/-- every state reached by `run` from the initial state satisfies the invariant -/
theorem Inv.run {al : Option Nat} {nc : NumCodec} (ops : List Op) : ∀ {s : State}, Inv al s → Inv al (run al nc s ops) := by
  induction ops with
  | nil => intro s hs; exact hs
  | cons op ops ih =>
    intro s hs
    unfold DataFormat.run
    split
    · rename_i s' o hstep
      exact ih (hs.step hstep)
    · split
      · exact hs
      · exact ih hs

end Sympler.DataFormat
