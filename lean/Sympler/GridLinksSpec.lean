import Sympler.GridLinksInv

/-!
The `init()` loop, the step from the loop invariant `LInv` to the propositional specification `LinksSpec` of the
link list and to the executable check `linksOKb`, and `buildGrid_linksSpec`: the grid built by the loops of
`cellSubdivide` satisfies `LinksSpec`.  Core Lean only.
-/
namespace Sympler.Grid
open Sympler Sympler.Cells Sympler.Gen.CellTables

/-! ### the `init()` loop -/

/-- the link list after the `init()` loop over the first `m` cells: the `m` local links, in order -/
structure InitInv2 (m : Nat) (g : Grid) : Prop where
  size : g.links.size = m
  all_local : ∀ lk, lk ∈ g.links.toList → lk.align = -1 ∧ lk.first = lk.second
  cnt : ∀ c, g.links.toList.countP (isLocalOf c) = if c < m then 1 else 0
  loc : ∀ c, c < m → g.loc.get c = c
  lk : ∀ c, c < m → ∃ lk, g.links[c]? = some lk ∧ lk.align = -1 ∧ lk.first = c ∧ lk.second = c ∧ lk.dist = (0, 0, 0)

theorem initCell_inv2 {g : Grid} {m : Nat} (h : InitInv2 m g) : InitInv2 (m + 1) (initCell g m) := by
  unfold initCell
  refine ⟨by simp [h.size], ?_, ?_, ?_, ?_⟩
  · intro lk hlk
    simp only [Array.toList_push, List.mem_append, List.mem_singleton] at hlk
    rcases hlk with hlk | rfl
    · exact h.all_local lk hlk
    · exact ⟨rfl, rfl⟩
  · intro c
    simp only []
    rw [countP_push, h.cnt c]
    have e : isLocalOf c (mkLink g m m (-1) true true) = true ↔ c = m := by
      unfold isLocalOf mkLink
      simp only [Bool.and_eq_true, Bool.or_eq_true, beq_iff_eq, or_self, true_and]
      exact eq_comm
    by_cases hcm : c = m
    · rw [if_pos (e.mpr hcm)]
      subst hcm
      simp
    · rw [if_neg (fun x => hcm (e.mp x))]
      by_cases h1 : c < m
      · have : c < m + 1 := by omega
        simp [h1, this]
      · have : ¬ c < m + 1 := by omega
        simp [h1, this]
  · intro c hc
    simp only [Store.get_set, h.size]
    by_cases e : c = m
    · simp [e]
    · simp only [e, if_false]; exact h.loc c (by omega)
  · intro c hc
    simp only []
    rw [Array.getElem?_push, h.size]
    by_cases e : c = m
    · subst e
      simp only [if_true]
      exact ⟨_, rfl, rfl, rfl, rfl, by simp [mkLink]⟩
    · simp only [e, if_false]
      exact h.lk c (by omega)

theorem foldl_init_inv2 {g0 : Grid} (h0 : g0.links = #[]) :
    ∀ m, InitInv2 m ((List.range m).foldl initCell g0) := by
  intro m
  induction m with
  | zero =>
    refine ⟨by simp [h0], ?_, ?_, fun c hc => absurd hc (by omega), fun c hc => absurd hc (by omega)⟩
    · intro lk hlk
      simp [h0] at hlk
    · intro c
      simp [h0]
  | succ m ih =>
    rw [List.range_succ, List.foldl_append]
    exact initCell_inv2 ih

/-! ### from the invariant to the executable check -/

theorem occ_local {lk : LinkGeom} (h : lk.align = -1) (c m : Nat) : occupiesSlot lk c m = false := by
  unfold occupiesSlot
  simp [h]

/-- the final state of the neighbour loop, as propositions -/
structure LinksSpec (G : Grid) (per : V3 Bool) (N : Nat) : Prop where
  geo : GeoOK G.nc G.cells N
  wf : ∀ lk, lk ∈ G.links.toList → LinkWF N G.cells lk
  locals : LocalOK N G
  slot_some : ∀ c m t, c < N → m < 26 → nbr G.nc G.cells per c m = some t →
    G.links.toList.countP (represents · c m t) = 1 ∧ G.links.toList.countP (occupiesSlot · c m) = 1 ∧
    G.outAt c m = [t]
  slot_none : ∀ c m, c < N → m < 26 → nbr G.nc G.cells per c m = none →
    G.links.toList.countP (occupiesSlot · c m) = 0 ∧ G.outAt c m = []

theorem linksSpec_of_linv {G : Grid} {per : V3 Bool} {N : Nat} {C : Nat → Nat → Prop}
    (geo : GeoOK G.nc G.cells N) (h : LInv G.nc G.cells per N C G)
    (hall : ∀ c, c < N → ∀ n, n < 26 → ∀ t, nbr G.nc G.cells per c n = some t → C c n) : LinksSpec G per N := by
  refine ⟨geo, h.wf, h.locals, ?_, ?_⟩
  · intro c m t hc hm ht
    obtain ⟨t', e, r⟩ := h.cov c m hc hm (hall c hc m hm t ht)
    have : t' = t := by rw [ht] at e; exact (Option.some.inj e).symm
    subst this
    exact r
  · intro c m hc hm hnone
    apply h.ncov c m hc hm
    intro hC
    obtain ⟨t', e, _⟩ := h.cov c m hc hm hC
    rw [hnone] at e; simp at e

theorem linksSpec_linksOKb {G : Grid} {per : V3 Bool} (h : LinksSpec G per G.cells.size) :
    linksOKb G per = true := by
  unfold linksOKb
  simp only []
  rw [Bool.and_eq_true, Bool.and_eq_true]
  refine ⟨⟨?_, ?_⟩, ?_⟩
  · rw [List.all_eq_true]
    intro c hc
    rw [List.mem_range] at hc
    have h1 := h.locals.cnt c hc
    rw [List.countP_eq_length_filter] at h1
    obtain ⟨lk, e, a1, a2, a3, a4⟩ := h.locals.lk c hc
    rw [e]
    simp only [Bool.and_eq_true, beq_iff_eq]
    exact ⟨⟨h1, h.locals.loc c hc⟩, ⟨⟨a1, a2⟩, a3⟩, a4⟩
  · rw [List.all_eq_true]
    intro c hc
    rw [List.mem_range] at hc
    rw [List.all_eq_true]
    intro n hn
    rw [List.mem_range] at hn
    have hn : n < 26 := hn
    cases ht : nbr G.nc G.cells per c n with
    | some t =>
      obtain ⟨hr, rfl⟩ := nbr_some ht
      obtain ⟨b1, b2, b3⟩ := h.slot_some c n _ hc hn ht
      rw [List.countP_eq_length_filter] at b1 b2
      rw [if_pos hr]
      simp only [Bool.and_eq_true, beq_iff_eq]
      refine ⟨⟨⟨b1, b2⟩, ?_⟩, b3⟩
      rw [List.all_eq_true]
      intro lk hlk
      rw [List.mem_filter] at hlk
      rw [beq_iff_eq]
      rcases h.wf lk hlk.1 with w | w
      · have := rep_occ hn hlk.2
        rw [occ_local w.1] at this
        exact absurd this (by simp)
      · exact w.2.2.2.2.2.2.2
    | none =>
      have hr : ¬ posInRange G.nc (neighborPos G.nc per (G.cells.getD c default).tag (offsets.getD n (0, 0, 0))) = true := by
        intro hr
        unfold nbr at ht
        rw [if_pos hr] at ht
        simp at ht
      obtain ⟨b1, b2⟩ := h.slot_none c n hc hn ht
      rw [List.countP_eq_length_filter] at b1
      rw [if_neg hr]
      simp only [Bool.and_eq_true, beq_iff_eq]
      exact ⟨b1, b2⟩
  · rw [List.all_eq_true]
    intro lk hlk
    rcases h.wf lk hlk with w | w
    · simp [w.1, w.2]
    · obtain ⟨w1, w2, w3, w4, w5, w6, w7, _⟩ := w
      simp [w1, w2, w3, w4, w5, w6, w7]

/-! ### the grid built by `cellSubdivide` -/

theorem buildGrid_cells_nc (nc : V3 Int) (c1 c2 invWidth width : V3 Rat) (per : V3 Bool) (hnc : 2 ≤ nc.1 ∧ 2 ≤ nc.2.1 ∧ 2 ≤ nc.2.2) :
    ∃ N, GeoOK nc (mkCells nc c1 width) N ∧
      ∃ C : Nat → Nat → Prop, LInv nc (mkCells nc c1 width) per N C (buildGrid nc c1 c2 invWidth width per) ∧
        (∀ c, c < N → ∀ n, n < 26 → ∀ t, nbr nc (mkCells nc c1 width) per c n = some t → C c n) := by
  obtain ⟨a, b, c⟩ := nc
  obtain ⟨h1, h2, h3⟩ := hnc
  simp only [] at h1 h2 h3
  obtain ⟨nx, rfl⟩ := Int.eq_ofNat_of_zero_le (a := a) (by omega)
  obtain ⟨ny, rfl⟩ := Int.eq_ofNat_of_zero_le (a := b) (by omega)
  obtain ⟨nz, rfl⟩ := Int.eq_ofNat_of_zero_le (a := c) (by omega)
  have geo := mkCells_geo nx ny nz (by omega) (by omega) (by omega) c1 width
  refine ⟨nz * (ny * nx), geo, ?_⟩
  unfold buildGrid
  simp only []
  generalize hcells : mkCells ((nx : Int), (ny : Int), (nz : Int)) c1 width = cells at geo ⊢
  have hsize : cells.size = nz * (ny * nx) := geo.size
  rw [hsize]
  generalize hg0 : grid0 ((nx : Int), (ny : Int), (nz : Int)) c1 c2 invWidth cells = g0
  have h0 : g0.links = #[] := by rw [← hg0]; rfl
  have hinit := foldl_init_inv (g0 := g0) (by rw [h0]; rfl) (nz * (ny * nx))
  have hinit2 := foldl_init_inv2 h0 (nz * (ny * nx))
  generalize (List.range (nz * (ny * nx))).foldl initCell g0 = g1 at hinit hinit2
  have hcells1 : g1.cells = cells := by rw [hinit.cells, ← hg0]; rfl
  have hnc1 : g1.nc = ((nx : Int), (ny : Int), (nz : Int)) := by rw [hinit.nc, ← hg0]; rfl
  have hnb1 : ∀ c j, g1.nbAt c j = [] := by
    intro c j; unfold Grid.nbAt; rw [hinit.nb, ← hg0]; simp [grid0]
  have hout1 : ∀ c j, g1.outAt c j = [] := by
    intro c j; unfold Grid.outAt; rw [hinit.out, ← hg0]; simp [grid0]
  have hocc1 : ∀ c m, g1.links.toList.countP (occupiesSlot · c m) = 0 := by
    intro c m
    rw [List.countP_eq_zero]
    intro lk hlk
    rw [occ_local (hinit2.all_local lk hlk).1]
    simp
  have hl : LInv ((nx : Int), (ny : Int), (nz : Int)) cells per (nz * (ny * nx)) (fun _ _ => False) g1 := by
    refine ⟨hcells1, hnc1, fun lk hlk => Or.inl (hinit2.all_local lk hlk), ⟨?_, hinit2.loc, hinit2.lk⟩, ?_, ?_, ?_, ?_⟩
    · intro c hc
      rw [hinit2.cnt c, if_pos hc]
    · intro c m _ _
      rw [hnb1, hocc1]; rfl
    · intro c m _ _ hC; exact absurd hC id
    · intro c m _ _ _
      exact ⟨hocc1 c m, hout1 c m⟩
    · intro c m t _ _ hC; exact absurd hC id
  obtain ⟨C, hC, _, hd⟩ := foldl_cells_linv geo per (List.range (nz * (ny * nx))) _ g1
    (fun i hi => List.mem_range.mp hi) hl (by rw [hinit2.size]; exact Nat.le_refl _)
  exact ⟨C, hC, fun c hc n hn t ht => hd c (List.mem_range.mpr hc) n hn t ht⟩

theorem buildGrid_cells (nc : V3 Int) (c1 c2 invWidth width : V3 Rat) (per : V3 Bool) (N : Nat) (C : Nat → Nat → Prop)
    (h : LInv nc (mkCells nc c1 width) per N C (buildGrid nc c1 c2 invWidth width per)) :
    (buildGrid nc c1 c2 invWidth width per).cells = mkCells nc c1 width ∧
    (buildGrid nc c1 c2 invWidth width per).nc = nc := ⟨h.cells_eq, h.nc_eq⟩

/-- the grid built by the loops of `cellSubdivide` (at least two cells per direction) has a complete and unique
link list -/
theorem buildGrid_linksSpec (nc : V3 Int) (c1 c2 invWidth width : V3 Rat) (per : V3 Bool)
    (hnc : 2 ≤ nc.1 ∧ 2 ≤ nc.2.1 ∧ 2 ≤ nc.2.2) :
    (buildGrid nc c1 c2 invWidth width per).cells = mkCells nc c1 width ∧
    (buildGrid nc c1 c2 invWidth width per).nc = nc ∧
    LinksSpec (buildGrid nc c1 c2 invWidth width per) per (buildGrid nc c1 c2 invWidth width per).cells.size := by
  obtain ⟨N, geo, C, hC, hall⟩ := buildGrid_cells_nc nc c1 c2 invWidth width per hnc
  have e1 := hC.cells_eq
  have e2 := hC.nc_eq
  refine ⟨e1, e2, ?_⟩
  have hN : (buildGrid nc c1 c2 invWidth width per).cells.size = N := by rw [e1]; exact geo.size
  rw [hN]
  apply linksSpec_of_linv (C := C)
  · rw [e1, e2]; exact geo
  · rw [e1, e2]; exact hC
  · rw [e1, e2]; exact hall

theorem subdivide_eq {cutoff : Rat} {c1 c2 : V3 Rat} {per : V3 Bool} {G : Grid}
    (h : subdivide cutoff c1 c2 per = some G) :
    ∃ nc : V3 Int, (2 ≤ nc.1 ∧ 2 ≤ nc.2.1 ∧ 2 ≤ nc.2.2) ∧
      nc = V3.map (fun (di : Rat) => if cutoff > 0 then truncRat (di / cutoff) else 2) (V3.sub c2 c1) ∧
      G = buildGrid nc c1 c2 (V3.map2 (fun (n : Int) (di : Rat) => (n : Rat) / di) nc (V3.sub c2 c1))
        (V3.map2 (fun (di : Rat) (n : Int) => di / (n : Rat)) (V3.sub c2 c1) nc) per := by
  unfold subdivide at h
  simp only [] at h
  generalize hnc : (V3.map (fun (di : Rat) => if cutoff > 0 then truncRat (di / cutoff) else 2) (V3.sub c2 c1) : V3 Int)
    = nc at h
  by_cases hany : (V3.map (fun (n : Int) => decide (n < 2)) nc).any = true
  · rw [if_pos hany] at h; simp at h
  · rw [if_neg hany] at h
    have hG := Option.some.inj h
    simp only [V3.any, V3.map, Bool.or_eq_true, decide_eq_true_eq, not_or, Int.not_lt] at hany
    obtain ⟨⟨hn1, hn2⟩, hn3⟩ := hany
    exact ⟨nc, ⟨hn1, hn2, hn3⟩, rfl, hG.symm⟩

end Sympler.Grid
