import Sympler.Dyn

/-!
Helper lemmas for the `Dyn` model (core Lean only): vector algebra, frame lemmas for the
state updates, the "scatter" lemma (a loop of `+=` over pairs and modules computes, slot by slot,
the old value plus the sum of all contributions evaluated on the state before the loop).
-/
namespace Sympler.Dyn

/-! ### Vec3 -/
namespace Vec3

theorem ext' {a b : Vec3} (h1 : a.x = b.x) (h2 : a.y = b.y) (h3 : a.z = b.z) : a = b := by
  cases a; cases b; simp_all

@[simp] theorem zero_x : (0 : Vec3).x = 0 := rfl
@[simp] theorem zero_y : (0 : Vec3).y = 0 := rfl
@[simp] theorem zero_z : (0 : Vec3).z = 0 := rfl
@[simp] theorem add_x (a b : Vec3) : (a + b).x = a.x + b.x := rfl
@[simp] theorem add_y (a b : Vec3) : (a + b).y = a.y + b.y := rfl
@[simp] theorem add_z (a b : Vec3) : (a + b).z = a.z + b.z := rfl
@[simp] theorem sub_x (a b : Vec3) : (a - b).x = a.x - b.x := rfl
@[simp] theorem sub_y (a b : Vec3) : (a - b).y = a.y - b.y := rfl
@[simp] theorem sub_z (a b : Vec3) : (a - b).z = a.z - b.z := rfl
@[simp] theorem neg_x (a : Vec3) : (-a).x = -a.x := rfl
@[simp] theorem neg_y (a : Vec3) : (-a).y = -a.y := rfl
@[simp] theorem neg_z (a : Vec3) : (-a).z = -a.z := rfl
@[simp] theorem smul_x (c : Rat) (a : Vec3) : (c • a).x = c * a.x := rfl
@[simp] theorem smul_y (c : Rat) (a : Vec3) : (c • a).y = c * a.y := rfl
@[simp] theorem smul_z (c : Rat) (a : Vec3) : (c • a).z = c * a.z := rfl
@[simp] theorem cmul_x (a b : Vec3) : (cmul a b).x = a.x * b.x := rfl
@[simp] theorem cmul_y (a b : Vec3) : (cmul a b).y = a.y * b.y := rfl
@[simp] theorem cmul_z (a b : Vec3) : (cmul a b).z = a.z * b.z := rfl
@[simp] theorem mk_x (a b c : Rat) : (Vec3.mk a b c).x = a := rfl
@[simp] theorem mk_y (a b c : Rat) : (Vec3.mk a b c).y = b := rfl
@[simp] theorem mk_z (a b c : Rat) : (Vec3.mk a b c).z = c := rfl

end Vec3

/-- closes goals that are identities of the vector space / field structure -/
macro "vec3" : tactic =>
  `(tactic| (apply Vec3.ext' <;> simp <;> grind))

namespace Vec3
@[simp] theorem add_zero (a : Vec3) : a + 0 = a := by vec3
@[simp] theorem zero_add (a : Vec3) : 0 + a = a := by vec3
theorem add_comm (a b : Vec3) : a + b = b + a := by vec3
theorem add_assoc (a b c : Vec3) : a + b + c = a + (b + c) := by vec3
theorem add_left_comm (a b c : Vec3) : a + (b + c) = b + (a + c) := by vec3
@[simp] theorem smul_zero (c : Rat) : c • (0 : Vec3) = 0 := by vec3
@[simp] theorem zero_smul (a : Vec3) : (0 : Rat) • a = 0 := by vec3
theorem smul_add (c : Rat) (a b : Vec3) : c • (a + b) = c • a + c • b := by vec3
theorem add_right_cancel_iff {a b c : Vec3} : a + c = b + c ↔ a = b := by
  constructor
  · intro h
    have hx := congrArg Vec3.x h; have hy := congrArg Vec3.y h; have hz := congrArg Vec3.z h
    simp at hx hy hz
    apply ext' <;> grind
  · intro h; rw [h]
@[simp] theorem cmul_zero (a : Vec3) : cmul a 0 = 0 := by vec3
@[simp] theorem sub_self (a : Vec3) : a - a = 0 := by vec3
theorem neg_one_smul (a : Vec3) : (-1 : Rat) • a = -a := by vec3
@[simp] theorem add_neg_self (a : Vec3) : a + -a = 0 := by vec3
end Vec3

/-- sum of a list of vectors -/
def vsum : List Vec3 → Vec3
  | [] => 0
  | a :: l => a + vsum l

@[simp] theorem vsum_nil : vsum [] = 0 := rfl
@[simp] theorem vsum_cons (a : Vec3) (l : List Vec3) : vsum (a :: l) = a + vsum l := rfl

theorem vsum_append (l1 l2 : List Vec3) : vsum (l1 ++ l2) = vsum l1 + vsum l2 := by
  induction l1 with
  | nil => simp
  | cons a l ih => simp [ih, Vec3.add_assoc]

theorem vsum_map_add {α} (l : List α) (f g : α → Vec3) :
    vsum (l.map (fun x => f x + g x)) = vsum (l.map f) + vsum (l.map g) := by
  induction l with
  | nil => simp
  | cons a l ih =>
    simp only [List.map_cons, vsum_cons, ih]
    vec3

theorem vsum_map_zero {α} (l : List α) (f : α → Vec3) (h : ∀ x ∈ l, f x = 0) :
    vsum (l.map f) = 0 := by
  induction l with
  | nil => simp
  | cons a l ih =>
    simp only [List.map_cons, vsum_cons]
    rw [h a (by simp), ih (fun x hx => h x (by simp [hx]))]
    simp

theorem vsum_map_congr {α} (l : List α) (f g : α → Vec3) (h : ∀ x ∈ l, f x = g x) :
    vsum (l.map f) = vsum (l.map g) := by
  induction l with
  | nil => simp
  | cons a l ih =>
    simp only [List.map_cons, vsum_cons]
    rw [h a (by simp), ih (fun x hx => h x (by simp [hx]))]

theorem vsum_flatMap {α β} (l : List α) (f : α → List β) (g : β → Vec3) :
    vsum ((l.flatMap f).map g) = vsum (l.map (fun a => vsum ((f a).map g))) := by
  induction l with
  | nil => simp
  | cons a l ih => simp [List.flatMap_cons, vsum_append, ih]

theorem vsum_map_smul {α} (c : Rat) (l : List α) (f : α → Vec3) :
    vsum (l.map (fun x => c • f x)) = c • vsum (l.map f) := by
  induction l with
  | nil => simp
  | cons a l ih => simp only [List.map_cons, vsum_cons, ih, Vec3.smul_add]

/-- exchanging two finite sums -/
theorem vsum_comm {α β} (l1 : List α) (l2 : List β) (f : α → β → Vec3) :
    vsum (l1.map (fun a => vsum (l2.map (fun b => f a b))))
      = vsum (l2.map (fun b => vsum (l1.map (fun a => f a b)))) := by
  induction l1 with
  | nil => simp; exact (vsum_map_zero l2 _ (fun _ _ => rfl)).symm
  | cons a l ih =>
    simp only [List.map_cons, vsum_cons, ih]
    rw [← vsum_map_add]

/-- a sum with an indicator picks one term -/
theorem vsum_range_ite (n i : Nat) (hi : i < n) (f : Nat → Vec3) :
    vsum ((List.range n).map (fun a => if a = i then f a else 0)) = f i := by
  induction n with
  | zero => omega
  | succ n ih =>
    rw [List.range_succ, List.map_append, vsum_append]
    by_cases h : i < n
    · rw [ih h]
      have : n ≠ i := by omega
      simp [this]
    · have hn : i = n := by omega
      subst hn
      rw [vsum_map_zero]
      · simp
      · intro x hx
        have : x < i := List.mem_range.mp hx
        have : x ≠ i := by omega
        simp [this]

/-! ### particles, states -/

@[simp] theorem setTag_tag (p : Particle) (k k' : Key) (x : Vec3) :
    (p.setTag k x).tag k' = if k' = k then x else p.tag k' := rfl
@[simp] theorem setTag_colour (p : Particle) (k : Key) (x : Vec3) : (p.setTag k x).colour = p.colour := rfl
@[simp] theorem setTag_slot (p : Particle) (k : Key) (x : Vec3) : (p.setTag k x).slot = p.slot := rfl
@[simp] theorem setTag_frozen (p : Particle) (k : Key) (x : Vec3) : (p.setTag k x).frozen = p.frozen := rfl
@[simp] theorem setTag_r (p : Particle) (k : Key) (x : Vec3) : (p.setTag k x).r = p.r := rfl
@[simp] theorem setTag_v (p : Particle) (k : Key) (x : Vec3) : (p.setTag k x).v = p.v := rfl

@[simp] theorem addTag_tag (p : Particle) (k k' : Key) (x : Vec3) :
    (p.addTag k x).tag k' = if k' = k then p.tag k + x else p.tag k' := rfl
@[simp] theorem addTag_colour (p : Particle) (k : Key) (x : Vec3) : (p.addTag k x).colour = p.colour := rfl
@[simp] theorem addTag_slot (p : Particle) (k : Key) (x : Vec3) : (p.addTag k x).slot = p.slot := rfl
@[simp] theorem addTag_frozen (p : Particle) (k : Key) (x : Vec3) : (p.addTag k x).frozen = p.frozen := rfl
@[simp] theorem addTag_r (p : Particle) (k : Key) (x : Vec3) : (p.addTag k x).r = p.r := rfl
@[simp] theorem addTag_v (p : Particle) (k : Key) (x : Vec3) : (p.addTag k x).v = p.v := rfl

@[simp] theorem modify_ps (st : State) (i k : Nat) (f : Particle → Particle) :
    (st.modify i f).ps k = if k = i then f (st.ps i) else st.ps k := rfl
@[simp] theorem modify_n (st : State) (i : Nat) (f : Particle → Particle) : (st.modify i f).n = st.n := rfl
@[simp] theorem modify_forceIdx (st : State) (i : Nat) (f : Particle → Particle) :
    (st.modify i f).forceIdx = st.forceIdx := rfl
@[simp] theorem modify_pers (st : State) (i : Nat) (f : Particle → Particle) : (st.modify i f).pers = st.pers := rfl

@[simp] theorem mapFree_ps (st : State) (f : Particle → Particle) (k : Nat) :
    (st.mapFree f).ps k = if (st.ps k).frozen then st.ps k else f (st.ps k) := rfl
@[simp] theorem mapFree_n (st : State) (f : Particle → Particle) : (st.mapFree f).n = st.n := rfl
@[simp] theorem mapFree_forceIdx (st : State) (f : Particle → Particle) : (st.mapFree f).forceIdx = st.forceIdx := rfl
@[simp] theorem mapFree_pers (st : State) (f : Particle → Particle) : (st.mapFree f).pers = st.pers := rfl

/-! ### frames -/

/-- everything of a particle except the tag -/
def Particle.sameBody (p q : Particle) : Prop :=
  p.colour = q.colour ∧ p.slot = q.slot ∧ p.frozen = q.frozen ∧ p.r = q.r ∧ p.v = q.v

theorem Particle.sameBody_refl (p : Particle) : p.sameBody p := ⟨rfl, rfl, rfl, rfl, rfl⟩
theorem Particle.sameBody_trans {p q s : Particle} (h1 : p.sameBody q) (h2 : q.sameBody s) : p.sameBody s := by
  obtain ⟨a1, a2, a3, a4, a5⟩ := h1
  obtain ⟨b1, b2, b3, b4, b5⟩ := h2
  exact ⟨a1.trans b1, a2.trans b2, a3.trans b3, a4.trans b4, a5.trans b5⟩

/-- `st'` agrees with `st` everywhere except for the tag entries whose key is in `W` -/
structure AgreeOff (W : Key → Prop) (st st' : State) : Prop where
  n : st'.n = st.n
  fi : st'.forceIdx = st.forceIdx
  pers : st'.pers = st.pers
  body : ∀ i, (st'.ps i).sameBody (st.ps i)
  tag : ∀ i key, ¬ W key → (st'.ps i).tag key = (st.ps i).tag key

theorem AgreeOff.refl (W : Key → Prop) (st : State) : AgreeOff W st st :=
  ⟨rfl, rfl, rfl, fun _ => Particle.sameBody_refl _, fun _ _ _ => rfl⟩

theorem AgreeOff.trans {W : Key → Prop} {s1 s2 s3 : State} (h1 : AgreeOff W s1 s2) (h2 : AgreeOff W s2 s3) :
    AgreeOff W s1 s3 :=
  ⟨h2.n.trans h1.n, h2.fi.trans h1.fi, h2.pers.trans h1.pers,
   fun i => Particle.sameBody_trans (h2.body i) (h1.body i),
   fun i key hk => (h2.tag i key hk).trans (h1.tag i key hk)⟩

theorem Expr.eval_congr (e : Expr) (env env' : Env)
    (h1 : env.rij = env'.rij) (h2 : env.ri = env'.ri) (h3 : env.rj = env'.rj)
    (hv : e.usesVel = false ∨ (env.vi = env'.vi ∧ env.vj = env'.vj))
    (ht : ∀ n ∈ e.reads, env.ti n = env'.ti n ∧ env.tj n = env'.tj n) : e.eval env = e.eval env' := by
  induction e with
  | num q => rfl
  | vec c => rfl
  | rij => exact h1
  | pos w => cases w <;> simp [Expr.eval, h2, h3]
  | vel w =>
    rcases hv with hv | ⟨hv1, hv2⟩
    · simp [Expr.usesVel] at hv
    · cases w <;> simp [Expr.eval, hv1, hv2]
  | tag w n =>
    have := ht n (by simp [Expr.reads])
    cases w <;> simp [Expr.eval, this.1, this.2]
  | add a b iha ihb | sub a b iha ihb | mul a b iha ihb | smul a b iha ihb | dot a b iha ihb =>
    have ha := iha (by rcases hv with hv | hv
                       · left; simp [Expr.usesVel] at hv; exact hv.1
                       · right; exact hv) (fun n hn => ht n (by simp [Expr.reads, hn]))
    have hb := ihb (by rcases hv with hv | hv
                       · left; simp [Expr.usesVel] at hv; exact hv.2
                       · right; exact hv) (fun n hn => ht n (by simp [Expr.reads, hn]))
    simp [Expr.eval, ha, hb]
  | neg a iha | comp k a iha =>
    have ha := iha (by rcases hv with hv | hv
                       · left; simpa [Expr.usesVel] using hv
                       · right; exact hv) (fun n hn => ht n (by simpa [Expr.reads] using hn))
    simp [Expr.eval, ha]

/-! ### pair operations, scatter lemma -/

def pairActive (cfg : Config) (m : PairMod) (st : State) (a b : Nat) : Bool :=
  inList cfg st m.c1 m.c2 a b && inCut cfg m (st.ps a) (st.ps b)

def pairDelta (cfg : Config) (k : Bool) (m : PairMod) (st : State) (a b i : Nat) (key : Key) : Vec3 :=
  if pairActive cfg m st a b then
    (if i = a ∧ (st.ps a).frozen = false ∧ key = m.target.key k
      then m.first (mkEnv cfg.box (st.ps a) (st.ps b)) else 0)
    + (if i = b ∧ (st.ps b).frozen = false ∧ key = m.target.key k
      then m.second (mkEnv cfg.box (st.ps a) (st.ps b)) else 0)
  else 0

theorem inList_ne {cfg : Config} {st : State} {c1 c2 a b : Nat} (h : inList cfg st c1 c2 a b = true) : a ≠ b := by
  simp [inList] at h
  exact h.1.1.1.1.1

theorem pairOp_tag (cfg : Config) (k : Bool) (m : PairMod) (a b : Nat) (st : State) (i : Nat) (key : Key) :
    ((pairOp cfg k m a b st).ps i).tag key = (st.ps i).tag key + pairDelta cfg k m st a b i key := by
  unfold pairOp pairDelta pairActive
  by_cases hact : (inList cfg st m.c1 m.c2 a b && inCut cfg m (st.ps a) (st.ps b)) = true
  · have hab : a ≠ b := inList_ne (by simp at hact; exact hact.1)
    simp only [hact, if_true]
    cases hfa : (st.ps a).frozen <;> cases hfb : (st.ps b).frozen <;>
      by_cases hia : i = a <;> by_cases hib : i = b <;> by_cases hk : key = m.target.key k <;>
      simp_all <;> grind
  · simp [hact]


theorem pairOp_body (cfg : Config) (k : Bool) (m : PairMod) (a b : Nat) (st : State) (i : Nat) :
    ((pairOp cfg k m a b st).ps i).sameBody (st.ps i) := by
  unfold pairOp
  split
  · cases hfa : (st.ps a).frozen <;> cases hfb : (st.ps b).frozen <;>
      by_cases hia : i = a <;> by_cases hib : i = b <;>
      simp_all [Particle.sameBody]
  · exact Particle.sameBody_refl _

theorem pairOp_n (cfg : Config) (k : Bool) (m : PairMod) (a b : Nat) (st : State) :
    (pairOp cfg k m a b st).n = st.n := by
  unfold pairOp; split
  · dsimp only
    split <;> split <;> simp
  · rfl

theorem pairOp_forceIdx (cfg : Config) (k : Bool) (m : PairMod) (a b : Nat) (st : State) :
    (pairOp cfg k m a b st).forceIdx = st.forceIdx := by
  unfold pairOp; split
  · dsimp only
    split <;> split <;> simp
  · rfl

theorem pairOp_pers (cfg : Config) (k : Bool) (m : PairMod) (a b : Nat) (st : State) :
    (pairOp cfg k m a b st).pers = st.pers := by
  unfold pairOp; split
  · dsimp only
    split <;> split <;> simp
  · rfl

theorem pairDelta_off (cfg : Config) (k : Bool) (m : PairMod) (st : State) (a b i : Nat) (key : Key)
    (h : key ≠ m.target.key k) : pairDelta cfg k m st a b i key = 0 := by
  unfold pairDelta; split <;> simp [h]

theorem pairOp_agree (W : Key → Prop) (cfg : Config) (k : Bool) (m : PairMod) (a b : Nat) (st : State)
    (hW : W (m.target.key k)) : AgreeOff W st (pairOp cfg k m a b st) :=
  ⟨pairOp_n .., pairOp_forceIdx .., pairOp_pers .., pairOp_body cfg k m a b st,
   fun i key hk => by
     rw [pairOp_tag, pairDelta_off]
     · simp
     · intro h; exact hk (h ▸ hW)⟩

/-- symbols read by a pair module -/
def PairMod.reads (m : PairMod) : List String := m.expr.reads ++ m.fi.reads ++ m.fj.reads
def PairMod.usesVel (m : PairMod) : Bool := m.expr.usesVel || m.fi.usesVel || m.fj.usesVel

theorem dist_congr (b : Box) {p q p' q' : Particle} (hp : p'.r = p.r) (hq : q'.r = q.r) :
    dist b p' q' = dist b p q := by simp [dist, hp, hq]

theorem mkEnv_eval_congr (b : Box) (e : Expr) {p q p' q' : Particle}
    (hp : p'.sameBody p) (hq : q'.sameBody q)
    (ht : ∀ n ∈ e.reads, p'.tag (.sym n) = p.tag (.sym n) ∧ q'.tag (.sym n) = q.tag (.sym n)) :
    e.eval (mkEnv b p' q') = e.eval (mkEnv b p q) := by
  apply Expr.eval_congr
  · exact dist_congr b hp.2.2.2.1 hq.2.2.2.1
  · exact hp.2.2.2.1
  · exact hq.2.2.2.1
  · right; exact ⟨hp.2.2.2.2, hq.2.2.2.2⟩
  · intro n hn; exact ht n hn

theorem pairDelta_congr (W : Key → Prop) (cfg : Config) (k : Bool) (m : PairMod) (st st' : State)
    (h : AgreeOff W st st') (hR : ∀ n ∈ m.reads, ¬ W (.sym n)) (a b i : Nat) (key : Key) :
    pairDelta cfg k m st' a b i key = pairDelta cfg k m st a b i key := by
  have hba := h.body a
  have hbb := h.body b
  have hact : pairActive cfg m st' a b = pairActive cfg m st a b := by
    simp only [pairActive, inList, inCut]
    rw [dist_congr cfg.box hba.2.2.2.1 hbb.2.2.2.1, hba.1, hbb.1, hba.2.2.1, hbb.2.2.1]
  have hev : ∀ e : Expr, (∀ n ∈ e.reads, n ∈ m.reads) →
      e.eval (mkEnv cfg.box (st'.ps a) (st'.ps b)) = e.eval (mkEnv cfg.box (st.ps a) (st.ps b)) := by
    intro e he
    apply mkEnv_eval_congr cfg.box e hba hbb
    intro n hn
    exact ⟨h.tag a _ (hR n (he n hn)), h.tag b _ (hR n (he n hn))⟩
  have h1 := hev m.expr (fun n hn => by simp [PairMod.reads, hn])
  have h2 := hev m.fi (fun n hn => by simp [PairMod.reads, hn])
  have h3 := hev m.fj (fun n hn => by simp [PairMod.reads, hn])
  unfold pairDelta
  rw [hact, hba.2.2.1, hbb.2.2.1]
  simp only [PairMod.first, PairMod.second, h1, h2, h3]

structure POp where
  m : PairMod
  a : Nat
  b : Nat

def applyOps (cfg : Config) (k : Bool) (xs : List POp) (st : State) : State :=
  xs.foldl (fun st x => pairOp cfg k x.m x.a x.b st) st

/-- THE SCATTER LEMMA.  A sequence of pair operations whose targets lie in `W` and whose expressions
do not read `W`, started in a state `st1` that agrees with `st` off `W`: every slot ends up as its
value in `st1` plus the sum of all contributions EVALUATED ON `st`. -/
theorem applyOps_spec (W : Key → Prop) (cfg : Config) (k : Bool) (st : State) (xs : List POp)
    (hW : ∀ x ∈ xs, W (x.m.target.key k)) (hR : ∀ x ∈ xs, ∀ n ∈ x.m.reads, ¬ W (.sym n)) :
    ∀ st1, AgreeOff W st st1 →
      AgreeOff W st (applyOps cfg k xs st1) ∧
      ∀ i key, ((applyOps cfg k xs st1).ps i).tag key
        = (st1.ps i).tag key + vsum (xs.map (fun x => pairDelta cfg k x.m st x.a x.b i key)) := by
  induction xs with
  | nil => intro st1 h; exact ⟨h, fun i key => by simp [applyOps]⟩
  | cons x xs ih =>
    intro st1 h
    have hx : W (x.m.target.key k) := hW x (by simp)
    have h' : AgreeOff W st (pairOp cfg k x.m x.a x.b st1) :=
      h.trans (pairOp_agree W cfg k x.m x.a x.b st1 hx)
    obtain ⟨hA, hT⟩ := ih (fun y hy => hW y (by simp [hy])) (fun y hy => hR y (by simp [hy])) _ h'
    refine ⟨hA, fun i key => ?_⟩
    have := hT i key
    simp only [applyOps, List.foldl_cons] at this ⊢
    rw [this, pairOp_tag, pairDelta_congr W cfg k x.m st st1 h (hR x (by simp))]
    simp only [List.map_cons, vsum_cons]
    vec3


/-- the operation list of `pairPhase`: pairs outer, modules inner -/
def phaseOps (n : Nat) (ms : List PairMod) : List POp :=
  (allPairs n).flatMap (fun ab => ms.map (fun m => ⟨m, ab.1, ab.2⟩))

theorem foldl_flatMap' {α β γ} (f : γ → β → γ) (g : α → List β) (l : List α) (s : γ) :
    (l.flatMap g).foldl f s = l.foldl (fun s a => (g a).foldl f s) s := by
  induction l generalizing s with
  | nil => rfl
  | cons a l ih => simp [List.flatMap_cons, List.foldl_append, ih]

theorem pairPhase_eq (cfg : Config) (k : Bool) (ms : List PairMod) (st : State) :
    pairPhase cfg k ms st = applyOps cfg k (phaseOps st.n ms) st := by
  unfold pairPhase applyOps phaseOps
  rw [foldl_flatMap']
  congr 1
  funext s ab
  rw [List.foldl_map]

theorem mem_phaseOps {n : Nat} {ms : List PairMod} {x : POp} (h : x ∈ phaseOps n ms) : x.m ∈ ms := by
  simp only [phaseOps, List.mem_flatMap, List.mem_map] at h
  obtain ⟨ab, _, m, hm, rfl⟩ := h
  exact hm

/-- sum of the contributions of all list entries to entry `key` of particle `i` -/
def pairContrib (cfg : Config) (k : Bool) (m : PairMod) (st : State) (i : Nat) (key : Key) : Vec3 :=
  vsum ((List.range st.n).map (fun a => vsum ((List.range st.n).map (fun b => pairDelta cfg k m st a b i key))))

theorem vsum_phaseOps (n : Nat) (ms : List PairMod) (f : PairMod → Nat → Nat → Vec3) :
    vsum ((phaseOps n ms).map (fun x => f x.m x.a x.b))
      = vsum (ms.map (fun m => vsum ((List.range n).map (fun a => vsum ((List.range n).map (fun b => f m a b)))))) := by
  unfold phaseOps allPairs
  rw [vsum_flatMap, vsum_flatMap]
  simp only [List.map_map, Function.comp_def]
  -- Σ_a Σ_b Σ_m = Σ_m Σ_a Σ_b
  have h1 : ∀ a, vsum ((List.range n).map (fun b => vsum (ms.map (fun m => f m a b))))
      = vsum (ms.map (fun m => vsum ((List.range n).map (fun b => f m a b)))) := fun a => vsum_comm _ _ _
  rw [vsum_map_congr _ _ _ (fun a _ => h1 a)]
  exact vsum_comm _ _ _

/-- `pairPhase` in closed form -/
theorem pairPhase_spec (W : Key → Prop) (cfg : Config) (k : Bool) (ms : List PairMod) (st : State)
    (hW : ∀ m ∈ ms, W (m.target.key k)) (hR : ∀ m ∈ ms, ∀ n ∈ m.reads, ¬ W (.sym n)) :
    AgreeOff W st (pairPhase cfg k ms st) ∧
    ∀ i key, ((pairPhase cfg k ms st).ps i).tag key
      = (st.ps i).tag key + vsum (ms.map (fun m => pairContrib cfg k m st i key)) := by
  rw [pairPhase_eq]
  obtain ⟨hA, hT⟩ := applyOps_spec W cfg k st (phaseOps st.n ms)
    (fun x hx => hW _ (mem_phaseOps hx)) (fun x hx => hR _ (mem_phaseOps hx)) st (AgreeOff.refl W st)
  refine ⟨hA, fun i key => ?_⟩
  rw [hT i key, vsum_phaseOps st.n ms (fun m a b => pairDelta cfg k m st a b i key)]
  rfl


theorem envP_congr {p q : Particle} (hb : q.sameBody p) (ht : ∀ n, q.tag (.sym n) = p.tag (.sym n)) :
    envP q = envP p := by
  have : (fun n => q.tag (.sym n)) = (fun n => p.tag (.sym n)) := funext ht
  simp [envP, hb.2.2.2.1, hb.2.2.2.2, this]

/-- contribution of a one-particle force module to entry `key` of particle `p` -/
def partDelta (k : Bool) (m : PartMod) (p : Particle) (key : Key) : Vec3 :=
  if p.colour = m.colour ∧ key = m.target.key k then m.expr.eval (envP p) else 0

theorem partFold_spec (k : Bool) (ms : List PartMod)
    (h : ∀ m ∈ ms, (∃ d, m.target = .force d) ∧ m.assign = false) (p : Particle) :
    ∀ q0 : Particle, q0.sameBody p → (∀ n, q0.tag (.sym n) = p.tag (.sym n)) →
      (ms.foldl (fun p m => partOp k m p) q0).sameBody p ∧
      (∀ n, (ms.foldl (fun p m => partOp k m p) q0).tag (.sym n) = p.tag (.sym n)) ∧
      ∀ key, (ms.foldl (fun p m => partOp k m p) q0).tag key
        = q0.tag key + vsum (ms.map (fun m => partDelta k m p key)) := by
  induction ms with
  | nil => intro q0 hb ht; exact ⟨hb, ht, fun key => by simp⟩
  | cons m ms ih =>
    intro q0 hb ht
    obtain ⟨⟨d, hd⟩, ha⟩ := h m (by simp)
    have henv : envP q0 = envP p := envP_congr hb ht
    have hb1 : (partOp k m q0).sameBody p := by
      unfold partOp; rw [ha]; split <;> simp_all [Particle.sameBody]
    have ht1 : ∀ n, (partOp k m q0).tag (.sym n) = p.tag (.sym n) := by
      intro n; unfold partOp; rw [ha, hd]; split <;> simp [Target.key, ht]
    obtain ⟨r1, r2, r3⟩ := ih (fun m' hm' => h m' (by simp [hm'])) _ hb1 ht1
    refine ⟨r1, r2, fun key => ?_⟩
    simp only [List.foldl_cons, List.map_cons, vsum_cons]
    rw [r3 key]
    have : (partOp k m q0).tag key = q0.tag key + partDelta k m p key := by
      unfold partOp partDelta
      rw [ha, henv, hb.1]
      by_cases hc : p.colour = m.colour <;> by_cases hk : key = m.target.key k <;> simp [hc, hk]
    rw [this]; vec3

theorem partPhase_forces_spec (k : Bool) (ms : List PartMod)
    (h : ∀ m ∈ ms, (∃ d, m.target = .force d) ∧ m.assign = false) (st : State) :
    AgreeOff (fun key => ∃ d, key = .force d k) st (partPhase k ms st) ∧
    ∀ i key, ((partPhase k ms st).ps i).tag key
      = (st.ps i).tag key + (if (st.ps i).frozen then 0 else vsum (ms.map (fun m => partDelta k m (st.ps i) key))) := by
  have hs := fun p => partFold_spec k ms h p p (Particle.sameBody_refl p) (fun _ => rfl)
  refine ⟨⟨rfl, rfl, rfl, fun i => ?_, fun i key hk => ?_⟩, fun i key => ?_⟩
  · simp only [partPhase, mapFree_ps]; split
    · exact Particle.sameBody_refl _
    · exact (hs _).1
  · simp only [partPhase, mapFree_ps]; split
    · rfl
    · rw [(hs _).2.2 key, vsum_map_zero]
      · simp
      · intro m hm
        obtain ⟨⟨d, hd⟩, _⟩ := h m hm
        unfold partDelta
        have : key ≠ m.target.key k := by
          intro he; apply hk; exact ⟨d, by rw [he, hd]; rfl⟩
        simp [this]
  · simp only [partPhase, mapFree_ps]; split
    · simp
    · exact (hs _).2.2 key


/-! ### what no phase ever does: touch a frozen particle, change identity/frozen flag/count -/

structure Pres (st st' : State) : Prop where
  n : st'.n = st.n
  ident : ∀ i, (st'.ps i).colour = (st.ps i).colour ∧ (st'.ps i).slot = (st.ps i).slot ∧
    (st'.ps i).frozen = (st.ps i).frozen
  frozen : ∀ i, (st.ps i).frozen = true → st'.ps i = st.ps i

theorem Pres.refl (st : State) : Pres st st := ⟨rfl, fun _ => ⟨rfl, rfl, rfl⟩, fun _ _ => rfl⟩

theorem Pres.trans {s1 s2 s3 : State} (h1 : Pres s1 s2) (h2 : Pres s2 s3) : Pres s1 s3 :=
  ⟨h2.n.trans h1.n,
   fun i => ⟨(h2.ident i).1.trans (h1.ident i).1, (h2.ident i).2.1.trans (h1.ident i).2.1,
     (h2.ident i).2.2.trans (h1.ident i).2.2⟩,
   fun i hf => by
     rw [h2.frozen i (by rw [(h1.ident i).2.2]; exact hf), h1.frozen i hf]⟩

theorem foldl_rel {α β} (R : β → β → Prop) (hrefl : ∀ s, R s s) (htrans : ∀ a b c, R a b → R b c → R a c)
    (f : β → α → β) (l : List α) (h : ∀ s a, a ∈ l → R s (f s a)) : ∀ s, R s (l.foldl f s) := by
  induction l with
  | nil => intro s; exact hrefl s
  | cons a l ih =>
    intro s
    exact htrans _ _ _ (h s a (by simp)) (ih (fun s b hb => h s b (by simp [hb])) (f s a))

theorem Pres.foldl {α} (f : State → α → State) (l : List α) (h : ∀ s a, a ∈ l → Pres s (f s a)) (s : State) :
    Pres s (l.foldl f s) :=
  foldl_rel Pres Pres.refl (fun _ _ _ => Pres.trans) f l h s

theorem Pres.mapFree (st : State) (f : Particle → Particle)
    (hf : ∀ p, (f p).colour = p.colour ∧ (f p).slot = p.slot ∧ (f p).frozen = p.frozen) :
    Pres st (st.mapFree f) := by
  refine ⟨rfl, fun i => ?_, fun i hfz => ?_⟩
  · simp only [mapFree_ps]; split
    · exact ⟨rfl, rfl, rfl⟩
    · exact hf _
  · simp [hfz]

theorem Pres.ofPs (st st' : State) (h : st'.ps = st.ps) (hn : st'.n = st.n) : Pres st st' :=
  ⟨hn, fun i => by rw [h]; exact ⟨rfl, rfl, rfl⟩, fun i _ => by rw [h]⟩

theorem pairOp_pres (cfg : Config) (k : Bool) (m : PairMod) (a b : Nat) (st : State) :
    Pres st (pairOp cfg k m a b st) := by
  refine ⟨pairOp_n .., fun i => ?_, fun i hfz => ?_⟩
  · have := pairOp_body cfg k m a b st i
    exact ⟨this.1, this.2.1, this.2.2.1⟩
  · unfold pairOp
    split
    · dsimp only
      cases hfa : (st.ps a).frozen <;> cases hfb : (st.ps b).frozen <;>
        by_cases hia : i = a <;> by_cases hib : i = b <;> simp_all
    · rfl

theorem pairPhase_pres (cfg : Config) (k : Bool) (ms : List PairMod) (st : State) :
    Pres st (pairPhase cfg k ms st) := by
  unfold pairPhase
  exact Pres.foldl _ _ (fun s ab _ => Pres.foldl _ _ (fun s m _ => pairOp_pres cfg k m ab.1 ab.2 s) s) st

theorem partOp_ident (k : Bool) (m : PartMod) (p : Particle) :
    (partOp k m p).colour = p.colour ∧ (partOp k m p).slot = p.slot ∧ (partOp k m p).frozen = p.frozen ∧
    (partOp k m p).r = p.r ∧ (partOp k m p).v = p.v := by
  unfold partOp; split
  · split <;> simp
  · simp

theorem partFold_ident (k : Bool) (ms : List PartMod) (p : Particle) :
    (ms.foldl (fun p m => partOp k m p) p).sameBody p := by
  induction ms generalizing p with
  | nil => exact Particle.sameBody_refl p
  | cons m ms ih =>
    have h := partOp_ident k m p
    exact Particle.sameBody_trans (ih (partOp k m p)) ⟨h.1, h.2.1, h.2.2.1, h.2.2.2.1, h.2.2.2.2⟩

theorem partPhase_pres (k : Bool) (ms : List PartMod) (st : State) : Pres st (partPhase k ms st) :=
  Pres.mapFree st _ (fun p => by
    have := partFold_ident k ms p
    exact ⟨this.1, this.2.1, this.2.2.1⟩)

theorem runStage_pres (cfg : Config) (s : Nat) (st : State) : Pres st (runStage cfg s st) :=
  (partPhase_pres _ _ st).trans (pairPhase_pres cfg _ _ _)

theorem runSymbols_pres (cfg : Config) (st : State) : Pres st (runSymbols cfg st) :=
  Pres.foldl _ _ (fun s a _ => runStage_pres cfg a s) st

theorem clearForce_pres (k : Bool) (st : State) : Pres st (clearForce k st) :=
  Pres.mapFree st _ (fun _ => ⟨rfl, rfl, rfl⟩)

theorem clearParticleData_pres (st : State) : Pres st (clearParticleData st) :=
  Pres.mapFree st _ (fun _ => ⟨rfl, rfl, rfl⟩)

theorem unprotect_ps (k : Bool) (st : State) (ig : Integrator) :
    (unprotect k st ig).ps = st.ps ∧ (unprotect k st ig).n = st.n ∧ (unprotect k st ig).forceIdx = st.forceIdx := by
  unfold unprotect
  cases ig with
  | vv c l m => exact ⟨rfl, rfl, rfl⟩
  | euler c name => dsimp only; split <;> exact ⟨rfl, rfl, rfl⟩

theorem unprotect_fold_ps (k : Bool) (igs : List Integrator) (st : State) :
    (igs.foldl (unprotect k) st).ps = st.ps ∧ (igs.foldl (unprotect k) st).n = st.n ∧
    (igs.foldl (unprotect k) st).forceIdx = st.forceIdx := by
  induction igs generalizing st with
  | nil => exact ⟨rfl, rfl, rfl⟩
  | cons ig igs ih =>
    have h1 := unprotect_ps k st ig
    have h2 := ih (unprotect k st ig)
    exact ⟨h2.1.trans h1.1, h2.2.1.trans h1.2.1, h2.2.2.trans h1.2.2⟩

theorem onColour_ident (c : Nat) (f : Particle → Particle) (p : Particle)
    (hf : (f p).colour = p.colour ∧ (f p).slot = p.slot ∧ (f p).frozen = p.frozen) :
    (onColour c f p).colour = p.colour ∧ (onColour c f p).slot = p.slot ∧ (onColour c f p).frozen = p.frozen := by
  unfold onColour; split
  · exact hf
  · exact ⟨rfl, rfl, rfl⟩

theorem integ1_pres (cfg : Config) (st : State) (ig : Integrator) : Pres st (integ1 cfg st ig) := by
  cases ig with
  | vv c l m => exact Pres.mapFree st _ (fun p => onColour_ident c _ p ⟨rfl, rfl, rfl⟩)
  | euler c name => exact Pres.mapFree st _ (fun p => onColour_ident c _ p ⟨rfl, rfl, rfl⟩)

theorem vvStep2_ident (dt l m : Rat) (idx : Bool) (p : Particle) :
    (vvStep2 dt l m idx p).colour = p.colour ∧ (vvStep2 dt l m idx p).slot = p.slot ∧
    (vvStep2 dt l m idx p).frozen = p.frozen ∧ (vvStep2 dt l m idx p).r = p.r ∧ (vvStep2 dt l m idx p).tag = p.tag := by
  unfold vvStep2; dsimp only; split <;> exact ⟨rfl, rfl, rfl, rfl, rfl⟩

theorem integ2_pres (cfg : Config) (st : State) (ig : Integrator) : Pres st (integ2 cfg st ig) := by
  cases ig with
  | vv c l m =>
    exact Pres.mapFree st _ (fun p => onColour_ident c _ p
      (by have := vvStep2_ident cfg.dt l m st.forceIdx p; exact ⟨this.1, this.2.1, this.2.2.1⟩))
  | euler c name => exact Pres.refl st

theorem aboutToStart_pres (st : State) (ig : Integrator) : Pres st (aboutToStart st ig) := by
  cases ig with
  | vv c l m => exact Pres.mapFree st _ (fun p => onColour_ident c _ p ⟨rfl, rfl, rfl⟩)
  | euler c name => exact Pres.mapFree st _ (fun p => onColour_ident c _ p ⟨rfl, rfl, rfl⟩)

theorem preForce_pres (cfg : Config) (k : Bool) (st : State) : Pres st (preForce cfg k st) := by
  unfold preForce
  have h1 := clearForce_pres k st
  have h2 : Pres (clearForce k st) (cfg.integrators.foldl (unprotect k) (clearForce k st)) :=
    Pres.ofPs _ _ (unprotect_fold_ps k _ _).1 (unprotect_fold_ps k _ _).2.1
  exact ((h1.trans h2).trans (clearParticleData_pres _)).trans (runSymbols_pres cfg _)

theorem forces_pres (cfg : Config) (k : Bool) (st : State) : Pres st (forces cfg k st) :=
  (pairPhase_pres cfg k _ st).trans (partPhase_pres k _ _)

theorem step_pres (cfg : Config) (st : State) : Pres st (step cfg st) := by
  unfold step
  have h1 : Pres st (cfg.integrators.foldl (integ1 cfg) st) := Pres.foldl _ _ (fun s a _ => integ1_pres cfg s a) st
  have h5 := preForce_pres cfg (!st.forceIdx) (cfg.integrators.foldl (integ1 cfg) st)
  have h7 := forces_pres cfg (!st.forceIdx) (preForce cfg (!st.forceIdx) (cfg.integrators.foldl (integ1 cfg) st))
  have h8 : Pres (forces cfg (!st.forceIdx) (preForce cfg (!st.forceIdx) (cfg.integrators.foldl (integ1 cfg) st)))
      { forces cfg (!st.forceIdx) (preForce cfg (!st.forceIdx) (cfg.integrators.foldl (integ1 cfg) st)) with forceIdx := !st.forceIdx } :=
    Pres.ofPs _ _ rfl rfl
  exact (((h1.trans h5).trans h7).trans h8).trans (Pres.foldl _ _ (fun s a _ => integ2_pres cfg s a) _)

theorem init_pres (cfg : Config) (st : State) : Pres st (init cfg st) := by
  unfold init
  exact (((((clearForce_pres false st).trans (clearForce_pres true _)).trans
    (Pres.foldl _ _ (fun s a _ => aboutToStart_pres s a) _)).trans (clearParticleData_pres _)).trans
    (runSymbols_pres cfg _)).trans (forces_pres cfg _ _)

theorem run_pres (cfg : Config) (n : Nat) (st : State) : Pres st (run cfg n st) := by
  induction n with
  | zero => exact Pres.refl st
  | succ n ih => exact ih.trans (step_pres cfg _)


def isSymKey (key : Key) : Prop := ∃ n, key = .sym n

theorem AgreeOff.mono {W W' : Key → Prop} {s s' : State} (h : AgreeOff W s s') (hW : ∀ k, W k → W' k) :
    AgreeOff W' s s' :=
  ⟨h.n, h.fi, h.pers, h.body, fun i key hk => h.tag i key (fun hw => hk (hW key hw))⟩

theorem AgreeOff.foldl {α} (W : Key → Prop) (f : State → α → State) (l : List α)
    (h : ∀ s a, a ∈ l → AgreeOff W s (f s a)) (s : State) : AgreeOff W s (l.foldl f s) :=
  foldl_rel (AgreeOff W) (AgreeOff.refl W) (fun _ _ _ => AgreeOff.trans) f l h s

theorem partFold_agree (W : Key → Prop) (k : Bool) (ms : List PartMod) (h : ∀ m ∈ ms, W (m.target.key k))
    (p : Particle) (key : Key) (hk : ¬ W key) :
    (ms.foldl (fun p m => partOp k m p) p).tag key = p.tag key := by
  induction ms generalizing p with
  | nil => rfl
  | cons m ms ih =>
    simp only [List.foldl_cons]
    rw [ih (fun m' hm' => h m' (by simp [hm']))]
    have : key ≠ m.target.key k := fun he => hk (he ▸ h m (by simp))
    unfold partOp; split
    · split <;> simp [this]
    · rfl

theorem partPhase_agree (W : Key → Prop) (k : Bool) (ms : List PartMod) (h : ∀ m ∈ ms, W (m.target.key k))
    (st : State) : AgreeOff W st (partPhase k ms st) := by
  refine ⟨rfl, rfl, rfl, fun i => ?_, fun i key hk => ?_⟩
  · simp only [partPhase, mapFree_ps]; split
    · exact Particle.sameBody_refl _
    · exact partFold_ident k ms _
  · simp only [partPhase, mapFree_ps]; split
    · rfl
    · exact partFold_agree W k ms h _ key hk

theorem pairPhase_agree (W : Key → Prop) (cfg : Config) (k : Bool) (ms : List PairMod)
    (h : ∀ m ∈ ms, W (m.target.key k)) (st : State) : AgreeOff W st (pairPhase cfg k ms st) := by
  unfold pairPhase
  exact AgreeOff.foldl W _ _ (fun s ab _ => AgreeOff.foldl W _ _
    (fun s m hm => pairOp_agree W cfg k m ab.1 ab.2 s (h m hm)) s) st

theorem wf_sums {cfg : Config} (h : cfg.wf = true) {m : PairMod} (hm : m ∈ cfg.sums) (k : Bool) :
    ∃ n, m.target.key k = .sym n := by
  simp only [Config.wf, Bool.and_eq_true, List.all_eq_true] at h
  have := h.1.2 m hm
  cases ht : m.target with
  | sym n => exact ⟨n, rfl⟩
  | force d => simp [ht, Target.isForce] at this

theorem wf_caches {cfg : Config} (h : cfg.wf = true) {m : PartMod} (hm : m ∈ cfg.caches) (k : Bool) :
    (∃ n, m.target.key k = .sym n) ∧ m.assign = true := by
  simp only [Config.wf, Bool.and_eq_true, List.all_eq_true] at h
  have := h.2 m hm
  cases ht : m.target with
  | sym n => exact ⟨⟨n, rfl⟩, by simpa [ht, Target.isForce] using this⟩
  | force d => simp [ht, Target.isForce] at this

theorem wf_pairForces {cfg : Config} (h : cfg.wf = true) {m : PairMod} (hm : m ∈ cfg.pairForces) :
    ∃ d, m.target = .force d := by
  simp only [Config.wf, Bool.and_eq_true, List.all_eq_true] at h
  have := h.1.1.1 m hm
  cases ht : m.target with
  | sym n => simp [ht, Target.isForce] at this
  | force d => exact ⟨d, rfl⟩

theorem wf_partForces {cfg : Config} (h : cfg.wf = true) {m : PartMod} (hm : m ∈ cfg.partForces) :
    (∃ d, m.target = .force d) ∧ m.assign = false := by
  simp only [Config.wf, Bool.and_eq_true, List.all_eq_true] at h
  have := h.1.1.2 m hm
  cases ht : m.target with
  | sym n => simp [ht, Target.isForce] at this
  | force d => exact ⟨⟨d, rfl⟩, by simpa [ht, Target.isForce] using this⟩

theorem runStage_agree (cfg : Config) (hwf : cfg.wf = true) (s : Nat) (st : State) :
    AgreeOff isSymKey st (runStage cfg s st) := by
  unfold runStage
  exact (partPhase_agree isSymKey false _ (fun m hm => (wf_caches hwf (List.mem_filter.mp hm).1 false).1) st).trans
    (pairPhase_agree isSymKey cfg false _ (fun m hm => wf_sums hwf (List.mem_filter.mp hm).1 false) _)

theorem runSymbols_agree (cfg : Config) (hwf : cfg.wf = true) (st : State) :
    AgreeOff isSymKey st (runSymbols cfg st) :=
  AgreeOff.foldl _ _ _ (fun s a _ => runStage_agree cfg hwf a s) st

/-! ### persistence dance -/

theorem hasFree_of (st : State) (i : Nat) (hi : i < st.n) (hf : (st.ps i).frozen = false) :
    hasFree st (st.ps i).colour = true := by
  simp only [hasFree, List.any_eq_true, List.mem_range]
  exact ⟨i, hi, by simp [hf]⟩

theorem hasFree_congr (st st' : State) (h : st'.ps = st.ps) (hn : st'.n = st.n) (c : Nat) :
    hasFree st' c = hasFree st c := by simp [hasFree, h, hn]

/-- after the `unprotect(other)` calls of all integrators: the buffer `other` of every integrated
quantity (of a colour with a free particle) is clearable, the current one is protected -/
theorem unprotect_fold_pers (k : Bool) (igs : List Integrator) (c : Nat) (name : String) :
    ∀ st : State, hasFree st c = true →
      ((Integrator.euler c name ∈ igs ∨ st.pers c (.force (.user name) k) = false) →
        (igs.foldl (unprotect k) st).pers c (.force (.user name) k) = false) ∧
      ((Integrator.euler c name ∈ igs ∨ st.pers c (.force (.user name) (!k)) = true) →
        (igs.foldl (unprotect k) st).pers c (.force (.user name) (!k)) = true) := by
  induction igs with
  | nil => intro st _; simp
  | cons ig igs ih =>
    intro st hfree
    have hps := unprotect_ps k st ig
    have hfree' : hasFree (unprotect k st ig) c = true := by
      rw [hasFree_congr _ _ hps.1 hps.2.1]; exact hfree
    have ih' := ih (unprotect k st ig) hfree'
    simp only [List.foldl_cons, List.mem_cons]
    -- effect of the head on the two flags
    have hhead1 : (ig = .euler c name ∨ st.pers c (.force (.user name) k) = false) →
        (unprotect k st ig).pers c (.force (.user name) k) = false := by
      intro h
      cases ig with
      | vv c' l m => rcases h with h | h; · cases h
                     · exact h
      | euler c' name' =>
        unfold unprotect; dsimp only
        split
        · dsimp only
          by_cases hc : c = c' ∧ name = name'
          · obtain ⟨rfl, rfl⟩ := hc; simp
          · rcases h with h | h
            · injection h with h1 h2; exact absurd ⟨h1.symm, h2.symm⟩ hc
            · have h1 : ¬ (c = c' ∧ Key.force (Dof.user name) k = Key.force (Dof.user name') k) := by
                intro hh; apply hc; refine ⟨hh.1, ?_⟩; injection hh.2 with h3 _; injection h3
              have h2 : ¬ (c = c' ∧ Key.force (Dof.user name) k = Key.force (Dof.user name') (!k)) := by
                intro hh; injection hh.2 with _ h4; cases k <;> simp at h4
              simp [h]
        · rcases h with h | h
          · injection h with h1 h2; subst h1; subst h2
            rename_i hnf; exact absurd hfree hnf
          · exact h
    have hhead2 : (ig = .euler c name ∨ st.pers c (.force (.user name) (!k)) = true) →
        (unprotect k st ig).pers c (.force (.user name) (!k)) = true := by
      intro h
      cases ig with
      | vv c' l m => rcases h with h | h; · cases h
                     · exact h
      | euler c' name' =>
        unfold unprotect; dsimp only
        split
        · dsimp only
          by_cases hc : c = c' ∧ name = name'
          · obtain ⟨rfl, rfl⟩ := hc
            have : ¬ (Key.force (Dof.user name) (!k) = Key.force (Dof.user name) k) := by
              intro hh; injection hh with _ h4; cases k <;> simp at h4
            simp [this]
          · rcases h with h | h
            · injection h with h1 h2; exact absurd ⟨h1.symm, h2.symm⟩ hc
            · have h1 : ¬ (c = c' ∧ Key.force (Dof.user name) (!k) = Key.force (Dof.user name') k) := by
                intro hh; injection hh.2 with _ h4; cases k <;> simp at h4
              have h2 : ¬ (c = c' ∧ Key.force (Dof.user name) (!k) = Key.force (Dof.user name') (!k)) := by
                intro hh; apply hc; refine ⟨hh.1, ?_⟩; injection hh.2 with h3 _; injection h3
              simp [h]
        · rcases h with h | h
          · injection h with h1 h2; subst h1; subst h2
            rename_i hnf; exact absurd hfree hnf
          · exact h
    constructor
    · intro h
      apply ih'.1
      rcases h with (h | h) | h
      · right; exact hhead1 (Or.inl h.symm)
      · left; exact h
      · right; exact hhead1 (Or.inr h)
    · intro h
      apply ih'.2
      rcases h with (h | h) | h
      · right; exact hhead2 (Or.inl h.symm)
      · left; exact h
      · right; exact hhead2 (Or.inr h)


/-- what pair module `m` contributes to particle `i` in state `S`: sum over all partners `b` for
which `(i,b)` is a list entry inside the module's cutoff (then `i` is the first particle), plus the
sum over all partners `a` for which `(a,i)` is one (then `i` is the second particle). -/
def pairForceOn (cfg : Config) (m : PairMod) (S : State) (i : Nat) : Vec3 :=
  vsum ((List.range S.n).map (fun b =>
      if pairActive cfg m S i b then m.first (mkEnv cfg.box (S.ps i) (S.ps b)) else 0))
  + vsum ((List.range S.n).map (fun a =>
      if pairActive cfg m S a i then m.second (mkEnv cfg.box (S.ps a) (S.ps i)) else 0))

theorem pairContrib_eq (cfg : Config) (k : Bool) (m : PairMod) (S : State) (i : Nat) (key : Key)
    (hi : i < S.n) (hf : (S.ps i).frozen = false) :
    pairContrib cfg k m S i key = if key = m.target.key k then pairForceOn cfg m S i else 0 := by
  unfold pairContrib
  have hpt : ∀ a b, pairDelta cfg k m S a b i key =
      (if a = i then (if pairActive cfg m S i b = true ∧ key = m.target.key k
          then m.first (mkEnv cfg.box (S.ps i) (S.ps b)) else 0) else 0)
      + (if b = i then (if pairActive cfg m S a i = true ∧ key = m.target.key k
          then m.second (mkEnv cfg.box (S.ps a) (S.ps i)) else 0) else 0) := by
    intro a b
    unfold pairDelta
    by_cases hia : a = i
    · subst hia
      by_cases hib : b = a
      · subst hib
        have : pairActive cfg m S b b = false := by simp [pairActive, inList]
        simp [this]
      · have hib' : ¬ a = b := fun h => hib h.symm
        by_cases hact : pairActive cfg m S a b = true
        · simp [hact, hib, hib', hf]
        · simp [hact, hib]
    · have hia' : ¬ i = a := fun h => hia h.symm
      by_cases hib : b = i
      · subst hib
        by_cases hact : pairActive cfg m S a b = true
        · simp [hact, hia, hia', hf]
        · simp [hact, hia]
      · have hib' : ¬ i = b := fun h => hib h.symm
        simp [hia, hib, hia', hib']
  rw [vsum_map_congr _ _ _ (fun a _ => vsum_map_congr _ _ _ (fun b _ => hpt a b))]
  rw [vsum_map_congr _ _ _ (fun a _ => vsum_map_add _ _ _), vsum_map_add]
  -- first part: the outer indicator
  have h1 : vsum ((List.range S.n).map (fun a => vsum ((List.range S.n).map (fun b =>
        if a = i then (if pairActive cfg m S i b = true ∧ key = m.target.key k
          then m.first (mkEnv cfg.box (S.ps i) (S.ps b)) else 0) else 0))))
      = vsum ((List.range S.n).map (fun b => if pairActive cfg m S i b = true ∧ key = m.target.key k
          then m.first (mkEnv cfg.box (S.ps i) (S.ps b)) else 0)) := by
    rw [← vsum_range_ite S.n i hi (fun _ => vsum ((List.range S.n).map (fun b =>
        if pairActive cfg m S i b = true ∧ key = m.target.key k
          then m.first (mkEnv cfg.box (S.ps i) (S.ps b)) else 0)))]
    apply vsum_map_congr
    intro a _
    by_cases ha : a = i
    · simp [ha]
    · simp only [ha, if_false]; exact vsum_map_zero _ _ (fun _ _ => rfl)
  have h2 : vsum ((List.range S.n).map (fun a => vsum ((List.range S.n).map (fun b =>
        if b = i then (if pairActive cfg m S a i = true ∧ key = m.target.key k
          then m.second (mkEnv cfg.box (S.ps a) (S.ps i)) else 0) else 0))))
      = vsum ((List.range S.n).map (fun a => if pairActive cfg m S a i = true ∧ key = m.target.key k
          then m.second (mkEnv cfg.box (S.ps a) (S.ps i)) else 0)) := by
    apply vsum_map_congr
    intro a _
    exact vsum_range_ite S.n i hi (fun _ => if pairActive cfg m S a i = true ∧ key = m.target.key k
          then m.second (mkEnv cfg.box (S.ps a) (S.ps i)) else 0)
  rw [h1, h2]
  by_cases hk : key = m.target.key k
  · simp [hk, pairForceOn]
  · simp only [hk, and_false, if_false]
    rw [vsum_map_zero _ _ (fun _ _ => rfl)]; simp


/-- THE RIGHT-HAND SIDE OF C05: every registered force module driving dof `d`, each exactly once,
evaluated on state `S` for particle `i` -/
def totalForce (cfg : Config) (S : State) (i : Nat) (d : Dof) : Vec3 :=
  vsum (cfg.pairForces.map (fun m => if m.target = .force d then pairForceOn cfg m S i else 0))
  + vsum (cfg.partForces.map (fun m =>
      if m.target = .force d ∧ m.colour = (S.ps i).colour then m.expr.eval (envP (S.ps i)) else 0))

def isForceKey (k : Bool) (key : Key) : Prop := ∃ d, key = .force d k

theorem forces_agree (cfg : Config) (hwf : cfg.wf = true) (k : Bool) (S : State) :
    AgreeOff (isForceKey k) S (forces cfg k S) := by
  unfold forces
  exact (pairPhase_agree _ cfg k _ (fun m hm => by
      obtain ⟨d, hd⟩ := wf_pairForces hwf hm; exact ⟨d, by rw [hd]; rfl⟩) S).trans
    (partPhase_agree _ k _ (fun m hm => by
      obtain ⟨⟨d, hd⟩, _⟩ := wf_partForces hwf hm; exact ⟨d, by rw [hd]; rfl⟩) _)

theorem forces_spec (cfg : Config) (hwf : cfg.wf = true) (k : Bool) (S : State) (i : Nat)
    (hi : i < S.n) (hf : (S.ps i).frozen = false) (d : Dof) :
    ((forces cfg k S).ps i).tag (.force d k) = (S.ps i).tag (.force d k) + totalForce cfg S i d := by
  unfold forces
  obtain ⟨hA, hT⟩ := pairPhase_spec (isForceKey k) cfg k cfg.pairForces S
    (fun m hm => by obtain ⟨d, hd⟩ := wf_pairForces hwf hm; exact ⟨d, by rw [hd]; rfl⟩)
    (fun m _ n _ h => by obtain ⟨d, hd⟩ := h; cases hd)
  obtain ⟨_, hP⟩ := partPhase_forces_spec k cfg.partForces (fun m hm => wf_partForces hwf hm)
    (pairPhase cfg k cfg.pairForces S)
  rw [hP i, hT i]
  have hbody := hA.body i
  have hfr : ((pairPhase cfg k cfg.pairForces S).ps i).frozen = false := by rw [hbody.2.2.1]; exact hf
  have henv : envP ((pairPhase cfg k cfg.pairForces S).ps i) = envP (S.ps i) :=
    envP_congr hbody (fun n => hA.tag i _ (fun h => by obtain ⟨d, hd⟩ := h; cases hd))
  simp only [hfr, Bool.false_eq_true, if_false]
  unfold totalForce
  have e1 : vsum (cfg.pairForces.map (fun m => pairContrib cfg k m S i (.force d k)))
      = vsum (cfg.pairForces.map (fun m => if m.target = .force d then pairForceOn cfg m S i else 0)) := by
    apply vsum_map_congr
    intro m hm
    rw [pairContrib_eq cfg k m S i _ hi hf]
    obtain ⟨d', hd'⟩ := wf_pairForces hwf hm
    rw [hd']
    by_cases hdd : d' = d
    · subst hdd; simp [Target.key]
    · have : ¬ d = d' := fun h => hdd h.symm
      simp [Target.key, hdd, this]
  have e2 : vsum (cfg.partForces.map (fun m => partDelta k m ((pairPhase cfg k cfg.pairForces S).ps i) (.force d k)))
      = vsum (cfg.partForces.map (fun m =>
          if m.target = .force d ∧ m.colour = (S.ps i).colour then m.expr.eval (envP (S.ps i)) else 0)) := by
    apply vsum_map_congr
    intro m hm
    unfold partDelta
    rw [henv, hbody.1]
    obtain ⟨⟨d', hd'⟩, _⟩ := wf_partForces hwf hm
    rw [hd']
    by_cases hdd : d' = d
    · subst hdd
      by_cases hc : (S.ps i).colour = m.colour
      · simp [Target.key, hc]
      · have : ¬ m.colour = (S.ps i).colour := fun h => hc h.symm
        simp [Target.key, hc, this]
    · have : ¬ d = d' := fun h => hdd h.symm
      simp [Target.key, hdd, this]
  rw [e1, e2]; vec3

/-! ### the state the forces are evaluated on -/

theorem clearParticleData_tag (st : State) (i : Nat) (key : Key) :
    ((clearParticleData st).ps i).tag key =
      if (st.ps i).frozen then (st.ps i).tag key
      else if key.inTag && !st.pers (st.ps i).colour key then 0 else (st.ps i).tag key := by
  simp only [clearParticleData, mapFree_ps]
  split <;> rfl

/-- buffer `k` of dof `d` is zero when the force loops start: `clear(other)` for the velocity,
`unprotect(other)` + `clearParticleData` for an integrated quantity -/
theorem preForce_clears (cfg : Config) (hwf : cfg.wf = true) (k : Bool) (st : State) (i : Nat)
    (hi : i < st.n) (hf : (st.ps i).frozen = false) (d : Dof)
    (hd : d = .vel ∨ ∃ name, d = .user name ∧ Integrator.euler (st.ps i).colour name ∈ cfg.integrators) :
    ((preForce cfg k st).ps i).tag (.force d k) = 0 := by
  unfold preForce
  have hsym := runSymbols_agree cfg hwf
    (clearParticleData (cfg.integrators.foldl (unprotect k) (clearForce k st)))
  rw [hsym.tag i _ (fun h => by obtain ⟨n, hn⟩ := h; cases hn)]
  have hps := unprotect_fold_ps k cfg.integrators (clearForce k st)
  rw [clearParticleData_tag, hps.1]
  have hfr : ((clearForce k st).ps i).frozen = false := by simp [clearForce, hf]
  have hcol : ((clearForce k st).ps i).colour = (st.ps i).colour := by simp [clearForce, hf]
  simp only [hfr, Bool.false_eq_true, if_false]
  rcases hd with rfl | ⟨name, rfl, hmem⟩
  · simp [Key.inTag, clearForce, hf]
  · have hfree : hasFree (clearForce k st) (st.ps i).colour = true := by
      have := hasFree_of (clearForce k st) i hi hfr
      rw [hcol] at this; exact this
    have := (unprotect_fold_pers k cfg.integrators (st.ps i).colour name (clearForce k st) hfree).1 (Or.inl hmem)
    rw [hcol, this]
    simp [Key.inTag]

theorem integ2_tag (cfg : Config) (st : State) (ig : Integrator) (i : Nat) :
    ((integ2 cfg st ig).ps i).tag = (st.ps i).tag ∧ ((integ2 cfg st ig).ps i).r = (st.ps i).r ∧
    (integ2 cfg st ig).forceIdx = st.forceIdx ∧ (integ2 cfg st ig).n = st.n := by
  cases ig with
  | vv c l m =>
    have h : ∀ p : Particle, (onColour c (vvStep2 cfg.dt l m st.forceIdx) p).tag = p.tag ∧
        (onColour c (vvStep2 cfg.dt l m st.forceIdx) p).r = p.r := by
      intro p; unfold onColour; split
      · have := vvStep2_ident cfg.dt l m st.forceIdx p
        exact ⟨this.2.2.2.2, this.2.2.2.1⟩
      · exact ⟨rfl, rfl⟩
    refine ⟨?_, ?_, rfl, rfl⟩
    · simp only [integ2, mapFree_ps]; split
      · rfl
      · exact (h _).1
    · simp only [integ2, mapFree_ps]; split
      · rfl
      · exact (h _).2
  | euler c name => exact ⟨rfl, rfl, rfl, rfl⟩

theorem integ2_fold_tag (cfg : Config) (igs : List Integrator) (st : State) (i : Nat) :
    ((igs.foldl (integ2 cfg) st).ps i).tag = (st.ps i).tag ∧ ((igs.foldl (integ2 cfg) st).ps i).r = (st.ps i).r ∧
    (igs.foldl (integ2 cfg) st).forceIdx = st.forceIdx ∧ (igs.foldl (integ2 cfg) st).n = st.n := by
  induction igs generalizing st with
  | nil => exact ⟨rfl, rfl, rfl, rfl⟩
  | cons ig igs ih =>
    have h1 := integ2_tag cfg st ig i
    have h2 := ih (integ2 cfg st ig)
    exact ⟨h2.1.trans h1.1, h2.2.1.trans h1.2.1, h2.2.2.1.trans h1.2.2.1, h2.2.2.2.trans h1.2.2.2⟩

/-- the state on which `step` evaluates the forces: after `integrateStep1` of all integrators, the
clearing, and `runSymbols` -/
def preState (cfg : Config) (st : State) : State :=
  preForce cfg (!st.forceIdx) (cfg.integrators.foldl (integ1 cfg) st)

theorem step_forceIdx (cfg : Config) (st : State) : (step cfg st).forceIdx = !st.forceIdx := by
  unfold step; exact (integ2_fold_tag cfg _ _ 0).2.2.1

theorem preState_pres (cfg : Config) (st : State) : Pres st (preState cfg st) :=
  (Pres.foldl _ _ (fun s a _ => integ1_pres cfg s a) st).trans (preForce_pres cfg _ _)

theorem step_tag (cfg : Config) (st : State) (i : Nat) :
    ((step cfg st).ps i).tag = ((forces cfg (!st.forceIdx) (preState cfg st)).ps i).tag := by
  unfold step; exact (integ2_fold_tag cfg _ _ i).1

/-- C05, core: after `step`, the current force buffer of every free particle holds exactly the sum of
all registered force modules evaluated on `preState` — nothing else. -/
theorem step_force (cfg : Config) (hwf : cfg.wf = true) (st : State) (i : Nat)
    (hi : i < st.n) (hf : (st.ps i).frozen = false) (d : Dof)
    (hd : d = .vel ∨ ∃ name, d = .user name ∧ Integrator.euler (st.ps i).colour name ∈ cfg.integrators) :
    ((step cfg st).ps i).tag (.force d (step cfg st).forceIdx) = totalForce cfg (preState cfg st) i d := by
  rw [step_forceIdx, step_tag]
  have hp1 : Pres st (cfg.integrators.foldl (integ1 cfg) st) := Pres.foldl _ _ (fun s a _ => integ1_pres cfg s a) st
  have hp := preState_pres cfg st
  have hi' : i < (preState cfg st).n := by rw [hp.n]; exact hi
  have hf' : ((preState cfg st).ps i).frozen = false := by rw [(hp.ident i).2.2]; exact hf
  rw [forces_spec cfg hwf _ _ i hi' hf' d]
  have hz : ((preState cfg st).ps i).tag (.force d (!st.forceIdx)) = 0 := by
    unfold preState
    apply preForce_clears cfg hwf
    · rw [hp1.n]; exact hi
    · rw [(hp1.ident i).2.2]; exact hf
    · rw [(hp1.ident i).1]; exact hd
  rw [hz]; simp


/-! ### the initial force computation -/

/-- the state on which `init` evaluates the forces -/
def initState (cfg : Config) (st : State) : State :=
  runSymbols cfg (clearParticleData (cfg.integrators.foldl aboutToStart (clearForce true (clearForce false st))))

theorem init_eq (cfg : Config) (st : State) : init cfg st = forces cfg st.forceIdx (initState cfg st) := rfl

theorem aboutToStart_other (st : State) (ig : Integrator) :
    (aboutToStart st ig).n = st.n ∧ (aboutToStart st ig).forceIdx = st.forceIdx ∧ (aboutToStart st ig).pers = st.pers := by
  cases ig <;> exact ⟨rfl, rfl, rfl⟩

/-- `isAboutToStart` only ever writes zeros into force slots -/
theorem aboutToStart_tag (st : State) (ig : Integrator) (i : Nat) (key : Key) :
    ((aboutToStart st ig).ps i).tag key = (st.ps i).tag key ∨ ((aboutToStart st ig).ps i).tag key = 0 := by
  cases ig with
  | vv c l m =>
    simp only [aboutToStart, mapFree_ps]; split
    · left; rfl
    · unfold onColour; split
      · simp only [setTag_tag]; split
        · right; rfl
        · split
          · right; rfl
          · left; rfl
      · left; rfl
  | euler c name =>
    simp only [aboutToStart, mapFree_ps]; split
    · left; rfl
    · unfold onColour; split
      · simp only [setTag_tag]; split
        · right; rfl
        · split
          · right; rfl
          · left; rfl
      · left; rfl

theorem aboutToStart_euler_zero (st : State) (c : Nat) (name : String) (i : Nat) (k : Bool)
    (hf : (st.ps i).frozen = false) (hc : (st.ps i).colour = c) :
    ((aboutToStart st (.euler c name)).ps i).tag (.force (.user name) k) = 0 := by
  simp only [aboutToStart, mapFree_ps, hf, onColour, hc]
  cases k <;> simp

theorem aboutToStart_fold_zero (igs : List Integrator) (i : Nat) (key : Key) :
    ∀ st : State, (st.ps i).tag key = 0 → ((igs.foldl aboutToStart st).ps i).tag key = 0 := by
  induction igs with
  | nil => intro st h; exact h
  | cons ig igs ih =>
    intro st h
    apply ih
    rcases aboutToStart_tag st ig i key with h' | h'
    · rw [h', h]
    · exact h'

theorem aboutToStart_fold_euler (igs : List Integrator) (c : Nat) (name : String) (i : Nat) (k : Bool)
    (hmem : Integrator.euler c name ∈ igs) :
    ∀ st : State, (st.ps i).frozen = false → (st.ps i).colour = c →
      ((igs.foldl aboutToStart st).ps i).tag (.force (.user name) k) = 0 := by
  induction igs with
  | nil => cases hmem
  | cons ig igs ih =>
    intro st hf hc
    have hp := aboutToStart_pres st ig
    simp only [List.foldl_cons]
    rcases List.mem_cons.mp hmem with h | h
    · subst h
      exact aboutToStart_fold_zero igs i _ _ (aboutToStart_euler_zero st c name i k hf hc)
    · exact ih h _ (by rw [(hp.ident i).2.2]; exact hf) (by rw [(hp.ident i).1]; exact hc)

theorem initState_pres (cfg : Config) (st : State) : Pres st (initState cfg st) :=
  ((((clearForce_pres false st).trans (clearForce_pres true _)).trans
    (Pres.foldl _ _ (fun s a _ => aboutToStart_pres s a) _)).trans (clearParticleData_pres _)).trans
    (runSymbols_pres cfg _)

theorem initState_clears (cfg : Config) (hwf : cfg.wf = true) (st : State) (i : Nat)
    (hf : (st.ps i).frozen = false) (d : Dof) (k : Bool)
    (hd : d = .vel ∨ ∃ name, d = .user name ∧ Integrator.euler (st.ps i).colour name ∈ cfg.integrators) :
    ((initState cfg st).ps i).tag (.force d k) = 0 := by
  unfold initState
  have hsym := runSymbols_agree cfg hwf
    (clearParticleData (cfg.integrators.foldl aboutToStart (clearForce true (clearForce false st))))
  rw [hsym.tag i _ (fun h => by obtain ⟨n, hn⟩ := h; cases hn)]
  rw [clearParticleData_tag]
  have hz : ((cfg.integrators.foldl aboutToStart (clearForce true (clearForce false st))).ps i).tag (.force d k) = 0 := by
    rcases hd with rfl | ⟨name, rfl, hmem⟩
    · apply aboutToStart_fold_zero
      cases k <;> simp [clearForce, hf]
    · apply aboutToStart_fold_euler _ _ _ _ _ hmem
      · simp [clearForce, hf]
      · simp [clearForce, hf]
  rw [hz]; split <;> (try split) <;> rfl

/-- C05 for the force computation before the main loop -/
theorem init_force (cfg : Config) (hwf : cfg.wf = true) (st : State) (i : Nat)
    (hi : i < st.n) (hf : (st.ps i).frozen = false) (d : Dof)
    (hd : d = .vel ∨ ∃ name, d = .user name ∧ Integrator.euler (st.ps i).colour name ∈ cfg.integrators) :
    ((init cfg st).ps i).tag (.force d st.forceIdx) = totalForce cfg (initState cfg st) i d := by
  rw [init_eq]
  have hp := initState_pres cfg st
  rw [forces_spec cfg hwf _ _ i (by rw [hp.n]; exact hi) (by rw [(hp.ident i).2.2]; exact hf) d,
    initState_clears cfg hwf st i hf d _ hd]
  simp

theorem forces_forceIdx (cfg : Config) (hwf : cfg.wf = true) (k : Bool) (S : State) :
    (forces cfg k S).forceIdx = S.forceIdx := (forces_agree cfg hwf k S).fi

theorem init_forceIdx (cfg : Config) (hwf : cfg.wf = true) (st : State) : (init cfg st).forceIdx = st.forceIdx := by
  rw [init_eq, forces_forceIdx cfg hwf]
  unfold initState
  rw [(runSymbols_agree cfg hwf _).fi]
  simp only [clearParticleData, mapFree_forceIdx]
  have : ∀ (igs : List Integrator) (s : State), (igs.foldl aboutToStart s).forceIdx = s.forceIdx := by
    intro igs
    induction igs with
    | nil => intro s; rfl
    | cons ig igs ih => intro s; simp only [List.foldl_cons]; rw [ih, (aboutToStart_other s ig).2.1]
  rw [this]; rfl

theorem run_forceIdx (cfg : Config) (n : Nat) (st : State) :
    (run cfg n st).forceIdx = (if n % 2 = 0 then st.forceIdx else !st.forceIdx) := by
  induction n with
  | zero => rfl
  | succ n ih =>
    simp only [run, step_forceIdx, ih]
    by_cases h : n % 2 = 0
    · have : (n + 1) % 2 ≠ 0 := by omega
      simp [h, this]
    · have : (n + 1) % 2 = 0 := by omega
      simp [h, this]


/-! ### per-particle view of the integrator loops -/

def integ1P (cfg : Config) (idx : Bool) (ig : Integrator) (p : Particle) : Particle :=
  match ig with
  | .vv c l m => onColour c (vvStep1 cfg.box cfg.dt l m idx) p
  | .euler c name => onColour c (eulerStep1 cfg.dt name idx) p

def integ2P (cfg : Config) (idx : Bool) (ig : Integrator) (p : Particle) : Particle :=
  match ig with
  | .vv c l m => onColour c (vvStep2 cfg.dt l m idx) p
  | .euler _ _ => p

theorem integ1_forceIdx (cfg : Config) (st : State) (ig : Integrator) : (integ1 cfg st ig).forceIdx = st.forceIdx := by
  cases ig <;> rfl

theorem integ1P_frozen (cfg : Config) (idx : Bool) (ig : Integrator) (p : Particle) :
    (integ1P cfg idx ig p).frozen = p.frozen ∧ (integ1P cfg idx ig p).colour = p.colour := by
  cases ig with
  | vv c l m => simp only [integ1P, onColour]; split <;> exact ⟨rfl, rfl⟩
  | euler c name => simp only [integ1P, onColour]; split <;> exact ⟨rfl, rfl⟩

theorem integ1_ps (cfg : Config) (st : State) (ig : Integrator) (i : Nat) :
    (integ1 cfg st ig).ps i = if (st.ps i).frozen then st.ps i else integ1P cfg st.forceIdx ig (st.ps i) := by
  cases ig <;> rfl

theorem integ1_fold_ps (cfg : Config) (igs : List Integrator) (st : State) (i : Nat)
    (hf : (st.ps i).frozen = false) :
    (igs.foldl (integ1 cfg) st).ps i = igs.foldl (fun p ig => integ1P cfg st.forceIdx ig p) (st.ps i) ∧
    (igs.foldl (integ1 cfg) st).forceIdx = st.forceIdx := by
  induction igs generalizing st with
  | nil => exact ⟨rfl, rfl⟩
  | cons ig igs ih =>
    simp only [List.foldl_cons]
    have h1 := integ1_ps cfg st ig i
    simp only [hf, Bool.false_eq_true, if_false] at h1
    have hf' : ((integ1 cfg st ig).ps i).frozen = false := by rw [h1, (integ1P_frozen ..).1]; exact hf
    obtain ⟨r1, r2⟩ := ih (integ1 cfg st ig) hf'
    rw [r1, r2, integ1_forceIdx, h1]
    exact ⟨rfl, rfl⟩

theorem integ2_ps (cfg : Config) (st : State) (ig : Integrator) (i : Nat) :
    (integ2 cfg st ig).ps i = if (st.ps i).frozen then st.ps i else integ2P cfg st.forceIdx ig (st.ps i) := by
  cases ig with
  | vv c l m => rfl
  | euler c name => simp [integ2, integ2P]

theorem integ2P_frozen (cfg : Config) (idx : Bool) (ig : Integrator) (p : Particle) :
    (integ2P cfg idx ig p).frozen = p.frozen ∧ (integ2P cfg idx ig p).colour = p.colour ∧
    (integ2P cfg idx ig p).tag = p.tag ∧ (integ2P cfg idx ig p).r = p.r := by
  cases ig with
  | vv c l m =>
    simp only [integ2P, onColour]; split
    · have := vvStep2_ident cfg.dt l m idx p
      exact ⟨this.2.2.1, this.1, this.2.2.2.2, this.2.2.2.1⟩
    · exact ⟨rfl, rfl, rfl, rfl⟩
  | euler c name => exact ⟨rfl, rfl, rfl, rfl⟩

theorem integ2_fold_ps (cfg : Config) (igs : List Integrator) (st : State) (i : Nat)
    (hf : (st.ps i).frozen = false) :
    (igs.foldl (integ2 cfg) st).ps i = igs.foldl (fun p ig => integ2P cfg st.forceIdx ig p) (st.ps i) := by
  induction igs generalizing st with
  | nil => rfl
  | cons ig igs ih =>
    simp only [List.foldl_cons]
    have h1 := integ2_ps cfg st ig i
    simp only [hf, Bool.false_eq_true, if_false] at h1
    have hf' : ((integ2 cfg st ig).ps i).frozen = false := by rw [h1, (integ2P_frozen ..).1]; exact hf
    rw [ih (integ2 cfg st ig) hf', (integ2_tag cfg st ig i).2.2.1, h1]

/-- `(lambda, mass)` of the velocity-Verlet integrators registered for colour `c` -/
def vvOfL (igs : List Integrator) (c : Nat) : List (Rat × Rat) :=
  igs.filterMap (fun ig => match ig with
    | .vv c' l m => if c' = c then some (l, m) else none
    | .euler _ _ => none)

def vvOf (cfg : Config) (c : Nat) : List (Rat × Rat) := vvOfL cfg.integrators c

def vvHead (ig : Integrator) (c : Nat) : List (Rat × Rat) :=
  match ig with
  | .vv c' l m => if c' = c then [(l, m)] else []
  | .euler _ _ => []

theorem vvOfL_cons (ig : Integrator) (igs : List Integrator) (c : Nat) :
    vvOfL (ig :: igs) c = vvHead ig c ++ vvOfL igs c := by
  cases ig with
  | vv c' l m => by_cases h : c' = c <;> simp [vvOfL, vvHead, h]
  | euler c' n => simp [vvOfL, vvHead]

/-- integrators that are not a velocity Verlet of the particle's colour leave `r`, `v` and all force slots alone -/
theorem integ1P_other (cfg : Config) (idx : Bool) (ig : Integrator) (p : Particle)
    (h : ∀ l m, ig ≠ .vv p.colour l m) :
    (integ1P cfg idx ig p).r = p.r ∧ (integ1P cfg idx ig p).v = p.v ∧
    (∀ d k, (integ1P cfg idx ig p).tag (.force d k) = p.tag (.force d k)) := by
  cases ig with
  | vv c l m =>
    have : p.colour ≠ c := fun hc => h l m (by rw [hc])
    simp [integ1P, onColour, this]
  | euler c name =>
    simp only [integ1P, onColour]; split
    · simp [eulerStep1]
    · simp

theorem integ1P_fold_none (cfg : Config) (idx : Bool) (igs : List Integrator) (p : Particle)
    (h : vvOfL igs p.colour = []) :
    (igs.foldl (fun p ig => integ1P cfg idx ig p) p).r = p.r ∧
    (igs.foldl (fun p ig => integ1P cfg idx ig p) p).v = p.v ∧
    (∀ d k, (igs.foldl (fun p ig => integ1P cfg idx ig p) p).tag (.force d k) = p.tag (.force d k)) := by
  induction igs generalizing p with
  | nil => exact ⟨rfl, rfl, fun _ _ => rfl⟩
  | cons ig igs ih =>
    rw [vvOfL_cons] at h
    have hne : ∀ l m, ig ≠ .vv p.colour l m := by
      intro l m he; subst he; simp [vvHead] at h
    have h1 := integ1P_other cfg idx ig p hne
    have hc := (integ1P_frozen cfg idx ig p).2
    have h2 := ih (integ1P cfg idx ig p) (by rw [hc]; exact (List.append_eq_nil_iff.mp h).2)
    simp only [List.foldl_cons]
    exact ⟨h2.1.trans h1.1, h2.2.1.trans h1.2.1, fun d k => (h2.2.2 d k).trans (h1.2.2 d k)⟩

/-- exactly one velocity Verlet for the colour of `p`: after `integrateStep1` of ALL integrators -/
theorem integ1P_fold_one (cfg : Config) (idx : Bool) (igs : List Integrator) (p : Particle) (l m : Rat)
    (h : vvOfL igs p.colour = [(l, m)]) :
    (igs.foldl (fun p ig => integ1P cfg idx ig p) p).r
      = wrap cfg.box (p.r + cfg.dt • (p.v + ((1 / 2 : Rat) * cfg.dt) • ((1 / m) • p.tag (.force .vel idx)))) ∧
    (igs.foldl (fun p ig => integ1P cfg idx ig p) p).v
      = p.v + l • (cfg.dt • ((1 / m) • p.tag (.force .vel idx))) ∧
    (∀ d k, (igs.foldl (fun p ig => integ1P cfg idx ig p) p).tag (.force d k) = p.tag (.force d k)) := by
  induction igs generalizing p with
  | nil => simp [vvOfL] at h
  | cons ig igs ih =>
    simp only [List.foldl_cons]
    have hc := (integ1P_frozen cfg idx ig p).2
    by_cases hig : ∃ l' m', ig = .vv p.colour l' m'
    · obtain ⟨l', m', rfl⟩ := hig
      rw [vvOfL_cons] at h
      simp only [vvHead, if_true, List.singleton_append, List.cons.injEq, Prod.mk.injEq] at h
      obtain ⟨⟨rfl, rfl⟩, hrest⟩ := h
      have h2 := integ1P_fold_none cfg idx igs (integ1P cfg idx (.vv p.colour l' m') p) (by rw [hc]; exact hrest)
      have hhead : integ1P cfg idx (.vv p.colour l' m') p = vvStep1 cfg.box cfg.dt l' m' idx p := by
        simp [integ1P, onColour]
      rw [hhead] at h2 ⊢
      exact ⟨h2.1.trans rfl, h2.2.1.trans rfl, fun d k => (h2.2.2 d k).trans rfl⟩
    · have hne : ∀ l' m', ig ≠ .vv p.colour l' m' := fun l' m' he => hig ⟨l', m', he⟩
      have h1 := integ1P_other cfg idx ig p hne
      rw [vvOfL_cons] at h
      have hhd : vvHead ig p.colour = [] := by
        cases ig with
        | vv c' l' m' =>
          have : c' ≠ p.colour := fun hcc => hne l' m' (by rw [hcc])
          simp [vvHead, this]
        | euler c' n => rfl
      rw [hhd, List.nil_append] at h
      have h2 := ih (integ1P cfg idx ig p) (by rw [hc]; exact h)
      rw [h1.1, h1.2.1, h1.2.2] at h2
      exact ⟨h2.1, h2.2.1, fun d k => (h2.2.2 d k).trans (h1.2.2 d k)⟩


theorem vvStep2_v (dt l m : Rat) (idx : Bool) (p : Particle) :
    (vvStep2 dt l m idx p).v = p.v + (dt * (1 / 2 - l)) • ((1 / m) • p.tag (.force .vel (!idx)))
      + (dt / 2) • ((1 / m) • p.tag (.force .vel idx)) := by
  unfold vvStep2
  by_cases h : l = 1 / 2
  · subst h; simp only [ne_eq, not_true_eq_false, if_false]; vec3
  · simp only [ne_eq, h, not_false_eq_true, if_true]

theorem integ2P_other (cfg : Config) (idx : Bool) (ig : Integrator) (p : Particle)
    (h : ∀ l m, ig ≠ .vv p.colour l m) : integ2P cfg idx ig p = p := by
  cases ig with
  | vv c l m =>
    have : p.colour ≠ c := fun hc => h l m (by rw [hc])
    simp [integ2P, onColour, this]
  | euler c name => rfl

theorem integ2P_fold_none (cfg : Config) (idx : Bool) (igs : List Integrator) (p : Particle)
    (h : vvOfL igs p.colour = []) : igs.foldl (fun p ig => integ2P cfg idx ig p) p = p := by
  induction igs generalizing p with
  | nil => rfl
  | cons ig igs ih =>
    rw [vvOfL_cons] at h
    have hne : ∀ l m, ig ≠ .vv p.colour l m := by
      intro l m he; subst he; simp [vvHead] at h
    simp only [List.foldl_cons]
    rw [integ2P_other cfg idx ig p hne]
    exact ih p (List.append_eq_nil_iff.mp h).2

theorem integ2P_fold_one (cfg : Config) (idx : Bool) (igs : List Integrator) (p : Particle) (l m : Rat)
    (h : vvOfL igs p.colour = [(l, m)]) :
    igs.foldl (fun p ig => integ2P cfg idx ig p) p = vvStep2 cfg.dt l m idx p := by
  induction igs generalizing p with
  | nil => simp [vvOfL] at h
  | cons ig igs ih =>
    simp only [List.foldl_cons]
    by_cases hig : ∃ l' m', ig = .vv p.colour l' m'
    · obtain ⟨l', m', rfl⟩ := hig
      rw [vvOfL_cons] at h
      simp only [vvHead, if_true, List.singleton_append, List.cons.injEq, Prod.mk.injEq] at h
      obtain ⟨⟨rfl, rfl⟩, hrest⟩ := h
      have hhead : integ2P cfg idx (.vv p.colour l' m') p = vvStep2 cfg.dt l' m' idx p := by
        simp [integ2P, onColour]
      rw [hhead]
      apply integ2P_fold_none
      rw [(vvStep2_ident cfg.dt l' m' idx p).1]; exact hrest
    · have hne : ∀ l' m', ig ≠ .vv p.colour l' m' := fun l' m' he => hig ⟨l', m', he⟩
      rw [integ2P_other cfg idx ig p hne]
      rw [vvOfL_cons] at h
      have hhd : vvHead ig p.colour = [] := by
        cases ig with
        | vv c' l' m' =>
          have : c' ≠ p.colour := fun hcc => hne l' m' (by rw [hcc])
          simp [vvHead, this]
        | euler c' n => rfl
      rw [hhd, List.nil_append] at h
      exact ih p h

/-! ### what the force evaluation leaves alone -/

theorem clearForce_agree (k : Bool) (st : State) : AgreeOff (isForceKey k) st (clearForce k st) := by
  refine ⟨rfl, rfl, rfl, fun i => ?_, fun i key hk => ?_⟩
  · simp only [clearForce, mapFree_ps]; split
    · exact Particle.sameBody_refl _
    · exact ⟨rfl, rfl, rfl, rfl, rfl⟩
  · simp only [clearForce, mapFree_ps]; split
    · rfl
    · have : key ≠ .force .vel k := fun h => hk ⟨_, h⟩
      simp [this]

/-- `preForce` and `forces` never change `r`, `v`, identity -/
theorem preForce_body (cfg : Config) (hwf : cfg.wf = true) (k : Bool) (st : State) (i : Nat) :
    ((preForce cfg k st).ps i).sameBody (st.ps i) := by
  unfold preForce
  have h1 := (clearForce_agree k st).body i
  have h2 := (unprotect_fold_ps k cfg.integrators (clearForce k st)).1
  have h3 : ((clearParticleData (cfg.integrators.foldl (unprotect k) (clearForce k st))).ps i).sameBody
      ((cfg.integrators.foldl (unprotect k) (clearForce k st)).ps i) := by
    simp only [clearParticleData, mapFree_ps]; split
    · exact Particle.sameBody_refl _
    · exact ⟨rfl, rfl, rfl, rfl, rfl⟩
  have h4 := (runSymbols_agree cfg hwf (clearParticleData (cfg.integrators.foldl (unprotect k) (clearForce k st)))).body i
  rw [h2] at h3
  exact Particle.sameBody_trans h4 (Particle.sameBody_trans h3 h1)

/-- the buffer NOT being rewritten survives the force evaluation:
`force[idx]` trivially, `force_<s>_<idx>` because `unprotect(other)` protects it. -/
theorem preForce_keeps (cfg : Config) (hwf : cfg.wf = true) (k : Bool) (st : State) (i : Nat)
    (hi : i < st.n) (d : Dof)
    (hd : d = .vel ∨ ∃ name, d = .user name ∧ Integrator.euler (st.ps i).colour name ∈ cfg.integrators) :
    ((preForce cfg k st).ps i).tag (.force d (!k)) = (st.ps i).tag (.force d (!k)) := by
  unfold preForce
  have hsym := runSymbols_agree cfg hwf
    (clearParticleData (cfg.integrators.foldl (unprotect k) (clearForce k st)))
  rw [hsym.tag i _ (fun h => by obtain ⟨n, hn⟩ := h; cases hn)]
  have hps := unprotect_fold_ps k cfg.integrators (clearForce k st)
  rw [clearParticleData_tag, hps.1]
  have hcf : ((clearForce k st).ps i).tag (.force d (!k)) = (st.ps i).tag (.force d (!k)) :=
    (clearForce_agree k st).tag i _ (fun h => by obtain ⟨d', hd'⟩ := h; injection hd' with _ h2; cases k <;> simp at h2)
  have hbody := (clearForce_agree k st).body i
  by_cases hfz : ((clearForce k st).ps i).frozen = true
  · simp only [hfz, if_true]; exact hcf
  · simp only [hfz, Bool.false_eq_true, if_false]
    rcases hd with rfl | ⟨name, rfl, hmem⟩
    · simp only [Key.inTag, Bool.false_and, Bool.false_eq_true, if_false]; exact hcf
    · have hfr : ((clearForce k st).ps i).frozen = false := by simpa using hfz
      have hfree : hasFree (clearForce k st) (st.ps i).colour = true := by
        have := hasFree_of (clearForce k st) i hi hfr
        rw [hbody.1] at this; exact this
      have := (unprotect_fold_pers k cfg.integrators (st.ps i).colour name (clearForce k st) hfree).2 (Or.inl hmem)
      rw [hbody.1, this]
      simp only [Bool.not_true, Bool.and_false, Bool.false_eq_true, if_false]; exact hcf

theorem forces_keeps (cfg : Config) (hwf : cfg.wf = true) (k : Bool) (S : State) (i : Nat) (d : Dof) :
    ((forces cfg k S).ps i).tag (.force d (!k)) = (S.ps i).tag (.force d (!k)) :=
  (forces_agree cfg hwf k S).tag i _ (fun h => by
    obtain ⟨d', hd'⟩ := h; injection hd' with _ h2; cases k <;> simp at h2)

/-- C05 (nothing dropped): `step` keeps the previous force buffer intact -/
theorem step_keeps_old (cfg : Config) (hwf : cfg.wf = true) (st : State) (i : Nat)
    (hi : i < st.n) (d : Dof)
    (hd : d = .vel ∨ ∃ name, d = .user name ∧ Integrator.euler (st.ps i).colour name ∈ cfg.integrators)
    (hold : ((cfg.integrators.foldl (integ1 cfg) st).ps i).tag (.force d st.forceIdx) = (st.ps i).tag (.force d st.forceIdx)) :
    ((step cfg st).ps i).tag (.force d st.forceIdx) = (st.ps i).tag (.force d st.forceIdx) := by
  rw [step_tag]
  have h1 : Pres st (cfg.integrators.foldl (integ1 cfg) st) := Pres.foldl _ _ (fun s a _ => integ1_pres cfg s a) st
  have key : ∀ k : Bool, st.forceIdx = (!k) →
      ((forces cfg k (preForce cfg k (cfg.integrators.foldl (integ1 cfg) st))).ps i).tag (.force d st.forceIdx)
        = (st.ps i).tag (.force d st.forceIdx) := by
    intro k hk
    rw [← hold, hk, forces_keeps cfg hwf,
      preForce_keeps cfg hwf _ _ i (by rw [h1.n]; exact hi) d (by rw [(h1.ident i).1]; exact hd)]
  exact key (!st.forceIdx) (by simp)


/-- One `step` for a free particle whose colour has exactly one velocity-Verlet integrator
`(lambda, mass)`: position update with the OLD force, velocity update with the mean of old and
new force — whatever `lambda` is. -/
theorem step_vv (cfg : Config) (hwf : cfg.wf = true) (st : State) (i : Nat) (hi : i < st.n)
    (hf : (st.ps i).frozen = false) (l m : Rat) (hvv : vvOf cfg (st.ps i).colour = [(l, m)]) :
    ((step cfg st).ps i).r = wrap cfg.box ((st.ps i).r + cfg.dt • ((st.ps i).v
        + ((1 / 2 : Rat) * cfg.dt) • ((1 / m) • (st.ps i).tag (.force .vel st.forceIdx)))) ∧
    ((step cfg st).ps i).v = (st.ps i).v + (cfg.dt / 2) • ((1 / m) •
        ((st.ps i).tag (.force .vel st.forceIdx) + ((step cfg st).ps i).tag (.force .vel (!st.forceIdx)))) := by
  -- after integrateStep1
  have h1 := integ1_fold_ps cfg cfg.integrators st i hf
  have h1' := integ1P_fold_one cfg st.forceIdx cfg.integrators (st.ps i) l m hvv
  rw [← h1.1] at h1'
  have hp1 : Pres st (cfg.integrators.foldl (integ1 cfg) st) := Pres.foldl _ _ (fun s a _ => integ1_pres cfg s a) st
  -- force evaluation
  have hb5 := preForce_body cfg hwf (!st.forceIdx) (cfg.integrators.foldl (integ1 cfg) st) i
  have hb7 := (forces_agree cfg hwf (!st.forceIdx) (preState cfg st)).body i
  have hb : ((forces cfg (!st.forceIdx) (preState cfg st)).ps i).sameBody ((cfg.integrators.foldl (integ1 cfg) st).ps i) :=
    Particle.sameBody_trans hb7 hb5
  have hcol : ((forces cfg (!st.forceIdx) (preState cfg st)).ps i).colour = (st.ps i).colour :=
    hb.1.trans (hp1.ident i).1
  have hfr : ((forces cfg (!st.forceIdx) (preState cfg st)).ps i).frozen = false := by
    rw [hb.2.2.1, (hp1.ident i).2.2]; exact hf
  -- integrateStep2
  have h2 : (step cfg st).ps i
      = vvStep2 cfg.dt l m (!st.forceIdx) ((forces cfg (!st.forceIdx) (preState cfg st)).ps i) := by
    have := integ2_fold_ps cfg cfg.integrators
      { forces cfg (!st.forceIdx) (preState cfg st) with forceIdx := !st.forceIdx } i hfr
    have e : (step cfg st).ps i = (cfg.integrators.foldl (integ2 cfg)
      { forces cfg (!st.forceIdx) (preState cfg st) with forceIdx := !st.forceIdx }).ps i := rfl
    rw [e, this]
    exact integ2P_fold_one cfg (!st.forceIdx) cfg.integrators _ l m (by rw [hcol]; exact hvv)
  have hold : ((forces cfg (!st.forceIdx) (preState cfg st)).ps i).tag (.force .vel (!(!st.forceIdx)))
      = (st.ps i).tag (.force .vel st.forceIdx) := by
    rw [forces_keeps cfg hwf]
    unfold preState
    rw [preForce_keeps cfg hwf _ _ i (by rw [hp1.n]; exact hi) .vel (Or.inl rfl)]
    simp only [Bool.not_not]
    exact h1'.2.2 .vel st.forceIdx
  have hnew : ((forces cfg (!st.forceIdx) (preState cfg st)).ps i).tag (.force .vel (!st.forceIdx))
      = ((step cfg st).ps i).tag (.force .vel (!st.forceIdx)) := by rw [step_tag]
  constructor
  · rw [h2, (vvStep2_ident ..).2.2.2.1, hb.2.2.2.1, h1'.1]
  · rw [h2, vvStep2_v, hold, hnew, hb.2.2.2.2, h1'.2.1, ← h2]
    vec3


/-! ### list cutoff ≥ own cutoff -/

theorem maxCut_ge_acc (c1 c2 : Nat) (ms : List PairMod) (acc : Rat) : acc ≤ maxCut c1 c2 acc ms := by
  induction ms generalizing acc with
  | nil => exact Rat.le_refl
  | cons m ms ih =>
    simp only [maxCut, List.foldl_cons]
    split
    · split
      · rename_i h; exact Rat.le_trans (Rat.le_of_lt h) (ih _)
      · exact ih _
    · exact ih _

theorem maxCut_ge_mem (c1 c2 : Nat) (ms : List PairMod) (acc : Rat) (m : PairMod) (hm : m ∈ ms)
    (h1 : m.c1 = c1) (h2 : m.c2 = c2) : m.cutoff ≤ maxCut c1 c2 acc ms := by
  induction ms generalizing acc with
  | nil => cases hm
  | cons m' ms ih =>
    simp only [maxCut, List.foldl_cons]
    rcases List.mem_cons.mp hm with rfl | h
    · simp only [h1, h2, and_self, if_true]
      split
      · exact maxCut_ge_acc c1 c2 ms _
      · rename_i hlt
        exact Rat.le_trans (Rat.not_lt.mp hlt) (maxCut_ge_acc c1 c2 ms _)
    · exact ih _ h

theorem cutoff_le_listCutoff (cfg : Config) (m : PairMod) (hm : m ∈ cfg.pairForces ∨ m ∈ cfg.sums) :
    m.cutoff ≤ listCutoff cfg m.c1 m.c2 := by
  unfold listCutoff
  rcases hm with h | h
  · exact Rat.le_trans (maxCut_ge_mem _ _ _ 0 m h rfl rfl) (maxCut_ge_acc _ _ _ _)
  · exact maxCut_ge_mem _ _ _ _ m h rfl rfl

/-- the geometric part of "is a list entry": everything except the list cutoff -/
def pairGuard (st : State) (c1 c2 a b : Nat) : Bool :=
  a ≠ b && (st.ps a).colour = c1 && (st.ps b).colour = c2 && (c1 ≠ c2 || a < b)
    && !((st.ps a).frozen && (st.ps b).frozen)

/-- For a registered module the list cutoff never filters anything its own cutoff lets through:
the module acts on `(a,b)` iff the pair passes the colour/orientation/free guard and is inside the
module's OWN cutoff. -/
theorem pairActive_iff (cfg : Config) (m : PairMod) (hm : m ∈ cfg.pairForces ∨ m ∈ cfg.sums)
    (hc : 0 ≤ m.cutoff) (st : State) (a b : Nat) :
    pairActive cfg m st a b = (pairGuard st m.c1 m.c2 a b && inCut cfg m (st.ps a) (st.ps b)) := by
  unfold pairActive inList pairGuard
  by_cases hin : inCut cfg m (st.ps a) (st.ps b) = true
  · have hle := cutoff_le_listCutoff cfg m hm
    have : (dist cfg.box (st.ps a) (st.ps b)).norm2 < listCutoff cfg m.c1 m.c2 * listCutoff cfg m.c1 m.c2 := by
      simp only [inCut, decide_eq_true_eq] at hin
      have h2 : m.cutoff * m.cutoff ≤ listCutoff cfg m.c1 m.c2 * listCutoff cfg m.c1 m.c2 := by
        have := Rat.mul_le_mul_of_nonneg_left hle hc
        have h3 : 0 ≤ listCutoff cfg m.c1 m.c2 := Rat.le_trans hc hle
        have := Rat.mul_le_mul_of_nonneg_right hle h3
        grind
      grind
    simp [hin, this]
  · simp [hin]


/-- `FPairVels` with its default `symmetry = -1` and equal particle factors (default: both `idVec(1)`) -/
def PairMod.reciprocal (m : PairMod) : Prop := m.sym = -1 ∧ m.fi = m.fj

theorem second_eq_neg_first (m : PairMod) (h : m.reciprocal) (env : Env) : m.second env = - m.first env := by
  unfold PairMod.second PairMod.first
  rw [h.1, h.2]; vec3

theorem vsum_zero_of {α} (l : List α) (f : α → Vec3) (h : ∀ x, f x = 0) : vsum (l.map f) = 0 :=
  vsum_map_zero l f (fun x _ => h x)

/-- Newton's third law summed up: the contributions of a reciprocal pair module to all particles cancel -/
theorem sum_pairForceOn_zero (cfg : Config) (m : PairMod) (S : State) (h : m.reciprocal) :
    vsum ((List.range S.n).map (fun i => pairForceOn cfg m S i)) = 0 := by
  unfold pairForceOn
  rw [vsum_map_add]
  rw [vsum_comm (List.range S.n) (List.range S.n) (fun i a =>
      if pairActive cfg m S a i then m.second (mkEnv cfg.box (S.ps a) (S.ps i)) else 0)]
  rw [← vsum_map_add]
  apply vsum_zero_of
  intro a
  rw [← vsum_map_add]
  apply vsum_zero_of
  intro b
  split
  · rw [second_eq_neg_first m h]; simp
  · simp

theorem sum_totalForce_zero (cfg : Config) (S : State)
    (hrec : ∀ m ∈ cfg.pairForces, m.target = .force .vel → m.reciprocal)
    (hpart : ∀ m ∈ cfg.partForces, m.target ≠ .force .vel) :
    vsum ((List.range S.n).map (fun i => totalForce cfg S i .vel)) = 0 := by
  unfold totalForce
  rw [vsum_map_add]
  have h2 : vsum ((List.range S.n).map (fun i => vsum (cfg.partForces.map (fun m =>
      if m.target = .force .vel ∧ m.colour = (S.ps i).colour then m.expr.eval (envP (S.ps i)) else 0)))) = 0 := by
    apply vsum_zero_of; intro i
    apply vsum_map_zero; intro m hm
    simp [hpart m hm]
  rw [h2, vsum_comm]
  have h1 : vsum (cfg.pairForces.map (fun m => vsum ((List.range S.n).map (fun i =>
      if m.target = .force .vel then pairForceOn cfg m S i else 0)))) = 0 := by
    apply vsum_map_zero; intro m hm
    by_cases ht : m.target = .force .vel
    · simp only [ht, if_true]; exact sum_pairForceOn_zero cfg m S (hrec m hm ht)
    · simp only [ht, if_false]; exact vsum_zero_of _ _ (fun _ => rfl)
  rw [h1]; simp


/-- mass of the (unique) velocity-Verlet integrator of a colour -/
def massOf (cfg : Config) (c : Nat) : Rat :=
  match vvOf cfg c with
  | [(_, m)] => m
  | _ => 0

/-- total linear momentum `Σ m v` -/
def momentum (cfg : Config) (st : State) : Vec3 :=
  vsum ((List.range st.n).map (fun i => massOf cfg (st.ps i).colour • (st.ps i).v))

/-- sum of the current forces -/
def forceSum (st : State) : Vec3 :=
  vsum ((List.range st.n).map (fun i => (st.ps i).tag (.force .vel st.forceIdx)))

/-- setting of C04: only reciprocal pair forces drive the velocities, every particle is free and
its colour is integrated by exactly one velocity Verlet with non-zero mass -/
structure Closed (cfg : Config) (st : State) : Prop where
  wf : cfg.wf = true
  free : ∀ i, i < st.n → (st.ps i).frozen = false
  vv : ∀ i, i < st.n → ∃ l m, vvOf cfg (st.ps i).colour = [(l, m)] ∧ m ≠ 0
  recip : ∀ m ∈ cfg.pairForces, m.target = .force .vel → m.reciprocal
  nopart : ∀ m ∈ cfg.partForces, m.target ≠ .force .vel

theorem Closed.of_pres {cfg : Config} {st st' : State} (h : Closed cfg st) (hp : Pres st st') : Closed cfg st' :=
  ⟨h.wf, fun i hi => by rw [(hp.ident i).2.2]; exact h.free i (by rw [← hp.n]; exact hi),
   fun i hi => by rw [(hp.ident i).1]; exact h.vv i (by rw [← hp.n]; exact hi), h.recip, h.nopart⟩

theorem vsum_range_congr (n : Nat) (f g : Nat → Vec3) (h : ∀ i, i < n → f i = g i) :
    vsum ((List.range n).map f) = vsum ((List.range n).map g) :=
  vsum_map_congr _ _ _ (fun i hi => h i (List.mem_range.mp hi))

theorem step_forceSum (cfg : Config) (st : State) (h : Closed cfg st) : forceSum (step cfg st) = 0 := by
  unfold forceSum
  rw [(step_pres cfg st).n]
  rw [vsum_range_congr _ _ (fun i => totalForce cfg (preState cfg st) i .vel)
    (fun i hi => step_force cfg h.wf st i hi (h.free i hi) .vel (Or.inl rfl))]
  have := sum_totalForce_zero cfg (preState cfg st) h.recip h.nopart
  rw [(preState_pres cfg st).n] at this
  exact this

theorem init_forceSum (cfg : Config) (st : State) (h : Closed cfg st) : forceSum (init cfg st) = 0 := by
  unfold forceSum
  rw [(init_pres cfg st).n, init_forceIdx cfg h.wf]
  rw [vsum_range_congr _ _ (fun i => totalForce cfg (initState cfg st) i .vel)
    (fun i hi => init_force cfg h.wf st i hi (h.free i hi) .vel (Or.inl rfl))]
  have := sum_totalForce_zero cfg (initState cfg st) h.recip h.nopart
  rw [(initState_pres cfg st).n] at this
  exact this

theorem step_momentum (cfg : Config) (st : State) (h : Closed cfg st) (h0 : forceSum st = 0) :
    momentum cfg (step cfg st) = momentum cfg st := by
  have hz := step_forceSum cfg st h
  unfold momentum
  rw [(step_pres cfg st).n]
  have hterm : ∀ i, i < st.n →
      massOf cfg ((step cfg st).ps i).colour • ((step cfg st).ps i).v
        = massOf cfg (st.ps i).colour • (st.ps i).v
          + ((cfg.dt / 2) • (st.ps i).tag (.force .vel st.forceIdx)
             + (cfg.dt / 2) • ((step cfg st).ps i).tag (.force .vel (step cfg st).forceIdx)) := by
    intro i hi
    obtain ⟨l, m, hvv, hm⟩ := h.vv i hi
    have hs := (step_vv cfg h.wf st i hi (h.free i hi) l m hvv).2
    rw [((step_pres cfg st).ident i).1, step_forceIdx, hs]
    have : massOf cfg (st.ps i).colour = m := by simp [massOf, hvv]
    rw [this]
    apply Vec3.ext' <;> simp <;> grind
  rw [vsum_range_congr _ _ _ hterm, vsum_map_add, vsum_map_add, vsum_map_smul, vsum_map_smul]
  have e1 : vsum ((List.range st.n).map (fun i => (st.ps i).tag (.force .vel st.forceIdx))) = 0 := h0
  have e2 : vsum ((List.range st.n).map (fun i => ((step cfg st).ps i).tag (.force .vel (step cfg st).forceIdx))) = 0 := by
    have := hz; unfold forceSum at this; rw [(step_pres cfg st).n] at this; exact this
  rw [e1, e2]; simp

theorem init_momentum (cfg : Config) (st : State) (hwf : cfg.wf = true) : momentum cfg (init cfg st) = momentum cfg st := by
  unfold momentum
  rw [(init_pres cfg st).n]
  apply vsum_range_congr
  intro i _
  have hb : ((init cfg st).ps i).sameBody (st.ps i) := by
    rw [init_eq]
    refine Particle.sameBody_trans ((forces_agree cfg hwf _ _).body i) ?_
    unfold initState
    refine Particle.sameBody_trans ((runSymbols_agree cfg hwf _).body i) ?_
    have h3 : ∀ s : State, ((clearParticleData s).ps i).sameBody (s.ps i) := by
      intro s; simp only [clearParticleData, mapFree_ps]; split
      · exact Particle.sameBody_refl _
      · exact ⟨rfl, rfl, rfl, rfl, rfl⟩
    refine Particle.sameBody_trans (h3 _) ?_
    have h4 : ∀ (igs : List Integrator) (s : State), ((igs.foldl aboutToStart s).ps i).sameBody (s.ps i) := by
      intro igs
      induction igs with
      | nil => intro s; exact Particle.sameBody_refl _
      | cons ig igs ih =>
        intro s
        refine Particle.sameBody_trans (ih _) ?_
        cases ig with
        | vv c l m =>
          simp only [aboutToStart, mapFree_ps]; split
          · exact Particle.sameBody_refl _
          · unfold onColour; split
            · exact ⟨rfl, rfl, rfl, rfl, rfl⟩
            · exact Particle.sameBody_refl _
        | euler c name =>
          simp only [aboutToStart, mapFree_ps]; split
          · exact Particle.sameBody_refl _
          · unfold onColour; split
            · exact ⟨rfl, rfl, rfl, rfl, rfl⟩
            · exact Particle.sameBody_refl _
    refine Particle.sameBody_trans (h4 _ _) ?_
    exact Particle.sameBody_trans ((clearForce_agree true _).body i) ((clearForce_agree false st).body i)
  rw [hb.1, hb.2.2.2.2]

/-- C04: total momentum is the same after `init` and after every step -/
theorem run_momentum (cfg : Config) (st0 : State) (h : Closed cfg st0) (n : Nat) :
    momentum cfg (run cfg n (init cfg st0)) = momentum cfg st0 ∧ forceSum (run cfg n (init cfg st0)) = 0 := by
  induction n with
  | zero => exact ⟨init_momentum cfg st0 h.wf, init_forceSum cfg st0 h⟩
  | succ n ih =>
    have hc : Closed cfg (run cfg n (init cfg st0)) :=
      (h.of_pres (init_pres cfg st0)).of_pres (run_pres cfg n _)
    exact ⟨(step_momentum cfg _ hc ih.2).trans ih.1, step_forceSum cfg _ hc⟩


theorem foldl_range_split {β} (f : β → Nat → β) (M s : Nat) (hs : s ≤ M) (b : β) :
    (List.range (M + 1)).foldl f b
      = ((List.range (M - s)).map (fun x => s + (x + 1))).foldl f (f ((List.range s).foldl f b) s) := by
  have e : M + 1 = s + ((M - s) + 1) := by omega
  rw [e, List.range_add, List.foldl_append, List.range_succ_eq_map]
  simp [List.map_map, Function.comp_def]

theorem vsum_map_ite_filter {α} (l : List α) (p : α → Prop) [DecidablePred p] (f : α → Vec3) :
    vsum (l.map (fun x => if p x then f x else 0)) = vsum ((l.filter (fun x => decide (p x))).map f) := by
  induction l with
  | nil => rfl
  | cons a l ih =>
    by_cases h : p a
    · simp [h, ih]
    · simp [h, ih]

theorem le_foldl_max (l : List Nat) (a : Nat) : a ≤ l.foldl max a := by
  induction l generalizing a with
  | nil => exact Nat.le_refl _
  | cons b l ih => exact Nat.le_trans (Nat.le_max_left a b) (ih _)

theorem mem_le_foldl_max (l : List Nat) (a x : Nat) (h : x ∈ l) : x ≤ l.foldl max a := by
  induction l generalizing a with
  | nil => cases h
  | cons b l ih =>
    rcases List.mem_cons.mp h with rfl | h
    · exact Nat.le_trans (Nat.le_max_right a x) (le_foldl_max l _)
    · exact ih _ h

theorem stage_le_maxStage (cfg : Config) (m : PairMod) (hm : m ∈ cfg.sums) : m.stage ≤ maxStage cfg := by
  unfold maxStage
  apply mem_le_foldl_max
  simp only [List.mem_append, List.mem_map]
  right; exact ⟨m, hm, rfl⟩

/-- keys written by the symbol modules of stage `t` -/
def stageWrites (cfg : Config) (t : Nat) (key : Key) : Prop :=
  (∃ c ∈ cfg.caches, c.stage = t ∧ key = c.target.key false) ∨
  (∃ m ∈ cfg.sums, m.stage = t ∧ key = m.target.key false)

theorem runStage_agreeW (cfg : Config) (t : Nat) (st : State) :
    AgreeOff (stageWrites cfg t) st (runStage cfg t st) := by
  unfold runStage
  refine (partPhase_agree _ false _ (fun c hc => ?_) st).trans (pairPhase_agree _ cfg false _ (fun m hm => ?_) _)
  · have := List.mem_filter.mp hc
    exact Or.inl ⟨c, this.1, by simpa using this.2, rfl⟩
  · have := List.mem_filter.mp hm
    exact Or.inr ⟨m, this.1, by simpa using this.2, rfl⟩

/-- the state on which the pair sums of stage `s` are evaluated: all symbols of the stages `< s`
and the particle caches of stage `s` have been computed -/
def stageState (cfg : Config) (s : Nat) (st : State) : State :=
  partPhase false (cfg.caches.filter (·.stage = s)) ((List.range s).foldl (fun st t => runStage cfg t st) st)

/-- hypotheses of C07 for the pair sum `m` writing the symbol `name` -/
structure SumOK (cfg : Config) (m : PairMod) (name : String) : Prop where
  mem : m ∈ cfg.sums
  target : m.target = .sym name
  /-- `m` is the only pair sum writing `name`, and it is registered once -/
  unique : cfg.sums.filter (fun m' => decide (m'.target = .sym name)) = [m]
  /-- no particle cache writes `name` -/
  nocache : ∀ c ∈ cfg.caches, c.target ≠ .sym name
  /-- stage assignment (C06): a pair sum of the same stage reads nothing that pair sums of that stage write -/
  noRAW : ∀ m' ∈ cfg.sums, m'.stage = m.stage → ∀ n ∈ m'.reads,
    ∀ m'' ∈ cfg.sums, m''.stage = m.stage → m''.target ≠ .sym n

theorem SumOK.only {cfg : Config} {m : PairMod} {name : String} (h : SumOK cfg m name)
    {m' : PairMod} (hm' : m' ∈ cfg.sums) (ht : m'.target = .sym name) : m' = m := by
  have : m' ∈ cfg.sums.filter (fun m' => decide (m'.target = .sym name)) := by
    simp [List.mem_filter, hm', ht]
  rw [h.unique] at this
  simpa using this

theorem runStage_keeps_name (cfg : Config) (m : PairMod) (name : String) (h : SumOK cfg m name)
    (t : Nat) (ht : t ≠ m.stage) (st : State) (i : Nat) :
    ((runStage cfg t st).ps i).tag (.sym name) = (st.ps i).tag (.sym name) := by
  apply (runStage_agreeW cfg t st).tag
  rintro (⟨c, hc, _, hk⟩ | ⟨m', hm', hs, hk⟩)
  · apply h.nocache c hc
    cases hct : c.target with
    | sym n => rw [hct] at hk; simp [Target.key] at hk; rw [hk]
    | force d => rw [hct] at hk; simp [Target.key] at hk
  · have : m'.target = .sym name := by
      cases hmt : m'.target with
      | sym n => rw [hmt] at hk; simp [Target.key] at hk; rw [hk]
      | force d => rw [hmt] at hk; simp [Target.key] at hk
    have := h.only hm' this
    subst this
    exact ht hs.symm

theorem runStage_sum (cfg : Config) (m : PairMod) (name : String) (h : SumOK cfg m name)
    (st : State) (i : Nat) (hi : i < st.n) (hf : (st.ps i).frozen = false) :
    ((runStage cfg m.stage st).ps i).tag (.sym name)
      = (st.ps i).tag (.sym name)
        + pairForceOn cfg m (partPhase false (cfg.caches.filter (·.stage = m.stage)) st) i := by
  unfold runStage
  let S := partPhase false (cfg.caches.filter (·.stage = m.stage)) st
  have hS : AgreeOff (fun key => ∃ c ∈ cfg.caches, key = c.target.key false) st S :=
    partPhase_agree _ false _ (fun c hc => ⟨c, (List.mem_filter.mp hc).1, rfl⟩) st
  have hSname : (S.ps i).tag (.sym name) = (st.ps i).tag (.sym name) := by
    apply hS.tag
    rintro ⟨c, hc, hk⟩
    apply h.nocache c hc
    cases hct : c.target with
    | sym n => rw [hct] at hk; simp [Target.key] at hk; rw [hk]
    | force d => rw [hct] at hk; simp [Target.key] at hk
  let W : Key → Prop := fun key => ∃ m' ∈ cfg.sums, m'.stage = m.stage ∧ key = m'.target.key false
  obtain ⟨_, hT⟩ := pairPhase_spec W cfg false (cfg.sums.filter (·.stage = m.stage)) S
    (fun m' hm' => ⟨m', (List.mem_filter.mp hm').1, by simpa using (List.mem_filter.mp hm').2, rfl⟩)
    (fun m' hm' n hn => by
      rintro ⟨m'', hm'', hs'', hk⟩
      have hm'1 := List.mem_filter.mp hm'
      apply h.noRAW m' hm'1.1 (by simpa using hm'1.2) n hn m'' hm'' hs''
      cases hmt : m''.target with
      | sym n' => rw [hmt] at hk; simp [Target.key] at hk; rw [hk]
      | force d => rw [hmt] at hk; simp [Target.key] at hk)
  show ((pairPhase cfg false (cfg.sums.filter (·.stage = m.stage)) S).ps i).tag (.sym name) = _
  rw [hT i (.sym name), hSname]
  congr 1
  have hSi : i < S.n := by rw [hS.n]; exact hi
  have hSf : (S.ps i).frozen = false := by rw [(hS.body i).2.2.1]; exact hf
  rw [vsum_map_congr _ _ (fun m' => if m'.target = .sym name then pairForceOn cfg m' S i else 0)
    (fun m' _ => by
      rw [pairContrib_eq cfg false m' S i _ hSi hSf]
      cases hmt : m'.target with
      | sym n' =>
        by_cases hn : n' = name
        · subst hn; simp [Target.key]
        · have : ¬ name = n' := fun e => hn e.symm
          simp [Target.key, hn, this]
      | force d => simp [Target.key])]
  rw [vsum_map_ite_filter, List.filter_filter]
  have : cfg.sums.filter (fun a => decide (a.target = Target.sym name) && decide (a.stage = m.stage)) = [m] := by
    have e : (fun a : PairMod => decide (a.target = Target.sym name) && decide (a.stage = m.stage))
        = (fun a : PairMod => decide (a.stage = m.stage) && decide (a.target = Target.sym name)) := by
      funext a; exact Bool.and_comm _ _
    rw [e, ← List.filter_filter, h.unique]
    simp
  rw [this]; simp; rfl

theorem foldl_keeps_name (cfg : Config) (m : PairMod) (name : String) (h : SumOK cfg m name)
    (l : List Nat) (hl : ∀ t ∈ l, t ≠ m.stage) (st : State) (i : Nat) :
    ((l.foldl (fun st t => runStage cfg t st) st).ps i).tag (.sym name) = (st.ps i).tag (.sym name) := by
  induction l generalizing st with
  | nil => rfl
  | cons t l ih =>
    simp only [List.foldl_cons]
    rw [ih (fun t' ht' => hl t' (by simp [ht'])), runStage_keeps_name cfg m name h t (hl t (by simp))]

/-- C07, core: `runSymbols` adds to the pair-summed symbol of a free particle exactly the direct sum
over all partners, evaluated on `stageState`. -/
theorem runSymbols_sum (cfg : Config) (m : PairMod) (name : String) (h : SumOK cfg m name)
    (st : State) (i : Nat) (hi : i < st.n) (hf : (st.ps i).frozen = false) :
    ((runSymbols cfg st).ps i).tag (.sym name)
      = (st.ps i).tag (.sym name) + pairForceOn cfg m (stageState cfg m.stage st) i := by
  unfold runSymbols
  rw [foldl_range_split _ _ m.stage (stage_le_maxStage cfg m h.mem)]
  rw [foldl_keeps_name cfg m name h _ (fun t ht => by
    simp only [List.mem_map, List.mem_range] at ht
    obtain ⟨x, _, rfl⟩ := ht; omega)]
  have hp : Pres st ((List.range m.stage).foldl (fun st t => runStage cfg t st) st) :=
    Pres.foldl _ _ (fun s a _ => runStage_pres cfg a s) st
  rw [runStage_sum cfg m name h _ i (by rw [hp.n]; exact hi) (by rw [(hp.ident i).2.2]; exact hf)]
  rw [foldl_keeps_name cfg m name h _ (fun t ht => by
    have := List.mem_range.mp ht; omega)]
  rfl


/-! ### integrators of user-defined quantities -/

theorem integ1P_force (cfg : Config) (idx : Bool) (ig : Integrator) (p : Particle) (d : Dof) (k : Bool) :
    (integ1P cfg idx ig p).tag (.force d k) = p.tag (.force d k) := by
  cases ig with
  | vv c l m => simp only [integ1P, onColour]; split <;> rfl
  | euler c name =>
    simp only [integ1P, onColour]; split
    · simp [eulerStep1]
    · rfl

theorem integ1P_sym (cfg : Config) (idx : Bool) (ig : Integrator) (p : Particle) (name : String) :
    (integ1P cfg idx ig p).tag (.sym name)
      = if ig = .euler p.colour name then p.tag (.sym name) + cfg.dt • p.tag (.force (.user name) idx)
        else p.tag (.sym name) := by
  cases ig with
  | vv c l m => simp only [integ1P, onColour]; split <;> simp [vvStep1]
  | euler c name' =>
    simp only [integ1P, onColour]
    by_cases hc : p.colour = c
    · by_cases hn : name' = name
      · subst hc; subst hn; simp [eulerStep1]
      · have : ¬ name = name' := fun e => hn e.symm
        simp [hc, eulerStep1, hn, this]
    · have : ¬ c = p.colour := fun e => hc e.symm
      simp [hc, this]

/-- `integrateStep1` of all integrators: the quantity `name` of a particle advances by `dt * force`
once per `IntegratorScalar/Vector` registered for (its colour, `name`) -/
theorem integ1P_fold_sym (cfg : Config) (idx : Bool) (igs : List Integrator) (p : Particle) (name : String) :
    (igs.foldl (fun p ig => integ1P cfg idx ig p) p).tag (.sym name)
      = p.tag (.sym name) + ((igs.count (.euler p.colour name) : Nat) : Rat) • (cfg.dt • p.tag (.force (.user name) idx)) := by
  induction igs generalizing p with
  | nil => simp
  | cons ig igs ih =>
    simp only [List.foldl_cons]
    rw [ih, (integ1P_frozen cfg idx ig p).2, integ1P_force, integ1P_sym, List.count_cons]
    by_cases h : ig = .euler p.colour name
    · simp only [h, if_true, beq_self_eq_true]
      apply Vec3.ext' <;> simp <;> grind
    · have : (ig == Integrator.euler p.colour name) = false := by simpa using h
      simp only [h, if_false, this]
      apply Vec3.ext' <;> simp

theorem unprotect_pers_sym (k : Bool) (st : State) (ig : Integrator) (c : Nat) (n : String) :
    (unprotect k st ig).pers c (.sym n) = st.pers c (.sym n) := by
  cases ig with
  | vv c' l m => rfl
  | euler c' name =>
    unfold unprotect; dsimp only; split
    · simp
    · rfl

theorem unprotect_fold_pers_sym (k : Bool) (igs : List Integrator) (st : State) (c : Nat) (n : String) :
    (igs.foldl (unprotect k) st).pers c (.sym n) = st.pers c (.sym n) := by
  induction igs generalizing st with
  | nil => rfl
  | cons ig igs ih => simp only [List.foldl_cons]; rw [ih, unprotect_pers_sym]

theorem integ1_fold_pers (cfg : Config) (igs : List Integrator) (st : State) :
    (igs.foldl (integ1 cfg) st).pers = st.pers := by
  induction igs generalizing st with
  | nil => rfl
  | cons ig igs ih =>
    simp only [List.foldl_cons]; rw [ih]
    cases ig <;> rfl

theorem integ2_fold_pers (cfg : Config) (igs : List Integrator) (st : State) :
    (igs.foldl (integ2 cfg) st).pers = st.pers := by
  induction igs generalizing st with
  | nil => rfl
  | cons ig igs ih =>
    simp only [List.foldl_cons]; rw [ih]
    cases ig <;> rfl

theorem step_pers_sym (cfg : Config) (hwf : cfg.wf = true) (st : State) (c : Nat) (n : String) :
    (step cfg st).pers c (.sym n) = st.pers c (.sym n) := by
  unfold step
  rw [integ2_fold_pers]
  show (forces cfg (!st.forceIdx) (preState cfg st)).pers c (.sym n) = _
  rw [(forces_agree cfg hwf _ _).pers]
  unfold preState preForce
  rw [(runSymbols_agree cfg hwf _).pers]
  simp only [clearParticleData, mapFree_pers]
  rw [unprotect_fold_pers_sym]
  simp only [clearForce, mapFree_pers]
  rw [integ1_fold_pers]

/-- no symbol module writes `name` -/
def NotComputed (cfg : Config) (name : String) : Prop :=
  (∀ c ∈ cfg.caches, c.target ≠ .sym name) ∧ (∀ m ∈ cfg.sums, m.target ≠ .sym name)

theorem runSymbols_keeps (cfg : Config) (name : String) (h : NotComputed cfg name) (st : State) (i : Nat) :
    ((runSymbols cfg st).ps i).tag (.sym name) = (st.ps i).tag (.sym name) := by
  unfold runSymbols
  generalize List.range (maxStage cfg + 1) = l
  induction l generalizing st with
  | nil => rfl
  | cons t l ih =>
    simp only [List.foldl_cons]
    rw [ih]
    apply (runStage_agreeW cfg t st).tag
    rintro (⟨c, hc, _, hk⟩ | ⟨m', hm', _, hk⟩)
    · apply h.1 c hc
      cases hct : c.target with
      | sym n => rw [hct] at hk; simp [Target.key] at hk; rw [hk]
      | force d => rw [hct] at hk; simp [Target.key] at hk
    · apply h.2 m' hm'
      cases hmt : m'.target with
      | sym n => rw [hmt] at hk; simp [Target.key] at hk; rw [hk]
      | force d => rw [hmt] at hk; simp [Target.key] at hk

/-- One `step` for an integrated quantity: `s' = s + k * dt * F[idx]` where `k` is the number of
integrators registered for it (1 in every sensible input). -/
theorem step_euler (cfg : Config) (hwf : cfg.wf = true) (st : State) (i : Nat)
    (hf : (st.ps i).frozen = false) (name : String) (hnc : NotComputed cfg name)
    (hpers : st.pers (st.ps i).colour (.sym name) = true) :
    ((step cfg st).ps i).tag (.sym name) = (st.ps i).tag (.sym name)
      + ((cfg.integrators.count (.euler (st.ps i).colour name) : Nat) : Rat)
          • (cfg.dt • (st.ps i).tag (.force (.user name) st.forceIdx)) := by
  rw [step_tag, (forces_agree cfg hwf _ _).tag i _ (fun h => by obtain ⟨d, hd⟩ := h; cases hd)]
  unfold preState preForce
  rw [runSymbols_keeps cfg name hnc, clearParticleData_tag]
  have hps := unprotect_fold_ps (!st.forceIdx) cfg.integrators (clearForce (!st.forceIdx) (cfg.integrators.foldl (integ1 cfg) st))
  have h1 := integ1_fold_ps cfg cfg.integrators st i hf
  have hp1 : Pres st (cfg.integrators.foldl (integ1 cfg) st) := Pres.foldl _ _ (fun s a _ => integ1_pres cfg s a) st
  have hcf := clearForce_agree (!st.forceIdx) (cfg.integrators.foldl (integ1 cfg) st)
  rw [hps.1]
  have hfr : ((clearForce (!st.forceIdx) (cfg.integrators.foldl (integ1 cfg) st)).ps i).frozen = false := by
    rw [(hcf.body i).2.2.1, (hp1.ident i).2.2]; exact hf
  have hcol : ((clearForce (!st.forceIdx) (cfg.integrators.foldl (integ1 cfg) st)).ps i).colour = (st.ps i).colour := by
    rw [(hcf.body i).1, (hp1.ident i).1]
  have hp : (cfg.integrators.foldl (unprotect (!st.forceIdx)) (clearForce (!st.forceIdx) (cfg.integrators.foldl (integ1 cfg) st))).pers
      (st.ps i).colour (.sym name) = true := by
    rw [unprotect_fold_pers_sym]; simp only [clearForce, mapFree_pers]; rw [integ1_fold_pers]; exact hpers
  simp only [hfr, Bool.false_eq_true, if_false, hcol, hp, Bool.not_true, Bool.and_false]
  rw [hcf.tag i _ (fun h => by obtain ⟨d, hd⟩ := h; cases hd), h1.1, integ1P_fold_sym]


/-! ### closed forms for constant forces -/

theorem aboutToStart_fold_other (igs : List Integrator) (st : State) :
    (igs.foldl aboutToStart st).n = st.n ∧ (igs.foldl aboutToStart st).forceIdx = st.forceIdx ∧
    (igs.foldl aboutToStart st).pers = st.pers := by
  induction igs generalizing st with
  | nil => exact ⟨rfl, rfl, rfl⟩
  | cons ig igs ih =>
    have h1 := aboutToStart_other st ig
    have h2 := ih (aboutToStart st ig)
    exact ⟨h2.1.trans h1.1, h2.2.1.trans h1.2.1, h2.2.2.trans h1.2.2⟩

theorem aboutToStart_sym (st : State) (ig : Integrator) (i : Nat) (n : String) :
    ((aboutToStart st ig).ps i).tag (.sym n) = (st.ps i).tag (.sym n) := by
  cases ig with
  | vv c l m =>
    simp only [aboutToStart, mapFree_ps]; split
    · rfl
    · unfold onColour; split <;> simp
  | euler c name =>
    simp only [aboutToStart, mapFree_ps]; split
    · rfl
    · unfold onColour; split <;> simp

theorem aboutToStart_fold_sym (igs : List Integrator) (st : State) (i : Nat) (n : String) :
    ((igs.foldl aboutToStart st).ps i).tag (.sym n) = (st.ps i).tag (.sym n) := by
  induction igs generalizing st with
  | nil => rfl
  | cons ig igs ih => simp only [List.foldl_cons]; rw [ih, aboutToStart_sym]

theorem init_pers (cfg : Config) (hwf : cfg.wf = true) (st : State) : (init cfg st).pers = st.pers := by
  rw [init_eq, (forces_agree cfg hwf _ _).pers]
  unfold initState
  rw [(runSymbols_agree cfg hwf _).pers]
  simp only [clearParticleData, mapFree_pers]
  rw [(aboutToStart_fold_other _ _).2.2]
  rfl

theorem init_keeps_sym (cfg : Config) (hwf : cfg.wf = true) (st : State) (i : Nat) (name : String)
    (hnc : NotComputed cfg name) (hpers : st.pers (st.ps i).colour (.sym name) = true) :
    ((init cfg st).ps i).tag (.sym name) = (st.ps i).tag (.sym name) := by
  rw [init_eq, (forces_agree cfg hwf _ _).tag i _ (fun h => by obtain ⟨d, hd⟩ := h; cases hd)]
  unfold initState
  rw [runSymbols_keeps cfg name hnc, clearParticleData_tag]
  have hp : Pres (clearForce true (clearForce false st))
      (cfg.integrators.foldl aboutToStart (clearForce true (clearForce false st))) :=
    Pres.foldl _ _ (fun s a _ => aboutToStart_pres s a) _
  have hcol : ((cfg.integrators.foldl aboutToStart (clearForce true (clearForce false st))).ps i).colour = (st.ps i).colour := by
    rw [(hp.ident i).1, ((clearForce_agree true _).body i).1, ((clearForce_agree false st).body i).1]
  have hpe : (cfg.integrators.foldl aboutToStart (clearForce true (clearForce false st))).pers = st.pers := by
    rw [(aboutToStart_fold_other _ _).2.2]; rfl
  rw [hcol, hpe, hpers, aboutToStart_fold_sym]
  have e : ((clearForce true (clearForce false st)).ps i).tag (.sym name) = (st.ps i).tag (.sym name) := by
    rw [(clearForce_agree true _).tag i _ (fun h => by obtain ⟨d, hd⟩ := h; cases hd),
      (clearForce_agree false st).tag i _ (fun h => by obtain ⟨d, hd⟩ := h; cases hd)]
  rw [e]; split <;> (try split) <;> simp_all

/-- C05: the Euler integrators of user-defined quantities reproduce a constant rate exactly -/
theorem run_euler_const (cfg : Config) (hwf : cfg.wf = true) (st0 : State) (i : Nat) (hi : i < st0.n)
    (hf : (st0.ps i).frozen = false) (name : String) (hnc : NotComputed cfg name)
    (hpers : st0.pers (st0.ps i).colour (.sym name) = true)
    (hone : cfg.integrators.count (.euler (st0.ps i).colour name) = 1)
    (R : Vec3) (hconst : ∀ S : State, (S.ps i).colour = (st0.ps i).colour → totalForce cfg S i (.user name) = R)
    (n : Nat) :
    ((run cfg n (init cfg st0)).ps i).tag (.sym name)
      = (st0.ps i).tag (.sym name) + ((n : Nat) : Rat) • (cfg.dt • R) ∧
    ((run cfg n (init cfg st0)).ps i).tag (.force (.user name) (run cfg n (init cfg st0)).forceIdx) = R := by
  have hmem : Integrator.euler (st0.ps i).colour name ∈ cfg.integrators :=
    List.count_pos_iff.mp (by rw [hone]; exact Nat.one_pos)
  induction n with
  | zero =>
    constructor
    · simp only [run]; rw [init_keeps_sym cfg hwf st0 i name hnc hpers]; simp
    · simp only [run]
      rw [init_forceIdx cfg hwf, init_force cfg hwf st0 i hi hf _ (Or.inr ⟨name, rfl, hmem⟩)]
      exact hconst _ ((initState_pres cfg st0).ident i).1
  | succ n ih =>
    have hp : Pres st0 (run cfg n (init cfg st0)) := (init_pres cfg st0).trans (run_pres cfg n _)
    have hcol := (hp.ident i).1
    have hfr : ((run cfg n (init cfg st0)).ps i).frozen = false := by rw [(hp.ident i).2.2]; exact hf
    have hpe : (run cfg n (init cfg st0)).pers (st0.ps i).colour (.sym name) = true := by
      have : ∀ k, (run cfg k (init cfg st0)).pers (st0.ps i).colour (.sym name) = true := by
        intro k
        induction k with
        | zero => simp only [run]; rw [init_pers cfg hwf]; exact hpers
        | succ k ihk => simp only [run]; rw [step_pers_sym cfg hwf]; exact ihk
      exact this n
    constructor
    · simp only [run]
      rw [step_euler cfg hwf _ i hfr name hnc (by rw [hcol]; exact hpe), hcol, hone, ih.1, ih.2]
      apply Vec3.ext' <;> simp <;> grind
    · simp only [run]
      rw [step_force cfg hwf _ i (by rw [hp.n]; exact hi) hfr _ (Or.inr ⟨name, rfl, by rw [hcol]; exact hmem⟩)]
      exact hconst _ (((preState_pres cfg _).ident i).1.trans hcol)

theorem init_body (cfg : Config) (hwf : cfg.wf = true) (st0 : State) (i : Nat) :
    ((init cfg st0).ps i).sameBody (st0.ps i) := by
    rw [init_eq]
    refine Particle.sameBody_trans ((forces_agree cfg hwf _ _).body i) ?_
    unfold initState
    refine Particle.sameBody_trans ((runSymbols_agree cfg hwf _).body i) ?_
    have h3 : ∀ s : State, ((clearParticleData s).ps i).sameBody (s.ps i) := by
      intro s; simp only [clearParticleData, mapFree_ps]; split
      · exact Particle.sameBody_refl _
      · exact ⟨rfl, rfl, rfl, rfl, rfl⟩
    refine Particle.sameBody_trans (h3 _) ?_
    have h4 : ∀ (igs : List Integrator) (s : State), ((igs.foldl aboutToStart s).ps i).sameBody (s.ps i) := by
      intro igs
      induction igs with
      | nil => intro s; exact Particle.sameBody_refl _
      | cons ig igs ih =>
        intro s
        refine Particle.sameBody_trans (ih _) ?_
        cases ig with
        | vv c l m =>
          simp only [aboutToStart, mapFree_ps]; split
          · exact Particle.sameBody_refl _
          · unfold onColour; split
            · exact ⟨rfl, rfl, rfl, rfl, rfl⟩
            · exact Particle.sameBody_refl _
        | euler c name =>
          simp only [aboutToStart, mapFree_ps]; split
          · exact Particle.sameBody_refl _
          · unfold onColour; split
            · exact ⟨rfl, rfl, rfl, rfl, rfl⟩
            · exact Particle.sameBody_refl _
    refine Particle.sameBody_trans (h4 _ _) ?_
    exact Particle.sameBody_trans ((clearForce_agree true _).body i) ((clearForce_agree false st0).body i)


/-! ### positions modulo the periodic box -/

/-- `a` and `c` differ by a lattice vector of the periodic directions -/
def LatEq (b : Box) (a c : Vec3) : Prop :=
  ∃ kx ky kz : Int, (b.perX = false → kx = 0) ∧ (b.perY = false → ky = 0) ∧ (b.perZ = false → kz = 0) ∧
    a = c + ⟨kx * b.len.x, ky * b.len.y, kz * b.len.z⟩

theorem LatEq.refl (b : Box) (a : Vec3) : LatEq b a a :=
  ⟨0, 0, 0, fun _ => rfl, fun _ => rfl, fun _ => rfl, by apply Vec3.ext' <;> simp <;> grind⟩

theorem LatEq.trans {b : Box} {a c d : Vec3} (h1 : LatEq b a c) (h2 : LatEq b c d) : LatEq b a d := by
  obtain ⟨kx, ky, kz, hx, hy, hz, e1⟩ := h1
  obtain ⟨jx, jy, jz, gx, gy, gz, e2⟩ := h2
  refine ⟨kx + jx, ky + jy, kz + jz, fun h => by rw [hx h, gx h]; rfl, fun h => by rw [hy h, gy h]; rfl,
    fun h => by rw [hz h, gz h]; rfl, ?_⟩
  rw [e1, e2]
  apply Vec3.ext' <;> simp [Rat.intCast_add] <;> grind

theorem LatEq.add_right {b : Box} {a c : Vec3} (h : LatEq b a c) (d : Vec3) : LatEq b (a + d) (c + d) := by
  obtain ⟨kx, ky, kz, hx, hy, hz, e⟩ := h
  refine ⟨kx, ky, kz, hx, hy, hz, ?_⟩
  rw [e]; apply Vec3.ext' <;> simp <;> grind

theorem wrap1_eq (per : Bool) (L x : Rat) : ∃ k : Int, (per = false → k = 0) ∧ wrap1 per L x = x + k * L := by
  unfold wrap1
  cases per with
  | false => exact ⟨0, fun _ => rfl, by simp; grind⟩
  | true =>
    simp only [if_true]
    split
    · exact ⟨1, (fun h => by cases h), by simp⟩
    · split
      · exact ⟨-1, (fun h => by cases h), by simp; grind⟩
      · exact ⟨0, (fun h => by cases h), by simp; grind⟩

theorem wrap_latEq (b : Box) (r : Vec3) : LatEq b (wrap b r) r := by
  obtain ⟨kx, hx, ex⟩ := wrap1_eq b.perX b.len.x r.x
  obtain ⟨ky, hy, ey⟩ := wrap1_eq b.perY b.len.y r.y
  obtain ⟨kz, hz, ez⟩ := wrap1_eq b.perZ b.len.z r.z
  exact ⟨kx, ky, kz, hx, hy, hz, by apply Vec3.ext' <;> simp [wrap, ex, ey, ez]⟩

/-- C05: velocity Verlet reproduces constant-acceleration motion exactly (positions modulo the periodic box) -/
theorem run_vv_const (cfg : Config) (hwf : cfg.wf = true) (st0 : State) (i : Nat) (hi : i < st0.n)
    (hf : (st0.ps i).frozen = false) (l m : Rat) (hvv : vvOf cfg (st0.ps i).colour = [(l, m)])
    (F : Vec3) (hconst : ∀ S : State, (S.ps i).colour = (st0.ps i).colour → totalForce cfg S i .vel = F)
    (n : Nat) :
    ((run cfg n (init cfg st0)).ps i).v = (st0.ps i).v + (((n : Nat) : Rat) * cfg.dt) • ((1 / m) • F) ∧
    LatEq cfg.box ((run cfg n (init cfg st0)).ps i).r
      ((st0.ps i).r + (((n : Nat) : Rat) * cfg.dt) • (st0.ps i).v
        + ((((n : Nat) : Rat) * cfg.dt) * (((n : Nat) : Rat) * cfg.dt) / 2) • ((1 / m) • F)) ∧
    ((run cfg n (init cfg st0)).ps i).tag (.force .vel (run cfg n (init cfg st0)).forceIdx) = F := by
  induction n with
  | zero =>
    have hb := init_body cfg hwf st0 i
    refine ⟨?_, ?_, ?_⟩
    · simp only [run]; rw [hb.2.2.2.2]; apply Vec3.ext' <;> simp <;> grind
    · simp only [run]; rw [hb.2.2.2.1]
      have : (st0.ps i).r + (((0 : Nat) : Rat) * cfg.dt) • (st0.ps i).v
          + ((((0 : Nat) : Rat) * cfg.dt) * (((0 : Nat) : Rat) * cfg.dt) / 2) • ((1 / m) • F) = (st0.ps i).r := by
        apply Vec3.ext' <;> simp <;> grind
      rw [this]; exact LatEq.refl _ _
    · simp only [run]
      rw [init_forceIdx cfg hwf, init_force cfg hwf st0 i hi hf _ (Or.inl rfl)]
      exact hconst _ ((initState_pres cfg st0).ident i).1
  | succ n ih =>
    have hp : Pres st0 (run cfg n (init cfg st0)) := (init_pres cfg st0).trans (run_pres cfg n _)
    have hcol := (hp.ident i).1
    have hfr : ((run cfg n (init cfg st0)).ps i).frozen = false := by rw [(hp.ident i).2.2]; exact hf
    have hin : i < (run cfg n (init cfg st0)).n := by rw [hp.n]; exact hi
    obtain ⟨ihv, ihr, ihf⟩ := ih
    have hs := step_vv cfg hwf _ i hin hfr l m (by rw [hcol]; exact hvv)
    have hnew : ((step cfg (run cfg n (init cfg st0))).ps i).tag (.force .vel (!(run cfg n (init cfg st0)).forceIdx)) = F := by
      have := step_force cfg hwf _ i hin hfr .vel (Or.inl rfl)
      rw [step_forceIdx] at this
      rw [this]
      exact hconst _ (((preState_pres cfg _).ident i).1.trans hcol)
    refine ⟨?_, ?_, ?_⟩
    · simp only [run]; rw [hs.2, hnew, ihf, ihv]
      apply Vec3.ext' <;> simp <;> grind
    · simp only [run]; rw [hs.1, ihf, ihv]
      refine (wrap_latEq cfg.box _).trans ?_
      have := ihr.add_right (cfg.dt • ((st0.ps i).v + (((n : Nat) : Rat) * cfg.dt) • ((1 / m) • F)
        + ((1 / 2 : Rat) * cfg.dt) • ((1 / m) • F)))
      have e : (st0.ps i).r + (((n : Nat) : Rat) * cfg.dt) • (st0.ps i).v
            + ((((n : Nat) : Rat) * cfg.dt) * (((n : Nat) : Rat) * cfg.dt) / 2) • ((1 / m) • F)
            + cfg.dt • ((st0.ps i).v + (((n : Nat) : Rat) * cfg.dt) • ((1 / m) • F)
              + ((1 / 2 : Rat) * cfg.dt) • ((1 / m) • F))
          = (st0.ps i).r + (((n + 1 : Nat) : Rat) * cfg.dt) • (st0.ps i).v
            + ((((n + 1 : Nat) : Rat) * cfg.dt) * (((n + 1 : Nat) : Rat) * cfg.dt) / 2) • ((1 / m) • F) := by
        apply Vec3.ext' <;> simp <;> grind
      rw [e] at this
      exact this
    · simp only [run]; rw [step_forceIdx]; exact hnew


/-! ### independence of the velocities (expressions that do not read `[v]`) -/

/-- equal up to the velocity -/
def PEqV (p q : Particle) : Prop :=
  p.colour = q.colour ∧ p.slot = q.slot ∧ p.frozen = q.frozen ∧ p.r = q.r ∧ p.tag = q.tag

theorem PEqV.refl (p : Particle) : PEqV p p := ⟨rfl, rfl, rfl, rfl, rfl⟩

structure EqV (s s' : State) : Prop where
  n : s.n = s'.n
  fi : s.forceIdx = s'.forceIdx
  pers : s.pers = s'.pers
  ps : ∀ i, PEqV (s.ps i) (s'.ps i)

theorem EqV.refl (s : State) : EqV s s := ⟨rfl, rfl, rfl, fun _ => PEqV.refl _⟩

/-- no module expression reads a velocity -/
structure NoVel (cfg : Config) : Prop where
  caches : ∀ c ∈ cfg.caches, c.expr.usesVel = false
  sums : ∀ m ∈ cfg.sums, m.usesVel = false
  pairForces : ∀ m ∈ cfg.pairForces, m.usesVel = false
  partForces : ∀ c ∈ cfg.partForces, c.expr.usesVel = false

theorem foldl_rel2 {α β} (R : β → β → Prop) (f g : β → α → β) (l : List α)
    (h : ∀ s s' a, a ∈ l → R s s' → R (f s a) (g s' a)) : ∀ s s', R s s' → R (l.foldl f s) (l.foldl g s') := by
  induction l with
  | nil => intro s s' hr; exact hr
  | cons a l ih =>
    intro s s' hr
    exact ih (fun s s' b hb => h s s' b (by simp [hb])) _ _ (h s s' a (by simp) hr)

theorem eval_mkEnv_eqV (b : Box) (e : Expr) (he : e.usesVel = false) {p q p' q' : Particle}
    (hp : PEqV p p') (hq : PEqV q q') : e.eval (mkEnv b p q) = e.eval (mkEnv b p' q') := by
  apply Expr.eval_congr
  · simp [mkEnv, dist, hp.2.2.2.1, hq.2.2.2.1]
  · exact hp.2.2.2.1
  · exact hq.2.2.2.1
  · left; exact he
  · intro n _; simp [mkEnv, hp.2.2.2.2, hq.2.2.2.2]

theorem eval_envP_eqV (e : Expr) (he : e.usesVel = false) {p p' : Particle} (hp : PEqV p p') :
    e.eval (envP p) = e.eval (envP p') := by
  apply Expr.eval_congr
  · rfl
  · exact hp.2.2.2.1
  · exact hp.2.2.2.1
  · left; exact he
  · intro n _; simp [envP, hp.2.2.2.2]

theorem PEqV.addTag {p p' : Particle} (h : PEqV p p') (k : Key) (x : Vec3) : PEqV (p.addTag k x) (p'.addTag k x) :=
  ⟨h.1, h.2.1, h.2.2.1, h.2.2.2.1, by simp [Particle.addTag, Particle.setTag, h.2.2.2.2]⟩

theorem PEqV.setTag {p p' : Particle} (h : PEqV p p') (k : Key) (x : Vec3) : PEqV (p.setTag k x) (p'.setTag k x) :=
  ⟨h.1, h.2.1, h.2.2.1, h.2.2.2.1, by simp [Particle.setTag, h.2.2.2.2]⟩

theorem EqV.modify {s s' : State} (h : EqV s s') (a : Nat) (f g : Particle → Particle)
    (hfg : PEqV (f (s.ps a)) (g (s'.ps a))) : EqV (s.modify a f) (s'.modify a g) :=
  ⟨h.n, h.fi, h.pers, fun i => by
    simp only [modify_ps]; split
    · exact hfg
    · exact h.ps i⟩

theorem EqV.mapFree {s s' : State} (h : EqV s s') (f g : Particle → Particle)
    (hfg : ∀ p p', PEqV p p' → PEqV (f p) (g p')) : EqV (s.mapFree f) (s'.mapFree g) :=
  ⟨h.n, h.fi, h.pers, fun i => by
    simp only [mapFree_ps, (h.ps i).2.2.1]; split
    · exact h.ps i
    · exact hfg _ _ (h.ps i)⟩

theorem usesVel_parts {m : PairMod} (h : m.usesVel = false) :
    m.expr.usesVel = false ∧ m.fi.usesVel = false ∧ m.fj.usesVel = false := by
  simp only [PairMod.usesVel, Bool.or_eq_false_iff] at h
  exact ⟨h.1.1, h.1.2, h.2⟩

theorem pairOp_eqV (cfg : Config) (k : Bool) (m : PairMod) (hm : m.usesVel = false) (a b : Nat)
    {s s' : State} (h : EqV s s') : EqV (pairOp cfg k m a b s) (pairOp cfg k m a b s') := by
  obtain ⟨he, hfi, hfj⟩ := usesVel_parts hm
  have ha := h.ps a
  have hb := h.ps b
  have hdist : dist cfg.box (s.ps a) (s.ps b) = dist cfg.box (s'.ps a) (s'.ps b) := by
    simp [dist, ha.2.2.2.1, hb.2.2.2.1]
  have hcond : (inList cfg s m.c1 m.c2 a b && inCut cfg m (s.ps a) (s.ps b))
      = (inList cfg s' m.c1 m.c2 a b && inCut cfg m (s'.ps a) (s'.ps b)) := by
    simp only [inList, inCut, hdist, ha.1, hb.1, ha.2.2.1, hb.2.2.1]
  have hfirst : m.first (mkEnv cfg.box (s.ps a) (s.ps b)) = m.first (mkEnv cfg.box (s'.ps a) (s'.ps b)) := by
    simp only [PairMod.first, eval_mkEnv_eqV cfg.box _ he ha hb, eval_mkEnv_eqV cfg.box _ hfi ha hb]
  have hsecond : m.second (mkEnv cfg.box (s.ps a) (s.ps b)) = m.second (mkEnv cfg.box (s'.ps a) (s'.ps b)) := by
    simp only [PairMod.second, eval_mkEnv_eqV cfg.box _ he ha hb, eval_mkEnv_eqV cfg.box _ hfj ha hb]
  unfold pairOp
  rw [hcond]
  split
  · dsimp only
    rw [hfirst, hsecond, ha.2.2.1, hb.2.2.1]
    have h1 : EqV (if (!(s'.ps a).frozen) = true then s.modify a (fun p => p.addTag (m.target.key k) (m.first (mkEnv cfg.box (s'.ps a) (s'.ps b)))) else s)
        (if (!(s'.ps a).frozen) = true then s'.modify a (fun p => p.addTag (m.target.key k) (m.first (mkEnv cfg.box (s'.ps a) (s'.ps b)))) else s') := by
      split
      · exact h.modify a _ _ (ha.addTag _ _)
      · exact h
    split
    · exact h1.modify b _ _ ((h1.ps b).addTag _ _)
    · exact h1
  · exact h

theorem pairPhase_eqV (cfg : Config) (k : Bool) (ms : List PairMod) (hms : ∀ m ∈ ms, m.usesVel = false)
    {s s' : State} (h : EqV s s') : EqV (pairPhase cfg k ms s) (pairPhase cfg k ms s') := by
  unfold pairPhase
  rw [h.n]
  exact foldl_rel2 EqV _ _ _ (fun s s' ab _ hr =>
    foldl_rel2 EqV _ _ _ (fun s s' m hm hr => pairOp_eqV cfg k m (hms m hm) ab.1 ab.2 hr) s s' hr) s s' h

theorem partOp_eqV (k : Bool) (m : PartMod) (hm : m.expr.usesVel = false) {p p' : Particle} (h : PEqV p p') :
    PEqV (partOp k m p) (partOp k m p') := by
  unfold partOp
  rw [h.1, eval_envP_eqV m.expr hm h]
  split
  · split
    · exact h.setTag _ _
    · exact h.addTag _ _
  · exact h

theorem partPhase_eqV (k : Bool) (ms : List PartMod) (hms : ∀ m ∈ ms, m.expr.usesVel = false)
    {s s' : State} (h : EqV s s') : EqV (partPhase k ms s) (partPhase k ms s') := by
  unfold partPhase
  exact h.mapFree _ _ (fun p p' hp =>
    foldl_rel2 PEqV _ _ _ (fun q q' m hm hq => partOp_eqV k m (hms m hm) hq) p p' hp)

theorem runSymbols_eqV (cfg : Config) (hnv : NoVel cfg) {s s' : State} (h : EqV s s') :
    EqV (runSymbols cfg s) (runSymbols cfg s') := by
  unfold runSymbols
  exact foldl_rel2 EqV _ _ _ (fun s s' t _ hr => by
    unfold runStage
    exact pairPhase_eqV cfg false _ (fun m hm => hnv.sums m (List.mem_filter.mp hm).1)
      (partPhase_eqV false _ (fun m hm => hnv.caches m (List.mem_filter.mp hm).1) hr)) s s' h

theorem hasFree_eqV {s s' : State} (h : EqV s s') (c : Nat) : hasFree s c = hasFree s' c := by
  unfold hasFree
  rw [h.n]
  congr 1
  funext i
  rw [(h.ps i).1, (h.ps i).2.2.1]

theorem unprotect_eqV (k : Bool) (ig : Integrator) {s s' : State} (h : EqV s s') :
    EqV (unprotect k s ig) (unprotect k s' ig) := by
  cases ig with
  | vv c l m => exact h
  | euler c name =>
    unfold unprotect; dsimp only
    rw [hasFree_eqV h c]
    split
    · exact ⟨h.n, h.fi, by simp only [h.pers], h.ps⟩
    · exact h

theorem preForce_eqV (cfg : Config) (hnv : NoVel cfg) (k : Bool) {s s' : State} (h : EqV s s') :
    EqV (preForce cfg k s) (preForce cfg k s') := by
  unfold preForce
  apply runSymbols_eqV cfg hnv
  have h2 : EqV (clearForce k s) (clearForce k s') := h.mapFree _ _ (fun p p' hp => hp.setTag _ _)
  have h3 : EqV (cfg.integrators.foldl (unprotect k) (clearForce k s)) (cfg.integrators.foldl (unprotect k) (clearForce k s')) :=
    foldl_rel2 EqV _ _ _ (fun s s' ig _ hr => unprotect_eqV k ig hr) _ _ h2
  unfold clearParticleData
  rw [h3.pers]
  exact h3.mapFree _ _ (fun p p' hp => ⟨hp.1, hp.2.1, hp.2.2.1, hp.2.2.2.1, by simp only [hp.1, hp.2.2.2.2]⟩)

theorem forces_eqV (cfg : Config) (hnv : NoVel cfg) (k : Bool) {s s' : State} (h : EqV s s') :
    EqV (forces cfg k s) (forces cfg k s') := by
  unfold forces
  exact partPhase_eqV k _ hnv.partForces (pairPhase_eqV cfg k _ hnv.pairForces h)


/-! ### changing lambda -/

def reLambda (g : Nat → Rat) : Integrator → Integrator
  | .vv c _ m => .vv c (g c) m
  | .euler c n => .euler c n

/-- the same input file with other `lambda` attributes -/
def Config.withLambda (cfg : Config) (g : Nat → Rat) : Config :=
  { cfg with integrators := cfg.integrators.map (reLambda g) }

theorem vvOfL_map (g : Nat → Rat) (igs : List Integrator) (c : Nat) :
    vvOfL (igs.map (reLambda g)) c = (vvOfL igs c).map (fun lm => (g c, lm.2)) := by
  induction igs with
  | nil => rfl
  | cons ig igs ih =>
    rw [List.map_cons, vvOfL_cons, vvOfL_cons, List.map_append, ih]
    congr 1
    cases ig with
    | vv c' l m => by_cases h : c' = c <;> simp [reLambda, vvHead, h]
    | euler c' n => simp [reLambda, vvHead]

theorem integ1P_reLambda_other (cfg : Config) (g : Nat → Rat) (idx : Bool) (ig : Integrator) (q q' : Particle)
    (h : PEqV q q') (hv : q.v = q'.v) (hne : ∀ l m, ig ≠ .vv q.colour l m) :
    PEqV (integ1P cfg idx ig q) (integ1P (cfg.withLambda g) idx (reLambda g ig) q') ∧
    (integ1P cfg idx ig q).v = (integ1P (cfg.withLambda g) idx (reLambda g ig) q').v := by
  cases ig with
  | vv c l m =>
    have hc : q.colour ≠ c := fun e => hne l m (by rw [e])
    have hc' : q'.colour ≠ c := by rw [← h.1]; exact hc
    simp only [integ1P, reLambda, onColour, hc, hc', if_false]
    exact ⟨h, hv⟩
  | euler c name =>
    simp only [integ1P, reLambda, onColour, ← h.1]
    split
    · refine ⟨?_, ?_⟩
      · unfold eulerStep1
        rw [h.2.2.2.2]
        exact h.addTag _ _
      · simp [eulerStep1, hv]
    · exact ⟨h, hv⟩

theorem integ1P_fold_reLambda_none (cfg : Config) (g : Nat → Rat) (idx : Bool) (igs : List Integrator)
    (q q' : Particle) (h : PEqV q q') (hnone : vvOfL igs q.colour = []) :
    PEqV (igs.foldl (fun p ig => integ1P cfg idx ig p) q)
      ((igs.map (reLambda g)).foldl (fun p ig => integ1P (cfg.withLambda g) idx ig p) q') := by
  induction igs generalizing q q' with
  | nil => exact h
  | cons ig igs ih =>
    rw [vvOfL_cons] at hnone
    have hne : ∀ l m, ig ≠ .vv q.colour l m := by
      intro l m he; subst he; simp [vvHead] at hnone
    simp only [List.map_cons, List.foldl_cons]
    apply ih
    · -- PEqV after the head (velocities need not agree here)
      cases ig with
      | vv c l m =>
        have hc : q.colour ≠ c := fun e => hne l m (by rw [e])
        have hc' : q'.colour ≠ c := by rw [← h.1]; exact hc
        simp only [integ1P, reLambda, onColour, hc, hc', if_false]
        exact h
      | euler c name =>
        simp only [integ1P, reLambda, onColour, ← h.1]
        split
        · unfold eulerStep1; rw [h.2.2.2.2]; exact h.addTag _ _
        · exact h
    · rw [(integ1P_frozen cfg idx ig q).2]; exact (List.append_eq_nil_iff.mp hnone).2

/-- at most one velocity Verlet for the colour: after `integrateStep1` of all integrators the states
for two lambdas differ in the velocity only -/
theorem integ1P_fold_reLambda (cfg : Config) (g : Nat → Rat) (idx : Bool) (igs : List Integrator)
    (q q' : Particle) (h : PEqV q q') (hv : q.v = q'.v) (hlen : (vvOfL igs q.colour).length ≤ 1) :
    PEqV (igs.foldl (fun p ig => integ1P cfg idx ig p) q)
      ((igs.map (reLambda g)).foldl (fun p ig => integ1P (cfg.withLambda g) idx ig p) q') := by
  induction igs generalizing q q' with
  | nil => exact h
  | cons ig igs ih =>
    simp only [List.map_cons, List.foldl_cons]
    by_cases hig : ∃ l m, ig = .vv q.colour l m
    · obtain ⟨l, m, rfl⟩ := hig
      rw [vvOfL_cons] at hlen
      simp only [vvHead, if_true, List.singleton_append, List.length_cons] at hlen
      have hrest : vvOfL igs q.colour = [] := List.length_eq_zero_iff.mp (by omega)
      apply integ1P_fold_reLambda_none
      · have hc' : q'.colour = q.colour := h.1.symm
        simp only [integ1P, reLambda, onColour, hc', if_true]
        refine ⟨h.1, h.2.1, h.2.2.1, ?_, h.2.2.2.2⟩
        simp only [vvStep1, h.2.2.2.1, hv, h.2.2.2.2]
        rfl
      · rw [(integ1P_frozen cfg idx _ q).2]; exact hrest
    · have hne : ∀ l m, ig ≠ .vv q.colour l m := fun l m he => hig ⟨l, m, he⟩
      obtain ⟨h1, h2⟩ := integ1P_reLambda_other cfg g idx ig q q' h hv hne
      apply ih _ _ h1 h2
      rw [(integ1P_frozen cfg idx ig q).2]
      rw [vvOfL_cons] at hlen
      simp only [List.length_append] at hlen
      omega

theorem integ1_fold_reLambda (cfg : Config) (g : Nat → Rat) (st : State)
    (hlen : ∀ c, (vvOf cfg c).length ≤ 1) :
    EqV (cfg.integrators.foldl (integ1 cfg) st)
      ((cfg.withLambda g).integrators.foldl (integ1 (cfg.withLambda g)) st) := by
  have hp1 : Pres st (cfg.integrators.foldl (integ1 cfg) st) := Pres.foldl _ _ (fun s a _ => integ1_pres cfg s a) st
  have hp2 : Pres st ((cfg.withLambda g).integrators.foldl (integ1 (cfg.withLambda g)) st) :=
    Pres.foldl _ _ (fun s a _ => integ1_pres _ s a) st
  refine ⟨hp1.n.trans hp2.n.symm, ?_, ?_, fun i => ?_⟩
  · cases hfz : (st.ps 0).frozen
    · rw [(integ1_fold_ps cfg _ st 0 hfz).2, (integ1_fold_ps _ _ st 0 hfz).2]
    · -- forceIdx is never touched by integ1, independent of particle 0
      have : ∀ (c : Config) (igs : List Integrator) (s : State), (igs.foldl (integ1 c) s).forceIdx = s.forceIdx := by
        intro c igs
        induction igs with
        | nil => intro s; rfl
        | cons ig igs ih => intro s; simp only [List.foldl_cons]; rw [ih, integ1_forceIdx]
      rw [this, this]
  · rw [integ1_fold_pers, integ1_fold_pers]
  · cases hfz : (st.ps i).frozen
    · rw [(integ1_fold_ps cfg _ st i hfz).1, (integ1_fold_ps _ _ st i hfz).1]
      exact integ1P_fold_reLambda cfg g st.forceIdx cfg.integrators _ _ (PEqV.refl _) rfl (hlen _)
    · rw [hp1.frozen i hfz, hp2.frozen i hfz]; exact PEqV.refl _

theorem unprotect_reLambda (g : Nat → Rat) (k : Bool) (s : State) (ig : Integrator) :
    unprotect k s (reLambda g ig) = unprotect k s ig := by
  cases ig <;> rfl

theorem preForce_withLambda (cfg : Config) (g : Nat → Rat) (k : Bool) (s : State) :
    preForce (cfg.withLambda g) k s = preForce cfg k s := by
  unfold preForce
  have : (cfg.withLambda g).integrators.foldl (unprotect k) (clearForce k s)
      = cfg.integrators.foldl (unprotect k) (clearForce k s) := by
    show (cfg.integrators.map (reLambda g)).foldl (unprotect k) _ = _
    rw [List.foldl_map]
    congr 1
    funext s ig
    exact unprotect_reLambda g k s ig
  dsimp only
  rw [this]; rfl

theorem forces_withLambda (cfg : Config) (g : Nat → Rat) (k : Bool) (s : State) :
    forces (cfg.withLambda g) k s = forces cfg k s := rfl

/-- the states after the force evaluation of `step`, for two choices of lambda, differ in the velocities only -/
theorem step_forces_reLambda (cfg : Config) (hnv : NoVel cfg) (g : Nat → Rat) (st : State)
    (hlen : ∀ c, (vvOf cfg c).length ≤ 1) :
    EqV (forces cfg (!st.forceIdx) (preState cfg st))
      (forces (cfg.withLambda g) (!st.forceIdx) (preState (cfg.withLambda g) st)) := by
  rw [forces_withLambda]
  unfold preState
  rw [preForce_withLambda]
  exact forces_eqV cfg hnv _ (preForce_eqV cfg hnv _ (integ1_fold_reLambda cfg g st hlen))


theorem Particle.ext' {p q : Particle} (h1 : p.colour = q.colour) (h2 : p.slot = q.slot) (h3 : p.frozen = q.frozen)
    (h4 : p.r = q.r) (h5 : p.v = q.v) (h6 : p.tag = q.tag) : p = q := by
  cases p; cases q; simp_all

/-- a free particle whose colour has no velocity-Verlet integrator keeps `r` and `v` -/
theorem step_noVV (cfg : Config) (hwf : cfg.wf = true) (st : State) (i : Nat)
    (hf : (st.ps i).frozen = false) (hvv : vvOf cfg (st.ps i).colour = []) :
    ((step cfg st).ps i).r = (st.ps i).r ∧ ((step cfg st).ps i).v = (st.ps i).v := by
  have h1 := integ1_fold_ps cfg cfg.integrators st i hf
  have h1' := integ1P_fold_none cfg st.forceIdx cfg.integrators (st.ps i) hvv
  rw [← h1.1] at h1'
  have hp1 : Pres st (cfg.integrators.foldl (integ1 cfg) st) := Pres.foldl _ _ (fun s a _ => integ1_pres cfg s a) st
  have hb5 := preForce_body cfg hwf (!st.forceIdx) (cfg.integrators.foldl (integ1 cfg) st) i
  have hb7 := (forces_agree cfg hwf (!st.forceIdx) (preState cfg st)).body i
  have hb : ((forces cfg (!st.forceIdx) (preState cfg st)).ps i).sameBody ((cfg.integrators.foldl (integ1 cfg) st).ps i) :=
    Particle.sameBody_trans hb7 hb5
  have hcol : ((forces cfg (!st.forceIdx) (preState cfg st)).ps i).colour = (st.ps i).colour :=
    hb.1.trans (hp1.ident i).1
  have hfr : ((forces cfg (!st.forceIdx) (preState cfg st)).ps i).frozen = false := by
    rw [hb.2.2.1, (hp1.ident i).2.2]; exact hf
  have h2 : (step cfg st).ps i = (forces cfg (!st.forceIdx) (preState cfg st)).ps i := by
    have := integ2_fold_ps cfg cfg.integrators
      { forces cfg (!st.forceIdx) (preState cfg st) with forceIdx := !st.forceIdx } i hfr
    have e : (step cfg st).ps i = (cfg.integrators.foldl (integ2 cfg)
      { forces cfg (!st.forceIdx) (preState cfg st) with forceIdx := !st.forceIdx }).ps i := rfl
    rw [e, this]
    exact integ2P_fold_none cfg (!st.forceIdx) cfg.integrators _ (by rw [hcol]; exact hvv)
  rw [h2, hb.2.2.2.1, hb.2.2.2.2, h1'.1, h1'.2.1]
  exact ⟨rfl, rfl⟩

theorem withLambda_wf (cfg : Config) (g : Nat → Rat) : (cfg.withLambda g).wf = cfg.wf := rfl

/-- C05: when no expression reads a velocity, the result of a time step does not depend on the
predictor parameter `lambda` of the velocity-Verlet integrators. -/
theorem step_withLambda (cfg : Config) (hwf : cfg.wf = true) (hnv : NoVel cfg) (g : Nat → Rat) (st : State)
    (hlen : ∀ c, (vvOf cfg c).length ≤ 1) (i : Nat) (hi : i < st.n) :
    (step (cfg.withLambda g) st).ps i = (step cfg st).ps i := by
  have hpA := step_pres cfg st
  have hpB := step_pres (cfg.withLambda g) st
  have hE := step_forces_reLambda cfg hnv g st hlen
  have htag : ((step (cfg.withLambda g) st).ps i).tag = ((step cfg st).ps i).tag := by
    rw [step_tag, step_tag]; exact ((hE.ps i).2.2.2.2).symm
  cases hfz : (st.ps i).frozen
  · have hwfB : (cfg.withLambda g).wf = true := hwf
    apply Particle.ext'
    · rw [(hpA.ident i).1, (hpB.ident i).1]
    · rw [(hpA.ident i).2.1, (hpB.ident i).2.1]
    · rw [(hpA.ident i).2.2, (hpB.ident i).2.2]
    · -- r
      match hv : vvOf cfg (st.ps i).colour with
      | [] =>
        have hvB : vvOf (cfg.withLambda g) (st.ps i).colour = [] := by
          show vvOfL (cfg.integrators.map (reLambda g)) _ = _
          rw [vvOfL_map]; simp [show vvOfL cfg.integrators (st.ps i).colour = [] from hv]
        rw [(step_noVV cfg hwf st i hfz hv).1, (step_noVV _ hwfB st i hfz hvB).1]
      | [(l, m)] =>
        have hvB : vvOf (cfg.withLambda g) (st.ps i).colour = [(g (st.ps i).colour, m)] := by
          show vvOfL (cfg.integrators.map (reLambda g)) _ = _
          rw [vvOfL_map]; simp [show vvOfL cfg.integrators (st.ps i).colour = [(l, m)] from hv]
        rw [(step_vv cfg hwf st i hi hfz l m hv).1, (step_vv _ hwfB st i hi hfz _ m hvB).1]
        rfl
      | _ :: _ :: _ =>
        have := hlen (st.ps i).colour
        rw [hv] at this; simp at this
    · -- v
      match hv : vvOf cfg (st.ps i).colour with
      | [] =>
        have hvB : vvOf (cfg.withLambda g) (st.ps i).colour = [] := by
          show vvOfL (cfg.integrators.map (reLambda g)) _ = _
          rw [vvOfL_map]; simp [show vvOfL cfg.integrators (st.ps i).colour = [] from hv]
        rw [(step_noVV cfg hwf st i hfz hv).2, (step_noVV _ hwfB st i hfz hvB).2]
      | [(l, m)] =>
        have hvB : vvOf (cfg.withLambda g) (st.ps i).colour = [(g (st.ps i).colour, m)] := by
          show vvOfL (cfg.integrators.map (reLambda g)) _ = _
          rw [vvOfL_map]; simp [show vvOfL cfg.integrators (st.ps i).colour = [(l, m)] from hv]
        rw [(step_vv cfg hwf st i hi hfz l m hv).2, (step_vv _ hwfB st i hi hfz _ m hvB).2, htag]
        rfl
      | _ :: _ :: _ =>
        have := hlen (st.ps i).colour
        rw [hv] at this; simp at this
    · exact htag
  · rw [hpA.frozen i hfz, hpB.frozen i hfz]



/-! ### time reversal -/

/-- agree on identity, position and all SYMBOL attributes (velocities and force slots are free) -/
def PEqS (p q : Particle) : Prop :=
  p.colour = q.colour ∧ p.slot = q.slot ∧ p.frozen = q.frozen ∧ p.r = q.r ∧ ∀ n, p.tag (.sym n) = q.tag (.sym n)

structure EqS (s s' : State) : Prop where
  n : s.n = s'.n
  ps : ∀ i, PEqS (s.ps i) (s'.ps i)

theorem eval_mkEnv_eqS (b : Box) (e : Expr) (he : e.usesVel = false) {p q p' q' : Particle}
    (hp : PEqS p p') (hq : PEqS q q') : e.eval (mkEnv b p q) = e.eval (mkEnv b p' q') := by
  apply Expr.eval_congr
  · simp [mkEnv, dist, hp.2.2.2.1, hq.2.2.2.1]
  · exact hp.2.2.2.1
  · exact hq.2.2.2.1
  · left; exact he
  · intro n _; exact ⟨hp.2.2.2.2 n, hq.2.2.2.2 n⟩

theorem eval_envP_eqS (e : Expr) (he : e.usesVel = false) {p p' : Particle} (hp : PEqS p p') :
    e.eval (envP p) = e.eval (envP p') := by
  apply Expr.eval_congr
  · rfl
  · exact hp.2.2.2.1
  · exact hp.2.2.2.1
  · left; exact he
  · intro n _; exact ⟨hp.2.2.2.2 n, hp.2.2.2.2 n⟩

theorem PEqS.addTag {p p' : Particle} (h : PEqS p p') (k : Key) (x : Vec3) : PEqS (p.addTag k x) (p'.addTag k x) :=
  ⟨h.1, h.2.1, h.2.2.1, h.2.2.2.1, fun n => by
    simp only [addTag_tag]
    split
    · rename_i hk; rw [← hk, h.2.2.2.2 n]
    · exact h.2.2.2.2 n⟩

theorem PEqS.setTag {p p' : Particle} (h : PEqS p p') (k : Key) (x : Vec3) : PEqS (p.setTag k x) (p'.setTag k x) :=
  ⟨h.1, h.2.1, h.2.2.1, h.2.2.2.1, fun n => by
    simp only [setTag_tag]
    split
    · rfl
    · exact h.2.2.2.2 n⟩

theorem EqS.modify {s s' : State} (h : EqS s s') (a : Nat) (f g : Particle → Particle)
    (hfg : PEqS (f (s.ps a)) (g (s'.ps a))) : EqS (s.modify a f) (s'.modify a g) :=
  ⟨h.n, fun i => by
    simp only [modify_ps]; split
    · exact hfg
    · exact h.ps i⟩

theorem EqS.mapFree {s s' : State} (h : EqS s s') (f g : Particle → Particle)
    (hfg : ∀ p p', PEqS p p' → PEqS (f p) (g p')) : EqS (s.mapFree f) (s'.mapFree g) :=
  ⟨h.n, fun i => by
    simp only [mapFree_ps, (h.ps i).2.2.1]; split
    · exact h.ps i
    · exact hfg _ _ (h.ps i)⟩

/-- pair sums (symbol targets): same kernel call on symbol-equal states gives symbol-equal states -/
theorem pairOp_eqS (cfg : Config) (k : Bool) (m : PairMod) (hm : m.usesVel = false)
    (ht : ∃ n, m.target = .sym n) (a b : Nat)
    {s s' : State} (h : EqS s s') : EqS (pairOp cfg k m a b s) (pairOp cfg k m a b s') := by
  obtain ⟨he, hfi, hfj⟩ := usesVel_parts hm
  obtain ⟨name, hname⟩ := ht
  have ha := h.ps a
  have hb := h.ps b
  have hdist : dist cfg.box (s.ps a) (s.ps b) = dist cfg.box (s'.ps a) (s'.ps b) := by
    simp [dist, ha.2.2.2.1, hb.2.2.2.1]
  have hcond : (inList cfg s m.c1 m.c2 a b && inCut cfg m (s.ps a) (s.ps b))
      = (inList cfg s' m.c1 m.c2 a b && inCut cfg m (s'.ps a) (s'.ps b)) := by
    simp only [inList, inCut, hdist, ha.1, hb.1, ha.2.2.1, hb.2.2.1]
  have hfirst : m.first (mkEnv cfg.box (s.ps a) (s.ps b)) = m.first (mkEnv cfg.box (s'.ps a) (s'.ps b)) := by
    simp only [PairMod.first, eval_mkEnv_eqS cfg.box _ he ha hb, eval_mkEnv_eqS cfg.box _ hfi ha hb]
  have hsecond : m.second (mkEnv cfg.box (s.ps a) (s.ps b)) = m.second (mkEnv cfg.box (s'.ps a) (s'.ps b)) := by
    simp only [PairMod.second, eval_mkEnv_eqS cfg.box _ he ha hb, eval_mkEnv_eqS cfg.box _ hfj ha hb]
  unfold pairOp
  rw [hcond]
  split
  · dsimp only
    rw [hfirst, hsecond, ha.2.2.1, hb.2.2.1]
    have h1 : EqS (if (!(s'.ps a).frozen) = true then s.modify a (fun p => p.addTag (m.target.key k) (m.first (mkEnv cfg.box (s'.ps a) (s'.ps b)))) else s)
        (if (!(s'.ps a).frozen) = true then s'.modify a (fun p => p.addTag (m.target.key k) (m.first (mkEnv cfg.box (s'.ps a) (s'.ps b)))) else s') := by
      split
      · exact h.modify a _ _ (ha.addTag _ _)
      · exact h
    split
    · exact h1.modify b _ _ ((h1.ps b).addTag _ _)
    · exact h1
  · exact h

theorem partOp_eqS (k : Bool) (m : PartMod) (hm : m.expr.usesVel = false) {p p' : Particle} (h : PEqS p p') :
    PEqS (partOp k m p) (partOp k m p') := by
  unfold partOp
  rw [h.1, eval_envP_eqS m.expr hm h]
  split
  · split
    · exact h.setTag _ _
    · exact h.addTag _ _
  · exact h

theorem pairPhase_eqS (cfg : Config) (k : Bool) (ms : List PairMod) (hms : ∀ m ∈ ms, m.usesVel = false)
    (hts : ∀ m ∈ ms, ∃ n, m.target = .sym n)
    {s s' : State} (h : EqS s s') : EqS (pairPhase cfg k ms s) (pairPhase cfg k ms s') := by
  unfold pairPhase
  rw [h.n]
  exact foldl_rel2 EqS _ _ _ (fun s s' ab _ hr =>
    foldl_rel2 EqS _ _ _ (fun s s' m hm hr => pairOp_eqS cfg k m (hms m hm) (hts m hm) ab.1 ab.2 hr) s s' hr) s s' h

theorem partPhase_eqS (k : Bool) (ms : List PartMod) (hms : ∀ m ∈ ms, m.expr.usesVel = false)
    {s s' : State} (h : EqS s s') : EqS (partPhase k ms s) (partPhase k ms s') := by
  unfold partPhase
  exact h.mapFree _ _ (fun p p' hp =>
    foldl_rel2 PEqS _ _ _ (fun q q' m hm hq => partOp_eqS k m (hms m hm) hq) p p' hp)

theorem wf_sums_target {cfg : Config} (hwf : cfg.wf = true) {m : PairMod} (hm : m ∈ cfg.sums) :
    ∃ n, m.target = .sym n := by
  obtain ⟨n, hn⟩ := wf_sums hwf hm false
  cases hmt : m.target with
  | sym n' => exact ⟨n', rfl⟩
  | force d => rw [hmt] at hn; simp [Target.key] at hn

theorem runSymbols_eqS (cfg : Config) (hwf : cfg.wf = true) (hnv : NoVel cfg) {s s' : State} (h : EqS s s') :
    EqS (runSymbols cfg s) (runSymbols cfg s') := by
  unfold runSymbols
  refine foldl_rel2 EqS _ _ _ (fun s s' t _ hr => ?_) s s' h
  unfold runStage
  exact pairPhase_eqS cfg false _ (fun m hm => hnv.sums m (List.mem_filter.mp hm).1)
    (fun m hm => wf_sums_target hwf (List.mem_filter.mp hm).1)
    (partPhase_eqS false _ (fun m hm => hnv.caches m (List.mem_filter.mp hm).1) hr)

/-- the registered forces, evaluated on symbol-equal states, are equal -/
theorem totalForce_eqS (cfg : Config) (hnv : NoVel cfg) {S S' : State} (h : EqS S S') (i : Nat) (d : Dof) :
    totalForce cfg S i d = totalForce cfg S' i d := by
  unfold totalForce
  congr 1
  · apply vsum_map_congr
    intro m hm
    split
    · unfold pairForceOn
      rw [h.n]
      obtain ⟨he, hfi, hfj⟩ := usesVel_parts (hnv.pairForces m hm)
      have hact : ∀ a b, pairActive cfg m S a b = pairActive cfg m S' a b := by
        intro a b
        have ha := h.ps a
        have hb := h.ps b
        have hdist : dist cfg.box (S.ps a) (S.ps b) = dist cfg.box (S'.ps a) (S'.ps b) := by
          simp [dist, ha.2.2.2.1, hb.2.2.2.1]
        simp only [pairActive, inList, inCut, hdist, ha.1, hb.1, ha.2.2.1, hb.2.2.1]
      congr 1
      · apply vsum_map_congr; intro b _
        rw [hact]
        simp only [PairMod.first, eval_mkEnv_eqS cfg.box _ he (h.ps i) (h.ps b), eval_mkEnv_eqS cfg.box _ hfi (h.ps i) (h.ps b)]
      · apply vsum_map_congr; intro a _
        rw [hact]
        simp only [PairMod.second, eval_mkEnv_eqS cfg.box _ he (h.ps a) (h.ps i), eval_mkEnv_eqS cfg.box _ hfj (h.ps a) (h.ps i)]
    · rfl
  · apply vsum_map_congr
    intro m hm
    rw [(h.ps i).1, eval_envP_eqS m.expr (hnv.partForces m hm) (h.ps i)]



/-- static data: identities, persistence flags of symbols, and the symbol values that are never
recomputed (frozen particles; persistent attributes) -/
structure Stat (s s' : State) : Prop where
  n : s.n = s'.n
  ident : ∀ i, (s.ps i).colour = (s'.ps i).colour ∧ (s.ps i).slot = (s'.ps i).slot ∧ (s.ps i).frozen = (s'.ps i).frozen
  persSym : ∀ c n, s.pers c (.sym n) = s'.pers c (.sym n)
  tags : ∀ i n, ((s.ps i).frozen = true ∨ s.pers (s.ps i).colour (.sym n) = true) →
    (s.ps i).tag (.sym n) = (s'.ps i).tag (.sym n)

theorem Stat.refl (s : State) : Stat s s := ⟨rfl, fun _ => ⟨rfl, rfl, rfl⟩, fun _ _ => rfl, fun _ _ _ => rfl⟩

theorem Stat.symm {s s' : State} (h : Stat s s') : Stat s' s :=
  ⟨h.n.symm, fun i => ⟨(h.ident i).1.symm, (h.ident i).2.1.symm, (h.ident i).2.2.symm⟩,
   fun c n => (h.persSym c n).symm,
   fun i n hc => (h.tags i n (by rw [(h.ident i).2.2, (h.ident i).1, h.persSym]; exact hc)).symm⟩

theorem Stat.trans {s1 s2 s3 : State} (h1 : Stat s1 s2) (h2 : Stat s2 s3) : Stat s1 s3 :=
  ⟨h1.n.trans h2.n,
   fun i => ⟨(h1.ident i).1.trans (h2.ident i).1, (h1.ident i).2.1.trans (h2.ident i).2.1,
     (h1.ident i).2.2.trans (h2.ident i).2.2⟩,
   fun c n => (h1.persSym c n).trans (h2.persSym c n),
   fun i n hc => (h1.tags i n hc).trans
     (h2.tags i n (by rw [← (h1.ident i).2.2, ← (h1.ident i).1, ← h1.persSym]; exact hc))⟩

/-- `clearParticleData` maps states with the same static data and positions to symbol-equal states -/
theorem clear_eqS {Y X : State} (h : Stat Y X) (hr : ∀ i, (Y.ps i).r = (X.ps i).r) :
    EqS (clearParticleData Y) (clearParticleData X) := by
  refine ⟨h.n, fun i => ?_⟩
  have hid := h.ident i
  simp only [clearParticleData, mapFree_ps, ← hid.2.2]
  cases hfz : (Y.ps i).frozen
  · simp only [Bool.false_eq_true, if_false]
    refine ⟨hid.1, hid.2.1, ?_, hr i, fun n => ?_⟩
    · rfl
    · show (if (Key.sym n).inTag && !Y.pers (Y.ps i).colour (.sym n) then 0 else (Y.ps i).tag (.sym n))
        = (if (Key.sym n).inTag && !X.pers (X.ps i).colour (.sym n) then 0 else (X.ps i).tag (.sym n))
      rw [← hid.1, ← h.persSym]
      cases hp : Y.pers (Y.ps i).colour (.sym n)
      · simp [Key.inTag]
      · simp only [Key.inTag, Bool.not_true, Bool.and_false, Bool.false_eq_true, if_false]
        exact h.tags i n (Or.inr hp)
  · simp only [if_true]
    exact ⟨hid.1, hid.2.1, hid.2.2, hr i, fun n => h.tags i n (Or.inl hfz)⟩

/-- the symbol pipeline of a step: `clearParticleData`, then `runSymbols` -/
theorem symPipe_eqS (cfg : Config) (hwf : cfg.wf = true) (hnv : NoVel cfg) {Y X : State}
    (h : Stat Y X) (hr : ∀ i, (Y.ps i).r = (X.ps i).r) :
    EqS (runSymbols cfg (clearParticleData Y)) (runSymbols cfg (clearParticleData X)) :=
  runSymbols_eqS cfg hwf hnv (clear_eqS h hr)

theorem preInput_stat (cfg : Config) (k : Bool) (A : State) :
    Stat (cfg.integrators.foldl (unprotect k) (clearForce k A)) A ∧
    ∀ i, ((cfg.integrators.foldl (unprotect k) (clearForce k A)).ps i).r = (A.ps i).r := by
  have hps := unprotect_fold_ps k cfg.integrators (clearForce k A)
  have hcf := clearForce_agree k A
  refine ⟨⟨hps.2.1.trans hcf.n, fun i => ?_, fun c n => ?_, fun i n _ => ?_⟩, fun i => ?_⟩
  · rw [hps.1]; exact ⟨(hcf.body i).1, (hcf.body i).2.1, (hcf.body i).2.2.1⟩
  · rw [unprotect_fold_pers_sym]; rfl
  · rw [hps.1]; exact hcf.tag i _ (fun h => by obtain ⟨d, hd⟩ := h; cases hd)
  · rw [hps.1]; exact (hcf.body i).2.2.2.1

/-- the states on which two force evaluations happen are symbol-equal as soon as the states entering
`preForce` have the same static data and the same positions — whatever their velocities, force
buffers and force indices -/
theorem preForce_eqS (cfg : Config) (hwf : cfg.wf = true) (hnv : NoVel cfg) (k k' : Bool) {A B : State}
    (h : Stat A B) (hr : ∀ i, (A.ps i).r = (B.ps i).r) : EqS (preForce cfg k A) (preForce cfg k' B) := by
  unfold preForce
  have hA := preInput_stat cfg k A
  have hB := preInput_stat cfg k' B
  exact symPipe_eqS cfg hwf hnv ((hA.1.trans h).trans hB.1.symm)
    (fun i => by rw [hA.2 i, hB.2 i, hr i])

theorem aboutToStart_fold_r (igs : List Integrator) (s : State) (i : Nat) :
    ((igs.foldl aboutToStart s).ps i).r = (s.ps i).r := by
  induction igs generalizing s with
  | nil => rfl
  | cons ig igs ih =>
    simp only [List.foldl_cons]; rw [ih]
    cases ig with
    | vv c l m =>
      simp only [aboutToStart, mapFree_ps]; split
      · rfl
      · unfold onColour; split <;> rfl
    | euler c name =>
      simp only [aboutToStart, mapFree_ps]; split
      · rfl
      · unfold onColour; split <;> rfl

theorem initInput_stat (cfg : Config) (A : State) :
    Stat (cfg.integrators.foldl aboutToStart (clearForce true (clearForce false A))) A ∧
    ∀ i, ((cfg.integrators.foldl aboutToStart (clearForce true (clearForce false A))).ps i).r = (A.ps i).r := by
  have hp : Pres (clearForce true (clearForce false A))
      (cfg.integrators.foldl aboutToStart (clearForce true (clearForce false A))) :=
    Pres.foldl _ _ (fun s a _ => aboutToStart_pres s a) _
  have h1 := clearForce_agree true (clearForce false A)
  have h0 := clearForce_agree false A
  refine ⟨⟨hp.n.trans (h1.n.trans h0.n), fun i => ?_, fun c n => ?_, fun i n _ => ?_⟩, fun i => ?_⟩
  · exact ⟨(hp.ident i).1.trans ((h1.body i).1.trans (h0.body i).1),
      (hp.ident i).2.1.trans ((h1.body i).2.1.trans (h0.body i).2.1),
      (hp.ident i).2.2.trans ((h1.body i).2.2.1.trans (h0.body i).2.2.1)⟩
  · rw [(aboutToStart_fold_other _ _).2.2]; rfl
  · rw [aboutToStart_fold_sym, h1.tag i _ (fun h => by obtain ⟨d, hd⟩ := h; cases hd),
      h0.tag i _ (fun h => by obtain ⟨d, hd⟩ := h; cases hd)]
  · rw [aboutToStart_fold_r, (h1.body i).2.2.2.1, (h0.body i).2.2.2.1]

theorem initState_eqS (cfg : Config) (hwf : cfg.wf = true) (hnv : NoVel cfg) (k : Bool) {A B : State}
    (h : Stat A B) (hr : ∀ i, (A.ps i).r = (B.ps i).r) : EqS (initState cfg A) (preForce cfg k B) := by
  unfold initState preForce
  have hA := initInput_stat cfg A
  have hB := preInput_stat cfg k B
  exact symPipe_eqS cfg hwf hnv ((hA.1.trans h).trans hB.1.symm)
    (fun i => by rw [hA.2 i, hB.2 i, hr i])



/-- only velocity-Verlet integrators (explicit Euler for user quantities is not reversible) -/
def AllVV (cfg : Config) : Prop := ∀ ig ∈ cfg.integrators, ∃ c l m, ig = Integrator.vv c l m

/-- computed symbols are registered non-persistent, for every colour -/
def NPT (cfg : Config) (st : State) : Prop :=
  (∀ m ∈ cfg.caches, ∀ c, st.pers c (m.target.key false) = false) ∧
  (∀ m ∈ cfg.sums, ∀ c, st.pers c (m.target.key false) = false)

/-- no periodic direction: `wrap` and the minimum image are the identity (free space) -/
def NoWrap (cfg : Config) : Prop := cfg.box.perX = false ∧ cfg.box.perY = false ∧ cfg.box.perZ = false

/-- indices beyond `n` hold inert (frozen) dummies -/
def Junk (st : State) : Prop := ∀ i, st.n ≤ i → (st.ps i).frozen = true

theorem wrap_id (cfg : Config) (h : NoWrap cfg) (r : Vec3) : wrap cfg.box r = r := by
  simp [wrap, wrap1, h.1, h.2.1, h.2.2]

theorem integ1P_tag_vv (cfg : Config) (idx : Bool) (c : Nat) (l m : Rat) (p : Particle) :
    (integ1P cfg idx (.vv c l m) p).tag = p.tag := by
  simp only [integ1P, onColour]; split <;> rfl

theorem integ1P_fold_tag (cfg : Config) (idx : Bool) (igs : List Integrator)
    (h : ∀ ig ∈ igs, ∃ c l m, ig = Integrator.vv c l m) (p : Particle) :
    (igs.foldl (fun p ig => integ1P cfg idx ig p) p).tag = p.tag := by
  induction igs generalizing p with
  | nil => rfl
  | cons ig igs ih =>
    simp only [List.foldl_cons]
    obtain ⟨c, l, m, rfl⟩ := h ig (by simp)
    rw [ih (fun ig' h' => h ig' (by simp [h'])), integ1P_tag_vv]

theorem stat_integ1 (cfg : Config) (hvv : AllVV cfg) (st : State) :
    Stat st (cfg.integrators.foldl (integ1 cfg) st) := by
  have hp : Pres st (cfg.integrators.foldl (integ1 cfg) st) := Pres.foldl _ _ (fun s a _ => integ1_pres cfg s a) st
  refine ⟨hp.n.symm, fun i => ⟨(hp.ident i).1.symm, (hp.ident i).2.1.symm, (hp.ident i).2.2.symm⟩,
    fun c n => by rw [integ1_fold_pers], fun i n _ => ?_⟩
  cases hfz : (st.ps i).frozen
  · rw [(integ1_fold_ps cfg _ st i hfz).1, integ1P_fold_tag cfg _ _ hvv]
  · rw [hp.frozen i hfz]

theorem step_r (cfg : Config) (hwf : cfg.wf = true) (st : State) (i : Nat) :
    ((step cfg st).ps i).r = ((cfg.integrators.foldl (integ1 cfg) st).ps i).r := by
  have e : (step cfg st).ps i = (cfg.integrators.foldl (integ2 cfg)
      { forces cfg (!st.forceIdx) (preState cfg st) with forceIdx := !st.forceIdx }).ps i := rfl
  rw [e, (integ2_fold_tag cfg _ _ i).2.1]
  show ((forces cfg (!st.forceIdx) (preState cfg st)).ps i).r = _
  rw [((forces_agree cfg hwf _ _).body i).2.2.2.1]
  exact (preForce_body cfg hwf _ _ i).2.2.2.1

theorem notComputed_of_pers (cfg : Config) (st : State) (hnpt : NPT cfg st)
    (c : Nat) (n : String) (hp : st.pers c (.sym n) = true) : NotComputed cfg n := by
  constructor
  · intro m hm ht
    have := hnpt.1 m hm c
    rw [ht] at this
    simp [Target.key, hp] at this
  · intro m hm ht
    have := hnpt.2 m hm c
    rw [ht] at this
    simp [Target.key, hp] at this

theorem count_euler_zero (cfg : Config) (hvv : AllVV cfg) (c : Nat) (name : String) :
    cfg.integrators.count (.euler c name) = 0 := by
  apply List.count_eq_zero.mpr
  intro hmem
  obtain ⟨c', l, m, h⟩ := hvv _ hmem
  cases h

theorem stat_step (cfg : Config) (hwf : cfg.wf = true) (hvv : AllVV cfg) (st : State) (hnpt : NPT cfg st) :
    Stat st (step cfg st) := by
  have hp := step_pres cfg st
  refine ⟨hp.n.symm, fun i => ⟨(hp.ident i).1.symm, (hp.ident i).2.1.symm, (hp.ident i).2.2.symm⟩,
    fun c n => (step_pers_sym cfg hwf st c n).symm, fun i n hc => ?_⟩
  cases hfz : (st.ps i).frozen
  · rcases hc with hc | hc
    · rw [hfz] at hc; cases hc
    · rw [step_euler cfg hwf st i hfz n (notComputed_of_pers cfg st hnpt _ n hc) hc, count_euler_zero cfg hvv]
      apply Vec3.ext' <;> simp <;> grind
  · rw [hp.frozen i hfz]

theorem NPT.of_stat {cfg : Config} (hwf : cfg.wf = true) {s s' : State} (h : NPT cfg s) (hs : Stat s s') : NPT cfg s' := by
  constructor
  · intro m hm c
    obtain ⟨⟨n, hn⟩, _⟩ := wf_caches hwf hm false
    rw [hn, ← hs.persSym, ← hn]; exact h.1 m hm c
  · intro m hm c
    obtain ⟨n, hn⟩ := wf_sums hwf hm false
    rw [hn, ← hs.persSym, ← hn]; exact h.2 m hm c

/-- the current force buffer is the force field of the current positions -/
def Cons (cfg : Config) (b : State) : Prop :=
  ∀ i, (b.ps i).frozen = false → ∀ (k : Bool) (A : State), Stat A b → (∀ j, (A.ps j).r = (b.ps j).r) →
    (b.ps i).tag (.force .vel b.forceIdx) = totalForce cfg (preForce cfg k A) i .vel

theorem Junk.of_pres {s s' : State} (h : Junk s) (hp : Pres s s') : Junk s' :=
  fun i hi => by rw [(hp.ident i).2.2]; exact h i (by rw [← hp.n]; exact hi)

theorem Junk.lt {s : State} (h : Junk s) (i : Nat) (hf : (s.ps i).frozen = false) : i < s.n := by
  apply Nat.lt_of_not_le
  intro hle
  rw [h i hle] at hf; cases hf

theorem cons_step (cfg : Config) (hwf : cfg.wf = true) (hnv : NoVel cfg) (hvv : AllVV cfg)
    (b : State) (hnpt : NPT cfg b) (hj : Junk b) : Cons cfg (step cfg b) := by
  intro i hf k A hst hr
  have hp := step_pres cfg b
  have hfb : (b.ps i).frozen = false := by rw [← (hp.ident i).2.2]; exact hf
  rw [step_force cfg hwf b i (hj.lt i hfb) hfb .vel (Or.inl rfl)]
  unfold preState
  apply totalForce_eqS cfg hnv
  apply preForce_eqS cfg hwf hnv
  · exact ((stat_integ1 cfg hvv b).symm.trans (stat_step cfg hwf hvv b hnpt)).trans hst.symm
  · intro j; rw [hr j, step_r cfg hwf]

theorem cons_init (cfg : Config) (hwf : cfg.wf = true) (hnv : NoVel cfg) (st0 : State) (hj : Junk st0)
    (hstat : Stat st0 (init cfg st0)) : Cons cfg (init cfg st0) := by
  intro i hf k A hst hr
  have hp := init_pres cfg st0
  have hf0 : (st0.ps i).frozen = false := by rw [← (hp.ident i).2.2]; exact hf
  rw [init_forceIdx cfg hwf, init_force cfg hwf st0 i (hj.lt i hf0) hf0 .vel (Or.inl rfl)]
  apply totalForce_eqS cfg hnv
  apply initState_eqS cfg hwf hnv
  · exact hstat.trans hst.symm
  · intro j; rw [hr j, (init_body cfg hwf st0 j).2.2.2.1]

theorem stat_init (cfg : Config) (hwf : cfg.wf = true) (st : State) (hnpt : NPT cfg st) :
    Stat st (init cfg st) := by
  have hp := init_pres cfg st
  refine ⟨hp.n.symm, fun i => ⟨(hp.ident i).1.symm, (hp.ident i).2.1.symm, (hp.ident i).2.2.symm⟩,
    fun c n => by rw [init_pers cfg hwf], fun i n hc => ?_⟩
  cases hfz : (st.ps i).frozen
  · rcases hc with hc | hc
    · rw [hfz] at hc; cases hc
    · rw [init_keeps_sym cfg hwf st i n (notComputed_of_pers cfg st hnpt _ n hc) hc]
  · rw [hp.frozen i hfz]



/-- reverse all velocities -/
def flip (st : State) : State := { st with ps := fun i => { st.ps i with v := -(st.ps i).v } }

/-- `a` is the time-reverse of `b`: same static data and positions, opposite velocities, same current forces -/
structure Rev (a b : State) : Prop where
  stat : Stat a b
  r : ∀ i, (a.ps i).r = (b.ps i).r
  v : ∀ i, (a.ps i).v = -(b.ps i).v
  f : ∀ i, (b.ps i).frozen = false → (a.ps i).tag (.force .vel a.forceIdx) = (b.ps i).tag (.force .vel b.forceIdx)

/-- hypotheses of the reversibility theorem that concern the configuration -/
structure RevCfg (cfg : Config) : Prop where
  wf : cfg.wf = true
  noVel : NoVel cfg
  allVV : AllVV cfg
  oneVV : ∀ c, (vvOf cfg c).length ≤ 1
  noWrap : NoWrap cfg

theorem rev_flip (st : State) : Rev (flip st) st :=
  ⟨⟨rfl, fun _ => ⟨rfl, rfl, rfl⟩, fun _ _ => rfl, fun _ _ _ => rfl⟩, fun _ => rfl, fun _ => rfl, fun _ _ => rfl⟩

/-- ONE STEP BACK: if `a` is the time-reverse of `step b` and the forces stored in `b` are the force
field of `b`'s positions, then `step a` is the time-reverse of `b`. -/
theorem rev_step (cfg : Config) (hc : RevCfg cfg) (a b : State) (hnpt : NPT cfg b) (hjb : Junk b)
    (hcons : Cons cfg b) (h : Rev a (step cfg b)) : Rev (step cfg a) b := by
  have hwf := hc.wf
  have hpb := step_pres cfg b
  have hpa := step_pres cfg a
  have hsb : Stat b (step cfg b) := stat_step cfg hwf hc.allVV b hnpt
  have hnpta : NPT cfg a := (hnpt.of_stat hwf hsb).of_stat hwf h.stat.symm
  have hsa : Stat a (step cfg a) := stat_step cfg hwf hc.allVV a hnpta
  have hja : Junk a := fun i hi => by
    rw [(h.stat.ident i).2.2, (hpb.ident i).2.2]; exact hjb i (by rw [← hpb.n, ← h.stat.n]; exact hi)
  -- identities
  have hfz : ∀ i, (a.ps i).frozen = (b.ps i).frozen := fun i => (h.stat.ident i).2.2.trans (hpb.ident i).2.2
  have hcol : ∀ i, (a.ps i).colour = (b.ps i).colour := fun i => (h.stat.ident i).1.trans (hpb.ident i).1
  -- (1) positions after the backward step
  have hr : ∀ i, ((step cfg a).ps i).r = (b.ps i).r := by
    intro i
    cases hfi : (b.ps i).frozen
    · have hfa : (a.ps i).frozen = false := by rw [hfz]; exact hfi
      have hia : i < a.n := hja.lt i hfa
      have hib : i < b.n := hjb.lt i hfi
      match hv : vvOf cfg (b.ps i).colour with
      | [] =>
        rw [(step_noVV cfg hwf a i hfa (by rw [hcol]; exact hv)).1, h.r i, (step_noVV cfg hwf b i hfi hv).1]
      | [(l, m)] =>
        have ha := step_vv cfg hwf a i hia hfa l m (by rw [hcol]; exact hv)
        have hb := step_vv cfg hwf b i hib hfi l m hv
        rw [ha.1, wrap_id cfg hc.noWrap, h.r i, h.v i, h.f i (by rw [(hpb.ident i).2.2]; exact hfi),
          step_forceIdx, hb.1, wrap_id cfg hc.noWrap, hb.2]
        apply Vec3.ext' <;> simp <;> grind
      | _ :: _ :: _ =>
        have := hc.oneVV (b.ps i).colour
        rw [hv] at this; simp at this
    · have hfa : (a.ps i).frozen = true := by rw [hfz]; exact hfi
      rw [hpa.frozen i hfa, h.r i, hpb.frozen i hfi]
  -- (2),(3) the state on which the backward step evaluates its forces
  have hstatA1 : Stat (cfg.integrators.foldl (integ1 cfg) a) b :=
    ((stat_integ1 cfg hc.allVV a).symm.trans h.stat).trans hsb.symm
  have hrA1 : ∀ j, ((cfg.integrators.foldl (integ1 cfg) a).ps j).r = (b.ps j).r :=
    fun j => by rw [← step_r cfg hwf a j]; exact hr j
  -- (4) new force of the backward step = stored force of b
  have hF : ∀ i, (b.ps i).frozen = false →
      ((step cfg a).ps i).tag (.force .vel (step cfg a).forceIdx) = (b.ps i).tag (.force .vel b.forceIdx) := by
    intro i hfi
    have hfa : (a.ps i).frozen = false := by rw [hfz]; exact hfi
    rw [step_force cfg hwf a i (hja.lt i hfa) hfa .vel (Or.inl rfl)]
    exact (hcons i hfi (!a.forceIdx) _ hstatA1 hrA1).symm
  refine ⟨(hsa.symm.trans h.stat).trans hsb.symm, hr, fun i => ?_, hF⟩
  -- (5) velocities
  cases hfi : (b.ps i).frozen
  · have hfa : (a.ps i).frozen = false := by rw [hfz]; exact hfi
    have hia : i < a.n := hja.lt i hfa
    have hib : i < b.n := hjb.lt i hfi
    match hv : vvOf cfg (b.ps i).colour with
    | [] =>
      rw [(step_noVV cfg hwf a i hfa (by rw [hcol]; exact hv)).2, h.v i, (step_noVV cfg hwf b i hfi hv).2]
    | [(l, m)] =>
      have ha := step_vv cfg hwf a i hia hfa l m (by rw [hcol]; exact hv)
      have hb := step_vv cfg hwf b i hib hfi l m hv
      have hnew := hF i hfi
      rw [step_forceIdx] at hnew
      rw [ha.2, hnew, h.v i, h.f i (by rw [(hpb.ident i).2.2]; exact hfi), step_forceIdx, hb.2]
      apply Vec3.ext' <;> simp <;> grind
    | _ :: _ :: _ =>
      have := hc.oneVV (b.ps i).colour
      rw [hv] at this; simp at this
  · have hfa : (a.ps i).frozen = true := by rw [hfz]; exact hfi
    rw [hpa.frozen i hfa, h.v i, hpb.frozen i hfi]

/-- all states of a run are consistent and keep the bookkeeping hypotheses -/
theorem run_cons (cfg : Config) (hc : RevCfg cfg) (st0 : State) (hnpt : NPT cfg st0) (hj : Junk st0) (k : Nat) :
    Cons cfg (run cfg k (init cfg st0)) ∧ NPT cfg (run cfg k (init cfg st0)) ∧ Junk (run cfg k (init cfg st0)) := by
  induction k with
  | zero =>
    have hs := stat_init cfg hc.wf st0 hnpt
    exact ⟨cons_init cfg hc.wf hc.noVel st0 hj hs, hnpt.of_stat hc.wf hs, hj.of_pres (init_pres cfg st0)⟩
  | succ k ih =>
    obtain ⟨_, h2, h3⟩ := ih
    exact ⟨cons_step cfg hc.wf hc.noVel hc.allVV _ h2 h3,
      h2.of_stat hc.wf (stat_step cfg hc.wf hc.allVV _ h2), h3.of_pres (step_pres cfg _)⟩

/-- run `N` steps, reverse the velocities, run `j ≤ N` steps: the time-reverse of the state after `N - j` steps -/
theorem rev_run (cfg : Config) (hc : RevCfg cfg) (st0 : State) (hnpt : NPT cfg st0) (hj : Junk st0) (N : Nat) :
    ∀ j, j ≤ N → Rev (run cfg j (flip (run cfg N (init cfg st0)))) (run cfg (N - j) (init cfg st0)) := by
  intro j
  induction j with
  | zero => intro _; exact rev_flip _
  | succ j ih =>
    intro hj1
    have ih' := ih (by omega)
    obtain ⟨hcons, hnpt', hjunk⟩ := run_cons cfg hc st0 hnpt hj (N - (j + 1))
    have e : N - j = (N - (j + 1)) + 1 := by omega
    rw [e] at ih'
    exact rev_step cfg hc _ _ hnpt' hjunk hcons ih'


/-! ### a small concrete scenario for the non-vacuity examples of `Props/C04 C05 C07 C10` -/
namespace Ex

def box : Box := ⟨⟨4, 4, 4⟩, true, true, true⟩

/-- one species: velocity Verlet (lambda 1/4, mass 2), an integrated scalar `s`; a pair sum `n`
(number of neighbours within 3/2), a reciprocal pair force `[rij]` with cutoff 1, a constant
one-particle force, a constant rate 3 for `s` -/
def cfg : Config :=
  { box := box, dt := 1/4,
    integrators := [.vv 0 (1/4) 2, .euler 0 "s"],
    caches := [],
    sums := [⟨0, 0, 0, .sym "n", 3/2, 1, .num 1, .num 1, .num 1⟩],
    pairForces := [⟨0, 0, 0, .force .vel, 1, -1, .rij, .vec ⟨1, 1, 1⟩, .vec ⟨1, 1, 1⟩⟩],
    partForces := [⟨0, 0, .force .vel, false, .vec ⟨0, 1, 0⟩⟩, ⟨0, 0, .force (.user "s"), false, .num 3⟩] }

/-- the same without the one-particle force on the velocity (closed system) -/
def cfgClosed : Config := { cfg with partForces := [⟨0, 0, .force (.user "s"), false, .num 3⟩] }

def pers0 : Nat → Key → Bool := fun _ k =>
  match k with
  | .sym "s" => true
  | .force (.user "s") _ => true
  | _ => false

/-- two free particles at distance 1/2, a third one at distance 5/4 from the first (inside the list
cutoff 3/2 of the colour pair, outside the force cutoff 1) -/
def st : State :=
  { n := 3,
    ps := fun i =>
      if i = 0 then ⟨0, 0, false, ⟨1, 1, 1⟩, ⟨1/2, 0, 0⟩, fun _ => 0⟩
      else if i = 1 then ⟨0, 1, false, ⟨3/2, 1, 1⟩, 0, fun _ => 0⟩
      else if i = 2 then ⟨0, 2, false, ⟨1, 9/4, 1⟩, 0, fun _ => 0⟩
      else default,
    forceIdx := false, pers := pers0 }

/-- free space (no periodic direction), velocity Verlet only, the reciprocal pair force only -/
def cfgRev : Config :=
  { cfg with box := ⟨⟨4, 4, 4⟩, false, false, false⟩, integrators := [.vv 0 (1/4) 2], partForces := [] }

/-- the same with the second particle frozen and carrying stale data -/
def stFrozen : State :=
  { st with ps := fun i =>
      if i = 1 then ⟨0, 0, true, ⟨3/2, 1, 1⟩, ⟨7, 7, 7⟩, fun _ => ⟨5, 5, 5⟩⟩ else st.ps i }

end Ex

end Sympler.Dyn
