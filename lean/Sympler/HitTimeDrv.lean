import Sympler.Basic
import Sympler.Gen.HitTimeFloat
/-!
Driver for the sampled validation of the hit-time translator (C08, accelerated flight): evaluates the generated Float
definition of `IntegratorVelocityVerlet::solveHitTimeEquation` with a Float transcription of GSL's
`gsl_poly_solve_quadratic` (poly/solve_quadratic.c of GSL 2.x) and an insertion sort for `std::sort`.
Protocol: `solve <eps> <mass> <nF> <nV> <nR> <nDotR>` (IEEE-754 bit patterns as decimal integers) -> `times <k> <bits>...`.
-/
namespace Sympler.HitTimeDrv

/-- `gsl_poly_solve_quadratic (a, b, c, &x0, &x1)` for `a != 0` (the only way the caller uses it) -/
def gslFloat (a b c : Float) : Nat × Float × Float :=
  let disc := b * b - 4.0 * a * c
  if disc > 0.0 then
    if b == 0.0 then
      let r := Float.sqrt (-c / a)
      (2, -r, r)
    else
      let sgnb : Float := if b > 0.0 then 1.0 else -1.0
      let temp := -0.5 * (b + sgnb * Float.sqrt disc)
      let r1 := temp / a
      let r2 := c / temp
      if r1 < r2 then (2, r1, r2) else (2, r2, r1)
  else if disc == 0.0 then
    (2, -0.5 * b / a, -0.5 * b / a)
  else
    (0, 0.0, 0.0)

def insertF (x : Float) : List Float → List Float
  | [] => [x]
  | y :: ys => if x < y then x :: y :: ys else y :: insertF x ys

def sortF (l : List Float) : List Float := l.foldr insertF []

def driver (lines : List String) : List String :=
  lines.filterMap fun l =>
    match Sympler.words l with
    | ["solve", e, m, f, v, r, d] =>
      match e.toNat?, m.toNat?, f.toNat?, v.toNat?, r.toNat?, d.toNat? with
      | some e, some m, some f, some v, some r, some d =>
        let fb := fun (n : Nat) => Float.ofBits (UInt64.ofNat n)
        let res := Sympler.Gen.HitTimeFloat.solveHitTimeEquation gslFloat sortF (fb e) (fb m) (fb f) (fb v) (fb r) (fb d)
        some (String.intercalate " " (["times", toString res.length] ++ res.map (fun x => toString x.toBits)))
      | _, _, _, _, _, _ => some "err:parse"
    | [] => none
    | _ => some "err:parse"

end Sympler.HitTimeDrv
