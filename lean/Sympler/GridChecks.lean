import Sympler.Cells

/-!
Executable checks and the propositions they decide (definitions only, no proofs): `GridOK`, `OutSingle`, `gridOKb`, `GeomOK`,
`linksOKb`, `staticChecks`.  Split from `Sympler/GridLemmas.lean` so that the model driver (`symdrv`) does not depend on any
proof about the generated tables.  Core Lean only.
-/
namespace Sympler.Grid
open Sympler Sympler.Cells Sympler.Gen.CellTables

/-- number of ends (0, 1 or 2) of link `l` that are the cell `c` -/
def ends (G : Grid) (l c : Nat) : Nat :=
  (if (G.links.getD l default).first = c then 1 else 0) + (if (G.links.getD l default).second = c then 1 else 0)

/-- number of ends of link `l` that lie in the set of cells `L` -/
def activeEnds (G : Grid) (L : List Nat) (l : Nat) : Nat :=
  (if (G.links.getD l default).first ∈ L then 1 else 0) + (if (G.links.getD l default).second ∈ L then 1 else 0)

/-- What `Cell::activate/deactivate` and `Cell::checkNewPosition` need from the static structure:
* a cell notifies each existing link exactly as many times as it is an end of it (local link: twice),
  and nothing else;
* outlets are existing cells. -/
structure GridOK (G : Grid) : Prop where
  notify : ∀ c, c < G.cells.size → ∀ l,
    (notifyList G c).count l = if l < G.links.size then ends G l c else 0
  out_lt : ∀ c, c < G.cells.size → ∀ n, n < numNeighbors → ∀ t, t ∈ G.outAt c n → t < G.cells.size

/-- at most one outlet per direction (several only with inlet/outlet regions, which the model refuses
with `Err.multiOutlet`) -/
def OutSingle (G : Grid) : Prop :=
  ∀ c, c < G.cells.size → ∀ n, n < numNeighbors → (G.outAt c n).length ≤ 1

/-- executable check of `GridOK` and `OutSingle` -/
def gridOKb (G : Grid) : Bool :=
  (List.range G.cells.size).all fun c =>
    (notifyList G c).all (fun l => decide (l < G.links.size)) &&
    (List.range G.links.size).all (fun l => (notifyList G c).count l == ends G l c) &&
    (List.range numNeighbors).all (fun n =>
      (G.outAt c n).all (fun t => decide (t < G.cells.size)) && decide ((G.outAt c n).length ≤ 1))

/-- One direction of the relation between a cell `[cc1, cc2)`, its outlet `[tc1, tc2)` in a direction with
offset component `o`, the `cellDist` component `dist`, and the box `[lo, hi)`: both cells lie in the box;
the shift `tc1 − cc1 − dist` that `checkNewPosition` adds to the coordinate is `0` unless the direction
leaves the box through a face, which requires periodicity, and then it is `∓(hi − lo)`. -/
def DimOK (per : Bool) (lo hi : Rat) (o : Int) (cc1 cc2 tc1 tc2 dist : Rat) : Prop :=
  lo ≤ cc1 ∧ cc2 ≤ hi ∧ lo ≤ tc1 ∧ tc2 ≤ hi ∧
  (o = 0 → tc1 - cc1 - dist = 0) ∧
  (o = 1 → (cc2 < hi ∧ tc1 - cc1 - dist = 0) ∨ (cc2 = hi ∧ per = true ∧ tc1 - cc1 - dist = -(hi - lo))) ∧
  (o = -1 → (lo < cc1 ∧ tc1 - cc1 - dist = 0) ∨ (cc1 = lo ∧ per = true ∧ tc1 - cc1 - dist = hi - lo))

instance (per : Bool) (lo hi : Rat) (o : Int) (cc1 cc2 tc1 tc2 dist : Rat) :
    Decidable (DimOK per lo hi o cc1 cc2 tc1 tc2 dist) := by unfold DimOK; infer_instance

/-- a direction with offset component `o` leaves the box through a NON-periodic face of the cell -/
def WallDim (per : Bool) (lo hi : Rat) (o : Int) (cc1 cc2 : Rat) : Prop :=
  per = false ∧ ((o = 1 ∧ cc2 = hi) ∨ (o = -1 ∧ cc1 = lo))

instance (per : Bool) (lo hi : Rat) (o : Int) (cc1 cc2 : Rat) : Decidable (WallDim per lo hi o cc1 cc2) := by
  unfold WallDim; infer_instance

/-- geometry of the outlets of a grid with periodicity `per`: every outlet satisfies `DimOK` in the three
directions, and a direction without outlet leaves the box through a wall -/
def GeomOK (G : Grid) (per : V3 Bool) : Prop :=
  ∀ c, c < G.cells.size → ∀ n, n < numNeighbors →
    (∀ t ∈ G.outAt c n,
      DimOK per.1 G.c1.1 G.c2.1 (offsets.getD n (0, 0, 0)).1 (G.cells.getD c default).c1.1
        (G.cells.getD c default).c2.1 (G.cells.getD t default).c1.1 (G.cells.getD t default).c2.1
        (cellDist (G.cells.getD c default) (G.cells.getD t default) n).1 ∧
      DimOK per.2.1 G.c1.2.1 G.c2.2.1 (offsets.getD n (0, 0, 0)).2.1 (G.cells.getD c default).c1.2.1
        (G.cells.getD c default).c2.2.1 (G.cells.getD t default).c1.2.1 (G.cells.getD t default).c2.2.1
        (cellDist (G.cells.getD c default) (G.cells.getD t default) n).2.1 ∧
      DimOK per.2.2 G.c1.2.2 G.c2.2.2 (offsets.getD n (0, 0, 0)).2.2 (G.cells.getD c default).c1.2.2
        (G.cells.getD c default).c2.2.2 (G.cells.getD t default).c1.2.2 (G.cells.getD t default).c2.2.2
        (cellDist (G.cells.getD c default) (G.cells.getD t default) n).2.2) ∧
    (G.outAt c n = [] →
      WallDim per.1 G.c1.1 G.c2.1 (offsets.getD n (0, 0, 0)).1 (G.cells.getD c default).c1.1
        (G.cells.getD c default).c2.1 ∨
      WallDim per.2.1 G.c1.2.1 G.c2.2.1 (offsets.getD n (0, 0, 0)).2.1 (G.cells.getD c default).c1.2.1
        (G.cells.getD c default).c2.2.1 ∨
      WallDim per.2.2 G.c1.2.2 G.c2.2.2 (offsets.getD n (0, 0, 0)).2.2 (G.cells.getD c default).c1.2.2
        (G.cells.getD c default).c2.2.2)

instance (G : Grid) (per : V3 Bool) : Decidable (GeomOK G per) := by unfold GeomOK; infer_instance

/-- what one coordinate of a particle handed to an outlet cell looks like, relative to the box `[lo, hi)`:
beyond the upper face → periodic direction and `r' = r − L`; below the lower face → periodic and
`r' = r + L`; inside → unchanged -/
def WrapComp (per : Bool) (lo hi r r' : Rat) : Prop :=
  (hi ≤ r → per = true ∧ r' = r - (hi - lo)) ∧ (r < lo → per = true ∧ r' = r + (hi - lo)) ∧
  (lo ≤ r → r < hi → r' = r)

/-- does link `lk` represent "the neighbour of cell `c` in direction `n` is `t`"
(either as `(c, t, n)` or as `(t, c, INV_NEIGHBOR(n))`)? -/
def represents (lk : LinkGeom) (c n t : Nat) : Bool :=
  (lk.first == c && lk.second == t && lk.align == (n : Int)) ||
  (lk.first == t && lk.second == c && lk.align == invNeighbor n)

/-- link `lk` (not local) occupies the slot "direction `n` of cell `c`" -/
def occupiesSlot (lk : LinkGeom) (c n : Nat) : Bool :=
  lk.align != -1 && ((lk.first == c && lk.align == (n : Int)) || (lk.second == c && lk.align == invNeighbor n))

/-- Executable statement of "the link list is complete and unique" for a grid built with periodicity `per`:
* `m_links[c]` is the local link `(c, c, −1)` of cell `c`, `m_local_link` points to it, and it is the only
  local link of `c`;
* for every cell `c` and direction `n`: if the neighbour position (wrapped in periodic directions) exists,
  with cell index `t`, then exactly one link represents `(c, n, t)`, it is the only link in slot `(c, n)`,
  its `m_cell_dist` is `cellDist`, and the outlet list is `[t]`; otherwise no link is in that slot and there
  is no outlet;
* nothing else: every link is local or has a direction in `0..25`, distinct existing end cells, and acts on
  both. -/
def linksOKb (G : Grid) (per : V3 Bool) : Bool :=
  let nC := G.cells.size
  let links := G.links.toList
  (List.range nC).all (fun c =>
    (links.filter fun lk => lk.align == -1 && (lk.first == c || lk.second == c)).length == 1 &&
    G.loc.get c == c &&
    (match G.links[c]? with
     | some lk => lk.align == -1 && lk.first == c && lk.second == c && lk.dist == (0, 0, 0)
     | none => false)) &&
  (List.range nC).all (fun c =>
    (List.range numNeighbors).all fun n =>
      let off := offsets.getD n (0, 0, 0)
      let p := neighborPos G.nc per (G.cells.getD c default).tag off
      if posInRange G.nc p then
        let t := (toCellIndex p G.nc).toNat
        (links.filter fun lk => represents lk c n t).length == 1 &&
        (links.filter fun lk => occupiesSlot lk c n).length == 1 &&
        (links.filter fun lk => represents lk c n t).all (fun lk =>
          lk.dist == cellDist (G.cells.getD lk.first default) (G.cells.getD lk.second default) lk.align.toNat) &&
        G.outAt c n == [t]
      else
        (links.filter fun lk => occupiesSlot lk c n).length == 0 && G.outAt c n == []) &&
  links.all (fun lk => (lk.align == -1 && lk.first == lk.second) ||
    (decide (0 ≤ lk.align) && decide (lk.align < 26) && decide (lk.first < nC) && decide (lk.second < nC)
      && lk.first != lk.second && lk.aoF && lk.aoS))

/-- all static checks for the grid `cellSubdivide(cutoff, 0, box, per)` builds: it exists, has
`n_x·n_y·n_z` cells with `n_d = ⌊box_d / cutoff⌋`, and passes `gridOKb`, `linksOKb`, `GeomOK` -/
def staticChecks (cutoff : Rat) (box : V3 Rat) (per : V3 Bool) : Bool :=
  match subdivide cutoff (0, 0, 0) box per with
  | some G => gridOKb G && linksOKb G per && decide (GeomOK G per) &&
      G.cells.size == (G.nc.1 * G.nc.2.1 * G.nc.2.2).toNat
  | none => false

end Sympler.Grid
