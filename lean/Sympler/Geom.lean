/-!
# Geometry of the linked-cell neighbour search (mathematical core of C01)

Executable, core-only definitions mirroring

* `ManagerCell::cellSubdivide` (`/repo/source/src/basic/manager_cell.cpp`): per direction the box
  `[0, L)` is cut into `n = trunc (L / rcmax)` cells of width `w = L / n`; neighbour lookup
  `tag + c_offsets[n]`, wrapped `(… + n) % n` in periodic directions, non-existent when out of
  range otherwise;
* `ManagerCell::findCell`: cell index `(int) (inv_width * (pos - corner1))`;
* `cellDist` / `CellLink::set` (`/repo/source/src/basic/cell.cpp`): `m_cell_dist`;
* `addPair` (`/repo/source/include/basic/cell.h`): separation vector and cutoff test;
* `CellLink::createDistances` (`cell.cpp`): the table of `createDistancesForSame` /
  `createDistancesForDifferent` calls per colour pair.

The region corner is put at the origin (`corner1 = 0`); all cells of a direction have the same
width; all cells of the region exist (no `smartCells` holes); `m_acts_on = (true, true)` for every
link (`cellSubdivide` only calls `addNeighbor`); colour pairs are assumed to `needPairs()`.

How to connect an executable grid / cell model (refinement obligations):

* grid: `Grid.OK` (`0 < w_d`, `2 ≤ n_d`) and `CutOK` (`rc(a,b) ≤ w_d`) from
  `n = trunc (L / rcmax) ≥ 2`, `w = L / n`;
* link list: map every `CellLink (first, second, alignment)` to
  `⟨first.tag, second.tag, c_offsets[alignment]⟩` (`⟨c, c, 0⟩` for the local link) and prove
  `LinkSetOK` for the resulting list (`links_complete_unique`); `Grid.allLinks` is a reference
  list that satisfies it (`allLinks_ok`);
* particles: choose `Config.parts` as the concatenation of all per-cell lists
  (`particles(c)`, `frozenParticles(c)` of every cell); then `Config.cellParts` is literally the
  model's list (`cellParts_of_lists`), whatever the order inside the C++ lists, and
  `Registered cfg 0` is C09's invariant (`registered_of_cellOf`);
* active links: C09's invariant "active = both cells non-empty" is `Config.active`.
-/
namespace Sympler.Geom

/-- A triple indexed by the space direction (`point_t`, `int_point_t`, `bool_point_t`). -/
structure V3 (α : Type) where
  x : α
  y : α
  z : α
deriving DecidableEq, Repr

/-! ## One axis -/

/-- Per-direction data of a region: cell width, number of cells, periodicity. -/
structure Axis where
  w : Rat
  n : Nat
  per : Bool
deriving DecidableEq, Repr

/-- Box length `L = n · w`. -/
def Axis.L (a : Axis) : Rat := (a.n : Rat) * a.w

/-- `findCell`: `(int) (inv_width * pos)`; for `pos ≥ 0` truncation is `floor`. -/
def Axis.cellIdx (a : Axis) (x : Rat) : Int := (x / a.w).floor

/-- `corner1` of the cell with index `i`: `i * width`. -/
def Axis.corner (a : Axis) (i : Int) : Rat := (i : Rat) * a.w

/-- Neighbour index along one axis in `cellSubdivide`: `neighbor = tag + offset`,
`(neighbor + n) % n` if periodic, otherwise it must lie in `[0, n)`. -/
def Axis.nb (a : Axis) (i o : Int) : Option Int :=
  if a.per then some ((i + o + (a.n : Int)) % (a.n : Int))
  else if 0 ≤ i + o ∧ i + o < (a.n : Int) then some (i + o) else none

/-- One component of `cellDist`: `width1` if `off = 1`, `-width2` if `off = -1`, else `0`
(all widths of a direction are equal). -/
def cellDist1 (w : Rat) (o : Int) : Rat := if o = 1 then w else if o = -1 then -w else 0

/-- One component of `addPair`:
`-dir*cell_dist + first_p->r - first_c->corner1 - second_p->r + second_c->corner1`. -/
def addPair1 (dir : Int) (cd r1 c1 r2 c2 : Rat) : Rat := -((dir : Rat) * cd) + r1 - c1 - r2 + c2

/-- The component delivered (with `dir = 1`) for a particle at `x` in cell `i` and a particle at
`y` in cell `j` by the link with offset `o` from cell `i` to cell `j`. -/
def Axis.linkDelta (a : Axis) (o i j : Int) (x y : Rat) : Rat :=
  addPair1 1 (cellDist1 a.w o) x (a.corner i) y (a.corner j)

/-- Minimum image of `t` for period `L`: the representative of `t + ℤ·L` in `[-L/2, L/2)`. -/
def mi (L t : Rat) : Rat := t - L * (((t / L + 1 / 2).floor : Int) : Rat)

/-- Component of the reference separation: minimum image in a periodic direction, plain
difference otherwise. -/
def Axis.sep (a : Axis) (x y : Rat) : Rat := if a.per then mi a.L (x - y) else x - y

/-- `o ∈ {-1, 0, 1}` -/
def IsOff1 (o : Int) : Prop := o = -1 ∨ o = 0 ∨ o = 1

instance (o : Int) : Decidable (IsOff1 o) := by unfold IsOff1; infer_instance

/-! ## Three axes -/

abbrev Grid := V3 Axis

def vneg (o : V3 Int) : V3 Int := ⟨-o.x, -o.y, -o.z⟩

def vnegR (d : V3 Rat) : V3 Rat := ⟨-d.x, -d.y, -d.z⟩

/-- `d.abs_square` of `addPair`. -/
def normSq (d : V3 Rat) : Rat := d.x * d.x + d.y * d.y + d.z * d.z

def Grid.corner (g : Grid) (c : V3 Int) : V3 Rat := ⟨g.x.corner c.x, g.y.corner c.y, g.z.corner c.z⟩

/-- Neighbour cell of `c` at offset `o`, `none` if it does not exist. -/
def Grid.nb (g : Grid) (c o : V3 Int) : Option (V3 Int) :=
  match g.x.nb c.x o.x, g.y.nb c.y o.y, g.z.nb c.z o.z with
  | some i, some j, some k => some ⟨i, j, k⟩
  | _, _, _ => none

/-- `cellDist` for offset `o`. -/
def Grid.cellDist (g : Grid) (o : V3 Int) : V3 Rat :=
  ⟨cellDist1 g.x.w o.x, cellDist1 g.y.w o.y, cellDist1 g.z.w o.z⟩

/-- Reference separation vector `r1 - r2` under the minimum-image convention in the periodic
directions. -/
def Grid.sepV (g : Grid) (r1 r2 : V3 Rat) : V3 Rat :=
  ⟨g.x.sep r1.x r2.x, g.y.sep r1.y r2.y, g.z.sep r1.z r2.z⟩

def Grid.cellOf (g : Grid) (r : V3 Rat) : V3 Int :=
  ⟨g.x.cellIdx r.x, g.y.cellIdx r.y, g.z.cellIdx r.z⟩

/-- index in range -/
def Axis.InRange (a : Axis) (i : Int) : Prop := 0 ≤ i ∧ i < (a.n : Int)

instance (a : Axis) (i : Int) : Decidable (a.InRange i) := by unfold Axis.InRange; infer_instance

def Grid.InGrid (g : Grid) (c : V3 Int) : Prop := g.x.InRange c.x ∧ g.y.InRange c.y ∧ g.z.InRange c.z

instance (g : Grid) (c : V3 Int) : Decidable (g.InGrid c) := by unfold Grid.InGrid; infer_instance

def IsOff (o : V3 Int) : Prop := IsOff1 o.x ∧ IsOff1 o.y ∧ IsOff1 o.z

instance (o : V3 Int) : Decidable (IsOff o) := by unfold IsOff; infer_instance

/-- Hypotheses on the grid that `cellSubdivide` guarantees: positive widths, `n ≥ 2`. -/
def Axis.OK (a : Axis) : Prop := 0 < a.w ∧ 2 ≤ a.n

def Grid.OK (g : Grid) : Prop := g.x.OK ∧ g.y.OK ∧ g.z.OK

instance (a : Axis) : Decidable a.OK := by unfold Axis.OK; infer_instance

instance (g : Grid) : Decidable g.OK := by unfold Grid.OK; infer_instance

/-- The cells in creation order (`for z, for y, for x`). -/
def Grid.cells (g : Grid) : List (V3 Int) :=
  (List.range g.z.n).flatMap fun (k : Nat) => (List.range g.y.n).flatMap fun (j : Nat) =>
    (List.range g.x.n).map fun (i : Nat) => ⟨(i : Int), (j : Int), (k : Int)⟩

/-! ## Links -/

/-- A `CellLink`: `m_first`, `m_second` (cell tags) and `c_offsets[m_alignment]`
(`0` for the local link `first = second`, alignment `-1`).  `m_acts_on = (true, true)` always
(`cellSubdivide` only uses `addNeighbor`). -/
structure Link where
  first : V3 Int
  second : V3 Int
  o : V3 Int
deriving DecidableEq, Repr

/-- The same link seen from the other cell: `(B, -o)` for `(A, o)`. -/
def Link.flip (l : Link) : Link := ⟨l.second, l.first, vneg l.o⟩

def Link.Valid (g : Grid) (l : Link) : Prop :=
  g.InGrid l.first ∧ IsOff l.o ∧ g.nb l.first l.o = some l.second

instance (g : Grid) (l : Link) : Decidable (l.Valid g) := by unfold Link.Valid; infer_instance

/-- What `links_complete_unique` of the grid model has to deliver: every listed link is a real
(cell, offset, neighbour) triple; for every cell `c` and offset `o` (including `0`: the local
link) whose neighbour exists the link `(c, o)` or the same link seen from the other side
`(c', -o)` is listed; and no link is listed twice, in either orientation. -/
structure LinkSetOK (g : Grid) (links : List Link) : Prop where
  valid : ∀ l, l ∈ links → l.Valid g
  complete : ∀ c o c', g.InGrid c → IsOff o → g.nb c o = some c' →
    (⟨c, c', o⟩ : Link) ∈ links ∨ (⟨c', c, vneg o⟩ : Link) ∈ links
  nodup : links.Pairwise (fun l1 l2 => l1 ≠ l2 ∧ l1 ≠ l2.flip)

/-- The 14 offsets that are `0` or whose first non-zero component (order z, y, x) is `+1`:
one representative of every `{o, -o}`. -/
def halfOffsets : List (V3 Int) :=
  [⟨0,0,0⟩,
   ⟨1,0,0⟩,
   ⟨-1,1,0⟩, ⟨0,1,0⟩, ⟨1,1,0⟩,
   ⟨-1,-1,1⟩, ⟨0,-1,1⟩, ⟨1,-1,1⟩, ⟨-1,0,1⟩, ⟨0,0,1⟩, ⟨1,0,1⟩, ⟨-1,1,1⟩, ⟨0,1,1⟩, ⟨1,1,1⟩]

/-- A canonical complete link set (every link seen from the side where its offset is in
`halfOffsets`). -/
def Grid.allLinks (g : Grid) : List Link :=
  g.cells.flatMap fun c => halfOffsets.filterMap fun o => (g.nb c o).map fun c' => ⟨c, c', o⟩

/-! ## Particles, configuration -/

/-- A particle: slot id, colour, frozen flag, position, and the tag of the cell in whose list it
is registered. -/
structure Particle where
  id : Nat
  colour : Nat
  frozen : Bool
  r : V3 Rat
  cell : V3 Int
deriving DecidableEq, Repr

structure Config where
  grid : Grid
  parts : List Particle
  /-- `cp(c1,c2)->cutoff()`, symmetric table -/
  cut : Nat → Nat → Rat

/-- C09's invariant with slack `ε` (`isInsideEps`): every particle is registered in an existing
cell and sits at most `ε` outside it. -/
def Axis.Contains (a : Axis) (ε : Rat) (i : Int) (x : Rat) : Prop :=
  a.InRange i ∧ a.corner i - ε ≤ x ∧ x < a.corner (i + 1) + ε

instance (a : Axis) (ε : Rat) (i : Int) (x : Rat) : Decidable (a.Contains ε i x) := by
  unfold Axis.Contains; infer_instance

def Registered (cfg : Config) (ε : Rat) : Prop :=
  ∀ p, p ∈ cfg.parts →
    cfg.grid.x.Contains ε p.cell.x p.r.x ∧ cfg.grid.y.Contains ε p.cell.y p.r.y ∧
    cfg.grid.z.Contains ε p.cell.z p.r.z

/-- `Cell::particles(c)` / `Cell::frozenParticles(c)` of the cell with tag `c`. -/
def Config.cellParts (cfg : Config) (c : V3 Int) (col : Nat) (fr : Bool) : List Particle :=
  cfg.parts.filter fun p => p.cell = c && p.colour = col && p.frozen = fr

/-- A link is *active* iff both cells hold at least one particle. -/
def Config.occupied (cfg : Config) (c : V3 Int) : Bool := cfg.parts.any fun p => p.cell = c

def Config.active (cfg : Config) (l : Link) : Bool := cfg.occupied l.first && cfg.occupied l.second

/-! ## Pair generation -/

/-- An entry of a `PairList`: ids of first and second particle, `cartesian`, acts-on flags. -/
structure Pair where
  i : Nat
  j : Nat
  d : V3 Rat
  ai : Bool
  aj : Bool
deriving DecidableEq, Repr

/-- `addPair`. -/
def addPair (g : Grid) (rc2 : Rat) (dir : Int) (c1 c2 : V3 Int) (cd : V3 Rat)
    (ao1 ao2 : Bool) (p q : Particle) : Option Pair :=
  let k1 := g.corner c1
  let k2 := g.corner c2
  let d : V3 Rat := ⟨addPair1 dir cd.x p.r.x k1.x q.r.x k2.x,
                     addPair1 dir cd.y p.r.y k1.y q.r.y k2.y,
                     addPair1 dir cd.z p.r.z k1.z q.r.z k2.z⟩
  if normSq d < rc2 then some ⟨p.id, q.id, d, ao1, ao2⟩ else none

/-- `createDistancesForSame`: `i < j` loop over one list. -/
def forSame (f : Particle → Particle → Option Pair) : List Particle → List Pair
  | [] => []
  | p :: ps => ps.filterMap (f p) ++ forSame f ps

/-- `createDistancesForDifferent`: double loop over two lists. -/
def forDifferent (f : Particle → Particle → Option Pair) (ps qs : List Particle) : List Pair :=
  ps.flatMap fun p => qs.filterMap (f p)

/-- One `createDistancesFor…` call of `createDistances`: which routine, `dir`, the two cells, the
two particle lists (colour, frozen?) and the acts-on flags passed. -/
structure Slot where
  same : Bool
  dir : Int
  c1 : V3 Int
  c2 : V3 Int
  col1 : Nat
  fr1 : Bool
  col2 : Nat
  fr2 : Bool
  ao1 : Bool
  ao2 : Bool
deriving DecidableEq, Repr

/-- The calls `CellLink::createDistances` makes that append to the lists of the colour pair
`cp(a, b)`, `a ≤ b`, in program order (for `first ≠ second` the loop `c1, c2` reaches `cp(a,b)`
at `(c1,c2) = (a,b)` — branch `c1 < c2`, `dir = 1` — and at `(b,a)` — `else` branch, `dir = -1`,
also taken for `a = b`). -/
def slots (l : Link) (a b : Nat) : List Slot :=
  if l.first = l.second then
    if a = b then
      [⟨true, 0, l.first, l.first, a, false, a, false, true, true⟩,
       ⟨false, 0, l.first, l.first, a, false, a, true, true, false⟩]
    else
      [⟨false, 0, l.first, l.first, a, false, b, false, true, true⟩,
       ⟨false, 0, l.first, l.first, a, false, b, true, true, false⟩,
       ⟨false, 0, l.first, l.first, a, true, b, false, false, true⟩]
  else
    (if a = b then [] else
      [⟨false, 1, l.first, l.second, a, false, b, false, true, true⟩,
       ⟨false, 1, l.first, l.second, a, false, b, true, true, false⟩,
       ⟨false, 1, l.first, l.second, a, true, b, false, false, true⟩]) ++
      [⟨false, -1, l.second, l.first, a, false, b, false, true, true⟩,
       ⟨false, -1, l.second, l.first, a, true, b, false, false, true⟩,
       ⟨false, -1, l.second, l.first, a, false, b, true, true, false⟩]

/-- Run one call. -/
def runSlot (cfg : Config) (rc2 : Rat) (cd : V3 Rat) (s : Slot) : List Pair :=
  let f := addPair cfg.grid rc2 s.dir s.c1 s.c2 cd s.ao1 s.ao2
  if s.same then forSame f (cfg.cellParts s.c1 s.col1 s.fr1)
  else forDifferent f (cfg.cellParts s.c1 s.col1 s.fr1) (cfg.cellParts s.c2 s.col2 s.fr2)

/-- `m_cell_dist` as set by `CellLink::set`. -/
def Link.cellDist (g : Grid) (l : Link) : V3 Rat :=
  if l.first = l.second then ⟨0, 0, 0⟩ else g.cellDist l.o

/-- Everything the link appends to the free and frozen lists of `cp(a,b)` (`a ≤ b`); entries with
flags `(true,true)` are the `freePairs`, the others the `frozenPairs`. -/
def linkPairs (cfg : Config) (l : Link) (a b : Nat) : List Pair :=
  (slots l a b).flatMap (runSlot cfg (cfg.cut a b * cfg.cut a b) (l.cellDist cfg.grid))

/-- The pair list of the colour pair `(a,b)`, `a ≤ b`: all active links, in list order. -/
def cellPairs (cfg : Config) (links : List Link) (a b : Nat) : List Pair :=
  (links.filter cfg.active).flatMap fun l => linkPairs cfg l a b

/-! ## Reference: brute force -/

/-- The reference entry for the ordered pair `(p, q)`. -/
def mkPair (g : Grid) (p q : Particle) : Pair :=
  ⟨p.id, q.id, g.sepV p.r q.r, !p.frozen, !q.frozen⟩

def bruteF (g : Grid) (rc2 : Rat) (p q : Particle) : Option Pair :=
  if !(p.frozen && q.frozen) && decide (normSq (g.sepV p.r q.r) < rc2) then some (mkPair g p q)
  else none

/-- `O(N²)` reference with cutoff `rc`: all unordered pairs with colours `{a,b}` (`a ≤ b`), not
both frozen, minimum-image separation² `< rc²`; first partner = the one of colour `a` (for
`a = b`: the earlier one in the particle list). -/
def bruteRc (cfg : Config) (rc : Rat) (a b : Nat) : List Pair :=
  if a = b then forSame (bruteF cfg.grid (rc * rc)) (cfg.parts.filter fun p => p.colour = a)
  else forDifferent (bruteF cfg.grid (rc * rc)) (cfg.parts.filter fun p => p.colour = a)
    (cfg.parts.filter fun p => p.colour = b)

def brute (cfg : Config) (a b : Nat) : List Pair := bruteRc cfg (cfg.cut a b) a b

/-- Orientation-agnostic comparison: `e1` and `e2` are entries for the same unordered pair. -/
def Pair.same (e1 e2 : Pair) : Prop := (e1.i = e2.i ∧ e1.j = e2.j) ∨ (e1.i = e2.j ∧ e1.j = e2.i)

instance (e1 e2 : Pair) : Decidable (e1.same e2) := by unfold Pair.same; infer_instance

/-- The entry listed the other way round: partners swapped, vector negated, flags swapped. -/
def Pair.swap (e : Pair) : Pair := ⟨e.j, e.i, vnegR e.d, e.aj, e.ai⟩

/-- Canonical orientation: smaller id first. -/
def Pair.canon (e : Pair) : Pair := if e.i ≤ e.j then e else e.swap

/-! ## Specification predicates -/

/-- `d` is an image of `r1 - r2`: `d = r1 - r2 - (k_x L_x, k_y L_y, k_z L_z)` with
`k_d ∈ {-1,0,1}` and `k_d = 0` in non-periodic directions. -/
def IsImage (g : Grid) (r1 r2 d : V3 Rat) : Prop :=
  ∃ k : V3 Int, IsOff k ∧
    (g.x.per = false → k.x = 0) ∧ (g.y.per = false → k.y = 0) ∧ (g.z.per = false → k.z = 0) ∧
    d.x = r1.x - r2.x - (k.x : Rat) * g.x.L ∧ d.y = r1.y - r2.y - (k.y : Rat) * g.y.L ∧
    d.z = r1.z - r2.z - (k.z : Rat) * g.z.L

/-- The ordered pair `(p, q)` belongs to the reference list for colours `(a, b)` and cutoff
`rc`. -/
def InBrute (cfg : Config) (rc : Rat) (a b : Nat) (p q : Particle) : Prop :=
  p ∈ cfg.parts ∧ q ∈ cfg.parts ∧ p.id ≠ q.id ∧ p.colour = a ∧ q.colour = b ∧
  ¬(p.frozen = true ∧ q.frozen = true) ∧ normSq (cfg.grid.sepV p.r q.r) < rc * rc

/-- The cutoff of the colour pair is positive and at most the cell width in every direction
(`rc(a,b) ≤ rcmax ≤ w_d`). -/
def CutOK (g : Grid) (rc : Rat) : Prop := 0 < rc ∧ rc ≤ g.x.w ∧ rc ≤ g.y.w ∧ rc ≤ g.z.w

instance (g : Grid) (rc : Rat) : Decidable (CutOK g rc) := by unfold CutOK; infer_instance

/-- Distinct particle ids (slots of the particle store; C15). -/
def IdsNodup (cfg : Config) : Prop := cfg.parts.Pairwise fun p q => p.id ≠ q.id

instance (cfg : Config) : Decidable (IdsNodup cfg) := by unfold IdsNodup; infer_instance

instance (cfg : Config) (ε : Rat) : Decidable (Registered cfg ε) := by
  unfold Registered; infer_instance

end Sympler.Geom
