import Sympler.Basic
import Sympler.Gen.SmartListGen
/-!
# Executable model of `SmartList<T>` (C15)

Mirrors `/repo/source/include/basic/smart_list.h`, template class `SmartList<T>`,
statement by statement.  Core Lean only.

Modelling decisions (all visible in the definitions below):

* `CHUNK_SH`, `CHUNK_LEN` are *parameters* (`Params`); the production values are
  16 and 65536, the C harness compiles the header with small values.
* `m_chunks : vector<T*>` is `chunks : Array (Array Entry)`; `nChunks` is its size
  (`m_chunks.size()`).  `new T[CHUNK_LEN]` is `Array.replicate chunkLen default`
  (the C++ leaves `mySlot/prev/next` uninitialised; no theorem depends on the fill).
* A pointer `T*` is `Option Addr`, `Addr = chunk id × index`, `none = NULL`.  The address
  of the entry of a slot is computed with the two macros only (`addr`), so aliasing of two
  slots (possible when `CHUNK_LEN ≠ 2^CHUNK_SH`) is *not* hidden by the model.
* `m_free_slots : std::list<size_t>` is `freeSlots : FreeList`, a two-list functional queue
  whose abstract content is `freeSlots.toList : List Nat` (`push_back x` = `toList ++ [x]`,
  `front/pop_front` = head/tail of `toList`; lemmas `FreeList.toList_pushBack`,
  `FreeList.popFront?_eq`).  A plain `List` with `++ [x]` is quadratic at production size.
* The `assert`s are mirrored by the sticky flag `assertFailed`; every dereference of a
  pointer / every `m_chunks[..][..]` access is bounds checked into the sticky flag `oob`
  (in C++ this would be undefined behaviour).  The theorems in `Props/C15.lean` show that
  neither flag is ever raised.
* `size_t` is `Nat` (no wrap-around; `--m_size` at 0 is guarded by the mirrored assert).
* The payload of `T` (everything besides `SMARTLISTENTRY(T)`) is never touched by the
  class and is not modelled.
-/
namespace Sympler.SmartList

/-- The two C macros `CHUNK_SH`, `CHUNK_LEN` of `smart_list.h`. -/
structure Params where
  chunkSh : Nat
  chunkLen : Nat
  deriving Repr, DecidableEq

/-- Production values `#define CHUNK_LEN 65536`, `#define CHUNK_SH 16`. -/
def Params.production : Params := ⟨Gen.SmartList.chunkSh, Gen.SmartList.chunkLen⟩

/-- `#define SLOT2CHUNKID(slot) (slot >> CHUNK_SH)` -/
def slot2chunk (p : Params) (slot : Nat) : Nat := Gen.SmartList.slot2chunk p.chunkSh p.chunkLen slot

/-- `#define SLOT2INDEX(slot) (slot & (CHUNK_LEN-1))` -/
def slot2index (p : Params) (slot : Nat) : Nat := Gen.SmartList.slot2index p.chunkSh p.chunkLen slot

/-- A memory address of an entry: (chunk id, index in the chunk). -/
abbrev Addr := Nat × Nat

/-- `&m_chunks[SLOT2CHUNKID(slot)][SLOT2INDEX(slot)]` — state independent by construction. -/
def addr (p : Params) (slot : Nat) : Addr := (slot2chunk p slot, slot2index p slot)

/-- `SMARTLISTENTRY(T)`: `size_t mySlot; T *prev, *next;` -/
structure Entry where
  mySlot : Nat
  prev : Option Addr
  next : Option Addr
  deriving Repr, DecidableEq, Inhabited

/-- `vector<T*> m_chunks`, every chunk a `T[CHUNK_LEN]`. -/
abbrev Mem := Array (Array Entry)

/-- Is `a` the address of an allocated cell? -/
def Mem.inBounds (m : Mem) (a : Addr) : Bool :=
  match m[a.1]? with
  | some ch => a.2 < ch.size
  | none => false

/-- Read the cell at `a` (totalised with `default`; every use is guarded by `State.chk`). -/
def Mem.read (m : Mem) (a : Addr) : Entry :=
  match m[a.1]? with
  | some ch => ch[a.2]?.getD default
  | none => default

/-- Update the cell at `a` in place (no-op out of bounds; every use is guarded by `State.chk`). -/
def Mem.write (m : Mem) (a : Addr) (f : Entry → Entry) : Mem :=
  m.modify a.1 (fun ch => ch.modify a.2 f)

/-- `std::list<size_t>` used as a FIFO: content is `front ++ back.reverse`. -/
structure FreeList where
  front : List Nat
  back : List Nat
  deriving Repr

/-- The content of the `std::list`, front first. -/
def FreeList.toList (q : FreeList) : List Nat := q.front ++ q.back.reverse

/-- `std::list()` / `clear()` -/
def FreeList.empty : FreeList := ⟨[], []⟩

/-- `empty()` -/
def FreeList.isEmpty (q : FreeList) : Bool := q.front.isEmpty && q.back.isEmpty

/-- `push_back(x)` -/
def FreeList.pushBack (q : FreeList) (x : Nat) : FreeList := { q with back := x :: q.back }

/-- `front()` + `pop_front()`; `none` when empty. -/
def FreeList.popFront? (q : FreeList) : Option (Nat × FreeList) :=
  match q.front with
  | f :: r => some (f, { q with front := r })
  | [] =>
    match q.back.reverse with
    | f :: r => some (f, ⟨r, []⟩)
    | [] => none

/-- Data members of `SmartList<T>`, plus the two fault flags. -/
structure State where
  /-- `size_t m_emptyIndex` -/
  emptyIndex : Nat
  /-- `size_t m_capacity` -/
  capacity : Nat
  /-- `size_t m_size` -/
  size : Nat
  /-- `T *m_first` -/
  first : Option Addr
  /-- `T *m_last` -/
  last : Option Addr
  /-- `vector<T*> m_chunks` -/
  chunks : Mem
  /-- `list<size_t> m_free_slots` -/
  freeSlots : FreeList
  /-- some `assert` of the class would have fired -/
  assertFailed : Bool
  /-- some access went outside the allocated chunks / through a NULL pointer -/
  oob : Bool

/-- `m_chunks.size()` -/
def State.nChunks (s : State) : Nat := s.chunks.size

/-- `*a` for reading. -/
def State.rd (s : State) (a : Addr) : Entry := s.chunks.read a

/-- `*a = f(*a)`. -/
def State.wr (s : State) (a : Addr) (f : Entry → Entry) : State :=
  { s with chunks := s.chunks.write a f }

/-- Bounds check that accompanies every dereference of `a`. -/
def State.chk (s : State) (a : Addr) : State :=
  if s.chunks.inBounds a then s else { s with oob := true }

/-- `assert(c)` -/
def State.assert (s : State) (c : Bool) : State :=
  if c then s else { s with assertFailed := true }

/-- `SmartList::expandCapacity()`:
`chunk = new T[CHUNK_LEN]; m_chunks.push_back(chunk); m_capacity += CHUNK_LEN;` -/
def expandCapacity (p : Params) (s : State) : State :=
  { s with
    chunks := s.chunks.push (Array.replicate p.chunkLen default)
    capacity := s.capacity + p.chunkLen }

/-- `SmartList()`: `m_emptyIndex(0), m_capacity(0), m_size(0), m_first(NULL), m_last(NULL)`
then `init()` = `expandCapacity()`. -/
def init (p : Params) : State :=
  expandCapacity p
    { emptyIndex := 0, capacity := 0, size := 0, first := none, last := none,
      chunks := #[], freeSlots := .empty, assertFailed := false, oob := false }

/-- `newEntry`, first block:
`if (m_size == m_capacity) { assert(m_free_slots.empty()); expandCapacity(); }` -/
def newEntryGrow (p : Params) (s : State) : State :=
  if s.size = s.capacity then
    expandCapacity p (s.assert s.freeSlots.isEmpty)
  else s

/-- `newEntry`, second block:
```
if (m_emptyIndex < m_capacity) slot = m_emptyIndex++;
else { assert(!m_free_slots.empty()); slot = m_free_slots.front(); m_free_slots.pop_front(); }
```
(`front()` of an empty list is undefined behaviour: flagged, slot 0.) -/
def newEntrySlot (s : State) : State × Nat :=
  if s.emptyIndex < s.capacity then
    ({ s with emptyIndex := s.emptyIndex + 1 }, s.emptyIndex)
  else
    match s.freeSlots.popFront? with
    | none => ({ s with assertFailed := true }, 0)
    | some (f, rest) => ({ s with freeSlots := rest }, f)

/-- `newEntry`, third block (after `++m_size`), with `entry = m_chunks[SLOT2CHUNKID(slot)][SLOT2INDEX(slot)]`:
```
if (!m_first) m_first = &entry;
entry.prev = m_last;
if (m_last) m_last->next = &entry;
entry.next = NULL;
m_last = &entry;
entry.mySlot = slot;
```
-/
def newEntryLink (p : Params) (s : State) (slot : Nat) : State :=
  let a := addr p slot
  let s := s.chk a
  let s := { s with first := if s.first.isNone then some a else s.first }
  let l := s.last
  let s := s.wr a (fun e => { e with prev := l })
  let s := match s.last with
    | some l => (s.chk l).wr l (fun e => { e with next := some a })
    | none => s
  let s := s.wr a (fun e => { e with next := none })
  let s := { s with last := some a }
  let s := s.wr a (fun e => { e with mySlot := slot })
  s

/-- `T &SmartList::newEntry()`; returns the new state and the slot of the returned entry. -/
def newEntry (p : Params) (s : State) : State × Nat :=
  let s := newEntryGrow p s
  let r := newEntrySlot s
  let s := { r.1 with size := r.1.size + 1 }   -- ++m_size
  (newEntryLink p s r.2, r.2)

/-- `deleteEntry(T &entry)`, first part (`a = &entry`; no cell is written):
```
assert(m_size > 0); assert(m_first != NULL); assert(m_last != NULL);
if (m_first->mySlot == entry.mySlot) m_first = m_first->next;
if (m_last->mySlot == entry.mySlot)  m_last = m_last->prev;
m_free_slots.push_back(entry.mySlot);
--m_size;
```
(dereferencing a NULL `m_first`/`m_last` is flagged `oob`). -/
def deleteEntryHead (s : State) (a : Addr) : State :=
  let s := s.assert (decide (s.size > 0))
  let s := s.assert s.first.isSome
  let s := s.assert s.last.isSome
  let s := match s.first with
    | some f =>
      let s := s.chk f
      { s with first := if (s.rd f).mySlot = (s.rd a).mySlot then (s.rd f).next else s.first }
    | none => { s with oob := true }
  let s := match s.last with
    | some l =>
      let s := s.chk l
      { s with last := if (s.rd l).mySlot = (s.rd a).mySlot then (s.rd l).prev else s.last }
    | none => { s with oob := true }
  let s := { s with freeSlots := s.freeSlots.pushBack (s.rd a).mySlot }
  let s := { s with size := s.size - 1 }
  s

/-- `deleteEntry(T &entry)`, second part (`a = &entry`; only cells are written):
```
if (entry.prev) entry.prev->next = entry.next;
if (entry.next) entry.next->prev = entry.prev;
```
Every `entry.x` is re-read from memory at the point where the C++ reads it. -/
def deleteEntryUnlink (s : State) (a : Addr) : State :=
  let s := match (s.rd a).prev with
    | some q => let n := (s.rd a).next; (s.chk q).wr q (fun e => { e with next := n })
    | none => s
  let s := match (s.rd a).next with
    | some q => let r := (s.rd a).prev; (s.chk q).wr q (fun e => { e with prev := r })
    | none => s
  s

/-- `void SmartList::deleteEntry(int slot) { deleteEntry(operator[](slot)); }` with
`operator[](slot) = m_chunks[SLOT2CHUNKID(slot)][SLOT2INDEX(slot)]`, then `deleteEntry(T &entry)`. -/
def deleteEntry (p : Params) (s : State) (slot : Nat) : State :=
  let a := addr p slot
  let s := s.chk a
  deleteEntryUnlink (deleteEntryHead s a) a

/-- `void SmartList::clear()`:
`m_size = 0; m_emptyIndex = 0; m_free_slots.clear(); m_first = NULL; m_last = NULL;` -/
def clear (s : State) : State :=
  { s with size := 0, emptyIndex := 0, freeSlots := .empty, first := none, last := none }

/-! ## Iteration -/

/-- `for (T *i = start; i != NULL; i = succ(i)) visit(i->mySlot)` with at most `fuel` visits. -/
def walk (s : State) (succ : Entry → Option Addr) : Nat → Option Addr → List Nat
  | 0, _ => []
  | _ + 1, none => []
  | fuel + 1, some a => (s.rd a).mySlot :: walk s succ fuel ((succ (s.rd a)))

/-- `SL_FOR_EACH` / `iterator`: walk `next` from `m_first`, at most `fuel` entries. -/
def forwardFuel (s : State) (fuel : Nat) : List Nat := walk s Entry.next fuel s.first

/-- Walk `prev` from `m_last`, at most `fuel` entries. -/
def backwardFuel (s : State) (fuel : Nat) : List Nat := walk s Entry.prev fuel s.last

/-- Forward iteration (fuel `capacity + 1`; `C15_refines` shows any fuel `≥ size` gives the same). -/
def forward (s : State) : List Nat := forwardFuel s (s.capacity + 1)

/-- Backward iteration. -/
def backward (s : State) : List Nat := backwardFuel s (s.capacity + 1)

/-! ## Operations, abstract spec, runs -/

inductive Op where
  | new
  | del (k : Nat)
  | clear
  deriving Repr, DecidableEq

/-- One operation.  Second component: the slot created (`new`) or deleted (`del`), `none` for
`clear` and for `del` on an empty list (`skip`).  `del k` deletes the `k`-th (mod length) entry
of the current forward iteration through `deleteEntry(int slot)`. -/
def stepCore (p : Params) (s : State) : Op → State × Option Nat
  | .new => let r := newEntry p s; (r.1, some r.2)
  | .del k =>
    let fwd := forward s
    match fwd[k % fwd.length]? with
    | some d => (deleteEntry p s d, some d)
    | none => (s, none)
  | .clear => (clear s, none)

/-- The abstract specification: the list of live slots in insertion order.  `new` appends the
slot handed out, `del k` erases its own `k`-th (mod length) element, `clear` empties. -/
def specStep (spec : List Nat) (op : Op) (ret : Option Nat) : List Nat :=
  match op, ret with
  | .new, some slot => spec ++ [slot]
  | .new, none => spec
  | .del k, _ =>
    match spec[k % spec.length]? with
    | some d => spec.erase d
    | none => spec
  | .clear, _ => []

/-- Implementation and spec side by side. -/
def runStep (p : Params) (st : State × List Nat) (op : Op) : State × List Nat :=
  let r := stepCore p st.1 op
  (r.1, specStep st.2 op r.2)

/-- Run an op sequence from the freshly constructed list. -/
def run (p : Params) (ops : List Op) : State × List Nat :=
  ops.foldl (runStep p) (init p, [])

/-! ## Line protocol -/

def showNats (l : List Nat) : String := ",".intercalate (l.map toString)

/-- Suffix appended to a reply when a fault flag is up (never for `chunkLen = 2^chunkSh`). -/
def faultSuffix (s : State) : String :=
  (if s.assertFailed then " err:assert" else "") ++ (if s.oob then " err:oob" else "")

/-- One op with its protocol reply. -/
def step (p : Params) (s : State) (op : Op) : State × String :=
  let r := stepCore p s op
  let s' := r.1
  let msg :=
    match op, r.2 with
    | .new, some slot => s!"slot={slot} size={s'.size} cap={s'.capacity}"
    | .new, none => "err:internal"
    | .del _, some d => s!"del slot={d} size={s'.size}"
    | .del _, none => "skip"
    | .clear, _ => "clear"
  (s', msg ++ faultSuffix s')

def dumpLine (s : State) : String :=
  s!"fwd={showNats (forward s)} bwd={showNats (backward s)} free={showNats s.freeSlots.toList} " ++
  s!"empty={s.emptyIndex} cap={s.capacity} size={s.size}" ++ faultSuffix s

def parseOp (ws : List String) : Option Op :=
  match ws with
  | ["new"] => some .new
  | ["clear"] => some .clear
  | ["del", k] => k.toNat?.map .del
  | _ => none

def driverLoop (p : Params) : State → List String → List String → List String
  | _, [], acc => acc.reverse
  | s, line :: rest, acc =>
    match words line with
    | [] => driverLoop p s rest acc
    | ["dump"] => driverLoop p s rest (dumpLine s :: acc)
    | ws =>
      match parseOp ws with
      | some op => let r := step p s op; driverLoop p r.1 rest (r.2 :: acc)
      | none => driverLoop p s rest ("err:parse" :: acc)

/-- Protocol: first line `params <chunkSh> <chunkLen>` (`chunkLen > 0`), then one of
`new` | `del <k>` | `clear` | `dump` per line (blank lines ignored). -/
def driver (lines : List String) : List String :=
  match lines with
  | [] => ["err:params"]
  | hd :: rest =>
    match words hd with
    | ["params", a, b] =>
      match a.toNat?, b.toNat? with
      | some sh, some len =>
        if len = 0 then ["err:params"] else driverLoop ⟨sh, len⟩ (init ⟨sh, len⟩) rest []
      | _, _ => ["err:params"]
    | _ => ["err:params"]

end Sympler.SmartList
