import Sympler.Basic

/-!
# C11 — run-time compilation of expressions through temporary files

Executable model of `FunctionCompiler::compile()` and
`FunctionCompiler::setParserAndCompile()` in
`/repo/source/src/function_parser/function_compiler.cpp`, run by several
operating-system processes that share one temporary directory.

What is modelled, statement by statement (one *function* = one call of
`setParserAndCompile`, a process performs `nfun` of them one after the other):

```
s << TMP/__function_compiler_tmp_[<pid>_]<counter>;  counter++          (local, no step)
while (stat(name.so)==0 ||                                               step probe   (pc `probe`)
       stat(name.c)==0)  { s << ...<counter>; counter++; }               step probe   (pc `probeC`)
f.open(name.c)                      -- creates or TRUNCATES              step openC
f << ... ; f.close()                                                     step writeC
r = system("gcc ... -o name.so name.c")                                  step gcc
remove(name.c); return r == 0       -- false => caller throws            step rmC
m_handle = dlopen(name.so); dlsym   -- NULL => throw                     step dlopen
remove(name.so)                                                          step rmSo
```

The `||` of the `while` condition short-circuits, so the two `stat` calls are two system
calls between which other processes may run: the model has two program counters for the
source step `probe` (`Pc.probeSo`, `Pc.probeC`).  `stepCoarse` offers the coarser
granularity (whole loop condition atomic) for harnesses that cannot stop between the two.

Abstractions (trusted, see DESIGN.md C11): every step above is atomic; `gcc` reads its input
and writes its output in one step; the text of a source file is abstracted to the tag
`(pid, fn)` of the expression it was generated from (writes of two processes into the *same*
inode overwrite each other completely, i.e. the generated sources have the same length);
`open`, `stat`, `unlink` never fail for reasons other than the ones modelled.

Core Lean only.
-/
namespace Sympler.FuncCompile

/-- file-name extension: `<name>.c` or `<name>.so` -/
inductive Ext | c | so
  deriving DecidableEq, Repr

/-- What an artefact was generated from: `tag pid fn` = expression number `fn` of process `pid`
(C source text for a `.c`, machine code for a `.so`); `empty` = a just-opened/truncated file,
or the library compiled from such a file (gcc accepts an empty translation unit, the
library then has no symbol). -/
inductive Content | empty | tag (pid fn : Nat)
  deriving DecidableEq, Repr

/-- identity of a file independent of its path (inode): `made pid fn` = created by process
`pid` while compiling its function `fn`; `stale j` = existed before (driver numbering). -/
inductive Ino | stale (j : Nat) | made (pid fn : Nat)
  deriving DecidableEq, Repr

structure File where
  ino : Ino
  content : Content
  deriving DecidableEq, Repr

/-- `$TMP/__function_compiler_tmp_[<part>_]<k>.<ext>`; `part = none` is the naming without pid. -/
structure FName where
  part : Option Nat
  k : Nat
  ext : Ext
  deriving DecidableEq, Repr

/-- The shared directory: association list, first entry wins. -/
def FS := List (FName × File)

namespace FS

/-- `stat`/read by path -/
def get : FS → FName → Option File
  | [], _ => none
  | (m, f) :: rest, n => if m = n then some f else get rest n

/-- `unlink` (removes every entry of that path, also shadowed ones) -/
def erase (fs : FS) (n : FName) : FS := List.filter (fun e => decide (e.1 ≠ n)) fs

/-- create or replace the file at path `n` -/
def set (fs : FS) (n : FName) (f : File) : FS := (n, f) :: erase fs n

/-- paths present -/
def keys (fs : FS) : List FName := List.map (fun e => e.1) fs

/-- number of entries (upper bound for the number of files) -/
def size (fs : FS) : Nat := List.length fs

/-- the empty directory -/
def empty : FS := []

end FS

/-- program counter: the next system call of the process.  `probeSo`/`probeC` are the two
`stat` calls of the source step `probe`. -/
inductive Pc | probeSo | probeC | openC | writeC | gcc | rmC | dlopen | rmSo
  deriving DecidableEq, Repr

/-- name printed by the driver -/
def Pc.name : Pc → String
  | .probeSo => "probe" | .probeC => "probeC" | .openC => "openC" | .writeC => "writeC"
  | .gcc => "gcc" | .rmC => "rmC" | .dlopen => "dlopen" | .rmSo => "rmSo"

/-- the source-level step (entry of `Gen.FuncCompile.stepOrder`) a pc belongs to -/
def Pc.srcStep : Pc → String
  | .probeC => "probe"
  | pc => pc.name

/-- all program counters in execution order -/
def Pc.all : List Pc := [.probeSo, .probeC, .openC, .writeC, .gcc, .rmC, .dlopen, .rmSo]

/-- position in `Pc.all` -/
def Pc.idx : Pc → Nat
  | .probeSo => 0 | .probeC => 1 | .openC => 2 | .writeC => 3
  | .gcc => 4 | .rmC => 5 | .dlopen => 6 | .rmSo => 7

/-- The source-level step order implemented by this model (compared with the generated
table in `Props/C11.lean`). -/
def stepOrder : List String := (Pc.all.map Pc.srcStep).eraseDups

inductive Status | running | done | error
  deriving DecidableEq, Repr

def Status.name : Status → String
  | .running => "running" | .done => "done" | .error => "error"

/-- One operating-system process. -/
structure Proc where
  /-- process id (constant) -/
  pid : Nat
  /-- number of expressions to compile (constant) -/
  nfun : Nat
  pc : Pc
  /-- `FunctionCompiler::s_function_counter` -/
  counter : Nat
  /-- index of the expression being compiled -/
  fn : Nat
  /-- the counter value inside the currently chosen base name (`s.str()`) -/
  cur : Nat
  /-- the open `ofstream f`: the inode it refers to -/
  fd : Option Ino
  /-- `r == 0` -/
  gccOk : Bool
  /-- `m_fn` of every `FunctionCompiler` so far: function index ↦ code obtained by `dlopen` -/
  binds : List (Nat × Content)
  status : Status
  deriving DecidableEq, Repr

/-- Process start: `s_function_counter = 0`; the first name has already been formed and the
counter post-incremented (local computation, not a scheduling point). -/
def Proc.init (pid nfun : Nat) : Proc :=
  { pid := pid, nfun := nfun, pc := .probeSo, counter := 1, fn := 0, cur := 0, fd := none,
    gccOk := true, binds := [], status := if nfun = 0 then .done else .running }

/-- start configuration from a list of `(pid, nfun)` -/
def mkProcs (cfg : List (Nat × Nat)) : List Proc := cfg.map (fun c => Proc.init c.1 c.2)

/-- the path `s.str() + ext` of process `p` -/
def fname (usesPid : Bool) (p : Proc) (e : Ext) : FName :=
  ⟨if usesPid then some p.pid else none, p.cur, e⟩

/-- body of the `while` loop: next name, `s_function_counter++`, evaluate the condition again -/
def bump (p : Proc) : Proc :=
  { p with cur := p.counter, counter := p.counter + 1, pc := .probeSo }

/-- after `remove(m_so_filename)`: next expression (forms the next name) or normal end -/
def nextFn (p : Proc) : Proc :=
  if p.fn + 1 < p.nfun then
    { p with fn := p.fn + 1, cur := p.counter, counter := p.counter + 1, pc := .probeSo }
  else
    { p with fn := p.fn + 1, status := .done }

/-- One system call of a running process `p` on the shared directory `fs`. -/
def stepProc (u : Bool) (fs : FS) (p : Proc) : FS × Proc :=
  match p.pc with
  | .probeSo =>
    -- stat(name.so) == 0 ?
    match fs.get (fname u p .so) with
    | some _ => (fs, bump p)
    | none => (fs, { p with pc := .probeC })
  | .probeC =>
    -- stat(name.c) == 0 ?
    match fs.get (fname u p .c) with
    | some _ => (fs, bump p)
    | none => (fs, { p with pc := .openC })
  | .openC =>
    -- ofstream::open: O_CREAT|O_TRUNC.  An existing file keeps its inode and loses its content.
    match fs.get (fname u p .c) with
    | some f => (fs.set (fname u p .c) ⟨f.ino, .empty⟩, { p with pc := .writeC, fd := some f.ino })
    | none =>
      (fs.set (fname u p .c) ⟨.made p.pid p.fn, .empty⟩,
       { p with pc := .writeC, fd := some (.made p.pid p.fn) })
  | .writeC =>
    -- f << ...; f.close().  The data goes to the inode opened in `openC`.  It is visible under
    -- the path only if the path still exists and still is that inode; if the path was
    -- unlinked meanwhile (and possibly re-created by somebody else) the data is lost.
    match fs.get (fname u p .c) with
    | some f =>
      if some f.ino = p.fd then
        (fs.set (fname u p .c) ⟨f.ino, .tag p.pid p.fn⟩, { p with pc := .gcc, fd := none })
      else (fs, { p with pc := .gcc, fd := none })
    | none => (fs, { p with pc := .gcc, fd := none })
  | .gcc =>
    -- system("gcc -shared -o name.so name.c"): reads name.c as it is now.  Missing input:
    -- gcc fails, no output.  Otherwise the linker replaces name.so by a new file generated
    -- from whatever name.c contains (an empty file compiles to a library without symbols).
    match fs.get (fname u p .c) with
    | some f =>
      (fs.set (fname u p .so) ⟨.made p.pid p.fn, f.content⟩, { p with pc := .rmC, gccOk := true })
    | none => (fs, { p with pc := .rmC, gccOk := false })
  | .rmC =>
    -- remove(name.c); return r == 0;  `false` makes setParserAndCompile throw.
    (fs.erase (fname u p .c),
     if p.gccOk then { p with pc := .dlopen } else { p with status := .error })
  | .dlopen =>
    -- dlopen(name.so) + dlsym: binds to the code in the file now.  Missing file: dlopen fails;
    -- library without the symbol: dlsym fails; both throw (name.so is then left behind).
    match fs.get (fname u p .so) with
    | some ⟨_, .tag a b⟩ =>
      (fs, { p with pc := .rmSo, binds := p.binds ++ [(p.fn, .tag a b)] })
    | _ => (fs, { p with status := .error })
  | .rmSo =>
    -- remove(name.so)
    (fs.erase (fname u p .so), nextFn p)

structure World where
  fs : FS
  procs : List Proc

/-- Schedule process number `i` for one system call.  Scheduling a process that does not
exist, has finished or has ended with an error is a no-op. -/
def step (u : Bool) (w : World) (i : Nat) : World :=
  match w.procs[i]? with
  | none => w
  | some p =>
    match p.status with
    | .running =>
      let r := stepProc u w.fs p
      { fs := r.1, procs := w.procs.set i r.2 }
    | _ => w

def runFrom (u : Bool) (w : World) (sched : List Nat) : World := sched.foldl (step u) w

/-- `run usesPid init procs sched`: all processes of `procs` run concurrently on the initial
directory `init`; `sched` lists the index of the process that performs the next system call. -/
def run (usesPid : Bool) (init : FS) (procs : List Proc) (sched : List Nat) : World :=
  runFrom usesPid ⟨init, procs⟩ sched

/-- Coarser scheduling unit: the whole `while` condition (one or two `stat`s) is atomic. -/
def stepCoarse (u : Bool) (w : World) (i : Nat) : World :=
  let w1 := step u w i
  match w1.procs[i]? with
  | some p => if p.status = .running ∧ p.pc = .probeC then step u w1 i else w1
  | none => w1

def runCoarse (u : Bool) (init : FS) (procs : List Proc) (sched : List Nat) : World :=
  sched.foldl (stepCoarse u) ⟨init, procs⟩

/-! ## line protocol -/

def Content.show : Content → String
  | .empty => "empty"
  | .tag a b => toString a ++ "." ++ toString b

def Ext.show : Ext → String
  | .c => "c" | .so => "so"

def FName.show (n : FName) : String :=
  (match n.part with | none => "-" | some p => toString p) ++ "." ++ toString n.k ++ "." ++ n.ext.show

/-- order of the `fs=` listing: no-pid names first, then by pid part, counter, `c` before `so` -/
def FName.le (a b : FName) : Bool :=
  let pa := match a.part with | none => 0 | some p => p + 1
  let pb := match b.part with | none => 0 | some p => p + 1
  let ea := match a.ext with | .c => 0 | .so => 1
  let eb := match b.ext with | .c => 0 | .so => 1
  if pa ≠ pb then pa < pb else if a.k ≠ b.k then a.k < b.k else ea ≤ eb

/-- visible entries (first entry of a path wins) -/
def FS.visible : FS → List (FName × File)
  | [] => []
  | (n, f) :: rest => (n, f) :: FS.visible (FS.erase rest n)
termination_by fs => List.length fs
decreasing_by
  simp only [FS.erase, List.length_cons]
  exact Nat.lt_succ_of_le (List.length_filter_le _ _)

def showFS (fs : FS) : String :=
  let es := (FS.visible fs).mergeSort (fun a b => FName.le a.1 b.1)
  "fs=" ++ ",".intercalate (es.map (fun e => e.1.show ++ ":" ++ e.2.content.show))

def showProc (p : Proc) : String :=
  "proc " ++ toString p.pid ++ " status=" ++ p.status.name ++
  " pc=" ++ (if p.status = .done then "end" else p.pc.name) ++
  " binds=" ++ ",".intercalate (p.binds.map (fun b => toString b.1 ++ ":" ++ b.2.show))

structure Input where
  usesPid : Option Bool := none
  atomicProbe : Bool := false
  files : List (FName × Content) := []
  procs : List Proc := []
  sched : List Nat := []

def parseBit : String → Option Bool
  | "0" => some false | "1" => some true | _ => none

def parseExt : String → Option Ext
  | "c" => some .c | "so" => some .so | _ => none

def parsePart : String → Option (Option Nat)
  | "-" => some none
  | s => s.toNat?.map some

def parseLine (inp : Input) (ws : List String) : Option Input :=
  match ws with
  | ["usespid", b] => (parseBit b).map fun v => { inp with usesPid := some v }
  | ["atomicprobe", b] => (parseBit b).map fun v => { inp with atomicProbe := v }
  | ["file", part, k, e, "empty"] =>
    match parsePart part, k.toNat?, parseExt e with
    | some pt, some k, some e => some { inp with files := inp.files ++ [(⟨pt, k, e⟩, .empty)] }
    | _, _, _ => none
  | ["file", part, k, e, o, f] =>
    match parsePart part, k.toNat?, parseExt e, o.toNat?, f.toNat? with
    | some pt, some k, some e, some o, some f =>
      some { inp with files := inp.files ++ [(⟨pt, k, e⟩, .tag o f)] }
    | _, _, _, _, _ => none
  | ["proc", pid, nfun] =>
    match pid.toNat?, nfun.toNat? with
    | some pid, some nfun => some { inp with procs := inp.procs ++ [Proc.init pid nfun] }
    | _, _ => none
  | "sched" :: is => (parseNats is).map fun l => { inp with sched := inp.sched ++ l }
  | _ => none

def parseInput : Input → List String → Option Input
  | inp, [] => some inp
  | inp, l :: rest =>
    match words l with
    | [] => parseInput inp rest
    | ["end"] => some inp
    | ws =>
      match parseLine inp ws with
      | some inp' => parseInput inp' rest
      | none => none

/-- initial directory from the `file` lines (a later line for the same path replaces an
earlier one); the `j`-th line gets inode `stale j` -/
def mkInit : List (FName × Content) → Nat → FS → FS
  | [], _, fs => fs
  | (n, c) :: rest, j, fs => mkInit rest (j + 1) (FS.set fs n ⟨.stale j, c⟩)

/-- Line protocol, see the report / `Props/C11.lean`:
`usespid 0|1` (required), `atomicprobe 0|1` (optional, default 0),
`file <pidpart|-> <k> c|so <ownerpid> <fn>` or `file <pidpart|-> <k> c|so empty`,
`proc <pid> <nfun>`, `sched <i> ...` (repeatable), `end`.
Output: one line per process, then the directory listing; `err:parse` on malformed input. -/
def driver (lines : List String) : List String :=
  match parseInput {} lines with
  | none => ["err:parse"]
  | some inp =>
    match inp.usesPid with
    | none => ["err:parse"]
    | some u =>
      let init := mkInit inp.files 0 ([] : List (FName × File))
      let w := if inp.atomicProbe then runCoarse u init inp.procs inp.sched
               else run u init inp.procs inp.sched
      w.procs.map showProc ++ [showFS w.fs]

end Sympler.FuncCompile
