import Sympler.DataFormatDriver
/-!
# The executable integer codec round-trips: `atoi (sprintf "%i" n) = n` (C14)

Core Lean only.
-/
namespace Sympler.DataFormat

theorem digitVal_digitChar : ∀ d, d < 10 → digitVal? (digitChar d) = some d := by decide

theorem digitChar_plain : ∀ d, d < 10 →
    isSpaceC (digitChar d) = false ∧ digitChar d ≠ '-' ∧ digitChar d ≠ '+' := by decide

/-- reading the digits written by `natDigitsAux` continues with the accumulator shifted -/
theorem readDigits_natDigitsAux : ∀ (fuel n : Nat) (acc : List Char), n < fuel →
    ∃ L, ∀ a k, readDigits (natDigitsAux fuel n acc) a k = readDigits acc (a * 10 ^ L + n) (k + L) := by
  intro fuel
  induction fuel with
  | zero => intro n acc h; omega
  | succ f ih =>
    intro n acc hn
    by_cases h10 : n < 10
    · refine ⟨1, fun a k => ?_⟩
      simp only [natDigitsAux, h10, if_true, Nat.mod_eq_of_lt h10]
      simp [readDigits, digitVal_digitChar n h10]
    · have hdiv : n / 10 < f := by omega
      obtain ⟨L, hL⟩ := ih (n / 10) (digitChar (n % 10) :: acc) hdiv
      refine ⟨L + 1, fun a k => ?_⟩
      simp only [natDigitsAux, h10, if_false]
      rw [hL]
      have hm : n % 10 < 10 := Nat.mod_lt _ (by decide)
      simp only [readDigits, digitVal_digitChar _ hm]
      have e1 : (a * 10 ^ L + n / 10) * 10 + n % 10 = a * 10 ^ (L + 1) + n := by
        rw [Nat.pow_succ, Nat.add_mul, Nat.mul_assoc]
        have := Nat.div_add_mod n 10
        omega
      rw [e1, Nat.add_assoc]

theorem natDigitsAux_head : ∀ (fuel n : Nat) (acc : List Char), n < fuel →
    ∃ d rest, d < 10 ∧ natDigitsAux fuel n acc = digitChar d :: rest := by
  intro fuel
  induction fuel with
  | zero => intro n acc h; omega
  | succ f ih =>
    intro n acc hn
    by_cases h10 : n < 10
    · exact ⟨n % 10, acc, Nat.mod_lt _ (by decide), by simp [natDigitsAux, h10]⟩
    · have hdiv : n / 10 < f := by omega
      obtain ⟨d, rest, hd, he⟩ := ih (n / 10) (digitChar (n % 10) :: acc) hdiv
      exact ⟨d, rest, hd, by simp only [natDigitsAux, h10, if_false]; exact he⟩

theorem atoiModel_natDigits (m : Nat) :
    atoiModel (natDigits m) = (m : Int) ∧ atoiModel ('-' :: natDigits m) = -(m : Int) := by
  obtain ⟨d, rest, hd, he⟩ := natDigitsAux_head (m + 1) m [] (by omega)
  obtain ⟨L, hL⟩ := readDigits_natDigitsAux (m + 1) m [] (by omega)
  obtain ⟨hsp, hminus, hplus⟩ := digitChar_plain d hd
  have hrd : readDigits (natDigits m) 0 0 = (m, L, []) := by
    unfold natDigits; rw [hL]; simp [readDigits]
  have hdw : (natDigits m).dropWhile isSpaceC = natDigits m := by
    unfold natDigits; rw [he]; simp [List.dropWhile, hsp]
  have hsign : readSign (natDigits m) = (false, natDigits m) := by
    unfold natDigits; rw [he]
    unfold readSign
    split
    · rename_i h; injection h with h1 _; exact absurd h1 hminus
    · rename_i h; injection h with h1 _; exact absurd h1 hplus
    · rfl
  constructor
  · unfold atoiModel
    simp only [hdw, hsign, hrd]
    simp
  · unfold atoiModel
    have : ('-' :: natDigits m).dropWhile isSpaceC = '-' :: natDigits m := by
      simp [List.dropWhile, isSpaceC]
    simp only [this, readSign, hrd]
    simp

/-- the executable model of `sprintf("%i")` / `atoi` round-trips on every integer -/
theorem atoiModel_fmtIModel (n : Int) : atoiModel (fmtIModel n) = n := by
  unfold fmtIModel
  by_cases hn : n < 0
  · simp only [hn, if_true]
    rw [(atoiModel_natDigits n.natAbs).2]
    omega
  · simp only [hn, if_false]
    rw [(atoiModel_natDigits n.natAbs).1]
    omega

end Sympler.DataFormat
