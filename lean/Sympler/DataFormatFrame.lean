import Sympler.DataFormatSteps
/-!
# Frame conditions of the `DataFormat` model (C14)

`Frame s s' t`: going from `s` to `s'` only the record `t` (if any) changed its block, formats
kept the layout of their existing attributes, and live heap cells not owned by `t` are untouched.
Reads of other records are therefore unchanged (`read_frame`).  Core Lean only.
-/
namespace Sympler.DataFormat

local notation "Addr" => Nat

/-- `f'` has the attributes of `f`, identical up to `persistent`, and possibly more -/
def Format.sameLayout (f f' : Format) : Prop :=
  ∀ (k : Nat) (a : Attr), f.byIndex[k]? = some a → ∃ a' : Attr, f'.byIndex[k]? = some a' ∧ a.samePers a'

theorem Format.sameLayout_refl (f : Format) : f.sameLayout f :=
  fun _ a h => ⟨a, h, rfl, rfl, rfl, rfl, rfl⟩

theorem Format.sameLayout_addAttribute {al : Option Nat} {f f' : Format} {n sym : String} {t : DType}
    {p : Bool} {a : Attr} (h : f.addAttribute al n t p sym = .ok (a, f')) : f.sameLayout f' := by
  rcases Format.addAttribute_ok_cases h with ⟨_, _, hf'⟩ | ⟨_, _, hf'⟩
  · subst hf'
    intro k x hx
    exact ⟨x, by rw [List.getElem?_append_left (lt_of_getElem?_some hx)]; exact hx, rfl, rfl, rfl, rfl, rfl⟩
  · subst hf'; exact Format.sameLayout_refl _

theorem Format.sameLayout_setPersistent (f : Format) (i : Nat) (p : Bool) :
    f.sameLayout (f.setPersistent i p) := by
  cases ha : f.byIndex[i]? with
  | none => simp only [Format.setPersistent, ha]; exact Format.sameLayout_refl f
  | some a =>
    simp only [Format.setPersistent, ha]
    intro k x hx
    show ∃ a', (f.byIndex.set i { a with persistent := p })[k]? = some a' ∧ x.samePers a'
    rw [List.getElem?_set]
    split
    · rename_i hik
      subst hik
      rw [ha] at hx; cases hx
      exact ⟨{ a with persistent := p }, by simp [lt_of_getElem?_some ha], rfl, rfl, rfl, rfl, rfl⟩
    · exact ⟨x, hx, rfl, rfl, rfl, rfl, rfl⟩

structure Frame (s s' : State) (t : Option Nat) : Prop where
  datas : ∀ x : Nat, some x ≠ t → x < s.datas.length → s'.datas[x]? = s.datas[x]?
  fmts : ∀ (fid : Nat) (f : Format), s.fmts[fid]? = some f →
    ∃ f' : Format, s'.fmts[fid]? = some f' ∧ f.sameLayout f'
  heap : ∀ (a : Addr) (c : Cell), s.heap[a]? = some (some c) →
    (∀ d, t = some d → ¬ owns (valsOf s.datas d) a) → s'.heap[a]? = some (some c)

theorem Frame.refl (s : State) (t : Option Nat) : Frame s s t :=
  ⟨fun _ _ _ => rfl, fun _ f h => ⟨f, h, Format.sameLayout_refl f⟩, fun _ _ h _ => h⟩

theorem fmts_same (fmts : List Format) : ∀ (fid : Nat) (f : Format), fmts[fid]? = some f →
    ∃ f' : Format, fmts[fid]? = some f' ∧ f.sameLayout f' :=
  fun _ f h => ⟨f, h, Format.sameLayout_refl f⟩

theorem fmts_append (fmts : List Format) (x : Format) : ∀ (fid : Nat) (f : Format), fmts[fid]? = some f →
    ∃ f' : Format, (fmts ++ [x])[fid]? = some f' ∧ f.sameLayout f' :=
  fun fid f h => ⟨f, by rw [List.getElem?_append_left (lt_of_getElem?_some h)]; exact h, Format.sameLayout_refl f⟩

theorem fmts_set (fmts : List Format) {fid0 : Nat} {f0 f0' : Format} (h0 : fmts[fid0]? = some f0)
    (hl : f0.sameLayout f0') : ∀ (fid : Nat) (f : Format), fmts[fid]? = some f →
    ∃ f' : Format, (fmts.set fid0 f0')[fid]? = some f' ∧ f.sameLayout f' := by
  intro fid f h
  by_cases hf : fid0 = fid
  · subst hf
    rw [h0] at h; cases h
    exact ⟨f0', List.getElem?_set_self (lt_of_getElem?_some h0), hl⟩
  · exact ⟨f, by rw [List.getElem?_set_ne hf]; exact h, Format.sameLayout_refl f⟩

theorem heap_append_keep {h : Heap} (extra : List (Option Cell)) {a : Addr} {c : Cell}
    (hc : h[a]? = some (some c)) : (h ++ extra)[a]? = some (some c) := by
  rw [List.getElem?_append_left (lt_of_getElem?_some hc)]; exact hc

/-- new records are appended, new cells are appended, nothing else -/
theorem Frame.appended (s : State) (t : Option Nat) (xs : List (Option Data)) (extra : List (Option Cell))
    (L : List Addr) : Frame s ⟨s.fmts, s.datas ++ xs, s.heap ++ extra, L⟩ t :=
  ⟨fun _ _ hx => List.getElem?_append_left hx, fmts_same _, fun _ _ hc _ => heap_append_keep extra hc⟩

/-- record `d` changed, cells not owned by `d` are kept -/
theorem Frame.setData (s : State) (d : Nat) (x : Option Data) (h' : Heap) (L : List Addr)
    (hk : ∀ (a : Addr) (c : Cell), s.heap[a]? = some (some c) → ¬ owns (valsOf s.datas d) a →
      h'[a]? = some (some c)) :
    Frame s ⟨s.fmts, s.datas.set d x, h', L⟩ (some d) :=
  ⟨fun y hy _ => List.getElem?_set_ne (fun e => hy (by rw [e])), fmts_same _,
   fun a c hc hn => hk a c hc (hn d rfl)⟩

theorem resolve_frame {h h' : Heap} {v : Val} {r : Option RVal}
    (hk : ∀ (adr : Addr) (c : Cell), v = Val.sp (some adr) → h[adr]? = some (some c) → h'[adr]? = some (some c))
    (hr : resolve h v = .ok r) : resolve h' v = .ok r := by
  cases v with
  | sp p =>
    cases p with
    | none => exact hr
    | some adr =>
      simp only [resolve] at hr ⊢
      cases hg : h.get adr with
      | none => rw [hg] at hr; cases hr
      | some c =>
        rw [hg] at hr
        rw [Heap.get_eq_some.2 (hk adr c rfl (Heap.get_eq_some.1 hg))]
        exact hr
  | str x => cases x <;> exact hr
  | int n => exact hr
  | dbl x => exact hr
  | ipt a b c => exact hr
  | pt p => exact hr
  | tens t => exact hr

/-- successful reads of records other than `t` are not changed -/
theorem read_frame {al : Option Nat} {s s' : State} {t : Option Nat} (hs : Inv al s) (hf : Frame s s' t)
    {x i : Nat} {v : RVal} (hx : some x ≠ t) (hr : s.read x i = .ok v) : s'.read x i = .ok v := by
  unfold State.read at hr ⊢
  split at hr
  · cases hr
  · rename_i l hl
    obtain ⟨hd, hfid, hfm, ha⟩ := attrAt_ok hl
    have hd' : s'.datas[x]? = some (some l.dat) := by
      rw [hf.datas x hx (lt_of_getElem?_some hd)]; exact hd
    obtain ⟨f', hf', hlay⟩ := hf.fmts l.fid l.fmt hfm
    obtain ⟨a', ha', hsame⟩ := hlay i l.attr ha
    have hatt : s'.attrAt x i = .ok ⟨l.dat, l.fid, f', a'⟩ := by
      unfold State.attrAt
      rw [getData_ok.2 hd']
      simp only [hfid, getFmt_ok.2 hf', ha']
    rw [hatt]
    simp only
    split at hr
    · cases hr
    · rename_i b val hslot
      obtain ⟨hblk, hval, hmis⟩ := slot_ok hslot
      have hslot' : (⟨l.dat, l.fid, f', a'⟩ : AttrAt).slot i = .ok (b, val) := by
        have hm : a'.misaligned = false := by
          rw [← hmis]; unfold Attr.misaligned
          rw [hsame.2.2.1, hsame.2.2.2.1]
        simp [AttrAt.slot, hblk, hval, hm]
      rw [hslot']
      simp only
      cases hres : resolve s.heap val with
      | error e => rw [hres] at hr; cases hr
      | ok r =>
        rw [hres] at hr
        have : resolve s'.heap val = .ok r := by
          apply resolve_frame _ hres
          intro adr c hv hc
          have hown : owns (valsOf s.datas x) adr := by
            rw [valsOf_of_block hd hblk]; exact ⟨i, by rw [hval, hv]⟩
          exact hf.heap adr c hc (fun d hd'' ho => by
            have := hs.heap.sep x d adr hown ho
            exact hx (by rw [hd'', this]))
        rw [this]
        exact hr

end Sympler.DataFormat
