import Sympler.ExprCLemmas

/-!
# C03 — the emitter against the interpreter

`toCE_good`: for every tree whose library functions come from the generated table (`Tree.wf`), every
component `e` of `toCE env t` is a canonical primary term (`Prim e`, hence `parseCL e.render = e.abs`)
of C type `double` whose C value is the corresponding component of `denote env t` (`Agree`).
`toCE_dbl` (no interpreter involved): every component of every emitted result is a canonical primary
term of type `double` in which no `int / int` division occurs.

Core Lean only.
-/
namespace Sympler.Expr

/-! ## `Agree`: the value of a C term -/

/-- the C term evaluates to `x` and has the C type `double`.  (Before commit ad91e0f of /repo the emitter
produced `int`-typed terms as well and `Agree` had the alternative "or the term performs a truncating
`int / int` division"; see `ExprHistory.lean`.) -/
def Agree (env : Env) (e : CE) (x : Rat) : Prop :=
  evalCX env e.abs = .ok x ∧ e.abs.isInt = false

theorem abs_par (x : CE) : (CE.par x).abs = x.abs := rfl
theorem abs_bin (op : Char) (sp : Bool) (a b : CE) :
    (CE.bin op sp a b).abs = .bin (copOf op) a.abs b.abs := rfl
theorem abs_neg (x : CE) : (CE.neg x).abs = .neg x.abs := rfl
theorem abs_castd (sp : Bool) (x : CE) : (CE.castd sp x).abs = .castd x.abs := rfl
theorem abs_gt0 (c a b : CE) : (CE.gt0 c a b).abs = .ite c.abs (.num true 0) a.abs b.abs := rfl
theorem abs_call (f : String) (a : CE) : (CE.call f a).abs = .call1 f a.abs := rfl
theorem abs_pow (a b : CE) : (CE.pow a b).abs = .call2 "pow" a.abs b.abs := rfl
theorem abs_load (off : Nat) : (CE.load off).abs = .load off := rfl
theorem abs_lit (t : List Char) : (CE.lit t).abs = litAbs t := rfl

theorem evalCX_bin (env : Env) (op : COp) (a b : CX) :
    evalCX env (.bin op a b) = (do
      let x ← evalCX env a
      let y ← evalCX env b
      match op with
      | .add => pure (x + y)
      | .sub => pure (x - y)
      | .mul => pure (x * y)
      | .div =>
        if y = 0 then (if a.isInt && b.isInt then .error .intDiv0 else .error .div0)
        else if a.isInt && b.isInt && (x / y).den != 1 then .error .intTrunc
        else pure (x / y)) := rfl

theorem isInt_bin (op : COp) (a b : CX) : (CX.bin op a b).isInt = (a.isInt && b.isInt) := rfl

theorem Agree.par {env e x} (h : Agree env e x) : Agree env (.par e) x := h

/-- a cast makes a `double` of anything -/
theorem Agree.castd {env e x} (sp : Bool) (h : evalCX env e.abs = .ok x) : Agree env (.castd sp e) x :=
  ⟨h, rfl⟩

theorem Agree.neg {env e x} (h : Agree env e x) : Agree env (.neg e) (-x) := by
  unfold Agree at *
  rw [abs_neg]
  exact ⟨by simp [evalCX, h.1, bind, Except.bind, pure, Except.pure], h.2⟩

theorem Agree.add {env a b x y} (sp : Bool) (ha : Agree env a x) (hb : Agree env b y) :
    Agree env (.bin '+' sp a b) (x + y) := by
  unfold Agree at *
  rw [abs_bin, evalCX_bin, isInt_bin]
  exact ⟨by simp [ha.1, hb.1, bind, Except.bind, copOf, pure, Except.pure], by simp [ha.2]⟩

theorem Agree.sub {env a b x y} (sp : Bool) (ha : Agree env a x) (hb : Agree env b y) :
    Agree env (.bin '-' sp a b) (x - y) := by
  unfold Agree at *
  rw [abs_bin, evalCX_bin, isInt_bin]
  exact ⟨by simp [ha.1, hb.1, bind, Except.bind, copOf, pure, Except.pure], by simp [ha.2]⟩

theorem Agree.mul {env a b x y} (sp : Bool) (ha : Agree env a x) (hb : Agree env b y) :
    Agree env (.bin '*' sp a b) (x * y) := by
  unfold Agree at *
  rw [abs_bin, evalCX_bin, isInt_bin]
  exact ⟨by simp [ha.1, hb.1, bind, Except.bind, copOf, pure, Except.pure], by simp [ha.2]⟩

/-- the quotient of two `double` terms is the real quotient: no truncation, whatever the values -/
theorem Agree.div {env a b x y} (sp : Bool) (ha : Agree env a x) (hb : Agree env b y) (hy : y ≠ 0) :
    Agree env (.bin '/' sp a b) (x / y) := by
  unfold Agree at *
  rw [abs_bin, evalCX_bin, isInt_bin]
  exact ⟨by simp [ha.1, hb.1, ha.2, bind, Except.bind, copOf, hy, pure, Except.pure], by simp [ha.2]⟩

theorem Agree.gt0 {env c a b x y z} (hc : Agree env c x) (ha : Agree env a y) (hb : Agree env b z) :
    Agree env (.gt0 c a b) (if x > 0 then y else z) := by
  unfold Agree at *
  rw [abs_gt0]
  refine ⟨?_, by simp [CX.isInt, ha.2]⟩
  by_cases hx : x > 0
  · simp [evalCX, hc.1, ha.1, hx, bind, Except.bind]
  · simp [evalCX, hc.1, hb.1, hx, bind, Except.bind]

theorem Agree.call {env a x y} (f : String) (ha : Agree env a x) (hf : libFn env f x = .ok y) :
    Agree env (.call f a) y := by
  unfold Agree at *
  rw [abs_call]
  exact ⟨by simp [evalCX, ha.1, hf, bind, Except.bind], rfl⟩

theorem Agree.pow {env a b x y z} (ha : Agree env a x) (hb : Agree env b y)
    (hp : powRat env x y = .ok z) : Agree env (.pow a b) z := by
  unfold Agree at *
  rw [abs_pow]
  exact ⟨by simp [evalCX, ha.1, hb.1, hp, bind, Except.bind], rfl⟩

/-- value of a literal, of whatever C type -/
theorem evalCX_lit {env : Env} {t : List Char} {r : Rat} (h : decimalVal (t.dropWhile isSpace) = some r) :
    evalCX env (CE.lit t).abs = .ok r := by
  rw [abs_lit]
  simp [litAbs, h, evalCX]

/-- a literal with a character that is no digit (a `.`) is a `double` -/
theorem Agree.lit {env} {t : List Char} {r : Rat} (h : decimalVal (t.dropWhile isSpace) = some r)
    (hd : (t.dropWhile isSpace).all Char.isDigit = false) : Agree env (.lit t) r :=
  ⟨evalCX_lit h, by rw [abs_lit]; simpa [litAbs, CX.isInt] using hd⟩

theorem Agree.load {env : Env} (k : Nat) : Agree env (.load (8 * k)) (env.mem k) := by
  refine ⟨?_, rfl⟩
  rw [abs_load]
  simp [evalCX]

theorem evalCX_mpi {env : Env} {r} (h : env.piv = .ok r) : evalCX env CE.mpi.abs = .ok r := h

theorem agree_lit00 (env : Env) : Agree env (.lit ['0', '.', '0']) 0 :=
  Agree.lit (by decide +kernel) (by decide)
theorem agree_lit10 (env : Env) : Agree env (.lit ['1', '.', '0']) 1 :=
  Agree.lit (by decide +kernel) (by decide)

/-! ## Canonical terms built by the emitter -/

/-- a harmless first character: no operator, not `d`, no white space -/
def goodHead (cs : List Char) : Bool := cs.head?.any (fun c => !opChar c && c != 'd' && !isSpace c)

/-- canonical, of level at least `L`, with a harmless first character -/
structure Can (L : Nat) (e : CE) : Prop where
  ok : e.ok = true
  lvl : L ≤ e.lvl
  hd : goodHead e.render = true

/-- what the emitter returns as a component: a canonical primary term -/
abbrev Prim (e : CE) : Prop := Can 4 e

theorem goodHead_cons (c : Char) (tl : List Char) :
    goodHead (c :: tl) = (!opChar c && c != 'd' && !isSpace c) := rfl

theorem goodHead_append {a : List Char} (h : goodHead a = true) (b : List Char) :
    goodHead (a ++ b) = true := by
  cases a with
  | nil => simp [goodHead] at h
  | cons c tl => exact h

theorem goodHead_headNoOp {a : List Char} (h : goodHead a = true) : headNoOp a = true := by
  cases a with
  | nil => simp [goodHead] at h
  | cons c tl =>
    simp only [goodHead_cons, Bool.and_eq_true] at h
    simpa [headNoOp] using h.1.1

theorem goodHead_ne_d {a : List Char} (h : goodHead a = true) : a.head? ≠ some 'd' := by
  cases a with
  | nil => simp
  | cons c tl =>
    simp only [goodHead_cons, Bool.and_eq_true, bne_iff_ne, ne_eq] at h
    simpa using h.1.2

theorem goodHead_skip {a : List Char} (h : goodHead a = true) :
    (skipWs a).head?.any (fun c => c != '-') = true := by
  cases a with
  | nil => simp [goodHead] at h
  | cons c tl =>
    simp only [goodHead_cons, Bool.and_eq_true, bne_iff_ne, ne_eq, Bool.not_eq_true'] at h
    rw [skipWs_cons h.2]
    have : c ≠ '-' := by
      intro hc; subst hc
      have := h.1.1
      revert this; decide
    simpa using this

theorem Can.mono {L L' e} (h : Can L e) (hl : L' ≤ L) : Can L' e := ⟨h.ok, by have := h.lvl; omega, h.hd⟩

/-- `(X)` for any canonical `X` whose text does not start with `d` -/
theorem can_par {X : CE} (hok : X.ok = true) (hd : X.render.head? ≠ some 'd') : Prim (.par X) := by
  refine ⟨?_, by simp [CE.lvl], by rw [render_par]; rfl⟩
  rw [ok_par]
  simp only [Bool.and_eq_true, bne_iff_ne, ne_eq]
  exact ⟨hok, hd⟩

theorem can_par_can {L} {X : CE} (h : Can L X) : Prim (.par X) := can_par h.ok (goodHead_ne_d h.hd)

theorem can_bin_mul {a b : CE} {op : Char} (sp : Bool) (hop : op = '*' ∨ op = '/')
    (ha : Can 2 a) (hb : Can 3 b) : Can 2 (.bin op sp a b) := by
  refine ⟨?_, by simp [CE.lvl, hop], by rw [render_bin]; exact goodHead_append ha.hd _⟩
  rw [ok_bin, if_pos hop]
  have : opChar op = true := by rcases hop with h | h <;> subst h <;> decide
  simp [this, ha.ok, hb.ok, goodHead_headNoOp hb.hd, ha.lvl, hb.lvl]

theorem can_bin_add {a b : CE} {op : Char} (sp : Bool) (hop : op = '+' ∨ op = '-')
    (ha : Can 1 a) (hb : Can 2 b) : Can 1 (.bin op sp a b) := by
  have hno : ¬ (op = '*' ∨ op = '/') := by rcases hop with h | h <;> subst h <;> decide
  refine ⟨?_, by simp [CE.lvl, hno], by rw [render_bin]; exact goodHead_append ha.hd _⟩
  rw [ok_bin, if_neg hno]
  have : opChar op = true := by rcases hop with h | h <;> subst h <;> decide
  simp [this, ha.ok, hb.ok, goodHead_headNoOp hb.hd, ha.lvl, hb.lvl]

theorem can_chain_add {sp : Bool} : ∀ (xs : List CE) (acc : CE), Can 1 acc → (∀ x ∈ xs, Can 2 x) →
    Can 1 (chain '+' sp acc xs)
  | [], acc, h, _ => h
  | x :: xs, acc, h, hx =>
    can_chain_add xs _ (can_bin_add sp (Or.inl rfl) h (hx x (List.mem_cons_self ..)))
      (fun y hy => hx y (List.mem_cons_of_mem _ hy))

theorem can_chain_mul {sp : Bool} : ∀ (xs : List CE) (acc : CE), Can 2 acc → (∀ x ∈ xs, Can 3 x) →
    Can 2 (chain '*' sp acc xs)
  | [], acc, h, _ => h
  | x :: xs, acc, h, hx =>
    can_chain_mul xs _ (can_bin_mul sp (Or.inl rfl) h (hx x (List.mem_cons_self ..)))
      (fun y hy => hx y (List.mem_cons_of_mem _ hy))

theorem can_mulC {a b : CE} (ha : Can 2 a) (hb : Can 3 b) : Can 2 (mulC a b) :=
  can_bin_mul false (Or.inl rfl) ha hb

theorem can_par_le {L : Nat} {X : CE} (hL : L ≤ 4) (h : Can 0 X) : Can L (.par X) :=
  (can_par_can h).mono hL

theorem can_bin_mul_le {L : Nat} {a b : CE} {op : Char} (hL : L ≤ 2) (sp : Bool)
    (hop : op = '*' ∨ op = '/') (ha : Can 2 a) (hb : Can 3 b) : Can L (.bin op sp a b) :=
  (can_bin_mul sp hop ha hb).mono hL

theorem can_bin_add_le {L : Nat} {a b : CE} {op : Char} (hL : L ≤ 1) (sp : Bool)
    (hop : op = '+' ∨ op = '-') (ha : Can 1 a) (hb : Can 2 b) : Can L (.bin op sp a b) :=
  (can_bin_add sp hop ha hb).mono hL

theorem ok_of_neg {x : CE} (h : Can 3 x) : (CE.neg x).ok = true := by
  rw [ok_neg]
  simp [h.ok, h.lvl, goodHead_skip h.hd]

theorem prim_neg {x : CE} (h : Can 3 x) : Prim (.par (.neg x)) :=
  can_par (ok_of_neg h) (by rw [render_neg]; simp)

theorem can_lit {t : List Char} (hok : (CE.lit t).ok = true) (hd : goodHead t = true) : Can 4 (.lit t) :=
  ⟨hok, by simp [CE.lvl], hd⟩

theorem lit00_ok : (CE.lit ['0', '.', '0']).ok = true := by decide +kernel
theorem lit10_ok : (CE.lit ['1', '.', '0']).ok = true := by decide +kernel

theorem can_lit00 : Can 4 (.lit ['0', '.', '0']) := can_lit lit00_ok (by decide)
theorem can_lit10 : Can 4 (.lit ['1', '.', '0']) := can_lit lit10_ok (by decide)

theorem prim_zeroC : Prim zeroC := can_par_can can_lit00

theorem ok_of_gt0 {c a b : CE} (hc : Can 1 c) (ha : a.ok = true) (hb : b.ok = true) :
    (CE.gt0 c a b).ok = true := by
  rw [ok_gt0]; simp [hc.ok, ha, hb, hc.lvl]

theorem prim_gt0 {c a b : CE} (hc : Can 1 c) (ha : a.ok = true) (hb : b.ok = true) :
    Prim (.par (.gt0 c a b)) :=
  can_par (ok_of_gt0 hc ha hb) (by rw [render_gt0]; exact goodHead_ne_d (goodHead_append hc.hd _))

/-- the C names a `lib` function may carry: identifiers other than `rand`, not starting with `d` -/
def cnameOK (c : String) : Bool := isIdent c.toList && c != "rand" && goodHead c.toList

theorem prim_call {f : String} {a : CE} (hf : cnameOK f = true) (ha : a.ok = true) : Prim (.call f a) := by
  simp only [cnameOK, Bool.and_eq_true] at hf
  refine ⟨?_, by simp [CE.lvl], by rw [render_call]; exact goodHead_append hf.2 _⟩
  rw [ok_call]
  simp [hf.1.1, hf.1.2, ha]

theorem prim_pow {a b : CE} (ha : a.ok = true) (hb : b.ok = true) : Prim (.par (.pow a b)) :=
  can_par (by rw [ok_pow]; simp [ha, hb])
    (by rw [render_pow]; exact goodHead_ne_d (goodHead_append (a := "pow".toList) (by decide) _))

theorem prim_load (k : Nat) : Prim (.par (.load k)) := can_par rfl (by rw [render_load]; simp)

/-! ## Good components -/

/-- a component of the emitter's result: canonical primary term whose C value agrees with `x` -/
def G (env : Env) (e : CE) (x : Rat) : Prop := Prim e ∧ Agree env e x

/-- component-wise `G`, same shape -/
def VG (env : Env) : Val CE → Val Rat → Prop
  | .s e, .s x => G env e x
  | .v e, .v x => G env e.x x.x ∧ G env e.y x.y ∧ G env e.z x.z
  | .t e, .t x =>
    G env e.xx x.xx ∧ G env e.xy x.xy ∧ G env e.xz x.xz ∧ G env e.yx x.yx ∧ G env e.yy x.yy ∧
    G env e.yz x.yz ∧ G env e.zx x.zx ∧ G env e.zy x.zy ∧ G env e.zz x.zz
  | _, _ => False

theorem Can.of4 {e : CE} {L : Nat} (h : Can 4 e) (hl : L ≤ 4 := by decide) : Can L e := h.mono hl

/-- structural proof of `Agree` goals from `Agree` hypotheses -/
macro "agree_tac" : tactic => `(tactic| repeat' (first
  | assumption
  | exact agree_lit00 _
  | exact agree_lit10 _
  | apply Agree.par
  | apply Agree.add
  | apply Agree.sub
  | apply Agree.mul
  | apply Agree.neg))

/-- structural proof of `Can` goals from `Can 4` hypotheses -/
macro "can_tac" : tactic => `(tactic| repeat' (first
  | assumption
  | exact prim_zeroC
  | exact can_lit00
  | exact can_lit10
  | (apply Can.of4 (hl := by decide); assumption)
  | refine can_par_le (by decide) ?_
  | refine can_bin_add_le (by decide) _ (Or.inl rfl) ?_ ?_
  | refine can_bin_add_le (by decide) _ (Or.inr rfl) ?_ ?_
  | refine can_bin_mul_le (by decide) _ (Or.inl rfl) ?_ ?_
  | refine can_bin_mul_le (by decide) _ (Or.inr rfl) ?_ ?_))

theorem g_add {env a b x y} (ha : G env a x) (hb : G env b y) :
    G env (.par (.bin '+' false a b)) (x + y) := by
  obtain ⟨pa, aa⟩ := ha; obtain ⟨pb, ab⟩ := hb
  exact ⟨by can_tac, by agree_tac⟩

theorem g_sub {env a b x y} (ha : G env a x) (hb : G env b y) :
    G env (.par (.bin '-' false a b)) (x - y) := by
  obtain ⟨pa, aa⟩ := ha; obtain ⟨pb, ab⟩ := hb
  exact ⟨by can_tac, by agree_tac⟩

theorem g_mul {env a b x y} (ha : G env a x) (hb : G env b y) :
    G env (.par (mulC a b)) (x * y) := by
  obtain ⟨pa, aa⟩ := ha; obtain ⟨pb, ab⟩ := hb
  exact ⟨by can_tac, by unfold mulC; agree_tac⟩

theorem g_div {env a b x y} (ha : G env a x) (hb : G env b y) (hy : y ≠ 0) :
    G env (.par (.bin '/' false a b)) (x / y) := by
  obtain ⟨pa, aa⟩ := ha; obtain ⟨pb, ab⟩ := hb
  exact ⟨by can_tac, Agree.par (Agree.div false aa ab hy)⟩

theorem g_neg {env a x} (ha : G env a x) : G env (.par (.neg a)) (-x) :=
  ⟨prim_neg ha.1.of4, Agree.par ha.2.neg⟩

theorem g_par {env a x} (ha : G env a x) : G env (.par a) x :=
  ⟨can_par_can ha.1, Agree.par ha.2⟩

theorem g_zero (env : Env) : G env zeroC 0 := ⟨prim_zeroC, Agree.par (agree_lit00 env)⟩

theorem g_sum3 {env a0 a1 a2 b0 b1 b2 x0 x1 x2 y0 y1 y2}
    (h0 : G env a0 x0) (h1 : G env a1 x1) (h2 : G env a2 x2)
    (k0 : G env b0 y0) (k1 : G env b1 y1) (k2 : G env b2 y2) :
    G env (.par (chain '+' false (mulC a0 b0) [mulC a1 b1, mulC a2 b2]))
      (x0 * y0 + x1 * y1 + x2 * y2) := by
  obtain ⟨p0, q0⟩ := h0; obtain ⟨p1, q1⟩ := h1; obtain ⟨p2, q2⟩ := h2
  obtain ⟨r0, s0⟩ := k0; obtain ⟨r1, s1⟩ := k1; obtain ⟨r2, s2⟩ := k2
  simp only [chain, mulC]
  exact ⟨by can_tac, by agree_tac⟩

theorem g_det {env} {a : M9 CE} {v : M9 Rat} (h : VG env (.t a) (.t v)) : G env (detC a) (det9 v) := by
  obtain ⟨⟨p0, q0⟩, ⟨p1, q1⟩, ⟨p2, q2⟩, ⟨p3, q3⟩, ⟨p4, q4⟩, ⟨p5, q5⟩, ⟨p6, q6⟩, ⟨p7, q7⟩, ⟨p8, q8⟩⟩ := h
  simp only [detC, mulC, det9]
  exact ⟨by can_tac, by agree_tac⟩

/-! ## The binary operators -/

theorem divRat_ok {x b y : Rat} (h : divRat x b = .ok y) : b ≠ 0 ∧ y = x / b := by
  unfold divRat at h
  split at h
  · cases h
  · injection h with h; exact ⟨‹_›, h.symm⟩

theorem emitBin_add_good {env : Env} {ca cb : Val CE} {va vb : Val Rat} {c v}
    (ha : VG env ca va) (hb : VG env cb vb)
    (hc : emitBin .add ca cb = .ok c) (hv : evalBin env .add va vb = .ok v) : VG env c v := by
  cases ca <;> cases va <;> (try exact ha.elim) <;>
  cases cb <;> cases vb <;> (try exact hb.elim) <;>
  simp [emitBin, evalBin, Val.zipM, V3.zip, V3.mapM, M9.zip, M9.mapM, bind, Except.bind, pure, Except.pure] at hc hv
  all_goals (subst hc; subst hv)
  · exact g_add ha hb
  · exact ⟨g_add ha.1 hb.1, g_add ha.2.1 hb.2.1, g_add ha.2.2 hb.2.2⟩
  · obtain ⟨a0, a1, a2, a3, a4, a5, a6, a7, a8⟩ := ha
    obtain ⟨b0, b1, b2, b3, b4, b5, b6, b7, b8⟩ := hb
    exact ⟨g_add a0 b0, g_add a1 b1, g_add a2 b2, g_add a3 b3, g_add a4 b4, g_add a5 b5,
      g_add a6 b6, g_add a7 b7, g_add a8 b8⟩

theorem emitBin_sub_good {env : Env} {ca cb : Val CE} {va vb : Val Rat} {c v}
    (ha : VG env ca va) (hb : VG env cb vb)
    (hc : emitBin .sub ca cb = .ok c) (hv : evalBin env .sub va vb = .ok v) : VG env c v := by
  cases ca <;> cases va <;> (try exact ha.elim) <;>
  cases cb <;> cases vb <;> (try exact hb.elim) <;>
  simp [emitBin, evalBin, Val.zipM, V3.zip, V3.mapM, M9.zip, M9.mapM, bind, Except.bind, pure, Except.pure] at hc hv
  all_goals (subst hc; subst hv)
  · exact g_sub ha hb
  · exact ⟨g_sub ha.1 hb.1, g_sub ha.2.1 hb.2.1, g_sub ha.2.2 hb.2.2⟩
  · obtain ⟨a0, a1, a2, a3, a4, a5, a6, a7, a8⟩ := ha
    obtain ⟨b0, b1, b2, b3, b4, b5, b6, b7, b8⟩ := hb
    exact ⟨g_sub a0 b0, g_sub a1 b1, g_sub a2 b2, g_sub a3 b3, g_sub a4 b4, g_sub a5 b5,
      g_sub a6 b6, g_sub a7 b7, g_sub a8 b8⟩

theorem emitBin_mul_good {env : Env} {ca cb : Val CE} {va vb : Val Rat} {c v}
    (ha : VG env ca va) (hb : VG env cb vb)
    (hc : emitBin .mul ca cb = .ok c) (hv : evalBin env .mul va vb = .ok v) : VG env c v := by
  cases ca <;> cases va <;> (try exact ha.elim) <;>
  cases cb <;> cases vb <;> (try exact hb.elim) <;>
  simp [emitBin, evalBin, Val.zipM, Val.map, V3.map, M9.map, V3.zip, V3.mapM, M9.zip, M9.mapM, bind,
    Except.bind, pure, Except.pure] at hc hv
  all_goals (subst hc; subst hv)
  · exact g_mul ha hb
  · exact ⟨g_mul ha hb.1, g_mul ha hb.2.1, g_mul ha hb.2.2⟩
  · obtain ⟨b0, b1, b2, b3, b4, b5, b6, b7, b8⟩ := hb
    exact ⟨g_mul ha b0, g_mul ha b1, g_mul ha b2, g_mul ha b3, g_mul ha b4, g_mul ha b5,
      g_mul ha b6, g_mul ha b7, g_mul ha b8⟩
  · exact ⟨g_mul hb ha.1, g_mul hb ha.2.1, g_mul hb ha.2.2⟩
  · exact ⟨g_mul ha.1 hb.1, g_mul ha.2.1 hb.2.1, g_mul ha.2.2 hb.2.2⟩
  · obtain ⟨a0, a1, a2, a3, a4, a5, a6, a7, a8⟩ := ha
    exact ⟨g_mul hb a0, g_mul hb a1, g_mul hb a2, g_mul hb a3, g_mul hb a4, g_mul hb a5,
      g_mul hb a6, g_mul hb a7, g_mul hb a8⟩
  · obtain ⟨a0, a1, a2, a3, a4, a5, a6, a7, a8⟩ := ha
    obtain ⟨b0, b1, b2, b3, b4, b5, b6, b7, b8⟩ := hb
    exact ⟨g_mul a0 b0, g_mul a1 b1, g_mul a2 b2, g_mul a3 b3, g_mul a4 b4, g_mul a5 b5,
      g_mul a6 b6, g_mul a7 b7, g_mul a8 b8⟩

theorem V3.mapM_ok {α β ε : Type} {f : α → Except ε β} {a : V3 α} {r : V3 β} (h : a.mapM f = .ok r) :
    f a.x = .ok r.x ∧ f a.y = .ok r.y ∧ f a.z = .ok r.z := by
  unfold V3.mapM at h
  cases hx : f a.x with
  | error e => simp [hx, bind, Except.bind] at h
  | ok x =>
    cases hy : f a.y with
    | error e => simp [hx, hy, bind, Except.bind] at h
    | ok y =>
      cases hz : f a.z with
      | error e => simp [hx, hy, hz, bind, Except.bind] at h
      | ok z =>
        simp [hx, hy, hz, bind, Except.bind, pure, Except.pure] at h
        subst h; exact ⟨rfl, rfl, rfl⟩

theorem M9.mapM_ok {α β ε : Type} {f : α → Except ε β} {a : M9 α} {r : M9 β} (h : a.mapM f = .ok r) :
    f a.xx = .ok r.xx ∧ f a.xy = .ok r.xy ∧ f a.xz = .ok r.xz ∧ f a.yx = .ok r.yx ∧
    f a.yy = .ok r.yy ∧ f a.yz = .ok r.yz ∧ f a.zx = .ok r.zx ∧ f a.zy = .ok r.zy ∧
    f a.zz = .ok r.zz := by
  unfold M9.mapM at h
  cases h0 : f a.xx with
  | error e => simp [h0, bind, Except.bind] at h
  | ok x0 =>
  cases h1 : f a.xy with
  | error e => simp [h0, h1, bind, Except.bind] at h
  | ok x1 =>
  cases h2 : f a.xz with
  | error e => simp [h0, h1, h2, bind, Except.bind] at h
  | ok x2 =>
  cases h3 : f a.yx with
  | error e => simp [h0, h1, h2, h3, bind, Except.bind] at h
  | ok x3 =>
  cases h4 : f a.yy with
  | error e => simp [h0, h1, h2, h3, h4, bind, Except.bind] at h
  | ok x4 =>
  cases h5 : f a.yz with
  | error e => simp [h0, h1, h2, h3, h4, h5, bind, Except.bind] at h
  | ok x5 =>
  cases h6 : f a.zx with
  | error e => simp [h0, h1, h2, h3, h4, h5, h6, bind, Except.bind] at h
  | ok x6 =>
  cases h7 : f a.zy with
  | error e => simp [h0, h1, h2, h3, h4, h5, h6, h7, bind, Except.bind] at h
  | ok x7 =>
  cases h8 : f a.zz with
  | error e => simp [h0, h1, h2, h3, h4, h5, h6, h7, h8, bind, Except.bind] at h
  | ok x8 =>
    simp [h0, h1, h2, h3, h4, h5, h6, h7, h8, bind, Except.bind, pure, Except.pure] at h
    subst h; exact ⟨rfl, rfl, rfl, rfl, rfl, rfl, rfl, rfl, rfl⟩

theorem bind_ok {α β ε : Type} {x : Except ε α} {f : α → Except ε β} {r : β}
    (h : (x >>= f) = .ok r) : ∃ a, x = .ok a ∧ f a = .ok r := by
  cases x with
  | error e => simp [bind, Except.bind] at h
  | ok a => exact ⟨a, rfl, h⟩

theorem emitBin_div_good {env : Env} {ca cb : Val CE} {va vb : Val Rat} {c v}
    (ha : VG env ca va) (hb : VG env cb vb)
    (hc : emitBin .div ca cb = .ok c) (hv : evalBin env .div va vb = .ok v) : VG env c v := by
  cases ca <;> cases va <;> (try exact ha.elim) <;>
  cases cb <;> cases vb <;> (try exact hb.elim) <;>
  simp only [emitBin, evalBin, Val.zipM, Val.map, Val.mapM, V3.map, M9.map] at hc hv <;>
  (try cases hv)
  -- scalar / scalar
  · injection hc with hc; subst hc
    obtain ⟨y, hy, hv⟩ := bind_ok hv
    injection hv with hv; subst hv
    obtain ⟨h0, rfl⟩ := divRat_ok hy
    exact g_div ha hb h0
  -- vector / scalar
  · injection hc with hc; subst hc
    obtain ⟨y, hy, hv⟩ := bind_ok hv
    injection hv with hv; subst hv
    obtain ⟨h0, h1, h2⟩ := V3.mapM_ok hy
    obtain ⟨n0, e0⟩ := divRat_ok h0
    obtain ⟨_, e1⟩ := divRat_ok h1
    obtain ⟨_, e2⟩ := divRat_ok h2
    refine ⟨?_, ?_, ?_⟩
    · rw [e0]; exact g_div ha.1 hb n0
    · rw [e1]; exact g_div ha.2.1 hb n0
    · rw [e2]; exact g_div ha.2.2 hb n0
  -- vector / vector
  · obtain ⟨y, hy, hv⟩ := bind_ok hv
    injection hv with hv; subst hv
    obtain ⟨y', hy', hc⟩ := bind_ok hc
    injection hc with hc; subst hc
    obtain ⟨h0, h1, h2⟩ := V3.mapM_ok hy
    obtain ⟨k0, k1, k2⟩ := V3.mapM_ok hy'
    simp only [V3.zip, id] at h0 h1 h2 k0 k1 k2
    injection k0 with k0; injection k1 with k1; injection k2 with k2
    obtain ⟨n0, e0⟩ := divRat_ok h0
    obtain ⟨n1, e1⟩ := divRat_ok h1
    obtain ⟨n2, e2⟩ := divRat_ok h2
    refine ⟨?_, ?_, ?_⟩
    · rw [e0, ← k0]; exact g_div ha.1 hb.1 n0
    · rw [e1, ← k1]; exact g_div ha.2.1 hb.2.1 n1
    · rw [e2, ← k2]; exact g_div ha.2.2 hb.2.2 n2
  -- tensor / scalar
  · injection hc with hc; subst hc
    obtain ⟨y, hy, hv⟩ := bind_ok hv
    injection hv with hv; subst hv
    obtain ⟨h0, h1, h2, h3, h4, h5, h6, h7, h8⟩ := M9.mapM_ok hy
    obtain ⟨n0, e0⟩ := divRat_ok h0
    obtain ⟨_, e1⟩ := divRat_ok h1
    obtain ⟨_, e2⟩ := divRat_ok h2
    obtain ⟨_, e3⟩ := divRat_ok h3
    obtain ⟨_, e4⟩ := divRat_ok h4
    obtain ⟨_, e5⟩ := divRat_ok h5
    obtain ⟨_, e6⟩ := divRat_ok h6
    obtain ⟨_, e7⟩ := divRat_ok h7
    obtain ⟨_, e8⟩ := divRat_ok h8
    obtain ⟨a0, a1, a2, a3, a4, a5, a6, a7, a8⟩ := ha
    refine ⟨?_, ?_, ?_, ?_, ?_, ?_, ?_, ?_, ?_⟩
    · rw [e0]; exact g_div a0 hb n0
    · rw [e1]; exact g_div a1 hb n0
    · rw [e2]; exact g_div a2 hb n0
    · rw [e3]; exact g_div a3 hb n0
    · rw [e4]; exact g_div a4 hb n0
    · rw [e5]; exact g_div a5 hb n0
    · rw [e6]; exact g_div a6 hb n0
    · rw [e7]; exact g_div a7 hb n0
    · rw [e8]; exact g_div a8 hb n0
  -- tensor / tensor
  · obtain ⟨y, hy, hv⟩ := bind_ok hv
    injection hv with hv; subst hv
    obtain ⟨y', hy', hc⟩ := bind_ok hc
    injection hc with hc; subst hc
    obtain ⟨h0, h1, h2, h3, h4, h5, h6, h7, h8⟩ := M9.mapM_ok hy
    obtain ⟨k0, k1, k2, k3, k4, k5, k6, k7, k8⟩ := M9.mapM_ok hy'
    simp only [M9.zip, id] at h0 h1 h2 h3 h4 h5 h6 h7 h8 k0 k1 k2 k3 k4 k5 k6 k7 k8
    injection k0 with k0; injection k1 with k1; injection k2 with k2
    injection k3 with k3; injection k4 with k4; injection k5 with k5
    injection k6 with k6; injection k7 with k7; injection k8 with k8
    obtain ⟨n0, e0⟩ := divRat_ok h0
    obtain ⟨n1, e1⟩ := divRat_ok h1
    obtain ⟨n2, e2⟩ := divRat_ok h2
    obtain ⟨n3, e3⟩ := divRat_ok h3
    obtain ⟨n4, e4⟩ := divRat_ok h4
    obtain ⟨n5, e5⟩ := divRat_ok h5
    obtain ⟨n6, e6⟩ := divRat_ok h6
    obtain ⟨n7, e7⟩ := divRat_ok h7
    obtain ⟨n8, e8⟩ := divRat_ok h8
    obtain ⟨a0, a1, a2, a3, a4, a5, a6, a7, a8⟩ := ha
    obtain ⟨b0, b1, b2, b3, b4, b5, b6, b7, b8⟩ := hb
    refine ⟨?_, ?_, ?_, ?_, ?_, ?_, ?_, ?_, ?_⟩
    · rw [e0, ← k0]; exact g_div a0 b0 n0
    · rw [e1, ← k1]; exact g_div a1 b1 n1
    · rw [e2, ← k2]; exact g_div a2 b2 n2
    · rw [e3, ← k3]; exact g_div a3 b3 n3
    · rw [e4, ← k4]; exact g_div a4 b4 n4
    · rw [e5, ← k5]; exact g_div a5 b5 n5
    · rw [e6, ← k6]; exact g_div a6 b6 n6
    · rw [e7, ← k7]; exact g_div a7 b7 n7
    · rw [e8, ← k8]; exact g_div a8 b8 n8

theorem g_sum9 {env} {a b : M9 CE} {x y : M9 Rat} (ha : VG env (.t a) (.t x)) (hb : VG env (.t b) (.t y)) :
    G env (.par (chain '+' false (mulC a.xx b.xx)
      [mulC a.xy b.xy, mulC a.xz b.xz, mulC a.yx b.yx, mulC a.yy b.yy, mulC a.yz b.yz,
       mulC a.zx b.zx, mulC a.zy b.zy, mulC a.zz b.zz])) (dot9 x y) := by
  obtain ⟨⟨p0, q0⟩, ⟨p1, q1⟩, ⟨p2, q2⟩, ⟨p3, q3⟩, ⟨p4, q4⟩, ⟨p5, q5⟩, ⟨p6, q6⟩, ⟨p7, q7⟩, ⟨p8, q8⟩⟩ := ha
  obtain ⟨⟨r0, s0⟩, ⟨r1, s1⟩, ⟨r2, s2⟩, ⟨r3, s3⟩, ⟨r4, s4⟩, ⟨r5, s5⟩, ⟨r6, s6⟩, ⟨r7, s7⟩, ⟨r8, s8⟩⟩ := hb
  simp only [chain, mulC, dot9]
  exact ⟨by can_tac, by agree_tac⟩

theorem g_dotEntry {env a0 a1 a2 b0 b1 b2 x0 x1 x2 y0 y1 y2}
    (h0 : G env a0 x0) (h1 : G env a1 x1) (h2 : G env a2 x2)
    (k0 : G env b0 y0) (k1 : G env b1 y1) (k2 : G env b2 y2) :
    G env (dotEntryC a0 a1 a2 b0 b1 b2) (x0 * y0 + x1 * y1 + x2 * y2) := by
  obtain ⟨p0, q0⟩ := h0; obtain ⟨p1, q1⟩ := h1; obtain ⟨p2, q2⟩ := h2
  obtain ⟨r0, s0⟩ := k0; obtain ⟨r1, s1⟩ := k1; obtain ⟨r2, s2⟩ := k2
  simp only [dotEntryC, chain, mulC]
  exact ⟨by can_tac, by agree_tac⟩

theorem emitBin_contract_good {env : Env} {ca cb : Val CE} {va vb : Val Rat} {c v}
    (ha : VG env ca va) (hb : VG env cb vb)
    (hc : emitBin .contract ca cb = .ok c) (hv : evalBin env .contract va vb = .ok v) : VG env c v := by
  cases ca <;> cases va <;> (try exact ha.elim) <;>
  cases cb <;> cases vb <;> (try exact hb.elim) <;>
  simp only [emitBin, evalBin, contractC, V3.toList, M9.toList, List.zipWith, bind, Except.bind, pure,
    Except.pure] at hc hv <;>
  (try cases hv) <;> (try cases hc)
  · exact g_sum3 ha.1 ha.2.1 ha.2.2 hb.1 hb.2.1 hb.2.2
  · exact ⟨g_sum3 ha.1 ha.2.1 ha.2.2.1 hb.1 hb.2.1 hb.2.2,
      g_sum3 ha.2.2.2.1 ha.2.2.2.2.1 ha.2.2.2.2.2.1 hb.1 hb.2.1 hb.2.2,
      g_sum3 ha.2.2.2.2.2.2.1 ha.2.2.2.2.2.2.2.1 ha.2.2.2.2.2.2.2.2 hb.1 hb.2.1 hb.2.2⟩
  · exact g_sum9 ha hb

theorem emitBin_dot_good {env : Env} {ca cb : Val CE} {va vb : Val Rat} {c v}
    (ha : VG env ca va) (hb : VG env cb vb)
    (hc : emitBin .dot ca cb = .ok c) (hv : evalBin env .dot va vb = .ok v) : VG env c v := by
  cases ca <;> cases va <;> (try exact ha.elim) <;>
  cases cb <;> cases vb <;> (try exact hb.elim) <;>
  simp only [emitBin, evalBin] at hc hv <;>
  (try cases hv) <;> (try cases hc)
  obtain ⟨a0, a1, a2, a3, a4, a5, a6, a7, a8⟩ := ha
  obtain ⟨b0, b1, b2, b3, b4, b5, b6, b7, b8⟩ := hb
  exact ⟨g_dotEntry a0 a1 a2 b0 b3 b6, g_dotEntry a0 a1 a2 b1 b4 b7, g_dotEntry a0 a1 a2 b2 b5 b8,
    g_dotEntry a3 a4 a5 b0 b3 b6, g_dotEntry a3 a4 a5 b1 b4 b7, g_dotEntry a3 a4 a5 b2 b5 b8,
    g_dotEntry a6 a7 a8 b0 b3 b6, g_dotEntry a6 a7 a8 b1 b4 b7, g_dotEntry a6 a7 a8 b2 b5 b8⟩

theorem emitBin_outer_good {env : Env} {ca cb : Val CE} {va vb : Val Rat} {c v}
    (ha : VG env ca va) (hb : VG env cb vb)
    (hc : emitBin .outer ca cb = .ok c) (hv : evalBin env .outer va vb = .ok v) : VG env c v := by
  cases ca <;> cases va <;> (try exact ha.elim) <;>
  cases cb <;> cases vb <;> (try exact hb.elim) <;>
  simp only [emitBin, evalBin] at hc hv <;>
  (try cases hv) <;> (try cases hc)
  exact ⟨g_mul ha.1 hb.1, g_mul ha.1 hb.2.1, g_mul ha.1 hb.2.2,
    g_mul ha.2.1 hb.1, g_mul ha.2.1 hb.2.1, g_mul ha.2.1 hb.2.2,
    g_mul ha.2.2 hb.1, g_mul ha.2.2 hb.2.1, g_mul ha.2.2 hb.2.2⟩

/-- every binary operator except `^` -/
theorem emitBin_good {env : Env} {op : BinOp} {ca cb : Val CE} {va vb : Val Rat} {c v}
    (ha : VG env ca va) (hb : VG env cb vb)
    (hc : emitBin op ca cb = .ok c) (hv : evalBin env op va vb = .ok v) : VG env c v := by
  cases op with
  | add => exact emitBin_add_good ha hb hc hv
  | sub => exact emitBin_sub_good ha hb hc hv
  | mul => exact emitBin_mul_good ha hb hc hv
  | div => exact emitBin_div_good ha hb hc hv
  | contract => exact emitBin_contract_good ha hb hc hv
  | dot => exact emitBin_dot_good ha hb hc hv
  | outer => exact emitBin_outer_good ha hb hc hv
  | pow => simp [emitBin] at hc

/-! ## The unary functions -/

theorem g_call {env a x y} {f : String} (hf : cnameOK f = true) (ha : G env a x)
    (hy : libFn env f x = .ok y) : G env (.call f a) y :=
  ⟨prim_call hf ha.1.ok, Agree.call f ha.2 hy⟩

theorem g_sq {env a x} (ha : G env a x) :
    Can 4 (CE.par (mulC (.par a) (.par a))) ∧ Agree env (CE.par (mulC (.par a) (.par a))) (x * x) := by
  obtain ⟨p, q⟩ := ha
  simp only [mulC]
  exact ⟨by can_tac, by agree_tac⟩

theorem g_step {env a x} (ha : G env a x) :
    G env (.par (.gt0 (.par a) (.lit ['1', '.', '0']) (.lit ['0', '.', '0']))) (stepRat x) := by
  refine ⟨prim_gt0 ((can_par_can ha.1).of4) lit10_ok lit00_ok, Agree.par ?_⟩
  exact Agree.gt0 (Agree.par ha.2) (agree_lit10 env) (agree_lit00 env)

theorem g_stpVal {env a x} (ha : G env a x) :
    G env (.par (.gt0 (.par a) (.par a) (.lit ['0', '.', '0']))) (stpValRat x) := by
  refine ⟨prim_gt0 ((can_par_can ha.1).of4) (can_par_can ha.1).ok lit00_ok, Agree.par ?_⟩
  exact Agree.gt0 (Agree.par ha.2) (Agree.par ha.2) (agree_lit00 env)

theorem g_trace {env a b c x y z} (ha : G env a x) (hb : G env b y) (hc : G env c z) :
    G env (.par (chain '+' true a [b, c])) (x + y + z) := by
  obtain ⟨p0, q0⟩ := ha; obtain ⟨p1, q1⟩ := hb; obtain ⟨p2, q2⟩ := hc
  simp only [chain]
  exact ⟨by can_tac, by agree_tac⟩

theorem g_q1 {env a x} (ha : G env a x) :
    G env (.par (chain '+' true (CE.par (mulC (.par a) (.par a))) [])) (x * x) := by
  obtain ⟨p, q⟩ := g_sq ha
  simp only [chain]
  exact ⟨by can_tac, by agree_tac⟩

theorem g_q3 {env a b c x y z} (ha : G env a x) (hb : G env b y) (hc : G env c z) :
    G env (.par (chain '+' true (CE.par (mulC (.par a) (.par a)))
      [CE.par (mulC (.par b) (.par b)), CE.par (mulC (.par c) (.par c))])) (x * x + y * y + z * z) := by
  obtain ⟨p0, q0⟩ := g_sq ha; obtain ⟨p1, q1⟩ := g_sq hb; obtain ⟨p2, q2⟩ := g_sq hc
  simp only [chain]
  exact ⟨by can_tac, by agree_tac⟩

theorem g_q9 {env} {a : M9 CE} {x : M9 Rat} (h : VG env (.t a) (.t x)) :
    G env (.par (chain '+' true (CE.par (mulC (.par a.xx) (.par a.xx)))
      [CE.par (mulC (.par a.xy) (.par a.xy)), CE.par (mulC (.par a.xz) (.par a.xz)),
       CE.par (mulC (.par a.yx) (.par a.yx)), CE.par (mulC (.par a.yy) (.par a.yy)),
       CE.par (mulC (.par a.yz) (.par a.yz)), CE.par (mulC (.par a.zx) (.par a.zx)),
       CE.par (mulC (.par a.zy) (.par a.zy)), CE.par (mulC (.par a.zz) (.par a.zz))])) (dot9 x x) := by
  obtain ⟨h0, h1, h2, h3, h4, h5, h6, h7, h8⟩ := h
  obtain ⟨p0, q0⟩ := g_sq h0; obtain ⟨p1, q1⟩ := g_sq h1; obtain ⟨p2, q2⟩ := g_sq h2
  obtain ⟨p3, q3⟩ := g_sq h3; obtain ⟨p4, q4⟩ := g_sq h4; obtain ⟨p5, q5⟩ := g_sq h5
  obtain ⟨p6, q6⟩ := g_sq h6; obtain ⟨p7, q7⟩ := g_sq h7; obtain ⟨p8, q8⟩ := g_sq h8
  simp only [chain, dot9]
  exact ⟨by can_tac, by agree_tac⟩

theorem emitFn_lib_good {env : Env} {n cn : String} {ca : Val CE} {va : Val Rat} {c v}
    (hf : cnameOK cn = true) (ha : VG env ca va)
    (hc : emitFn (.lib n cn) ca = .ok c) (hv : evalFn env (.lib n cn) va = .ok v) : VG env c v := by
  cases ca <;> cases va <;> (try exact ha.elim) <;>
  simp only [emitFn, evalFn, Val.map, Val.mapM, V3.map, M9.map] at hc hv
  · injection hc with hc; subst hc
    obtain ⟨y, hy, hv⟩ := bind_ok hv
    injection hv with hv; subst hv
    exact g_call hf ha hy
  · injection hc with hc; subst hc
    obtain ⟨y, hy, hv⟩ := bind_ok hv
    injection hv with hv; subst hv
    obtain ⟨h0, h1, h2⟩ := V3.mapM_ok hy
    exact ⟨g_call hf ha.1 h0, g_call hf ha.2.1 h1, g_call hf ha.2.2 h2⟩
  · injection hc with hc; subst hc
    obtain ⟨y, hy, hv⟩ := bind_ok hv
    injection hv with hv; subst hv
    obtain ⟨h0, h1, h2, h3, h4, h5, h6, h7, h8⟩ := M9.mapM_ok hy
    obtain ⟨a0, a1, a2, a3, a4, a5, a6, a7, a8⟩ := ha
    exact ⟨g_call hf a0 h0, g_call hf a1 h1, g_call hf a2 h2, g_call hf a3 h3, g_call hf a4 h4,
      g_call hf a5 h5, g_call hf a6 h6, g_call hf a7 h7, g_call hf a8 h8⟩

/-- a function node is well formed if a `lib` function carries an admissible C name -/
def Fn.wf : Fn → Bool
  | .lib _ c => cnameOK c
  | _ => true

theorem emitFn_good {env : Env} {f : Fn} {ca : Val CE} {va : Val Rat} {c v}
    (hf : f.wf = true) (ha : VG env ca va)
    (hc : emitFn f ca = .ok c) (hv : evalFn env f va = .ok v) : VG env c v := by
  cases f with
  | lib n cn => exact emitFn_lib_good hf ha hc hv
  | uran => simp [evalFn] at hv
  | det =>
    cases ca <;> cases va <;> (try exact ha.elim) <;> simp only [emitFn, evalFn] at hc hv <;>
      (try cases hv) <;> (try cases hc)
    exact g_det ha
  | diagMat =>
    cases ca <;> cases va <;> (try exact ha.elim) <;> simp only [emitFn, evalFn] at hc hv <;>
      (try cases hv) <;> (try cases hc)
    exact ⟨g_par ha.1, g_zero env, g_zero env, g_zero env, g_par ha.2.1, g_zero env, g_zero env,
      g_zero env, g_par ha.2.2⟩
  | idVec =>
    cases ca <;> cases va <;> (try exact ha.elim) <;> simp only [emitFn, evalFn] at hc hv <;>
      (try cases hv) <;> (try cases hc)
    exact ⟨g_par ha, g_par ha, g_par ha⟩
  | idMat =>
    cases ca <;> cases va <;> (try exact ha.elim) <;> simp only [emitFn, evalFn] at hc hv <;>
      (try cases hv) <;> (try cases hc)
    exact ⟨g_par ha, g_zero env, g_zero env, g_zero env, g_par ha, g_zero env, g_zero env,
      g_zero env, g_par ha⟩
  | Q =>
    cases ca <;> cases va <;> (try exact ha.elim) <;>
      simp only [emitFn, evalFn, qC, Val.toList, V3.toList, M9.toList, List.map, bind, Except.bind,
        pure, Except.pure] at hc hv <;>
      (try cases hv) <;> (try cases hc)
    · exact g_q1 ha
    · exact g_q3 ha.1 ha.2.1 ha.2.2
    · exact g_q9 ha
  | step =>
    cases ca <;> cases va <;> (try exact ha.elim) <;>
      simp only [emitFn, evalFn, Val.map, V3.map, M9.map] at hc hv <;>
      (try cases hv) <;> (try cases hc)
    · exact g_step ha
    · exact ⟨g_step ha.1, g_step ha.2.1, g_step ha.2.2⟩
    · obtain ⟨a0, a1, a2, a3, a4, a5, a6, a7, a8⟩ := ha
      exact ⟨g_step a0, g_step a1, g_step a2, g_step a3, g_step a4, g_step a5, g_step a6,
        g_step a7, g_step a8⟩
  | stpVal =>
    cases ca <;> cases va <;> (try exact ha.elim) <;>
      simp only [emitFn, evalFn, Val.map, V3.map, M9.map] at hc hv <;>
      (try cases hv) <;> (try cases hc)
    · exact g_stpVal ha
    · exact ⟨g_stpVal ha.1, g_stpVal ha.2.1, g_stpVal ha.2.2⟩
    · obtain ⟨a0, a1, a2, a3, a4, a5, a6, a7, a8⟩ := ha
      exact ⟨g_stpVal a0, g_stpVal a1, g_stpVal a2, g_stpVal a3, g_stpVal a4, g_stpVal a5,
        g_stpVal a6, g_stpVal a7, g_stpVal a8⟩
  | T =>
    cases ca <;> cases va <;> (try exact ha.elim) <;> simp only [emitFn, evalFn] at hc hv <;>
      (try cases hv) <;> (try cases hc)
    obtain ⟨a0, a1, a2, a3, a4, a5, a6, a7, a8⟩ := ha
    exact ⟨g_par a0, g_par a3, g_par a6, g_par a1, g_par a4, g_par a7, g_par a2, g_par a5, g_par a8⟩
  | trace =>
    cases ca <;> cases va <;> (try exact ha.elim) <;> simp only [emitFn, evalFn] at hc hv <;>
      (try cases hv) <;> (try cases hc)
    exact g_trace ha.1 ha.2.2.2.2.1 ha.2.2.2.2.2.2.2.2
  | unitMat =>
    cases ca <;> cases va <;> (try exact ha.elim) <;> simp only [emitFn, evalFn] at hc hv <;>
      (try cases hv) <;> (try cases hc)
    exact ⟨g_par ha, g_par ha, g_par ha, g_par ha, g_par ha, g_par ha, g_par ha, g_par ha, g_par ha⟩
  | uVecX =>
    cases ca <;> cases va <;> (try exact ha.elim) <;> simp only [emitFn, evalFn] at hc hv <;>
      (try cases hv) <;> (try cases hc)
    exact ⟨g_par ha, g_zero env, g_zero env⟩
  | uVecY =>
    cases ca <;> cases va <;> (try exact ha.elim) <;> simp only [emitFn, evalFn] at hc hv <;>
      (try cases hv) <;> (try cases hc)
    exact ⟨g_zero env, g_par ha, g_zero env⟩
  | uVecZ =>
    cases ca <;> cases va <;> (try exact ha.elim) <;> simp only [emitFn, evalFn] at hc hv <;>
      (try cases hv) <;> (try cases hc)
    exact ⟨g_zero env, g_zero env, g_par ha⟩
  | xyMat =>
    cases ca <;> cases va <;> (try exact ha.elim) <;> simp only [emitFn, evalFn] at hc hv <;>
      (try cases hv) <;> (try cases hc)
    obtain ⟨a0, a1, a2, a3, a4, a5, a6, a7, a8⟩ := ha
    exact ⟨g_par a0, g_par a1, g_zero env, g_par a3, g_par a4, g_zero env, g_zero env, g_zero env,
      g_zero env⟩
  | xCoord =>
    cases ca <;> cases va <;> (try exact ha.elim) <;> simp only [emitFn, evalFn] at hc hv <;>
      (try cases hv) <;> (try cases hc)
    exact g_par ha.1
  | yCoord =>
    cases ca <;> cases va <;> (try exact ha.elim) <;> simp only [emitFn, evalFn] at hc hv <;>
      (try cases hv) <;> (try cases hc)
    exact g_par ha.2.1
  | zCoord =>
    cases ca <;> cases va <;> (try exact ha.elim) <;> simp only [emitFn, evalFn] at hc hv <;>
      (try cases hv) <;> (try cases hc)
    exact g_par ha.2.2

/-! ## Leaves -/

theorem natCast_toNat_eq (r : Rat) (h : r.den = 1) (h0 : 0 ≤ r.num) :
    ((r.num.toNat : Nat) : Rat) = r := by
  apply Rat.ext
  · simp; omega
  · simp [h]

theorem rat_pow_ne_zero {x : Rat} (h : x ≠ 0) (m : Nat) : x ^ m ≠ 0 := by
  induction m with
  | zero => simp
  | succ k ih =>
    rw [Rat.pow_succ]
    intro h0
    rcases Rat.mul_eq_zero.mp h0 with h1 | h1
    · exact ih h1
    · exact h h1

theorem spanDigits_append {a rest : List Char} (ha : ∀ c ∈ a, c.isDigit = true)
    (hr : ∀ c tl, rest = c :: tl → c.isDigit = false) : spanDigits (a ++ rest) = (a, rest) := by
  induction a with
  | nil =>
    cases rest with
    | nil => rfl
    | cons c tl => simp [spanDigits, hr c tl rfl]
  | cons c tl ih =>
    have hc : c.isDigit = true := ha c (List.mem_cons_self ..)
    have := ih (fun d hd => ha d (List.mem_cons_of_mem _ hd))
    simp [spanDigits, hc, this]

theorem isDigit_isNumChar {c : Char} (h : c.isDigit = true) : isNumChar c = true := by
  simp [isNumChar, h]

theorem digit_goodHead {c : Char} (h : c.isDigit = true) :
    (!opChar c && c != 'd' && !isSpace c) = true := by
  obtain ⟨hs, h1, h2, _, _⟩ := digit_or_dot_facts (Or.inl h)
  have hop : opChar c = false := by
    simp only [opChar, Bool.or_eq_false_iff, decide_eq_false_iff_not]
    refine ⟨⟨⟨?_, h1⟩, h2⟩, ?_⟩ <;> (intro hc; subst hc; revert h; decide)
  have hd : c ≠ 'd' := by intro hc; subst hc; revert h; decide
  simp [hop, hd, hs]

/-- the text `n.0` of an integral constant -/
theorem decimalVal_intLit (n : Nat) :
    decimalVal (Nat.toDigits 10 n ++ ['.', '0']) = some (n : Rat) := by
  have hdig := isDigit_toDigits n
  obtain ⟨c, tl, hctl⟩ : ∃ c tl, Nat.toDigits 10 n = c :: tl := by
    cases h : Nat.toDigits 10 n with
    | nil => exact absurd h Nat.toDigits_ne_nil
    | cons c tl => exact ⟨c, tl, rfl⟩
  have hall : (Nat.toDigits 10 n ++ ['.', '0']).all isNumChar = true := by
    simp only [List.all_eq_true, List.mem_append]
    rintro d (hd | hd)
    · exact isDigit_isNumChar (hdig d hd)
    · have : d = '.' ∨ d = '0' := by simpa using hd
      rcases this with h | h <;> subst h <;> decide
  have hhead : (Nat.toDigits 10 n ++ ['.', '0']).head?.any (fun c => c.isDigit || c = '.') = true := by
    rw [hctl]
    have : c.isDigit = true := hdig c (by rw [hctl]; exact List.mem_cons_self ..)
    simp [this]
  unfold decimalVal
  rw [hall, hhead]
  simp only [Bool.and_self, if_true]
  unfold decimalCore
  have hsp : spanDigits (Nat.toDigits 10 n ++ ['.', '0']) = (Nat.toDigits 10 n, ['.', '0']) :=
    spanDigits_append hdig (by intro c tl h; injection h with h _; subst h; decide)
  have hsp2 : spanDigits ['0'] = (['0'], []) := by decide
  simp only [hsp, hsp2]
  unfold decimalTail
  have hne : (Nat.toDigits 10 n).isEmpty = false := by rw [hctl]; rfl
  simp only [hne, Bool.false_and, Bool.false_eq_true, if_false]
  have hv : digitsVal (Nat.toDigits 10 n ++ ['0']) = 10 * n + 0 := by
    rw [digitsVal_append_single, digitsVal_toDigits]; rfl
  rw [hv]
  have : ((10 * n + 0 : Nat) : Rat) = 10 * (n : Rat) := by simp
  rw [this]
  simp
  grind

theorem numVal_ok {t : String} {r : Rat} (h : numVal t = .ok r) :
    decimalVal (t.toList.dropWhile isSpace) = some r := by
  unfold numVal classifyNumber at h
  dsimp only at h
  split at h
  next r' hr =>
    split at hr
    next q hq =>
      split at hr
      · cases hr
      · injection hr with hr; subst hr
        injection h with h; subst h
        exact hq
    next hq =>
      split at hr <;> cases hr
  · cases h
  · cases h

theorem g_const {env : Env} {t : String} {r : Rat} (h : numVal t = .ok r) : G env (constC t r) r := by
  have hd := numVal_ok h
  unfold constC
  split
  next hc =>
    obtain ⟨h1, h2, _⟩ := hc
    have hval := decimalVal_intLit r.num.toNat
    rw [natCast_toNat_eq r h1 h2] at hval
    have hok : (CE.lit (Nat.toDigits 10 r.num.toNat ++ ['.', '0'])).ok = true := by
      show (decimalVal ((Nat.toDigits 10 r.num.toNat ++ ['.', '0']).dropWhile isSpace)).isSome = true
      have hdw : (Nat.toDigits 10 r.num.toNat ++ ['.', '0']).dropWhile isSpace =
          Nat.toDigits 10 r.num.toNat ++ ['.', '0'] := by
        cases hx : Nat.toDigits 10 r.num.toNat with
        | nil => exact absurd hx Nat.toDigits_ne_nil
        | cons c tl =>
          have hcd : c.isDigit = true := isDigit_toDigits r.num.toNat c (by rw [hx]; exact List.mem_cons_self ..)
          have := (digit_or_dot_facts (Or.inl hcd)).1
          simp [List.dropWhile, this]
      rw [hdw, hval]; rfl
    have hdw : (Nat.toDigits 10 r.num.toNat ++ ['.', '0']).dropWhile isSpace =
        Nat.toDigits 10 r.num.toNat ++ ['.', '0'] := by
      cases hx : Nat.toDigits 10 r.num.toNat with
      | nil => exact absurd hx Nat.toDigits_ne_nil
      | cons c tl =>
        have hcd : c.isDigit = true := isDigit_toDigits r.num.toNat c (by rw [hx]; exact List.mem_cons_self ..)
        have := (digit_or_dot_facts (Or.inl hcd)).1
        simp [List.dropWhile, this]
    have hgh : goodHead (Nat.toDigits 10 r.num.toNat ++ ['.', '0']) = true := by
      cases hx : Nat.toDigits 10 r.num.toNat with
      | nil => exact absurd hx Nat.toDigits_ne_nil
      | cons c tl =>
        have hcd : c.isDigit = true := isDigit_toDigits r.num.toNat c (by rw [hx]; exact List.mem_cons_self ..)
        exact digit_goodHead hcd
    have hnd : (Nat.toDigits 10 r.num.toNat ++ ['.', '0']).all Char.isDigit = false := by
      rw [List.all_append]
      simp [show ('.' : Char).isDigit = false by decide]
    exact ⟨can_par_can (can_lit hok hgh),
      Agree.par (Agree.lit (by rw [hdw]; exact hval) (by rw [hdw]; exact hnd))⟩
  next =>
    have hok : (CE.lit t.toList).ok = true := by
      show (decimalVal (t.toList.dropWhile isSpace)).isSome = true
      rw [hd]; rfl
    -- the literal does not start with `d`
    have hnd : (CE.lit t.toList).render.head? ≠ some 'd' := by
      show t.toList.head? ≠ some 'd'
      cases ht : t.toList with
      | nil => simp
      | cons c tl =>
        simp only [List.head?_cons, ne_eq, Option.some.injEq]
        intro hc; subst hc
        rw [ht] at hd
        have : List.dropWhile isSpace ('d' :: tl) = 'd' :: tl := by
          rw [List.dropWhile_cons]; simp [show isSpace 'd' = false by decide]
        rw [this] at hd
        obtain ⟨_, c', tl', hctl, hc'⟩ := decimalVal_some hd
        injection hctl with h1 _
        subst h1
        rcases hc' with h | h
        · revert h; decide
        · revert h; decide
    have p1 : Prim (.par (.lit t.toList)) := can_par hok hnd
    have p2 : (CE.castd true (.par (.lit t.toList))).ok = true := by
      rw [ok_castd]; simp [p1.ok, CE.lvl]
    refine ⟨can_par p2 (by rw [render_castd]; simp), ?_⟩
    exact Agree.par (Agree.castd true (evalCX_lit hd))

theorem g_pi {env : Env} {r : Rat} (h : env.piv = .ok r) :
    G env (.par (.castd true (.par .mpi))) r := by
  have p1 : Prim (.par .mpi) := can_par rfl (by decide)
  have p2 : (CE.castd true (.par .mpi)).ok = true := by rw [ok_castd]; simp [p1.ok, CE.lvl]
  exact ⟨can_par p2 (by rw [render_castd]; simp),
    Agree.par (Agree.castd true (evalCX_mpi h))⟩

theorem g_load (env : Env) (slot i : Nat) : G env (loadC slot i) (env.mem (slot + i)) :=
  ⟨prim_load _, Agree.par (Agree.load _)⟩

theorem sym_good {env : Env} {n : String} {c : Val CE} {v : Val Rat}
    (hc : symC env n = .ok c) (hv : env.lookup n = .ok v) : VG env c v := by
  unfold symC at hc
  unfold Env.lookup at hv
  cases hf : env.find n with
  | none => simp [hf] at hc
  | some d =>
    simp only [hf] at hc hv
    cases hty : d.ty <;> simp only [hty] at hc hv <;> cases hc <;> cases hv
    · exact g_load env _ _
    · exact ⟨g_load env _ _, g_load env _ _, g_load env _ _⟩
    · exact ⟨g_load env _ _, g_load env _ _, g_load env _ _, g_load env _ _, g_load env _ _,
        g_load env _ _, g_load env _ _, g_load env _ _, g_load env _ _⟩

/-! ## The power operator -/

theorem lookupNull_ne_ok (env : Env) (n : String) (v : Val Rat) : env.lookupNull n ≠ .ok v := by
  unfold Env.lookupNull
  cases env.find n <;> simp

/-- a constant sub-expression (evaluated without looking at any variable) has the same value in the
interpreter -/
theorem eval_null_ok (env : Env) : ∀ (t : Tree) (v : Val Rat),
    eval env env.lookupNull t = .ok v → eval env env.lookup t = .ok v := by
  intro t
  induction t with
  | sym n => intro v h; exact absurd h (lookupNull_ne_ok env n v)
  | num s => intro v h; exact h
  | pi => intro v h; exact h
  | neg a ih =>
    intro v h
    simp only [eval] at h ⊢
    obtain ⟨va, ha, h⟩ := bind_ok h
    rw [ih va ha]; exact h
  | bin op a b iha ihb =>
    intro v h
    simp only [eval] at h ⊢
    obtain ⟨va, ha, h⟩ := bind_ok h
    obtain ⟨vb, hb, h⟩ := bind_ok h
    rw [iha va ha, ihb vb hb]; exact h
  | fn f a ih =>
    intro v h
    simp only [eval] at h ⊢
    obtain ⟨va, ha, h⟩ := bind_ok h
    rw [ih va ha]; exact h

theorem chain_pow {env : Env} {a : CE} {x : Rat} (pa : Prim a) (qa : Agree env a x) :
    ∀ (k : Nat) (acc : CE) (accv : Rat), Can 2 acc → Agree env acc accv →
      Can 2 (chain '*' false acc (List.replicate k a)) ∧
      Agree env (chain '*' false acc (List.replicate k a)) (accv * x ^ k)
  | 0, acc, accv, hc, hq => by
    simp only [List.replicate, chain, Rat.pow_zero, Rat.mul_one]
    exact ⟨hc, hq⟩
  | k+1, acc, accv, hc, hq => by
    simp only [List.replicate, chain]
    have := chain_pow pa qa k (.bin '*' false acc a) (accv * x)
      (can_bin_mul false (Or.inl rfl) hc pa.of4) (Agree.mul false hq qa)
    have e : accv * x * x ^ k = accv * x ^ (k + 1) := by rw [Rat.pow_succ]; grind
    rw [e] at this
    exact this

theorem powChain_good {env : Env} {a : CE} {x : Rat} (ha : G env a x) (n : Nat) (hn : 1 ≤ n) :
    Can 2 (powChainC a n) ∧ Agree env (powChainC a n) (x ^ n) := by
  obtain ⟨m, rfl⟩ : ∃ m, n = m + 1 := ⟨n - 1, by omega⟩
  have := chain_pow ha.1 ha.2 m a x ha.1.of4 ha.2
  have e : x * x ^ m = x ^ (m + 1) := by rw [Rat.pow_succ]; grind
  rw [e] at this
  simpa [powChainC] using this

theorem powC_good {env : Env} {a b : CE} {x y z : Rat} {vb : Except Err (Val Rat)} {r : CE}
    (ha : G env a x) (hb : G env b y)
    (hvb : ∀ w, vb = .ok w → w = .s y)
    (hc : powC a b vb = .ok r) (hz : powRat env x y = .ok z) : G env r z := by
  have hpow : G env (.par (.pow a b)) z :=
    ⟨prim_pow ha.1.ok hb.1.ok, Agree.par (Agree.pow ha.2 hb.2 hz)⟩
  unfold powC at hc
  split at hc
  · cases hc
  · injection hc with hc; subst hc; exact hpow
  next _ e =>
    have hey : e = y := by
      have := hvb _ rfl
      injection this
    subst hey
    split at hc
    next hrange =>
      obtain ⟨hden, hlo, hhi⟩ := hrange
      split at hc
      · cases hc
      next hmax =>
        unfold powRat at hz
        rw [if_pos hden, if_neg hmax] at hz
        split at hc
        next hpos =>
          injection hc with hc; subst hc
          rw [if_pos (by omega)] at hz
          injection hz with hz; subst hz
          obtain ⟨pc, pq⟩ := powChain_good ha e.num.toNat (by omega)
          exact ⟨can_par_can pc, Agree.par pq⟩
        next hnpos =>
          split at hc
          next hzero =>
            injection hc with hc; subst hc
            rw [if_pos (by omega)] at hz
            injection hz with hz; subst hz
            rw [hzero]
            simp only [Int.toNat_zero, Rat.pow_zero]
            exact ⟨can_par_can can_lit10, Agree.par (agree_lit10 env)⟩
          next hnz =>
            injection hc with hc; subst hc
            rw [if_neg (by omega)] at hz
            split at hz
            · cases hz
            next hx0 =>
              injection hz with hz; subst hz
              obtain ⟨pc, pq⟩ := powChain_good ha (-e.num).toNat (by omega)
              refine ⟨?_, Agree.par (Agree.div false (agree_lit10 env) (Agree.par pq)
                (rat_pow_ne_zero hx0 _))⟩
              exact can_par_can (can_bin_mul_le (L := 0) (by decide) false (Or.inr rfl)
                can_lit10.of4 ((can_par_can pc).of4))
    next =>
      split at hc
      · cases hc
      · injection hc with hc; subst hc; exact hpow
  · cases hc

/-! ## The whole tree -/

/-- every `lib` function of the tree carries an admissible C name (true for all trees `parse` builds:
`parse_wf`) -/
def Tree.wf : Tree → Bool
  | .sym _ => true
  | .num _ => true
  | .pi => true
  | .neg a => a.wf
  | .bin _ a b => a.wf && b.wf
  | .fn f a => f.wf && a.wf

theorem neg_good {env : Env} {ca : Val CE} {va : Val Rat} (h : VG env ca va) :
    VG env (ca.map fun x => .par (.neg x)) (va.map fun x => -x) := by
  cases ca <;> cases va <;> (try exact h.elim)
  · exact g_neg h
  · exact ⟨g_neg h.1, g_neg h.2.1, g_neg h.2.2⟩
  · obtain ⟨a0, a1, a2, a3, a4, a5, a6, a7, a8⟩ := h
    exact ⟨g_neg a0, g_neg a1, g_neg a2, g_neg a3, g_neg a4, g_neg a5, g_neg a6, g_neg a7, g_neg a8⟩

theorem toCE_bin_nonpow {env : Env} {op : BinOp} (hop : op ≠ .pow) (a b : Tree) :
    toCE env (.bin op a b) = (do
      let ca ← toCE env a
      let cb ← toCE env b
      emitBin op ca cb) := by
  cases op <;> first | rfl | exact absurd rfl hop

theorem toCE_bin_pow {env : Env} (a b : Tree) :
    toCE env (.bin .pow a b) = (do
      let ca ← toCE env a
      let cb ← toCE env b
      match ca, cb with
      | .s x, .s y => do let r ← powC x y (eval env env.lookupNull b); pure (.s r)
      | _, _ => .error .type) := rfl

theorem toCE_good (env : Env) : ∀ (t : Tree), t.wf = true → ∀ (c : Val CE) (v : Val Rat),
    toCE env t = .ok c → denote env t = .ok v → VG env c v := by
  intro t
  induction t with
  | sym n =>
    intro _ c v hc hv
    exact sym_good hc hv
  | num s =>
    intro _ c v hc hv
    simp only [toCE, denote, eval] at hc hv
    obtain ⟨r, hr, hc⟩ := bind_ok hc
    obtain ⟨r', hr', hv⟩ := bind_ok hv
    rw [hr] at hr'
    injection hr' with hr'; subst hr'
    injection hc with hc; subst hc
    injection hv with hv; subst hv
    exact g_const hr
  | pi =>
    intro _ c v hc hv
    simp only [toCE, denote, eval] at hc hv
    obtain ⟨r, hr, hv⟩ := bind_ok hv
    injection hc with hc; subst hc
    injection hv with hv; subst hv
    exact g_pi hr
  | neg a ih =>
    intro hwf c v hc hv
    simp only [toCE, denote, eval] at hc hv
    obtain ⟨ca, hca, hc⟩ := bind_ok hc
    obtain ⟨va, hva, hv⟩ := bind_ok hv
    injection hc with hc; subst hc
    injection hv with hv; subst hv
    exact neg_good (ih hwf ca va hca hva)
  | bin op a b iha ihb =>
    intro hwf c v hc hv
    simp only [Tree.wf, Bool.and_eq_true] at hwf
    simp only [denote, eval] at hv
    obtain ⟨va, hva, hv⟩ := bind_ok hv
    obtain ⟨vb, hvb, hv⟩ := bind_ok hv
    by_cases hop : op = .pow
    · subst hop
      rw [toCE_bin_pow] at hc
      obtain ⟨ca, hca, hc⟩ := bind_ok hc
      obtain ⟨cb, hcb, hc⟩ := bind_ok hc
      have ga := iha hwf.1 ca va hca hva
      have gb := ihb hwf.2 cb vb hcb hvb
      cases ca <;> cases va <;> (try exact ga.elim) <;>
      cases cb <;> cases vb <;> (try exact gb.elim) <;>
      simp only [evalBin] at hc hv <;> (try cases hc) <;> (try cases hv)
      obtain ⟨r, hr, hc⟩ := bind_ok hc
      obtain ⟨z, hz, hv⟩ := bind_ok hv
      injection hc with hc; subst hc
      injection hv with hv; subst hv
      refine powC_good ga gb ?_ hr hz
      intro w hw
      have := eval_null_ok env b w hw
      rw [hvb] at this
      injection this with this
      exact this.symm
    · rw [toCE_bin_nonpow hop] at hc
      obtain ⟨ca, hca, hc⟩ := bind_ok hc
      obtain ⟨cb, hcb, hc⟩ := bind_ok hc
      exact emitBin_good (iha hwf.1 ca va hca hva) (ihb hwf.2 cb vb hcb hvb) hc hv
  | fn f a ih =>
    intro hwf c v hc hv
    simp only [Tree.wf, Bool.and_eq_true] at hwf
    simp only [toCE, denote, eval] at hc hv
    obtain ⟨ca, hca, hc⟩ := bind_ok hc
    obtain ⟨va, hva, hv⟩ := bind_ok hv
    exact emitFn_good hwf.1 (ih hwf.2 ca va hca hva) hc hv

end Sympler.Expr
