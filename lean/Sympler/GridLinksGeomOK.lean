import Sympler.GridLinksSpec

/-!
`GeomOK` for every grid that `cellSubdivide` builds from a box with positive side lengths
(`buildGrid_geomOK`; `subdivide_geomOK` is in `Sympler/GridLinksLemmas.lean`).  Core Lean only.
-/
namespace Sympler.Grid
open Sympler Sympler.Cells Sympler.Gen.CellTables

/-- one direction of `GeomOK`, in rational numbers: cell coordinate `X`, neighbour coordinate `X'`, `Nn` cells of
width `w` between `lo` and `hi` -/
theorem dimOK_rat (per : Bool) (lo hi w X X' Nn : Rat) (o : Int) (hw : 0 < w) (hN : Nn * w = hi - lo)
    (hX0 : 0 ≤ X) (hX1 : X + 1 ≤ Nn) (hX'0 : 0 ≤ X') (hX'1 : X' + 1 ≤ Nn)
    (hcase : (o = 0 ∧ X' = X) ∨ (o = 1 ∧ X' = X + 1) ∨ (o = 1 ∧ per = true ∧ X' = 0 ∧ X + 1 = Nn) ∨
      (o = -1 ∧ X' = X - 1) ∨ (o = -1 ∧ per = true ∧ X = 0 ∧ X' + 1 = Nn)) :
    DimOK per lo hi o (lo + X * w) (lo + X * w + w) (lo + X' * w) (lo + X' * w + w)
      (cellDistComponent o ((lo + X * w + w) - (lo + X * w)) ((lo + X' * w + w) - (lo + X' * w))) := by
  have p1 : 0 ≤ X * w := Rat.mul_nonneg hX0 (by grind)
  have p2 : 0 ≤ (Nn - X - 1) * w := Rat.mul_nonneg (by grind) (by grind)
  have p3 : 0 ≤ X' * w := Rat.mul_nonneg hX'0 (by grind)
  have p4 : 0 ≤ (Nn - X' - 1) * w := Rat.mul_nonneg (by grind) (by grind)
  unfold DimOK cellDistComponent
  rcases hcase with ⟨rfl, e⟩ | ⟨rfl, e⟩ | ⟨rfl, hp, e, e'⟩ | ⟨rfl, e⟩ | ⟨rfl, hp, e, e'⟩
  · subst e
    simp only [show ¬ ((0 : Int) = 1) by decide, show ¬ ((0 : Int) = -1) by decide, if_false]
    refine ⟨by grind, by grind, by grind, by grind, by grind, by intro h; exact absurd h (by decide),
      by intro h; exact absurd h (by decide)⟩
  · subst e
    simp only [if_true]
    refine ⟨by grind, by grind, by grind, by grind, by intro h; exact absurd h (by decide), ?_,
      by intro h; exact absurd h (by decide)⟩
    intro _; left; constructor <;> grind
  · subst e
    simp only [if_true]
    refine ⟨by grind, by grind, by grind, by grind, by intro h; exact absurd h (by decide), ?_,
      by intro h; exact absurd h (by decide)⟩
    intro _; right; refine ⟨by grind, hp, by grind⟩
  · subst e
    simp only [show ¬ ((-1 : Int) = 1) by decide, if_false, if_true]
    refine ⟨by grind, by grind, by grind, by grind, by intro h; exact absurd h (by decide),
      by intro h; exact absurd h (by decide), ?_⟩
    intro _; left; constructor <;> grind
  · subst e
    simp only [show ¬ ((-1 : Int) = 1) by decide, if_false, if_true]
    refine ⟨by grind, by grind, by grind, by grind, by intro h; exact absurd h (by decide),
      by intro h; exact absurd h (by decide), ?_⟩
    intro _; right; refine ⟨by grind, hp, by grind⟩

theorem cast_succ_le {x n : Int} (h : x + 1 ≤ n) : (x : Rat) + 1 ≤ (n : Rat) := by
  have := Rat.intCast_le_intCast.mpr h
  simpa [Rat.intCast_add] using this

/-- one direction of `GeomOK` for the cell with coordinate `x` and its neighbour `stepD n per x o` -/
theorem dimOK_step (per : Bool) (lo hi : Rat) (n x o : Int) (hlh : lo < hi) (hn : 2 ≤ n) (hx0 : 0 ≤ x) (hx1 : x < n)
    (ho0 : -1 ≤ o) (ho1 : o ≤ 1) (hr0 : 0 ≤ stepD n per x o) (hr1 : stepD n per x o < n) :
    DimOK per lo hi o (lo + (x : Rat) * ((hi - lo) / (n : Rat))) (lo + (x : Rat) * ((hi - lo) / (n : Rat)) + (hi - lo) / (n : Rat))
      (lo + (stepD n per x o : Rat) * ((hi - lo) / (n : Rat)))
      (lo + (stepD n per x o : Rat) * ((hi - lo) / (n : Rat)) + (hi - lo) / (n : Rat))
      (cellDistComponent o
        ((lo + (x : Rat) * ((hi - lo) / (n : Rat)) + (hi - lo) / (n : Rat)) - (lo + (x : Rat) * ((hi - lo) / (n : Rat))))
        ((lo + (stepD n per x o : Rat) * ((hi - lo) / (n : Rat)) + (hi - lo) / (n : Rat)) -
          (lo + (stepD n per x o : Rat) * ((hi - lo) / (n : Rat))))) := by
  have hspec := stepD_spec per hn hx0 hx1 ho0 ho1
  generalize stepD n per x o = x' at *
  have hN2 : (2 : Rat) ≤ (n : Rat) := by
    have := Rat.intCast_le_intCast.mpr hn
    simpa using this
  have hNpos : (0 : Rat) < (n : Rat) := by grind
  have hw : 0 < (hi - lo) / (n : Rat) := by
    rw [Rat.div_def]
    exact Rat.mul_pos (by grind) (Rat.inv_pos.mpr hNpos)
  have hN : (n : Rat) * ((hi - lo) / (n : Rat)) = hi - lo := by
    rw [Rat.mul_comm]; exact Rat.div_mul_cancel (by grind)
  apply dimOK_rat per lo hi _ (x : Rat) (x' : Rat) (n : Rat) o hw hN
  · exact Rat.intCast_nonneg.mpr hx0
  · exact cast_succ_le (by omega)
  · exact Rat.intCast_nonneg.mpr hr0
  · exact cast_succ_le (by omega)
  · have hc : (o = 0 ∧ x' = x) ∨ (o = 1 ∧ x' = x + 1) ∨ (o = 1 ∧ per = true ∧ x' = 0 ∧ x + 1 = n) ∨
        (o = -1 ∧ x' = x - 1) ∨ (o = -1 ∧ per = true ∧ x = 0 ∧ x' + 1 = n) := by
      cases per
      · have := hspec.2 rfl
        simp only [Bool.false_eq_true, false_and, and_false, or_false, false_or]
        omega
      · have := hspec.1 rfl
        simp only [true_and]
        omega
    rcases hc with ⟨a, e⟩ | ⟨a, e⟩ | ⟨a, b, e, e'⟩ | ⟨a, e⟩ | ⟨a, b, e, e'⟩
    · left; exact ⟨a, by rw [e]⟩
    · right; left; exact ⟨a, by rw [e]; simp [Rat.intCast_add]⟩
    · right; right; left
      refine ⟨a, b, by rw [e]; simp, ?_⟩
      rw [← e']; simp [Rat.intCast_add]
    · right; right; right; left; exact ⟨a, by rw [e]; simp [Rat.intCast_sub]⟩
    · right; right; right; right
      refine ⟨a, b, by rw [e]; simp, ?_⟩
      rw [← e']; simp [Rat.intCast_add]

/-- a direction without neighbour leaves the box through a wall, one dimension -/
theorem wallDim_step (per : Bool) (lo hi : Rat) (n x o : Int) (hn : 2 ≤ n) (hx0 : 0 ≤ x) (hx1 : x < n)
    (ho0 : -1 ≤ o) (ho1 : o ≤ 1) (hout : ¬ (0 ≤ stepD n per x o ∧ stepD n per x o < n)) :
    WallDim per lo hi o (lo + (x : Rat) * ((hi - lo) / (n : Rat)))
      (lo + (x : Rat) * ((hi - lo) / (n : Rat)) + (hi - lo) / (n : Rat)) := by
  have hspec := stepD_spec per hn hx0 hx1 ho0 ho1
  have hN2 : (2 : Rat) ≤ (n : Rat) := by
    have := Rat.intCast_le_intCast.mpr hn
    simpa using this
  have hN : (n : Rat) * ((hi - lo) / (n : Rat)) = hi - lo := by
    rw [Rat.mul_comm]; exact Rat.div_mul_cancel (by grind)
  unfold WallDim
  cases per
  · have := hspec.2 rfl
    refine ⟨rfl, ?_⟩
    have hc : (o = 1 ∧ x + 1 = n) ∨ (o = -1 ∧ x = 0) := by omega
    rcases hc with ⟨a, e⟩ | ⟨a, e⟩
    · left
      refine ⟨a, ?_⟩
      have : (n : Rat) = (x : Rat) + 1 := by rw [← e]; simp [Rat.intCast_add]
      rw [this] at hN
      grind
    · right
      refine ⟨a, ?_⟩
      rw [e]; simp [Rat.add_zero]
  · have := hspec.1 rfl
    exact absurd ⟨this.1, this.2.1⟩ hout

/-! ### corners of the cells, and the region corners -/

theorem mkCells_corners (nc : V3 Int) (c1 width : V3 Rat) (i : Nat) (hi : i < (mkCells nc c1 width).size) :
    ((mkCells nc c1 width).getD i default).c1 =
      (c1.1 + (((mkCells nc c1 width).getD i default).tag.1 : Rat) * width.1,
       c1.2.1 + (((mkCells nc c1 width).getD i default).tag.2.1 : Rat) * width.2.1,
       c1.2.2 + (((mkCells nc c1 width).getD i default).tag.2.2 : Rat) * width.2.2) ∧
    ((mkCells nc c1 width).getD i default).c2 =
      (((mkCells nc c1 width).getD i default).c1.1 + width.1,
       ((mkCells nc c1 width).getD i default).c1.2.1 + width.2.1,
       ((mkCells nc c1 width).getD i default).c1.2.2 + width.2.2) := by
  unfold mkCells at hi ⊢
  simp only [List.size_toArray, List.length_map] at hi
  simp only [Array.getD_eq_getD_getElem?, List.getElem?_toArray, List.getElem?_map,
    List.getElem?_eq_getElem hi, Option.map_some, Option.getD_some]
  exact ⟨rfl, rfl⟩

theorem foldl_preserve {α β : Type} (f : α → β → α) (P : α → Prop) (hf : ∀ g x, P g → P (f g x)) :
    ∀ (l : List β) (g : α), P g → P (l.foldl f g) := by
  intro l
  induction l with
  | nil => intro g h; exact h
  | cons a r ih => intro g h; rw [List.foldl_cons]; exact ih _ (hf g a h)

theorem neighborStep_c1c2 (per : V3 Bool) (g : Grid) (i n : Nat) :
    (neighborStep per g i n).c1 = g.c1 ∧ (neighborStep per g i n).c2 = g.c2 := by
  unfold neighborStep
  split
  · simp only []
    split
    · split
      · exact ⟨rfl, rfl⟩
      · unfold addNeighbor establishLink
        simp only []
        split <;> exact ⟨rfl, rfl⟩
    · exact ⟨rfl, rfl⟩
  · exact ⟨rfl, rfl⟩

theorem buildGrid_c1c2 (nc : V3 Int) (c1 c2 invWidth width : V3 Rat) (per : V3 Bool) :
    (buildGrid nc c1 c2 invWidth width per).c1 = c1 ∧ (buildGrid nc c1 c2 invWidth width per).c2 = c2 := by
  unfold buildGrid
  simp only []
  apply foldl_preserve _ (fun g : Grid => g.c1 = c1 ∧ g.c2 = c2)
  · intro g i hg
    apply foldl_preserve _ (fun g : Grid => g.c1 = c1 ∧ g.c2 = c2) _ _ _ hg
    intro g n hg
    have := neighborStep_c1c2 per g i n
    exact ⟨this.1.trans hg.1, this.2.trans hg.2⟩
  · apply foldl_preserve _ (fun g : Grid => g.c1 = c1 ∧ g.c2 = c2)
    · intro g i hg; exact hg
    · exact ⟨rfl, rfl⟩

/-- the corners of cell `c` of the grid, per direction, in the form used by `dimOK_step` -/
theorem cell_corner_eqs (nc : V3 Int) (c1 c2 : V3 Rat) {G : Grid}
    (ecells : G.cells = mkCells nc c1 (V3.map2 (fun (di : Rat) (n : Int) => di / (n : Rat)) (V3.sub c2 c1) nc))
    {c : Nat} (hc : c < G.cells.size) :
    ((G.cells.getD c default).c1.1 =
        c1.1 + ((G.cells.getD c default).tag.1 : Rat) * ((c2.1 - c1.1) / (nc.1 : Rat)) ∧
      (G.cells.getD c default).c2.1 =
        c1.1 + ((G.cells.getD c default).tag.1 : Rat) * ((c2.1 - c1.1) / (nc.1 : Rat)) + (c2.1 - c1.1) / (nc.1 : Rat)) ∧
    ((G.cells.getD c default).c1.2.1 =
        c1.2.1 + ((G.cells.getD c default).tag.2.1 : Rat) * ((c2.2.1 - c1.2.1) / (nc.2.1 : Rat)) ∧
      (G.cells.getD c default).c2.2.1 =
        c1.2.1 + ((G.cells.getD c default).tag.2.1 : Rat) * ((c2.2.1 - c1.2.1) / (nc.2.1 : Rat)) +
          (c2.2.1 - c1.2.1) / (nc.2.1 : Rat)) ∧
    ((G.cells.getD c default).c1.2.2 =
        c1.2.2 + ((G.cells.getD c default).tag.2.2 : Rat) * ((c2.2.2 - c1.2.2) / (nc.2.2 : Rat)) ∧
      (G.cells.getD c default).c2.2.2 =
        c1.2.2 + ((G.cells.getD c default).tag.2.2 : Rat) * ((c2.2.2 - c1.2.2) / (nc.2.2 : Rat)) +
          (c2.2.2 - c1.2.2) / (nc.2.2 : Rat)) := by
  rw [ecells] at hc ⊢
  obtain ⟨a, b⟩ := mkCells_corners nc c1 _ c hc
  generalize (mkCells nc c1 (V3.map2 (fun (di : Rat) (n : Int) => di / (n : Rat)) (V3.sub c2 c1) nc)).getD c default
    = cg at a b
  have a1 := congrArg (fun p : V3 Rat => p.1) a
  have a2 := congrArg (fun p : V3 Rat => p.2.1) a
  have a3 := congrArg (fun p : V3 Rat => p.2.2) a
  have b1 := congrArg (fun p : V3 Rat => p.1) b
  have b2 := congrArg (fun p : V3 Rat => p.2.1) b
  have b3 := congrArg (fun p : V3 Rat => p.2.2) b
  simp only [] at a1 a2 a3 b1 b2 b3
  rw [a1] at b1; rw [a2] at b2; rw [a3] at b3
  exact ⟨⟨a1, b1⟩, ⟨a2, b2⟩, ⟨a3, b3⟩⟩

theorem cellDist_comps (a b : CellGeom) (n : Nat) :
    (cellDist a b n).1 = cellDistComponent (offsets.getD n (0, 0, 0)).1 (a.c2.1 - a.c1.1) (b.c2.1 - b.c1.1) ∧
    (cellDist a b n).2.1 = cellDistComponent (offsets.getD n (0, 0, 0)).2.1 (a.c2.2.1 - a.c1.2.1) (b.c2.2.1 - b.c1.2.1) ∧
    (cellDist a b n).2.2 = cellDistComponent (offsets.getD n (0, 0, 0)).2.2 (a.c2.2.2 - a.c1.2.2) (b.c2.2.2 - b.c1.2.2) :=
  ⟨rfl, rfl, rfl⟩

/-- the grid built by the loops of `cellSubdivide` (at least two cells per direction, `width = (c2 − c1)/n_cells`,
box with positive side lengths) satisfies `GeomOK` -/
theorem buildGrid_geomOK (nc : V3 Int) (c1 c2 invWidth : V3 Rat) (per : V3 Bool)
    (hnc : 2 ≤ nc.1 ∧ 2 ≤ nc.2.1 ∧ 2 ≤ nc.2.2) (hbox : c1.1 < c2.1 ∧ c1.2.1 < c2.2.1 ∧ c1.2.2 < c2.2.2) :
    GeomOK (buildGrid nc c1 c2 invWidth (V3.map2 (fun (di : Rat) (n : Int) => di / (n : Rat)) (V3.sub c2 c1) nc) per)
      per := by
  obtain ⟨ecells, enc, spec⟩ := buildGrid_linksSpec nc c1 c2 invWidth
    (V3.map2 (fun (di : Rat) (n : Int) => di / (n : Rat)) (V3.sub c2 c1) nc) per hnc
  obtain ⟨ec1, ec2⟩ := buildGrid_c1c2 nc c1 c2 invWidth
    (V3.map2 (fun (di : Rat) (n : Int) => di / (n : Rat)) (V3.sub c2 c1) nc) per
  generalize buildGrid nc c1 c2 invWidth (V3.map2 (fun (di : Rat) (n : Int) => di / (n : Rat)) (V3.sub c2 c1) nc) per
    = G at *
  obtain ⟨n1, n2, n3⟩ := hnc
  obtain ⟨bx, bY, bz⟩ := hbox
  unfold GeomOK
  intro c hc n hn
  have hn : n < 26 := hn
  rw [ec1, ec2]
  obtain ⟨⟨ox0, ox1⟩, ⟨oy0, oy1⟩, ⟨oz0, oz1⟩, _, _⟩ := offsets_facts n hn
  obtain ⟨⟨cx1, cx2⟩, ⟨cy1, cy2⟩, cz1, cz2⟩ := cell_corner_eqs nc c1 c2 ecells hc
  have hrc := (posInRange_iff _ _).mp (spec.geo.tag_range c hc)
  rw [enc] at hrc
  obtain ⟨⟨x0, x1⟩, ⟨y0, y1⟩, z0, z1⟩ := hrc
  cases ht : nbr G.nc G.cells per c n with
  | some t =>
    obtain ⟨_, _, hout⟩ := spec.slot_some c n t hc hn ht
    rw [hout]
    constructor
    · intro t' ht'
      rw [List.mem_singleton] at ht'
      subst ht'
      have htN := nbr_lt spec.geo ht
      obtain ⟨⟨tx1, tx2⟩, ⟨ty1, ty2⟩, tz1, tz2⟩ := cell_corner_eqs nc c1 c2 ecells htN
      have htag := nbr_tag spec.geo ht
      obtain ⟨hr, _⟩ := nbr_some ht
      rw [enc, neighborPos_eq] at htag hr
      have hr' := (posInRange_iff _ _).mp hr
      obtain ⟨⟨a0, a1⟩, ⟨b0, b1⟩, d0, d1⟩ := hr'
      simp only [] at a0 a1 b0 b1 d0 d1
      have e1 := congrArg (fun p : V3 Int => p.1) htag
      have e2 := congrArg (fun p : V3 Int => p.2.1) htag
      have e3 := congrArg (fun p : V3 Int => p.2.2) htag
      simp only [] at e1 e2 e3
      obtain ⟨k1, k2, k3⟩ := cellDist_comps (G.cells.getD c default) (G.cells.getD t' default) n
      rw [k1, k2, k3, cx1, cx2, cy1, cy2, cz1, cz2, tx1, tx2, ty1, ty2, tz1, tz2, e1, e2, e3]
      exact ⟨dimOK_step per.1 c1.1 c2.1 nc.1 _ _ bx n1 x0 x1 ox0 ox1 a0 a1,
        dimOK_step per.2.1 c1.2.1 c2.2.1 nc.2.1 _ _ bY n2 y0 y1 oy0 oy1 b0 b1,
        dimOK_step per.2.2 c1.2.2 c2.2.2 nc.2.2 _ _ bz n3 z0 z1 oz0 oz1 d0 d1⟩
    · intro h; simp at h
  | none =>
    obtain ⟨_, hout⟩ := spec.slot_none c n hc hn ht
    rw [hout]
    constructor
    · intro t' ht'; simp at ht'
    · intro _
      have hr : ¬ posInRange nc (neighborPos nc per (G.cells.getD c default).tag (offsets.getD n (0, 0, 0))) = true := by
        intro hr
        unfold nbr at ht
        rw [enc, if_pos hr] at ht
        simp at ht
      rw [neighborPos_eq, posInRange_iff] at hr
      simp only [] at hr
      rw [cx1, cx2, cy1, cy2, cz1, cz2]
      by_cases w1 : 0 ≤ stepD nc.1 per.1 (G.cells.getD c default).tag.1 (offsets.getD n (0, 0, 0)).1 ∧
          stepD nc.1 per.1 (G.cells.getD c default).tag.1 (offsets.getD n (0, 0, 0)).1 < nc.1
      · by_cases w2 : 0 ≤ stepD nc.2.1 per.2.1 (G.cells.getD c default).tag.2.1 (offsets.getD n (0, 0, 0)).2.1 ∧
            stepD nc.2.1 per.2.1 (G.cells.getD c default).tag.2.1 (offsets.getD n (0, 0, 0)).2.1 < nc.2.1
        · have w3 : ¬ (0 ≤ stepD nc.2.2 per.2.2 (G.cells.getD c default).tag.2.2 (offsets.getD n (0, 0, 0)).2.2 ∧
              stepD nc.2.2 per.2.2 (G.cells.getD c default).tag.2.2 (offsets.getD n (0, 0, 0)).2.2 < nc.2.2) :=
            fun w3 => hr ⟨w1, w2, w3⟩
          right; right
          exact wallDim_step per.2.2 c1.2.2 c2.2.2 nc.2.2 _ _ n3 z0 z1 oz0 oz1 w3
        · right; left
          exact wallDim_step per.2.1 c1.2.1 c2.2.1 nc.2.1 _ _ n2 y0 y1 oy0 oy1 w2
      · left
        exact wallDim_step per.1 c1.1 c2.1 nc.1 _ _ n1 x0 x1 ox0 ox1 w1

end Sympler.Grid
