import PropsR.Gen.KernelsReal
import PropsR.C16
