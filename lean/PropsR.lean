import PropsR.Gen.KernelsReal
import PropsR.Gen.ReflectorsReal
import PropsR.C02
import PropsR.C08
import PropsR.Gen.HitTimeReal
import PropsR.C08Force
import PropsR.C16
