import PropsR.Gen.KernelsReal
import PropsR.C02
import PropsR.C16
