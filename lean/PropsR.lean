import PropsR.Gen.KernelsReal
import PropsR.Gen.ReflectorsReal
import PropsR.C02
import PropsR.C08
import PropsR.C16
