import Sympler.FuncCompileLemmas
import Sympler.Gen.FuncCompileGen

/-!
# C11 — concurrently running simulations do not exchange compiled expressions

Model: `Sympler/FuncCompile.lean` (`FunctionCompiler::compile` / `setParserAndCompile` run by
several processes on one temporary directory, one system call per scheduling step, the two
`stat` calls of the probe loop being separate steps).  `Gen.FuncCompile.nameUsesPid` is
extracted from the source: does the temporary file name contain the process id?

A configuration is a list `cfg` of `(pid, nfun)`; `mkProcs cfg` are the freshly started
processes; a schedule is any `List Nat` of process indices.  The initial directory `init` is
ARBITRARY in all general theorems: stale files of dead processes may sit under any name,
also under names a live process is going to try (even with its own pid part, e.g. after pid
re-use) — the `stat` loop skips them and, with the pid in the name, nobody else can create
or remove a file in the window between the `stat`s and the `open`.  No hypothesis on `init`
is needed.  The only hypothesis is that the live processes have pairwise distinct pids
(an operating-system guarantee for processes on one machine).

Witness schedules (replay seeds, indices 0 = process A (pid 10), 1 = process B (pid 20);
old naming without pid, empty directory, one expression each; a process needs two steps
for a successful probe):

* wrong code, silently: `0 0 1 1 0 0 1 1 0 0 0`
  (A probe,probeC; B probe,probeC; A openC,writeC; B openC (truncates A's file),writeC;
   A gcc (compiles B's text), rmC, dlopen)  ⇒  A is bound to B's expression;
   continued by `0 1 1` (A rmSo; B gcc fails, rmC): A `done` with B's code, B `error`.
* error: `0 0 1 1 1 1 0 0 0 0 1 1`
  (both probe; B openC,writeC; A openC,writeC,gcc,rmC (removes the shared .c); B gcc fails, rmC)
   ⇒  B ends with "Failed to compile the function using gcc".
* with `atomicprobe 1` (whole `while` condition atomic) the same witnesses read
  `0 1 0 0 1 1 0 0 0` and `0 1 1 1 0 0 0 0 1 1`.
-/
namespace Sympler.FuncCompile
open Sympler

/-- The generated step table is the step order the model implements. -/
theorem C11_gen_order : Gen.FuncCompile.stepOrder = stepOrder := by decide

/-- **Isolation.**  With the naming extracted from the source (`nameUsesPid`, must be `true`),
for every configuration with pairwise distinct pids, every initial directory and every
schedule: the processes are still the given ones; nobody has ended with an error; every
binding of every process is code generated from its own expression of that index; a finished
process has all its expressions bound; and when all have finished, the directory is exactly
the initial one (temporary files removed, stale files untouched). -/
theorem C11_isolation (cfg : List (Nat × Nat)) (hpid : (cfg.map (·.1)).Nodup)
    (init : FS) (sched : List Nat) :
    let w := run Gen.FuncCompile.nameUsesPid init (mkProcs cfg) sched
    w.procs.map (fun p => (p.pid, p.nfun)) = cfg ∧
    (∀ p ∈ w.procs, p.status ≠ .error) ∧
    (∀ p ∈ w.procs, ∀ b ∈ p.binds, b.2 = Content.tag p.pid b.1) ∧
    (∀ p ∈ w.procs, p.status = .done →
      p.binds = (List.range p.nfun).map (fun f => (f, Content.tag p.pid f))) ∧
    ((∀ p ∈ w.procs, p.status = .done) → ∀ n, w.fs.get n = init.get n) := by
  have hflag : Gen.FuncCompile.nameUsesPid = true := rfl
  rw [hflag]
  intro w
  have hinv : Inv init w := runFrom_Inv sched (Inv_init init cfg hpid)
  have hloc : ∀ p ∈ w.procs, LInv init w.fs p := by
    intro p hp
    obtain ⟨i, hi⟩ := List.mem_iff_getElem?.mp hp
    exact hinv.loc i p hi
  refine ⟨?_, ?_, ?_, ?_, ?_⟩
  · show (runFrom true ⟨init, mkProcs cfg⟩ sched).procs.map _ = cfg
    rw [runFrom_consts, mkProcs_consts]
  · intro p hp
    exact (hloc p hp).2.2.1
  · intro p hp b hb
    rw [(hloc p hp).2.1] at hb
    obtain ⟨f, -, rfl⟩ := List.mem_map.mp hb
    rfl
  · intro p hp hd
    obtain ⟨-, hb, -, -, hdone, -⟩ := hloc p hp
    rw [hb]
    simp only [boundCount, hd, reduceCtorEq, false_and, if_false, (hdone hd).1]
  · intro hd n
    exact Inv_done_clean hinv hd n

/-- **Progress.**  Process number `i` has finished as soon as it has been scheduled
`8 * nfun + 2 * (number of initial files)` times, whatever else the schedule does: at most
8 system calls per expression plus at most 2 per stale file it has to skip. -/
theorem C11_progress (cfg : List (Nat × Nat)) (hpid : (cfg.map (·.1)).Nodup)
    (init : FS) (sched : List Nat) (i pid nfun : Nat) (hi : cfg[i]? = some (pid, nfun))
    (hfair : 8 * nfun + 2 * init.size ≤ sched.count i) :
    ∃ p, (run Gen.FuncCompile.nameUsesPid init (mkProcs cfg) sched).procs[i]? = some p ∧
      p.pid = pid ∧ p.nfun = nfun ∧ p.status = .done := by
  have hflag : Gen.FuncCompile.nameUsesPid = true := rfl
  rw [hflag]
  have h0 : Inv init ⟨init, mkProcs cfg⟩ := Inv_init init cfg hpid
  have hp0 : (mkProcs cfg)[i]? = some (Proc.init pid nfun) := by
    simp only [mkProcs, List.getElem?_map, hi, Option.map_some]
  obtain ⟨p', hp', e1, e2, hm⟩ := runFrom_measure sched h0 i _ hp0
  refine ⟨p', hp', e1, e2, ?_⟩
  have hl : LInv init _ p' := (runFrom_Inv sched h0).loc i p' hp'
  cases hs : p'.status with
  | done => rfl
  | error => exact absurd hs hl.2.2.1
  | running =>
    exfalso
    have h1 := hm hs
    have h2 := measure_pos hl hs
    have h3 : measure init (Proc.init pid nfun) ≤ 8 * nfun + 2 * init.size := by
      have := staleFrom_le_length init pid 0
      by_cases hn : nfun = 0
      · simp [measure, Proc.init, hn]
      · simp only [measure, Proc.init, hn, if_false, Pc.idx]; omega
    omega

/-- Consequently a schedule under which everybody finishes exists for every configuration
and every initial directory (so the "all done ⇒ directory restored" part of `C11_isolation`
is never vacuous), and every schedule that is fair enough is such a schedule. -/
theorem C11_progress_all (cfg : List (Nat × Nat)) (hpid : (cfg.map (·.1)).Nodup)
    (init : FS) (sched : List Nat)
    (hfair : ∀ i pid nfun, cfg[i]? = some (pid, nfun) → 8 * nfun + 2 * init.size ≤ sched.count i) :
    let w := run Gen.FuncCompile.nameUsesPid init (mkProcs cfg) sched
    (∀ p ∈ w.procs, p.status = .done) ∧ ∀ n, w.fs.get n = init.get n := by
  intro w
  have hall : ∀ p ∈ w.procs, p.status = .done := by
    intro p hp
    obtain ⟨i, hi⟩ := List.mem_iff_getElem?.mp hp
    have hc := (C11_isolation cfg hpid init sched).1
    have hci : cfg[i]? = some (p.pid, p.nfun) := by
      rw [← hc, List.getElem?_map]
      show Option.map _ w.procs[i]? = _
      rw [hi]; rfl
    obtain ⟨p', hp', -, -, hd⟩ := C11_progress cfg hpid init sched i p.pid p.nfun hci
      (hfair i p.pid p.nfun hci)
    have : w.procs[i]? = some p' := hp'
    rw [hi] at this
    cases this
    exact hd
  exact ⟨hall, (C11_isolation cfg hpid init sched).2.2.2.2 hall⟩

theorem C11_progress_exists (cfg : List (Nat × Nat)) (hpid : (cfg.map (·.1)).Nodup) (init : FS) :
    ∃ sched, ∀ p ∈ (run Gen.FuncCompile.nameUsesPid init (mkProcs cfg) sched).procs,
      p.status = .done := by
  refine ⟨seqSched cfg 0 init.size, (C11_progress_all cfg hpid init _ ?_).1⟩
  intro i pid nfun hi
  have := seqSched_count cfg 0 init.size i (pid, nfun) hi
  simpa using this

/-- The coarser scheduling unit offered by the driver (`atomicprobe 1`: the whole `while`
condition is one step) only produces runs that the fine-grained model also produces, so
`C11_isolation` covers it. -/
theorem C11_coarse_refines (u : Bool) (init : FS) (procs : List Proc) (sched : List Nat) :
    ∃ sched', runCoarse u init procs sched = run u init procs sched' :=
  foldl_stepCoarse_fine u sched ⟨init, procs⟩

/-! ## the naming without pid (the code before the fix) -/

/-- **Race, wrong code executed silently.**  Old naming, two processes (pids 10 and 20), one
expression each, empty directory: after the schedule below process 10 has loaded, without any
error, the code generated from process 20's expression; when both have run to the end, 10 is
`done` with the wrong code and 20 has failed. -/
theorem C11_race_witness :
    let sched := [0, 0, 1, 1, 0, 0, 1, 1, 0, 0, 0]
    let w := run false FS.empty (mkProcs [(10, 1), (20, 1)]) sched
    let w' := run false FS.empty (mkProcs [(10, 1), (20, 1)]) (sched ++ [0, 1, 1])
    w.procs.map (fun p => (p.pid, p.status, p.binds)) =
      [(10, .running, [(0, Content.tag 20 0)]), (20, .running, [])] ∧
    w'.procs.map (fun p => (p.pid, p.status, p.binds)) =
      [(10, .done, [(0, Content.tag 20 0)]), (20, .error, [])] := by
  decide

/-- **Race, spurious error.**  Same setting: process 10 removes the `.c` file both use before
process 20 has compiled it; 20 ends with an error (10 is fine). -/
theorem C11_race_witness_error :
    let sched := [0, 0, 1, 1, 1, 1, 0, 0, 0, 0, 1, 1]
    let w := run false FS.empty (mkProcs [(10, 1), (20, 1)]) sched
    w.procs.map (fun p => (p.pid, p.status, p.pc)) =
      [(10, .running, .dlopen), (20, .error, .rmC)] := by
  decide

/-- The same two schedules with the whole probe loop condition as one step. -/
theorem C11_race_witness_coarse :
    (runCoarse false FS.empty (mkProcs [(10, 1), (20, 1)]) [0, 1, 0, 0, 1, 1, 0, 0, 0]).procs.map
        (fun p => (p.pid, p.status, p.binds)) =
      [(10, .running, [(0, Content.tag 20 0)]), (20, .running, [])] ∧
    (runCoarse false FS.empty (mkProcs [(10, 1), (20, 1)]) [0, 1, 1, 1, 0, 0, 0, 0, 1, 1]).procs.map
        (fun p => (p.pid, p.status, p.pc)) =
      [(10, .running, .dlopen), (20, .error, .rmC)] := by
  decide

/-! ## non-vacuity: concrete runs with the pid in the name -/

/-- the first witness schedule, run to the end, now gives each process its own code and an
empty directory -/
example :
    let w := run true FS.empty (mkProcs [(10, 1), (20, 1)])
      [0, 0, 1, 1, 0, 0, 1, 1, 0, 0, 0, 0, 1, 1, 1, 1]
    w.procs.map (fun p => (p.pid, p.status, p.binds)) =
      [(10, .done, [(0, Content.tag 10 0)]), (20, .done, [(0, Content.tag 20 0)])] ∧
    w.fs.keys = [] := by
  decide

/-- adversarial setting: stale files sit exactly on the names the live processes try first
(`10_0.c`, `10_1.so` with foreign content, `20_0.so`), and an old-style file `0.c`; process 10
compiles two expressions; lock-step schedule.  Everybody gets his own code, the four stale
files and nothing else remain. -/
example :
    let init : FS := [(⟨some 10, 0, .c⟩, ⟨.stale 0, .tag 10 0⟩), (⟨some 10, 1, .so⟩, ⟨.stale 1, .tag 3 4⟩),
      (⟨none, 0, .c⟩, ⟨.stale 2, .empty⟩), (⟨some 20, 0, .so⟩, ⟨.stale 3, .tag 10 0⟩)]
    let w := run true init (mkProcs [(10, 2), (20, 1)])
      ([0, 1, 0, 1, 0, 1, 0, 1, 0, 1, 0, 1, 0, 1, 0, 1, 0, 1, 0, 1] ++ List.replicate 12 0)
    w.procs.map (fun p => (p.pid, p.status, p.binds)) =
      [(10, .done, [(0, Content.tag 10 0), (1, Content.tag 10 1)]), (20, .done, [(0, Content.tag 20 0)])] ∧
    w.fs.keys = init.keys := by
  decide

/-- the hypotheses of `C11_isolation`/`C11_progress` are satisfiable -/
example : ([(10, 2), (20, 1)].map (·.1)).Nodup := by decide

/-- **the shape of the temporary file name** (regenerated from function_compiler.cpp): the model's naming `(pid, counter) ↦ name` is
injective only if the decimal process id and the decimal counter are separated by a non-digit text in EVERY statement that builds
a name.  Without the separator the names of (pid 2, counter 10) and (pid 21, counter 0) coincide - second statement. -/
theorem C11_name_format :
    Gen.FuncCompile.nameUsesPid = true ∧ Gen.FuncCompile.nameSeparatesPidAndCounter = true ∧
    (toString 2 ++ toString 10 = toString 21 ++ toString 0) ∧ (toString 2 ++ "_" ++ toString 10 ≠ toString 21 ++ "_" ++ toString 0) := by
  decide

/-- **name before counter** (regenerated): the model's `probe` uses the counter value as the name and moves the counter on; the code does
so only if every name is built BEFORE the increment that follows it.  With the increment first, the name chosen after a collision
is the first choice of the process's NEXT function, whose `dlopen` then returns the object that is still loaded. -/
theorem C11_counter_order : Gen.FuncCompile.nameBuiltBeforeCounterIncrement = true := by decide

end Sympler.FuncCompile
