import Sympler.Threads
import Sympler.Gen.ThreadsGen
/-!
# Bridge between the thread assignment / merge code regenerated from the OpenMP branch of the C++ (`Sympler/Gen/ThreadsGen.lean`,
translator `translate/t_threads.py`) and the model `Sympler/Threads.lean` (property C20).  Core Lean only.
-/
namespace Sympler.Threads

/-- the round-robin counter of `ManagerCell::activateCellLink` is the model's `nextCounter`, starting at 0 -/
theorem Bridge_counter : Sympler.Gen.Threads.counterInit = 0 ∧
    ∀ T c, Sympler.Gen.Threads.nextCounter T c = nextCounter T c := ⟨rfl, fun _ _ => rfl⟩

/-- every merge statement of the modelled pair-sum calculators and of the velocity-Verlet force copies adds the cell
`(thread, particle, slot of THAT partner)` to the real slot of that partner and zeroes the SAME cell — the shape of the model's
`merge` (and the admissibility hypothesis `StageOK` of `C20_steps`: what is accumulated is merged and zeroed). -/
theorem Bridge_merge_sites :
    Sympler.Gen.Threads.mergeSites.all (fun s => s.2.2.1 && s.2.2.2.1 && s.2.2.2.2.1 && s.2.2.2.2.2.1 && s.2.2.2.2.2.2) = true ∧
    Sympler.Gen.Threads.mergeSites.length = 4 ∧ Sympler.Gen.Threads.forceMergeAddsAndZeroesSameCell = true := by decide

end Sympler.Threads
