import Sympler.IntegLambda
import Sympler.Gen.DynGen
/-!
C05 — the predictor-corrector integrators of user quantities advance every degree of freedom by exactly one correct step.

About `Sympler/IntegLambda.lean`, whose kernels are REGENERATED from integrator_{scalar,vector,tensor}_lambda.cpp on every run
(`translate/t_integlambda.py`); every proof unfolds those kernels, so a changed factor, sign or force buffer breaks it.
-/
namespace Sympler.IntegLambda
open Sympler.Gen.IntegLambda

/-- the value the forces are evaluated at: `x + λ·dt·F` -/
theorem C05L_predictor (k : Kind) (dt lam : Rat) (s : St) : predicted k dt lam s = s.x + lam * dt * s.f := by
  cases k <;> simp [predicted, step1, scalarStep1, vectorStep1, tensorStep1] <;> grind

/-- **one step is the trapezoidal rule, for every λ**: predictor and corrector together add `dt/2·(F_old + F_new)`, where `F_new`
is the force evaluated at the predicted value; λ only moves the point of evaluation -/
theorem C05L_step_trapezoid (k : Kind) (dt lam : Rat) (g : Rat → Rat) (s : St) :
    (step k dt lam g s).x = s.x + dt / 2 * (s.f + g (predicted k dt lam s)) ∧
    (step k dt lam g s).f = g (predicted k dt lam s) := by
  cases k <;>
    simp [step, predicted, step1, step2, lambdaDiff, scalarStep1, scalarStep2, scalarLambdaDiff, vectorStep1, vectorStep2,
      vectorLambdaDiff, tensorStep1, tensorStep2, tensorLambdaDiff] <;> grind

/-- the force buffer after the start and after every step is the force at the last evaluation point -/
theorem C05L_init (g : Rat → Rat) (x0 : Rat) : (init g x0).x = x0 ∧ (init g x0).f = g x0 := ⟨rfl, rfl⟩

/-- a constant rate `R` is integrated exactly, for every λ, step size and number of steps -/
theorem C05L_const_rate (k : Kind) (dt lam R x0 : Rat) (n i : Nat) :
    (run k dt lam (fun _ _ => R) n i (init (fun _ => R) x0)).x = x0 + n * dt * R ∧
    (run k dt lam (fun _ _ => R) n i (init (fun _ => R) x0)).f = R := by
  suffices h : ∀ (n i : Nat) (s : St), s.f = R →
      (run k dt lam (fun _ _ => R) n i s).x = s.x + n * dt * R ∧ (run k dt lam (fun _ _ => R) n i s).f = R by
    exact h n i _ rfl
  intro n
  induction n with
  | zero => intro i s hs; simp [run, hs]; grind
  | succ n ih =>
    intro i s hs
    have h1 := C05L_step_trapezoid k dt lam (fun _ => R) s
    have h2 := ih (i + 1) (step k dt lam (fun _ => R) s) h1.2
    simp only [run]
    constructor
    · rw [h2.1, h1.1, hs]; push_cast; grind
    · exact h2.2

/-- … in particular the result does not depend on λ -/
theorem C05L_const_rate_lambda_independent (k : Kind) (dt lam lam' R x0 : Rat) (n : Nat) :
    (run k dt lam (fun _ _ => R) n 0 (init (fun _ => R) x0)).x = (run k dt lam' (fun _ _ => R) n 0 (init (fun _ => R) x0)).x := by
  rw [(C05L_const_rate k dt lam R x0 n 0).1, (C05L_const_rate k dt lam' R x0 n 0).1]

/-- the three integrators use the same kernel for every component -/
theorem C05L_kinds_agree (k : Kind) (dt lam f fo : Rat) :
    step1 k dt lam f = step1 .scalar dt lam f ∧ step2 k dt (lambdaDiff k lam) f fo = step2 .scalar dt (lambdaDiff .scalar lam) f fo := by
  cases k <;> exact ⟨rfl, rfl⟩

/-- with λ = 1/2 the corrector does not read the old buffer -/
theorem C05L_half (k : Kind) (dt f fo fo' : Rat) : step2 k dt (lambdaDiff k (1/2)) f fo = step2 k dt (lambdaDiff k (1/2)) f fo' := by
  cases k <;> simp [step2, lambdaDiff, scalarStep2, scalarLambdaDiff, vectorStep2, vectorLambdaDiff, tensorStep2, tensorLambdaDiff] <;> grind

/-- `IntegratorTensor` (explicit Euler) adds `dt·F` per component, like `IntegratorScalar` / `IntegratorVector` of the model `Dyn` -/
theorem C05L_tensor_euler (dt lam f : Rat) :
    eulerTensorIncr dt lam f = Sympler.Gen.Dyn.eulerScalarIncr dt f ∧ eulerTensorIncr dt lam f = dt * f := ⟨rfl, rfl⟩

/-- non-vacuity / worked example: g(x) = -x, dt = 1/4, λ = 3/4, x0 = 1: first step -/
example : (step .scalar (1/4) (3/4) (fun x => -x) (init (fun x => -x) 1)).x = 99/128 := by
  rw [(C05L_step_trapezoid _ _ _ _ _).1, C05L_predictor]; simp [init]; grind

end Sympler.IntegLambda
