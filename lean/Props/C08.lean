/-
Property C08 — "Walls confine particles; reflection laws hold", part B: the collision loop
(`Cell::doCollision`, `Cell::checkForHit`, `WallTriangle::hit`, `Cell::checkNewPosition`) for FORCE-FREE flight in an
axis-aligned `BoundaryCuboid` closed by walls in its non-periodic directions.  Model: `Sympler/Collide.lean`.
The reflection laws themselves (over ℝ, from the generated definitions) are in `PropsR/C08.lean`.

PROVED here (all inputs: every box, cell grid, wall/periodic combination, reflector ∈ {mirror, bounce-back}, position,
velocity, time step, tolerances):
  * `C08_time_decreases`   every hit consumes a strictly positive part of the remaining time
  * `C08_loop_terminates`  the loop ends after at most `fuel − 1` hits without a further hit, or reports the error
                           ("More than 100 wall collisions")
  * `C08_earliest`         the chosen hit is the minimum over all walls the cell checks
  * `C08_hit_in_closed_box` the chosen hit lies in the closed box: the hypothesis `NoEdge` below excludes ONLY hits that
                           are exactly on an edge or corner
  * `C08_confined_cuboid`  one step keeps a particle strictly between the walls, in an existing cell, no
                           PARTICLEFLEWTOOFAR, not erased — or the "too many collisions" error is raised
  * `C08_count`, `C08_count_run`  the particle number is unchanged over any number of steps
  * `C08_edge_witness`     THE REAL CODE LOSES A PARTICLE that hits an edge exactly with `ReflectorMirror`
                           (the second wall reports `t = 0`, which `WallTriangle::hit` rejects: `t > c_wt_time_eps`);
                           reproduced on the binary (see /verif/sim/corr_walls.py, finding `C08-edge-hit-lost`)
  * `C08_corner_chord_witness`  bounce-back on a short chord across a corner: more than 100 collisions although the
                           displacement is below one cell — the error branch of the theorems is really taken

PARTIAL (not covered by any theorem here; exercised only by the correspondence/oracle of /verif/sim/corr_walls.py):
  * accelerated flight (non-zero force): quadratic hit-time equation, `gsl_poly_solve_quadratic`, `sqrt`
  * triangulated / oblique / STL walls; which triangle of a face a cell knows
  * grazing, edge and corner decisions by `c_wt_dist_eps` in DOUBLE arithmetic (the model's comparisons are exact;
    `delta` only enlarges the faces), rounding of `hit_pos`, of `eps`-displaced positions and of `p->dt -= t`
  * `ReflectorStochastic` in the loop (its law is in PropsR/C08.lean)
-/
import Sympler.CollideStepLemmas

namespace Sympler.Props.C08
open Sympler.Collide

/-- Remaining time strictly decreases with every hit (and stays non-negative): `p->dt -= t_travelled` with
`0 < t_travelled ≤ p->dt`. -/
theorem C08_time_decreases (c : Cfg) (cell : I3) (st : LoopSt) (hit : Hit)
    (h : checkForHit c (walls c cell) st.r st.v st.dtLeft = some hit) :
    0 < hit.t ∧ hit.t ≤ st.dtLeft ∧ (applyHit c st hit).dtLeft = st.dtLeft - hit.t ∧
    (applyHit c st hit).dtLeft < st.dtLeft ∧ 0 ≤ (applyHit c st hit).dtLeft :=
  applyHit_dt_lt h

/-- The loop of `doCollision` with `fuel` passes left either reports "too many collisions" or stops in a state
without further hit after at most `fuel − 1` hits (99 for the C++ bound of 100 passes); time never increases. -/
theorem C08_loop_terminates (c : Cfg) (cell : I3) (fuel : Nat) (st : LoopSt) :
    doCollision c cell fuel st = .tooManyHits ∨
    ∃ st', doCollision c cell fuel st = .done st' ∧
      (∃ l, st'.trace = st.trace ++ l) ∧
      checkForHit c (walls c cell) st'.r st'.v st'.dtLeft = none ∧
      st'.trace.length + 1 ≤ st.trace.length + fuel ∧ st'.dtLeft ≤ st.dtLeft := by
  cases h : doCollision c cell fuel st with
  | tooManyHits => exact Or.inl rfl
  | done st' => exact Or.inr ⟨st', rfl, doCollision_done fuel st st' h⟩

/-- The hit chosen by `checkForHit` is a real hit of one of the checked walls and is the EARLIEST of all of them. -/
theorem C08_earliest (c : Cfg) (ws : List Wall) (r v : V3) (dtl : Rat) (hit : Hit)
    (h : checkForHit c ws r v dtl = some hit) :
    hit.wall ∈ ws ∧ wallHit c hit.wall r v dtl = some (hit.t, hit.pos) ∧
    ∀ w ∈ ws, ∀ t p, wallHit c w r v dtl = some (t, p) → hit.t ≤ t :=
  checkForHit_some h

/-- … and `none` means that no checked wall reports a hit. -/
theorem C08_earliest_none (c : Cfg) (ws : List Wall) (r v : V3) (dtl : Rat)
    (h : checkForHit c ws r v dtl = none) : ∀ w ∈ ws, wallHit c w r v dtl = none :=
  checkForHit_none h

/-- Under the loop invariant the chosen hit position lies in the CLOSED box in every non-periodic direction. -/
theorem C08_hit_in_closed_box (c : Cfg) (ok : CfgOK c) (dt : Rat) (p0 : PState) (st : LoopSt)
    (inv : LInv c dt p0 st) (cell : CellOK c p0) (sp : SpeedOK c dt p0.v) (hk : st.trace.length ≤ 100)
    (hit : Hit) (hh : checkForHit c (walls c p0.cell) st.r st.v st.dtLeft = some hit) :
    ∀ k, c.per k = false → 0 ≤ hit.pos k ∧ hit.pos k ≤ c.box k :=
  hit_in_closed_box ok inv cell sp hk hh

/-- CONFINEMENT, one step, one particle.  Hypotheses:
  `CfgOK c`     box sizes > 0, ≥ 1 cell per direction, `eps > 0`, `delta ≥ 0`, `geps ≥ 0`;
  `0 ≤ dt`;
  `Good c p`    the particle is strictly between the walls in every non-periodic direction and lies (up to `geps`)
                in the existing cell that holds it;
  `SpeedOK`     `|v_d| dt + 100 eps + geps < cell width_d` for every direction `d` (no PARTICLEFLEWTOOFAR; in
                particular `eps` is far smaller than the distance to the opposite wall);
  `NoEdge`      no hit of this step is exactly on an edge/corner of the box (see `C08_edge_witness`).
Conclusion: the step raises the "more than 100 collisions" error, or keeps the particle (`ok`), which is again `Good`
(strictly between the walls, consistent cell), still `SpeedOK`, every velocity component kept up to sign, ≤ 99 hits. -/
theorem C08_confined_cuboid (c : Cfg) (ok : CfgOK c) (dt : Rat) (hdt : 0 ≤ dt) (p : PState)
    (g : Good c p) (sp : SpeedOK c dt p.v) (hne : ∀ h ∈ (step c dt p).trace, NoEdge c h) :
    step c dt p = .tooManyHits ∨
    ∃ p', step c dt p = .ok p' (step c dt p).trace ∧ Good c p' ∧ SpeedOK c dt p'.v ∧
      (∀ d, p'.v d = p.v d ∨ p'.v d = - p.v d) ∧ (step c dt p).trace.length ≤ 99 :=
  step_confined ok hdt g sp hne

/-- PARTICLE NUMBER, one step, all particles: error, or the same number of particles, all `Good` again. -/
theorem C08_count (c : Cfg) (ok : CfgOK c) (dt : Rat) (hdt : 0 ≤ dt) (ps : List PState)
    (hall : AllOK c dt ps) (hne : ∀ p ∈ ps, NoEdgeStep c dt p) :
    stepAll c dt ps = .error .tooManyHits ∨
    ∃ ps', stepAll c dt ps = .ok ps' ∧ ps'.length = ps.length ∧ AllOK c dt ps' :=
  stepAll_count ok hdt ps hall hne

/-- PARTICLE NUMBER over any number `n` of steps (induction over steps): no particle is erased, none flies too far. -/
theorem C08_count_run (c : Cfg) (ok : CfgOK c) (dt : Rat) (hdt : 0 ≤ dt) (n : Nat) (ps : List PState)
    (hall : AllOK c dt ps) (hne : NoEdgeRun c dt n ps) :
    run c dt n ps = .error .tooManyHits ∨
    ∃ ps', run c dt n ps = .ok ps' ∧ ps'.length = ps.length ∧ AllOK c dt ps' :=
  run_count ok hdt n ps hall hne

/-! ### concrete scenarios: non-vacuity and witnesses -/

/-- box 4×4×4, 4×4×4 cells, walls in x and y, periodic in z, `eps = geps = 1e-10`, `delta = 1e-5` -/
def exCfg (rf : Refl) : Cfg :=
  ⟨V3.mk 4 4 4, fun _ => 4, fun k => k = 2, 1 / 10000000000, 1 / 100000, 1 / 10000000000, rf⟩

theorem exCfg_ok (rf : Refl) : CfgOK (exCfg rf) := by
  cases rf <;>
  exact ⟨fun d => by induction d using fin3_cases <;> decide +kernel,
         fun d => by induction d using fin3_cases <;> decide +kernel,
         by decide +kernel, by decide +kernel, by decide +kernel⟩

/-- oblique flight into the corner region, two reflections (x wall, then y wall), no edge hit -/
def exP : PState := ⟨V3.mk (1/4) (1/2) 2, V3.mk (-1) (-1) (1/4), fun k => match k with | 0 => 0 | 1 => 0 | 2 => 2⟩

theorem exP_good (rf : Refl) : Good (exCfg rf) exP := by
  cases rf <;> constructor <;> intro d <;> induction d using fin3_cases <;>
    first | decide +kernel | (intro hp; first | decide +kernel | (exfalso; revert hp; decide +kernel))

theorem exP_speed (rf : Refl) : SpeedOK (exCfg rf) (3/4) exP.v := by
  cases rf <;> intro d <;>
  induction d using fin3_cases <;> decide +kernel

/-- non-vacuity of `C08_confined_cuboid`: all hypotheses hold for `exCfg .mirror`, `exP`, `dt = 3/4`, and the step
really performs two reflections and keeps the particle -/
example : (step (exCfg .mirror) (3/4) exP).trace.all (noEdgeB (exCfg .mirror)) = true ∧
    (step (exCfg .mirror) (3/4) exP).trace.length = 2 ∧ (step (exCfg .mirror) (3/4) exP).isOk = true := by
  decide +kernel

example : ∀ h ∈ (step (exCfg .mirror) (3/4) exP).trace, NoEdge (exCfg .mirror) h := by
  intro h hh
  have : (step (exCfg .mirror) (3/4) exP).trace.all (noEdgeB (exCfg .mirror)) = true := by decide +kernel
  exact (noEdgeB_iff _ h).mp (List.all_eq_true.mp this h hh)

/-- WITNESS (finding `C08-edge-hit-lost`): `ReflectorMirror`, particle at (1/2, 1/2, 2) with velocity (−1, −1, 0),
`dt = 3/4` (displacement 3/4 of a cell).  It reaches the edge x = y = 0 at t = 1/2.  The x-wall is first in the list
and wins the tie; after the reflection the particle sits exactly in the plane of the y-wall (`t = 0`, rejected because
`t > c_wt_time_eps` fails), flies through it and is ERASED by `checkNewPosition` (no outlet): all hypotheses of
`C08_confined_cuboid` except `NoEdge` hold, and the particle is lost. -/
def edgeP : PState := ⟨V3.mk (1/2) (1/2) 2, V3.mk (-1) (-1) 0, fun k => match k with | 0 => 0 | 1 => 0 | 2 => 2⟩

theorem C08_edge_witness :
    (step (exCfg .mirror) (3/4) edgeP).isLost = true ∧
    (step (exCfg .mirror) (3/4) edgeP).trace.all (noEdgeB (exCfg .mirror)) = false := by
  decide +kernel

theorem edgeP_hyps : Good (exCfg .mirror) edgeP ∧ SpeedOK (exCfg .mirror) (3/4) edgeP.v := by
  refine ⟨⟨?_, ?_⟩, ?_⟩
  · intro d hp
    induction d using fin3_cases <;> first | (exfalso; revert hp; decide +kernel) | decide +kernel
  · intro d
    induction d using fin3_cases <;> decide +kernel
  · intro d
    induction d using fin3_cases <;> decide +kernel

/-- the same edge hit with `ReflectorBounceBack` is harmless (the reversed velocity leads away from both walls) -/
theorem C08_edge_bounce_back_ok : (step (exCfg .bounceBack) (3/4) edgeP).isOk = true := by
  decide +kernel

/-- WITNESS for the error branch: bounce-back on a chord of length ≈ 2⁻⁹·√2 across the corner: the particle
oscillates between the two walls, more than 100 collisions within a displacement of 1/2 cell. -/
def chordP : PState := ⟨V3.mk (1/1024) (1/1024) 2, V3.mk (-1) 1 0, fun k => match k with | 0 => 0 | 1 => 0 | 2 => 2⟩

theorem C08_corner_chord_witness :
    (step (exCfg .bounceBack) (1/2) chordP).isTooManyHits = true := by
  decide +kernel

end Sympler.Props.C08
