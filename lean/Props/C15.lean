import Sympler.SmartListLemmas
/-!
# C15 — the particle store stays consistent under any insert/delete sequence

Property theorems about `Sympler.SmartList` (model of `SmartList<T>`,
`/repo/source/include/basic/smart_list.h`).  All statements are for **every** op sequence
`ops : List Op` run from the constructor (`run p ops = (state, spec)`, `spec` the abstract list of
live slots in insertion order) and for every `Params` with `chunkLen = 2 ^ chunkSh`.
-/
open Sympler.SmartList

/-- Doubly linked consistency: forward iteration is exactly the spec list, backward iteration its
reverse, no slot twice; and any fuel `≥ size` gives the same lists (the walks end at `NULL`). -/
theorem C15_refines (p : Params) (hp : p.chunkLen = 2 ^ p.chunkSh) (ops : List Op) :
    forward (run p ops).1 = (run p ops).2 ∧
    backward (run p ops).1 = (run p ops).2.reverse ∧
    (run p ops).2.Nodup ∧
    ∀ fuel, (run p ops).1.size ≤ fuel →
      forwardFuel (run p ops).1 fuel = (run p ops).2 ∧
      backwardFuel (run p ops).1 fuel = (run p ops).2.reverse := by
  have h := Inv.run hp ops
  refine ⟨h.forward_eq, h.backward_eq, h.c.spec_nodup, fun fuel hf => ?_⟩
  rw [h.c.size] at hf
  exact ⟨h.l.forwardFuel_eq h.c.spec_nodup fuel hf, h.l.backwardFuel_eq h.c.spec_nodup fuel hf⟩

/-- The linked structure in pointer terms: `first`/`last` point at the cells of the first/last
spec element (`NULL` iff empty), the cell of a live slot `x` holds `x`, and `prev`/`next` of live
cells are mutually inverse (`x->next->prev == x`, `x->prev->next == x`), `first->prev == NULL`,
`last->next == NULL`. -/
theorem C15_links (p : Params) (hp : p.chunkLen = 2 ^ p.chunkSh) (ops : List Op) :
    (run p ops).1.first = (run p ops).2.head?.map (addr p) ∧
    (run p ops).1.last = (run p ops).2.getLast?.map (addr p) ∧
    (∀ x, x ∈ (run p ops).2 →
      (run p ops).1.rd (addr p x) =
        ⟨x, (prevOf (run p ops).2 x).map (addr p), (nextOf (run p ops).2 x).map (addr p)⟩) ∧
    (∀ x q, x ∈ (run p ops).2 → ((run p ops).1.rd (addr p x)).next = some q →
      ((run p ops).1.rd q).prev = some (addr p x)) ∧
    (∀ x q, x ∈ (run p ops).2 → ((run p ops).1.rd (addr p x)).prev = some q →
      ((run p ops).1.rd q).next = some (addr p x)) ∧
    (∀ x, (run p ops).2.head? = some x → ((run p ops).1.rd (addr p x)).prev = none) ∧
    (∀ x, (run p ops).2.getLast? = some x → ((run p ops).1.rd (addr p x)).next = none) := by
  have h := Inv.run hp ops
  have hnd := h.c.spec_nodup
  refine ⟨h.l.first, h.l.last, h.l.cell, ?_, ?_, ?_, ?_⟩
  · intro x q hx hq
    rw [h.l.cell x hx] at hq
    simp only at hq
    cases hN : nextOf (run p ops).2 x with
    | none => simp [hN] at hq
    | some y =>
      simp only [hN, Option.map_some, Option.some.injEq] at hq
      subst hq
      rw [h.l.cell y (nextOf_mem hN).2, (prevOf_eq_some_iff hnd).2 hN]
      rfl
  · intro x q hx hq
    rw [h.l.cell x hx] at hq
    simp only at hq
    cases hP : prevOf (run p ops).2 x with
    | none => simp [hP] at hq
    | some y =>
      simp only [hP, Option.map_some, Option.some.injEq] at hq
      subst hq
      rw [h.l.cell y (prevOf_mem hP).1, (prevOf_eq_some_iff hnd).1 hP]
      rfl
  · intro x hx
    rw [h.l.cell x (List.mem_of_head? hx), prevOf_head? hnd hx]; rfl
  · intro x hx
    rw [h.l.cell x (List.mem_of_getLast? hx), nextOf_getLast? hnd hx]; rfl

/-- The counters agree with the spec. -/
theorem C15_size (p : Params) (hp : p.chunkLen = 2 ^ p.chunkSh) (ops : List Op) :
    (run p ops).1.size = (run p ops).2.length ∧
    (run p ops).1.size = (run p ops).1.emptyIndex - (run p ops).1.freeSlots.toList.length ∧
    (run p ops).1.freeSlots.toList.length ≤ (run p ops).1.emptyIndex ∧
    (run p ops).1.emptyIndex ≤ (run p ops).1.capacity ∧
    (run p ops).1.capacity = (run p ops).1.nChunks * p.chunkLen := by
  have h := Inv.run hp ops
  have := h.c.cnt
  exact ⟨h.c.size, by omega, by omega, h.c.le, h.c.cap⟩

/-- Slot bookkeeping: live slots are `< emptyIndex`, not free, and address a cell that carries
that very slot; the free list is duplicate free and `< emptyIndex`; the slot the next `newEntry`
would hand out is not live; no assert has fired and no access was out of bounds. -/
theorem C15_slots (p : Params) (hp : p.chunkLen = 2 ^ p.chunkSh) (ops : List Op) :
    (∀ x, x ∈ (run p ops).2 →
      x < (run p ops).1.emptyIndex ∧ x ∉ (run p ops).1.freeSlots.toList ∧
      ((run p ops).1.rd (addr p x)).mySlot = x) ∧
    (run p ops).1.freeSlots.toList.Nodup ∧
    (∀ x, x ∈ (run p ops).1.freeSlots.toList → x < (run p ops).1.emptyIndex) ∧
    (newEntry p (run p ops).1).2 ∉ (run p ops).2 ∧
    (run p ops).1.assertFailed = false ∧ (run p ops).1.oob = false := by
  have h := Inv.run hp ops
  have hnd := List.nodup_append.1 h.c.nodup
  refine ⟨fun x hx => ⟨h.c.lt x (List.mem_append_left _ hx), fun hf => hnd.2.2 x hx x hf rfl, ?_⟩,
    hnd.2.1, fun x hx => h.c.lt x (List.mem_append_right _ hx), ?_, h.c.noAssert, h.c.noOob⟩
  · rw [h.l.cell x hx]
  · have h' := (h.newEntry hp).c.spec_nodup
    intro hm
    exact (List.nodup_append.1 h').2.2 _ hm _ (by simp) rfl

/-- The asserts of `newEntry`/`deleteEntry` never fire and no access leaves the allocated
chunks — also during the *next* operation, whatever it is. -/
theorem C15_no_fault (p : Params) (hp : p.chunkLen = 2 ^ p.chunkSh) (ops : List Op) (op : Op) :
    (stepCore p (run p ops).1 op).1.assertFailed = false ∧
    (stepCore p (run p ops).1 op).1.oob = false := by
  have h := (Inv.run hp ops).stepCore hp op
  exact ⟨h.c.noAssert, h.c.noOob⟩

/-- The address map built from the two macros. -/
theorem C15_address (p : Params) (hp : p.chunkLen = 2 ^ p.chunkSh) :
    (∀ x y, (x >>> p.chunkSh, x &&& (p.chunkLen - 1)) = (y >>> p.chunkSh, y &&& (p.chunkLen - 1))
      → x = y) ∧
    (∀ x, x &&& (p.chunkLen - 1) < p.chunkLen) ∧
    (∀ x, addr p x = (x >>> p.chunkSh, x &&& (p.chunkLen - 1))) ∧
    (∀ ops x, x < (run p ops).1.capacity →
      x >>> p.chunkSh < (run p ops).1.nChunks ∧
      (run p ops).1.chunks.inBounds (addr p x) = true) := by
  refine ⟨fun x y e => (addr_inj hp).1 e, fun x => addr_snd_lt hp x, fun _ => rfl, fun ops x hx => ?_⟩
  have h := Inv.run hp ops
  exact ⟨addr_fst_lt hp (by unfold State.nChunks; rw [← h.c.cap]; exact hx), h.c.inBounds_addr hp hx⟩

/-- The hypothesis `chunkLen = 2 ^ chunkSh` matters: with `CHUNK_SH = 2`, `CHUNK_LEN = 8` the
fifth `newEntry` gets slot 4 `< capacity = 8`, whose chunk id 1 is outside `m_chunks` (size 1). -/
theorem C15_address_needs_pow2 :
    let p : Params := ⟨2, 8⟩
    let s := (run p [.new, .new, .new, .new]).1
    (newEntry p s).2 = 4 ∧ 4 < s.capacity ∧ s.nChunks ≤ slot2chunk p 4 ∧
    (newEntry p s).1.oob = true := by
  decide

/-- … and with `CHUNK_SH = 2`, `CHUNK_LEN = 2` the distinct slots 0 and 2 `< capacity` share one cell. -/
theorem C15_address_collision :
    let p : Params := ⟨2, 2⟩
    let s := (run p [.new, .new, .new]).1
    s.capacity = 4 ∧ (run p [.new, .new, .new]).2 = [0, 1, 2] ∧ addr p 0 = addr p 2 ∧
    forward s ≠ [0, 1, 2] := by
  decide

/-- An op leaves every other live entry live, at the same (state independent) address, with the
same slot and in the same relative order: the iteration after the op is the iteration before it
with the new slot appended (`new`), the deleted slot erased (`del`), or nothing (`clear`). -/
theorem C15_delete_untouched (p : Params) (hp : p.chunkLen = 2 ^ p.chunkSh) (ops : List Op)
    (op : Op) :
    forward (stepCore p (run p ops).1 op).1
      = specStep (forward (run p ops).1) op (stepCore p (run p ops).1 op).2 ∧
    ∀ x, x ∈ forward (run p ops).1 → op ≠ .clear → (stepCore p (run p ops).1 op).2 ≠ some x →
      x ∈ forward (stepCore p (run p ops).1 op).1 ∧
      ((run p ops).1.rd (addr p x)).mySlot = x ∧
      ((stepCore p (run p ops).1 op).1.rd (addr p x)).mySlot = x := by
  have h := Inv.run hp ops
  have h' := h.stepCore hp op
  rw [h'.forward_eq, h.forward_eq]
  refine ⟨rfl, fun x hx hc hr => ?_⟩
  have hx' : x ∈ specStep (run p ops).2 op (stepCore p (run p ops).1 op).2 := by
    cases op with
    | clear => exact absurd rfl hc
    | new => simp [specStep, stepCore, hx]
    | del k =>
      simp only [stepCore, h.forward_eq] at hr
      simp only [specStep]
      cases hk : (run p ops).2[k % (run p ops).2.length]? with
      | none => exact hx
      | some d =>
        simp only [hk] at hr
        exact (h.c.spec_nodup.mem_erase_iff).2 ⟨fun e => hr (by rw [e]), hx⟩
  refine ⟨hx', ?_, ?_⟩
  · rw [h.l.cell x hx]
  · rw [h'.l.cell x hx']

/-- Non-vacuity: a concrete sequence with `CHUNK_SH = 1` (chunks of 2) that grows the store twice,
deletes first / middle / last / only entries, reuses freed slots in FIFO order and clears. -/
example :
    (run ⟨1, 2⟩ [.new, .new, .new, .del 1, .new, .del 0, .del 5, .new, .new, .new, .new]).2
      = [2, 1, 0, 3, 4] ∧
    (run ⟨1, 2⟩ [.new, .new, .new, .del 1, .new, .del 0, .del 5, .new, .new, .new, .new]).1.capacity
      = 6 ∧
    forward (run ⟨1, 2⟩ [.new, .new, .new, .del 1, .new, .del 0, .del 5, .new, .new, .new, .new]).1
      = [2, 1, 0, 3, 4] ∧
    backward (run ⟨1, 2⟩ [.new, .new, .new, .del 1, .new, .del 0, .del 5, .new, .new, .new, .new]).1
      = [4, 3, 0, 1, 2] ∧
    (run ⟨1, 2⟩ [.new, .del 0, .new, .clear, .new, .new]).2 = [0, 1] := by
  decide

example : (⟨1, 2⟩ : Params).chunkLen = 2 ^ (⟨1, 2⟩ : Params).chunkSh := by decide
example : Params.production.chunkLen = 2 ^ Params.production.chunkSh := by decide


/-- the production macros (generated from `smart_list.h`) satisfy the hypothesis of all theorems above -/
theorem C15_production_params : Params.production.chunkLen = 2 ^ Params.production.chunkSh := by decide
