import Sympler.DynLemmas

/-!
# C10 — frozen particles never change; free particles still feel them

Model: `Sympler.Dyn`.  Every write of every modelled module goes through one of three guarded
primitives: `State.mapFree` (`FOR_EACH_FREE_PARTICLE…`: integrators, clearing, particle caches,
one-particle forces) and the two acts-on guards of the pair kernel `pairOp`.  `Pres st st'` collects
what therefore holds between the state before and after ANY phase: same particle count, same
colour/slot/frozen flag of every particle, and `st'.ps i = st.ps i` for every frozen `i`.
-/
namespace Sympler.Dyn

/-- number of frozen particles -/
def nFrozen (st : State) : Nat := ((List.range st.n).filter (fun i => (st.ps i).frozen)).length

/-- **C10_frozen_fixed**.  For EVERY configuration (any list of integrators, particle caches, pair sums,
pair forces, one-particle forces of the modelled kinds; well-formed or not), every state and every
frozen particle `i`: the complete record of `i` — colour, slot, frozen flag, position, velocity, both
force buffers and every tag attribute — is the same after a time step, after the initial force
computation, and after `init` followed by any number of steps; and the number of frozen particles
(indeed the frozen flag of every particle) never changes. -/
theorem C10_frozen_fixed (cfg : Config) (st : State) (i : Nat) (hfz : (st.ps i).frozen = true) (n : Nat) :
    (step cfg st).ps i = st.ps i ∧ (init cfg st).ps i = st.ps i ∧
    (run cfg n (init cfg st)).ps i = st.ps i :=
  ⟨(step_pres cfg st).frozen i hfz, (init_pres cfg st).frozen i hfz,
   ((init_pres cfg st).trans (run_pres cfg n _)).frozen i hfz⟩

theorem C10_frozen_count (cfg : Config) (st : State) (n : Nat) :
    (run cfg n (init cfg st)).n = st.n ∧
    (∀ i, ((run cfg n (init cfg st)).ps i).frozen = (st.ps i).frozen) ∧
    nFrozen (run cfg n (init cfg st)) = nFrozen st := by
  have hp : Pres st (run cfg n (init cfg st)) := (init_pres cfg st).trans (run_pres cfg n _)
  refine ⟨hp.n, fun i => (hp.ident i).2.2, ?_⟩
  unfold nFrozen
  rw [hp.n]
  congr 2
  funext i
  rw [(hp.ident i).2.2]

/-- non-vacuity: the frozen particle of `Ex.stFrozen` carries a velocity `(7,7,7)` and tag values 5;
after 3 steps they are still there, while its free neighbour has moved -/
example : (Ex.stFrozen.ps 1).frozen = true ∧
    ((run Ex.cfg 3 (init Ex.cfg Ex.stFrozen)).ps 1).v = ⟨7, 7, 7⟩ ∧
    ((run Ex.cfg 3 (init Ex.cfg Ex.stFrozen)).ps 1).r = ⟨3/2, 1, 1⟩ ∧
    ((run Ex.cfg 3 (init Ex.cfg Ex.stFrozen)).ps 1).tag (.sym "n") = ⟨5, 5, 5⟩ ∧
    ((run Ex.cfg 3 (init Ex.cfg Ex.stFrozen)).ps 1).tag (.force .vel true) = ⟨5, 5, 5⟩ ∧
    ((run Ex.cfg 3 (init Ex.cfg Ex.stFrozen)).ps 0).r ≠ (Ex.stFrozen.ps 0).r ∧
    nFrozen (run Ex.cfg 3 (init Ex.cfg Ex.stFrozen)) = 1 := by decide +kernel

/-- **C10_felt**.  A frozen partner is a partner: for a registered pair module `m` (force or sum), a FREE
particle `a` and a FROZEN particle `b` of the right colours inside the module's cutoff, the kernel
acts on the pair and adds the full first-particle contribution to `a` (and symmetrically when the
frozen one is the first of the pair).  Together with `C05_force_fresh` / `C07_sum`, whose sums range
over all `b < n` with no condition on `b` being free, this is "free particles feel the frozen ones". -/
theorem C10_felt (cfg : Config) (k : Bool) (m : PairMod) (hm : m ∈ cfg.pairForces ∨ m ∈ cfg.sums)
    (hc : 0 ≤ m.cutoff) (st : State) (a b : Nat) (hab : a ≠ b)
    (hfa : (st.ps a).frozen = false) (hfb : (st.ps b).frozen = true)
    (hin : inCut cfg m (st.ps a) (st.ps b) = true) :
    ((st.ps a).colour = m.c1 → (st.ps b).colour = m.c2 → (m.c1 ≠ m.c2 ∨ a < b) →
      pairDelta cfg k m st a b a (m.target.key k) = m.first (mkEnv cfg.box (st.ps a) (st.ps b))) ∧
    ((st.ps b).colour = m.c1 → (st.ps a).colour = m.c2 → (m.c1 ≠ m.c2 ∨ b < a) →
      inCut cfg m (st.ps b) (st.ps a) = true →
      pairDelta cfg k m st b a a (m.target.key k) = m.second (mkEnv cfg.box (st.ps b) (st.ps a))) := by
  have hba : ¬ b = a := fun h => hab h.symm
  constructor
  · intro h1 h2 h3
    unfold pairDelta
    rw [pairActive_iff cfg m hm hc]
    have hg : pairGuard st m.c1 m.c2 a b = true := by
      simp only [pairGuard, h1, h2, hfa]
      rcases h3 with h3 | h3 <;> simp [hab, h3]
    simp [hg, hin, hfa, hab]
  · intro h1 h2 h3 hin'
    unfold pairDelta
    rw [pairActive_iff cfg m hm hc]
    have hg : pairGuard st m.c1 m.c2 b a = true := by
      simp only [pairGuard, h1, h2, hfa]
      rcases h3 with h3 | h3 <;> simp [hba, h3]
    simp [hg, hin', hfa, hfb]

/-- non-vacuity and the observable effect: with particle 1 frozen the free particle 0 gets the same
force from it as when it is free, and without it the force is different -/
example : ((init Ex.cfg Ex.stFrozen).ps 0).tag (.force .vel false) = ⟨-1/2, 1, 0⟩ ∧
    ((init Ex.cfg Ex.st).ps 0).tag (.force .vel false) = ⟨-1/2, 1, 0⟩ ∧
    ((init Ex.cfg { Ex.stFrozen with n := 1 }).ps 0).tag (.force .vel false) = ⟨0, 1, 0⟩ := by decide +kernel

end Sympler.Dyn
