import Sympler.Cells
import Sympler.Gen.CellListsGen
/-!
# Bridge between the active-list operations regenerated from manager_cell.cpp by symbolic execution of the pointer statements
(`Sympler/Gen/CellListsGen.lean`, translator `translate/t_celllists.py`) and the intrusive list of the model
(`DLL.pushFront`, `DLL.remove` in `Sympler/Cells.lean`), on which the invariants of C09 (`C09_inv_*`) are proved.
Core Lean only.
-/
namespace Sympler.Cells
open Sympler.Gen.CellLists

def toPL (d : DLL) : PL := ⟨d.first, d.next, d.prev, d.count⟩

/-- same list head, same counter, same `next` / `prev` pointer of every object -/
def Same (a : PL) (d : DLL) : Prop :=
  a.first = d.first ∧ a.count = d.count ∧ (∀ i, a.next.get i = d.next.get i) ∧ (∀ i, a.prev.get i = d.prev.get i)

theorem pushFront_same (gen : PL → Nat → PL)
    (hgen : ∀ s c, gen s c =
      (let v := s.first
       let s := { s with next := s.next.set c v }
       let s := match s.next.get c with
         | some x => { s with prev := s.prev.set x (some c) }
         | none => s
       let s := { s with first := some c }
       let s := { s with prev := s.prev.set c none }
       { s with count := s.count + 1 })) (d : DLL) (c : Nat) : Same (gen (toPL d) c) (d.pushFront c) := by
  rw [hgen]
  unfold Same DLL.pushFront toPL
  cases h : d.first with
  | none => simp [Store.get_set_self, h]
  | some f => simp [Store.get_set_self, h]

/-- **`ManagerCell::activateCell` / `activateCellLink`**: the statements of the C++ are `DLL.pushFront` -/
theorem Bridge_activate (d : DLL) (c : Nat) :
    Same (activateCell (toPL d) c) (d.pushFront c) ∧ Same (activateCellLink (toPL d) c) (d.pushFront c) :=
  ⟨pushFront_same activateCell (fun _ _ => rfl) d c, pushFront_same activateCellLink (fun _ _ => rfl) d c⟩

theorem remove_same (gen : PL → Nat → PL)
    (hgen : ∀ s c, gen s c =
      (let s := match s.prev.get c with
         | some x => { s with next := s.next.set x (s.next.get c) }
         | none => { s with first := s.next.get c }
       let s := match s.next.get c with
         | some x => { s with prev := s.prev.set x (s.prev.get c) }
         | none => s
       let s := { s with prev := s.prev.set c none }
       let s := { s with next := s.next.set c none }
       { s with count := s.count - 1 })) (d : DLL) (c : Nat) : Same (gen (toPL d) c) (d.remove c) := by
  rw [hgen]
  unfold Same DLL.remove toPL
  cases hp : d.prev.get c with
  | none =>
    cases hn : d.next.get c with
    | none => simp [hp, hn]
    | some n => simp [hp, hn]
  | some p =>
    have e : (d.next.set p (d.next.get c)).get c = d.next.get c := by
      rw [Store.get_set]; split <;> simp_all
    simp only [hp, e]
    cases hn : d.next.get c with
    | none => simp [hn]
    | some n => simp [hn]

/-- **`ManagerCell::deactivateCell` / `deactivateCellLink`**: the statements of the C++ are `DLL.remove` (reading `c->next` after
`c->prev->next = c->next` gives the same pointer even in a degenerate list) -/
theorem Bridge_deactivate (d : DLL) (c : Nat) :
    Same (deactivateCell (toPL d) c) (d.remove c) ∧ Same (deactivateCellLink (toPL d) c) (d.remove c) :=
  ⟨remove_same deactivateCell (fun _ _ => rfl) d c, remove_same deactivateCellLink (fun _ _ => rfl) d c⟩

end Sympler.Cells
