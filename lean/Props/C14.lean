import Sympler.DataFormatAux
import Sympler.DataFormatCodec
/-!
# C14 — run-time extensible per-particle records keep every attribute intact

Model: `Sympler/DataFormat.lean` (`DataFormat`, `Data`, `SmartPointer` of
`/repo/source/{include,src}/basic/data_format.*`, `smart_pointer.h`).  All theorems quantify over
every operation list `ops : List Op` executed from the empty state (`run al nc State.init ops`),
for every value `al` of the static alignment table (`none`: `alignDataFor` never called) and
every number codec `nc`.

What the C++ really does and the model therefore states (findings, each with a witness below):
* without `alignDataFor` attributes are misaligned (`C14_layout_misaligned_without_alignDataFor`);
* `operator=` between records of the same format leaks the containers of the destination
  (`C14_assign_leaks_witness`);
* `clear` does not empty a container, it frees it and leaves a null pointer: the next access or
  copy dereferences null (`C14_clear_container_witness`);
* the copy constructor / `operator=` duplicate `std::string` by `memcpy`
  (`C14_copy_string_witness`), assigning `""` to a never-set STRING writes through null
  (`C14_string_empty_witness`).
-/
namespace Sympler.DataFormat

open Sympler.Gen.DataFormat

/-! ## The generated tables -/

/-- consistency of `Sympler/Gen/DataFormatGen.lean` with the model's enum; the three smart pointer
    tables name the same types; every `case` of `fromStringByIndex` is also one of
    `toStringByIndex`; sizes are positive, C++ alignments divide 8 -/
theorem C14_gen_tables :
    datatypeNames = DType.all.map DType.name ∧ eoDatatype = DType.all.length ∧
    sizeofRaw.length = eoDatatype ∧ alignofCxx.length = eoDatatype ∧ dataAlignment = 3 ∧
    (∀ t : DType, t.isContainer = allocSmartPointer.contains t.toNat) ∧
    (∀ t : DType, t.isContainer = releaseSmartPointer.contains t.toNat) ∧
    (∀ t : DType, t.fromStringSupported = true → t.toStringSupported = true) ∧
    fromStringNoFallthrough = true ∧
    (∀ t : DType, 0 < t.rawSize ∧ t.cxxAlign ∣ 8 ∧ t.rawSize % t.cxxAlign = 0) := by
  refine ⟨by decide, by decide, by decide, by decide, by decide, ?_, ?_, ?_, by decide, ?_⟩ <;>
    intro t <;> cases t <;> decide

/-! ## Layout -/

/-- **Layout invariant.**  In every reachable state, for every format: indices are positions,
    offsets are the cumulative sums of the (aligned) sizes in index order, the total size is the sum of
    all, two different attributes occupy disjoint byte ranges, every attribute lies inside the total
    size, the C++ object fits into the bytes reserved for it; and if `alignDataFor(n)` was called with
    `n ≥ 3` every offset is a multiple of 8 and of the alignment of the C++ type stored there.
    For every live record with a block: the block holds exactly the first `k` attributes of its
    (possibly grown) format and its byte size is the offset at which attribute `k` would start. -/
theorem C14_layout_inv (al : Option Nat) (nc : NumCodec) (ops : List Op) :
    (∀ (fid : Nat) (f : Format), (reach al nc ops).fmts[fid]? = some f →
      (∀ (i : Nat) (a : Attr), f.byIndex[i]? = some a →
        a.index = i ∧ a.offset = prefixSize al (f.byIndex.take i)) ∧
      f.size = prefixSize al f.byIndex ∧
      (∀ (i j : Nat) (a b : Attr), f.byIndex[i]? = some a → f.byIndex[j]? = some b → i < j →
        a.offset + csize al a.dtype ≤ b.offset) ∧
      (∀ (i : Nat) (a : Attr), f.byIndex[i]? = some a →
        a.offset + csize al a.dtype ≤ f.size ∧ a.dtype.rawSize ≤ csize al a.dtype) ∧
      (∀ n, al = some n → 3 ≤ n → ∀ (i : Nat) (a : Attr), f.byIndex[i]? = some a →
        a.offset % 8 = 0 ∧ a.offset % a.dtype.cxxAlign = 0 ∧ a.misaligned = false)) ∧
    (∀ (d fid : Nat) (dat : Data) (b : Block), (reach al nc ops).datas[d]? = some (some dat) →
      dat.fmt = some fid → dat.block = some b →
      ∃ f : Format, (reach al nc ops).fmts[fid]? = some f ∧ b.vals.length ≤ f.byIndex.length ∧
        b.size = prefixSize al (f.byIndex.take b.vals.length) ∧ b.size ≤ f.size) := by
  have hinv := reach_inv al nc ops
  constructor
  · intro fid f hf
    have hfo := hinv.fmts fid f hf
    refine ⟨fun i a h => ⟨hfo.index i a h, hfo.offset i a h⟩, hfo.size,
      fun i j a b hi hj hij => hfo.disjoint hi hj hij,
      fun i a h => ⟨hfo.end_le_size h, rawSize_le_csize al a.dtype⟩, ?_⟩
    intro n hal hn i a h
    subst hal
    obtain ⟨h8, hm⟩ := hfo.aligned hn h
    refine ⟨Nat.mod_eq_zero_of_dvd h8, ?_, hm⟩
    exact Nat.mod_eq_zero_of_dvd (Nat.dvd_trans (cxxAlign_dvd_8 a.dtype) h8)
  · intro d fid dat b hd hfid hb
    have hdo := hinv.datas d dat hd
    unfold DataOk at hdo
    simp only [hfid] at hdo
    obtain ⟨f, hf, hbo⟩ := hdo
    have := hbo b hb
    exact ⟨f, hf, this.len, this.size, this.size_le (hinv.fmts fid f hf)⟩

/-- witness: WITHOUT `alignDataFor` (only `main()` calls it) an INT followed by a DOUBLE puts the
    double at offset 4 -/
theorem C14_layout_misaligned_without_alignDataFor :
    ((reach none NumCodec.model [.fmt, .fadd 0 "i" .INT false "", .fadd 0 "x" .DOUBLE false ""]).fmts[0]?.bind
        (·.byIndex[1]?)).map (fun a => (a.offset, a.dtype.cxxAlign, a.misaligned)) = some (4, 8, true) := by
  decide +kernel

/-- with `alignDataFor(DATA_ALIGNMENT)` the same two attributes: offset 8 -/
example :
    ((reach (some dataAlignment) NumCodec.model [.fmt, .fadd 0 "i" .INT false "", .fadd 0 "x" .DOUBLE false ""]).fmts[0]?.bind
        (·.byIndex[1]?)).map (fun a => (a.offset, a.misaligned)) = some (8, false) := by
  decide +kernel

/-- **No misaligned access, no use after free.**  Whatever operation is tried in a reachable
    state, it never dereferences a freed heap cell, and after `alignDataFor(n)`, `n ≥ 3`, it never
    touches an object at a misaligned address. -/
theorem C14_no_uaf_no_misaligned (al : Option Nat) (nc : NumCodec) (ops : List Op) (op : Op) (e : Err)
    (h : step al nc (reach al nc ops) op = .error e) :
    e ≠ .ubUaf ∧ (∀ n, al = some n → 3 ≤ n → e ≠ .ubMisaligned) :=
  step_err (reach_inv al nc ops) h

/-! ## Adding attributes -/

/-- **`DataFormat::addAttribute` preserves.**  A successful add leaves every existing attribute
    (name, index, offset, type, persistence, symbol) and every by-name entry unchanged; a new
    attribute gets the next index and the old total size as offset. -/
theorem C14_add_preserves_format (al : Option Nat) (f f' : Format) (name symbol : String) (t : DType)
    (pers : Bool) (a : Attr) (h : f.addAttribute al name t pers symbol = .ok (a, f')) :
    (∀ (i : Nat) (x : Attr), f.byIndex[i]? = some x → f'.byIndex[i]? = some x) ∧
    (∀ (n : String) (x : Attr), f.find n = some x → f'.find n = some x) ∧
    (f.find name = none → a.index = f.byIndex.length ∧ a.offset = f.size ∧ a.dtype = t ∧
      a.persistent = pers ∧ f'.byIndex[a.index]? = some a ∧ f'.find name = some a ∧
      f'.size = f.size + csize al t) := by
  rcases Format.addAttribute_ok_cases h with ⟨hfind, ha, hf'⟩ | ⟨hfind, _, hf'⟩
  · subst hf'
    refine ⟨fun i x hx => ?_, fun n x hx => Format.find_append_of_some hx, fun _ => ?_⟩
    · rw [List.getElem?_append_left ((List.getElem?_eq_some_iff.1 hx).1)]; exact hx
    · have hidx : a.index = f.byIndex.length := by rw [ha]
      have hname : a.name = name := by rw [ha]
      refine ⟨hidx, by rw [ha], by rw [ha], by rw [ha], by rw [hidx]; simp, ?_, rfl⟩
      show (f.byName ++ [a]).find? (fun b => b.name == name) = some a
      rw [List.find?_append]
      have : f.byName.find? (fun b => b.name == name) = none := hfind
      rw [this]; simp [hname]
  · subst hf'
    exact ⟨fun _ _ hx => hx, fun _ _ hx => hx, fun hn => by rw [hn] at hfind; cases hfind⟩

/-- **`Data::addAttribute` / `DataFormat::addAttribute` preserve values.**  In every reachable
    state: after `D->addAttribute(...)` every successful read of `D` and of every other record
    returns what it returned before, the returned attribute, if new (and aligned), reads as
    zero / empty; `F->addAttribute(...)` changes no read of any record. -/
theorem C14_add_preserves (al : Option Nat) (nc : NumCodec) (ops : List Op) :
    (∀ (d : Nat) (name symbol : String) (t : DType) (pers : Bool) (s' : State) (o : Out),
      step al nc (reach al nc ops) (.dadd d name t pers symbol) = .ok (s', o) →
      (∀ (x i : Nat) (r : RVal), (reach al nc ops).read x i = .ok r → s'.read x i = .ok r) ∧
      ∃ a : Attr, o = .attr a ∧
        ((∀ (dat : Data) (fid : Nat) (f : Format), (reach al nc ops).datas[d]? = some (some dat) →
            dat.fmt = some fid → (reach al nc ops).fmts[fid]? = some f → f.find name = none) →
          a.misaligned = false → s'.read d a.index = .ok (RVal.zero t))) ∧
    (∀ (fid : Nat) (name symbol : String) (t : DType) (pers : Bool) (s' : State) (o : Out),
      step al nc (reach al nc ops) (.fadd fid name t pers symbol) = .ok (s', o) →
      ∀ (x i : Nat) (r : RVal), (reach al nc ops).read x i = .ok r → s'.read x i = .ok r) := by
  have hinv := reach_inv al nc ops
  constructor
  · intro d name symbol t pers s' o h
    obtain ⟨a, hd, ho⟩ := step_dadd h
    refine ⟨fun x i r hr => ?_, a, ho, fun hnew hm => dadd_new_reads_zero hinv hd hnew hm⟩
    by_cases hx : x = d
    · subst hx; exact dadd_reads hd hr
    · exact read_frame hinv (step_frame hinv h) (by simp [Op.target]; exact hx) hr
  · intro fid name symbol t pers s' o h x i r hr
    exact read_frame hinv (step_frame hinv h) (by simp [Op.target]) hr

/-- non-vacuity: a record grows by a container attribute, the old value is still there, the new
    attribute reads as the empty vector -/
example :
    ((reach (some 3) NumCodec.model
      [.fmt, .fadd 0 "n" .INT false "", .new 0, .set 0 0 (.int 7), .dadd 0 "v" .VECTOR_DOUBLE true ""]).read 0 0).toOption
      = some (.int 7) ∧
    ((reach (some 3) NumCodec.model
      [.fmt, .fadd 0 "n" .INT false "", .new 0, .set 0 0 (.int 7), .dadd 0 "v" .VECTOR_DOUBLE true ""]).read 0 1).toOption
      = some (.vec []) := by decide +kernel

/-- **Idempotence.**  Asking again for an existing name with the same type returns the registered
    attribute and changes nothing (whatever `persistent` and `symbol` are passed); in a reachable
    state that attribute is the by-index attribute up to `persistent` (`protect/unprotect` write
    the by-index table only). -/
theorem C14_add_idempotent (al : Option Nat) (f : Format) (name symbol : String) (t : DType) (pers : Bool)
    (a : Attr) (hfind : f.find name = some a) (hty : a.dtype = t) :
    f.addAttribute al name t pers symbol = .ok (a, f) := by
  unfold Format.addAttribute
  simp [hfind, hty]

theorem C14_add_idempotent_reachable (al : Option Nat) (nc : NumCodec) (ops : List Op) (fid : Nat) (f : Format)
    (name : String) (a : Attr) (hf : (reach al nc ops).fmts[fid]? = some f) (hfind : f.find name = some a) :
    a.name = name ∧ ∃ b : Attr, f.byIndex[a.index]? = some b ∧ a.samePers b := by
  obtain ⟨hmem, hname⟩ := Format.find_some_mem hfind
  exact ⟨hname, (reach_inv al nc ops |>.fmts fid f hf).byName a hmem⟩

/-- adding twice: the second call returns the attribute of the first and the same format -/
theorem C14_add_twice (al : Option Nat) (f f' : Format) (name s1 s2 : String) (t : DType) (p1 p2 : Bool)
    (a : Attr) (hnew : f.find name = none) (h : f.addAttribute al name t p1 s1 = .ok (a, f')) :
    f'.addAttribute al name t p2 s2 = .ok (a, f') := by
  obtain ⟨_, _, h3⟩ := C14_add_preserves_format al f f' name s1 t p1 a h
  obtain ⟨_, _, hty, _, _, hfind, _⟩ := h3 hnew
  exact C14_add_idempotent al f' name s2 t p2 a hfind hty

/-- **Conflict.**  Asking for an existing name with another type is the error
    "Type mismatch during request of attribute" and (being an exception) changes nothing. -/
theorem C14_add_conflict (al : Option Nat) (f : Format) (name symbol : String) (t : DType) (pers : Bool)
    (a : Attr) (hfind : f.find name = some a) (hty : a.dtype ≠ t) :
    f.addAttribute al name t pers symbol = .error .typeMismatch := by
  unfold Format.addAttribute
  simp [hfind, hty]

example : ((Format.empty.addAttribute (some 3) "rho" .DOUBLE false "").toOption.map (·.2)).bind
      (fun f => (f.addAttribute (some 3) "rho" .INT false "").toOption) = none := by decide +kernel

/-! ## Copies -/

/-- **Deep copy.**  In every reachable state `s`:
    (a) the copy constructor and `operator=` produce a record on which every successful read of the
        source gives the same result;
    (b) independence: no operation changes any successful read of a record other than the one it
        is applied to (in particular setting an attribute of, pushing into a container of, clearing,
        re-allocating or destroying the copy does not affect the source, and vice versa);
    (c) every smart pointer of every live record points to a live heap cell whose reference count is
        1 and which has no other referent (no cell is reachable from two records or two slots, no
        reachable cell is freed);
    (d) every live heap cell has reference count 1 and is referenced (exactly once, by (c)) or is in
        the ghost list `leaked` of cells whose last pointer was overwritten by `operator=`; leaked
        cells have no referent. -/
theorem C14_copy_deep (al : Option Nat) (nc : NumCodec) (ops : List Op) :
    (∀ (e : Nat) (s' : State) (o : Out), step al nc (reach al nc ops) (.copy e) = .ok (s', o) →
      o = .data (reach al nc ops).datas.length ∧
      ∀ (i : Nat) (r : RVal), (reach al nc ops).read e i = .ok r →
        s'.read (reach al nc ops).datas.length i = .ok r) ∧
    (∀ (d e : Nat) (s' : State) (o : Out), step al nc (reach al nc ops) (.assign d e) = .ok (s', o) →
      ∀ (i : Nat) (r : RVal), (reach al nc ops).read e i = .ok r → s'.read d i = .ok r) ∧
    (∀ (op : Op) (s' : State) (o : Out), step al nc (reach al nc ops) op = .ok (s', o) →
      ∀ (x i : Nat) (r : RVal), some x ≠ op.target → (reach al nc ops).read x i = .ok r → s'.read x i = .ok r) ∧
    (∀ (d k a : Nat), (reach al nc ops).slotVal d k = some (Val.sp (some a)) →
      (∃ c : Cell, (reach al nc ops).heap[a]? = some (some c) ∧ c.rc = 1) ∧
      ∀ (d' k' : Nat), (reach al nc ops).slotVal d' k' = some (Val.sp (some a)) → d' = d ∧ k' = k) ∧
    (∀ (a : Nat) (c : Cell), (reach al nc ops).heap[a]? = some (some c) → c.rc = 1 ∧
      ((∃ d k : Nat, (reach al nc ops).slotVal d k = some (Val.sp (some a))) ∨ a ∈ (reach al nc ops).leaked)) ∧
    (∀ a ∈ (reach al nc ops).leaked, ∀ (d k : Nat), (reach al nc ops).slotVal d k ≠ some (Val.sp (some a))) := by
  have hinv := reach_inv al nc ops
  refine ⟨?_, ?_, ?_, ?_, ?_, ?_⟩
  · intro e s' o h
    obtain ⟨id, hc, ho⟩ := step_copy h
    obtain ⟨_, _, hid, _⟩ := copyData_ok_cases hc
    subst hid
    exact ⟨ho, fun i r hr => copy_reads hinv hc hr⟩
  · intro d e s' o h i r hr
    exact assign_reads hinv (step_assign h) hr
  · intro op s' o h x i r hx hr
    exact read_frame hinv (step_frame hinv h) hx hr
  · intro d k a hk
    have hown : owns (valsOf (reach al nc ops).datas d) a := ⟨k, hk⟩
    obtain ⟨c, hc⟩ := hinv.heap.live d a hown
    refine ⟨⟨c, hc, hinv.heap.rc a c hc⟩, fun d' k' hk' => ?_⟩
    have hd := hinv.heap.sep d' d a ⟨k', hk'⟩ hown
    subst hd
    exact ⟨rfl, hinv.heap.inj d' k' k a hk' hk⟩
  · intro a c hc
    refine ⟨hinv.heap.rc a c hc, ?_⟩
    rcases hinv.heap.complete a c hc with ⟨d, k, hk⟩ | hl
    · exact Or.inl ⟨d, k, hk⟩
    · exact Or.inr hl
  · intro a ha d k hk
    exact hinv.heap.leakSep a ha d ⟨k, hk⟩

/-- non-vacuity of (a)–(c): copy a record with a container, push into the copy, the source is
    unchanged; assign back, both agree again -/
example :
    ((reach (some 3) NumCodec.model
        [.fmt, .fadd 0 "v" .VECTOR_INT false "", .new 0, .push 0 0 (.int 1), .copy 0, .push 1 0 (.int 2)]).read 0 0).toOption
      = some (.vec [.int 1]) ∧
    ((reach (some 3) NumCodec.model
        [.fmt, .fadd 0 "v" .VECTOR_INT false "", .new 0, .push 0 0 (.int 1), .copy 0, .push 1 0 (.int 2)]).read 1 0).toOption
      = some (.vec [.int 1, .int 2]) ∧
    ((reach (some 3) NumCodec.model
        [.fmt, .fadd 0 "v" .VECTOR_INT false "", .new 0, .push 0 0 (.int 1), .copy 0, .push 1 0 (.int 2),
         .assign 0 1]).read 0 0).toOption = some (.vec [.int 1, .int 2]) := by decide +kernel

/-- **finding (leak).**  `operator=` between two records of the same format overwrites the smart
    pointers of the destination by `memcpy` without releasing them: the destination's vector (cell 1)
    stays allocated with reference count 1 and no referent. -/
theorem C14_assign_leaks_witness :
    (reach (some 3) NumCodec.model
      [.fmt, .fadd 0 "v" .VECTOR_DOUBLE false "", .new 0, .new 0, .assign 1 0]).leaked = [1] ∧
    (reach (some 3) NumCodec.model
      [.fmt, .fadd 0 "v" .VECTOR_DOUBLE false "", .new 0, .new 0, .assign 1 0]).heap[1]? = some (some ⟨[], 1⟩) := by
  decide +kernel

/-- **No leak without `operator=`.**  If no `operator=` is executed, the ghost list stays empty: every
    live heap cell has reference count 1 and exactly one referent (reference count = number of
    referents), and a cell is freed exactly when its count drops to 0 (`Heap.release`). -/
theorem C14_no_leak_without_assign (al : Option Nat) (nc : NumCodec) (ops : List Op)
    (hno : ∀ op ∈ ops, op.isAssign = false) :
    (reach al nc ops).leaked = [] ∧
    ∀ (a : Nat) (c : Cell), (reach al nc ops).heap[a]? = some (some c) → c.rc = 1 ∧
      ∃ d k : Nat, (reach al nc ops).slotVal d k = some (Val.sp (some a)) ∧
        ∀ d' k' : Nat, (reach al nc ops).slotVal d' k' = some (Val.sp (some a)) → d' = d ∧ k' = k := by
  have hl : (reach al nc ops).leaked = [] := run_leaked ops hno State.init
  refine ⟨hl, fun a c hc => ?_⟩
  obtain ⟨_, _, _, h4, h5, _⟩ := C14_copy_deep al nc ops
  obtain ⟨hrc, hor⟩ := h5 a c hc
  refine ⟨hrc, ?_⟩
  rcases hor with ⟨d, k, hk⟩ | hmem
  · exact ⟨d, k, hk, (h4 d k a hk).2⟩
  · rw [hl] at hmem; cases hmem

/-- **finding.**  The copy constructor duplicates an assigned `std::string` with `memcpy`
    (model: the operation is the error `ubStrCopy`; real code: both records share one character
    buffer, see the replay in the report). -/
theorem C14_copy_string_witness :
    errOf (step (some 3) NumCodec.model
      (reach (some 3) NumCodec.model [.fmt, .fadd 0 "s" .STRING false "", .new 0, .set 0 0 (.str (some ['a']))])
      (.copy 0)) = some .ubStrCopy := by
  decide +kernel

/-! ## Clearing -/

/-- **`clear` is exact.**  `D->clear()` in a reachable state: the slot of every attribute inside the
    block becomes the all-zero pattern exactly when the attribute is not persistent (by-index flag)
    and is untouched otherwise; every successful read of a persistent attribute and of every other
    record is unchanged; formats are unchanged. -/
theorem C14_clear_exact (al : Option Nat) (nc : NumCodec) (ops : List Op) (d : Nat) (s' : State) (o : Out)
    (h : step al nc (reach al nc ops) (.clear d) = .ok (s', o)) :
    ∃ (dat : Data) (fid : Nat) (f : Format), (reach al nc ops).datas[d]? = some (some dat) ∧
      dat.fmt = some fid ∧ (reach al nc ops).fmts[fid]? = some f ∧ s'.fmts = (reach al nc ops).fmts ∧
      (∀ (i : Nat) (v : Val) (a : Attr), (reach al nc ops).slotVal d i = some v → f.byIndex[i]? = some a →
        s'.slotVal d i = some (if a.persistent then v else zeroVal a.dtype)) ∧
      (∀ i, (reach al nc ops).slotVal d i = none → s'.slotVal d i = none) ∧
      (∀ (i : Nat) (a : Attr) (r : RVal), f.byIndex[i]? = some a → a.persistent = true →
        (reach al nc ops).read d i = .ok r → s'.read d i = .ok r) ∧
      (∀ (x i : Nat) (r : RVal), x ≠ d → (reach al nc ops).read x i = .ok r → s'.read x i = .ok r) := by
  have hinv := reach_inv al nc ops
  have hc := step_clear h
  obtain ⟨dat, fid, f, hd, hfid, hf, hfm, hchar, hnone, _⟩ := clear_exact hinv hc
  refine ⟨dat, fid, f, hd, hfid, hf, hfm, ?_, hnone, ?_, ?_⟩
  · intro i v a hv ha
    have := hchar i v a hv ha
    rw [this]
    cases a.persistent <;> simp
  · intro i a r ha hp hr
    apply clear_reads_kept hinv hc _ hr
    intro dat' fid' f' a' hd' hfid' hf' ha'
    rw [hd] at hd'; injection hd' with hd'; injection hd' with hd'; subst hd'
    rw [hfid] at hfid'; injection hfid' with hfid'; subst hfid'
    rw [hf] at hf'; injection hf' with hf'; subst hf'
    rw [ha] at ha'; injection ha' with ha'; subst ha'
    simp [hp]
  · intro x i r hx hr
    exact read_frame hinv (step_frame hinv h) (by simp [Op.target]; exact hx) hr

/-- **finding.**  "Zero" for a container attribute is a null smart pointer, not an empty vector:
    after `clear` reading the attribute or copying the record dereferences a null pointer. -/
theorem C14_clear_container_witness :
    errOf (step (some 3) NumCodec.model
      (reach (some 3) NumCodec.model [.fmt, .fadd 0 "v" .VECTOR_DOUBLE false "", .new 0, .clear 0]) (.get 0 0))
      = some .ubNullSp ∧
    errOf (step (some 3) NumCodec.model
      (reach (some 3) NumCodec.model [.fmt, .fadd 0 "v" .VECTOR_DOUBLE false "", .new 0, .clear 0]) (.copy 0))
      = some .ubNullSp := by
  decide +kernel

/-- non-vacuity: a persistent and a non-persistent attribute, `clear` zeroes the second only -/
example :
    ((reach (some 3) NumCodec.model
        [.fmt, .fadd 0 "p" .INT true "", .fadd 0 "q" .INT false "", .new 0, .set 0 0 (.int 5), .set 0 1 (.int 6),
         .clear 0]).read 0 0).toOption = some (.int 5) ∧
    ((reach (some 3) NumCodec.model
        [.fmt, .fadd 0 "p" .INT true "", .fadd 0 "q" .INT false "", .new 0, .set 0 0 (.int 5), .set 0 1 (.int 6),
         .clear 0]).read 0 1).toOption = some (.int 0) := by decide +kernel

/-! ## Text -/

/-- **Text round trip (values).**  For every number codec that satisfies `NumCodec.Good` on `dom`
    (`%g` prints no `(`, `)`, `,`; `atof` reads its output back, also after one blank — for glibc this
    holds for the doubles nearest to decimals with at most 6 significant digits) and whose
    `atoi ∘ %i` is the identity on `idom`: `fromStringByIndex (toStringByIndex v) = v` for INT,
    DOUBLE, POINT, TENSOR and for every STRING without exception (no character is special:
    `toString` returns the stored string, `fromString` assigns the text).
    For INT_POINT and VECTOR_TENSOR `toStringByIndex` throws, for INT_POINT and all VECTOR_* types
    `fromStringByIndex` throws ("Unsupported data format"). -/
theorem C14_text_roundtrip (nc : NumCodec) (dom : Rat → Prop) (idom : Int → Prop) (hg : nc.Good dom)
    (hi : ∀ n, idom n → nc.atoi (nc.fmtI n) = n) :
    (∀ n txt, idom n → toText nc .INT (.int n) = .ok txt → fromText nc .INT txt = .ok (.int n)) ∧
    (∀ x txt, dom x → toText nc .DOUBLE (.dbl x) = .ok txt → fromText nc .DOUBLE txt = .ok (.dbl x)) ∧
    (∀ p txt, P3.dom dom p → toText nc .POINT (.pt p) = .ok txt → fromText nc .POINT txt = .ok (.pt p)) ∧
    (∀ t txt, T9.dom dom t → toText nc .TENSOR (.tens t) = .ok txt → fromText nc .TENSOR txt = .ok (.tens t)) ∧
    (∀ s txt, toText nc .STRING (.str s) = .ok txt → fromText nc .STRING txt = .ok (.str (some s))) ∧
    (∀ r, toText nc .INT_POINT r = .error .unsupported ∧ toText nc .VECTOR_TENSOR r = .error .unsupported) ∧
    (∀ t : DType, t.fromStringSupported = false → ∀ txt, fromText nc t txt = .error .unsupported) := by
  refine ⟨?_, ?_, ?_, ?_, ?_, ?_, ?_⟩
  · intro n txt hn h
    simp only [toText, Except.ok.injEq] at h
    subst h
    simp [fromText, hi n hn]
  · intro x txt hx h
    simp only [toText, Except.ok.injEq] at h
    subst h
    simp [fromText, hg.atof_fmtG x hx]
  · intro p txt hp h
    simp only [toText, Except.ok.injEq] at h
    subst h
    simp [fromText, parsePoint_showPoint hg hp]
  · intro t txt ht h
    simp only [toText, Except.ok.injEq] at h
    subst h
    simp [fromText, parseTensor_showTensor hg ht]
  · intro s txt h
    simp only [toText, Except.ok.injEq] at h
    subst h
    rfl
  · intro r
    cases r <;> exact ⟨rfl, rfl⟩
  · intro t ht txt
    cases t <;> first | rfl | (exact absurd ht (by decide))

/-- **Text round trip (records).**  In a reachable state, writing attribute `i` of record `d` to
    text and reading that text back into the same attribute (`fromStringByIndex(i,
    toStringByIndex(i))`) leaves a record whose attribute reads as before, for every attribute type
    both functions handle and every value in the codec's domain.  (The second call is not defined
    only for a never-assigned STRING, whose text is empty: `C14_string_empty_witness`.) -/
theorem C14_text_roundtrip_state (al : Option Nat) (nc : NumCodec) (ops : List Op) (dom : Rat → Prop)
    (idom : Int → Prop) (hg : nc.Good dom) (hi : ∀ n, idom n → nc.atoi (nc.fmtI n) = n)
    (d i : Nat) (r : RVal) (txt : List Char) (s' : State)
    (hr : (reach al nc ops).read d i = .ok r) (hdom : RVal.inDom dom idom r)
    (ht : toStrData nc (reach al nc ops) d i = .ok txt)
    (hf : fromStrData nc (reach al nc ops) d i txt = .ok s') :
    s'.read d i = .ok r := by
  obtain ⟨l, r', hl, hr', htt⟩ := toStrData_ok ht
  rw [hr] at hr'; injection hr' with hr'; subst hr'
  unfold fromStrData at hf
  rw [hl] at hf
  simp only at hf
  split at hf
  · cases hf
  · rename_i v hv
    exact read_after_write hl hf (roundtrip_val hg hi hdom htt hv)

/-- **finding.**  A STRING attribute that was never assigned reads as the empty string, but
    assigning the empty string to it (so also reading back its own text) writes through the null
    `_M_p` of the all-zero `std::string`. -/
theorem C14_string_empty_witness :
    errOf (step (some 3) NumCodec.model
      (reach (some 3) NumCodec.model [.fmt, .fadd 0 "s" .STRING false "", .new 0]) (.fromstr 0 0 [])) = some .ubStrNull ∧
    ((reach (some 3) NumCodec.model [.fmt, .fadd 0 "s" .STRING false "", .new 0]).read 0 0).toOption
      = some (.str []) := by
  decide +kernel

/-- a finite table on which the executable model of `%g` / `atof` / `%i` / `atoi` satisfies the
    assumptions of the round trip theorems (non-vacuity of `NumCodec.Good`): zero, negative, tiny,
    ≥ 1e6, six significant digits, both notations -/
def sampleDoubles : List Rat :=
  [0, 1, -1, 3/8, -5/2, 1/10, 123456, 1234560, 1000000, 999999, 1/100000, 1/10000, -123456/100000000000,
   5/1000000000000000, 271828/100000, 602214/1000 * 1000000000000000000000]

def sampleInts : List Int := [0, 1, -1, 42, -99999, 999999999, -999999999]

theorem C14_model_codec_good :
    NumCodec.model.Good (fun x => x ∈ sampleDoubles) ∧
    ∀ n, n ∈ sampleInts → NumCodec.model.atoi (NumCodec.model.fmtI n) = n := by
  have key : sampleDoubles.all (fun x =>
      !(NumCodec.model.fmtG x).contains '(' && !(NumCodec.model.fmtG x).contains ')' &&
      !(NumCodec.model.fmtG x).contains ',' && NumCodec.model.atof (NumCodec.model.fmtG x) == x &&
      NumCodec.model.atof (' ' :: NumCodec.model.fmtG x) == x) = true := by decide +kernel
  have keyi : sampleInts.all (fun n => NumCodec.model.atoi (NumCodec.model.fmtI n) == n) = true := by
    decide +kernel
  rw [List.all_eq_true] at key keyi
  refine ⟨⟨?_, ?_, ?_, ?_, ?_⟩, ?_⟩
  · intro x hx hm
    have := key x hx
    simp only [Bool.and_eq_true, Bool.not_eq_true', beq_iff_eq] at this
    have h1 := this.1.1.1.1
    rw [List.contains_eq_mem] at h1
    simp [hm] at h1
  · intro x hx hm
    have := key x hx
    simp only [Bool.and_eq_true, Bool.not_eq_true', beq_iff_eq] at this
    have h1 := this.1.1.1.2
    rw [List.contains_eq_mem] at h1
    simp [hm] at h1
  · intro x hx hm
    have := key x hx
    simp only [Bool.and_eq_true, Bool.not_eq_true', beq_iff_eq] at this
    have h1 := this.1.1.2
    rw [List.contains_eq_mem] at h1
    simp [hm] at h1
  · intro x hx
    have := key x hx
    simp only [Bool.and_eq_true, Bool.not_eq_true', beq_iff_eq] at this
    exact this.1.2
  · intro x hx
    have := key x hx
    simp only [Bool.and_eq_true, Bool.not_eq_true', beq_iff_eq] at this
    exact this.2
  · intro n hn
    have := keyi n hn
    simpa using this

/-- for the executable codec the INT assumption of the round trip theorems holds for every integer
    (character level: decimal digits, optional minus sign) -/
theorem C14_text_roundtrip_int_model (n : Int) : NumCodec.model.atoi (NumCodec.model.fmtI n) = n :=
  atoiModel_fmtIModel n

/-- non-vacuity of the record-level round trip with the executable codec -/
example :
    ((reach (some 3) NumCodec.model
        [.fmt, .fadd 0 "p" .POINT false "", .new 0, .set 0 0 (.pt ⟨3/8, -5/2, 1234560⟩),
         .fromstr 0 0 "(0.375, -2.5, 1.23456e+06)".toList]).read 0 0).toOption = some (.pt ⟨3/8, -5/2, 1234560⟩) ∧
    (toStrData NumCodec.model (reach (some 3) NumCodec.model
        [.fmt, .fadd 0 "p" .POINT false "", .new 0, .set 0 0 (.pt ⟨3/8, -5/2, 1234560⟩)]) 0 0).toOption
      = some "(0.375, -2.5, 1.23456e+06)".toList := by decide +kernel

end Sympler.DataFormat
