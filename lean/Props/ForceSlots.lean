import Sympler.Gen.ForceSlotsGen
/-!
C20 — the per-thread copy-vector bookkeeping of EVERY force module (OpenMP-only code, never compiled in the serial build).

`Sympler.Gen.ForceSlots.setSites` / `writeSites` are regenerated from the OpenMP branch of the sources on every check run
(translate/t_forceslots.py).  The statements below are evaluated by the kernel over the whole table:

* `C20_set_sites_consistent`   every block of every `X::setForceSlots` stores the integrator's slot (`offsetToVec()[thread]`,
  `posInVec()`) in the side (`.first` / `.second`) that its own colour test names, and both fields use the same side;
* `C20_write_sites_consistent` every write into a copy vector uses the same side for the vector offset and for the position in the
  vector, and that side is the one the written partner (pair layout) or its species guard (species layout) names;
* `C20_layouts_agree`          within one file the set-up and the kernels use the SAME layout: a module whose `setForceSlots` files
  the slots by the colours of the pair must not pick them by species in its kernel, and vice versa (the LJ / LJVC defect fixed in
  /repo c75f952 was exactly this mix).
-/
namespace Sympler.ForceSlots
open Sympler.Gen.ForceSlots

def setOK (r : String × String × String × String × String × String × String × String × Bool) : Bool :=
  let (_, _, _, _, layout, want, off, pos, rhs) := r
  (layout == "pair" || layout == "species") && (want == "first" || want == "second") && off == want && pos == want && rhs

def writeOK (r : String × String × String × String × String × String × String × String) : Bool :=
  let (_, _, _, _, layout, want, off, pos) := r
  (layout == "pair" || layout == "species") && (want == "first" || want == "second") && off == want && pos == want

/-- files whose kernels use the `setForceSlots` of another file's class: (base name of the kernel file, base name of the file that
sets the slots); header and .cpp of one class share their base name -/
def inherits : List (String × String) := [("force:lennard_jones_vc", "force:lennard_jones")]

def setterOf (b : String) : String := ((inherits.find? (fun p => p.1 == b)).map (·.2)).getD b

/-- force modules: the kernels use the layout of the module's own `setForceSlots`; symbol calculators (slots set centrally by
`Simulation::setupCopyVectors` from the colours of the pair): the pair layout -/
def layoutsAgree : Bool :=
  writeSites.all fun w =>
    let b := setterOf w.2.1
    let ls := (setSites.filter (fun s => s.2.1 == b)).map (fun s => s.2.2.2.2.1)
    if b.startsWith "calc:" then w.2.2.2.2.1 == "pair" else (!ls.isEmpty && ls.all (· == w.2.2.2.2.1))

def calcOK (r : String × String × String × String × String) : Bool :=
  let (_, _, _, want, used) := r
  (want == "first" || want == "second") && used == want

theorem C20_set_sites_consistent : setSites.all setOK = true := by decide +kernel

theorem C20_write_sites_consistent : writeSites.all writeOK = true := by decide +kernel

theorem C20_layouts_agree : layoutsAgree = true := by decide +kernel

/-- symbol calculators: `Simulation` files the slot of the pair's first colour under `.first`, and `mergeCopies` reads `.first`
into `copySlot1` / `vecSlot1` (the variables used in the loop over the first colour) -/
theorem C20_calc_sites_consistent : calcSites.all calcOK = true := by decide +kernel

/-- modules that cannot be instantiated in the current tree (see DESIGN.md, FDPDE: its setup asks for an attribute that no longer
exists): their OpenMP branch is not held against the serial one -/
def incExempt : List String := ["source/src/force/f_dpde.cpp"]

/-- the OpenMP branch of every kernel adds exactly what the serial branch adds: same partner, same sign, same right-hand side -/
theorem C20_omp_branch_same_increments :
    incSites.all (fun r => r.2.1 == r.2.2 || incExempt.contains r.1) = true := by decide +kernel

/-- the tables are not empty: every pair force of the tree is covered -/
theorem C20_slot_tables_cover : 40 ≤ setSites.length ∧ 40 ≤ writeSites.length ∧ 20 ≤ calcSites.length ∧ 30 ≤ incSites.length := by decide +kernel

end Sympler.ForceSlots
