import Sympler.Threads
import Sympler.ThreadsLemmas
/-!
# C20 — the OpenMP build gives the same physics for every thread count   (PARTIAL by design)

Model: `Sympler/Threads.lean` (the C++ facts it mirrors, with file:line, are listed in its header).
What is proved (exact arithmetic, `Rat`): for every thread count `T ≥ 1`, every valid activation / deactivation history
of the cell links, every interleaving of the threads' atomic `+=` steps, every merge table:
the per-thread pair lists partition the serial pair list (`C20_partition*`), the copies after the parallel loop do not
depend on the interleaving (`C20_interleaving`; for ANY binary operation — e.g. a rounding addition — as long as each
thread keeps its own order, `C20_interleaving_order`), the serial merge delivers exactly the serial sums and leaves all
copies zero (`C20_merge`), also over a sequence of stages that reuse the same copy slots (`C20_steps`), and so the
result equals the serial build's and is the same for all `T` (`C20_equal`, `C20_thread_count_independent`).

ASSUMED, not proved (run-time facts of the C++; this is why C20 is PARTIAL):
* data-race freedom: during the parallel loop thread `t` writes ONLY cells `(t, ·, ·)` of the copy vectors (and its own
  pair list / pair tags) and reads nothing that another thread writes; each `+=` on a cell is not torn.  The model has
  no shared scratch at all.  Places where the real code does write shared state inside the parallel loops are listed
  in the report for C20 (shared RNG of `FDPD`/`FDPDE`/`PairRand*`, `cpsFinished` controller.cpp:955/1243,
  `double size` verlet_creator.cpp:365).
* the merge is serial and starts after the parallel loop has ended (controller.cpp:323-335, 635-647, 963-981).
* every contribution is `admissible`: its thread exists and the merge loops contain an entry for its cell.  The
  hypothesis is load-bearing — see `C20_unmerged_leak_witness`; the real code violates it in `Controller::runSymbols_0`,
  which merges `valCalculatorParts(stage)` (controller.cpp:1258) although the threads ran
  `valCalculatorParts_0(stage)` (pairdist.cpp:254-258).
* the layout: the real slot `destOf cells p s` that copy slot `s` is merged into is the slot the serial build adds
  to directly (`FPairVels::setForceSlots` f_pair_vels.cpp:134-174, `Simulation::setupCopyVectors` simulation.cpp:127-282).
* floating point: `+` on `double` is not associative, so "equal" here means "equal up to summation order"; in the
  exact regime used by the correspondence runs (dyadic inputs) it is bit-for-bit.
-/
namespace Sympler.Threads

/-! ## partition -/

/-- **C20_partition.**  For every thread count `T`, every list `l` and every assignment `a` with `a x < T`: the concatenation over
    `t < T` of the sub-lists owned by `t` is a permutation of `l`.  (`T ≥ 1` is not needed: for `T = 0` the hypothesis forces `l = []`.) -/
theorem C20_partition {α : Type} (T : Nat) (l : List α) (a : α → Nat) (h : ∀ x ∈ l, a x < T) :
    ((List.range T).flatMap fun t => l.filter (fun x => a x == t)).Perm l :=
  partition_perm a T l h

/-- the real rule is round robin: after `n` activations the counter is `(c + n) mod T`; the `i`-th activated link gets `(c + i) mod T` -/
theorem C20_round_robin (T c n : Nat) (h : c < T) : counterAfter T c n = (c + n) % T :=
  counterAfter_eq_mod n c h

/-- **the model's assignment**: after ANY valid history of activations and deactivations (the counter is never moved back, so the
    assignment is round robin only over the activation order) every per-thread link list is the serial list restricted to the
    links owned by that thread, in the same order; owners are `< T`; threads `≥ T` own nothing. -/
theorem C20_assignment (T : Nat) (hT : 1 ≤ T) (ops : List LinkOp) (hv : validOps [] ops = true) :
    let m := Mgr.init.run T ops
    let s := serialRun [] ops
    (∀ t, m.firstLink t = s.filter (fun l => m.mThread l == t)) ∧ (∀ l ∈ s, m.mThread l < T) ∧ m.counter < T := by
  have h := Inv.run ops _ _ hv (Inv.init hT)
  exact ⟨h.lists, h.thread_lt, h.counter_lt⟩

/-- `C20_partition` specialised to the links of the model -/
theorem C20_partition_links (T : Nat) (hT : 1 ≤ T) (ops : List LinkOp) (hv : validOps [] ops = true) :
    ((List.range T).flatMap (Mgr.init.run T ops).firstLink).Perm (serialRun [] ops) := by
  obtain ⟨h1, h2, _⟩ := C20_assignment T hT ops hv
  have := C20_partition T (serialRun [] ops) (Mgr.init.run T ops).mThread h2
  rwa [flatMap_congr' _ _ _ (fun t _ => (h1 t).symm)] at this

/-- … and to the pair lists: the union of `freePairs()[t]`, `t < T`, is a permutation of the serial pair list -/
theorem C20_partition_pairs {π : Type} (T : Nat) (hT : 1 ≤ T) (ops : List LinkOp) (hv : validOps [] ops = true)
    (gen : Nat → List π) :
    ((List.range T).flatMap (pairList gen (Mgr.init.run T ops))).Perm (serialPairList gen (serialRun [] ops)) := by
  have h := (C20_partition_links T hT ops hv).flatMap_right gen
  rwa [List.flatMap_assoc] at h

/-! ## interleavings -/

/-- **C20_interleaving** (strong form): ANY permutation of the sequence of atomic steps gives the same copies. -/
theorem C20_interleaving (c : Copies) (ks ks' : List Contrib) (h : ks.Perm ks') :
    accumulate c ks = accumulate c ks' :=
  h.foldl_eq' (fun x _ y _ z => stepWith_comm z x y) c

/-- **C20_interleaving_order**: steps of different threads touch disjoint cells, so for ANY update operation `op` (exact `+`,
    a rounding `+`, …) two step sequences with the same per-thread sub-sequences give the same copies. -/
theorem C20_interleaving_order (op : Rat → Rat → Rat) (c : Copies) (ks ks' : List Contrib)
    (h : ∀ t, ks.filter (fun k => k.thread == t) = ks'.filter (fun k => k.thread == t)) :
    accumulateWith op c ks = accumulateWith op c ks' := by
  funext t p s
  rw [accumulateWith_thread op t ks, accumulateWith_thread op t ks', h t]

/-- `ks` is an interleaving of the threads' own sequences `seq t`, `t < T` -/
def IsInterleaving (T : Nat) (seq : Nat → List Contrib) (ks : List Contrib) : Prop :=
  (∀ k ∈ ks, k.thread < T) ∧ ∀ t, t < T → ks.filter (fun k => k.thread == t) = seq t

theorem IsInterleaving.perm {T : Nat} {seq : Nat → List Contrib} {ks : List Contrib} (h : IsInterleaving T seq ks) :
    ks.Perm ((List.range T).flatMap seq) := by
  have := (C20_partition T ks Contrib.thread h.1).symm
  rwa [flatMap_congr' _ _ seq (fun t ht => h.2 t (List.mem_range.mp ht))] at this

/-- repeated runs with the same `T`: two interleavings of the same per-thread sequences give identical copies for any `op`
    (so with real `double` addition the copies are bit-identical from run to run, given race freedom) -/
theorem C20_run_independent (op : Rat → Rat → Rat) (T : Nat) (seq : Nat → List Contrib) (c : Copies) (ks ks' : List Contrib)
    (h : IsInterleaving T seq ks) (h' : IsInterleaving T seq ks') :
    accumulateWith op c ks = accumulateWith op c ks' := by
  apply C20_interleaving_order
  intro t
  by_cases ht : t < T
  · rw [h.2 t ht, h'.2 t ht]
  · have e : ∀ l : List Contrib, (∀ k ∈ l, k.thread < T) → l.filter (fun k => k.thread == t) = [] := by
      intro l hl
      apply List.filter_eq_nil_iff.mpr
      intro k hk
      have := hl k hk
      simp; omega
    rw [e ks h.1, e ks' h'.1]

private theorem flatMap_range_nil {β : Type} (T t : Nat) (l : List β) (h : T ≤ t) :
    ((List.range T).flatMap fun t' => if t' = t then l else []) = [] := by
  apply List.flatMap_eq_nil_iff.mpr
  intro x hx
  have := List.mem_range.mp hx
  have : x ≠ t := by omega
  simp [this]

private theorem flatMap_range_single {β : Type} : ∀ (T t : Nat) (l : List β), t < T →
    ((List.range T).flatMap fun t' => if t' = t then l else []) = l
  | 0, _, _, h => absurd h (Nat.not_lt_zero _)
  | T + 1, t, l, h => by
    rw [List.range_succ, List.flatMap_append]
    by_cases ht : t < T
    · have : T ≠ t := by omega
      simp [flatMap_range_single T t l ht, this]
    · have e : T = t := by omega
      subst e
      rw [flatMap_range_nil T T l (Nat.le_refl _)]
      simp

/-- non-vacuity of `IsInterleaving` in general: running the threads one after the other is an interleaving -/
theorem C20_sequential_isInterleaving (T : Nat) (seq : Nat → List Contrib) (hseq : ∀ t, ∀ k ∈ seq t, k.thread = t) :
    IsInterleaving T seq ((List.range T).flatMap seq) := by
  constructor
  · intro k hk
    obtain ⟨t, ht, hkt⟩ := List.mem_flatMap.mp hk
    rw [hseq t k hkt]; exact List.mem_range.mp ht
  · intro t ht
    rw [List.filter_flatMap]
    have : ∀ t' ∈ List.range T, (seq t').filter (fun k => k.thread == t) = if t' = t then seq t else [] := by
      intro t' _
      by_cases e : t' = t
      · subst e
        simp only [↓reduceIte]
        apply List.filter_eq_self.mpr
        intro k hk; simpa using hseq _ k hk
      · simp only [e, ↓reduceIte]
        apply List.filter_eq_nil_iff.mpr
        intro k hk; rw [hseq _ k hk]; simpa using e
    rw [flatMap_congr' _ _ _ this, flatMap_range_single T t _ ht]

/-! ## merge -/

/-- **C20_merge.**  For every `T`, every merge table (duplicates allowed), every list of admissible contributions and EVERY
    interleaving `ks'` of it: after accumulate-then-merge every real slot holds the serial sum, and ALL copies are zero again. -/
theorem C20_merge (T : Nat) (cells : List Cell) (r : Reals) (ks ks' : List Contrib) (hperm : ks'.Perm ks)
    (hadm : ∀ k ∈ ks, admissible T cells k = true) :
    merge T cells (r, accumulate zeroCopies ks') = (serial cells r (ks.map Contrib.untag), zeroCopies) := by
  rw [C20_interleaving zeroCopies ks' ks hperm, merge_accumulate T cells r ks zeroCopies hadm, merge_zero]

/-- pointwise reading of `C20_merge` -/
theorem C20_merge_pointwise (T : Nat) (cells : List Cell) (r : Reals) (ks ks' : List Contrib) (hperm : ks'.Perm ks)
    (hadm : ∀ k ∈ ks, admissible T cells k = true) :
    (∀ p d, (merge T cells (r, accumulate zeroCopies ks')).1 p d = serial cells r (ks.map Contrib.untag) p d) ∧
    (∀ t p s, (merge T cells (r, accumulate zeroCopies ks')).2 t p s = 0) := by
  rw [C20_merge T cells r ks ks' hperm hadm]
  exact ⟨fun _ _ => rfl, fun _ _ _ => rfl⟩

/-- a stage is well formed for `T` threads: whatever the real values, the scheduled steps are admissible and are, up to order and
    thread tags, the serial contributions -/
def StageOK (T : Nat) (sg : Stage) : Prop :=
  ∀ r, (∀ k ∈ sg.schedule r, admissible T sg.cells k = true) ∧
       ((sg.schedule r).map Contrib.untag).Perm (sg.serialContribs r)

/-- **C20_steps.**  A run is a list of stages (symbol stages, force evaluations, of any number of time steps), each "accumulate,
    then merge", all sharing — and reusing the slots of — the same copy vectors; the contributions of a stage depend on the real
    values left by the previous ones.  Starting from zeroed copies, after the whole list the real values equal the serial ones and
    the copies are zero. -/
theorem C20_steps (T : Nat) : ∀ (stages : List Stage) (r : Reals), (∀ sg ∈ stages, StageOK T sg) →
    stages.foldl (runStage T) (r, zeroCopies) = (stages.foldl serialStage r, zeroCopies)
  | [], _, _ => rfl
  | sg :: rest, r, h => by
    obtain ⟨hadm, hperm⟩ := h sg List.mem_cons_self r
    have h1 : runStage T (r, zeroCopies) sg = (serialStage r sg, zeroCopies) := by
      simp only [runStage, serialStage]
      rw [C20_merge T sg.cells r (sg.schedule r) (sg.schedule r) (List.Perm.refl _) hadm]
      rw [serial_perm sg.cells r hperm]
    simp only [List.foldl_cons]
    rw [h1]
    exact C20_steps T rest _ (fun sg' hs => h sg' (List.mem_cons_of_mem _ hs))

/-- … and so after EVERY stage (every prefix of the run) -/
theorem C20_steps_every (T : Nat) (stages : List Stage) (r : Reals) (h : ∀ sg ∈ stages, StageOK T sg) (n : Nat) :
    (stages.take n).foldl (runStage T) (r, zeroCopies) = ((stages.take n).foldl serialStage r, zeroCopies) :=
  C20_steps T (stages.take n) r (fun sg hs => h sg (List.mem_of_mem_take hs))

/-! ## composition -/

/-- **C20_equal.**  Links activated/deactivated by any valid history, `T ≥ 1` threads, pairs generated per link (`gen`), any number
    of `+=` per pair (`contribs`: several forces, both partners, several species/slots), any interleaving `ks` of the threads' step
    sequences: the merged real values are those of the serial build (which runs over its one pair list), and the copies are zero. -/
theorem C20_equal {π : Type} (T : Nat) (hT : 1 ≤ T) (ops : List LinkOp) (hv : validOps [] ops = true)
    (gen : Nat → List π) (contribs : π → List PS) (cells : List Cell) (r : Reals) (ks : List Contrib)
    (hint : IsInterleaving T (fun t => threadSeq contribs (pairList gen (Mgr.init.run T ops) t) t) ks)
    (hadm : ∀ x ∈ serialPairList gen (serialRun [] ops), ∀ c ∈ contribs x, (destOf cells c.particle c.slot).isSome = true) :
    merge T cells (r, accumulate zeroCopies ks)
      = (serial cells r ((serialPairList gen (serialRun [] ops)).flatMap contribs), zeroCopies) := by
  have hK := hint.perm
  -- untagged, the concatenated thread sequences are the concatenated pair lists' contributions
  have huntag : ((List.range T).flatMap fun t => threadSeq contribs (pairList gen (Mgr.init.run T ops) t) t).map Contrib.untag
      = ((List.range T).flatMap (pairList gen (Mgr.init.run T ops))).flatMap contribs := by
    rw [List.map_flatMap, List.flatMap_assoc]
    apply flatMap_congr'
    intro t _
    simp only [threadSeq, List.map_flatMap, List.map_map]
    apply flatMap_congr'
    intro x _
    have : (Contrib.untag ∘ PS.tag t) = id := by funext k; rfl
    rw [this, List.map_id]
  have hperm : (ks.map Contrib.untag).Perm ((serialPairList gen (serialRun [] ops)).flatMap contribs) := by
    refine (hK.map Contrib.untag).trans ?_
    rw [huntag]
    exact (C20_partition_pairs T hT ops hv gen).flatMap_right contribs
  have hadm' : ∀ k ∈ ks, admissible T cells k = true := by
    intro k hk
    have hmem : k.untag ∈ (serialPairList gen (serialRun [] ops)).flatMap contribs :=
      hperm.subset (List.mem_map_of_mem hk)
    obtain ⟨x, hx, hc⟩ := List.mem_flatMap.mp hmem
    have := hadm x hx _ hc
    simp only [admissible, Bool.and_eq_true, decide_eq_true_eq]
    exact ⟨hint.1 k hk, this⟩
  rw [C20_merge T cells r ks ks (List.Perm.refl _) hadm', serial_perm cells r hperm]

/-- **C20_thread_count_independent.**  Same input (same link history, pairs, forces), thread counts `T` and `T'`, arbitrary
    interleavings: identical results. -/
theorem C20_thread_count_independent {π : Type} (T T' : Nat) (hT : 1 ≤ T) (hT' : 1 ≤ T') (ops : List LinkOp)
    (hv : validOps [] ops = true) (gen : Nat → List π) (contribs : π → List PS) (cells : List Cell) (r : Reals)
    (ks ks' : List Contrib)
    (hint : IsInterleaving T (fun t => threadSeq contribs (pairList gen (Mgr.init.run T ops) t) t) ks)
    (hint' : IsInterleaving T' (fun t => threadSeq contribs (pairList gen (Mgr.init.run T' ops) t) t) ks')
    (hadm : ∀ x ∈ serialPairList gen (serialRun [] ops), ∀ c ∈ contribs x, (destOf cells c.particle c.slot).isSome = true) :
    merge T cells (r, accumulate zeroCopies ks) = merge T' cells (r, accumulate zeroCopies ks') := by
  rw [C20_equal T hT ops hv gen contribs cells r ks hint hadm, C20_equal T' hT' ops hv gen contribs cells r ks' hint' hadm]

/-! ## layout -/

/-- `Simulation::setupCopyVectors`: with the running offset, the slot ranges `[offset_i, offset_i + n_i)` of the calculators
    (integrators) of one colour in one stage are pairwise disjoint -/
theorem C20_layout_disjoint (ns : List Nat) (i j : Nat) (hi : i < ns.length) (hj : j < ns.length) (hij : i < j) :
    (offsets ns)[i]'(by rw [offsets, offsetsFrom_length]; exact hi) + ns[i]
      ≤ (offsets ns)[j]'(by rw [offsets, offsetsFrom_length]; exact hj) :=
  offsetsFrom_disjoint ns 0 i j hi hj hij

/-! ## non-vacuity: 3 threads, 5 links, two species-like slots, a merge table with a duplicate entry -/

namespace Example

def ops : List LinkOp := [.activate 0, .activate 1, .activate 2, .activate 3, .activate 4]
/-- link `l` generates the pair `(l, l+1)` (and link 3 a second one) -/
def gen (l : Nat) : List (Nat × Nat) := if l = 3 then [(3, 4), (3, 0)] else [(l, l + 1)]
/-- two forces per pair: one on copy slot 0 acting on both partners, one on copy slot 1 acting on the first -/
def contribs (x : Nat × Nat) : List PS := [⟨x.1, 0, 1 / 2⟩, ⟨x.2, 0, -1 / 2⟩, ⟨x.1, 1, (x.2 : Rat) / 3⟩]
/-- copy slot 0 → real slot 7, copy slot 1 → real slot 8, for particles 0..5; the entries for slot 0 appear twice
    (as in `PairParticleScalar::mergeCopies` for a same-colour pair) -/
def cells : List Cell :=
  (List.range 6).flatMap fun p => [⟨p, 0, 7⟩, ⟨p, 1, 8⟩, ⟨p, 0, 7⟩]
def r0 : Reals := fun p d => if d = 7 then (p : Rat) else 0
def seq (T : Nat) (t : Nat) : List Contrib := threadSeq contribs (pairList gen (Mgr.init.run T ops) t) t
/-- all of thread 0, then thread 1, then thread 2 -/
def sched3 : List Contrib := sequentialSchedule 3 contribs (pairList gen (Mgr.init.run 3 ops))
/-- another interleaving: thread 2 first, then threads 1 and 0 alternating -/
def sched3' : List Contrib :=
  seq 3 2 ++ (((seq 3 1).zip (seq 3 0)).flatMap fun (a, b) => [a, b]) ++ (seq 3 0).drop (seq 3 1).length
def serialList : List PS := (serialPairList gen (serialRun [] ops)).flatMap contribs

example : validOps [] ops = true := by decide
/-- round robin with wrap: links 0..4 go to threads 0,1,2,0,1; lists are push-front -/
example : (List.range 3).map (Mgr.init.run 3 ops).firstLink = [[3, 0], [4, 1], [2]] := by decide
example : (Mgr.init.run 3 ops).counter = 2 := by decide
example : serialRun [] ops = [4, 3, 2, 1, 0] := by decide
/-- a deactivation does not move the counter back: link 5 goes to thread 2, not to the freed thread 0 -/
example : (List.range 3).map (Mgr.init.run 3 (ops ++ [.deactivate 0, .activate 5])).firstLink = [[3], [4, 1], [5, 2]] := by
  decide
example : (sched3.map Contrib.untag).Perm serialList ∧ sched3.map Contrib.untag ≠ serialList := by
  refine ⟨?_, by decide +kernel⟩
  have := (IsInterleaving.perm (C20_sequential_isInterleaving 3 (seq 3) (by
      intro t k hk
      simp only [seq, threadSeq, List.mem_flatMap, List.mem_map] at hk
      obtain ⟨_, _, _, _, rfl⟩ := hk; rfl))).map Contrib.untag
  exact this.trans (by decide +kernel)
example : IsInterleaving 3 (seq 3) sched3' ∧ sched3' ≠ sched3 := by
  unfold IsInterleaving; decide +kernel
example : ∀ k ∈ sched3, admissible 3 cells k = true := by decide +kernel
/-- the merged values with 3 threads, for two different interleavings, and with 1, 2, 5 threads: all equal to the serial
    sums on every slot that exists, and the copies are zero -/
example :
    ∀ p ∈ List.range 6, ∀ d ∈ [7, 8],
      (merge 3 cells (r0, accumulate zeroCopies sched3)).1 p d = serial cells r0 serialList p d ∧
      (merge 3 cells (r0, accumulate zeroCopies sched3')).1 p d = serial cells r0 serialList p d ∧
      (∀ T ∈ [1, 2, 5], (merge T cells (r0, accumulate zeroCopies
          (sequentialSchedule T contribs (pairList gen (Mgr.init.run T ops))))).1 p d = serial cells r0 serialList p d) := by
  decide +kernel
example : serial cells r0 serialList 3 7 = 3 + 1 / 2 + 1 / 2 - 1 / 2 ∧ serial cells r0 serialList 3 8 = 4 / 3 := by
  decide +kernel
example : ∀ t ∈ List.range 3, ∀ p ∈ List.range 6, ∀ s ∈ [0, 1],
    (accumulate zeroCopies sched3) 0 3 0 ≠ 0 ∧ (merge 3 cells (r0, accumulate zeroCopies sched3)).2 t p s = 0 := by
  decide +kernel
example : offsets [1, 3, 9, 1] = [0, 1, 4, 13] := by decide

/-- **the admissibility hypothesis is load-bearing** (the shape of controller.cpp:1258, where `runSymbols_0` merges the wrong
    calculator list): a stage whose merge table lacks the entry for copy slot 0 of particle 1 leaves the value in the copy —
    the serial value is lost — and the NEXT stage, which reuses copy slot 0 for another real slot (9), delivers the stale
    value there. -/
theorem C20_unmerged_leak_witness :
    let stage0 : Stage := ⟨[⟨1, 1, 8⟩], fun _ => [⟨1, 0, 5⟩], fun _ => [⟨0, 1, 0, 5⟩]⟩
    let stage1 : Stage := ⟨[⟨1, 0, 9⟩], fun _ => [⟨1, 0, 2⟩], fun _ => [⟨1, 1, 0, 2⟩]⟩
    let omp := [stage0, stage1].foldl (runStage 2) (fun _ _ => 0, zeroCopies)
    (runStage 2 (fun _ _ => 0, zeroCopies) stage0).2 0 1 0 = 5 ∧ omp.1 1 9 = 7 ∧
      (([stage1].foldl serialStage fun _ _ => 0) 1 9 = 2) := by
  decide +kernel

end Example

end Sympler.Threads
