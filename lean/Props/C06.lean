import Sympler.StagesLemmas

/-!
# C06 — derived symbols are evaluated after all they read, whatever the input order

Model: `Sympler/Stages.lean` (`Symbol::findStage` / `findStageForSymbolName` /
`checkOverwriteForStageFinding`, `Simulation::setSymbolStages`, the per-stage tables of
`sortStages` and the stage loop of `Controller::runSymbols`).  Helper lemmas:
`Sympler/StagesLemmas.lean`.

Vocabulary (all from `StagesLemmas`):

* `Distinct syms`     — pairwise distinct ids (pointer identity of the C++ modules);
* `Dep syms S P`      — `P ∈ syms`, `P.id ≠ S.id` and `P` produces a name that `S` walks
                        (`S.walked` = `uses`, plus `produces` if `overwrite`);
* `Reach syms`        — transitive closure of `Dep syms`;
* `IsLevel syms st S k` — `k` is `0` if `S` has no dependency and `1 + max` of the stages of its
                        dependencies otherwise;  `levelOf syms st S` is that number in closed form;
* `Good syms st`/`Total syms st` — every determined stage is the level / every module determined.

All theorems are about ARBITRARY symbol lists with distinct ids, arbitrary sweep bounds `B` and
arbitrary permutations (`List.Perm`) of the module order.
-/
namespace Sympler.Stages

/-! ## Example systems for the non-vacuity checks -/

/-- root `1`; diamond `1 → {2,3} → 4`; name `13` has the two producers `4` and `5`; chain `… → 6`;
module `7` overwrites name `10` of module `1`. -/
def exSyms : List Sym :=
  [⟨1, [10], [], false⟩, ⟨2, [11], [10], false⟩, ⟨3, [12], [10], false⟩,
   ⟨4, [13], [11, 12], false⟩, ⟨5, [13], [], false⟩, ⟨6, [14], [13], false⟩,
   ⟨7, [10], [], true⟩]

/-- The same modules written in another order. -/
def exSymsRev : List Sym := exSyms.reverse

/-- A 2-cycle. -/
def exCyc : List Sym := [⟨1, [10], [11], false⟩, ⟨2, [11], [10], false⟩, ⟨3, [12], [10], false⟩]

/-- Diamond + chain, every name with a single producer. -/
def exVal : List Sym :=
  [⟨6, [14], [13], false⟩, ⟨4, [13], [11, 12], false⟩, ⟨1, [10], [], false⟩,
   ⟨2, [11], [10, 20], false⟩, ⟨3, [12], [10], false⟩]

/-- A chain of three. -/
def exChain : List Sym := [⟨1, [10], [], false⟩, ⟨2, [11], [10], false⟩, ⟨3, [12], [11], false⟩]

/-- Stages as a list, for `decide`. -/
def stagesOf (r : Except String (Nat → Option Nat)) (syms : List Sym) : Option (List (Option Nat)) :=
  match r with
  | .ok st => some (syms.map (fun s => st s.id))
  | .error _ => none

/-- Schedule (ids) as an option, for `decide`. -/
def scheduleOf (r : Except String (Nat → Option Nat)) (syms : List Sym) : Option (List Nat) :=
  match r with
  | .ok st => some (schedule syms st)
  | .error _ => none

/-- Values of `names` after one `evalSchedule`, for `decide`. -/
def valuesOf {V : Type} (r : Except String (Nat → Option Nat)) (f : Sym → (Nat → V) → Nat → V)
    (syms : List Sym) (σ₀ : Nat → V) (names : List Nat) : Option (List V) :=
  match r with
  | .ok st => some (names.map (evalSchedule f syms st σ₀))
  | .error _ => none

theorem exSyms_distinct : Distinct exSyms := by unfold Distinct; decide
theorem exVal_distinct : Distinct exVal := by unfold Distinct; decide
theorem exCyc_distinct : Distinct exCyc := by unfold Distinct; decide

theorem exSyms_ok : ∃ st, assign 20 exSyms = .ok st := ⟨_, rfl⟩
theorem exSymsRev_ok : ∃ st, assign 20 exSymsRev = .ok st := ⟨_, rfl⟩
theorem exVal_ok : ∃ st, assign 20 exVal = .ok st := ⟨_, rfl⟩

/-! ## C06_stage_correct -/

/-- If the stage assignment succeeds then every module has a stage, every module is staged
strictly after every OTHER module producing a name it walks, and the stage is `0` exactly if no
other module produces any walked name. -/
theorem C06_stage_correct (syms : List Sym) (hd : Distinct syms) (B : Nat)
    (st : Nat → Option Nat) (h : assign B syms = .ok st) :
    (∀ S ∈ syms, ∃ k, st S.id = some k) ∧
    (∀ S ∈ syms, ∀ n ∈ S.walked, ∀ P ∈ syms, P ≠ S → n ∈ P.produces →
        ∃ j k, st P.id = some j ∧ st S.id = some k ∧ j < k) ∧
    (∀ S ∈ syms, (st S.id = some 0 ↔
        ∀ n ∈ S.walked, ∀ P ∈ syms, P ≠ S → n ∉ P.produces)) := by
  obtain ⟨hg, ht⟩ := assign_good hd h
  refine ⟨ht, ?_, ?_⟩
  · intro S hS n hn P hP hne hnP
    obtain ⟨k, hk⟩ := ht S hS
    have hdep : Dep syms S P := ⟨hP, fun hid => hne (hd.eq_of_id hP hS hid), n, hn, hnP⟩
    obtain ⟨j, hj, hlt⟩ := (hg S hS k hk).1 P hdep
    exact ⟨j, k, hj, hk, hlt⟩
  · intro S hS
    constructor
    · intro h0 n hn P hP hne hnP
      have hdep : Dep syms S P := ⟨hP, fun hid => hne (hd.eq_of_id hP hS hid), n, hn, hnP⟩
      obtain ⟨j, _, hlt⟩ := (hg S hS 0 h0).1 P hdep
      omega
    · intro hno
      obtain ⟨k, hk⟩ := ht S hS
      rcases (hg S hS k hk).2 with h0 | ⟨P, ⟨hP, hid, n, hn, hnP⟩, _⟩
      · rw [hk, h0]
      · exact absurd hnP (hno n hn P hP (fun he => hid (by rw [he])))

/-- Non-vacuity: the example (diamond, chain, 2-producer name, overwriter) in two orders. -/
example : stagesOf (assign 20 exSyms) exSyms
    = some [some 0, some 2, some 2, some 3, some 0, some 4, some 1] := by decide
example : stagesOf (assign 20 exSymsRev) exSyms
    = some [some 0, some 2, some 2, some 3, some 0, some 4, some 1] := by decide

/-- Execution order: in `scheduleSyms` (whose ids are `schedule`) every module occurs exactly once
(it is a permutation of the input) and comes after all other producers of what it walks. -/
theorem C06_schedule_sound (syms : List Sym) (hd : Distinct syms) (B : Nat)
    (st : Nat → Option Nat) (h : assign B syms = .ok st) :
    (scheduleSyms syms st).Perm syms ∧
    ∀ pre S post, scheduleSyms syms st = pre ++ S :: post →
      ∀ n ∈ S.walked, ∀ P ∈ syms, P ≠ S → n ∈ P.produces → P ∈ pre := by
  obtain ⟨hg, ht⟩ := assign_good hd h
  have hperm := scheduleSyms_perm ht
  refine ⟨hperm, ?_⟩
  intro pre S post heq n hn P hP hne hnP
  have hS : S ∈ syms := hperm.mem_iff.1 (by rw [heq]; simp)
  have hdep : Dep syms S P := ⟨hP, fun hid => hne (hd.eq_of_id hP hS hid), n, hn, hnP⟩
  have hPin : P ∈ pre ++ S :: post := by rw [← heq]; exact hperm.mem_iff.2 hP
  rcases List.mem_append.1 hPin with hpre | hrest
  · exact hpre
  · exfalso
    rcases List.mem_cons.1 hrest with he | hpost
    · exact hne he
    · have hs := scheduleSyms_sorted syms st
      rw [heq, List.pairwise_append] at hs
      obtain ⟨i, j, hi, hj, hij⟩ := List.rel_of_pairwise_cons hs.2.1 hpost
      obtain ⟨j', hj', hlt⟩ := (hg S hS i hi).1 P hdep
      rw [hj] at hj'; cases hj'; omega

/-- The same on the level of ids, i.e. for the list `schedule` that the driver prints. -/
theorem C06_schedule_sound_ids (syms : List Sym) (hd : Distinct syms) (B : Nat)
    (st : Nat → Option Nat) (h : assign B syms = .ok st) :
    (schedule syms st).Perm (syms.map (·.id)) ∧
    ∀ S ∈ syms, ∀ pre post, schedule syms st = pre ++ S.id :: post →
      ∀ n ∈ S.walked, ∀ P ∈ syms, P ≠ S → n ∈ P.produces → P.id ∈ pre := by
  obtain ⟨hperm, hs⟩ := C06_schedule_sound syms hd B st h
  refine ⟨hperm.map _, ?_⟩
  intro S hS pre post heq n hn P hP hne hnP
  unfold schedule at heq
  obtain ⟨l1, l2, h12, hl1, hl2⟩ := List.map_eq_append_iff.1 heq
  obtain ⟨a, l3, hl2', ha, _⟩ := List.map_eq_cons_iff.1 hl2
  have haS : a = S := by
    apply hd.eq_of_id _ hS ha
    exact hperm.mem_iff.1 (by rw [h12, hl2']; simp)
  subst haS
  rw [hl2'] at h12
  rw [← hl1]
  exact List.mem_map_of_mem (hs l1 a l3 h12 n hn P hP hne hnP)

example : scheduleOf (assign 20 exSyms) exSyms = some [1, 5, 7, 2, 3, 4, 6] := by decide
example : scheduleOf (assign 20 exSymsRev) exSymsRev = some [5, 1, 7, 3, 2, 4, 6] := by decide

/-! ## C06_stage_unique -/

/-- The stage map satisfies the longest-path recursion:
`st S = 0` if no other module produces a walked name, else `1 + max` over those producers.
(`IsLevel` spells the recursion out without `max`; `levelOf` is the closed form
`fold max 0 (stage P + 1)` over the visited producers.) -/
theorem C06_stage_level (syms : List Sym) (hd : Distinct syms) (B : Nat)
    (st : Nat → Option Nat) (h : assign B syms = .ok st) :
    ∀ S ∈ syms, st S.id = some (levelOf syms st S) ∧ IsLevel syms st S (levelOf syms st S) := by
  obtain ⟨hg, ht⟩ := assign_good hd h
  intro S hS
  obtain ⟨k, hk⟩ := ht S hS
  have := good_levelOf hg hS hk
  subst this
  exact ⟨hk, hg S hS _ hk⟩

/-- The recursion has at most one solution. -/
theorem C06_level_unique (syms : List Sym) (st st' : Nat → Option Nat)
    (h : ∀ S ∈ syms, ∃ k, st S.id = some k ∧ IsLevel syms st S k)
    (h' : ∀ S ∈ syms, ∃ k, st' S.id = some k ∧ IsLevel syms st' S k) :
    ∀ S ∈ syms, st S.id = st' S.id := by
  have conv : ∀ st : Nat → Option Nat, (∀ S ∈ syms, ∃ k, st S.id = some k ∧ IsLevel syms st S k) →
      Good syms st ∧ Total syms st := by
    intro st h
    constructor
    · intro S hS k hk
      obtain ⟨k', hk', hl⟩ := h S hS
      rw [hk] at hk'; cases hk'; exact hl
    · intro S hS
      obtain ⟨k, hk, _⟩ := h S hS
      exact ⟨k, hk⟩
  exact good_unique (conv st h).1 (conv st h).2 (conv st' h').1 (conv st' h').2

/-- Input-order independence of the stages: for every permutation of the module list and every
pair of bounds, two successful assignments give every module the same stage. -/
theorem C06_stage_unique (syms syms' : List Sym) (hp : syms'.Perm syms) (hd : Distinct syms)
    (B B' : Nat) (st st' : Nat → Option Nat)
    (h : assign B syms = .ok st) (h' : assign B' syms' = .ok st') :
    ∀ S ∈ syms, st S.id = st' S.id := by
  obtain ⟨hg, ht⟩ := assign_good hd h
  obtain ⟨hg', ht'⟩ := assign_good (hd.perm hp.symm) h'
  exact good_unique hg ht (hg'.perm hp) (ht'.perm hp)

example : exSymsRev.Perm exSyms := List.reverse_perm _

/-! ## C06_cycle_error -/

/-- Every module that lies on a dependency cycle, or reaches one, is undetermined after any number
of sweeps. -/
theorem C06_cycle_undetermined (syms : List Sym) (hd : Distinct syms) (S T : Sym)
    (hcyc : Reach syms S S) (hT : T ∈ syms) (hTS : T = S ∨ Reach syms T S) :
    ∀ n, sweepN syms n T.id = none := by
  have hC := closed_reachCycle syms
  intro n
  suffices h : ∀ U, (U ∈ syms ∧ ∃ S, Reach syms S S ∧ (U = S ∨ Reach syms U S)) →
      sweepN syms n U.id = none from h T ⟨hT, S, hcyc, hTS⟩
  induction n with
  | zero => intro U _; rfl
  | succ n ih => exact sweepGo_closed hd hC syms (fun _ h => h) _ true ih

/-- A cyclic dependency is reported as the `stageIterations` error for every bound `B`; never a
stage map. -/
theorem C06_cycle_error (syms : List Sym) (hd : Distinct syms) (S : Sym)
    (hcyc : Reach syms S S) (B : Nat) : assign B syms = .error "stageIterations" := by
  rcases assign_ok_or_error B syms with ⟨st, hst⟩ | herr
  · exfalso
    obtain ⟨n, hn⟩ := assign_eq hst
    have hS : S ∈ syms := reach_mem hcyc
    have := iter_closed hd (closed_reachCycle syms) (st := init) (fun _ _ => rfl) hn S
      ⟨hS, S, hcyc, Or.inl rfl⟩
    obtain ⟨k, hk⟩ := (assign_good hd hst).2 S hS
    simp only at this
    rw [this] at hk; cases hk
  · exact herr

/-- Special case: two different overwriting modules of the same name wait for each other. -/
theorem C06_two_overwriters_error (syms : List Sym) (hd : Distinct syms) (S T : Sym)
    (hS : S ∈ syms) (hT : T ∈ syms) (hne : S.id ≠ T.id) (hoS : S.overwrite = true)
    (hoT : T.overwrite = true) (n : Nat) (hnS : n ∈ S.produces) (hnT : n ∈ T.produces) (B : Nat) :
    assign B syms = .error "stageIterations" := by
  have wS : n ∈ S.walked := by unfold Sym.walked; rw [if_pos hoS]; exact List.mem_append_right _ hnS
  have wT : n ∈ T.walked := by unfold Sym.walked; rw [if_pos hoT]; exact List.mem_append_right _ hnT
  have d1 : Dep syms S T := ⟨hT, fun h => hne h.symm, n, wS, hnT⟩
  have d2 : Dep syms T S := ⟨hS, hne, n, wT, hnS⟩
  exact C06_cycle_error syms hd S (Relation.TransGen.tail (Relation.TransGen.single d1) d2) B

/-- Non-vacuity: `exCyc` has the cycle `1 → 2 → 1`, module `3` reaches it. -/
example : Reach exCyc ⟨1, [10], [11], false⟩ ⟨1, [10], [11], false⟩ :=
  Relation.TransGen.tail
    (Relation.TransGen.single (b := ⟨2, [11], [10], false⟩)
      ⟨by decide, by decide, 11, by decide, by decide⟩)
    ⟨by decide, by decide, 10, by decide, by decide⟩
example : stagesOf (assign 20 exCyc) exCyc = none := by decide
example : exCyc.map (fun s => sweepN exCyc 5 s.id) = [none, none, none] := by decide

/-! ## C06_terminates -/

/-- Acyclic (a rank function strictly decreasing along dependencies exists) and more sweeps allowed
than the largest rank: the assignment succeeds FOR EVERY ORDER of the module list.
With `rk` = the level itself this is `B ≥ depth + 1` (`C06_terminates_depth`). -/
theorem C06_terminates (syms : List Sym) (hd : Distinct syms) (rk : Nat → Nat)
    (hrk : ∀ S ∈ syms, ∀ P, Dep syms S P → rk P.id < rk S.id)
    (B : Nat) (hB1 : 1 ≤ B) (hB : ∀ S ∈ syms, rk S.id < B)
    (syms' : List Sym) (hp : syms'.Perm syms) : ∃ st, assign B syms' = .ok st := by
  have hd' := hd.perm hp.symm
  have hrk' : ∀ S P, S ∈ syms' → Dep syms' S P → rk P.id < rk S.id :=
    fun S P hS hP => hrk S (hp.mem_iff.1 hS) P ((Dep.perm hp).1 hP)
  obtain ⟨r, hr⟩ := iter_terminates (syms := syms') hd' rk hrk' (B := B) (k := 0) (st := init)
    (used := 0) (fun S _ h => by omega) (fun S hS => by
      have := hB S (hp.mem_iff.1 hS); omega) hB1
  exact ⟨r.1, assign_of_iter hr⟩

/-- Acyclic and `B ≥ number of modules` (and `B ≥ 1`, since `stageIterations = 0` always throws):
success for every order. -/
theorem C06_terminates_length (syms : List Sym) (hd : Distinct syms) (rk : Nat → Nat)
    (hrk : ∀ S ∈ syms, ∀ P, Dep syms S P → rk P.id < rk S.id)
    (B : Nat) (hB1 : 1 ≤ B) (hB : syms.length ≤ B)
    (syms' : List Sym) (hp : syms'.Perm syms) : ∃ st, assign B syms' = .ok st := by
  obtain ⟨M, hM⟩ := exists_bound rk syms
  obtain ⟨st, hst⟩ := C06_terminates syms hd rk hrk (max M 1) (by omega)
    (fun S hS => by have := hM S hS; omega) syms (List.Perm.refl _)
  obtain ⟨hg, ht⟩ := assign_good hd hst
  refine C06_terminates syms hd (fun i => (st i).getD 0)
    (fun S hS P hP => good_rank hg ht S P hS hP) B hB1 ?_ syms' hp
  intro S hS
  obtain ⟨k, hk⟩ := ht S hS
  have := good_stage_lt_length hg hS hk
  simp only [hk, Option.getD_some]
  omega

/-- Sharp form: once some order succeeds with stages `st`, every order succeeds with every bound
`B ≥ depth + 1`, `depth = maxStage syms st`. -/
theorem C06_terminates_depth (syms : List Sym) (hd : Distinct syms) (B₀ : Nat)
    (st : Nat → Option Nat) (h : assign B₀ syms = .ok st)
    (B : Nat) (hB : maxStage syms st + 1 ≤ B)
    (syms' : List Sym) (hp : syms'.Perm syms) : ∃ st', assign B syms' = .ok st' := by
  obtain ⟨hg, ht⟩ := assign_good hd h
  refine C06_terminates syms hd (fun i => (st i).getD 0)
    (fun S hS P hP => good_rank hg ht S P hS hP) B (by omega) ?_ syms' hp
  intro S hS
  obtain ⟨k, hk⟩ := ht S hS
  have := le_maxStage hS hk
  simp only [hk, Option.getD_some]
  omega

/-- The number of sweeps used is at most `depth + 1`, at least `1`. -/
theorem C06_sweeps_le_depth (syms : List Sym) (hd : Distinct syms) (B : Nat)
    (st : Nat → Option Nat) (n : Nat) (h : assignN B syms = .ok (st, n)) :
    1 ≤ n ∧ n ≤ maxStage syms st + 1 ∧ n ≤ B := by
  have hio := iter_ok hd h (good_init syms)
  obtain ⟨hg, ht, _, h1, h2⟩ := hio
  simp only at hg ht h1 h2
  refine ⟨by omega, ?_, by omega⟩
  have hrk : ∀ S P, S ∈ syms → Dep syms S P → (st P.id).getD 0 < (st S.id).getD 0 :=
    good_rank hg ht
  obtain ⟨r, hr⟩ := iter_terminates (syms := syms) hd (fun i => (st i).getD 0) hrk
    (B := maxStage syms st + 1) (k := 0) (st := init) (used := 0) (fun S _ h => by omega)
    (fun S hS => by
      obtain ⟨k, hk⟩ := ht S hS
      have := le_maxStage hS hk
      simp only [hk, Option.getD_some]; omega) (by omega)
  have hr2 := (iter_ok hd hr (good_init syms)).2.2.2.2
  have e1 := iter_mono_le (Nat.le_max_left B (maxStage syms st + 1)) h
  have e2 := iter_mono_le (Nat.le_max_right B (maxStage syms st + 1)) hr
  rw [e1] at e2
  cases e2
  simpa using hr2

/-- Non-vacuity of the rank hypothesis. -/
example : ∃ rk : Nat → Nat, (∀ S ∈ exSyms, ∀ P, Dep exSyms S P → rk P.id < rk S.id) ∧
    ∀ S ∈ exSyms, rk S.id < 7 := by
  obtain ⟨st, hst⟩ := exSyms_ok
  obtain ⟨hg, ht⟩ := assign_good exSyms_distinct hst
  refine ⟨fun i => (st i).getD 0, fun S hS P hP => good_rank hg ht S P hS hP, ?_⟩
  intro S hS
  obtain ⟨k, hk⟩ := ht S hS
  have := good_stage_lt_length hg hS hk
  simp only [hk, Option.getD_some]
  exact this

/-- The remaining case: acyclic, but `depth + 1 > B`.  Then acceptance DOES depend on the order of
the modules in the input: the chain `1 → 2 → 3` (depth 2) with `stageIterations = 2` is accepted
when written producers-first (one sweep suffices) and rejected with the `stageIterations` error
when written consumers-first (three sweeps needed).  By `C06_stage_correct` the outcome is the
error, never a wrong stage map. -/
theorem C06_order_dependent_acceptance_witness :
    stagesOf (assign 2 exChain) exChain = some [some 0, some 1, some 2] ∧
    stagesOf (assign 2 exChain.reverse) exChain = none ∧
    stagesOf (assign 3 exChain.reverse) exChain = some [some 0, some 1, some 2] := by decide

/-! ## C06_values_order_independent -/

/-- Abstract evaluation.  Each module `S` computes its produced names by `f S` from the current
values of the names in `S.uses` (`Local f`).  Hypotheses, explicit: every name has a single
producer (`SingleProducer`; in particular nobody overwrites somebody else's symbol) and no module
reads a name it produces itself (`NoSelfUse`).  The store `σ₀` before the step is ARBITRARY (stale
values of the previous step).  Then, for every permutation `syms'` of the module list with
successful stage assignment and any other start store `σ₀'` that agrees with `σ₀` on the names NOT
produced by any module (positions, velocities, …):

1. the final store solves all equations `σ n = f_P σ n` (`n` produced by `P`),
2. non-produced names are untouched,
3. the two final stores are equal — in particular independent of the stale values,
4. the final store is THE solution: any store solving the equations and agreeing with `σ₀` off the
   produced names equals it. -/
theorem C06_values_order_independent {V : Type} (f : Sym → (Nat → V) → Nat → V) (hf : Local f)
    (syms syms' : List Sym) (hp : syms'.Perm syms) (hd : Distinct syms)
    (hsp : SingleProducer syms) (hns : NoSelfUse syms)
    (B B' : Nat) (st st' : Nat → Option Nat)
    (h : assign B syms = .ok st) (h' : assign B' syms' = .ok st')
    (σ₀ σ₀' : Nat → V) (h0 : ∀ n, ¬ Produced syms n → σ₀ n = σ₀' n) :
    Solves f syms (evalSchedule f syms st σ₀) ∧
    (∀ n, ¬ Produced syms n → evalSchedule f syms st σ₀ n = σ₀ n) ∧
    (∀ n, evalSchedule f syms st σ₀ n = evalSchedule f syms' st' σ₀' n) ∧
    (∀ τ, Solves f syms τ → (∀ n, ¬ Produced syms n → τ n = σ₀ n) →
      ∀ n, τ n = evalSchedule f syms st σ₀ n) := by
  obtain ⟨hg, ht⟩ := assign_good hd h
  have hd' := hd.perm hp.symm
  obtain ⟨hg', ht'⟩ := assign_good hd' h'
  have hsp' : SingleProducer syms' :=
    fun S hS T hT => hsp S (hp.mem_iff.1 hS) T (hp.mem_iff.1 hT)
  have hns' : NoSelfUse syms' := fun S hS => hns S (hp.mem_iff.1 hS)
  have hprod : ∀ n, Produced syms' n ↔ Produced syms n := by
    intro n; unfold Produced
    constructor
    · rintro ⟨S, hS, hn⟩; exact ⟨S, hp.mem_iff.1 hS, hn⟩
    · rintro ⟨S, hS, hn⟩; exact ⟨S, hp.mem_iff.2 hS, hn⟩
  obtain ⟨s1, s2⟩ := evalOrder_spec f hf hd hsp hns hg (scheduleSyms syms st)
    (fun S => (scheduleSyms_perm ht).mem_iff) (scheduleSyms_sorted syms st) σ₀
  obtain ⟨s1', s2'⟩ := evalOrder_spec f hf hd' hsp' hns' hg' (scheduleSyms syms' st')
    (fun S => (scheduleSyms_perm ht').mem_iff) (scheduleSyms_sorted syms' st') σ₀'
  have s1'' : Solves f syms (evalSchedule f syms' st' σ₀') :=
    fun S hS => s1' S (hp.mem_iff.2 hS)
  refine ⟨s1, s2, ?_, ?_⟩
  · apply solves_unique f hf hns hg ht hd s1 s1''
    intro n hn
    show evalOrder f _ σ₀ n = evalOrder f _ σ₀' n
    rw [s2 n hn, s2' n (fun h => hn ((hprod n).1 h)), h0 n hn]
  · intro τ hτ hτ0
    apply solves_unique f hf hns hg ht hd hτ s1
    intro n hn
    show τ n = evalOrder f _ σ₀ n
    rw [s2 n hn, hτ0 n hn]

/-- The order INSIDE a stage is irrelevant too: any execution order that contains exactly the
registered modules and is sorted by stage gives the same store as `schedule`.  (`runSymbols` runs,
inside one stage, particle caches first, then triplet/quintet calculators, then per colour pair the
bonded and the non-bonded pair calculators — not the registration order.) -/
theorem C06_values_any_stage_order {V : Type} (f : Sym → (Nat → V) → Nat → V) (hf : Local f)
    (syms : List Sym) (hd : Distinct syms) (hsp : SingleProducer syms) (hns : NoSelfUse syms)
    (B : Nat) (st : Nat → Option Nat) (h : assign B syms = .ok st)
    (ord : List Sym) (hmem : ∀ S, S ∈ ord ↔ S ∈ syms)
    (hsorted : ord.Pairwise (fun a b => ∃ i j, st a.id = some i ∧ st b.id = some j ∧ i ≤ j))
    (σ₀ : Nat → V) : ∀ n, evalOrder f ord σ₀ n = evalSchedule f syms st σ₀ n := by
  obtain ⟨hg, ht⟩ := assign_good hd h
  obtain ⟨s1, s2⟩ := evalOrder_spec f hf hd hsp hns hg (scheduleSyms syms st)
    (fun S => (scheduleSyms_perm ht).mem_iff) (scheduleSyms_sorted syms st) σ₀
  obtain ⟨t1, t2⟩ := evalOrder_spec f hf hd hsp hns hg ord hmem hsorted σ₀
  apply solves_unique f hf hns hg ht hd t1 s1
  intro n hn
  show evalOrder f ord σ₀ n = evalOrder f _ σ₀ n
  rw [t2 n hn, s2 n hn]

/-- Example right-hand sides: `value(n) = n + Σ values of the used names`. -/
def exF : Sym → (Nat → Nat) → Nat → Nat := fun s σ n => n + (s.uses.map σ).sum

theorem exF_local : Local exF := by
  intro s σ σ' hag n
  unfold exF
  congr 2
  exact List.map_congr_left hag

theorem exVal_single : SingleProducer exVal := by unfold SingleProducer; decide
theorem exVal_noSelfUse : NoSelfUse exVal := by unfold NoSelfUse; decide

/-- Non-vacuity: all hypotheses hold for `exVal`, and two different stale stores (`0` resp. `1000`
on the produced names `10…14`, both `5` on the external name `20`) give the same values
`10, 11+10+5, 12+10, 13+26+22, 14+61`. -/
example : valuesOf (assign 20 exVal) exF exVal (fun n => if n = 20 then 5 else 0)
    [10, 11, 12, 13, 14] = some [10, 26, 22, 61, 75] := by decide
example : valuesOf (assign 20 exVal.reverse) exF exVal.reverse
    (fun n => if n = 20 then 5 else 1000) [10, 11, 12, 13, 14] = some [10, 26, 22, 61, 75] := by
  decide

end Sympler.Stages
