import Sympler.GridLinksLemmas
import Props.C01Tables
/-!
C01 / C09 — the link lists and the outlet geometry of EVERY grid that `ManagerCell` builds (general statements; they replace
the role of the finite checks `C01_links_complete_unique_*` of `Props/C01Tables*.lean`, which are kept as kernel-evaluated
instances).

`subdivide` is the statement-level model of `ManagerCell::cellSubdivide` + `Cell::establishLink` + `Cell::init`
(`Sympler/Grid.lean`); `linksOKb` says: every cell has exactly one local link, and for every cell and each of the 26 directions
whose neighbour exists (periodic wrap or interior) exactly one link represents it, it sits in exactly one slot, it acts on both
cells, its `cell distance` is `cellDist`, and the outlet table has exactly that neighbour; `GeomOK` is the geometric hypothesis of
the C09 theorems (outlet = the cell whose corners are this cell's corners shifted by one width, wrapped in periodic directions).
The proofs are by a loop invariant over the set of covered (cell, direction) slots (`Sympler/GridLinksInv.lean`).
-/
namespace Sympler.C01
open Sympler Sympler.Grid

/-- for every cutoff, box and periodicity: if the subdivision succeeds, the link lists are complete and free of duplicates -/
theorem C01_links_complete_unique {cutoff : Rat} {box : V3 Rat} {per : V3 Bool} {G : Grid}
    (h : subdivide cutoff (0, 0, 0) box per = some G) : linksOKb G per = true := subdivide_linksOK h

/-- … and the outlet geometry assumed by the C09 theorems holds (positive cutoff) -/
theorem C01_geometry_general {cutoff : Rat} {box : V3 Rat} {per : V3 Bool} {G : Grid} (hc : 0 < cutoff)
    (h : subdivide cutoff (0, 0, 0) box per = some G) : GeomOK G per := subdivide_geomOK_of_cutoff hc h

/-- the static hypotheses of the C09 theorems hold for EVERY grid the code builds from a positive cutoff: the finite check
`staticChecks` can never fail on a successful subdivision -/
theorem C01_static_checks_general {cutoff : Rat} {box : V3 Rat} {per : V3 Bool} (hc : 0 < cutoff) :
    staticChecks cutoff box per = true ↔ (subdivide cutoff (0, 0, 0) box per).isSome = true :=
  staticChecks_iff_subdivide hc

/-- all static hypotheses at once, without any finite check -/
theorem C01_static_hypotheses_general {cutoff : Rat} {box : V3 Rat} {per : V3 Bool} {G : Grid} (hc : 0 < cutoff)
    (h : subdivide cutoff (0, 0, 0) box per = some G) :
    GridOK G ∧ OutSingle G ∧ GeomOK G per ∧ linksOKb G per = true := by
  have hs : staticChecks cutoff box per = true := staticChecks_of_subdivide_cutoff hc h
  obtain ⟨G', hG', h1, h2, h3, h4⟩ := C01_static_checks_sound hs
  rw [h] at hG'
  cases hG'
  exact ⟨h1, h2, h3, h4⟩

/-- the hypothesis on the cutoff cannot be dropped for the geometry (witness from `Sympler/GridLinksLemmas.lean`) -/
theorem C01_geometry_needs_positive_box :
    ∃ G, subdivide 0 (0, 0, 0) (-2, -2, -2) (true, true, true) = some G ∧ ¬ GeomOK G (true, true, true) :=
  geomOK_needs_positive_box

/-- non-vacuity: a 3 x 2 x 4 grid with walls in y -/
example : (subdivide 1 (0, 0, 0) (3, 2, 4) (true, false, true)).isSome = true := by decide +kernel

end Sympler.C01
