import Sympler.Gen.PairListsGen
/-!
C02 / C07 — the pair lists are emptied completely before they are rebuilt (table REGENERATED from linked_list_creator.cpp and
verlet_creator.cpp on every run).  A list that keeps stale entries makes pair sums and forces count pairs that are no neighbours any
more: the defect fixed in /repo 04b1d30 (shuffled index lists cleared only under `if (listSize)`) and the seeded change C02b (frozen
pairs not cleared on a rebuild) are both of this kind.
-/
namespace Sympler.PairLists
open Sympler.Gen.PairLists

abbrev Row := String × String × String × Bool × String × Bool × Bool × Bool

def sameContext (a b : Row) : Bool :=
  a.1 == b.1 && a.2.1 == b.2.1 && a.2.2.2.1 == b.2.2.2.1 && a.2.2.2.2.1 == b.2.2.2.2.1

/-- free and frozen lists (and their shuffled index lists) are cleared together: same function, same conditions -/
def paired : Bool :=
  clearSites.all fun a =>
    clearSites.any fun b => sameContext a b && (a.2.2.1 == "free" && b.2.2.1 == "frozen" || a.2.2.1 == "frozen" && b.2.2.1 == "free")

theorem C07_lists_cleared_together : paired = true := by decide +kernel

/-- every clear runs for every colour pair and every thread's list -/
theorem C07_lists_cleared_for_all : clearSites.all (fun r => r.2.2.2.2.2.1 && r.2.2.2.2.2.2.1) = true := by decide +kernel

/-- no clear depends on a list being non-empty -/
theorem C07_clear_unconditional_on_size : clearSites.all (fun r => !r.2.2.2.2.2.2.2) = true := by decide +kernel

/-- both creators clear the pair lists (on invalidation / on a rebuild) and, when random order is requested, the shuffled index lists -/
theorem C07_clear_sites_cover :
    ["source/src/basic/linked_list_creator.cpp", "source/src/basic/verlet_creator.cpp"].all (fun f =>
      [false, true].all fun rnd => ["free", "frozen"].all fun l =>
        clearSites.any fun r => r.1 == f && r.2.2.2.1 == rnd && r.2.2.1 == l) = true := by decide +kernel

end Sympler.PairLists
