import Sympler.CollideLemmas
import Sympler.Gen.CollideGen
/-!
# Bridge between the decisions regenerated from the C++ collision code (`Sympler/Gen/CollideGen.lean`, translator
`translate/t_collide.py`) and the hand-written model `Sympler/Collide.lean` (property C08).

Each statement says that a comparison, constant or formula the translator extracted from the current source is the one the model
uses.  Moving `t_travelled = HUGE_VAL` out of the loop, `t <= t_travelled`, `results[i] >= c_wt_time_eps`, another iteration bound,
another epsilon, another hit-time formula … make one of them false (or make the translator fail).  Core Lean only.
-/
namespace Sympler.Collide
open Sympler.Gen.Collide V3

/-- `solveHitTimeEquation` (force-free branch): the model's `hitTime` is the generated linear root with the generated rejection. -/
theorem Bridge_hitTime (c : Cfg) (w : Wall) (r v : V3) :
    hitTime c w r v =
      (let b := dot w.normal v
       let cc := dot w.normal r - w.nDotR c
       if b = 0 then none else if solverRejects (linearRoot b cc) then none else some (linearRoot b cc)) := by
  unfold hitTime solverRejects linearRoot timeEps
  simp only [decide_eq_true_eq]

/-- `WallTriangle::hit`: too late iff `t > p->dt`; accepted iff `t > c_wt_time_eps`; hit position `r + t v` (`hitPos` without force). -/
theorem Bridge_wallHit (c : Cfg) (w : Wall) (r v : V3) (dtLeft : Rat) :
    wallHit c w r v dtLeft =
      (match hitTime c w r v with
       | none => none
       | some t =>
         if beyondStep t dtLeft then none
         else if acceptTime t then
           let h := mk (hitPos (r 0) (v 0) t 0 1) (hitPos (r 1) (v 1) t 0 1) (hitPos (r 2) (v 2) t 0 1)
           if inFace c w h then some (t, h) else none
         else none) := by
  unfold wallHit beyondStep acceptTime timeEps hitPos
  cases hitTime c w r v with
  | none => rfl
  | some t =>
    have e : ∀ k : Fin 3, (add r (smul t v)) k = r k + t * v k + t * t / 2 * 0 / 1 := by
      intro k
      have h0 : t * t / 2 * 0 / 1 = (0 : Rat) := by simp [Rat.div_def]
      rw [h0, Rat.add_zero]
      rfl
    simp only [decide_eq_true_eq, e]

/-- `Cell::checkForHit`: a later wall replaces the candidate iff its time is strictly smaller. -/
theorem Bridge_better (c : Cfg) (r v : V3) (dtLeft : Rat) (best : Option Hit) (w : Wall) :
    better c r v dtLeft best w =
      (match wallHit c w r v dtLeft with
       | none => best
       | some (t, h) =>
         match best with
         | none => some ⟨t, h, w⟩
         | some b => if earlier t b.t then some ⟨t, h, w⟩ else best) := by
  unfold better earlier
  cases wallHit c w r v dtLeft with
  | none => rfl
  | some th =>
    cases best with
    | none => rfl
    | some b => simp only [decide_eq_true_eq]

/-- after a reflection the remaining time is `p->dt − t_travelled`, clamped at 0 -/
theorem Bridge_remaining (c : Cfg) (st : LoopSt) (h : Hit) : (applyHit c st h).dtLeft = remaining st.dtLeft h.t := rfl

/-- the loop bound, the per-pass reset of the earliest-hit search (the model's `checkForHit` starts from `none` in every pass of
`doCollision`), and the constants the correspondence passes to the model (`eps`, `delta = −c_wt_dist_eps`) -/
theorem Bridge_loop_constants :
    maxPasses = 100 ∧ earliestResetEveryPass = true ∧ timeEps = 0 ∧ distEps = -(1 / 100000) ∧
    mirrorDispEps = 1 / 10000000000 ∧ stochasticDispEps = 1 / 10000000000 ∧
    (∀ c dt p, step c dt p = match doCollision c p.cell maxPasses ⟨p.r, p.v, dt, []⟩ with
      | .tooManyHits => .tooManyHits
      | .done st => checkNewPosition c p.cell (add st.r (smul st.dtLeft st.v)) st.v st.trace) := by
  refine ⟨rfl, rfl, rfl, by decide +kernel, by decide +kernel, by decide +kernel, fun c dt p => rfl⟩

end Sympler.Collide
