import Sympler.ValidateLemmas
import Sympler.Gen.ValidateGen
/-!
# C17 — invalid input and failing helper tools are reported as errors, never ignored   (PARTIAL)

Theorems about `Sympler.Validate`, the model of the decision chain
`instantiateChild` → `PropertyList::fromXML` → expression checks → `cellSubdivide` →
`FunctionCompiler::compile/setParserAndCompile` → `main`.

PARTIAL — what is NOT modelled and therefore not proved here:
* every module's own `setup()`-time checks (hundreds of `throw gError` sites: unknown species, missing
  reflector, …) — only the generic chain above is modelled;
* "never a signal, never hangs": a run-time statement about the process; it is only observed by the
  correspondence check `/verif/sim/corr_invalid.py` (oracle "invalid ⇒ non-zero exit, no signal, no
  time-out, loop not started").  The model of `main` knows `gError` only; an exception of another type
  or a null pointer is outside it.  Counter-examples on the real binary (found by the check, all are
  single deletions from a valid input):
  - no `<Controller>` and nothing else that needs one: `Simulation::setup` checks `m_phase` only,
    `Simulation::run` calls `m_controller->run()` with `m_controller == NULL` (SIGSEGV);
  - no `<Phase>` but an integrator or a symbol: `Simulation::setup` runs the children's `setup()` BEFORE
    its `No Phase defined.` check, and they dereference the phase (SIGSEGV).  `simChildren` reports
    `noPhase` for every input without Phase; the real code reaches that message only if no child needs the phase;
  - an undeclared attribute of a particle creator (`allowUnknown`) is never looked at when no species
    exists (`checkAttr` returns `ok none` there, as the code does);
* the root element's name is never compared with `Simulation` (`Simulation::readWithArg` reads whatever
  the root is), so check (1) starts at the children of the root;
* INT: the value is `(int) strtol(...)`: texts up to `LONG_MAX` pass the range guard and are reduced
  modulo 2^32 (`timesteps="4294967299"` runs 3 steps).  `parseInt` models this as it is (`wrap32`);
* DOUBLE values are exact rationals with IEEE overflow/underflow, not rounded to the nearest double;
* the expression parser is abstract here (`ExprEnv`); its totality is the subject of C03.
-/
open Sympler.Validate

/-! ## unknown module or attribute -/

/-- A module name that is in no factory of its parent is an error — for parents with a plain factory
look-up (`Phase`, `Boundary`, `Controller`, `Meter`, …) and for `Simulation::instantiateChild`, whatever
has been read before; an attribute name that the module does not declare is an error unless the module
allows unknown attributes. -/
theorem C17_unknown :
    (∀ (known : List String) (name : String), name ∉ known →
      checkModule known name = .error .unknownModule) ∧
    (∀ (T : SimTables) (st : SimState) (name : String), name ≠ "Phase" → name ≠ "Controller" →
      name ∉ T.forces → name ∉ T.meters → name ∉ T.callables → name ∉ T.weightingFunctions →
      name ∉ T.symbols → simInstantiate T st name = .error .unknownModule) ∧
    (∀ (T : SimTables) (st : SimState) (pre post : List String) (name : String) (st' : SimState),
      simInstantiate T st' name = .error .unknownModule →
      (∀ k, simChildren T st (pre ++ name :: post) = .ok k → False)) ∧
    (∀ (m : ModuleSpec) (name : String) (text : List Char), (∀ a ∈ m.attrs, a.name ≠ name) →
      m.allowUnknown = false → checkAttr m name text = .error .unknownAttr) := by
  refine ⟨?_, ?_, ?_, ?_⟩
  · intro known name h
    simp [checkModule, h]
  · intro T st name h1 h2 h3 h4 h5 h6 h7
    simp [simInstantiate, h1, h2, h3, h4, h5, h6, h7]
  · intro T st pre post name st' hun k hk
    -- `unknownModule` does not depend on the state: re-derive it for whatever state is reached
    have hany : ∀ s, simInstantiate T s name = .error .unknownModule := by
      intro s
      unfold simInstantiate at hun ⊢
      repeat' split at hun
      all_goals first | (cases hun; done) | skip
      all_goals simp_all
    induction pre generalizing st with
    | nil =>
      simp only [List.nil_append, simChildren, hany st] at hk
      cases hk
    | cons p ps ih =>
      simp only [List.cons_append, simChildren] at hk
      split at hk
      · cases hk
      · rename_i st'' _
        exact ih st'' hk
  · intro m name text h hu
    have : m.find name = none := by
      unfold ModuleSpec.find
      rw [List.find?_eq_none]
      intro a ha
      simpa using h a ha
    simp [checkAttr, this, hu]

/-- non-vacuity: a declared attribute and a declared module pass. -/
example : checkModule ["ReflectorMirror", "ParticleCreatorFile"] "ReflectorMirror" = .ok () := by decide
example : checkModule ["ReflectorMirror", "ParticleCreatorFile"] "ReflectorMiror" = .error .unknownModule := by
  decide
example : checkAttr ⟨[⟨"dt", .double, some (.dblCmp .gt 0)⟩], false⟩ "dtt" ['1'] = .error .unknownAttr := by
  decide

/-! ## malformed numbers -/

/-- The strict conversions of `fromXML` accept exactly the complete numbers (independent grammar
`CompleteInt` / `CompleteDouble` of `ValidateLemmas`: optional leading C white space, optional sign,
digits — for doubles decimal or hexadecimal mantissa with optional exponent, or `inf`/`infinity`/`nan`/
`nan(chars)` in any letter case — optional trailing blank/tab/newline/CR), INT additionally subject to the
length/`LONG_MAX` guard; every other text is an error. -/
theorem C17_malformed_number (s : List Char) :
    (strictIntSyntax s = true ↔ CompleteInt s) ∧
    (strictDoubleSyntax s = true ↔ CompleteDouble s) ∧
    ((∃ v, parseInt s = .ok v) ↔ CompleteInt s ∧ intRangeGuard s = false) ∧
    ((∃ v, parseDouble s = .ok v) ↔ CompleteDouble s) ∧
    (¬ CompleteInt s → parseInt s = .error .intRange ∨ parseInt s = .error .notInt) ∧
    (¬ CompleteDouble s → parseDouble s = .error .notNumber) ∧
    (∀ a : AttrSpec, a.type = .int → ¬ CompleteInt s → ∃ k, checkValue a s = .error k) ∧
    (∀ a : AttrSpec, a.type = .double → ¬ CompleteDouble s → checkValue a s = .error .notNumber) := by
  refine ⟨strictIntSyntax_iff s, strictDoubleSyntax_iff s, parseInt_ok_iff s, parseDouble_ok_iff s,
    parseInt_error_of_not_complete s, parseDouble_error_of_not_complete s, ?_, ?_⟩
  · intro a ha h
    rcases parseInt_error_of_not_complete s h with e | e
    · exact ⟨.intRange, by simp [checkValue, parseValue, ha, e, Except.map]⟩
    · exact ⟨.notInt, by simp [checkValue, parseValue, ha, e, Except.map]⟩
  · intro a ha h
    simp [checkValue, parseValue, ha, parseDouble_error_of_not_complete s h, Except.map]

/-- non-vacuity: complete numbers exist and are accepted, blanks around them included. -/
example : parseInt [' ', '3', ' '] = .ok 3 := by decide
example : CompleteInt [' ', '3', ' '] := (strictIntSyntax_iff _).mp (by decide)
set_option exponentiation.threshold 2000 in
example : parseDouble [' ', '0', '.', '5', ' '] = .ok (.fin (mkRat 1 2)) := by decide
example : CompleteDouble ['0', 'x', '1', 'p', '-', '4'] := (strictDoubleSyntax_iff _).mp (by decide)
example : ¬ CompleteDouble ['1', 'e', '-', '5', 'x'] := fun h => by
  have := (strictDoubleSyntax_iff _).mpr h; revert this; decide
example : ¬ CompleteInt ['2', 'x', '0'] := fun h => by
  have := (strictIntSyntax_iff _).mpr h; revert this; decide
example : ¬ CompleteInt ['1', '.', '5'] := fun h => by
  have := (strictIntSyntax_iff _).mpr h; revert this; decide
example : ¬ CompleteDouble [] := fun h => by
  have := (strictDoubleSyntax_iff _).mpr h; revert this; decide
/-- 20 digits: stopped by the length guard before `strtol` is called. -/
example : parseInt "99999999999999999999".toList = .error .intRange := by decide

set_option exponentiation.threshold 2000 in
/-- The conversions in use before commit 1204dc2 (`atoi`/`atof`) did NOT have the property: `1e-5x` was
accepted as `1e-5` and `2x0` as `2`; the strict conversions reject both. -/
theorem C17_malformed_number_old_witness :
    parseDoubleOld ['1', 'e', '-', '5', 'x'] = .ok (.fin (mkRat 1 100000)) ∧
    parseIntOld ['2', 'x', '0'] = .ok 2 ∧
    parseDouble ['1', 'e', '-', '5', 'x'] = .error .notNumber ∧
    parseInt ['2', 'x', '0'] = .error .notInt := by decide

/-! ## BOOLEAN -/

/-- exactly the six literals are accepted; everything else is `badBool`. -/
theorem C17_bool (s : List Char) :
    (parseBool s = .ok true ↔ s = ['t', 'r', 'u', 'e'] ∨ s = ['y', 'e', 's'] ∨ s = ['1']) ∧
    (parseBool s = .ok false ↔ s = ['f', 'a', 'l', 's', 'e'] ∨ s = ['n', 'o'] ∨ s = ['0']) ∧
    ((s ≠ ['t', 'r', 'u', 'e'] ∧ s ≠ ['y', 'e', 's'] ∧ s ≠ ['1'] ∧
      s ≠ ['f', 'a', 'l', 's', 'e'] ∧ s ≠ ['n', 'o'] ∧ s ≠ ['0']) → parseBool s = .error .badBool) := by
  have e1 : "true".toList = ['t', 'r', 'u', 'e'] := by decide
  have e2 : "yes".toList = ['y', 'e', 's'] := by decide
  have e3 : "1".toList = ['1'] := by decide
  have e4 : "false".toList = ['f', 'a', 'l', 's', 'e'] := by decide
  have e5 : "no".toList = ['n', 'o'] := by decide
  have e6 : "0".toList = ['0'] := by decide
  unfold parseBool
  rw [e1, e2, e3, e4, e5, e6]
  refine ⟨?_, ?_, ?_⟩
  · constructor
    · intro h
      split at h
      · assumption
      · split at h <;> cases h
    · intro h; simp [h]
  · constructor
    · intro h
      split at h
      · cases h
      · split at h
        · assumption
        · cases h
    · intro h
      have : ¬ (s = ['t', 'r', 'u', 'e'] ∨ s = ['y', 'e', 's'] ∨ s = ['1']) := by
        rcases h with rfl | rfl | rfl <;> decide
      simp [this, h]
  · rintro ⟨h1, h2, h3, h4, h5, h6⟩
    simp [h1, h2, h3, h4, h5, h6]

example : parseBool ['Y', 'E', 'S'] = .error .badBool := by decide
example : parseBool ['m', 'a', 'y', 'b', 'e'] = .error .badBool := by decide

/-! ## constraints -/

/-- a value that converts but violates the constraint object of its attribute is an error, also through
the attribute loop. -/
theorem C17_constraint (a : AttrSpec) (c : Constraint) (s : List Char) (v : Value)
    (hv : parseValue a.type s = .ok v) (hc : a.constraint = some c) (hviol : c.check v = false) :
    checkValue a s = .error .constraint ∧
    ∀ m : ModuleSpec, m.find a.name = some a → checkAttr m a.name s = .error .constraint := by
  have h1 : checkValue a s = .error .constraint := by simp [checkValue, hv, hc, hviol]
  exact ⟨h1, fun m hm => by simp [checkAttr, hm, h1, Except.map]⟩

set_option exponentiation.threshold 2000 in
/-- non-vacuity: `dt="0"`, `dt="-1"`, `dt="nan"` against `dt > 0`; `dt="0.5"` passes. -/
example : checkValue ⟨"dt", .double, some (.dblCmp .gt 0)⟩ ['0'] = .error .constraint ∧
    checkValue ⟨"dt", .double, some (.dblCmp .gt 0)⟩ ['-', '1'] = .error .constraint ∧
    checkValue ⟨"dt", .double, some (.dblCmp .gt 0)⟩ ['n', 'a', 'n'] = .error .constraint ∧
    checkValue ⟨"dt", .double, some (.dblCmp .gt 0)⟩ ['0', '.', '5'] = .ok (.dbl (.fin (mkRat 1 2))) := by
  decide

/-! ## expressions -/

/-- an expression that does not parse, or parses with an unresolved symbol, is an error (and nothing is
compiled: the result is an error whatever the expected size). -/
theorem C17_expr (env : ExprEnv) (n : Nat) (e : List Char) :
    (env.parses e = false → checkExpr env n e = .error .exprSyntax) ∧
    (env.parses e = true → env.resolved e = false → checkExpr env n e = .error .undefinedSymbol) ∧
    (checkExpr env n e = .ok () ↔ env.parses e = true ∧ env.resolved e = true ∧ env.size e = n) := by
  refine ⟨fun h => by simp [checkExpr, h], fun h1 h2 => by simp [checkExpr, h1, h2], ?_⟩
  unfold checkExpr
  cases h1 : env.parses e <;> cases h2 : env.resolved e <;> by_cases h3 : env.size e = n <;> simp [h3]

/-- a wrongly typed result (number of entries ≠ expected: vector for scalar, scalar for vector, …) is an
error, in the expression check and in the compile step, before gcc is run. -/
theorem C17_size (env : ExprEnv) (n : Nat) (e : List Char) (o : CompileObs) :
    (env.parses e = true → env.resolved e = true → env.size e ≠ n →
      checkExpr env n e = .error .sizeMismatch) ∧
    (o.gotSize ≠ o.expectedSize → compileStep o = .error .sizeMismatch) := by
  exact ⟨fun h1 h2 h3 => by simp [checkExpr, h1, h2, h3], fun h => by simp [compileStep, h]⟩

example : checkExpr ⟨fun _ => true, fun _ => true, fun _ => 3⟩ 1 ['[', 'r', 'i', 'j', ']'] =
    .error .sizeMismatch := by decide
example : checkExpr ⟨fun _ => true, fun _ => true, fun _ => 3⟩ 3 ['[', 'r', 'i', 'j', ']'] = .ok () := by
  decide

/-! ## box -/

theorem truncRat_ge_two (q : Rat) : truncRat q ≥ 2 ↔ (2 : Rat) ≤ q := by
  unfold truncRat
  split
  · rw [ge_iff_le, Rat.le_floor_iff]; rfl
  · rename_i h
    have hq : q < 0 := Rat.not_le.mp h
    have h0 : (0 : Int) ≤ (-q).floor := by
      rw [Rat.le_floor_iff]
      have : (0 : Rat) ≤ -q := by grind
      exact this
    constructor
    · intro h2; omega
    · intro h2; exfalso; grind

/-- `cellSubdivide` accepts a box iff the cutoff is not positive (then two cells are forced) or every
box length holds at least two cutoffs; a direction with `L < 2·cutoff` is an error. -/
theorem C17_box (cutoff : Rat) (ds : List Rat) :
    (checkBox cutoff ds = .ok () ↔ (cutoff ≤ 0 ∨ ∀ d ∈ ds, 2 * cutoff ≤ d)) ∧
    (0 < cutoff → (∃ d ∈ ds, d < 2 * cutoff) → checkBox cutoff ds = .error .boxTooSmall) := by
  have key : ∀ d, 0 < cutoff → (nCells cutoff d ≥ 2 ↔ 2 * cutoff ≤ d) := by
    intro d hc
    simp only [nCells, hc, ↓reduceIte]
    rw [truncRat_ge_two]
    constructor
    · intro h
      apply Rat.not_lt.mp
      intro hlt
      exact absurd h (Rat.not_le.mpr ((Rat.div_lt_iff hc).mpr hlt))
    · intro h
      apply Rat.not_lt.mp
      intro hlt
      exact absurd h (Rat.not_le.mpr ((Rat.div_lt_iff hc).mp hlt))
  have main : checkBox cutoff ds = .ok () ↔ (cutoff ≤ 0 ∨ ∀ d ∈ ds, 2 * cutoff ≤ d) := by
    unfold checkBox
    by_cases hc : 0 < cutoff
    · have hn : ¬ cutoff ≤ 0 := Rat.not_le.mpr hc
      simp only [hn, false_or]
      constructor
      · intro h
        split at h
        · rename_i hall
          intro d hd
          have := List.all_eq_true.mp hall d hd
          exact (key d hc).mp (by simpa using this)
        · cases h
      · intro h
        have : (ds.all fun d => decide (nCells cutoff d ≥ 2)) = true := by
          rw [List.all_eq_true]
          intro d hd
          simpa using (key d hc).mpr (h d hd)
        simp [this]
    · have hle : cutoff ≤ 0 := Rat.not_lt.mp hc
      have : (ds.all fun d => decide (nCells cutoff d ≥ 2)) = true := by
        rw [List.all_eq_true]
        intro d _
        simp [nCells, hc]
      simp [this, hle]
  refine ⟨main, ?_⟩
  rintro hc ⟨d, hd, hlt⟩
  have hne : checkBox cutoff ds ≠ .ok () := by
    intro h
    rcases main.mp h with h' | h'
    · exact absurd hc (Rat.not_lt.mpr h')
    · exact absurd (h' d hd) (Rat.not_le.mpr hlt)
  unfold checkBox at hne ⊢
  split
  · rename_i h; simp [h] at hne
  · rfl

example : checkBox 1 [4, 4, 4] = .ok () := by decide +kernel
example : checkBox 1 [(3 : Rat) / 2, 4, 4] = .error .boxTooSmall := by decide +kernel
example : checkBox 1 [2, 2, 2] = .ok () := by decide +kernel

/-! ## compile step -/

/-- The compile step succeeds iff everything it observes is nominal; hence every single fault of the
list (compiler missing, exit 1, killed, garbage output, no output, `$TMP` missing or unwritable, dlopen,
dlsym, dlerror, size mismatch) applied to any otherwise successful run is an error — and never `ok`. -/
theorem C17_compile :
    (∀ o : CompileObs, compileStep o = .ok () ↔
      o.gotSize = o.expectedSize ∧ o.systemStatus = 0 ∧ o.dlopenOk = true ∧ o.dlsymOk = true ∧
      o.dlerrorSet = false) ∧
    (∀ (f : Fault) (o : CompileObs), compileStep o = .ok () →
      ∃ k, compileStep (applyFault f o) = .error k) ∧
    (∀ f : Fault, f ∈ Fault.all) := by
  have iff : ∀ o : CompileObs, compileStep o = .ok () ↔
      o.gotSize = o.expectedSize ∧ o.systemStatus = 0 ∧ o.dlopenOk = true ∧ o.dlsymOk = true ∧
      o.dlerrorSet = false := by
    intro o
    unfold compileStep
    by_cases h1 : o.gotSize = o.expectedSize <;> by_cases h2 : o.systemStatus = 0 <;>
      cases h3 : o.dlopenOk <;> cases h4 : o.dlsymOk <;> cases h5 : o.dlerrorSet <;> simp [h1, h2]
  refine ⟨iff, ?_, fun f => by cases f <;> decide⟩
  intro f o hok
  obtain ⟨h1, h2, h3, h4, h5⟩ := (iff o).mp hok
  cases f <;> simp [applyFault, compileStep, h1, h2, h3, h4, h5]

example : compileStep (nominal 3) = .ok () := by decide
example : (Fault.all.map (fun f => compileStep (applyFault f (nominal 1)))) =
    [.error .compileFailed, .error .compileFailed, .error .compileFailed, .error .dlopenFailed,
     .error .dlopenFailed, .error .compileFailed, .error .compileFailed, .error .dlopenFailed,
     .error .dlsymFailed, .error .dlerrorSet, .error .sizeMismatch] := by decide

/-! ## main -/

theorem runAll_error_of_mem (cs : List Check) (c : Check) (hc : c ∈ cs) (k : Kind)
    (hk : c.run = .error k) : ∃ k', runAll cs = .error k' := by
  induction cs with
  | nil => cases hc
  | cons d ds ih =>
    unfold runAll
    split
    · exact ⟨_, rfl⟩
    · rename_i hd
      rcases List.mem_cons.mp hc with rfl | h
      · rw [hk] at hd; cases hd
      · exact ih h

/-- In the model of `main`: if any check of the run fails, the process prints an error message, returns
a non-zero exit value and never enters the time loop; if none fails it returns 0 and runs. -/
theorem C17_exit (cs : List Check) :
    ((∃ c ∈ cs, ∃ k, c.run = .error k) →
      (mainModel cs).exit ≠ 0 ∧ (mainModel cs).message ≠ none ∧ (mainModel cs).loopStarted = false) ∧
    ((∀ c ∈ cs, c.run = .ok ()) → mainModel cs = ⟨0, none, true⟩) ∧
    (∀ k : Kind, exitValue k ≠ 0) := by
  refine ⟨?_, ?_, fun k => by cases k <;> decide⟩
  · rintro ⟨c, hc, k, hk⟩
    obtain ⟨k', hk'⟩ := runAll_error_of_mem cs c hc k hk
    unfold mainModel
    rw [hk']
    refine ⟨?_, by simp, rfl⟩
    cases k' <;> decide
  · intro h
    have : runAll cs = .ok () := by
      induction cs with
      | nil => rfl
      | cons d ds ih =>
        unfold runAll
        rw [h d (by simp)]
        exact ih (fun c hc => h c (by simp [hc]))
    simp [mainModel, this]

/- non-vacuity: a run with a good attribute and a good box passes; the same run with `dt="1e-5x"` fails
with exit value 1 before the loop. -/
set_option exponentiation.threshold 2000 in
example : mainModel [.attr ⟨[⟨"dt", .double, some (.dblCmp .gt 0)⟩], false⟩ "dt" ['1'], .box 1 [4, 4, 4],
    .compile (nominal 1)] = ⟨0, none, true⟩ := by decide +kernel
set_option exponentiation.threshold 2000 in
example : mainModel [.attr ⟨[⟨"dt", .double, some (.dblCmp .gt 0)⟩], false⟩ "dt" ['1', 'e', '-', '5', 'x'],
    .box 1 [4, 4, 4], .compile (nominal 1)] = ⟨1, some "ERROR: notNumber", false⟩ := by decide +kernel

/-- **the conversion sites of `PropertyList::fromXML`** (regenerated from property_list.cpp on every run): EVERY call that
stores an INT or DOUBLE attribute - one per branch of the length comparison with `LONG_MAX` - goes through a function whose body
is `strtol`/`strtod` with the end-pointer check.  This is the hypothesis under which `C17_malformed_number` (about the model's
strict scanner) speaks about the code; a branch that converts with `atoi`/`atof` makes it false. -/
theorem C17_conversion_sites_strict :
    (∀ f ∈ Sympler.Gen.Validate.intConversions ++ Sympler.Gen.Validate.doubleConversions,
      f ∈ Sympler.Gen.Validate.strictFunctions) ∧
    Sympler.Gen.Validate.intConversions ≠ [] ∧ Sympler.Gen.Validate.doubleConversions ≠ [] := by decide

/-- **wrongly typed expression results** (regenerated from `FunctionCompiler::compile`): an expression whose number of entries (scalar 1,
vector 3, tensor 9) differs from what the module expects - in EITHER direction - is rejected; nothing is truncated silently. -/
theorem C17_result_size_strict :
    ∀ n ∈ [1, 3, 9], ∀ want ∈ [1, 3, 9], Sympler.Gen.Validate.resultSizeRejected n want = decide (n ≠ want) := by decide

