import Sympler.DynLemmas

/-!
# C05 — time integration advances every degree of freedom by exactly one correct step

Model: `Sympler.Dyn` (`step` = `Controller::integrate`, `init` = the force computation before the
main loop of `Controller::run`).  All statements are about exact (rational) arithmetic.

Vocabulary
* `preState cfg st`  — the state on which `step` evaluates the forces: after `integrateStep1` of all
  integrators (new positions, predictor velocities), `clear(other)`, `unprotect(other)`,
  `clearParticleData` and `runSymbols` (all symbols recomputed for the new positions).
* `totalForce cfg S i d` — `Σ` over the registered pair forces driving `d` of `pairForceOn … S i`
  (direct sum over all partners inside the force's own cutoff) `+ Σ` over the registered one-particle
  forces of the particle's colour driving `d` of their expression evaluated on `S`.  Each list element
  of `cfg.pairForces` / `cfg.partForces` occurs exactly once in these sums.
* `d` is `Dof.vel` (buffers `Particle::force[0..1]`) or `Dof.user s` (tag attributes `force_s_0/1` of
  an `IntegratorScalar/Vector`); `hd` below says that the integrator owning the attribute is registered
  for the particle's colour (otherwise the real attribute does not even exist).
-/
namespace Sympler.Dyn

/-- **C05_force_fresh** (one step, either parity of the force index).  After `step`, the force buffer
with the NEW index of every free particle equals the sum of all registered force modules driving that
degree of freedom, each exactly once, evaluated on the updated positions with recomputed symbols —
and nothing else (no remainder of an earlier step: the right-hand side does not mention the old
contents of any force buffer). -/
theorem C05_force_fresh (cfg : Config) (hwf : cfg.wf = true) (st : State) (i : Nat)
    (hi : i < st.n) (hf : (st.ps i).frozen = false) (d : Dof)
    (hd : d = .vel ∨ ∃ name, d = .user name ∧ Integrator.euler (st.ps i).colour name ∈ cfg.integrators) :
    (step cfg st).forceIdx = (!st.forceIdx) ∧
    ((step cfg st).ps i).tag (.force d (step cfg st).forceIdx) = totalForce cfg (preState cfg st) i d :=
  ⟨step_forceIdx cfg st, step_force cfg hwf st i hi hf d hd⟩

/-- the same for the force computation before the main loop -/
theorem C05_force_fresh_init (cfg : Config) (hwf : cfg.wf = true) (st : State) (i : Nat)
    (hi : i < st.n) (hf : (st.ps i).frozen = false) (d : Dof)
    (hd : d = .vel ∨ ∃ name, d = .user name ∧ Integrator.euler (st.ps i).colour name ∈ cfg.integrators) :
    (init cfg st).forceIdx = st.forceIdx ∧
    ((init cfg st).ps i).tag (.force d st.forceIdx) = totalForce cfg (initState cfg st) i d :=
  ⟨init_forceIdx cfg hwf st, init_force cfg hwf st i hi hf d hd⟩

/-- **C05_force_fresh** for whole runs (all run lengths, odd and even): after `n+1` steps the two
buffers have alternated `n+1` times, the current one holds exactly the forces evaluated during the
last step, and the other one still holds, untouched, the forces of the step before (they are what
`integrateStep2` needs for the `(1/2 - lambda)` correction). -/
theorem C05_force_fresh_run (cfg : Config) (hwf : cfg.wf = true) (st0 : State) (n : Nat) (i : Nat)
    (hi : i < st0.n) (hf : (st0.ps i).frozen = false) (d : Dof)
    (hd : d = .vel ∨ ∃ name, d = .user name ∧ Integrator.euler (st0.ps i).colour name ∈ cfg.integrators) :
    let prev := run cfg n (init cfg st0)
    let cur := run cfg (n + 1) (init cfg st0)
    cur.forceIdx = (if (n + 1) % 2 = 0 then st0.forceIdx else !st0.forceIdx) ∧
    (cur.ps i).tag (.force d cur.forceIdx) = totalForce cfg (preState cfg prev) i d ∧
    (cur.ps i).tag (.force d prev.forceIdx) = (prev.ps i).tag (.force d prev.forceIdx) := by
  intro prev cur
  have hp : Pres st0 prev := (init_pres cfg st0).trans (run_pres cfg n _)
  have hi' : i < prev.n := by rw [hp.n]; exact hi
  have hf' : (prev.ps i).frozen = false := by rw [(hp.ident i).2.2]; exact hf
  have hd' : d = .vel ∨ ∃ name, d = .user name ∧ Integrator.euler (prev.ps i).colour name ∈ cfg.integrators := by
    rw [(hp.ident i).1]; exact hd
  refine ⟨?_, step_force cfg hwf prev i hi' hf' d hd', ?_⟩
  · show (run cfg (n + 1) (init cfg st0)).forceIdx = _
    rw [run_forceIdx, init_forceIdx cfg hwf]
  · apply step_keeps_old cfg hwf prev i hi' d hd'
    rw [(integ1_fold_ps cfg cfg.integrators prev i hf').1]
    -- integrateStep1 never writes a force slot
    have : ∀ (igs : List Integrator) (p : Particle),
        (igs.foldl (fun p ig => integ1P cfg prev.forceIdx ig p) p).tag (.force d prev.forceIdx)
          = p.tag (.force d prev.forceIdx) := by
      intro igs
      induction igs with
      | nil => intro p; rfl
      | cons ig igs ih => intro p; simp only [List.foldl_cons]; rw [ih, integ1P_force]
    exact this _ _

/-- non-vacuity: in the example scenario the hypotheses hold and both kinds of force (two modules on
the velocity, one on the scalar `s`) arrive in the new buffer -/
example : Ex.cfg.wf = true ∧
    ((step Ex.cfg (init Ex.cfg Ex.st)).ps 0).tag (.force .vel true) = ⟨-25/64, 1, 0⟩ ∧
    ((step Ex.cfg (init Ex.cfg Ex.st)).ps 0).tag (.force (.user "s") true) = ⟨3, 0, 0⟩ ∧
    Integrator.euler ((init Ex.cfg Ex.st).ps 0).colour "s" ∈ Ex.cfg.integrators := by decide +kernel

/-- **C05_vv_textbook**.  For a free particle whose colour is integrated by one velocity Verlet with
mass `m` and ANY `lambda`, one `step` is the textbook velocity-Verlet map
`r' = r + dt v + dt²/(2m) F_old` (then the periodic wrap), `v' = v + dt/(2m) (F_old + F_new)` with
`F_new =` all registered forces evaluated on the new state (`C05_force_fresh`).  `lambda` does not
occur on the right-hand sides; it only enters `F_new` through the predictor velocity seen by
velocity-dependent expressions. -/
theorem C05_vv_textbook (cfg : Config) (hwf : cfg.wf = true) (st : State) (i : Nat) (hi : i < st.n)
    (hf : (st.ps i).frozen = false) (l m : Rat) (hvv : vvOf cfg (st.ps i).colour = [(l, m)]) :
    let Fold := (st.ps i).tag (.force .vel st.forceIdx)
    let Fnew := totalForce cfg (preState cfg st) i .vel
    ((step cfg st).ps i).r
      = wrap cfg.box ((st.ps i).r + cfg.dt • (st.ps i).v + (cfg.dt * cfg.dt / 2) • ((1 / m) • Fold)) ∧
    ((step cfg st).ps i).v = (st.ps i).v + (cfg.dt / 2) • ((1 / m) • (Fold + Fnew)) := by
  intro Fold Fnew
  have h := step_vv cfg hwf st i hi hf l m hvv
  have hF := step_force cfg hwf st i hi hf .vel (Or.inl rfl)
  rw [step_forceIdx] at hF
  refine ⟨?_, ?_⟩
  · rw [h.1]; congr 1; apply Vec3.ext' <;> simp <;> grind
  · rw [h.2, hF]

/-- **lambda-independence**: when no expression of the input reads a velocity (and no colour has two
velocity-Verlet integrators), the state after a time step is the same for every choice of the
`lambda`s. -/
theorem C05_lambda_independent (cfg : Config) (hwf : cfg.wf = true) (hnv : NoVel cfg) (g : Nat → Rat)
    (st : State) (hlen : ∀ c, (vvOf cfg c).length ≤ 1) (i : Nat) (hi : i < st.n) :
    (step (cfg.withLambda g) st).ps i = (step cfg st).ps i ∧
    (step (cfg.withLambda g) st).forceIdx = (step cfg st).forceIdx :=
  ⟨step_withLambda cfg hwf hnv g st hlen i hi, by rw [step_forceIdx, step_forceIdx]⟩

/-- non-vacuity: the example reads no velocity, has one velocity Verlet; `lambda = 1/4` and
`lambda = 3` give the same velocity after a step, which differs from the initial one -/
example : (∀ c ∈ Ex.cfg.caches, c.expr.usesVel = false) ∧ (∀ m ∈ Ex.cfg.sums, m.usesVel = false) ∧
    (∀ m ∈ Ex.cfg.pairForces, m.usesVel = false) ∧ (∀ c ∈ Ex.cfg.partForces, c.expr.usesVel = false) ∧
    vvOf Ex.cfg 0 = [(1/4, 2)] ∧
    ((step (Ex.cfg.withLambda (fun _ => 3)) (init Ex.cfg Ex.st)).ps 0).v = ((step Ex.cfg (init Ex.cfg Ex.st)).ps 0).v ∧
    ((step Ex.cfg (init Ex.cfg Ex.st)).ps 0).v ≠ (Ex.st.ps 0).v := by decide +kernel

/-- **C05_vv_reversible**.  Setting `RevCfg`: no expression reads a velocity (position-only forces,
pair forces and one-particle forces alike, through any symbols), all integrators are velocity
Verlets (at most one per colour, any `lambda`, any masses), free space (no periodic direction: the
model has no walls, so this is the only setting without wrap-around; the periodic case is tested on
the real binary by the `reverse` check of `corr_dyn.py`).  Computed symbols are non-persistent
(`NPT`), indices `≥ n` hold frozen dummies (`Junk`, true for every state the driver builds).
Then for ALL run lengths `N`: run `N` steps, reverse the velocities, run `N` steps, reverse the
velocities — every particle is back at its initial position with its initial velocity, exactly. -/
theorem C05_vv_reversible (cfg : Config) (hc : RevCfg cfg) (st0 : State) (hnpt : NPT cfg st0) (hj : Junk st0)
    (N : Nat) (i : Nat) :
    let back := flip (run cfg N (flip (run cfg N (init cfg st0))))
    (back.ps i).r = (st0.ps i).r ∧ (back.ps i).v = (st0.ps i).v := by
  intro back
  have h := rev_run cfg hc st0 hnpt hj N N (Nat.le_refl N)
  rw [Nat.sub_self] at h
  have hb := init_body cfg hc.wf st0 i
  constructor
  · show ((run cfg N (flip (run cfg N (init cfg st0)))).ps i).r = _
    rw [h.r i]; exact hb.2.2.2.1
  · show -((run cfg N (flip (run cfg N (init cfg st0)))).ps i).v = _
    rw [h.v i]
    show - -((init cfg st0).ps i).v = _
    rw [hb.2.2.2.2]
    apply Vec3.ext' <;> simp

/-- non-vacuity: `Ex.cfgRev` (free space, one velocity Verlet, the pair force `[rij]`, the pair sum
`n`) satisfies all hypotheses; after 2 steps particle 0 is somewhere else with another velocity -/
example : RevCfg Ex.cfgRev ∧ NPT Ex.cfgRev Ex.st ∧ Junk Ex.st ∧
    ((run Ex.cfgRev 2 (init Ex.cfgRev Ex.st)).ps 0).r ≠ (Ex.st.ps 0).r ∧
    ((run Ex.cfgRev 2 (init Ex.cfgRev Ex.st)).ps 0).v ≠ (Ex.st.ps 0).v := by
  refine ⟨⟨by decide, ⟨by decide, by decide, by decide, by decide⟩, ?_, ?_, ⟨rfl, rfl, rfl⟩⟩,
    ⟨fun m hm => by simp [Ex.cfgRev, Ex.cfg] at hm, fun m hm c => ?_⟩, ?_, by decide +kernel, by decide +kernel⟩
  · intro ig hig
    simp only [Ex.cfgRev, List.mem_cons, List.not_mem_nil, or_false] at hig
    exact ⟨_, _, _, hig⟩
  · intro c
    simp only [vvOf, vvOfL, Ex.cfgRev, List.filterMap_cons, List.filterMap_nil]
    split <;> simp
  · simp only [Ex.cfgRev, Ex.cfg, List.mem_cons, List.not_mem_nil, or_false] at hm
    subst hm
    rfl
  · intro i hi
    have h3 : 3 ≤ i := hi
    have h0 : i ≠ 0 := by omega
    have h1 : i ≠ 1 := by omega
    have h2 : i ≠ 2 := by omega
    simp [Ex.st, h0, h1, h2]
    rfl

/-- **C05_vv_const_accel**.  If the registered forces on the velocity of particle `i` add up to the
same `F` in every state (e.g. only constant one-particle forces), then for ALL run lengths `n`
`v_n = v_0 + n dt F/m` and `r_n = r_0 + n dt v_0 + (n dt)²/2 · F/m` up to a lattice vector of the
periodic directions (`LatEq`; equality when nothing is periodic). -/
theorem C05_vv_const_accel (cfg : Config) (hwf : cfg.wf = true) (st0 : State) (i : Nat) (hi : i < st0.n)
    (hf : (st0.ps i).frozen = false) (l m : Rat) (hvv : vvOf cfg (st0.ps i).colour = [(l, m)])
    (F : Vec3) (hconst : ∀ S : State, (S.ps i).colour = (st0.ps i).colour → totalForce cfg S i .vel = F)
    (n : Nat) :
    ((run cfg n (init cfg st0)).ps i).v = (st0.ps i).v + (((n : Nat) : Rat) * cfg.dt) • ((1 / m) • F) ∧
    LatEq cfg.box ((run cfg n (init cfg st0)).ps i).r
      ((st0.ps i).r + (((n : Nat) : Rat) * cfg.dt) • (st0.ps i).v
        + ((((n : Nat) : Rat) * cfg.dt) * (((n : Nat) : Rat) * cfg.dt) / 2) • ((1 / m) • F)) :=
  ⟨(run_vv_const cfg hwf st0 i hi hf l m hvv F hconst n).1, (run_vv_const cfg hwf st0 i hi hf l m hvv F hconst n).2.1⟩

/-- the premise `hconst` of `C05_vv_const_accel` / `C05_euler_const_rate` holds when no pair force
drives the quantity and every one-particle force driving it is a constant expression: then the sum
is the sum of these constants over the modules of the particle's colour -/
theorem C05_const_forces (cfg : Config) (d : Dof) (c : Nat)
    (hpair : ∀ m ∈ cfg.pairForces, m.target ≠ .force d)
    (hpart : ∀ m ∈ cfg.partForces, m.target = .force d → ∃ x, m.expr = .vec x)
    (S : State) (i : Nat) (hc : (S.ps i).colour = c) :
    totalForce cfg S i d = vsum (cfg.partForces.map (fun m =>
      if m.target = .force d ∧ m.colour = c then m.expr.eval (envP default) else 0)) := by
  unfold totalForce
  rw [vsum_map_zero _ _ (fun m hm => by simp [hpair m hm])]
  simp only [Vec3.zero_add]
  apply vsum_map_congr
  intro m hm
  rw [hc]
  split
  · rename_i h
    obtain ⟨x, hx⟩ := hpart m hm h.1
    rw [hx]; rfl
  · rfl

/-- non-vacuity of `C05_vv_const_accel` with `C05_const_forces`: a single particle in the example
configuration feels only the constant force `(0,1,0)`; `F` is not zero and the particle does move. -/
example : let s1 : State := { Ex.st with n := 1 }
    (∀ S : State, (S.ps 0).colour = 0 → totalForce { Ex.cfg with pairForces := [] } S 0 .vel = ⟨0, 1, 0⟩) ∧
    ((run { Ex.cfg with pairForces := [] } 2 (init { Ex.cfg with pairForces := [] } s1)).ps 0).v = ⟨1/2, 1/4, 0⟩ := by
  intro s1
  refine ⟨fun S hS => ?_, by decide +kernel⟩
  rw [C05_const_forces { Ex.cfg with pairForces := [] } .vel 0 (by simp)
    (by intro m hm ht
        simp only [Ex.cfg, List.mem_cons, List.not_mem_nil, or_false] at hm
        rcases hm with rfl | rfl
        · exact ⟨_, rfl⟩
        · cases ht) S 0 hS]
  decide +kernel

/-- **C05_euler_const_rate**.  The integrators of user-defined scalar/vector quantities
(`IntegratorScalar`, `IntegratorVector`; the tensor variant has the same code but is not modelled)
reproduce a constant rate of change exactly, for all run lengths and any number of force modules
adding up to the rate `R`: `s_n = s_0 + n dt R`.
Hypotheses: exactly one integrator owns the quantity `name` for the particle's colour; `name` is a
degree of freedom, not a computed symbol (`NotComputed`), its attribute is persistent (as
`IntegratorScalar::setup` registers it). -/
theorem C05_euler_const_rate (cfg : Config) (hwf : cfg.wf = true) (st0 : State) (i : Nat) (hi : i < st0.n)
    (hf : (st0.ps i).frozen = false) (name : String) (hnc : NotComputed cfg name)
    (hpers : st0.pers (st0.ps i).colour (.sym name) = true)
    (hone : cfg.integrators.count (.euler (st0.ps i).colour name) = 1)
    (R : Vec3) (hconst : ∀ S : State, (S.ps i).colour = (st0.ps i).colour → totalForce cfg S i (.user name) = R)
    (n : Nat) :
    ((run cfg n (init cfg st0)).ps i).tag (.sym name)
      = (st0.ps i).tag (.sym name) + ((n : Nat) : Rat) • (cfg.dt • R) :=
  (run_euler_const cfg hwf st0 i hi hf name hnc hpers hone R hconst n).1

/-- non-vacuity: `s` in the example has the constant rate 3: after 3 steps of `dt = 1/4` it is `9/4` -/
example : NotComputed Ex.cfg "s" ∧ Ex.st.pers (Ex.st.ps 0).colour (.sym "s") = true ∧
    Ex.cfg.integrators.count (.euler (Ex.st.ps 0).colour "s") = 1 ∧
    ((run Ex.cfg 3 (init Ex.cfg Ex.st)).ps 0).tag (.sym "s") = ⟨9/4, 0, 0⟩ := by
  refine ⟨⟨by decide, by decide⟩, by decide, by decide, by decide +kernel⟩

end Sympler.Dyn
