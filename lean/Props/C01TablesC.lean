import Props.C01Tables

/-! More instances of the FINITE CHECK of `Props/C01Tables.lean` (kernel evaluation of `staticChecks`):
a 3×2×2 grid whose cutoff does not divide the box (box 3.5 × 2.25 × 2, cutoff 1), mixed periodicity. -/
namespace Sympler.C01
open Sympler Sympler.Grid

set_option maxRecDepth 1000000 in
/-- FINITE CHECK: 3×2×2 cells with widths 7/6, 9/8, 1; periodicity pwp -/
theorem C01_links_complete_unique_322 :
    staticChecks 1 (7/2, 9/4, 2) (true, false, true) = true := by
  decide +kernel

end Sympler.C01
