import Sympler.GeomLemmas
/-!
# C01 — the cell-list neighbour search finds exactly the pairs within the cutoff

Mathematical core, stated over the abstract configuration of `Sympler.Geom`
(`/repo/source/src/basic/manager_cell.cpp` `cellSubdivide`/`findCell`,
`/repo/source/src/basic/cell.cpp` `cellDist`, `CellLink::createDistances`,
`/repo/source/include/basic/cell.h` `addPair`).

* Grid: per direction `(w, n, periodic)` with `0 < w`, `2 ≤ n` (`Grid.OK`; includes exactly two
  cells), all 8 periodicity patterns, box `[0, n·w)`.
* Cutoff of the colour pair `(a,b)`: `0 < rc(a,b) ≤ w_d` for all `d` (`CutOK`; any table `cut`).
* Links: *any* list satisfying `LinkSetOK` (every listed link real, every `(cell, offset)` with an
  existing neighbour listed in one of its two orientations, none twice).  `C01_links_nonvacuous`
  shows the canonical list `Grid.allLinks` satisfies it for every grid; the grid model of
  `cellSubdivide` has to prove it for the list the C++ loops build (`links_complete_unique`).
* Particles: distinct ids, registered in a cell (`Registered cfg ε`: at most `ε` outside it;
  `ε = 0` for the exact statement; supplied by C09).  Only *active* links (both cells occupied)
  are visited.
* `cellPairs` mirrors `createDistances`/`addPair` call by call; `brute` is the `O(N²)` reference
  with the minimum-image convention in the periodic directions.
* Orientation: for two particles of the same colour the C++ order (and hence the sign of the
  vector) depends on list positions, so lists are compared through `Pair.canon` (smaller id
  first; swapping partners negates the vector and swaps the flags) and "same unordered pair" is
  `Pair.same`.
-/
open Sympler.Geom

/-! ## 1. One axis -/

/-- (1a) Two particles in cells `i`, `j` whose plain difference is shorter than `rc ≤ w` sit in
the same or adjacent cells, the link with offset `j - i` exists, and it delivers exactly `x - y`.
This is the non-periodic case (it also holds on a periodic axis, where it covers the pairs that
are close without wrapping). -/
theorem C01_axis_nonperiodic {a : Axis} (hw : 0 < a.w) {rc : Rat}
    (hrc : rc ≤ a.w) {i j : Int} {x y : Rat} (hi : a.Contains 0 i x) (hj : a.Contains 0 j y)
    (h1 : -rc < x - y) (h2 : x - y < rc) :
    IsOff1 (j - i) ∧ a.nb i (j - i) = some j ∧ a.linkDelta (j - i) i j x y = x - y := by
  have h := axis_complete_off hw hi hj 0 (fun _ => rfl)
    (by have c : ((0 : Int) : Rat) = 0 := rfl
        rw [c]; grind)
    (by have c : ((0 : Int) : Rat) = 0 := rfl
        rw [c]; grind)
  have c : ((0 : Int) : Rat) = 0 := rfl
  simp only [Int.zero_mul, Int.add_zero, c] at h
  refine ⟨h.1, h.2.1, ?_⟩
  rw [h.2.2]; grind

example : (⟨1, 3, false⟩ : Axis).Contains 0 0 (9/10) ∧ (⟨1, 3, false⟩ : Axis).Contains 0 1 (11/10) := by
  decide +kernel

/-- (1b) Periodic axis, existence: if the minimum image of `x - y` is shorter than `rc ≤ w`, some
link `(i, o)`, `o ∈ {-1,0,1}`, leads to cell `j` and delivers exactly the minimum image. -/
theorem C01_axis_periodic {a : Axis} (hw : 0 < a.w) (hper : a.per = true) {rc : Rat}
    (hrc : rc ≤ a.w) {i j : Int} {x y : Rat} (hi : a.Contains 0 i x) (hj : a.Contains 0 j y)
    (h1 : -rc < mi a.L (x - y)) (h2 : mi a.L (x - y) < rc) :
    ∃ o, IsOff1 o ∧ a.nb i o = some j ∧ a.linkDelta o i j x y = mi a.L (x - y) := by
  rw [mi_eq] at *
  exact axis_complete hw hi hj _ (by simp [hper]) (by grind) (by grind)

example : (⟨1, 2, true⟩ : Axis).Contains 0 0 (1/10) ∧ (⟨1, 2, true⟩ : Axis).Contains 0 1 (19/10) ∧
    mi (⟨1, 2, true⟩ : Axis).L (1/10 - 19/10) = 1/5 := by
  decide +kernel

/-- (1b) Uniqueness: two offsets from `i` to the same cell `j` that both deliver a component of
modulus `< rc ≤ w` coincide — for every `n ≥ 2`, periodic or not. -/
theorem C01_axis_unique {a : Axis} (hw : 0 < a.w) (hn : 2 ≤ a.n) {rc : Rat} (hrc : rc ≤ a.w)
    {i j o1 o2 : Int} (ho1 : IsOff1 o1) (ho2 : IsOff1 o2)
    (h1 : a.nb i o1 = some j) (h2 : a.nb i o2 = some j) {x y : Rat}
    (b1 : -rc < a.linkDelta o1 i j x y ∧ a.linkDelta o1 i j x y < rc)
    (b2 : -rc < a.linkDelta o2 i j x y ∧ a.linkDelta o2 i j x y < rc) : o1 = o2 :=
  axis_unique hw hn ho1 ho2 h1 h2 (x := x) (y := y) ⟨by grind, by grind⟩ ⟨by grind, by grind⟩

/-- (1b) For `n ≥ 3` the offset is already determined by the two cells. -/
theorem C01_axis_unique_n3 {a : Axis} (hn : 3 ≤ a.n) {i j o1 o2 : Int} (ho1 : IsOff1 o1)
    (ho2 : IsOff1 o2) (h1 : a.nb i o1 = some j) (h2 : a.nb i o2 = some j) : o1 = o2 := by
  have hd := nb_eq_dvd h1 h2
  unfold IsOff1 at ho1 ho2
  by_cases hz : o1 - o2 = 0
  · omega
  · exfalso
    by_cases hp : 0 < o1 - o2
    · have := Int.le_of_dvd hp hd
      omega
    · have hd' : (a.n : Int) ∣ (o2 - o1) := by
        have := Int.dvd_neg.2 hd
        have e : -(o1 - o2) = o2 - o1 := by omega
        rwa [e] at this
      have := Int.le_of_dvd (by omega) hd'
      omega

/-- (1b) Exactly two cells in a periodic direction: `o = 1` and `o = -1` reach the same cell,
… -/
theorem C01_axis_two_cells_same_neighbour {a : Axis} (hn : a.n = 2) (hper : a.per = true) (i : Int) :
    a.nb i 1 = a.nb i (-1) := by
  unfold Axis.nb
  simp only [hper, if_true, hn]
  congr 1
  omega

/-- … but the two links deliver components that differ by `2w = L`, so at most one of them is
shorter than `rc ≤ w`. -/
theorem C01_axis_two_cells {a : Axis} {rc : Rat} (hrc : rc ≤ a.w) (i j : Int)
    (x y : Rat) :
    ¬((-rc < a.linkDelta 1 i j x y ∧ a.linkDelta 1 i j x y < rc) ∧
      (-rc < a.linkDelta (-1) i j x y ∧ a.linkDelta (-1) i j x y < rc)) := by
  rw [linkDelta_eq (Or.inr (Or.inr rfl)), linkDelta_eq (Or.inl rfl)]
  simp only [Rat.intCast_sub, Rat.intCast_neg]
  have c : ((1 : Int) : Rat) = 1 := rfl
  rw [c]
  grind

/-- (1b) Soundness: the component delivered by any existing link is `x - y - k·L`,
`k ∈ {-1,0,1}`, `k = 0` on a non-periodic axis; if its modulus is `< rc ≤ w` it *is* the
reference component (minimum image / plain difference).  No containment hypothesis. -/
theorem C01_axis_sound {a : Axis} (ha : a.OK) {rc : Rat} (hrc : rc ≤ a.w) {i o j : Int}
    (hi : a.InRange i) (ho : IsOff1 o) (hnb : a.nb i o = some j) (x y : Rat) :
    (∃ k : Int, IsOff1 k ∧ (a.per = false → k = 0) ∧
      a.linkDelta o i j x y = x - y - (k : Rat) * a.L) ∧
    (-rc < a.linkDelta o i j x y → a.linkDelta o i j x y < rc →
      a.linkDelta o i j x y = a.sep x y) :=
  ⟨axis_sound (by have := ha.2; omega) hi ho hnb x y,
   fun h1 h2 => axis_sound_sep ha.1 ha.2 hi ho hnb (x := x) (y := y) ⟨by grind, by grind⟩⟩

/-- The minimum image: lies in `[-L/2, L/2)`, is the only image there, and no image is shorter
(so the tie `|·| = L/2` is resolved to `-L/2`; a kept pair has `|δ| < rc ≤ w ≤ L/2` and is never
at the tie). -/
theorem C01_mi_spec {L : Rat} (hL : 0 < L) (t : Rat) :
    (-(L / 2) ≤ mi L t ∧ mi L t < L / 2) ∧ (∃ k : Int, mi L t = t - (k : Rat) * L) ∧
    (∀ k : Int, -(L / 2) ≤ t - (k : Rat) * L → t - (k : Rat) * L < L / 2 →
      t - (k : Rat) * L = mi L t) ∧
    (∀ k : Int, mi L t * mi L t ≤ (t - (k : Rat) * L) * (t - (k : Rat) * L)) :=
  ⟨mi_mem hL t, ⟨_, mi_eq L t⟩, fun _ h1 h2 => mi_unique hL h1 h2, mi_minimal hL t⟩

/-- `rc ≤ w ≤ L/2` for every admissible axis. -/
theorem C01_width_le_half_box {a : Axis} (ha : a.OK) : 0 < a.L ∧ a.w ≤ a.L / 2 := ha.L_facts

/-- (1c) Every component of a kept vector is shorter than the cutoff. -/
theorem C01_component_lt {d : V3 Rat} {rc : Rat} (h0 : 0 < rc) (h : normSq d < rc * rc) :
    (-rc < d.x ∧ d.x < rc) ∧ (-rc < d.y ∧ d.y < rc) ∧ (-rc < d.z ∧ d.z < rc) :=
  comp_lt_of_normSq h0 h

/-! ## 2. Three axes -/

/-- Non-vacuity of the link-set hypothesis: for every grid with at least two cells per direction
(all periodicity patterns) the canonical link list is complete and duplicate-free. -/
theorem C01_links_nonvacuous {g : Grid} (hg : g.OK) : LinkSetOK g g.allLinks := allLinks_ok hg

/-- (iii) **Soundness** — needs no containment hypothesis: every listed entry belongs to a pair
`(p, q)` of the reference list (colours `(a,b)` in listing order, not both frozen, distinct,
minimum-image separation² `< rc²`), equals the reference entry (`i = p.id`, `j = q.id`, vector
`= sepV r_p r_q`, flags `(free?, free?)`), its vector is `r_p - r_q - (k_x L_x, k_y L_y, k_z L_z)`
with `k_d ∈ {-1,0,1}`, `k_d = 0` in non-periodic directions, and it is the shortest image. -/
theorem C01_sound {cfg : Config} (hg : cfg.grid.OK) (hid : IdsNodup cfg) {a b : Nat}
    (hc : CutOK cfg.grid (cfg.cut a b)) {links : List Link}
    (hl : ∀ l, l ∈ links → l.Valid cfg.grid) {e : Pair} (he : e ∈ cellPairs cfg links a b) :
    ∃ p q, InBrute cfg (cfg.cut a b) a b p q ∧ e = mkPair cfg.grid p q ∧
      IsImage cfg.grid p.r q.r e.d ∧
      ∀ k : V3 Int, (cfg.grid.x.per = false → k.x = 0) → (cfg.grid.y.per = false → k.y = 0) →
        (cfg.grid.z.per = false → k.z = 0) →
        normSq e.d ≤ normSq ⟨p.r.x - q.r.x - (k.x : Rat) * cfg.grid.x.L,
          p.r.y - q.r.y - (k.y : Rat) * cfg.grid.y.L, p.r.z - q.r.z - (k.z : Rat) * cfg.grid.z.L⟩ := by
  obtain ⟨p, q, hb, rfl, him⟩ := cellPairs_sound hg hid hc hl he
  exact ⟨p, q, hb, rfl, him, fun k hx hy hz => sepV_minimal hg p.r q.r k hx hy hz⟩

/-- (ii) **None listed twice**: two different positions of the list never hold entries for the
same unordered pair — across links (including the two distinct links between the same two cells
when a periodic direction has exactly two cells) and within a link.  No containment
hypothesis. -/
theorem C01_nodup {cfg : Config} (hg : cfg.grid.OK) (hid : IdsNodup cfg) {a b : Nat}
    (hc : CutOK cfg.grid (cfg.cut a b)) {links : List Link} (hl : LinkSetOK cfg.grid links) :
    (cellPairs cfg links a b).Pairwise (fun e e' => ¬ e.same e') :=
  cellPairs_pairwise hg hid hc hl

/-- (i) **None missing**: every pair of the reference list is listed (in one orientation). -/
theorem C01_complete {cfg : Config} (hg : cfg.grid.OK) (hreg : Registered cfg 0) {a b : Nat}
    (hc : CutOK cfg.grid (cfg.cut a b)) {links : List Link} (hl : LinkSetOK cfg.grid links)
    {p q : Particle} (h : InBrute cfg (cfg.cut a b) a b p q) :
    ∃ e, e ∈ cellPairs cfg links a b ∧ e.same (mkPair cfg.grid p q) := by
  have e0 : cfg.cut a b - 2 * 0 = cfg.cut a b := by grind
  exact cellPairs_complete hg Rat.le_refl hreg hc hl (by rw [e0]; exact hc.1) (by rw [e0]; exact h)

/-- **C01, exact form.**  For every grid with `≥ 2` cells per direction, every periodicity
pattern, every complete duplicate-free link list, every placement of particles with distinct ids
registered in the cells that contain them, and every colour pair whose cutoff is at most the cell
widths: the list of the cell search is a permutation of the brute-force reference list (entries
compared in canonical orientation) — none missing, none twice — and every entry has the reference
vector (minimum image of `r_first - r_second`) and flags `(free?, free?)`. -/
theorem C01_exact {cfg : Config} (hg : cfg.grid.OK) (hid : IdsNodup cfg) (hreg : Registered cfg 0)
    {a b : Nat} (hc : CutOK cfg.grid (cfg.cut a b)) {links : List Link}
    (hl : LinkSetOK cfg.grid links) :
    ((cellPairs cfg links a b).map Pair.canon).Perm ((brute cfg a b).map Pair.canon) ∧
    (cellPairs cfg links a b).Pairwise (fun e e' => ¬ e.same e') ∧
    ∀ e, e ∈ cellPairs cfg links a b →
      ∃ p q, InBrute cfg (cfg.cut a b) a b p q ∧ e = mkPair cfg.grid p q ∧
        IsImage cfg.grid p.r q.r e.d :=
  ⟨cellPairs_perm_brute hg hid hreg hc hl, cellPairs_pairwise hg hid hc hl,
   fun _ he => cellPairs_sound hg hid hc hl.valid he⟩

/-- The reference list itself: its entries are exactly the `mkPair p q` with `InBrute p q` (for
equal colours one of the two orientations), each unordered pair once. -/
theorem C01_brute_spec {cfg : Config} (hg : cfg.grid.OK) (hid : IdsNodup cfg) (a b : Nat) :
    (∀ e, e ∈ brute cfg a b →
      ∃ p q, InBrute cfg (cfg.cut a b) a b p q ∧ e = mkPair cfg.grid p q) ∧
    (∀ p q, InBrute cfg (cfg.cut a b) a b p q →
      mkPair cfg.grid p q ∈ brute cfg a b ∨ (a = b ∧ mkPair cfg.grid q p ∈ brute cfg a b)) ∧
    (brute cfg a b).Pairwise (fun e e' => ¬ e.same e') :=
  ⟨fun _ he => bruteRc_sound hid he, fun _ _ h => bruteRc_complete hg h,
   bruteRc_pairwise hid _ a b⟩

/-- **C01 with slack.**  Particles may sit up to `ε` outside the cell they are registered in
(`isInsideEps`, `0 ≤ 2ε < rc`).  Then (1) every pair with minimum-image separation `< rc - 2ε`
is listed, (2) every listed pair has minimum-image separation `< rc` — no pair at distance `≥ rc`
is ever listed — with the exact minimum-image vector and the right flags, (3) none is listed
twice.  Pairs with separation in `[rc - 2ε, rc)` may or may not be listed: that sliver is not
decided by this theorem. -/
theorem C01_eps {cfg : Config} (hg : cfg.grid.OK) (hid : IdsNodup cfg) {ε : Rat} (hε : 0 ≤ ε)
    (hreg : Registered cfg ε) {a b : Nat} (hc : CutOK cfg.grid (cfg.cut a b))
    (hpos : 0 < cfg.cut a b - 2 * ε) {links : List Link} (hl : LinkSetOK cfg.grid links) :
    (∀ p q, InBrute cfg (cfg.cut a b - 2 * ε) a b p q →
      ∃ e, e ∈ cellPairs cfg links a b ∧ e.same (mkPair cfg.grid p q)) ∧
    (∀ e, e ∈ cellPairs cfg links a b →
      ∃ p q, InBrute cfg (cfg.cut a b) a b p q ∧ e = mkPair cfg.grid p q ∧
        IsImage cfg.grid p.r q.r e.d) ∧
    (cellPairs cfg links a b).Pairwise (fun e e' => ¬ e.same e') :=
  ⟨fun _ _ h => cellPairs_complete hg hε hreg hc hl hpos h,
   fun _ he => cellPairs_sound hg hid hc hl.valid he, cellPairs_pairwise hg hid hc hl⟩

/-- `Registered cfg 0` is what `findCell` produces for particles in the box … -/
theorem C01_registered_of_findCell {cfg : Config} (hg : cfg.grid.OK)
    (h : ∀ p, p ∈ cfg.parts → p.cell = cfg.grid.cellOf p.r ∧
      (0 ≤ p.r.x ∧ p.r.x < cfg.grid.x.L) ∧ (0 ≤ p.r.y ∧ p.r.y < cfg.grid.y.L) ∧
      (0 ≤ p.r.z ∧ p.r.z < cfg.grid.z.L)) : Registered cfg 0 :=
  registered_of_cellOf hg h

/-- … and nothing else. -/
theorem C01_registered_cell {cfg : Config} (hg : cfg.grid.OK) (h : Registered cfg 0)
    {p : Particle} (hp : p ∈ cfg.parts) : p.cell = cfg.grid.cellOf p.r := h.cell_eq hg hp

/-! ## 3. Non-vacuity: a 2×3×2 grid, periodic in x (exactly two cells) and z, walls in y -/

namespace C01Example

def grid : Grid := ⟨⟨1, 2, true⟩, ⟨1, 3, false⟩, ⟨3/2, 2, true⟩⟩

def cut : Nat → Nat → Rat
  | 0, 0 => 1
  | 1, 1 => 1/2
  | _, _ => 4/5

/-- `p0`–`p1`: colour 0, across the periodic x face of the two-cell direction (`0.1` vs `1.9`);
`p2`: colour 1, frozen, next cell in y; `p3`: colour 1, `2.4` away from `p0` in the non-periodic
y direction (would be `0.6` if y were periodic); `p4`: colour 1, frozen, close to `p2`
(frozen–frozen, never listed). -/
def cfg : Config :=
  { grid := grid
    parts := [⟨0, 0, false, ⟨1/10, 1/2, 1/2⟩, ⟨0, 0, 0⟩⟩,
              ⟨1, 0, false, ⟨19/10, 1/2, 1/2⟩, ⟨1, 0, 0⟩⟩,
              ⟨2, 1, true, ⟨1/10, 6/5, 1/2⟩, ⟨0, 1, 0⟩⟩,
              ⟨3, 1, false, ⟨3/10, 29/10, 1/2⟩, ⟨0, 2, 0⟩⟩,
              ⟨4, 1, true, ⟨1/10, 13/10, 1/2⟩, ⟨0, 1, 0⟩⟩]
    cut := cut }

example : cfg.grid.OK ∧ IdsNodup cfg ∧ Registered cfg 0 ∧
    CutOK cfg.grid (cfg.cut 0 0) ∧ CutOK cfg.grid (cfg.cut 0 1) ∧ CutOK cfg.grid (cfg.cut 1 1) := by
  refine ⟨by decide +kernel, by decide +kernel, ?_, by decide +kernel, by decide +kernel,
    by decide +kernel⟩
  apply registered_of_cellOf (by decide +kernel)
  decide +kernel

/-- The pair across the periodic face is found once — by the link `(cell 1, +1) ≡ (cell 0, -1)`,
which delivers `0.2`; the other link between the same two cells, `(cell 0, +1) ≡ (cell 1, -1)`,
delivers `-1.8` and rejects it — with the minimum-image vector. -/
example : cellPairs cfg cfg.grid.allLinks 0 0 = [⟨0, 1, ⟨1/5, 0, 0⟩, true, true⟩] ∧
    brute cfg 0 0 = [⟨0, 1, ⟨1/5, 0, 0⟩, true, true⟩] ∧
    linkPairs cfg ⟨⟨1,0,0⟩, ⟨0,0,0⟩, ⟨1,0,0⟩⟩ 0 0 = [⟨0, 1, ⟨1/5, 0, 0⟩, true, true⟩] ∧
    linkPairs cfg ⟨⟨0,0,0⟩, ⟨1,0,0⟩, ⟨1,0,0⟩⟩ 0 0 = [] ∧
    (⟨⟨0,0,0⟩, ⟨1,0,0⟩, ⟨1,0,0⟩⟩ : Link).vec cfg.grid ⟨1/10, 1/2, 1/2⟩ ⟨19/10, 1/2, 1/2⟩ =
      ⟨-9/5, 0, 0⟩ := by
  decide +kernel

/-- Mixed colours, one partner frozen: flags `(true, false)`; `p3` is not paired with `p0`/`p1`
through the wall. -/
example : cellPairs cfg cfg.grid.allLinks 0 1 =
      [⟨0, 2, ⟨0, -7/10, 0⟩, true, false⟩, ⟨1, 2, ⟨-1/5, -7/10, 0⟩, true, false⟩] ∧
    brute cfg 0 1 =
      [⟨0, 2, ⟨0, -7/10, 0⟩, true, false⟩, ⟨1, 2, ⟨-1/5, -7/10, 0⟩, true, false⟩] := by
  decide +kernel

/-- Frozen–frozen pairs are not listed. -/
example : cellPairs cfg cfg.grid.allLinks 1 1 = [] ∧ brute cfg 1 1 = [] := by
  decide +kernel

/-- The two links between the same two cells in the two-cell periodic direction are both in the
link list, with different offsets. -/
example : (⟨⟨0,0,0⟩, ⟨1,0,0⟩, ⟨1,0,0⟩⟩ : Link) ∈ cfg.grid.allLinks ∧
    (⟨⟨1,0,0⟩, ⟨0,0,0⟩, ⟨1,0,0⟩⟩ : Link) ∈ cfg.grid.allLinks ∧
    (⟨⟨1,0,0⟩, ⟨0,0,0⟩, ⟨1,0,0⟩⟩ : Link).flip = ⟨⟨0,0,0⟩, ⟨1,0,0⟩, ⟨-1,0,0⟩⟩ := by
  decide +kernel

/-- `C01_exact` applies to this configuration (all hypotheses hold). -/
example : ((cellPairs cfg cfg.grid.allLinks 0 1).map Pair.canon).Perm
    ((brute cfg 0 1).map Pair.canon) :=
  (C01_exact (cfg := cfg) (by decide +kernel) (by decide +kernel)
    (registered_of_cellOf (by decide +kernel) (by decide +kernel)) (a := 0) (b := 1)
    (by decide +kernel) (C01_links_nonvacuous (by decide +kernel))).1

/-- Slack: `p1` moved to `x = 2.005`, i.e. `0.005` beyond the upper face of cell 1 (and of the
box) but still registered there; `ε = 1/100`.  The hypotheses of `C01_eps` hold, those of
`C01_exact` do not, and the pair `p0`–`p1` (image separation `0.095`) is still listed with the
image vector. -/
def cfgEps : Config :=
  { cfg with parts := [⟨0, 0, false, ⟨1/10, 1/2, 1/2⟩, ⟨0, 0, 0⟩⟩,
                       ⟨1, 0, false, ⟨401/200, 1/2, 1/2⟩, ⟨1, 0, 0⟩⟩] }

example : Registered cfgEps (1/100) ∧ ¬ Registered cfgEps 0 ∧ IdsNodup cfgEps ∧
    0 < cfgEps.cut 0 0 - 2 * (1/100) ∧
    cellPairs cfgEps cfgEps.grid.allLinks 0 0 = [⟨0, 1, ⟨19/200, 0, 0⟩, true, true⟩] := by
  decide +kernel

end C01Example
