import Sympler.Gen.IntLoopsGen
/-!
C10 / C05 — no integrator ever loops over frozen particles (table REGENERATED from source/src/integrator/*.cpp on every run):
every particle loop of every integrator uses one of the macros that iterate `phase->particles(colour)` (the free particles) only.
-/
namespace Sympler.IntLoops
open Sympler.Gen.IntLoops

/-- the loop macros of phase.h / particle_list.h that visit free particles only -/
def freeOnly : List String :=
  ["FOR_EACH_FREE_PARTICLE_C", "FOR_EACH_FREE_PARTICLE_C__PARALLEL", "FOR_EACH_FREE_PARTICLE", "FOR_EACH_FREE_PARTICLE__PARALLEL",
   "FOR_EACH_FREE_PARTICLE_IN_GROUP"]

theorem C10_integrators_free_only : loops.all (fun r => freeOnly.contains r.2.2) = true := by decide +kernel

theorem C10_integrator_loops_cover : 60 ≤ loops.length := by decide +kernel

/-- `Controller`: the symbol passes (`runSymbols`, `runSymbols_0`) and every other loop visit free particles only; the one exception is
the merge of the per-thread force copies (OpenMP build), which adds copies that are zero for a frozen particle -/
theorem C10_controller_loops_free_only :
    controllerLoops.all (fun r => freeOnly.contains r.2.2.1 || r.2.2.2) = true ∧
    (controllerLoops.filter (fun r => r.2.1 == "Controller::runSymbols" || r.2.1 == "Controller::runSymbols_0")).all
      (fun r => freeOnly.contains r.2.2.1 && !r.2.2.2) = true ∧
    2 ≤ (controllerLoops.filter (fun r => r.2.1 == "Controller::runSymbols" || r.2.1 == "Controller::runSymbols_0")).length := by
  decide +kernel

end Sympler.IntLoops
