import Sympler.DynLemmas

/-!
# C04 — pair forces are reciprocal; only free particles, only inside the force's own cutoff

Model: `Sympler.Dyn`.  `pairOp` is the one kernel of `FPairVels::computeForces(Pairdist*, int)`
(and of `FPairScalar/Vector`, `PairParticleScalar/Vector::compute`): inside the module's cutoff
`first += factor_i ∘ F` if `actsOnFirst`, `second += symmetry * (factor_j ∘ F)` if `actsOnSecond`.
`pairDelta cfg k m st a b i key` is what this kernel adds, for the list entry `(a,b)`, to slot `key`
of particle `i` (`pairOp_tag`).
-/
namespace Sympler.Dyn

/-- **C04_reciprocal**.  `FPairVels` with its default symmetry (`-1`) and equal particle factors
(default: both `idVec(1)`): what the kernel adds to the second particle is exactly minus what it adds
to the first, for every pair and every state. -/
theorem C04_reciprocal (m : PairMod) (hsym : m.sym = -1) (hfac : m.fi = m.fj) (env : Env) :
    m.second env = - m.first env :=
  second_eq_neg_first m ⟨hsym, hfac⟩ env

/-- … and so, for a pair of two free particles, the two increments of one kernel call cancel -/
theorem C04_reciprocal_op (cfg : Config) (k : Bool) (m : PairMod) (hsym : m.sym = -1) (hfac : m.fi = m.fj)
    (st : State) (a b : Nat) (hab : a ≠ b) (hfa : (st.ps a).frozen = false) (hfb : (st.ps b).frozen = false) :
    pairDelta cfg k m st a b a (m.target.key k) + pairDelta cfg k m st a b b (m.target.key k) = 0 := by
  unfold pairDelta
  have hba : ¬ b = a := fun h => hab h.symm
  split
  · simp only [hfa, hfb, hab, hba, and_true, if_true, if_false]
    rw [second_eq_neg_first m ⟨hsym, hfac⟩]
    apply Vec3.ext' <;> simp <;> grind
  · simp

/-- non-vacuity: the force of the example is reciprocal and does act between particles 0 and 1 -/
example : let m := Ex.cfg.pairForces.head!
    m.sym = -1 ∧ m.fi = m.fj ∧
    pairDelta Ex.cfg false m Ex.st 0 1 0 (.force .vel false) = ⟨-1/2, 0, 0⟩ ∧
    pairDelta Ex.cfg false m Ex.st 0 1 1 (.force .vel false) = ⟨1/2, 0, 0⟩ := by
  refine ⟨by decide +kernel, rfl, by decide +kernel, by decide +kernel⟩

/-- **C04_free_only**.  No pair module ever writes to a frozen particle (the acts-on guards of the
kernel), for any module, any pair, any state: the whole record of a frozen particle — both force
buffers and every tag attribute included — is the same after the kernel call, and after the complete
force evaluation. -/
theorem C04_free_only (cfg : Config) (k : Bool) (m : PairMod) (a b : Nat) (st : State) (i : Nat)
    (hfz : (st.ps i).frozen = true) :
    (pairOp cfg k m a b st).ps i = st.ps i ∧ (forces cfg k st).ps i = st.ps i :=
  ⟨(pairOp_pres cfg k m a b st).frozen i hfz, (forces_pres cfg k st).frozen i hfz⟩

/-- non-vacuity: a frozen particle (index 1 of `Ex.stFrozen`) sits inside the cutoff of the free
particle 0, the kernel does act on the pair — on the free partner only -/
example : (Ex.stFrozen.ps 1).frozen = true ∧
    pairActive Ex.cfg Ex.cfg.pairForces.head! Ex.stFrozen 0 1 = true ∧
    pairDelta Ex.cfg false Ex.cfg.pairForces.head! Ex.stFrozen 0 1 0 (.force .vel false) = ⟨-1/2, 0, 0⟩ ∧
    pairDelta Ex.cfg false Ex.cfg.pairForces.head! Ex.stFrozen 0 1 1 (.force .vel false) = 0 := by
  decide +kernel

/-- **C04_own_cutoff**.  A pair outside the module's OWN cutoff gets nothing from it, however far the
neighbour list of the colour pair reaches (the list cutoff is the maximum over all modules of the
colour pair, `listCutoff`); and conversely the list never hides a pair inside the own cutoff:
for a registered module, "acts on `(a,b)`" is exactly "passes the colour/orientation/not-both-frozen
guard and `|d|² < cutoff²`" (`pairGuard`, `inCut`; minimum-image distance of the CURRENT positions). -/
theorem C04_own_cutoff (cfg : Config) (k : Bool) (m : PairMod) (a b : Nat) (st : State)
    (hout : inCut cfg m (st.ps a) (st.ps b) = false) :
    pairOp cfg k m a b st = st ∧ ∀ i key, pairDelta cfg k m st a b i key = 0 := by
  constructor
  · unfold pairOp; simp [hout]
  · intro i key; unfold pairDelta pairActive; simp [hout]

theorem C04_own_cutoff_exact (cfg : Config) (m : PairMod) (hm : m ∈ cfg.pairForces ∨ m ∈ cfg.sums)
    (hc : 0 ≤ m.cutoff) (st : State) (a b : Nat) :
    pairActive cfg m st a b = (pairGuard st m.c1 m.c2 a b && inCut cfg m (st.ps a) (st.ps b)) :=
  pairActive_iff cfg m hm hc st a b

/-- non-vacuity: particles 0 and 2 of the example are a list entry (distance 5/4 < list cutoff 3/2,
the cutoff of the pair sum `n`) but outside the cutoff 1 of the force -/
example : inList Ex.cfg Ex.st 0 0 0 2 = true ∧ listCutoff Ex.cfg 0 0 = 3/2 ∧
    inCut Ex.cfg Ex.cfg.pairForces.head! (Ex.st.ps 0) (Ex.st.ps 2) = false ∧
    inCut Ex.cfg Ex.cfg.sums.head! (Ex.st.ps 0) (Ex.st.ps 2) = true := by decide +kernel

/-- **C04_momentum**.  Setting `Closed`: every particle is free and integrated by exactly one velocity
Verlet of non-zero mass, only reciprocal pair forces drive the velocities (no one-particle force; the
model has no walls, i.e. this is the fully periodic system without external forces).  Then the forces
add up to zero after the initial force computation and after every step, and the total linear
momentum `Σ m v` after `init` and after ANY number of steps equals the initial one — for every
`lambda`, every `dt`, every cutoff, velocity-dependent reciprocal forces included. -/
theorem C04_momentum (cfg : Config) (st0 : State) (h : Closed cfg st0) (n : Nat) :
    forceSum (run cfg n (init cfg st0)) = 0 ∧
    momentum cfg (run cfg n (init cfg st0)) = momentum cfg st0 :=
  ⟨(run_momentum cfg st0 h n).2, (run_momentum cfg st0 h n).1⟩

/-- non-vacuity: the closed variant of the example satisfies `Closed`; the particles do accelerate
while the total momentum stays `(1,0,0)` -/
example : Closed Ex.cfgClosed Ex.st ∧ momentum Ex.cfgClosed Ex.st = ⟨1, 0, 0⟩ ∧
    ((run Ex.cfgClosed 3 (init Ex.cfgClosed Ex.st)).ps 0).v ≠ (Ex.st.ps 0).v := by
  refine ⟨⟨by decide, ?_, ?_, ?_, ?_⟩, by decide +kernel, by decide +kernel⟩
  · intro i hi
    have : i = 0 ∨ i = 1 ∨ i = 2 := by simp [Ex.st] at hi; omega
    rcases this with rfl | rfl | rfl <;> decide
  · intro i hi
    have : i = 0 ∨ i = 1 ∨ i = 2 := by simp [Ex.st] at hi; omega
    refine ⟨1/4, 2, ?_, by decide +kernel⟩
    rcases this with rfl | rfl | rfl <;> decide +kernel
  · intro m hm ht
    simp only [Ex.cfgClosed, Ex.cfg, List.mem_cons, List.not_mem_nil, or_false] at hm
    subst hm
    exact ⟨by decide +kernel, rfl⟩
  · intro m hm
    simp only [Ex.cfgClosed, List.mem_cons, List.not_mem_nil, or_false] at hm
    subst hm
    decide

end Sympler.Dyn
