import Sympler.Gen.PairGuardsGen
/-!
# C04 / C10 — every write to a pair partner anywhere in the tree is under that partner's acts-on flag

`Sympler.Gen.PairGuards.partnerWrites` is regenerated on every run by `translate/t_pairguards.py` from ALL files under
source/{include,src}/{force,callable,symbol,integrator,basic,meter,reflector}: every statement that assigns to a field (`v`, `r`,
`force`, `tag…`) of `pair->firstPart()` / `pair->secondPart()` (directly or through a local `Particle*` alias), with the
conditions of all enclosing `if`s.  The acts-on flags of a listed pair are the free flags of its partners (C01), so a write
under the partner's own flag never touches a frozen particle — for EVERY pair module of the tree, not only the modelled ones.

Exempt files (each with its reason; they are reported, not hidden):
* `src/force/connector_basic.cpp` — bonded force: bonded lists are `(true, true)` by construction; both writes go to the force
  ACCUMULATOR (scratch storage, not a quantity of C10's state).
* `src/basic/vl_yao_creator.cpp` — neighbour counters of the Yao Verlet-list creator (bookkeeping of the pair creator itself).
* `src/integrator/integrator_ISPH_const_rho.cpp` — the ISPH integrator extrapolates pressure and normalisations INTO wall
  particles by design (outside the generated scenarios; C10 is not claimed for inputs using it).
* `src/force/f_dpde.cpp` — `FDPDE` cannot be instantiated in the current tree (its `setup()` asks for the attribute
  `force_internal_energy`, which no longer exists); its fixed-noise branch adds the SECOND partner's energy flux to the first
  partner (under `actsOnSecond()`), a copy-paste slip recorded in DESIGN.md.
-/
namespace Sympler.PairGuards
open Sympler.Gen.PairGuards

def exempt : List String :=
  ["src/force/connector_basic.cpp", "src/basic/vl_yao_creator.cpp", "src/integrator/integrator_ISPH_const_rho.cpp", "src/force/f_dpde.cpp"]

/-- **`C04_guards_table`**: outside the exempt files, every write to a pair partner is guarded by that partner's own acts-on flag. -/
theorem C04_guards_table :
    partnerWrites.all (fun w => exempt.contains w.1 || w.2.2.2.1) = true := by decide +kernel

/-- non-vacuity: the table covers the modelled modules and the ones the scenarios cannot reach (DPD, LJ, thermostats) -/
theorem C04_guards_table_covers :
    ["include/force/f_pair_vels.h", "src/force/f_pair_scalar.cpp", "src/force/f_pair_vector.cpp",
      "include/symbol/val_calculator_part/pair_particle_scalar.h", "include/symbol/val_calculator_part/pair_particle_vector.h",
      "src/force/f_dpd.cpp", "include/force/lennard_jones.h", "src/callable/thermostat_peters_iso.cpp",
      "src/callable/thermostat_la.cpp"].all (fun f => partnerWrites.any (fun w => w.1 == f && w.2.2.1) &&
        partnerWrites.any (fun w => w.1 == f && !w.2.2.1)) = true := by decide +kernel


/-- C04 / C07 "only inside the module's own cutoff": no write to a pair partner anywhere in the tree is guarded by a comparison of the
pair distance with the cutoff of the shared neighbour list (which is the maximum over everything registered on the species pair) -/
theorem C07_no_write_guarded_by_list_cutoff : Sympler.Gen.PairGuards.listCutoffGuarded = [] := by decide

end Sympler.PairGuards
