import Sympler.VerletLemmas

/-!
Property C02 — "Verlet neighbour list never lacks a pair inside the interaction cutoff".

Decision logic and refresh arithmetic of `VerletCreator::createDistances`
(/repo/source/src/basic/verlet_creator.cpp).  Everything is stated about the GENERATED definitions
`Sympler.Gen.Verlet.{scanBody, everyDecision, counterAfterRebuild, counterAfterRefresh, refreshWrap,
listCutoff}` (via the loop wrappers of `Sympler/Verlet.lean`), whose bodies are unfolded in the proofs.
The geometric half (reverse triangle inequality over ℝ) is `PropsR/C02.lean`.

* `scan skin ms`: `ms` = displacement magnitudes `|disp − disp__Old|` of the free particles of all
  colours that have an `IntegratorPosition`, in storage order; result = `newList`.
* `refreshWrap L c`: the refresh of one cartesian component `c = r₁ − r₂` of a stored pair in a box of
  extent `L` in that direction.
-/
namespace Sympler.Verlet
open Sympler.Gen.Verlet

/-! ## displacement-triggered rebuild -/

/-- **Soundness of the rebuild criterion** (post-fix loop): if the scan decides *not* to rebuild,
then any two DIFFERENT particles together moved less than the skin, and every single particle
moved less than the skin — for every storage order, every list length and every skin.
(No sign hypothesis is needed in this direction.) -/
theorem C02_scan_sound (skin : Rat) (ms : List Rat) (h : scan skin ms = false) :
    (∀ (i j : Nat) (hi : i < ms.length) (hj : j < ms.length), i ≠ j → ms[i] + ms[j] < skin) ∧
    (∀ (i : Nat) (hi : i < ms.length), ms[i] < skin) := by
  obtain ⟨h1, h2, _⟩ := scanLoop_false skin ms 0 0 (Rat.le_refl) h
  refine ⟨(pairwise_sum_iff skin ms).mp h2, ?_⟩
  intro i hi
  have := h1 _ (List.getElem_mem hi)
  grind

/-- **Exact characterisation** of the decision, for arbitrary rationals: no rebuild iff there is
no particle at all, or the skin is positive and all single magnitudes and all sums of two
magnitudes of different particles are below the skin.  (Equivalently: with the early exit the
loop rebuilds iff the two largest entries of `0, 0, ms…` restricted to some non-empty prefix —
hence of the whole list — sum to `≥ skin`.) -/
theorem C02_scan_iff (skin : Rat) (ms : List Rat) :
    scan skin ms = false ↔
      ms = [] ∨ (0 < skin ∧ (∀ (i : Nat) (hi : i < ms.length), ms[i] < skin) ∧
        (∀ (i j : Nat) (hi : i < ms.length) (hj : j < ms.length), i ≠ j → ms[i] + ms[j] < skin)) := by
  constructor
  · intro h
    by_cases hnil : ms = []
    · exact Or.inl hnil
    · right
      obtain ⟨_, _, h3⟩ := scanLoop_false skin ms 0 0 (Rat.le_refl) h
      have hs := h3 hnil
      obtain ⟨hp, h1⟩ := C02_scan_sound skin ms h
      exact ⟨by grind, h1, hp⟩
  · rintro (rfl | ⟨hs, h1, hp⟩)
    · rfl
    · apply scanLoop_eq_false_of skin ms 0 0 (by grind) ?_ ((pairwise_sum_iff skin ms).mpr hp)
      intro x hx
      have := (forall_mem_iff_getElem (· < skin) ms).mpr h1 x hx
      grind

/-- **Completeness** for genuine magnitudes (`0 ≤ m`): a rebuild is triggered only if some particle
alone, or two different particles together, moved at least the skin — i.e. the criterion is exactly
the textbook two-largest-displacements test (a single particle with `m ≥ skin` can occur because
`max2` starts at 0). -/
theorem C02_scan_complete (skin : Rat) (ms : List Rat) (h0 : ∀ x ∈ ms, 0 ≤ x)
    (h : scan skin ms = true) :
    (∃ (i : Nat) (hi : i < ms.length), skin ≤ ms[i]) ∨
    (∃ (i j : Nat) (hi : i < ms.length) (hj : j < ms.length), i ≠ j ∧ skin ≤ ms[i] + ms[j]) := by
  false_or_by_contra
  rename_i hc
  have h1 : ∀ (i : Nat) (hi : i < ms.length), ms[i] < skin := by
    intro i hi
    apply Rat.not_le.mp
    intro hle; exact hc (Or.inl ⟨i, hi, hle⟩)
  have hp : ∀ (i j : Nat) (hi : i < ms.length) (hj : j < ms.length), i ≠ j →
      ms[i] + ms[j] < skin := by
    intro i j hi hj hne
    apply Rat.not_le.mp
    intro hle; exact hc (Or.inr ⟨i, j, hi, hj, hne, hle⟩)
  have hf : scan skin ms = false := by
    rw [C02_scan_iff]
    cases ms with
    | nil => exact Or.inl rfl
    | cons t rest =>
      right
      have := h1 0 (by simp)
      have := h0 t (List.mem_cons_self ..)
      exact ⟨by grind, h1, hp⟩
  rw [hf] at h; cases h

/-- non-vacuity of `C02_scan_sound` / `C02_scan_complete`: both outcomes occur, in both storage orders -/
example : scan (7/10) [3/10, 5/10] = true ∧ scan (7/10) [5/10, 3/10] = true ∧
    scan (7/10) [3/10, 3/10, 1/10] = false ∧ scan (7/10) [1/10, 1/10, 3/10, 1/10, 4/10] = true := by
  decide +kernel

/-- **The pre-fix loop violates soundness** (regression witness): two particles, the slower one
stored first, together moved `8/10 ≥ 7/10 = skin`, and the old loop does not rebuild … -/
theorem C02_scan_old_unsound_witness :
    scanOld (7/10) [3/10, 5/10] = false ∧ ((3/10 : Rat) + 5/10 ≥ 7/10) := by
  decide +kernel

/-- … while the fixed loop does, and the old loop was order dependent. -/
theorem C02_scan_old_order_dependent :
    scan (7/10) [3/10, 5/10] = true ∧ scanOld (7/10) [5/10, 3/10] = true := by
  decide +kernel

/-- What the pre-fix loop did guarantee: without rebuild every single particle moved less than the
skin (which bounds a pair only by `2·skin`, not by `skin`). -/
theorem C02_scan_old_partial (skin : Rat) (ms : List Rat) (h : scanOld skin ms = false) :
    ∀ (i : Nat) (hi : i < ms.length), ms[i] < skin :=
  (forall_mem_iff_getElem (· < skin) ms).mp (scanOldLoop_false skin ms 0 0 (Rat.le_refl) h)

/-- **First evaluation rebuilds**: any scanned particle with magnitude `≥ skin` forces a rebuild,
wherever it is stored … -/
theorem C02_first_step_rebuilds (skin : Rat) (ms : List Rat) (m : Rat) (hm : m ∈ ms)
    (hs : skin ≤ m) : scan skin ms = true := by
  cases h : scan skin ms with
  | true => rfl
  | false =>
    obtain ⟨i, hi, rfl⟩ := List.getElem_of_mem hm
    have := (C02_scan_sound skin ms h).2 i hi
    grind

/-- … and `setupAfterParticleCreation` (`oldDisp[dir] = 2*m_skin_size` for all three `dir`, current
displacement `0`) makes every magnitude `m = |0 − (2s,2s,2s)|`, i.e. `m ≥ 0`, `m² = 3·(2s)²`, at least
the skin (`skin ≥ 0` is enforced by `setup`). -/
theorem C02_first_step_magnitude (skin m : Rat) (hs : 0 ≤ skin) (hm : 0 ≤ m)
    (hsq : m * m = (2 * skin) * (2 * skin) + (2 * skin) * (2 * skin) + (2 * skin) * (2 * skin)) :
    skin ≤ m := by
  apply Rat.not_lt.mp
  intro hlt
  have h1 : m * m ≤ skin * m := Rat.mul_le_mul_of_nonneg_right (Rat.le_of_lt hlt) hm
  have h2 : skin * m ≤ skin * skin := Rat.mul_le_mul_of_nonneg_left (Rat.le_of_lt hlt) hs
  have hpos : 0 < skin := by grind
  have h3 : 0 < skin * skin := Rat.mul_pos hpos hpos
  grind

/-- **But**: with NO scanned particle (no colour has an `IntegratorPosition`, or those colours have
no free particle yet) the displacement scan never asks for a list — not even at the first
evaluation.  Pairs among non-integrated free particles / frozen particles are then never listed. -/
theorem C02_scan_empty_never_rebuilds (skin : Rat) : scan skin [] = false := rfl

/-! ## counter mode (`every > 0`) -/

/-- In counter mode the list is rebuilt at call 0 and then exactly at the calls whose number is a
multiple of `every`, for every `every ≥ 1` and every number of calls. -/
theorem C02_every_mode (every n : Nat) (hE : 1 ≤ every) :
    (everyRun every n).length = n ∧
    ∀ (k : Nat) (hk : k < (everyRun every n).length),
      (everyRun every n)[k] = decide (k % every = 0) := by
  refine ⟨everyRunFrom_length every n 0, ?_⟩
  intro k hk
  cases n with
  | zero => simp [everyRun, everyRunFrom] at hk
  | succ n =>
    cases k with
    | zero => simp [everyRun, everyRunFrom, everyStep_zero]
    | succ k =>
      simp only [everyRun, everyRunFrom, everyStep_zero, List.getElem_cons_succ]
      rw [everyRunFrom_getElem every hE n 1 k (Nat.le_refl 1) hE, Nat.add_comm]

example : everyRun 3 8 = [true, false, false, true, false, false, true, false] := by decide
example : everyRun 1 3 = [true, true, true] := by decide

/-! ## refresh branch -/

/-- **Periodic direction**: for a box extent `L > 0` and the raw difference `c` of two coordinates
in `[0, L)` (so `-L < c < L`) the refreshed component is `c + k·L` with `k ∈ {-1, 0, 1}`, lies in
`[-L/2, L/2]`, no other periodic image `c' + n·L` (`n ≠ 0`) is strictly nearer to 0, and a component
already in `[-L/2, L/2]` is left untouched.  So it is a minimum-image difference. -/
theorem C02_refresh_minimage (L c : Rat) (hL : 0 < L) (h1 : -L < c) (h2 : c < L) :
    (∃ k : Int, (k = -1 ∨ k = 0 ∨ k = 1) ∧ refreshWrap L c = c + k * L) ∧
    (-(L / 2) ≤ refreshWrap L c ∧ refreshWrap L c ≤ L / 2) ∧
    (∀ n : Int, n ≠ 0 → L / 2 ≤ refreshWrap L c + n * L ∨ refreshWrap L c + n * L ≤ -(L / 2)) ∧
    (-(L / 2) ≤ c → c ≤ L / 2 → refreshWrap L c = c) := by
  have key : (c > (1/2 : Rat) * L ∧ refreshWrap L c = c - L) ∨
      (c < -((1/2 : Rat) * L) ∧ refreshWrap L c = c + L) ∨
      (¬ c > (1/2 : Rat) * L ∧ ¬ c < -((1/2 : Rat) * L) ∧ refreshWrap L c = c) := by
    unfold refreshWrap
    by_cases ha : c > (1/2 : Rat) * L
    · left
      have : ¬ (c - L < -((1/2 : Rat) * L)) := by grind
      simp [ha, this]
    · by_cases hb : c < -((1/2 : Rat) * L)
      · right; left; simp [ha, hb]
      · right; right; simp [ha, hb]
  have hrange : -(L / 2) ≤ refreshWrap L c ∧ refreshWrap L c ≤ L / 2 := by grind
  refine ⟨?_, hrange, ?_, ?_⟩
  · rcases key with ⟨_, h⟩ | ⟨_, h⟩ | ⟨_, _, h⟩
    · exact ⟨-1, Or.inl rfl, by rw [h]; grind⟩
    · exact ⟨1, Or.inr (Or.inr rfl), by rw [h]; grind⟩
    · exact ⟨0, Or.inr (Or.inl rfl), by rw [h]; grind⟩
  · intro n hn
    rcases Int.lt_or_gt_of_ne hn with hneg | hpos
    · right
      have hn1 : (n : Rat) ≤ -1 := by
        have h : n ≤ -1 := by omega
        simpa using Rat.intCast_le_intCast.mpr h
      have : (n : Rat) * L ≤ (-1) * L := Rat.mul_le_mul_of_nonneg_right hn1 (Rat.le_of_lt hL)
      grind
    · left
      have hn1 : (1 : Rat) ≤ (n : Rat) := by
        have h : 1 ≤ n := by omega
        simpa using Rat.intCast_le_intCast.mpr h
      have : 1 * L ≤ (n : Rat) * L := Rat.mul_le_mul_of_nonneg_right hn1 (Rat.le_of_lt hL)
      grind
  · intro ha hb
    rcases key with ⟨h, _⟩ | ⟨h, _⟩ | ⟨_, _, h⟩
    · grind
    · grind
    · exact h

/-- non-vacuity: all three cases of the wrap occur -/
example : refreshWrap 10 7 = -3 ∧ refreshWrap 10 (-7) = 3 ∧ refreshWrap 10 4 = 4 ∧
    refreshWrap 10 5 = 5 ∧ refreshWrap 10 (-5) = -5 := by decide +kernel

/-- **Non-periodic direction** — the wrap is applied there too although it should not be
(`refreshWrapGuardedByPeriodicity = false`).  Here `c` is the TRUE component of the separation.
With interaction cutoff `rc`, skin `s`, and the cell-subdivision guarantee `L ≥ 2·(rc + s)`
(at least two cells of width ≥ `listCutoff rc s` per direction):
* a component with `|c| ≤ L/2` — in particular every `|c| < rc`, i.e. every truly close pair — is
  reported exactly;
* a component with `|c| > L/2` is reported as `c ∓ L`;
* a listed pair (`|c₀| < rc + s` at the rebuild, both particles together moved `< s` since, hence
  `|c| < rc + 2s` now) whose component is wrongly wrapped is still reported with modulus `> rc`,
  so the pair is not reported inside the interaction cutoff. -/
theorem C02_refresh_no_false_close (L rc s c : Rat) (hrc : 0 < rc) (hs : 0 ≤ s)
    (hL : 2 * listCutoff rc s ≤ L) :
    (-(L / 2) ≤ c → c ≤ L / 2 → refreshWrap L c = c) ∧
    (-rc < c → c < rc → refreshWrap L c = c) ∧
    (L / 2 < c → refreshWrap L c = c - L) ∧
    (c < -(L / 2) → refreshWrap L c = c + L) ∧
    (-(rc + 2 * s) < c → c < rc + 2 * s → refreshWrap L c ≠ c →
      rc < refreshWrap L c ∨ refreshWrap L c < -rc) := by
  unfold listCutoff at hL
  have key : (c > (1/2 : Rat) * L ∧ refreshWrap L c = c - L) ∨
      (c < -((1/2 : Rat) * L) ∧ refreshWrap L c = c + L) ∨
      (¬ c > (1/2 : Rat) * L ∧ ¬ c < -((1/2 : Rat) * L) ∧ refreshWrap L c = c) := by
    unfold refreshWrap
    by_cases ha : c > (1/2 : Rat) * L
    · left
      have : ¬ (c - L < -((1/2 : Rat) * L)) := by grind
      simp [ha, this]
    · by_cases hb : c < -((1/2 : Rat) * L)
      · right; left; simp [ha, hb]
      · right; right; simp [ha, hb]
  refine ⟨?_, ?_, ?_, ?_, ?_⟩ <;> grind

/-- The box condition of `C02_refresh_no_false_close` is sharp: in any smaller box some admissible
component of a listed pair is wrongly wrapped to a value inside the interaction cutoff. -/
theorem C02_refresh_box_condition_sharp (L rc s : Rat) (hrc : 0 < rc) (hs : 0 ≤ s) (hL0 : 0 < L)
    (hL : L < 2 * listCutoff rc s) :
    ∃ c, -(rc + 2 * s) < c ∧ c < rc + 2 * s ∧ refreshWrap L c ≠ c ∧
      -rc < refreshWrap L c ∧ refreshWrap L c < rc := by
  unfold listCutoff at hL
  -- any point strictly between `lo = max (L/2) (L - rc)` and `hi = min L (rc + 2 s)` works
  have main : ∀ lo hi : Rat, L / 2 ≤ lo → L - rc ≤ lo → lo < hi → hi ≤ L → hi ≤ rc + 2 * s →
      ∃ c, -(rc + 2 * s) < c ∧ c < rc + 2 * s ∧ refreshWrap L c ≠ c ∧
        -rc < refreshWrap L c ∧ refreshWrap L c < rc := by
    intro lo hi h1 h2 h3 h4 h5
    refine ⟨(lo + hi) / 2, ?_⟩
    have hc : (lo + hi) / 2 > (1/2 : Rat) * L := by grind
    have hc2 : ¬ ((lo + hi) / 2 - L < -((1/2 : Rat) * L)) := by grind
    have hw : refreshWrap L ((lo + hi) / 2) = (lo + hi) / 2 - L := by
      unfold refreshWrap; simp [hc, hc2]
    rw [hw]; grind
  by_cases hlo : L - rc ≤ L / 2 <;> by_cases hhi : L ≤ rc + 2 * s
  · exact main (L / 2) L (by grind) hlo (by grind) (by grind) hhi
  · exact main (L / 2) (rc + 2 * s) (by grind) hlo (by grind) (by grind) (by grind)
  · exact main (L - rc) L (by grind) (by grind) (by grind) (by grind) hhi
  · exact main (L - rc) (rc + 2 * s) (by grind) (by grind) (by grind) (by grind) (by grind)

/-- non-vacuity of `C02_refresh_no_false_close`: `rc = 1`, `s = 1/2`, `L = 3 = 2(rc+s)`; a listed pair
whose true component grew to `c = 19/10 < rc + 2s` is wrongly wrapped to `-11/10`, modulus `> rc`. -/
example : (2 * listCutoff 1 (1/2) ≤ (3 : Rat)) ∧ refreshWrap 3 (19/10) = -11/10 ∧
    refreshWrap 3 (19/10) ≠ 19/10 := by decide +kernel

/-- componentwise -/
theorem C02_refreshVec_components (box d : Rat × Rat × Rat) :
    refreshVec box d =
      (refreshWrap box.1 d.1, refreshWrap box.2.1 d.2.1, refreshWrap box.2.2 d.2.2) := rfl

end Sympler.Verlet

namespace Sympler.Verlet
open Sympler.Gen.Verlet

/-- the scan state of the generated source is what the model `scan` assumes: `max_disp` and `max2` start at 0 and are
declared BEFORE the loop over colours, i.e. the list of magnitudes scanned is the concatenation over all species
(resetting them per species would compare only displacements within one species) -/
theorem C02_scan_scope : scanStateSharedByAllColours = true ∧ scanInit = (0, 0) := by decide

end Sympler.Verlet
