import Sympler.Stages
import Sympler.Gen.StagesGen
/-!
# Bridge between the stage-search rule regenerated from symbol.cpp (`Sympler/Gen/StagesGen.lean`, translator
`translate/t_stages.py`) and the model `Sympler/Stages.lean` (property C06).  Core Lean only.
-/
namespace Sympler.Stages

/-- C `int` stage: `-1` = undetermined -/
def enc : Option Nat → Int
  | none => -1
  | some k => (k : Int)

/-- **the producer rule**: what the model's `visit` does with the stage of a producer `p` of a used name is, at every one of the
sites of symbol.cpp (all of the same form, all excluding `this`), the generated rule: an undetermined producer sets `tooEarly`
and resets the own stage; otherwise the own stage is raised to `producer + 1` iff `producer ≥ own`. -/
theorem Bridge_visit (st : Nat → Option Nat) (w : Walk) (p : Sym) :
    let r := Sympler.Gen.Stages.producerRule (enc (st p.id)) (enc w.stage)
    enc (visit st w p).stage = r.2 ∧ (visit st w p).tooEarly = (r.1 || w.tooEarly) ∧ (visit st w p).nothing = false := by
  unfold visit Sympler.Gen.Stages.producerRule
  cases h : st p.id with
  | none => simp [enc]
  | some k =>
    cases hw : w.stage with
    | none =>
      have h1 : ¬ ((k : Int) = -1) := by omega
      have h2 : (k : Int) ≥ -1 := by omega
      simp [enc, h1, h2]
    | some m =>
      have h1 : ¬ ((k : Int) = -1) := by omega
      by_cases hk : k ≥ m
      · have h2 : (k : Int) ≥ (m : Int) := by omega
        simp [enc, h1, hk, h2]
      · have h2 : ¬ (k : Int) ≥ (m : Int) := by omega
        simp [enc, h1, hk, h2]

/-- every site excludes the symbol itself; the default number of sweeps and the bound test of `setSymbolStages`
(`iter` fails exactly when more than `stageIterations` sweeps would be needed) -/
theorem Bridge_stage_constants :
    Sympler.Gen.Stages.selfExcludedSites = Sympler.Gen.Stages.producerSites ∧ 0 < Sympler.Gen.Stages.producerSites ∧
    Sympler.Gen.Stages.stageIterationsDefault = 20 ∧
    (∀ c s, Sympler.Gen.Stages.boundExceeded c s = decide (c > s)) := ⟨by decide, by decide, rfl, fun _ _ => rfl⟩


/-- **the early pass (`stage="0"`) is staged by a faithful twin** (regenerated): `findStageForSymbolName_0` searches the same five kinds
of producer registries, in the same order, as `findStageForSymbolName` - each time the `_0` registry, and the default-pass function
none of them.  (A producer looked up in the wrong pass's registry is not found: reader and producer then get the same stage and the
input order decides - the seeded change C06c.) -/
theorem C06_stage0_twin :
    Sympler.Gen.Stages.stageRegistries0 = Sympler.Gen.Stages.stageRegistries ∧ Sympler.Gen.Stages.stageRegistries0AllEarly = true ∧
    Sympler.Gen.Stages.stageRegistriesAnyEarly = false ∧ Sympler.Gen.Stages.stageRegistries.length = 5 := by decide

end Sympler.Stages
