import Sympler.ExprEmitLemmas

/-!
# C03 — a runtime-compiled expression computes what the expression language defines

Model: `Sympler/Expr.lean` (parser `parse`, interpreter `denote` = `value()`, emitter `toC` = `toC()`,
C reader `parseC`/`evalC` = the specification of what gcc makes of the emitted text).
Lemmas: `Sympler/ExprCLemmas.lean` (the reader reads back what the emitter writes),
`Sympler/ExprEmitLemmas.lean` (the emitted terms against the interpreter).
-/
namespace Sympler.Expr

/-- The value of one compiled component: what `evalC ∘ parseC` makes of the emitted string is the
interpreter's value — unless the C text performs a truncating `int / int` division (finding
`C03_int_division_witness`: that case exists). -/
def CompiledAgrees (env : Env) (s : String) (x : Rat) : Prop :=
  evalC env s = .ok x ∨ evalC env s = .error .intTrunc

theorem evalC_of_good {env : Env} {e : CE} {x : Rat} (h : G env e x) :
    CompiledAgrees env (String.ofList e.render) x := by
  unfold CompiledAgrees evalC parseC
  rw [String.toList_ofList, parseCL_render e h.1.ok]
  exact h.2

/-- **compiled = interpreter.**  For every tree `t` (whose library functions carry the C names of the
generated table, `Tree.wf`; every tree built by `parse` is such a tree, `parse_wf`), every environment
(variable values, declared symbols, oracles for the libm functions): if the emitter produces the strings
`strs` and the interpreter the value `v`, then there are as many strings as components and every
string, read as C and evaluated, gives the corresponding component of `v` (or is a truncating integer
division).  Covers all operators and functions, the index expressions of `:`, `°`, `@`, `det`, the
unrolling of `^` for positive / zero / negative integral constant exponents, and broadcasting. -/
theorem C03_emit_sound (env : Env) (t : Tree) (hwf : t.wf = true) (strs : List String) (v : Val Rat)
    (hc : toC env t = .ok strs) (hv : denote env t = .ok v) :
    strs.length = v.toList.length ∧ ∀ p ∈ strs.zip v.toList, CompiledAgrees env p.1 p.2 := by
  unfold toC at hc
  obtain ⟨c, hc', hs⟩ := bind_ok hc
  injection hs with hs
  subst hs
  have hg := toCE_good env t hwf c v hc' hv
  cases c <;> cases v <;> (try exact hg.elim)
  · refine ⟨rfl, ?_⟩
    intro p hp
    simp only [Val.toList, List.map, List.zip_cons_cons, List.zip_nil_right, List.mem_singleton] at hp
    subst hp
    exact evalC_of_good hg
  · refine ⟨rfl, ?_⟩
    intro p hp
    simp only [Val.toList, V3.toList, List.map, List.zip_cons_cons, List.zip_nil_right, List.mem_cons,
      List.not_mem_nil, or_false] at hp
    rcases hp with h | h | h <;> subst h
    · exact evalC_of_good hg.1
    · exact evalC_of_good hg.2.1
    · exact evalC_of_good hg.2.2
  · refine ⟨rfl, ?_⟩
    intro p hp
    obtain ⟨a0, a1, a2, a3, a4, a5, a6, a7, a8⟩ := hg
    simp only [Val.toList, M9.toList, List.map, List.zip_cons_cons, List.zip_nil_right, List.mem_cons,
      List.not_mem_nil, or_false] at hp
    rcases hp with h | h | h | h | h | h | h | h | h <;> subst h
    · exact evalC_of_good a0
    · exact evalC_of_good a1
    · exact evalC_of_good a2
    · exact evalC_of_good a3
    · exact evalC_of_good a4
    · exact evalC_of_good a5
    · exact evalC_of_good a6
    · exact evalC_of_good a7
    · exact evalC_of_good a8

end Sympler.Expr
