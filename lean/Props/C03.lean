import Sympler.ExprUsualLemmas
import Sympler.ExprDblLemmas
import Sympler.ExprHistory

/-!
# C03 — a runtime-compiled expression computes what the expression language defines

Model: `Sympler/Expr.lean` (parser `parse`, interpreter `denote` = `value()`, emitter `toC` = `toC()`,
C reader `parseC`/`evalC` = the specification of what gcc makes of the emitted text).
Lemmas: `Sympler/ExprCLemmas.lean` (the reader reads back what the emitter writes),
`Sympler/ExprEmitLemmas.lean` (the emitted terms against the interpreter),
`Sympler/ExprDblLemmas.lean` (no integer-typed term is emitted).

The model describes /repo after the commits ad91e0f (no `int`-typed sub-expressions in the generated C)
and 461b1b3 (unbalanced / nested empty brackets are ordinary errors, NULL vector / tensor variables in
an exponent throw a `gError`).  What the code did before is recorded, on explicitly named `…Old`
definitions (`Sympler/ExprHistory.lean`), by the `C03_old_…_witness` theorems at the end.
-/
namespace Sympler.Expr

/-- The value of one compiled component: what `evalC ∘ parseC` makes of the emitted string is the
interpreter's value.  (Pre-fix, this had the alternative "or the C text performs a truncating
`int / int` division"; since ad91e0f every emitted term is a C `double`, `C03_emit_no_int_division`,
and the alternative is gone.) -/
def CompiledAgrees (env : Env) (s : String) (x : Rat) : Prop :=
  evalC env s = .ok x

theorem evalC_of_good {env : Env} {e : CE} {x : Rat} (h : G env e x) :
    CompiledAgrees env (String.ofList e.render) x := by
  unfold CompiledAgrees evalC parseC
  rw [String.toList_ofList, parseCL_render e h.1.ok]
  exact h.2.1

/-- **compiled = interpreter.**  For every tree `t` (whose library functions carry the C names of the
generated table, `Tree.wf`; every tree built by `parse` is such a tree, `parse_wf`), every environment
(variable values, declared symbols, oracles for the libm functions): if the emitter produces the strings
`strs` and the interpreter the value `v`, then there are as many strings as components and every
string, read as C and evaluated, gives the corresponding component of `v` — no side condition about
integer divisions any more.  Covers all operators and functions, the index expressions of `:`, `°`, `@`, `det`, the
unrolling of `^` for positive / zero / negative integral constant exponents, and broadcasting. -/
theorem C03_emit_sound (env : Env) (t : Tree) (hwf : t.wf = true) (strs : List String) (v : Val Rat)
    (hc : toC env t = .ok strs) (hv : denote env t = .ok v) :
    strs.length = v.toList.length ∧ ∀ p ∈ strs.zip v.toList, CompiledAgrees env p.1 p.2 := by
  unfold toC at hc
  obtain ⟨c, hc', hs⟩ := bind_ok hc
  injection hs with hs
  subst hs
  have hg := toCE_good env t hwf c v hc' hv
  cases c <;> cases v <;> (try exact hg.elim)
  · refine ⟨rfl, ?_⟩
    intro p hp
    simp only [Val.toList, List.map, List.zip_cons_cons, List.zip_nil_right, List.mem_singleton] at hp
    subst hp
    exact evalC_of_good hg
  · refine ⟨rfl, ?_⟩
    intro p hp
    simp only [Val.toList, V3.toList, List.map, List.zip_cons_cons, List.zip_nil_right, List.mem_cons,
      List.not_mem_nil, or_false] at hp
    rcases hp with h | h | h <;> subst h
    · exact evalC_of_good hg.1
    · exact evalC_of_good hg.2.1
    · exact evalC_of_good hg.2.2
  · refine ⟨rfl, ?_⟩
    intro p hp
    obtain ⟨a0, a1, a2, a3, a4, a5, a6, a7, a8⟩ := hg
    simp only [Val.toList, M9.toList, List.map, List.zip_cons_cons, List.zip_nil_right, List.mem_cons,
      List.not_mem_nil, or_false] at hp
    rcases hp with h | h | h | h | h | h | h | h | h <;> subst h
    · exact evalC_of_good a0
    · exact evalC_of_good a1
    · exact evalC_of_good a2
    · exact evalC_of_good a3
    · exact evalC_of_good a4
    · exact evalC_of_good a5
    · exact evalC_of_good a6
    · exact evalC_of_good a7
    · exact evalC_of_good a8

/-- `C03_emit_sound` for what the parser accepts: every accepted expression text. -/
theorem C03_emit_sound_parsed (env : Env) (text : String) (t : Tree)
    (hp : parse (env.decls.map (·.name)) text = .ok t) (strs : List String) (v : Val Rat)
    (hc : toC env t = .ok strs) (hv : denote env t = .ok v) :
    strs.length = v.toList.length ∧ ∀ p ∈ strs.zip v.toList, CompiledAgrees env p.1 p.2 :=
  C03_emit_sound env t (parse_wf hp) strs v hc hv

/-- **No integer-typed division is emitted.**  For every tree `t` (`Tree.wf`) and every environment: if
the emitter produces the strings `strs` — whether or not the interpreter has a value — every string is
read by the C reader as an expression `cx` that has the C type `double` and in which no division has two
`int` operands.  (Purely syntactic; `ExprDblLemmas.toCE_dbl`.) -/
theorem C03_emit_no_int_division (env : Env) (t : Tree) (hwf : t.wf = true) (strs : List String)
    (hc : toC env t = .ok strs) :
    ∀ s ∈ strs, ∃ cx, parseC s = .ok cx ∧ cx.isInt = false ∧ cx.noIntDiv = true := by
  unfold toC at hc
  obtain ⟨c, hc', hs⟩ := bind_ok hc
  injection hs with hs
  subst hs
  intro s hs
  obtain ⟨e, he, rfl⟩ := List.mem_map.mp hs
  have hd := (toCE_dbl env t hwf c hc').toList e he
  refine ⟨e.abs, ?_, hd.dbl, hd.nid⟩
  unfold parseC
  rw [String.toList_ofList]
  exact parseCL_render e hd.prim.ok

/-- `C03_emit_no_int_division` for what the parser accepts -/
theorem C03_emit_no_int_division_parsed (env : Env) (text : String) (t : Tree)
    (hp : parse (env.decls.map (·.name)) text = .ok t) (strs : List String)
    (hc : toC env t = .ok strs) :
    ∀ s ∈ strs, ∃ cx, parseC s = .ok cx ∧ cx.isInt = false ∧ cx.noIntDiv = true :=
  C03_emit_no_int_division env t (parse_wf hp) strs hc

/-- … hence the C value of an emitted string is never one of the outcomes of an integer division
(`intTrunc`: truncating, `intDiv0`: undefined behaviour), whatever the variable values — provided the
libm oracles of the environment do not return such an error themselves (`OraclesClean`; the oracles of
the driver only return `opaque`). -/
theorem C03_emit_never_int_error (env : Env) (henv : OraclesClean env) (t : Tree) (hwf : t.wf = true)
    (strs : List String) (hc : toC env t = .ok strs) :
    ∀ s ∈ strs, evalC env s ≠ .error .intTrunc ∧ evalC env s ≠ .error .intDiv0 := by
  intro s hs
  obtain ⟨cx, hcx, _, hn⟩ := C03_emit_no_int_division env t hwf strs hc s hs
  have h := evalCX_noIntDiv henv cx hn
  unfold evalC
  rw [hcx]
  exact ⟨fun he => h _ he (Or.inl rfl), fun he => h _ he (Or.inr rfl)⟩

/-- **Totality.**  `parse` is a total function (structural recursion on fuel, no `partial`); the fuel
`length + 1` it supplies is never exhausted: for every text and every symbol table the result is a tree
or one of the `gError`s of the real code, never `fuel` (neither the fuel of `parseCore` nor that of the
bracket loop `stripLoop`).
Side condition on the generated table (`factories_names_ne_nil`, by `decide`): no operator or function
has the empty name. -/
theorem C03_total (syms : List String) (text : String) :
    (∃ t, parse syms text = .ok t) ∨ (∃ e, parse syms text = .error e ∧ e ≠ .fuel) := by
  cases h : parse syms text with
  | ok t => exact Or.inl ⟨t, rfl⟩
  | error e =>
    refine Or.inr ⟨e, rfl, ?_⟩
    intro he
    subst he
    exact parse_ne_fuel syms text h

/-! ## The parser: precedence and associativity -/

/-- **The grammar of the parser.**  For every surface expression `e` of the grammar `SE.ok` — one
precedence level per binary operator in the order of the GENERATED table (`+ - * / : ° @ ^`, loosest
first), every operator left-associative, a unary minus in front of a term of level `*` or tighter,
function applications `f(e)`, any number of redundant brackets, atoms admitted by `SE.atomOK` —
the parser reads the text `e.render` as exactly the tree `e` stands for (errors of unresolvable atoms
included, in the same order).
Side conditions tying the statement to the generated table, all by `decide`: `factories_split` (the
binary operators come first, in the order that defines `BinOp.prec`, one character each),
`table_functions_ok` (every registered function is recognised in front of a bracket),
`factories_names_noparen`, `factories_names_ne_nil`.  A changed priority or registration order falsifies
`factories_split`.
EXCLUDED by the decidable predicate `SE.atomOK`: atoms in which the parser's own search finds an operator
or a function name (`Temp`, `expo`, `absa`, `a-b`, `1e-5`); see `C03_name_clash_witness`. -/
theorem C03_parse_render_sym (syms : List String) (e : SE) (hok : e.ok = true) :
    parse syms (String.ofList e.render) = e.toTree (fun n => syms.contains n) := by
  unfold parse
  rw [String.toList_ofList]
  exact parse_render_sym _ _ e hok (Nat.lt_succ_self _)

/-- **Usual precedence and associativity.**  For every surface expression `u` of the USUAL grammar
`SE.okU` (sums/differences of products/quotients of tensor-operator chains of powers of atoms;
`+ -` one level and `* /` one level, both left-associative; unary minus as the sign of the first term of
a sum; atoms are names, numbers, `[v]`, `{T}`, function applications and bracketed expressions, with any
number of redundant brackets): the parser's reading of the text `u.render` REFINES the usual reading `u`:

* either some atom cannot be resolved — then both report the same error;
* or the parser builds a tree `ts`, the usual reading is the tree `tu`, and whenever the interpreter
  evaluates `ts` to a value `v` it evaluates `tu` to the same `v`
  (the parser groups `a-b+c-d` as `(a-b)+(c-d)` and `a/b*c/d` as `(a/b)*(c/d)`; the values agree over
  the rationals, division by zero being an error on both sides).

The converse direction fails: the parser's grouping can be ill-typed where the usual one is not
(`C03_usual_reading_rejected_witness`) — the expression is then rejected, not misread. -/
theorem C03_parse_render (env : Env) (u : SE) (hu : u.okU = true) :
    Refines env (parse (env.decls.map (·.name)) (String.ofList u.render))
      (u.toTree (fun n => (env.decls.map (·.name)).contains n)) := by
  have h1 := C03_parse_render_sym (env.decls.map (·.name)) u.resym (SE.ok_resym u hu)
  rw [SE.render_resym] at h1
  rw [h1]
  exact SE.refines_resym env _ u

/-- `Refines` spelled out for an accepted expression -/
theorem C03_parse_render_value (env : Env) (u : SE) (hu : u.okU = true) (ts : Tree) (v : Val Rat)
    (hp : parse (env.decls.map (·.name)) (String.ofList u.render) = .ok ts)
    (hv : denote env ts = .ok v) :
    ∃ tu, u.toTree (fun n => (env.decls.map (·.name)).contains n) = .ok tu ∧ denote env tu = .ok v := by
  have h := C03_parse_render env u hu
  rw [hp] at h
  cases htu : u.toTree (fun n => (env.decls.map (·.name)).contains n) with
  | error e => rw [htu] at h; exact h.elim
  | ok tu => rw [htu] at h; exact ⟨tu, rfl, h v hv⟩

/-! ## `denote` is the documented meaning (`sympler --help expressions`)

`denote` is the transcription of the interpreter `value()`, so `C03_emit_sound` is "compiled =
interpreter".  The lemmas below state, operator by operator, that this transcription is the documented
mathematical meaning, with explicit indices (`i j k : Fin 3`, row `i`, column `j`). -/

def V3.get {α : Type} (a : V3 α) (i : Fin 3) : α :=
  match i with
  | 0 => a.x | 1 => a.y | 2 => a.z

def M9.get {α : Type} (a : M9 α) (i j : Fin 3) : α :=
  match i, j with
  | 0, 0 => a.xx | 0, 1 => a.xy | 0, 2 => a.xz
  | 1, 0 => a.yx | 1, 1 => a.yy | 1, 2 => a.yz
  | 2, 0 => a.zx | 2, 1 => a.zy | 2, 2 => a.zz

/-- `Σ_{i<3} f i` -/
def sum3 (f : Fin 3 → Rat) : Rat := f 0 + f 1 + f 2

theorem fin3_forall {P : Fin 3 → Prop} (h0 : P 0) (h1 : P 1) (h2 : P 2) : ∀ i, P i := by
  intro ⟨i, hi⟩
  have : i = 0 ∨ i = 1 ∨ i = 2 := by omega
  rcases this with h | h | h <;> subst h <;> assumption

/-- `Vector:Vector` is the scalar product `Σᵢ aᵢ bᵢ` -/
theorem C03_denote_meaning_contract_vv (env : Env) (a b : V3 Rat) :
    evalBin env .contract (.v a) (.v b) = .ok (.s (sum3 fun i => a.get i * b.get i)) := rfl

/-- `Matrix:Matrix` is the full contraction `Σᵢ Σⱼ aᵢⱼ bᵢⱼ` -/
theorem C03_denote_meaning_contract_tt (env : Env) (a b : M9 Rat) :
    evalBin env .contract (.t a) (.t b) =
      .ok (.s (sum3 fun i => sum3 fun j => a.get i j * b.get i j)) := by
  show Except.ok (Val.s (dot9 a b)) = _
  simp only [dot9, sum3, M9.get]
  congr 2
  grind

/-- `Matrix:Vector` is the matrix-vector product `rᵢ = Σⱼ aᵢⱼ bⱼ` -/
theorem C03_denote_meaning_contract_tv (env : Env) (a : M9 Rat) (b : V3 Rat) :
    ∃ r, evalBin env .contract (.t a) (.v b) = .ok (.v r) ∧
      ∀ i, r.get i = sum3 fun j => a.get i j * b.get j :=
  ⟨matVec a b, rfl, fin3_forall rfl rfl rfl⟩

/-- `°` is the matrix product `rᵢⱼ = Σₖ aᵢₖ bₖⱼ` -/
theorem C03_denote_meaning_dot (env : Env) (a b : M9 Rat) :
    ∃ r, evalBin env .dot (.t a) (.t b) = .ok (.t r) ∧
      ∀ i j, r.get i j = sum3 fun k => a.get i k * b.get k j :=
  ⟨matMul a b, rfl, fin3_forall (fin3_forall rfl rfl rfl) (fin3_forall rfl rfl rfl)
    (fin3_forall rfl rfl rfl)⟩

/-- `@` is the outer product `rᵢⱼ = aᵢ bⱼ` -/
theorem C03_denote_meaning_outer (env : Env) (a b : V3 Rat) :
    ∃ r, evalBin env .outer (.v a) (.v b) = .ok (.t r) ∧ ∀ i j, r.get i j = a.get i * b.get j :=
  ⟨outer3 a b, rfl, fin3_forall (fin3_forall rfl rfl rfl) (fin3_forall rfl rfl rfl)
    (fin3_forall rfl rfl rfl)⟩

/-- `T` is the transpose `rᵢⱼ = aⱼᵢ` -/
theorem C03_denote_meaning_T (env : Env) (a : M9 Rat) :
    ∃ r, evalFn env .T (.t a) = .ok (.t r) ∧ ∀ i j, r.get i j = a.get j i :=
  ⟨_, rfl, fin3_forall (fin3_forall rfl rfl rfl) (fin3_forall rfl rfl rfl) (fin3_forall rfl rfl rfl)⟩

/-- `det` is the Leibniz formula: the sum over the six permutations of `{0,1,2}` with their signs -/
theorem C03_denote_meaning_det (env : Env) (a : M9 Rat) :
    evalFn env .det (.t a) = .ok (.s (
      a.get 0 0 * a.get 1 1 * a.get 2 2 - a.get 0 0 * a.get 1 2 * a.get 2 1
      - a.get 0 1 * a.get 1 0 * a.get 2 2 + a.get 0 1 * a.get 1 2 * a.get 2 0
      + a.get 0 2 * a.get 1 0 * a.get 2 1 - a.get 0 2 * a.get 1 1 * a.get 2 0)) := by
  show Except.ok (Val.s (det9 a)) = _
  simp only [det9, M9.get]
  congr 2
  grind

/-- `trace` is `Σᵢ aᵢᵢ` -/
theorem C03_denote_meaning_trace (env : Env) (a : M9 Rat) :
    evalFn env .trace (.t a) = .ok (.s (sum3 fun i => a.get i i)) := rfl

/-- `Q(Matrix)` is `Matrix:Matrix` -/
theorem C03_denote_meaning_Q (env : Env) (a : M9 Rat) :
    evalFn env .Q (.t a) = evalBin env .contract (.t a) (.t a) := rfl

/-- `diagMat`, `idMat`, `unitMat`, `xyMat` entry by entry -/
theorem C03_denote_meaning_matrices (env : Env) (v : V3 Rat) (d : Rat) (a : M9 Rat) :
    (∃ r, evalFn env .diagMat (.v v) = .ok (.t r) ∧ ∀ i j, r.get i j = if i = j then v.get i else 0) ∧
    (∃ r, evalFn env .idMat (.s d) = .ok (.t r) ∧ ∀ i j, r.get i j = if i = j then d else 0) ∧
    (∃ r, evalFn env .unitMat (.s d) = .ok (.t r) ∧ ∀ i j, r.get i j = d) ∧
    (∃ r, evalFn env .xyMat (.t a) = .ok (.t r) ∧
      ∀ i j, r.get i j = if i = 2 ∨ j = 2 then 0 else a.get i j) :=
  ⟨⟨_, rfl, fin3_forall (fin3_forall rfl rfl rfl) (fin3_forall rfl rfl rfl) (fin3_forall rfl rfl rfl)⟩,
   ⟨_, rfl, fin3_forall (fin3_forall rfl rfl rfl) (fin3_forall rfl rfl rfl) (fin3_forall rfl rfl rfl)⟩,
   ⟨_, rfl, fin3_forall (fin3_forall rfl rfl rfl) (fin3_forall rfl rfl rfl) (fin3_forall rfl rfl rfl)⟩,
   ⟨_, rfl, fin3_forall (fin3_forall rfl rfl rfl) (fin3_forall rfl rfl rfl) (fin3_forall rfl rfl rfl)⟩⟩

/-- `idVec`, `uVecX|Y|Z`, `x|y|zCoord` -/
theorem C03_denote_meaning_vectors (env : Env) (d : Rat) (v : V3 Rat) :
    evalFn env .idVec (.s d) = .ok (.v ⟨d, d, d⟩) ∧
    evalFn env .uVecX (.s d) = .ok (.v ⟨d, 0, 0⟩) ∧ evalFn env .uVecY (.s d) = .ok (.v ⟨0, d, 0⟩) ∧
    evalFn env .uVecZ (.s d) = .ok (.v ⟨0, 0, d⟩) ∧
    evalFn env .xCoord (.v v) = .ok (.s (v.get 0)) ∧ evalFn env .yCoord (.v v) = .ok (.s (v.get 1)) ∧
    evalFn env .zCoord (.v v) = .ok (.s (v.get 2)) :=
  ⟨rfl, rfl, rfl, rfl, rfl, rfl, rfl⟩

/-- `+ - *` component-wise on equal types, `*` and `/` broadcast a scalar; `step`, `stpVal`, `abs`,
unary minus component-wise -/
theorem C03_denote_meaning_componentwise (env : Env) (a b : V3 Rat) (s : Rat) :
    evalBin env .add (.v a) (.v b) = .ok (.v ⟨a.x + b.x, a.y + b.y, a.z + b.z⟩) ∧
    evalBin env .sub (.v a) (.v b) = .ok (.v ⟨a.x - b.x, a.y - b.y, a.z - b.z⟩) ∧
    evalBin env .mul (.v a) (.v b) = .ok (.v ⟨a.x * b.x, a.y * b.y, a.z * b.z⟩) ∧
    evalBin env .mul (.s s) (.v b) = .ok (.v ⟨s * b.x, s * b.y, s * b.z⟩) ∧
    evalBin env .mul (.v a) (.s s) = .ok (.v ⟨s * a.x, s * a.y, s * a.z⟩) ∧
    (s ≠ 0 → evalBin env .div (.v a) (.s s) = .ok (.v ⟨a.x / s, a.y / s, a.z / s⟩)) ∧
    evalFn env .step (.v a) = .ok (.v ⟨if a.x > 0 then 1 else 0, if a.y > 0 then 1 else 0,
      if a.z > 0 then 1 else 0⟩) ∧
    evalFn env .stpVal (.s s) = .ok (.s (if s > 0 then s else 0)) ∧
    evalFn env (.lib "abs" "fabs") (.s s) = .ok (.s (if s < 0 then -s else s)) := by
  refine ⟨rfl, rfl, rfl, rfl, rfl, ?_, rfl, rfl, rfl⟩
  intro hs
  simp [evalBin, Val.mapM, V3.mapM, divRat, hs, bind, Except.bind, pure, Except.pure]

/-- `^` with an integral exponent is the repeated product resp. its reciprocal -/
theorem C03_denote_meaning_pow (env : Env) (a : Rat) (n : Nat) (hn : n ≤ maxExp) :
    evalBin env .pow (.s a) (.s (n : Rat)) = .ok (.s (a ^ n)) ∧
    (a ≠ 0 → evalBin env .pow (.s a) (.s (-(n : Rat))) = .ok (.s (1 / a ^ n))) := by
  have hlt : ¬ maxExp < n := by omega
  constructor
  · simp [evalBin, powRat, hlt, bind, Except.bind, pure, Except.pure]
  · intro ha
    by_cases h0 : n = 0
    · subst h0
      simp [evalBin, powRat, bind, Except.bind, pure, Except.pure]
      grind
    · simp [evalBin, powRat, hlt, h0, ha, bind, Except.bind, pure, Except.pure]

/-! ## Example environment (non-vacuity, witnesses) -/

/-- scalars `a b c` (slots 0 1 2), vectors `[u] [w]`, tensors `{A} {B}`; the double in slot `k` is `k+1`;
the libm oracles decline -/
def exEnv : Env :=
  { decls := [⟨"a", .scalar, 0⟩, ⟨"b", .scalar, 1⟩, ⟨"c", .scalar, 2⟩, ⟨"[u]", .vector, 3⟩,
              ⟨"[w]", .vector, 6⟩, ⟨"{A}", .tensor, 9⟩, ⟨"{B}", .tensor, 18⟩]
    mem := fun k => (k : Rat) + 1
    lib := fun _ _ => .error .opaque
    powf := fun _ _ => .error .opaque
    piv := .error .opaque }

def exSyms : List String := exEnv.decls.map (·.name)

/-- parse, then run `f` on the tree -/
def withTree {α : Type} (syms : List String) (text : String) (f : Tree → Except Err α) : Except Err α :=
  parse syms text >>= f

/-- non-vacuity of `C03_emit_sound`: accepted, typed, emitted and evaluated expressions
(`a-b-c = 1-2-3`, `a/b*c/b`, `-a^2*b`, `{A}:[u]`, `det(T({A})°{B})`) -/
example : withTree exSyms "a-b-c" (denote exEnv) = .ok (.s (-4)) := by decide +kernel
example : withTree exSyms "a/b*c/b" (denote exEnv) = .ok (.s (3/4)) := by decide +kernel
example : withTree exSyms "-a^2*b" (denote exEnv) = .ok (.s (-2)) := by decide +kernel
example : (withTree exSyms "{A}:[u]" (toC exEnv)).map List.length = .ok 3 := by decide +kernel
example : (withTree exSyms "det(T({A})°{B})" (toC exEnv)).map List.length = .ok 1 := by decide +kernel
example : withTree exSyms "a-b*c" (fun t => do
    let strs ← toC exEnv t
    strs.mapM (evalC exEnv)) = (withTree exSyms "a-b*c" (denote exEnv)).map Val.toList := by
  decide +kernel

/-- non-vacuity of `C03_emit_never_int_error`: the example environment (like the driver's) has clean
oracles -/
example : OraclesClean exEnv :=
  ⟨fun _ _ _ h => by (cases h; rintro (h | h) <;> cases h),
   fun _ _ _ h => by (cases h; rintro (h | h) <;> cases h),
   fun _ h => by (cases h; rintro (h | h) <;> cases h)⟩

/-! ## Witnesses: what the real code does, proved on the model for concrete inputs
(every one of them was replayed on the real parser by the harness; `FIXED` = a former finding that the
commits ad91e0f / 461b1b3 removed, stated for the current behaviour) -/

/-- FIXED (ad91e0f; formerly the finding `C03_int_division_witness`): `step(..)` is emitted as
`(… > 0 ? 1.0 : 0.0)`, a C `double`.  `step(a)/(step(b)+step(c))` with positive `a b c`: interpreter
and compiled code both give `1/2`. -/
theorem C03_step_division_witness :
    withTree exSyms "step(a)/(step(b)+step(c))" (denote exEnv) = .ok (.s (1/2)) ∧
    withTree exSyms "step(a)/(step(b)+step(c))" (fun t => do
      let strs ← toC exEnv t
      strs.mapM (evalC exEnv)) = .ok [1/2] := by
  decide +kernel

/-- FIXED (ad91e0f; formerly `C03_int_div0_witness`): the off-diagonal component of `idMat(1)/idMat(2)`
is `((0.0)/(0.0))`, a `double` division (`nan` at run time, like the interpreter; `div0` in the model on
both sides) — no integer division by zero. -/
theorem C03_zero_division_witness :
    withTree exSyms "idMat(1)/idMat(2)" (fun t => do
      let c ← toCE exEnv t
      evalCX exEnv (c.toList.getD 1 .mpi).abs) = .error .div0 ∧
    withTree exSyms "idMat(1)/idMat(2)" (denote exEnv) = .error .div0 := by
  decide +kernel

/-- FIXED (461b1b3; formerly `C03_hang_witness`): unbalanced brackets are the `gError`
"Unbalanced brackets in expression …".  (This also holds for `(a`, which the pre-fix code passed on to
`valueFromString`.) -/
theorem C03_unbalanced_witness :
    parse exSyms "((a" = .error .unbalanced ∧ parse exSyms "(a" = .error .unbalanced ∧
    parse exSyms "((a)" = .error .unbalanced ∧ parse exSyms "(a))" = .error .unknownSymbol := by
  decide +kernel

/-- FIXED (461b1b3; formerly `C03_crash_witness`): nested empty brackets are "Empty bracket!" -/
theorem C03_nested_empty_bracket_witness :
    parse exSyms "(())" = .error .emptyBracket ∧ parse exSyms "((()))" = .error .emptyBracket ∧
    parse exSyms "(()a)" = .error .emptyBracket := by decide +kernel

/-- FIXED (461b1b3; formerly `C03_pow_crash_witness`): `FNPower::toC` evaluates the exponent with the
NULL value pointers of production; a vector or tensor variable there now throws a `gError` like a scalar
variable, which `FNPower::toC` catches: the text is `(pow(a, b))`. -/
theorem C03_pow_vector_exponent_witness :
    (withTree exSyms "a^([u]:[w])" (toCE exEnv)).map (fun c =>
      match c with
      | .s (.par (.pow _ _)) => true
      | _ => false) = .ok true := by
  decide +kernel

/-- FINDING (silently another meaning): with the declared scalars `a` and `absa`, the text `absa` is read
as `abs(a)`; likewise `sinus` is `sin(us)`, `Temp` is `T(emp)`, … -/
theorem C03_name_clash_witness :
    parse ["a", "absa"] "absa" = .ok (.fn (.lib "abs" "fabs") (.sym "a")) := by decide +kernel

/-- … and a declared scalar `Temp` alone cannot be used at all. -/
theorem C03_name_clash_reject_witness : parse ["Temp"] "Temp" = .error .unknownSymbol := by
  decide +kernel

/-- OBSERVATION: interpreter and emitter disagree on what they accept: `a:b` on two scalars is
evaluated by `value()` (as the product) and rejected by `toC()`. -/
theorem C03_scalar_contraction_witness :
    withTree exSyms "a:b" (denote exEnv) = .ok (.s 2) ∧
    withTree exSyms "a:b" (toC exEnv) = .error .type := by decide +kernel

/-- OBSERVATION: `^` associates to the LEFT (`2^3^2 = 64`). -/
theorem C03_power_left_assoc_witness :
    parse exSyms "2^3^2" = .ok (.bin .pow (.bin .pow (.num "2") (.num "3")) (.num "2")) ∧
    withTree exSyms "2^3^2" (denote exEnv) = .ok (.s 64) := by decide +kernel

/-- rejected, not misread: exponent notation with a sign, a sign after an operator -/
theorem C03_reject_witness :
    parse exSyms "1e-5" = .error .unknownSymbol ∧ parse exSyms "2e+06" = .error .unknownSymbol ∧
    parse exSyms "a*-b" = .error .emptyOperand ∧ parse exSyms "a^-2" = .error .emptyOperand ∧
    parse exSyms "()" = .error .emptyBracket := by decide +kernel

/-! ## Non-vacuity of the grammar theorems -/

def atm (s : String) : SE := .atom s.toList

/-- `a-b-c`, `a/b*c/b`, `-a^2*b`, `{A}:[u]`, `det(T({A})°{B})`, `((a))+(b*(c))` belong to the usual grammar -/
example : (SE.bin .sub (.bin .sub (atm "a") (atm "b")) (atm "c")).okU = true ∧
    String.ofList (SE.bin .sub (.bin .sub (atm "a") (atm "b")) (atm "c")).render = "a-b-c" := by decide
example : (SE.bin .div (.bin .mul (.bin .div (atm "a") (atm "b")) (atm "c")) (atm "b")).okU = true ∧
    String.ofList (SE.bin .div (.bin .mul (.bin .div (atm "a") (atm "b")) (atm "c")) (atm "b")).render =
      "a/b*c/b" := by decide
example : (SE.neg (.bin .mul (.bin .pow (atm "a") (atm "2")) (atm "b"))).okU = true ∧
    String.ofList (SE.neg (.bin .mul (.bin .pow (atm "a") (atm "2")) (atm "b"))).render = "-a^2*b" := by
  decide
example : (SE.bin .contract (atm "{A}") (atm "[u]")).okU = true := by decide
example : (SE.fn .det (.bin .dot (.fn .T (atm "{A}")) (atm "{B}"))).okU = true ∧
    String.ofList (SE.fn .det (.bin .dot (.fn .T (atm "{A}")) (atm "{B}"))).render = "det(T({A})°{B})" := by
  decide
example : (SE.bin .add (.paren (.paren (atm "a"))) (.paren (.bin .mul (atm "b") (.paren (atm "c"))))).okU = true := by
  decide
/-- … and names that clash are not atoms -/
example : SE.atomOK "Temp".toList = false ∧ SE.atomOK "absa".toList = false ∧
    SE.atomOK "1e-5".toList = false ∧ SE.atomOK "aT".toList = true ∧ SE.atomOK "[rij]".toList = true := by
  decide

/-- OBSERVATION (rejected, not misread): `[u]*a/[w]` is well typed in the usual reading
`([u]*a)/[w]`; the parser groups `[u]*(a/[w])`, whose `scalar/vector` is a type error. -/
theorem C03_usual_reading_rejected_witness :
    withTree exSyms "[u]*a/[w]" (denote exEnv) = .error .type ∧
    denote exEnv (.bin .div (.bin .mul (.sym "[u]") (.sym "a")) (.sym "[w]")) =
      .ok (.v ⟨4/7, 5/8, 2/3⟩) := by decide +kernel

/-! ## PRE-FIX HISTORY: what the code did before ad91e0f / 461b1b3

Statements about the explicitly named `…Old` definitions of `Sympler/ExprHistory.lean`, NOT about the
current model.  They record the former findings (each had been replayed on the real code by the
harness). -/

open Old in
/-- HISTORY (before ad91e0f): `step(a)/(step(b)+step(c))` was emitted as
`((…) > 0 ? 1 : 0)/(((…) > 0 ? 1 : 0)+((…) > 0 ? 1 : 0))`: all operands C `int`s, the division an integer
division that truncates `1/2` to `0`. -/
theorem C03_old_int_division_witness :
    evalCX exEnv (CE.par (.bin '/' false (stepCOld (loadC 0 0))
      (.par (.bin '+' false (stepCOld (loadC 1 0)) (stepCOld (loadC 2 0)))))).abs = .error .intTrunc ∧
    (CE.par (.bin '/' false (stepCOld (loadC 0 0))
      (.par (.bin '+' false (stepCOld (loadC 1 0)) (stepCOld (loadC 2 0)))))).abs.noIntDiv = false := by
  decide +kernel

open Old in
/-- HISTORY (before ad91e0f): the off-diagonal components of `idMat(1)/idMat(2)` were `((0)/(0))`, an
integer division by zero (SIGFPE / `ud2`); likewise `x^0` was `(1)`. -/
theorem C03_old_int_div0_witness :
    evalCX exEnv (CE.par (.bin '/' false zeroCOld zeroCOld)).abs = .error .intDiv0 ∧
    oneCOld.abs.isInt = true := by
  decide +kernel

open Old in
/-- HISTORY (before 461b1b3): the bracket loop never terminated on `((a`, threw `std::out_of_range` on
`(())`, and left `(a` to `valueFromString`. -/
theorem C03_old_bracket_witness :
    stripBracketsOld "((a".toList = .hang ∧ stripBracketsOld "(())".toList = .crash ∧
    stripBracketsOld "(a".toList = .ok "(a".toList := by
  decide +kernel

open Old in
/-- HISTORY (before 461b1b3): `value()` of a vector / tensor variable with a NULL pointer was a
segmentation fault (reached from `FNPower::toC` through `a^([u]:[w])`). -/
theorem C03_old_null_witness :
    lookupNullOld .scalar = .gError ∧ lookupNullOld .vector = .segfault ∧
    lookupNullOld .tensor = .segfault := by
  decide

end Sympler.Expr
