import Sympler.CellsPosLemmas
import Sympler.GridBuildLemmas

/-!
# C09 — cell bookkeeping and periodic wrapping stay consistent with positions

Theorems over the state machine of `Sympler/Cells.lean` (`assignParticlesToCells`, then any list of
`Op.move` / `Op.commit`), for ALL histories, all particle sets, all colours, and every grid `G` that
satisfies the static hypothesis `Sympler.Grid.GridOK G` (each cell notifies each link exactly once per end
and nothing else; outlets are existing cells).  `C09_gridOK` (from `Sympler/GridBuildLemmas.lean`) proves
`GridOK` for EVERY grid `cellSubdivide` builds — any box, cutoff, periodicity — so the theorems below hold
unconditionally for the model's grids.  Two further static facts are only CHECKED per grid (executable
`gridOKb`, decidable `GeomOK`; kernel-evaluated for the grids of `Props/C01Tables*.lean`, natively for every
grid of the correspondence runs — the driver prints `gridok`): `OutSingle` (at most one outlet per direction;
only used to exclude the model's refusal `multiOutlet` in `C09_errors`) and `GeomOK` (outlet geometry;
hypothesis of `C09_wrap_exact` and `C09_count_conserved`).

The invariant `Sympler.Cells.Inv S U UF s` (`Sympler/CellsLemmas.lean`) for the universe `U` of free and
`UF` of frozen particles `(colour, slot)`:
* (1) `occ` / `focc`: every free particle that was not erased is registered exactly once — in one free
  list or (mid-step) one injection buffer; every frozen particle in exactly one frozen list;
  `supp`: nothing is registered outside the existing cells / colours;
* (2) `book.npart`: `m_n_particles = Σ_colours |free| + |frozen|` per cell;
* (3) `book.act`: the active-cell list is a well-linked doubly linked list (`DLL.Repr`: `first`, `next`,
  `prev` chain, nothing else linked, `m_n_active_cells` = length, no duplicates) holding exactly the cells
  with `m_n_particles > 0`;
* (4) `ActInv.cnt`, `LinkInv`: each link counter = number of its active end cells (local link: 0 or 2), the
  active-link list is well linked and holds exactly the links with counter 2.
Core Lean only.
-/
namespace Sympler.C09
open Sympler Sympler.Grid Sympler.Cells Sympler.Gen.CellTables

/-- **`C09_gridOK`** — the static hypothesis of the theorems below holds for every grid that
`ManagerCell::cellSubdivide` builds (all cutoffs, boxes, all 8 periodicity patterns, any number ≥ 2 of
cells per direction, including exactly two cells in a periodic direction). -/
theorem C09_gridOK {cutoff : Rat} {c1 c2 : V3 Rat} {per : V3 Bool} {G : Grid.Grid}
    (h : subdivide cutoff c1 c2 per = some G) : GridOK G :=
  subdivide_gridOK h

/-- the `(colour, slot)` keys of a particle list -/
def keys (ps : List (Nat × Nat × V3 Rat)) : List (Nat × Nat) := ps.map fun x => (x.1, x.2.1)

/-- **`C09_inv_init`** — `Phase::assignParticlesToCells` establishes the invariant (and leaves all
injection buffers empty, nothing erased), for every set of free and frozen particles with distinct slots
per colour and colours `< nCol`, whenever it does not reject the input (`noCell`). -/
theorem C09_inv_init {S : Sys} (hG : GridOK S.G) {free frozen : List (Nat × Nat × V3 Rat)}
    (hfn : (keys free).Nodup) (hzn : (keys frozen).Nodup)
    (hfc : ∀ x ∈ free, x.1 < S.nCol) (hzc : ∀ x ∈ frozen, x.1 < S.nCol) {s : St}
    (e : assignParticlesToCells S free frozen = .ok s) :
    Inv S (keys free) (keys frozen) s ∧ (∀ c k, s.injAt c k = []) ∧ s.erased = [] :=
  assignParticlesToCells_inv hG hfn hzn hfc hzc e

/-- **`C09_inv_step`** — every operation (`move` with ANY list of new positions, `commit`) preserves the
invariant whenever it returns a state. -/
theorem C09_inv_step {S : Sys} (hG : GridOK S.G) {U UF : List (Nat × Nat)} {s s' : St} (op : Op)
    (h : Inv S U UF s) (e : applyOp S s op = .ok s') : Inv S U UF s' := by
  cases op with
  | move k ms => exact sweep_inv hG (setPositions_inv k ms h) e
  | commit =>
    obtain ⟨s2, e2, inv2, _⟩ := commitAll_inv hG h
    have e' : commitAll S s = .ok s' := e
    rw [e2] at e'
    exact (Except.ok.inj e') ▸ inv2

/-- **`C09_inv_reachable`** — the invariant holds in every state reachable from the initial assignment
by any history of operations. -/
theorem C09_inv_reachable {S : Sys} (hG : GridOK S.G) {free frozen : List (Nat × Nat × V3 Rat)}
    (hfn : (keys free).Nodup) (hzn : (keys frozen).Nodup)
    (hfc : ∀ x ∈ free, x.1 < S.nCol) (hzc : ∀ x ∈ frozen, x.1 < S.nCol) {s0 : St}
    (e0 : assignParticlesToCells S free frozen = .ok s0) (ops : List Op) {s : St}
    (e : runOps S ops s0 = .ok s) : Inv S (keys free) (keys frozen) s := by
  have h0 := (C09_inv_init hG hfn hzn hfc hzc e0).1
  clear e0
  induction ops generalizing s0 with
  | nil => exact (Except.ok.inj e) ▸ h0
  | cons op ops ih =>
    simp only [runOps] at e
    cases e1 : applyOp S s0 op with
    | error err => rw [e1] at e; simp at e
    | ok s1 =>
      rw [e1] at e
      exact ih e (C09_inv_step hG op h0 e1)

/-- **`C09_iteration_visits_all`** — the sweep `i = first; while (i) { next = i->next; body(i); i = next; }`
over the intrusive active-cell list equals the plain loop over the list `L` of cells that were active when
it started: every such cell is visited exactly once, in list order, no other cell is visited, and the
model's bound on the number of iterations is never hit — although the body removes the current cell from
the list being iterated whenever its last particle leaves. -/
theorem C09_iteration_visits_all {S : Sys} (hG : GridOK S.G) {U UF : List (Nat × Nat)} (k : Nat) {s : St}
    (h : Inv S U UF s) : sweep S k s = sweepList S k s.act.cl.toList s := by
  obtain ⟨L, hL, _⟩ := h.book.act
  rw [DLL.repr_toList hL.cl]
  exact sweep_eq_sweepList hG k h hL.cl

/-- a cell lists at least one particle (free or frozen) -/
def Occupied (S : Sys) (s : St) (c : Nat) : Prop :=
  ∃ k, k < S.nCol ∧ (s.freeAt c k ≠ [] ∨ s.frozenAt c k ≠ [])

theorem sum_pos_iff (f : Nat → Nat) (n : Nat) :
    0 < ((List.range n).map f).sum ↔ ∃ j, j < n ∧ 0 < f j := by
  induction n with
  | zero => simp
  | succ m ih =>
    rw [List.range_succ, List.map_append, List.sum_append]
    simp only [List.map_cons, List.map_nil, List.sum_cons, List.sum_nil, Nat.add_zero]
    constructor
    · intro hp
      by_cases h0 : 0 < f m
      · exact ⟨m, by omega, h0⟩
      · obtain ⟨j, hj, hf⟩ := ih.mp (by omega)
        exact ⟨j, by omega, hf⟩
    · rintro ⟨j, hj, hf⟩
      by_cases hjm : j = m
      · subst hjm; omega
      · have := ih.mpr ⟨j, by omega, hf⟩
        omega

/-- **`C09_occupied_exact`** (the hypothesis the C01 theorem consumes) — in every state satisfying the
invariant: the active-cell list (walked from `m_first_cell`) has no duplicates, `m_n_active_cells` is its
length, and it contains exactly the existing cells that list a particle; the active-link list has no
duplicates, `m_n_active_links` is its length, and it contains exactly the existing links whose two end
cells both list a particle (for a local link: whose cell lists a particle). -/
theorem C09_occupied_exact {S : Sys} {U UF : List (Nat × Nat)} {s : St} (h : Inv S U UF s) :
    (s.act.cl.toList.Nodup ∧ s.act.cl.count = s.act.cl.toList.length ∧
      ∀ c, c ∈ s.act.cl.toList ↔ c < S.nCells ∧ Occupied S s c) ∧
    (s.act.ll.toList.Nodup ∧ s.act.ll.count = s.act.ll.toList.length ∧
      ∀ l, l ∈ s.act.ll.toList ↔ l < S.G.links.size ∧
        Occupied S s (S.G.links.getD l default).first ∧ Occupied S s (S.G.links.getD l default).second) := by
  obtain ⟨L, hL, hiff⟩ := h.book.act
  obtain ⟨LL, hLL⟩ := hL.links
  have hocc : ∀ c, c ∈ L ↔ Occupied S s c := by
    intro c
    rw [hiff c, h.book.npart c]
    unfold cellCount Occupied
    rw [sum_pos_iff]
    constructor
    · rintro ⟨k, hk, hp⟩
      refine ⟨k, hk, ?_⟩
      by_cases h1 : s.freeAt c k = []
      · right; intro h2; rw [h1, h2] at hp; simp at hp
      · exact Or.inl h1
    · rintro ⟨k, hk, hp⟩
      refine ⟨k, hk, ?_⟩
      rcases hp with hp | hp
      · have := List.length_pos_iff.mpr hp; omega
      · have := List.length_pos_iff.mpr hp; omega
  rw [DLL.repr_toList hL.cl, DLL.repr_toList hLL.ll]
  refine ⟨⟨hL.cl.nodup, hL.cl.count, ?_⟩, ⟨hLL.ll.nodup, hLL.ll.count, ?_⟩⟩
  · intro c
    constructor
    · intro hc; exact ⟨hL.lt c hc, (hocc c).mp hc⟩
    · intro hc; exact (hocc c).mpr hc.2
  · intro l
    rw [hLL.iff l, hL.cnt l, ← hocc, ← hocc]
    unfold activeEnds
    generalize (S.G.links.getD l default).first = f
    generalize (S.G.links.getD l default).second = g
    by_cases hl : l < S.G.links.size
    · simp only [hl, if_true, true_and]
      by_cases h1 : f ∈ L <;> by_cases h3 : g ∈ L <;> simp [h1, h3]
    · simp [hl]

/-- **`C09_errors`** — from a state satisfying the invariant an operation can only fail with
`PARTICLEFLEWTOOFAR` (which the real code raises too) or, on a grid with several outlets in one direction
(`¬ OutSingle`, never built by `cellSubdivide`), the model's refusal `multiOutlet`: no `abort()` from a link
counter leaving `[0, 2]`, no iteration bound hit. -/
theorem C09_errors {S : Sys} (hG : GridOK S.G) {U UF : List (Nat × Nat)} {s : St} (h : Inv S U UF s)
    (op : Op) {e : Err} (he : applyOp S s op = .error e) :
    (∃ k p, e = .flewTooFar k p) ∨ (e = .multiOutlet ∧ ¬ OutSingle S.G) :=
  applyOp_err hG h op he

/-- `moveColour` (one integrator's `integrateStep1`) is `Op.move` followed by `Op.commit` -/
theorem moveColour_eq_ops (S : Sys) (k : Nat) (ms : List (Nat × V3 Rat)) (s : St) :
    moveColour S k ms s = runOps S [.move k ms, .commit] s := by
  unfold moveColour invalidatePositions
  simp only [runOps, applyOp]
  cases sweep S k (setPositions k ms s) with
  | error e => rfl
  | ok s1 =>
    simp only
    cases commitAll S s1 <;> rfl

/-- **(5) `C09_pos_init`** — after `assignParticlesToCells` every registered particle (free, frozen) lies
in its cell in the sense of `isInsideEps(·, g_geom_eps)`; with `eps = 0` this is exact containment. -/
theorem C09_pos_init {S : Sys} (hG : GridOK S.G) {free frozen : List (Nat × Nat × V3 Rat)}
    (hfn : (keys free).Nodup) (hzn : (keys frozen).Nodup)
    (hfc : ∀ x ∈ free, x.1 < S.nCol) (hzc : ∀ x ∈ frozen, x.1 < S.nCol) {s : St}
    (e : assignParticlesToCells S free frozen = .ok s) : PosOK S s :=
  assignParticlesToCells_pos hG hfn hzn hfc hzc e

/-- **(5) `C09_pos_step`** — one `integrateStep1` (ANY new positions for the free particles of one colour,
sweep, commit) re-establishes: every registered particle lies in its cell, all injection buffers are empty. -/
theorem C09_pos_step {S : Sys} (hG : GridOK S.G) (he : 0 ≤ S.eps) {U UF : List (Nat × Nat)} {k : Nat}
    {ms : List (Nat × V3 Rat)} {s s' : St} (h : Inv S U UF s) (hp : PosOK S s)
    (hbuf : ∀ c k', s.injAt c k' = []) (e : moveColour S k ms s = .ok s') :
    Inv S U UF s' ∧ PosOK S s' ∧ ∀ c k', s'.injAt c k' = [] :=
  moveColour_pos hG he h hp hbuf e

/-- **(5) `C09_pos_reachable`** — for all histories of `integrateStep1`s from the initial assignment:
invariant (1)–(4), every particle's position in its cell, buffers empty. -/
theorem C09_pos_reachable {S : Sys} (hG : GridOK S.G) (he : 0 ≤ S.eps)
    {free frozen : List (Nat × Nat × V3 Rat)} (hfn : (keys free).Nodup) (hzn : (keys frozen).Nodup)
    (hfc : ∀ x ∈ free, x.1 < S.nCol) (hzc : ∀ x ∈ frozen, x.1 < S.nCol) {s0 : St}
    (e0 : assignParticlesToCells S free frozen = .ok s0) (steps : List (Nat × List (Nat × V3 Rat))) {s : St}
    (e : runSteps S steps s0 = .ok s) :
    Inv S (keys free) (keys frozen) s ∧ PosOK S s ∧ ∀ c k, s.injAt c k = [] := by
  obtain ⟨h0, b0, -⟩ := C09_inv_init hG hfn hzn hfc hzc e0
  have p0 := C09_pos_init hG hfn hzn hfc hzc e0
  clear e0
  induction steps generalizing s0 with
  | nil => exact (Except.ok.inj e) ▸ ⟨h0, p0, b0⟩
  | cons st steps ih =>
    obtain ⟨k, ms⟩ := st
    simp only [runSteps] at e
    cases e1 : moveColour S k ms s0 with
    | error err => rw [e1] at e; simp at e
    | ok s1 =>
      rw [e1] at e
      obtain ⟨h1, p1, b1⟩ := C09_pos_step hG he h0 p0 b0 e1
      exact ih e h1 b1 p1

/-- **`C09_wrap_exact`** — when `checkNewPosition` hands the particle `(k, p)` of cell `c` over to the outlet
cell `t` (outcome `moved`), its new position `r'` relates to the integrated position `r` per direction by
`WrapComp`: `r` beyond the upper box face ⇒ the direction is periodic and `r' = r − L`; `r` below the lower
box face ⇒ periodic and `r' = r + L`; `r` inside the box extent ⇒ `r' = r` — so faces, edges and corners of
the periodic box are handled direction by direction.  Nothing else of the particle changes: it keeps its
colour and slot (the C++ hands over the same `Particle*`; velocity, forces, tag are not touched by
`checkNewPosition`), and every other particle keeps its position (`CheckOutcome.posAt_ne`). -/
theorem C09_wrap_exact {S : Sys} {per : V3 Bool} (hGeo : GeomOK S.G per) (he : 0 ≤ S.eps)
    {U UF : List (Nat × Nat)} {s s' : St} {c k p : Nat} (h : Inv S U UF s) (hp : p ∈ s.freeAt c k)
    (out : CheckOutcome S s s' c k p) :
    (s' = s) ∨ (s'.erased = s.erased ++ [(k, p)]) ∨
    (∃ t, p ∈ s'.injAt t k ∧
      WrapComp per.1 S.G.c1.1 S.G.c2.1 (s.posAt k p).1 (s'.posAt k p).1 ∧
      WrapComp per.2.1 S.G.c1.2.1 S.G.c2.2.1 (s.posAt k p).2.1 (s'.posAt k p).2.1 ∧
      WrapComp per.2.2 S.G.c1.2.2 S.G.c2.2.2 (s.posAt k p).2.2 (s'.posAt k p).2.2 ∧
      ∀ k' p', ¬ (k' = k ∧ p' = p) → s'.posAt k' p' = s.posAt k' p') := by
  have hc := (mem_free_occ_pos h hp).1
  have hne := fun k' p' => out.posAt_ne (k' := k') (p' := p')
  cases out with
  | stay hs _ => exact Or.inl hs
  | erased hfree hinj hfrozen hpos hfpos herased => exact Or.inr (Or.inl herased)
  | moved t n ht hn hout outside hfree hinj hfrozen hpos hfpos herased inside =>
    right; right
    have hq : s'.posAt k p = wrapPos (S.G.cells.getD c default) (S.G.cells.getD t default) n (s.posAt k p) := by
      simp only [St.posAt, hpos, get_setAt, and_self, if_true]
    rw [hq]
    obtain ⟨c1, c2, c3⟩ := wrapPos_exact hGeo he hc hn hout outside inside
    refine ⟨t, ?_, c1, c2, c3, fun k' p' hh => hne k' p' hh⟩
    simp [St.injAt, hinj, get_setAt]

/-- **`C09_count_conserved`** — in a periodic or wall-closed box the particle number is conserved: if
after integration every free particle of the moved colour is inside the box in the NON-periodic directions
(what the walls guarantee; no condition in periodic directions), then the sweep reaches no `erase` branch
(`erased` is unchanged) and every particle stays registered exactly as often as before (`occ`), whatever
the displacement; a displacement of more than a cell can only stop the step with `PARTICLEFLEWTOOFAR`. -/
theorem C09_count_conserved {S : Sys} {per : V3 Bool} (hG : GridOK S.G) (hGeo : GeomOK S.G per)
    (he : 0 ≤ S.eps) {U UF : List (Nat × Nat)} {k : Nat} {ms : List (Nat × V3 Rat)} {s s' : St}
    (h : Inv S U UF s) (hw : ∀ q, InWalls S.G per ((setPositions k ms s).posAt k q))
    (e : applyOp S s (.move k ms) = .ok s') :
    s'.erased = s.erased ∧ ∀ k' p', occ S s' k' p' = occ S s k' p' := by
  have h0 := setPositions_inv k ms h
  have e' : sweep S k (setPositions k ms s) = .ok s' := e
  obtain ⟨r1, _⟩ := sweep_no_erase hG hGeo he h0 hw e'
  have er0 : (setPositions k ms s).erased = s.erased := (setPositions_frame k ms s).2.2.2.2.2.2.1
  have inv' := sweep_inv hG h0 e'
  refine ⟨r1.trans er0, ?_⟩
  intro k' p'
  rw [inv'.occ k' p', h.occ k' p', r1, er0]

/-! ## non-vacuity -/

/-- a 2×2×2 grid (box 2×2×2, cutoff 1), periodic in x and y, walls in z -/
def exGrid : Option Grid.Grid := subdivide 1 (0, 0, 0) (2, 2, 2) (true, true, false)

/-- the grid exists, satisfies `GridOK`, two free particles of colour 0 and one frozen of colour 1 are
accepted, and a history with a periodic crossing and a cell that is emptied runs without error -/
example : (match exGrid with
    | some G =>
      gridOKb G &&
      (match assignParticlesToCells { G := G, nCol := 2, eps := 0 }
          [(0, 0, (1/2, 1/2, 1/2)), (0, 1, (3/2, 1/2, 1/2))] [(1, 0, (1/2, 3/2, 1/2))] with
        | .ok s0 =>
          (match runOps { G := G, nCol := 2, eps := 0 }
              [.move 0 [(0, (-1/4, 1/2, 1/2)), (1, (3/2, 1/2, 1/2))], .commit] s0 with
            | .ok s => s.act.cl.toList == [1, 2] && s.posAt 0 0 == (7/4, 1/2, 1/2)
            | .error _ => false)
        | .error _ => false)
    | none => false) = true := by decide +kernel

/-- the geometric hypothesis of `C09_wrap_exact` / `C09_count_conserved` holds for that grid -/
example : (match exGrid with
    | some G => decide (GeomOK G (true, true, false))
    | none => false) = true := by decide +kernel

end Sympler.C09
