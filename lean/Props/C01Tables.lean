import Sympler.GridLemmas
import Sympler.Geom

/-!
# C01 — the generated neighbour tables and the link list

`C01_gen_tables_ok`: complete check (by `decide`) of the tables in `Sympler/Gen/CellTablesGen.lean`
(`Cell::c_offsets`, `OFFSET2NEIGHBOR`, `INV_NEIGHBOR`).

`C01_links_complete_unique_*`: a FINITE CHECK, not the general theorem: the executable statement
`Sympler.Grid.linksOKb` ("for every cell and every offset whose neighbour exists exactly one link represents
it, with the `cellDist` distance; one local link per cell; nothing else; outlets = that neighbour"), together
with `gridOKb` (hypothesis `GridOK` + `OutSingle` of the C09 theorems) and `GeomOK` (hypothesis of
`C09_wrap_exact` / `C09_count_conserved`), evaluated in the kernel on the grids listed (2 cells per direction —
the case in which a periodic direction yields TWO links between the same two cells — for all 8 periodicity
patterns; more shapes in `Props/C01TablesB.lean`).  Kernel evaluation of one 3×3×3 grid takes ≈ 2 min, so
larger shapes (up to 5 cells per direction, all periodicities, cutoffs that do not divide the box) are only
evaluated NATIVELY: the driver `grid` prints `gridok 1` for every grid the correspondence `sim/corr_grid.py`
builds — tested, not proved.  What is proved for all grids is `gridOKb_sound` (the check implies the
hypotheses).  Core Lean only.
-/
namespace Sympler.C01
open Sympler Sympler.Grid Sympler.Gen.CellTables

/-- **`C01_gen_tables_ok`** — the generated tables are consistent:
26 offsets; `OFFSET2NEIGHBOR(c_offsets[n]) = n`; `c_offsets[INV_NEIGHBOR(n)] = −c_offsets[n]` and
`INV_NEIGHBOR` is an involution on `0..25`; the offsets are pairwise different, each has components in
`{−1,0,1}` and is not `0`, and every non-zero vector of `{−1,0,1}³` occurs. -/
theorem C01_gen_tables_ok :
    numNeighbors = 26 ∧ offsets.length = 26 ∧
    (∀ n : Nat, n < 26 → offset2neighbor (offsets.getD n (0, 0, 0)) = (n : Int)) ∧
    (∀ n : Nat, n < 26 → 0 ≤ invNeighbor n ∧ invNeighbor n < 26 ∧ invNeighbor (invNeighbor n) = n ∧
      offsets.getD (invNeighbor n).toNat (0, 0, 0) =
        (-(offsets.getD n (0, 0, 0)).1, -(offsets.getD n (0, 0, 0)).2.1, -(offsets.getD n (0, 0, 0)).2.2)) ∧
    offsets.Nodup ∧
    (∀ o ∈ offsets, o.1 ∈ [(-1 : Int), 0, 1] ∧ o.2.1 ∈ [(-1 : Int), 0, 1] ∧ o.2.2 ∈ [(-1 : Int), 0, 1] ∧
      o ≠ (0, 0, 0)) ∧
    (∀ a ∈ [(-1 : Int), 0, 1], ∀ b ∈ [(-1 : Int), 0, 1], ∀ c ∈ [(-1 : Int), 0, 1],
      (a, b, c) ≠ (0, 0, 0) → (a, b, c) ∈ offsets) :=
  ⟨by decide, by decide, by decide, by decide, by decide, by decide, by decide⟩

/-- **bridge** between the kernels regenerated from `addPair` / `cellDist` (cell.h, cell.cpp) and the definitions the
general theorems of `Props/C01.lean` speak about (`Sympler.Geom`): the same functions, for all arguments.  A changed
sign, operand or comparison in the C++ makes one of these three statements false. -/
theorem C01_bridge_addPair (dir : Int) (cd r1 c1 r2 c2 : Rat) :
    addPairComponent dir cd r1 c1 r2 c2 = Sympler.Geom.addPair1 dir cd r1 c1 r2 c2 := by
  unfold addPairComponent Sympler.Geom.addPair1; grind

theorem C01_bridge_cellDist (o : Int) (w : Rat) :
    cellDistComponent o w w = Sympler.Geom.cellDist1 w o := by
  unfold cellDistComponent Sympler.Geom.cellDist1; rfl

theorem C01_bridge_keep (a c : Rat) : addPairKeeps a c = decide (a < c) := rfl

/-- the check implies the static hypotheses of the C09 theorems -/
theorem C01_static_checks_sound {cutoff : Rat} {box : V3 Rat} {per : V3 Bool}
    (h : staticChecks cutoff box per = true) :
    ∃ G, subdivide cutoff (0, 0, 0) box per = some G ∧ GridOK G ∧ OutSingle G ∧ GeomOK G per ∧
      linksOKb G per = true := by
  unfold staticChecks at h
  cases hs : subdivide cutoff (0, 0, 0) box per with
  | none => rw [hs] at h; simp at h
  | some G =>
    rw [hs] at h
    simp only [Bool.and_eq_true, decide_eq_true_eq] at h
    obtain ⟨⟨⟨h1, h2⟩, h3⟩, _⟩ := h
    exact ⟨G, rfl, (gridOKb_sound h1).1, (gridOKb_sound h1).2, h3, h2⟩

set_option maxRecDepth 1000000 in
/-- FINITE CHECK (kernel evaluation): 2×2×2 cells, periodicities ppp, ppw, pwp, pww -/
theorem C01_links_complete_unique_222a :
    staticChecks 1 (2, 2, 2) (true, true, true) = true ∧ staticChecks 1 (2, 2, 2) (true, true, false) = true ∧
    staticChecks 1 (2, 2, 2) (true, false, true) = true ∧ staticChecks 1 (2, 2, 2) (true, false, false) = true := by
  decide +kernel

end Sympler.C01
