import Sympler.DynLemmas

/-!
# C07 — pair-summed quantities equal the sum over true neighbours, redone each step

Model: `Sympler.Dyn`.  A pair sum (`PairParticleScalar`, `PairParticleVector`) is a `PairMod` with a
symbol as target, executed by `runSymbols` in the round of its stage, after `clearParticleData` has
zeroed every non-persistent attribute of the free particles.
-/
namespace Sympler.Dyn

theorem State.ext' {s s' : State} (h1 : s.n = s'.n) (h2 : s.ps = s'.ps) (h3 : s.forceIdx = s'.forceIdx)
    (h4 : s.pers = s'.pers) : s = s' := by
  cases s; cases s'; simp_all

/-- the symbol computation changes neither positions nor velocities nor identities: the sums of
`C07_sum` are taken over the CURRENT configuration -/
theorem C07_current_positions (cfg : Config) (hwf : cfg.wf = true) (s : Nat) (st : State) (j : Nat) :
    (stageState cfg s (clearParticleData st)).n = st.n ∧
    ((stageState cfg s (clearParticleData st)).ps j).sameBody (st.ps j) := by
  unfold stageState
  have h1 : AgreeOff isSymKey (clearParticleData st)
      ((List.range s).foldl (fun st t => runStage cfg t st) (clearParticleData st)) :=
    AgreeOff.foldl _ _ _ (fun s a _ => runStage_agree cfg hwf a s) _
  have h2 := partPhase_agree isSymKey false (cfg.caches.filter (·.stage = s))
    (fun m hm => (wf_caches hwf (List.mem_filter.mp hm).1 false).1)
    ((List.range s).foldl (fun st t => runStage cfg t st) (clearParticleData st))
  have h3 : ((clearParticleData st).ps j).sameBody (st.ps j) := by
    simp only [clearParticleData, mapFree_ps]; split
    · exact Particle.sameBody_refl _
    · exact ⟨rfl, rfl, rfl, rfl, rfl⟩
  exact ⟨h2.n.trans h1.n, Particle.sameBody_trans (h2.body j) (Particle.sameBody_trans (h1.body j) h3)⟩

/-- **C07_sum**.  Let `m` be a registered pair sum writing the symbol `name` (`SumOK`: registered once,
only writer of `name`, stage assignment as guaranteed by C06), with a non-persistent attribute
(`hpers`, as `ValCalculatorArbitrary::setup` registers it).  After `clearParticleData` and
`runSymbols` the value of `name` on every FREE particle `i` is the direct sum, over ALL other
particles `b` — free or frozen — of the partner colour whose minimum-image distance to `i` in the
current positions is below the module's OWN cutoff, of the summand: `factor_i ∘ expr` for the pairs
in which `i` is the first particle, `symmetry · factor_j ∘ expr` for those in which it is the second.
Expressions are evaluated on `stageState` = current positions/velocities, symbols of lower stages
already recomputed (`C07_current_positions`). -/
theorem C07_sum (cfg : Config) (m : PairMod) (name : String) (h : SumOK cfg m name) (hc : 0 ≤ m.cutoff)
    (st : State) (i : Nat) (hi : i < st.n) (hf : (st.ps i).frozen = false)
    (hpers : st.pers (st.ps i).colour (.sym name) = false) :
    let S := stageState cfg m.stage (clearParticleData st)
    ((runSymbols cfg (clearParticleData st)).ps i).tag (.sym name)
      = vsum ((List.range S.n).map (fun b =>
          if pairGuard S m.c1 m.c2 i b && inCut cfg m (S.ps i) (S.ps b)
          then m.first (mkEnv cfg.box (S.ps i) (S.ps b)) else 0))
        + vsum ((List.range S.n).map (fun a =>
          if pairGuard S m.c1 m.c2 a i && inCut cfg m (S.ps a) (S.ps i)
          then m.second (mkEnv cfg.box (S.ps a) (S.ps i)) else 0)) := by
  intro S
  have hz : ((clearParticleData st).ps i).tag (.sym name) = 0 := by
    rw [clearParticleData_tag]; simp [hf, hpers, Key.inTag]
  have hfr : ((clearParticleData st).ps i).frozen = false := by simp [clearParticleData, hf]
  rw [runSymbols_sum cfg m name h (clearParticleData st) i hi hfr, hz, Vec3.zero_add]
  unfold pairForceOn
  congr 1
  · apply vsum_map_congr; intro b _
    rw [pairActive_iff cfg m (Or.inr h.mem) hc]
  · apply vsum_map_congr; intro a _
    rw [pairActive_iff cfg m (Or.inr h.mem) hc]

/-- non-vacuity: the pair sum `n` of the example (summand 1, cutoff 3/2) satisfies the hypotheses;
particle 0 has two partners (distances 1/2 and 5/4), and a FROZEN partner counts as well -/
example : SumOK Ex.cfg Ex.cfg.sums.head! "n" ∧ Ex.st.pers 0 (.sym "n") = false ∧
    ((runSymbols Ex.cfg (clearParticleData Ex.st)).ps 0).tag (.sym "n") = ⟨2, 0, 0⟩ ∧
    ((runSymbols Ex.cfg (clearParticleData Ex.stFrozen)).ps 0).tag (.sym "n") = ⟨2, 0, 0⟩ := by
  refine ⟨⟨by decide +kernel, rfl, by decide +kernel, by decide, ?_⟩, by decide, by decide +kernel, by decide +kernel⟩
  intro m' hm' _ n hn
  simp only [Ex.cfg, List.mem_cons, List.not_mem_nil, or_false] at hm'
  subst hm'
  simp [PairMod.reads, Expr.reads] at hn

/-- **C07_memoryless**.  Nothing is carried over from the previous step: two states that differ only
in the value of the non-persistent attribute `name` on free particles are IDENTICAL after
`clearParticleData` — hence after `runSymbols`, the force evaluation and the rest of the step. -/
theorem C07_memoryless (name : String) (st st' : State) (hn : st.n = st'.n) (hfi : st.forceIdx = st'.forceIdx)
    (hpe : st.pers = st'.pers)
    (hbody : ∀ i, (st.ps i).colour = (st'.ps i).colour ∧ (st.ps i).slot = (st'.ps i).slot ∧
      (st.ps i).frozen = (st'.ps i).frozen ∧ (st.ps i).r = (st'.ps i).r ∧ (st.ps i).v = (st'.ps i).v)
    (htag : ∀ i key, key ≠ .sym name ∨ (st.ps i).frozen = true → (st.ps i).tag key = (st'.ps i).tag key)
    (hnp : ∀ i, st.pers (st.ps i).colour (.sym name) = false) (cfg : Config) :
    clearParticleData st = clearParticleData st' ∧
    runSymbols cfg (clearParticleData st) = runSymbols cfg (clearParticleData st') := by
  have h : clearParticleData st = clearParticleData st' := by
    refine State.ext' (s := clearParticleData st) (s' := clearParticleData st') hn ?_ hfi hpe
    funext i
    simp only [clearParticleData, mapFree_ps, ← (hbody i).2.2.1]
    cases hfz : (st.ps i).frozen
    · simp only [Bool.false_eq_true, if_false]
      apply Particle.ext' <;> dsimp only
      · exact (hbody i).1
      · exact (hbody i).2.1
      · exact (hbody i).2.2.2.1
      · exact (hbody i).2.2.2.2
      · funext key
        simp only [← hpe, ← (hbody i).1]
        by_cases hk : key = .sym name
        · subst hk; simp [hnp i, Key.inTag]
        · rw [htag i key (Or.inl hk)]
    · simp only [if_true]
      apply Particle.ext' (hbody i).1 (hbody i).2.1 (hbody i).2.2.1 (hbody i).2.2.2.1 (hbody i).2.2.2.2
      funext key
      exact htag i key (Or.inr hfz)
  exact ⟨h, by rw [h]⟩

/-- non-vacuity: overwrite `n` of the free particles of the example with garbage: same result -/
example : let dirty : State := { Ex.st with ps := fun i => (Ex.st.ps i).setTag (.sym "n") ⟨42, 0, 0⟩ }
    ((dirty.ps 0).tag (.sym "n") ≠ (Ex.st.ps 0).tag (.sym "n")) ∧
    ((runSymbols Ex.cfg (clearParticleData dirty)).ps 0).tag (.sym "n") = ⟨2, 0, 0⟩ := by
  decide +kernel

/-- **C07_own_cutoff**.  A partner at or beyond the quantity's own cutoff contributes nothing, even if
the neighbour list of the colour pair reaches further because another module has a larger cutoff
(the corresponding terms of `C07_sum` are zero; here for the kernel itself). -/
theorem C07_own_cutoff (cfg : Config) (m : PairMod) (a b : Nat) (st : State)
    (hout : inCut cfg m (st.ps a) (st.ps b) = false) :
    pairOp cfg false m a b st = st ∧ ∀ i key, pairDelta cfg false m st a b i key = 0 := by
  constructor
  · unfold pairOp; simp [hout]
  · intro i key; unfold pairDelta pairActive; simp [hout]

/-- non-vacuity: give the pair sum the cutoff 1 and the force the cutoff 3/2: the pair (0,2) at
distance 5/4 is in the list, the force acts on it, the sum does not count it -/
example : let cfg' : Config := { Ex.cfg with
      sums := [⟨0, 0, 0, .sym "n", 1, 1, .num 1, .num 1, .num 1⟩],
      pairForces := [⟨0, 0, 0, .force .vel, 3/2, -1, .rij, .vec ⟨1, 1, 1⟩, .vec ⟨1, 1, 1⟩⟩] }
    inList cfg' Ex.st 0 0 0 2 = true ∧
    pairActive cfg' cfg'.pairForces.head! Ex.st 0 2 = true ∧
    ((runSymbols cfg' (clearParticleData Ex.st)).ps 0).tag (.sym "n") = ⟨1, 0, 0⟩ := by
  decide +kernel

end Sympler.Dyn
