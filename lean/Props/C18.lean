import Sympler.Restart
import Sympler.RestartLemmas

/-!
# C18 — a restart file restores the particle system it was written from

Model: `Sympler.Restart` (character-level writer `write` = `Phase::writeRestartFile`, reader `read`/`restore` =
`ParticleCreatorFile::createParticles` with `readNext`, `readParticle`, `Data::fromStringByIndex`); the character
class of `readNext` is the generated `Sympler.Gen.Restart.readNextAccepts`.

* `C18_tokens`            every token `toStringByIndex` emits is returned unsplit by `readNext`
                          (+ `C18_tokens_alphabet`, and the witnesses for the class without `'+'`)
* `C18_exact_domain`      `fromStringByIndex (toStringByIndex v) = v`, `atof (%.{P}g d) = d` on the exact domain
* `C18_columns`           `restore fmts (write fmts sys) = sys` restricted to its persistent attributes, for every list
                          of species, every attribute set and order, every mix of free and frozen particles
                          (+ corollaries: count, species/status sequence, each persistent attribute)
* `C18_partial`           what is NOT proved: doubles that are not decimals with ≤ P digits (libc rounding, trusted)

Not in the model (see `Sympler/Restart.lean`): `findCell`/`isInside` of the reader — the real reader silently drops a
particle whose written coordinate is ≥ the upper box bound (finding `boundary-loss`, replays
`/verif/replays/C18-viol-boundary-*.json`); regrouping by cell group in `flushParticles`.
-/

namespace Sympler.Restart

open Sympler.Gen.Restart

/-! ## tokens -/

/-- Every token the writer emits for an attribute of a supported type (`INT`, `DOUBLE`, `POINT`, `TENSOR`), followed by
    the separator the writer puts after it (a blank before the next column, the newline after the last), is returned
    complete by `readNext`, which leaves the stream right behind the separator — after any number of leading blanks. -/
theorem C18_tokens (ty : Ty) (v : Val) (h : Val.wf ty v) (n : Nat) (sep : Char) (hsep : sep = ' ' ∨ sep = '\n')
    (rest : List Char) :
    readNext (List.replicate n ' ' ++ (toStr v ++ sep :: rest)) = some (toStr v, rest) := by
  have hacc : readNextAccepts sep = false := by rcases hsep with h | h <;> subst h <;> decide
  obtain ⟨hne, hhd⟩ := toStr_head h
  exact readNextWith_unsplit _ _ _ _ n (scanTok_toStr v) hacc hhd hne

/-- Writer alphabet ⊆ reader class: every character `%g` / `%i` can print (digits, `-`, `.`, `e`, and `+` in the
    exponent) is accepted by `readNext` outside parentheses.  Proved from the generated class: without `'+'` in
    `readNextAccepts` this proof (`numChar_accepts`, by `decide`) fails. -/
theorem C18_tokens_alphabet (P : Nat) (d : Dec) (i : Int) :
    (∀ c ∈ fmtG P d, readNextAccepts c = true) ∧ (∀ c ∈ fmtInt i, readNextAccepts c = true) :=
  ⟨fun _ hc => numChar_accepts (fmtG_chars hc), fun _ hc => numChar_accepts (fmtInt_chars hc)⟩

/-- the `'+'` really occurs: 2000000 is printed as `2e+06` -/
theorem C18_tokens_plus_occurs : toStr (.double ⟨false, 2, 6⟩) = "2e+06".toList := by decide

/-- the class of `readNext` before the fix commit 049e06e (`'+'` missing) -/
def readNextAcceptsOld (c : Char) : Bool := c.isAlphanum || c == '-' || c == '.' || c == '(' || c == ')'

/-- WITHOUT `'+'` the token `2e+06` is split: `readNext` returns `2e` (which `atof` reads as 2), the `'+'` is consumed
    and the next column starts at `06`. -/
theorem C18_tokens_without_plus_witness :
    readNextWith readNextAcceptsOld "2e+06 0\n".toList = some ("2e".toList, "06 0\n".toList)
    ∧ fromStr .double "2e".toList = .double ⟨false, 2, 0⟩ := by decide

/-- with the generated (current) class the same text gives the whole token and the right value -/
theorem C18_tokens_with_plus_witness :
    readNext "2e+06 0\n".toList = some ("2e+06".toList, "0\n".toList)
    ∧ fromStr .double "2e+06".toList = .double ⟨false, 2, 6⟩ := by decide

/-! ## the exact domain -/

/-- On the exact domain (decimals with at most six significant digits, `int` range) reading back the text of a value
    is the identity, for every attribute type. -/
theorem C18_exact_domain (ty : Ty) (v : Val) (h : Val.wf ty v) : fromStr ty (toStr v) = v :=
  fromStr_toStr h

/-- `strtod`/`atof`/`operator>>` of `%.{P}g` is the identity on decimals with at most `P` significant digits (canonical
    mantissa), in fixed and in scientific notation, whatever follows the number (end, blank, newline, `,`, `)`), after
    leading white space. -/
theorem C18_exact_domain_number (P : Nat) (d : Dec) (h : d.wf P) (ws r : List Char)
    (hws : ∀ c ∈ ws, isCSpace c = true) (hr : NumEnd r) :
    scanNum (ws ++ (fmtG P d ++ r)) = (some d, r) ∧ atof (fmtG P d) = d := by
  refine ⟨scanNum_fmtG P h.zero h.canon hws hr, ?_⟩
  have := atof_fmtG P h (ws := []) (by simp)
  simpa using this

/-- both notations of `%g` as the C library prints them -/
example : fmtG 6 ⟨false, 2, 6⟩ = "2e+06".toList := by decide
example : fmtG 6 ⟨false, 1, -5⟩ = "1e-05".toList := by decide
example : fmtG 6 ⟨false, 123456, 0⟩ = "123456".toList := by decide
example : fmtG 6 ⟨true, 1, -4⟩ = "-0.0001".toList := by decide
example : fmtG 6 ⟨false, 1, 5⟩ = "100000".toList := by decide
example : fmtG 6 ⟨true, 123456, -3⟩ = "-123.456".toList := by decide
example : fmtG 6 ⟨false, 123456, 4⟩ = "1.23456e+09".toList := by decide
example : fmtG 6 ⟨false, 1, -12⟩ = "1e-12".toList := by decide
example : fmtG 8 ⟨false, 103125, -5⟩ = "1.03125".toList := by decide
/-- 1234567 is not in the six-digit domain -/
example : ¬ Dec.wf 6 ⟨false, 1234567, 0⟩ := fun h => absurd (h.prec (by decide)) (by decide)
/-- non-vacuity of the domain -/
example : Dec.wf 6 ⟨false, 2, 6⟩ := ⟨by decide, by decide, by decide, by decide⟩
example : Val.wf .tensor (.tensor ⟨⟨false, 1, 0⟩, ⟨true, 25, -1⟩, ⟨false, 1, 12⟩⟩ P3.zero P3.zero) := by
  refine ⟨⟨?_, ?_, ?_⟩, ⟨?_, ?_, ?_⟩, ⟨?_, ?_, ?_⟩⟩ <;> exact ⟨by decide, by decide, by decide, by decide⟩

/-! ## columns, species, free/frozen, count -/

/-- MAIN ROUND TRIP.  For every list of species with arbitrary tag formats (any attribute set, any order, any mix of
    persistent and non-persistent attributes of the four types), every system with one list of free and one list of
    frozen particles per species (any lengths, including empty species), all values on the exact domain:
    reading the file the writer produces into a simulation with the same formats yields exactly the same lists of
    particles — same species, same free/frozen status, same order, same positions and velocities — and every
    persistent attribute has its value back in the right particle and attribute; non-persistent attributes (not in the
    file) are zero. -/
theorem C18_columns (fmts : List Format) (sys : System) (h : System.wf fmts sys) :
    restore fmts (write fmts sys) = .ok (sys.persistentPart fmts) :=
  restore_write fmts sys h

theorem zipWith_all_persistent : ∀ (as : List Attr) (tags : List Val), as.length = tags.length →
    (∀ a ∈ as, a.persistent = true) →
    List.zipWith (fun a v => if a.persistent then v else defaultVal a.ty) as tags = tags
  | [], [], _, _ => rfl
  | [], _ :: _, h, _ => by simp at h
  | _ :: _, [], h, _ => by simp at h
  | a :: as, t :: ts, h, hall => by
    simp only [List.zipWith_cons_cons, hall a (by simp), if_true, List.cons.injEq, true_and]
    exact zipWith_all_persistent as ts (by simpa using h) (fun b hb => hall b (by simp [hb]))

theorem persistentPart_of_all (f : Format) (p : Particle) (hl : f.attrs.length = p.tags.length)
    (hall : ∀ a ∈ f.attrs, a.persistent = true) : p.persistentPart f = p := by
  obtain ⟨r, v, tags⟩ := p
  simp only [Particle.persistentPart, Particle.mk.injEq, true_and]
  exact zipWith_all_persistent f.attrs tags hl hall

/-- When every attribute is persistent the round trip is the identity on systems. -/
theorem C18_columns_identity (fmts : List Format) (sys : System) (h : System.wf fmts sys)
    (hall : ∀ f ∈ fmts, ∀ a ∈ f.attrs, a.persistent = true) :
    restore fmts (write fmts sys) = .ok sys := by
  rw [C18_columns fmts sys h]
  congr 1
  have key : ∀ (fs : List Format) (pss : List (List Particle)),
      All2 (fun f ps => ∀ p ∈ ps, Particle.wf f p) fs pss → (∀ f ∈ fs, ∀ a ∈ f.attrs, a.persistent = true) →
      List.zipWith (fun f ps => ps.map (Particle.persistentPart f)) fs pss = pss := by
    intro fs
    induction fs with
    | nil => intro pss h _; cases pss with
      | nil => rfl
      | cons _ _ => simp [All2] at h
    | cons f fs ih =>
      intro pss h hp
      cases pss with
      | nil => simp [All2] at h
      | cons ps pss =>
        simp only [All2] at h
        simp only [List.zipWith_cons_cons, List.cons.injEq]
        refine ⟨?_, ih pss h.2 (fun g hg => hp g (by simp [hg]))⟩
        have : ∀ p ∈ ps, Particle.persistentPart f p = p := fun p hp' =>
          persistentPart_of_all f p (h.1 p hp').tags.length_eq (hp f (by simp))
        exact (List.map_congr_left this).trans (List.map_id _)
  cases sys with
  | mk free frozen =>
    simp only [System.persistentPart, System.mk.injEq]
    exact ⟨key fmts free h.free hall, key fmts frozen h.frozen hall⟩

/-- No particle lost, none duplicated, species and free/frozen status preserved: the reader creates exactly as many
    particles as the system has, with the same sequence of (species, status). -/
theorem C18_columns_count (fmts : List Format) (sys : System) (h : System.wf fmts sys) :
    ∃ recs, read fmts (write fmts sys) = .ok recs ∧ recs.length = sys.records.length ∧
      recs.map (fun r => (r.colour, r.frozen)) = sys.records.map (fun r => (r.colour, r.frozen)) := by
  have hlf := h.free.length_eq
  have hlz := h.frozen.length_eq
  have hres : (sys.persistentPart fmts).records = sys.records.map (restrictRec fmts) := by
    have a := recsFrom_restrict fmts false sys.free 0 (by omega)
    have b := recsFrom_restrict fmts true sys.frozen 0 (by omega)
    simp only [List.drop_zero] at a b
    simp [System.records, System.persistentPart, a, b]
  refine ⟨_, read_write fmts sys h, ?_, ?_⟩
  · rw [hres]; simp
  · rw [hres]; simp [restrictRec, Function.comp_def]

/-- Each persistent attribute is restored to the right attribute: column `j` of the restored particle is column `j` of
    the original whenever attribute `j` is persistent. -/
theorem C18_columns_attr (f : Format) (p : Particle) (j : Nat) (a : Attr) (ha : f.attrs[j]? = some a)
    (hp : a.persistent = true) : (p.persistentPart f).tags[j]? = p.tags[j]? := by
  simp only [Particle.persistentPart, List.getElem?_zipWith, ha]
  cases p.tags[j]? <;> simp [hp]

/-! ## what is not proved -/

/-- PARTIAL.  The theorems above hold on the exact domain only.  For a double that is NOT a decimal with at most `P`
    significant digits the C library rounds: `%.{P}g` prints `fmtG P (rnd x)` where `rnd` is the correct rounding to `P`
    significant digits (relative error ≤ 5·10⁻ᴾ) and `strtod` returns the double nearest to that decimal.  This
    behaviour of `printf`/`strtod`/`operator>>` is TRUSTED, not modelled; the statement below only records the
    reduction: whatever `rnd` is, as long as it lands in the exact domain, the restart file restores `rnd x`
    (so "at least six significant digits" holds iff libc's rounding is correct).  The correspondence check
    `/verif/sim/corr_restart.py` tests exactly this on the real binary (relative tolerance 5e-6). -/
theorem C18_partial {α : Type} (rnd : α → Dec) (P : Nat) (hrnd : ∀ x, (rnd x).wf P) (x : α) :
    atof (fmtG P (rnd x)) = rnd x :=
  (C18_exact_domain_number P (rnd x) (hrnd x) [] [] (by simp) numEnd_nil).2

/-! ## non-vacuity: a concrete system with two species, a frozen particle, all four types, a non-persistent attribute -/

def exFmts : List Format :=
  [⟨"A".toList, [⟨"E".toList, .double, true, false⟩, ⟨"tmp".toList, .double, false, false⟩, ⟨"n".toList, .int, true, false⟩]⟩,
   ⟨"B".toList, [⟨"T".toList, .tensor, true, false⟩, ⟨"w".toList, .point, true, false⟩]⟩]

def exP3 : P3 := ⟨⟨false, 103125, -5⟩, ⟨true, 25, -2⟩, ⟨false, 0, 0⟩⟩

def exSys : System :=
  { free := [[⟨exP3, P3.zero, [.double ⟨false, 2, 6⟩, .double ⟨false, 7, 0⟩, .int (-42)]⟩], []],
    frozen := [[], [⟨P3.zero, exP3, [.tensor exP3 P3.zero exP3, .point ⟨⟨false, 1, -5⟩, ⟨true, 3, 0⟩, ⟨false, 1, 12⟩⟩]⟩]] }

theorem exSys_wf : System.wf exFmts exSys := by
  have hz : Dec.wf 6 Dec.zero ∧ Dec.wf 8 Dec.zero :=
    ⟨⟨by decide, by decide, by decide, by decide⟩, ⟨by decide, by decide, by decide, by decide⟩⟩
  have hp6 : P3.wf 6 exP3 := ⟨⟨by decide, by decide, by decide, by decide⟩, ⟨by decide, by decide, by decide, by decide⟩,
    ⟨by decide, by decide, by decide, by decide⟩⟩
  have hp8 : P3.wf 8 exP3 := ⟨⟨by decide, by decide, by decide, by decide⟩, ⟨by decide, by decide, by decide, by decide⟩,
    ⟨by decide, by decide, by decide, by decide⟩⟩
  have hz6 : P3.wf 6 P3.zero := ⟨hz.1, hz.1, hz.1⟩
  have hz8 : P3.wf 8 P3.zero := ⟨hz.2, hz.2, hz.2⟩
  refine ⟨?_, by decide, ?_, ?_⟩
  · intro f hf
    simp only [exFmts, List.mem_cons, List.not_mem_nil, or_false] at hf
    rcases hf with rfl | rfl
    · exact ⟨by decide, by decide, by decide, by decide⟩
    · exact ⟨by decide, by decide, by decide, by decide⟩
  · simp only [exFmts, exSys, All2, List.mem_singleton, forall_eq, List.not_mem_nil, false_imp_iff, implies_true, and_true]
    refine ⟨hp8, hz8, ?_⟩
    simp only [All2, Val.wf, and_true]
    exact ⟨⟨by decide, by decide, by decide, by decide⟩, ⟨by decide, by decide, by decide, by decide⟩, by decide⟩
  · simp only [exFmts, exSys, All2, List.mem_singleton, forall_eq, List.not_mem_nil, false_imp_iff, implies_true, and_true,
      true_and]
    refine ⟨hz8, hp8, ?_⟩
    simp only [All2, Val.wf, and_true]
    exact ⟨⟨hp6, hz6, hp6⟩, ⟨by decide, by decide, by decide, by decide⟩, ⟨by decide, by decide, by decide, by decide⟩,
      ⟨by decide, by decide, by decide, by decide⟩⟩

set_option maxRecDepth 100000 in
/-- the file of the example, as the real writer prints it -/
example : String.ofList (write exFmts exSys) =
    "A E n !!!\nB T w !!!\n!!!\nA free 1.03125 -0.25 0 0 0 0 2e+06 -42\n" ++
    "B frozen 0 0 0 1.03125 -0.25 0 tensor((1.03125, -0.25, 0), (0, 0, 0), (1.03125, -0.25, 0)) (1e-05, -3, 1e+12)\n!!!\n" := by
  decide

/-- the hypotheses of `C18_columns` are satisfiable and the conclusion is not trivial: the non-persistent `tmp = 7` is
    the only thing that changes -/
example : restore exFmts (write exFmts exSys) = .ok (exSys.persistentPart exFmts) ∧ exSys.persistentPart exFmts ≠ exSys :=
  ⟨C18_columns _ _ exSys_wf, by decide⟩

/-- **the writer's formats** (regenerated from phase.cpp / data_format.cpp): positions and velocities with stream precision 8
(`particleLine` uses `fmtP3s 8`), scalars with `%g` = 6 significant digits (`toStr` uses `fmtG 6`), integers with `%i`. -/
theorem C18_writer_formats :
    Sympler.Gen.Restart.writerPrecision = 8 ∧ Sympler.Gen.Restart.doubleFormat = "%g" ∧ Sympler.Gen.Restart.intFormat = "%i" ∧
    (∀ (f : Format) (frozen : Bool) (p : Particle), particleLine f frozen p =
      f.name ++ ' ' :: ((if frozen then wFrozen else wFree) ++ ' ' ::
        (fmtP3s Sympler.Gen.Restart.writerPrecision p.r ++ ' ' ::
          (fmtP3s Sympler.Gen.Restart.writerPrecision p.v ++ (tagTokens f.attrs p.tags ++ ['\n']))))) :=
  ⟨rfl, by decide, by decide, fun _ _ _ => rfl⟩

/-- **the column layout** (regenerated from phase.cpp and pc_file.cpp): the header, the free-particle lines and the frozen-particle lines
all run over ALL rows of the species' format and keep exactly the persistent attributes, in the same order; the fixed columns are
written as `r.x r.y r.z v.x v.y v.z` in both kinds of lines and read back in that order.  (The model's `particleLine` / `tagTokens` /
reader assume precisely this.) -/
theorem C18_column_layout :
    Sympler.Gen.Restart.writerSections =
      [("header", true, true, "names"), ("free", true, true, "r.x r.y r.z v.x v.y v.z"), ("frozen", true, true, "r.x r.y r.z v.x v.y v.z")] ∧
    Sympler.Gen.Restart.readerColumns = "r.x r.y r.z v.x v.y v.z" := by decide

end Sympler.Restart
