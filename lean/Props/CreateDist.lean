import Sympler.Gen.CreateDistGen
/-!
C01 / C13 — the call sites of `CellLink::createDistances` (table REGENERATED from cell.cpp on every run; `Sympler/PairSearch.lean`
interprets it, so the executable model of the pair search follows the source).  What the general theorems of `Props/C01.lean` assume
about the enumeration - every unordered combination of (free or frozen particles of colour c1) x (… of colour c2) except
frozen-frozen is visited exactly once per pair of cells, goes to the right list, and a frozen partner is never acted on - is stated
here about the table and decided by the kernel.
-/
namespace Sympler.CreateDist
open Sympler.Gen.CreateDist

def cellOfList (l : Nat × Bool × Nat) : Nat := l.1
def frozenOfList (l : Nat × Bool × Nat) : Bool := l.2.1
def colOfList (l : Nat × Bool × Nat) : Nat := l.2.2

/-- one call site is well formed -/
def siteOK (st : Site) : Bool :=
  -- the particle lists come from the cells passed as first / second cell
  cellOfList st.la == st.cellA && cellOfList st.lb == st.cellB &&
  -- never frozen with frozen; the target is the frozen pair list iff exactly one list is a frozen list
  !(frozenOfList st.la && frozenOfList st.lb) && (st.frozenList == (frozenOfList st.la != frozenOfList st.lb)) &&
  -- a frozen partner is never acted on, a free partner of a frozen one always is
  (!frozenOfList st.la || st.aoF == 0) && (!frozenOfList st.lb || st.aoS == 0) &&
  (!st.frozenList || ((frozenOfList st.la || st.aoF == 1) && (frozenOfList st.lb || st.aoS == 1))) &&
  -- colours: same-colour branch uses c1 twice, the other branches c1 for the m_first side … and c2 for the other
  (if st.branch == 0 then colOfList st.la == 1 && colOfList st.lb == 1
   else ((colOfList st.la == 1 && colOfList st.lb == 2) || (colOfList st.la == 2 && colOfList st.lb == 1))) &&
  -- geometry of the call: same cell (dir 0), first->second (dir 1), second->first (dir -1, lists swapped with the cells)
  (match st.branch with
   | 0 => st.cellA == 0 && st.cellB == 0 && st.dir == 0
   | 1 => st.cellA == 0 && st.cellB == 0 && st.dir == 0 && colOfList st.la == 1 && colOfList st.lb == 2
   | 2 => st.cellA == 0 && st.cellB == 1 && st.dir == 1 && colOfList st.la == 1 && colOfList st.lb == 2
   | 3 => st.cellA == 1 && st.cellB == 0 && st.dir == -1 && colOfList st.la == 2 && colOfList st.lb == 1
   | _ => false) &&
  -- different cells: a free-free call carries the acts-on flag of each side's cell; a free-frozen call runs only if the FREE side's cell
  -- is acted on
  (if st.branch ≤ 1 then st.guard == 0 && (st.frozenList || (st.aoF == 1 && st.aoS == 1))
   else if !st.frozenList then st.guard == 0 && st.aoF == (if st.cellA == 0 then 2 else 3) && st.aoS == (if st.cellB == 0 then 2 else 3)
   else st.guard == (if (if frozenOfList st.la then st.cellB else st.cellA) == 0 then 1 else 2)) &&
  -- createDistancesForSame only for the free particles of one colour in one cell
  (st.same == (st.branch == 0 && !st.frozenList))

/-- the combinations (first list frozen?, second list frozen?) visited in a branch, in source order -/
def combos (b : Nat) : List (Bool × Bool) :=
  (sites.filter (fun st => st.branch == b)).map fun st =>
    -- orientation-independent: (is the colour-c1 list frozen?, is the colour-c2 list frozen?)
    if colOfList st.la == 1 then (frozenOfList st.la, frozenOfList st.lb) else (frozenOfList st.lb, frozenOfList st.la)

theorem C01_call_sites_wellformed : sites.all siteOK = true := by decide +kernel

/-- per pair of cells and colour pair: free-free, free-frozen and (for two colours) frozen-free, each exactly once, never frozen-frozen -/
theorem C01_call_sites_cover :
    combos 0 = [(false, false), (false, true)] ∧
    combos 1 = [(false, false), (false, true), (true, false)] ∧
    combos 2 = [(false, false), (false, true), (true, false)] ∧
    combos 3 = [(false, false), (false, true), (true, false)] ∧
    sites.length = 11 := by decide +kernel

/-- the call of the `else` branch (`c1 ≥ c2`, seen from the second cell) that corresponds to a call of the `c1 < c2` branch: cells, particle
lists and acts-on arguments change places, the direction changes sign; the guard stays with the cell whose FREE particles take part -/
def mirror (st : Site) : Site :=
  { st with branch := 3, dir := -st.dir, cellA := st.cellB, cellB := st.cellA, la := st.lb, lb := st.la, aoF := st.aoS, aoS := st.aoF }

/-- C13: whichever of the two colours of a pair is "first" (that depends on the order in which the species are declared), the same
combinations of particle lists are paired with the roles exchanged: the `c1 ≥ c2` branch is the mirror image of the `c1 < c2` branch.
This is the structural reason why renumbering the species does not change the set of pairs. -/
theorem C13_call_sites_mirror :
    (sites.filter (fun st => st.branch == 2)).map mirror = sites.filter (fun st => st.branch == 3) := by decide +kernel

/-- C20: the OpenMP version of `CellLink::createDistances` visits exactly the same call sites (lists, target, direction, flags) in the
same order as the serial version -/
theorem C20_create_distances_same_sites : sitesOmp = sites := by decide +kernel

end Sympler.CreateDist
