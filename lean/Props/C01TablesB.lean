import Props.C01Tables

/-! More instances of the FINITE CHECK of `Props/C01Tables.lean` (kernel evaluation of `staticChecks`). -/
namespace Sympler.C01
open Sympler Sympler.Grid

set_option maxRecDepth 1000000 in
/-- FINITE CHECK: 2×2×2 cells, periodicities wpp, wpw, wwp, www -/
theorem C01_links_complete_unique_222b :
    staticChecks 1 (2, 2, 2) (false, true, true) = true ∧ staticChecks 1 (2, 2, 2) (false, true, false) = true ∧
    staticChecks 1 (2, 2, 2) (false, false, true) = true ∧ staticChecks 1 (2, 2, 2) (false, false, false) = true := by
  decide +kernel

end Sympler.C01
