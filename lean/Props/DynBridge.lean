import Sympler.Dyn
import Sympler.Gen.DynGen
/-!
# Bridge between the kernels regenerated from the C++ (`Sympler/Gen/DynGen.lean`, translator `translate/t_dyn.py`) and the
hand-written one-step model `Sympler/Dyn.lean` that the theorems of C04, C05, C07 and C10 are about.

Every statement below says: *the function the translator extracted from the current source is the function the model uses*,
for all arguments.  A changed sign, operand, guard, comparison, factor, buffer index or call order in the C++ makes one of
them false (or makes the translator fail), i.e. breaks a proof obligation of C04/C05/C07/C10.
`wFirst = wSecond = 1`: the scenarios use `InputWF … weight="1"`; kernels with a position dependent weight are outside the model.
Core Lean only.
-/
namespace Sympler.Dyn
open Sympler.Gen.Dyn

/-- component-wise application of a generated pair kernel -/
def liftK (k : Rat → Rat → Rat → Rat → Rat → Rat → Rat) (e fi fj : Vec3) (sym : Rat) : Vec3 :=
  ⟨k e.x fi.x fj.x sym 1 1, k e.y fi.y fj.y sym 1 1, k e.z fi.z fj.z sym 1 1⟩

@[simp] theorem add_x (a b : Vec3) : (a + b).x = a.x + b.x := rfl
@[simp] theorem add_y (a b : Vec3) : (a + b).y = a.y + b.y := rfl
@[simp] theorem add_z (a b : Vec3) : (a + b).z = a.z + b.z := rfl
@[simp] theorem smul_x (c : Rat) (a : Vec3) : (c • a).x = c * a.x := rfl
@[simp] theorem smul_y (c : Rat) (a : Vec3) : (c • a).y = c * a.y := rfl
@[simp] theorem smul_z (c : Rat) (a : Vec3) : (c • a).z = c * a.z := rfl

theorem vec3_ext {a b : Vec3} (hx : a.x = b.x) (hy : a.y = b.y) (hz : a.z = b.z) : a = b := by
  cases a; cases b; simp_all

/-- **pair kernels, first partner**: the increment every modelled pair module adds to the FIRST partner is the model's
`PairMod.first` (`factor_i ∘ expr`). -/
theorem Bridge_pair_first (m : PairMod) (env : Env) :
    m.first env = liftK FPairVels_first (m.expr.eval env) (m.fi.eval env) (m.fj.eval env) m.sym ∧
    m.first env = liftK FPairScalar_first (m.expr.eval env) (m.fi.eval env) (m.fj.eval env) m.sym ∧
    m.first env = liftK FPairVector_first (m.expr.eval env) (m.fi.eval env) (m.fj.eval env) m.sym ∧
    m.first env = liftK PairParticleScalar_first (m.expr.eval env) (m.fi.eval env) (m.fj.eval env) m.sym ∧
    m.first env = liftK PairParticleVector_first (m.expr.eval env) (m.fi.eval env) (m.fj.eval env) m.sym := by
  refine ⟨?_, ?_, ?_, ?_, ?_⟩ <;> apply vec3_ext <;>
    simp only [PairMod.first, Vec3.cmul, liftK, FPairVels_first, FPairScalar_first, FPairVector_first,
      PairParticleScalar_first, PairParticleVector_first] <;> grind

/-- **pair kernels, second partner**: `symmetry * (factor_j ∘ expr)`. -/
theorem Bridge_pair_second (m : PairMod) (env : Env) :
    m.second env = liftK FPairVels_second (m.expr.eval env) (m.fi.eval env) (m.fj.eval env) m.sym ∧
    m.second env = liftK FPairScalar_second (m.expr.eval env) (m.fi.eval env) (m.fj.eval env) m.sym ∧
    m.second env = liftK FPairVector_second (m.expr.eval env) (m.fi.eval env) (m.fj.eval env) m.sym ∧
    m.second env = liftK PairParticleScalar_second (m.expr.eval env) (m.fi.eval env) (m.fj.eval env) m.sym ∧
    m.second env = liftK PairParticleVector_second (m.expr.eval env) (m.fi.eval env) (m.fj.eval env) m.sym := by
  refine ⟨?_, ?_, ?_, ?_, ?_⟩ <;> apply vec3_ext <;>
    simp only [PairMod.second, Vec3.cmul, liftK, FPairVels_second, FPairScalar_second, FPairVector_second,
      PairParticleScalar_second, PairParticleVector_second, smul_x, smul_y, smul_z] <;> grind

/-- **guards**: in every modelled pair module the write to the first partner is under `actsOnFirst()` only, the write to the
second under `actsOnSecond()` only, and both are accumulations (`+=`) — the shape of `pairOp`
(`if !p.frozen … addTag`, `if !q.frozen … addTag`; the acts-on flags are the free flags by C01). -/
theorem Bridge_pair_guards :
    [FPairVels_firstGuards, FPairScalar_firstGuards, FPairVector_firstGuards, PairParticleScalar_firstGuards,
      PairParticleVector_firstGuards].all (· == [Guard.actsOnFirst]) = true ∧
    [FPairVels_secondGuards, FPairScalar_secondGuards, FPairVector_secondGuards, PairParticleScalar_secondGuards,
      PairParticleVector_secondGuards].all (· == [Guard.actsOnSecond]) = true ∧
    [FPairVels_firstAccumulates, FPairScalar_firstAccumulates, FPairVector_firstAccumulates,
      PairParticleScalar_firstAccumulates, PairParticleVector_firstAccumulates, FPairVels_secondAccumulates,
      FPairScalar_secondAccumulates, FPairVector_secondAccumulates, PairParticleScalar_secondAccumulates,
      PairParticleVector_secondAccumulates].all id = true := by decide

theorem sq_lt_sq_iff {a c : Rat} (ha : 0 ≤ a) (hc : 0 < c) : a < c ↔ a * a < c * c := by
  constructor
  · intro h
    have h1 : a * a ≤ a * c := Rat.mul_le_mul_of_nonneg_left (Rat.le_of_lt h) ha
    have h2 : a * c < c * c := (Rat.mul_lt_mul_right hc).mpr h
    grind
  · intro h
    apply Rat.not_le.mp
    intro hca
    have h1 : c * c ≤ a * c := Rat.mul_le_mul_of_nonneg_right hca (Rat.le_of_lt hc)
    have h2 : a * c ≤ a * a := Rat.mul_le_mul_of_nonneg_left hca ha
    grind

/-- **own cutoff**: every modelled pair module runs iff `abs < m_cutoff` (strict), which for `abs ≥ 0`, `cutoff > 0` is the
model's `inCut` (`abs² < cutoff²`). -/
theorem Bridge_pair_cutoff {abs cutoff : Rat} (ha : 0 ≤ abs) (hc : 0 < cutoff) :
    (FPairVels_inCut abs cutoff = true ↔ abs * abs < cutoff * cutoff) ∧
    (FPairScalar_inCut abs cutoff = true ↔ abs * abs < cutoff * cutoff) ∧
    (FPairVector_inCut abs cutoff = true ↔ abs * abs < cutoff * cutoff) ∧
    (PairParticleScalar_inCut abs cutoff = true ↔ abs * abs < cutoff * cutoff) ∧
    (PairParticleVector_inCut abs cutoff = true ↔ abs * abs < cutoff * cutoff) := by
  simp only [FPairVels_inCut, FPairScalar_inCut, FPairVector_inCut, PairParticleScalar_inCut, PairParticleVector_inCut,
    decide_eq_true_eq]
  exact ⟨sq_lt_sq_iff ha hc, sq_lt_sq_iff ha hc, sq_lt_sq_iff ha hc, sq_lt_sq_iff ha hc, sq_lt_sq_iff ha hc⟩

/-- **velocity-Verlet, step 1**: position and velocity update of the model = the generated `integratePosition` /
`integrateVelocity` increments (followed by the periodic wrap of `checkNewPosition`). -/
theorem Bridge_vv_step1 (b : Box) (dt lambda mass : Rat) (idx : Bool) (p : Particle) :
    let f := p.tag (.force .vel idx)
    vvStep1 b dt lambda mass idx p =
      { p with
        r := wrap b ⟨p.r.x + vvPosIncr dt p.v.x f.x mass, p.r.y + vvPosIncr dt p.v.y f.y mass, p.r.z + vvPosIncr dt p.v.z f.z mass⟩,
        v := ⟨p.v.x + vvVelIncr dt lambda f.x mass, p.v.y + vvVelIncr dt lambda f.y mass, p.v.z + vvVelIncr dt lambda f.z mass⟩ } := by
  intro f
  have hr : p.r + dt • (p.v + ((1 / 2 : Rat) * dt) • ((1 / mass) • f)) =
      ⟨p.r.x + vvPosIncr dt p.v.x f.x mass, p.r.y + vvPosIncr dt p.v.y f.y mass, p.r.z + vvPosIncr dt p.v.z f.z mass⟩ := by
    apply vec3_ext <;> simp only [add_x, add_y, add_z, smul_x, smul_y, smul_z, vvPosIncr, Rat.div_def] <;> grind
  have hv : p.v + lambda • (dt • ((1 / mass) • f)) =
      ⟨p.v.x + vvVelIncr dt lambda f.x mass, p.v.y + vvVelIncr dt lambda f.y mass, p.v.z + vvVelIncr dt lambda f.z mass⟩ := by
    apply vec3_ext <;> simp only [add_x, add_y, add_z, smul_x, smul_y, smul_z, vvVelIncr, Rat.div_def] <;> grind
  simp only [vvStep1]
  rw [hr, hv]

/-- **velocity-Verlet, step 2**: the `lambda ≠ 1/2` correction with the OTHER buffer, then `dt/2 · force[idx]/m`. -/
theorem Bridge_vv_step2 (dt lambda mass : Rat) (idx : Bool) (p : Particle) :
    let fo := p.tag (.force .vel (!idx))
    let fn := p.tag (.force .vel idx)
    let c := fun (x : Rat) => if lambda ≠ 1 / 2 then vvStep2Corr dt (vvLambdaDiff lambda) x mass else 0
    (vvStep2 dt lambda mass idx p).v =
      ⟨p.v.x + c fo.x + vvStep2Incr dt fn.x mass, p.v.y + c fo.y + vvStep2Incr dt fn.y mass,
       p.v.z + c fo.z + vvStep2Incr dt fn.z mass⟩ := by
  intro fo fn c
  by_cases h : lambda ≠ 1 / 2
  · have hc : ∀ x, c x = vvStep2Corr dt (vvLambdaDiff lambda) x mass := fun x => if_pos h
    have e : vvStep2 dt lambda mass idx p =
        { p with v := (p.v + (dt * (1 / 2 - lambda)) • ((1 / mass) • fo)) + (dt / 2) • ((1 / mass) • fn) } := by
      unfold vvStep2; rw [if_pos h]
    rw [e]
    apply vec3_ext <;>
      simp only [hc, add_x, add_y, add_z, smul_x, smul_y, smul_z, vvStep2Corr, vvLambdaDiff, vvStep2Incr, Rat.div_def] <;> grind
  · have hc : ∀ x, c x = 0 := fun x => if_neg h
    have e : vvStep2 dt lambda mass idx p = { p with v := p.v + (dt / 2) • ((1 / mass) • fn) } := by
      unfold vvStep2; rw [if_neg h]
    rw [e]
    apply vec3_ext <;>
      simp only [hc, add_x, add_y, add_z, smul_x, smul_y, smul_z, vvStep2Incr, Rat.div_def] <;> grind

/-- **Euler integrators**: `IntegratorScalar/Vector::integrateStep1` add `dt · force[idx]` component-wise. -/
theorem Bridge_euler_step1 (dt : Rat) (name : String) (idx : Bool) (p : Particle) :
    let f := p.tag (.force (.user name) idx)
    (eulerStep1 dt name idx p).tag (.sym name) =
      ⟨(p.tag (.sym name)).x + eulerScalarIncr dt f.x, (p.tag (.sym name)).y + eulerVectorIncr dt f.y,
       (p.tag (.sym name)).z + eulerVectorIncr dt f.z⟩ := by
  intro f
  apply vec3_ext <;>
    simp [eulerStep1, Particle.addTag, Particle.setTag, eulerScalarIncr, eulerVectorIncr, f]

/-- **order of one time step** (`Controller::integrate`) and the two-buffer flip: exactly the sequence `step` composes
(`integ1`; `other := !idx` = `(idx+1) & (FORCE_HIST_SIZE-1)` with `FORCE_HIST_SIZE = 2`; `clearForce other`; `unprotect other`;
`clearParticleData`; neighbour update; `runSymbols`; pair forces, particle forces into `other`; `idx := other`; `integ2`). -/
theorem Bridge_step_order :
    integrateOrder = ["step1", "otherIndex", "clearForce", "unprotect", "clearParticleData", "neighbourUpdate", "runSymbols",
      "pairForces", "particleForces", "otherForces", "flipIndex", "step2"] ∧ forceHistSize = 2 := by decide

end Sympler.Dyn
