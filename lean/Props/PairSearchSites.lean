import Sympler.PairSearch
/-!
C01 — what the table-driven executable model of `CellLink::createDistances` enumerates (links between two DIFFERENT cells).

`Sympler.PairSearch.branchPairs` interprets the call-site table regenerated from cell.cpp.  The statements below are about that
interpretation, for all states, cells, colours and particle lists: for a link between two different cells that is acted on from both
sides, every combination (particle of colour c1 in the first cell, particle of colour c2 in the second cell) that is not
frozen-frozen is offered to `addPair` - with the arguments in the role-independent order - and nothing else is.
-/
namespace Sympler.PairSearch
open Sympler Sympler.Grid Sympler.Cells Sympler.Gen.CellTables Sympler.Gen.CreateDist

/-- all particles of colour `c` in cell `k`, free first -/
def allRefs (s : St) (k c : Nat) : List PRef := freeRefs s k c ++ frozenRefs s k c

theorem mem_freeRefs_frozen {s : St} {k c : Nat} {p : PRef} (h : p ∈ freeRefs s k c) : p.frozen = false := by
  unfold freeRefs at h
  obtain ⟨_, _, rfl⟩ := List.mem_map.mp h
  rfl

theorem mem_frozenRefs_frozen {s : St} {k c : Nat} {p : PRef} (h : p ∈ frozenRefs s k c) : p.frozen = true := by
  unfold frozenRefs at h
  obtain ⟨_, _, rfl⟩ := List.mem_map.mp h
  rfl

theorem mem_branchPairs {s : St} {cp : CpCfg} {f g c1 c2 : Nat} {fc sc : CellGeom} {aoF aoS : Bool} {dist : V3 Rat} {b : Nat}
    {q : PairRec} :
    q ∈ branchPairs s cp f g c1 c2 fc sc aoF aoS dist b ↔
      ∃ st ∈ sites, st.branch = b ∧ q ∈ evalSite s cp f g c1 c2 fc sc aoF aoS dist st := by
  unfold branchPairs
  simp only [List.mem_flatMap, List.mem_filter, beq_iff_eq]
  constructor
  · rintro ⟨st, ⟨h1, h2⟩, h3⟩; exact ⟨st, h1, h2, h3⟩
  · rintro ⟨st, h1, h2, h3⟩; exact ⟨st, ⟨h1, h2⟩, h3⟩

/-- the three call sites of the branch `c1 < c2` between different cells, as the regenerated table has them -/
def siteFF : Site := { branch := 2, guard := 0, same := false, frozenList := false, dir := 1, cellA := 0, cellB := 1, la := (0, false, 1), lb := (1, false, 2), aoF := 2, aoS := 3 }
def siteFZ : Site := { branch := 2, guard := 1, same := false, frozenList := true, dir := 1, cellA := 0, cellB := 1, la := (0, false, 1), lb := (1, true, 2), aoF := 1, aoS := 0 }
def siteZF : Site := { branch := 2, guard := 2, same := false, frozenList := true, dir := 1, cellA := 0, cellB := 1, la := (0, true, 1), lb := (1, false, 2), aoF := 0, aoS := 1 }

theorem sites_branch2 : siteFF ∈ sites ∧ siteFZ ∈ sites ∧ siteZF ∈ sites ∧
    sites.filter (fun st => st.branch == 2) = [siteFF, siteFZ, siteZF] := by decide +kernel

theorem mem_forDifferent {cp : CpCfg} {fl : Bool} {dir : Int} {fc sc : CellGeom} {ps1 ps2 : List PRef} {a b : Bool} {dist : V3 Rat}
    {q : PairRec} :
    q ∈ forDifferent cp fl dir fc sc ps1 ps2 a b dist ↔ ∃ p1 ∈ ps1, ∃ p2 ∈ ps2, q ∈ addPair cp fl dir fc sc p1 p2 a b dist := by
  unfold forDifferent
  simp only [List.mem_flatMap]

/-- **completeness, branch `c1 < c2`** (the first cell's particles have colour c1): every free-free, free-frozen and frozen-free
combination reaches `addPair` with the first cell's particle as first partner, into the free list iff both are free, and a frozen
partner is not acted on. -/
theorem branch2_complete (s : St) (cp : CpCfg) (f g c1 c2 : Nat) (fc sc : CellGeom) (dist : V3 Rat)
    {p1 p2 : PRef} (h1 : p1 ∈ allRefs s f c1) (h2 : p2 ∈ allRefs s g c2) (hff : ¬ (p1.frozen = true ∧ p2.frozen = true))
    {q : PairRec}
    (hq : q ∈ addPair cp (p1.frozen || p2.frozen) 1 fc sc p1 p2 (!p1.frozen) (!p2.frozen) dist) :
    q ∈ branchPairs s cp f g c1 c2 fc sc true true dist 2 := by
  rw [mem_branchPairs]
  unfold allRefs at h1 h2
  rcases List.mem_append.mp h1 with a1 | a1 <;> rcases List.mem_append.mp h2 with a2 | a2
  · have e1 := mem_freeRefs_frozen a1; have e2 := mem_freeRefs_frozen a2
    simp only [e1, e2] at hq
    refine ⟨siteFF, sites_branch2.1, rfl, ?_⟩
    simp only [evalSite, siteFF, siteRefs, evalAo]
    simp only [Bool.not_true, Bool.false_eq_true, if_false, if_true]
    exact mem_forDifferent.mpr ⟨p1, by simpa using a1, p2, by simpa using a2, by simpa using hq⟩
  · have e1 := mem_freeRefs_frozen a1; have e2 := mem_frozenRefs_frozen a2
    simp only [e1, e2] at hq
    refine ⟨siteFZ, sites_branch2.2.1, rfl, ?_⟩
    simp only [evalSite, siteFZ, siteRefs, evalAo]
    simp only [Bool.not_true, Bool.false_eq_true, if_false, if_true]
    exact mem_forDifferent.mpr ⟨p1, by simpa using a1, p2, by simpa using a2, by simpa using hq⟩
  · have e1 := mem_frozenRefs_frozen a1; have e2 := mem_freeRefs_frozen a2
    simp only [e1, e2] at hq
    refine ⟨siteZF, sites_branch2.2.2.1, rfl, ?_⟩
    simp only [evalSite, siteZF, siteRefs, evalAo]
    simp only [Bool.not_true, Bool.false_eq_true, if_false, if_true]
    exact mem_forDifferent.mpr ⟨p1, by simpa using a1, p2, by simpa using a2, by simpa using hq⟩
  · exact absurd ⟨mem_frozenRefs_frozen a1, mem_frozenRefs_frozen a2⟩ hff

/-- **soundness, branch `c1 < c2`**: nothing else is enumerated: every entry comes from one such combination, is put into the frozen
list iff one partner is frozen, and acts exactly on the free partners -/
theorem branch2_sound (s : St) (cp : CpCfg) (f g c1 c2 : Nat) (fc sc : CellGeom) (dist : V3 Rat) {q : PairRec}
    (hq : q ∈ branchPairs s cp f g c1 c2 fc sc true true dist 2) :
    ∃ p1 ∈ allRefs s f c1, ∃ p2 ∈ allRefs s g c2, ¬ (p1.frozen = true ∧ p2.frozen = true) ∧
      q ∈ addPair cp (p1.frozen || p2.frozen) 1 fc sc p1 p2 (!p1.frozen) (!p2.frozen) dist := by
  obtain ⟨st, hst, hb, hmem⟩ := mem_branchPairs.mp hq
  have hf : st ∈ sites.filter (fun st => st.branch == 2) := List.mem_filter.mpr ⟨hst, by simp [hb]⟩
  rw [sites_branch2.2.2.2] at hf
  simp only [List.mem_cons, List.not_mem_nil, or_false] at hf
  unfold allRefs
  rcases hf with rfl | rfl | rfl
  · simp only [evalSite, siteFF, siteRefs, evalAo, Bool.not_true, Bool.false_eq_true, if_false, if_true] at hmem
    obtain ⟨p1, a1, p2, a2, h⟩ := mem_forDifferent.mp hmem
    have a1' : p1 ∈ freeRefs s f c1 := by simpa using a1
    have a2' : p2 ∈ freeRefs s g c2 := by simpa using a2
    have e1 := mem_freeRefs_frozen a1'; have e2 := mem_freeRefs_frozen a2'
    exact ⟨p1, List.mem_append_left _ a1', p2, List.mem_append_left _ a2', by simp [e1], by simpa [e1, e2] using h⟩
  · simp only [evalSite, siteFZ, siteRefs, evalAo, Bool.not_true, Bool.false_eq_true, if_false, if_true] at hmem
    obtain ⟨p1, a1, p2, a2, h⟩ := mem_forDifferent.mp hmem
    have a1' : p1 ∈ freeRefs s f c1 := by simpa using a1
    have a2' : p2 ∈ frozenRefs s g c2 := by simpa using a2
    have e1 := mem_freeRefs_frozen a1'; have e2 := mem_frozenRefs_frozen a2'
    exact ⟨p1, List.mem_append_left _ a1', p2, List.mem_append_right _ a2', by simp [e1], by simpa [e1, e2] using h⟩
  · simp only [evalSite, siteZF, siteRefs, evalAo, Bool.not_true, Bool.false_eq_true, if_false, if_true] at hmem
    obtain ⟨p1, a1, p2, a2, h⟩ := mem_forDifferent.mp hmem
    have a1' : p1 ∈ frozenRefs s f c1 := by simpa using a1
    have a2' : p2 ∈ freeRefs s g c2 := by simpa using a2
    have e1 := mem_frozenRefs_frozen a1'; have e2 := mem_freeRefs_frozen a2'
    exact ⟨p1, List.mem_append_right _ a1', p2, List.mem_append_left _ a2', by simp [e2], by simpa [e1, e2] using h⟩

/-- the three call sites of the branch `c1 ≥ c2` (the roles of the two cells exchanged) between different cells, as the regenerated table has them -/
def siteFF3 : Site := { branch := 3, guard := 0, same := false, frozenList := false, dir := -1, cellA := 1, cellB := 0, la := (1, false, 2), lb := (0, false, 1), aoF := 3, aoS := 2 }
def siteZF3 : Site := { branch := 3, guard := 1, same := false, frozenList := true, dir := -1, cellA := 1, cellB := 0, la := (1, true, 2), lb := (0, false, 1), aoF := 0, aoS := 1 }
def siteFZ3 : Site := { branch := 3, guard := 2, same := false, frozenList := true, dir := -1, cellA := 1, cellB := 0, la := (1, false, 2), lb := (0, true, 1), aoF := 1, aoS := 0 }

theorem sites_branch3 : siteFF3 ∈ sites ∧ siteFZ3 ∈ sites ∧ siteZF3 ∈ sites ∧
    sites.filter (fun st => st.branch == 3) = [siteFF3, siteZF3, siteFZ3] := by decide +kernel


/-- **completeness, branch `c1 ≥ c2`** (the SECOND cell's particles, of colour c2, are the first partners): every free-free, free-frozen and frozen-free
combination reaches `addPair` with the first cell's particle as first partner, into the free list iff both are free, and a frozen
partner is not acted on. -/
theorem branch3_complete (s : St) (cp : CpCfg) (f g c1 c2 : Nat) (fc sc : CellGeom) (dist : V3 Rat)
    {p1 p2 : PRef} (h1 : p1 ∈ allRefs s g c2) (h2 : p2 ∈ allRefs s f c1) (hff : ¬ (p1.frozen = true ∧ p2.frozen = true))
    {q : PairRec}
    (hq : q ∈ addPair cp (p1.frozen || p2.frozen) (-1) sc fc p1 p2 (!p1.frozen) (!p2.frozen) dist) :
    q ∈ branchPairs s cp f g c1 c2 fc sc true true dist 3 := by
  rw [mem_branchPairs]
  unfold allRefs at h1 h2
  rcases List.mem_append.mp h1 with a1 | a1 <;> rcases List.mem_append.mp h2 with a2 | a2
  · have e1 := mem_freeRefs_frozen a1; have e2 := mem_freeRefs_frozen a2
    simp only [e1, e2] at hq
    refine ⟨siteFF3, sites_branch3.1, rfl, ?_⟩
    simp only [evalSite, siteFF3, siteRefs, evalAo]
    simp only [Bool.not_true, Bool.false_eq_true, if_false, if_true]
    exact mem_forDifferent.mpr ⟨p1, by simpa using a1, p2, by simpa using a2, by simpa using hq⟩
  · have e1 := mem_freeRefs_frozen a1; have e2 := mem_frozenRefs_frozen a2
    simp only [e1, e2] at hq
    refine ⟨siteFZ3, sites_branch3.2.1, rfl, ?_⟩
    simp only [evalSite, siteFZ3, siteRefs, evalAo]
    simp only [Bool.not_true, Bool.false_eq_true, if_false, if_true]
    exact mem_forDifferent.mpr ⟨p1, by simpa using a1, p2, by simpa using a2, by simpa using hq⟩
  · have e1 := mem_frozenRefs_frozen a1; have e2 := mem_freeRefs_frozen a2
    simp only [e1, e2] at hq
    refine ⟨siteZF3, sites_branch3.2.2.1, rfl, ?_⟩
    simp only [evalSite, siteZF3, siteRefs, evalAo]
    simp only [Bool.not_true, Bool.false_eq_true, if_false, if_true]
    exact mem_forDifferent.mpr ⟨p1, by simpa using a1, p2, by simpa using a2, by simpa using hq⟩
  · exact absurd ⟨mem_frozenRefs_frozen a1, mem_frozenRefs_frozen a2⟩ hff

/-- **soundness, branch `c1 ≥ c2`**: nothing else is enumerated: every entry comes from one such combination, is put into the frozen
list iff one partner is frozen, and acts exactly on the free partners -/
theorem branch3_sound (s : St) (cp : CpCfg) (f g c1 c2 : Nat) (fc sc : CellGeom) (dist : V3 Rat) {q : PairRec}
    (hq : q ∈ branchPairs s cp f g c1 c2 fc sc true true dist 3) :
    ∃ p1 ∈ allRefs s g c2, ∃ p2 ∈ allRefs s f c1, ¬ (p1.frozen = true ∧ p2.frozen = true) ∧
      q ∈ addPair cp (p1.frozen || p2.frozen) (-1) sc fc p1 p2 (!p1.frozen) (!p2.frozen) dist := by
  obtain ⟨st, hst, hb, hmem⟩ := mem_branchPairs.mp hq
  have hf : st ∈ sites.filter (fun st => st.branch == 3) := List.mem_filter.mpr ⟨hst, by simp [hb]⟩
  rw [sites_branch3.2.2.2] at hf
  simp only [List.mem_cons, List.not_mem_nil, or_false] at hf
  unfold allRefs
  rcases hf with rfl | rfl | rfl
  · simp only [evalSite, siteFF3, siteRefs, evalAo, Bool.not_true, Bool.false_eq_true, if_false, if_true] at hmem
    obtain ⟨p1, a1, p2, a2, h⟩ := mem_forDifferent.mp hmem
    have a1' : p1 ∈ freeRefs s g c2 := by simpa using a1
    have a2' : p2 ∈ freeRefs s f c1 := by simpa using a2
    have e1 := mem_freeRefs_frozen a1'; have e2 := mem_freeRefs_frozen a2'
    exact ⟨p1, List.mem_append_left _ a1', p2, List.mem_append_left _ a2', by simp [e1], by simpa [e1, e2] using h⟩
  · simp only [evalSite, siteZF3, siteRefs, evalAo, Bool.not_true, Bool.false_eq_true, if_false, if_true] at hmem
    obtain ⟨p1, a1, p2, a2, h⟩ := mem_forDifferent.mp hmem
    have a1' : p1 ∈ frozenRefs s g c2 := by simpa using a1
    have a2' : p2 ∈ freeRefs s f c1 := by simpa using a2
    have e1 := mem_frozenRefs_frozen a1'; have e2 := mem_freeRefs_frozen a2'
    exact ⟨p1, List.mem_append_right _ a1', p2, List.mem_append_left _ a2', by simp [e2], by simpa [e1, e2] using h⟩


  · simp only [evalSite, siteFZ3, siteRefs, evalAo, Bool.not_true, Bool.false_eq_true, if_false, if_true] at hmem
    obtain ⟨p1, a1, p2, a2, h⟩ := mem_forDifferent.mp hmem
    have a1' : p1 ∈ freeRefs s g c2 := by simpa using a1
    have a2' : p2 ∈ frozenRefs s f c1 := by simpa using a2
    have e1 := mem_freeRefs_frozen a1'; have e2 := mem_frozenRefs_frozen a2'
    exact ⟨p1, List.mem_append_left _ a1', p2, List.mem_append_right _ a2', by simp [e1], by simpa [e1, e2] using h⟩

/-- the three call sites of the branch `c1 < c2` inside ONE cell, as the regenerated table has them -/
def siteFF1 : Site := { branch := 1, guard := 0, same := false, frozenList := false, dir := 0, cellA := 0, cellB := 0, la := (0, false, 1), lb := (0, false, 2), aoF := 1, aoS := 1 }
def siteFZ1 : Site := { branch := 1, guard := 0, same := false, frozenList := true, dir := 0, cellA := 0, cellB := 0, la := (0, false, 1), lb := (0, true, 2), aoF := 1, aoS := 0 }
def siteZF1 : Site := { branch := 1, guard := 0, same := false, frozenList := true, dir := 0, cellA := 0, cellB := 0, la := (0, true, 1), lb := (0, false, 2), aoF := 0, aoS := 1 }

theorem sites_branch1 : siteFF1 ∈ sites ∧ siteFZ1 ∈ sites ∧ siteZF1 ∈ sites ∧
    sites.filter (fun st => st.branch == 1) = [siteFF1, siteFZ1, siteZF1] := by decide +kernel


/-- **completeness, same cell, `c1 < c2`** (whatever the acts-on flags of the link): every free-free, free-frozen and frozen-free
combination reaches `addPair` with the first cell's particle as first partner, into the free list iff both are free, and a frozen
partner is not acted on. -/
theorem branch1_complete (s : St) (cp : CpCfg) (f g c1 c2 : Nat) (fc sc : CellGeom) (aF aS : Bool) (dist : V3 Rat)
    {p1 p2 : PRef} (h1 : p1 ∈ allRefs s f c1) (h2 : p2 ∈ allRefs s f c2) (hff : ¬ (p1.frozen = true ∧ p2.frozen = true))
    {q : PairRec}
    (hq : q ∈ addPair cp (p1.frozen || p2.frozen) 0 fc fc p1 p2 (!p1.frozen) (!p2.frozen) dist) :
    q ∈ branchPairs s cp f g c1 c2 fc sc aF aS dist 1 := by
  rw [mem_branchPairs]
  unfold allRefs at h1 h2
  rcases List.mem_append.mp h1 with a1 | a1 <;> rcases List.mem_append.mp h2 with a2 | a2
  · have e1 := mem_freeRefs_frozen a1; have e2 := mem_freeRefs_frozen a2
    simp only [e1, e2] at hq
    refine ⟨siteFF1, sites_branch1.1, rfl, ?_⟩
    simp only [evalSite, siteFF1, siteRefs, evalAo]
    simp only [Bool.not_true, Bool.false_eq_true, if_false, if_true]
    exact mem_forDifferent.mpr ⟨p1, by simpa using a1, p2, by simpa using a2, by simpa using hq⟩
  · have e1 := mem_freeRefs_frozen a1; have e2 := mem_frozenRefs_frozen a2
    simp only [e1, e2] at hq
    refine ⟨siteFZ1, sites_branch1.2.1, rfl, ?_⟩
    simp only [evalSite, siteFZ1, siteRefs, evalAo]
    simp only [Bool.not_true, Bool.false_eq_true, if_false, if_true]
    exact mem_forDifferent.mpr ⟨p1, by simpa using a1, p2, by simpa using a2, by simpa using hq⟩
  · have e1 := mem_frozenRefs_frozen a1; have e2 := mem_freeRefs_frozen a2
    simp only [e1, e2] at hq
    refine ⟨siteZF1, sites_branch1.2.2.1, rfl, ?_⟩
    simp only [evalSite, siteZF1, siteRefs, evalAo]
    simp only [Bool.not_true, Bool.false_eq_true, if_false, if_true]
    exact mem_forDifferent.mpr ⟨p1, by simpa using a1, p2, by simpa using a2, by simpa using hq⟩
  · exact absurd ⟨mem_frozenRefs_frozen a1, mem_frozenRefs_frozen a2⟩ hff

/-- **soundness, same cell, `c1 < c2`**: nothing else is enumerated: every entry comes from one such combination, is put into the frozen
list iff one partner is frozen, and acts exactly on the free partners -/
theorem branch1_sound (s : St) (cp : CpCfg) (f g c1 c2 : Nat) (fc sc : CellGeom) (aF aS : Bool) (dist : V3 Rat) {q : PairRec}
    (hq : q ∈ branchPairs s cp f g c1 c2 fc sc aF aS dist 1) :
    ∃ p1 ∈ allRefs s f c1, ∃ p2 ∈ allRefs s f c2, ¬ (p1.frozen = true ∧ p2.frozen = true) ∧
      q ∈ addPair cp (p1.frozen || p2.frozen) 0 fc fc p1 p2 (!p1.frozen) (!p2.frozen) dist := by
  obtain ⟨st, hst, hb, hmem⟩ := mem_branchPairs.mp hq
  have hf : st ∈ sites.filter (fun st => st.branch == 1) := List.mem_filter.mpr ⟨hst, by simp [hb]⟩
  rw [sites_branch1.2.2.2] at hf
  simp only [List.mem_cons, List.not_mem_nil, or_false] at hf
  unfold allRefs
  rcases hf with rfl | rfl | rfl
  · simp only [evalSite, siteFF1, siteRefs, evalAo, Bool.not_true, Bool.false_eq_true, if_false, if_true] at hmem
    obtain ⟨p1, a1, p2, a2, h⟩ := mem_forDifferent.mp hmem
    have a1' : p1 ∈ freeRefs s f c1 := by simpa using a1
    have a2' : p2 ∈ freeRefs s f c2 := by simpa using a2
    have e1 := mem_freeRefs_frozen a1'; have e2 := mem_freeRefs_frozen a2'
    exact ⟨p1, List.mem_append_left _ a1', p2, List.mem_append_left _ a2', by simp [e1], by simpa [e1, e2] using h⟩
  · simp only [evalSite, siteFZ1, siteRefs, evalAo, Bool.not_true, Bool.false_eq_true, if_false, if_true] at hmem
    obtain ⟨p1, a1, p2, a2, h⟩ := mem_forDifferent.mp hmem
    have a1' : p1 ∈ freeRefs s f c1 := by simpa using a1
    have a2' : p2 ∈ frozenRefs s f c2 := by simpa using a2
    have e1 := mem_freeRefs_frozen a1'; have e2 := mem_frozenRefs_frozen a2'
    exact ⟨p1, List.mem_append_left _ a1', p2, List.mem_append_right _ a2', by simp [e1], by simpa [e1, e2] using h⟩
  · simp only [evalSite, siteZF1, siteRefs, evalAo, Bool.not_true, Bool.false_eq_true, if_false, if_true] at hmem
    obtain ⟨p1, a1, p2, a2, h⟩ := mem_forDifferent.mp hmem
    have a1' : p1 ∈ frozenRefs s f c1 := by simpa using a1
    have a2' : p2 ∈ freeRefs s f c2 := by simpa using a2
    have e1 := mem_frozenRefs_frozen a1'; have e2 := mem_freeRefs_frozen a2'
    exact ⟨p1, List.mem_append_right _ a1', p2, List.mem_append_left _ a2', by simp [e2], by simpa [e1, e2] using h⟩


/-- `createDistancesForSame`: exactly the pairs (earlier, later) of the list -/
theorem mem_forSame {cp : CpCfg} {fl : Bool} {dir : Int} {c : CellGeom} {dist : V3 Rat} {q : PairRec} (l : List PRef) :
    q ∈ forSame cp fl dir c dist l ↔ ∃ p1 p2, [p1, p2].Sublist l ∧ q ∈ addPair cp fl dir c c p1 p2 true true dist := by
  induction l with
  | nil => simp [forSame]
  | cons i rest ih =>
    simp only [forSame, List.mem_append, List.mem_flatMap, ih]
    constructor
    · rintro (⟨j, hj, h⟩ | ⟨p1, p2, hs, h⟩)
      · exact ⟨i, j, List.cons_sublist_cons.mpr (List.singleton_sublist.mpr hj), h⟩
      · exact ⟨p1, p2, List.Sublist.cons _ hs, h⟩
    · rintro ⟨p1, p2, hs, h⟩
      rcases List.sublist_cons_iff.mp hs with h' | ⟨r, hr, h'⟩
      · exact Or.inr ⟨p1, p2, h', h⟩
      · have e1 : p1 = i := by simpa using (List.cons.inj hr).1
        have e2 : r = [p2] := by simpa using (List.cons.inj hr).2.symm
        subst e1; subst e2
        exact Or.inl ⟨p2, List.singleton_sublist.mp h', h⟩

/-- the two call sites for one colour inside one cell -/
def siteSame0 : Site := { branch := 0, guard := 0, same := true, frozenList := false, dir := 0, cellA := 0, cellB := 0, la := (0, false, 1), lb := (0, false, 1), aoF := 1, aoS := 1 }
def siteFZ0 : Site := { branch := 0, guard := 0, same := false, frozenList := true, dir := 0, cellA := 0, cellB := 0, la := (0, false, 1), lb := (0, true, 1), aoF := 1, aoS := 0 }

theorem sites_branch0 : sites.filter (fun st => st.branch == 0) = [siteSame0, siteFZ0] := by decide +kernel

/-- **one colour inside one cell**: every unordered pair of free particles exactly in list order (earlier particle first), every
free-frozen combination with the free particle first, and nothing else -/
theorem branch0_iff (s : St) (cp : CpCfg) (f g c1 c2 : Nat) (fc sc : CellGeom) (aF aS : Bool) (dist : V3 Rat) (q : PairRec) :
    q ∈ branchPairs s cp f g c1 c2 fc sc aF aS dist 0 ↔
      (∃ p1 p2, [p1, p2].Sublist (freeRefs s f c1) ∧ q ∈ addPair cp false 0 fc fc p1 p2 true true dist) ∨
      (∃ p1 ∈ freeRefs s f c1, ∃ p2 ∈ frozenRefs s f c1, q ∈ addPair cp true 0 fc fc p1 p2 true false dist) := by
  unfold branchPairs
  rw [sites_branch0]
  simp only [List.flatMap_cons, List.flatMap_nil, List.append_nil, List.mem_append]
  have hA : evalSite s cp f g c1 c2 fc sc aF aS dist siteSame0 = forSame cp false 0 fc dist (freeRefs s f c1) := by
    simp [evalSite, siteSame0, siteRefs]
  have hB : evalSite s cp f g c1 c2 fc sc aF aS dist siteFZ0
      = forDifferent cp true 0 fc fc (freeRefs s f c1) (frozenRefs s f c1) true false dist := by
    simp [evalSite, siteFZ0, siteRefs, evalAo]
  rw [hA, hB, mem_forSame, mem_forDifferent]

end Sympler.PairSearch
