import Sympler.GeomLemmas
/-!
# C13 — results do not depend on particle numbering or on the periodic box origin

Geometric core, over the configuration model of `Sympler.Geom` (the model of `Props/C01.lean`).  All numbers are exact
rationals, so "up to floating-point summation noise" sharpens to *equality of the pair sets*: every force and every
pair-summed quantity is a sum over the pair list of terms that depend on the pair only through the partners' data and the
delivered separation vector, hence a function of the pair SET (exact sums do not depend on the order).

* `C13_mi_periodic`, `C13_sep_shift`, `C13_sepV_shift` — the minimum-image separation of two particles does not change when
  both are displaced by a common vector and each is wrapped back into the box by ANY integer multiple of the box length
  (faces, edges, corners; several box lengths): fully periodic directions only.
* `C13_shift_brute` — the reference pair list of the shifted configuration IS the reference list (same entries, same vectors).
* `C13_shift` — the linked-cell pair list of the shifted configuration (every particle re-registered in whatever cell contains
  it now, any link list satisfying `LinkSetOK`) equals the original one up to order and orientation of the entries.
* `C13_perm_brute`, `C13_perm` — the same for any reordering of the particle list (input-file order, store slots, cell lists).
Core Lean only.
-/
open Sympler.Geom

namespace Sympler.C13

/-- the minimum image is periodic: adding any integer multiple of the period changes nothing -/
theorem C13_mi_periodic {L : Rat} (hL : 0 < L) (t : Rat) (n : Int) : mi L (t + (n : Rat) * L) = mi L t := by
  have ⟨m1, m2⟩ := mi_mem hL t
  have e := mi_eq L t
  have h := mi_unique hL (t := t + (n : Rat) * L) (k := (t / L + 1 / 2).floor + n)
    (by rw [Rat.intCast_add]; rw [e] at m1; grind) (by rw [Rat.intCast_add]; rw [e] at m2; grind)
  rw [← h, Rat.intCast_add, e]; grind

/-- one periodic axis: common displacement `a`, each particle wrapped by its own number of box lengths -/
theorem C13_sep_shift {ax : Axis} (h : ax.OK) (hper : ax.per = true) (x y a : Rat) (k1 k2 : Int) :
    ax.sep (x + a - (k1 : Rat) * ax.L) (y + a - (k2 : Rat) * ax.L) = ax.sep x y := by
  unfold Axis.sep
  rw [if_pos hper, if_pos hper]
  have e : x + a - (k1 : Rat) * ax.L - (y + a - (k2 : Rat) * ax.L) = (x - y) + ((k2 - k1 : Int) : Rat) * ax.L := by
    rw [Rat.intCast_sub]; grind
  rw [e, C13_mi_periodic h.L_facts.1]

/-- a non-periodic axis admits no wrap; the plain difference is translation invariant -/
theorem C13_sep_shift_wall {ax : Axis} (hper : ax.per = false) (x y a : Rat) :
    ax.sep (x + a) (y + a) = ax.sep x y := by
  unfold Axis.sep
  rw [if_neg (by simp [hper]), if_neg (by simp [hper])]; grind

/-- displacement of a position by `a` followed by the wrap `k` (numbers of box lengths per direction) -/
def shiftR (g : Grid) (a : V3 Rat) (k : V3 Int) (r : V3 Rat) : V3 Rat :=
  ⟨r.x + a.x - (k.x : Rat) * g.x.L, r.y + a.y - (k.y : Rat) * g.y.L, r.z + a.z - (k.z : Rat) * g.z.L⟩

def FullyPeriodic (g : Grid) : Prop := g.x.per = true ∧ g.y.per = true ∧ g.z.per = true

instance (g : Grid) : Decidable (FullyPeriodic g) := by unfold FullyPeriodic; infer_instance

theorem C13_sepV_shift {g : Grid} (hg : g.OK) (hp : FullyPeriodic g) (a : V3 Rat) (k1 k2 : V3 Int) (r1 r2 : V3 Rat) :
    g.sepV (shiftR g a k1 r1) (shiftR g a k2 r2) = g.sepV r1 r2 := by
  unfold Grid.sepV shiftR
  simp only [C13_sep_shift hg.1 hp.1, C13_sep_shift hg.2.1 hp.2.1, C13_sep_shift hg.2.2 hp.2.2]

/-- the shifted particle: new position, re-registered in the cell `c` (whatever it is) -/
def shiftP (g : Grid) (a : V3 Rat) (k : Particle → V3 Int) (c : Particle → V3 Int) (p : Particle) : Particle :=
  { p with r := shiftR g a (k p) p.r, cell := c p }

def shiftCfg (cfg : Config) (a : V3 Rat) (k c : Particle → V3 Int) : Config :=
  { cfg with parts := cfg.parts.map (shiftP cfg.grid a k c) }

theorem bruteF_shift {g : Grid} (hg : g.OK) (hp : FullyPeriodic g) (a : V3 Rat) (k c : Particle → V3 Int) (rc2 : Rat)
    (p q : Particle) : bruteF g rc2 (shiftP g a k c p) (shiftP g a k c q) = bruteF g rc2 p q := by
  unfold bruteF mkPair shiftP
  simp only [C13_sepV_shift hg hp]

theorem filterMap_congr' {α β} {f g : α → Option β} : ∀ {l : List α}, (∀ x ∈ l, f x = g x) → l.filterMap f = l.filterMap g
  | [], _ => rfl
  | x :: xs, h => by
    have hx := h x (by simp)
    have ih := filterMap_congr' (l := xs) (fun y hy => h y (by simp [hy]))
    simp only [List.filterMap_cons, hx, ih]

theorem flatMap_congr' {α β} {f g : α → List β} : ∀ {l : List α}, (∀ x ∈ l, f x = g x) → l.flatMap f = l.flatMap g
  | [], _ => rfl
  | x :: xs, h => by
    have hx := h x (by simp)
    have ih := flatMap_congr' (l := xs) (fun y hy => h y (by simp [hy]))
    simp only [List.flatMap_cons, hx, ih]

theorem forSame_map (f : Particle → Particle → Option Pair) (s : Particle → Particle)
    (h : ∀ p q, f (s p) (s q) = f p q) : ∀ l : List Particle, forSame f (l.map s) = forSame f l
  | [] => rfl
  | p :: ps => by
    simp only [List.map_cons, forSame, forSame_map f s h ps, List.filterMap_map]
    congr 1
    exact filterMap_congr' (fun q _ => h p q)

theorem forDifferent_map (f : Particle → Particle → Option Pair) (s : Particle → Particle)
    (h : ∀ p q, f (s p) (s q) = f p q) (l1 l2 : List Particle) :
    forDifferent f (l1.map s) (l2.map s) = forDifferent f l1 l2 := by
  unfold forDifferent
  rw [List.flatMap_map]
  refine flatMap_congr' (fun p _ => ?_)
  rw [List.filterMap_map]
  exact filterMap_congr' (fun q _ => h p q)

theorem filter_colour_map (g : Grid) (a : V3 Rat) (k c : Particle → V3 Int) (col : Nat) (l : List Particle) :
    (l.map (shiftP g a k c)).filter (fun p => p.colour = col) = (l.filter (fun p => p.colour = col)).map (shiftP g a k c) := by
  rw [List.filter_map]
  rfl

/-- **shift, reference list**: in a fully periodic box the reference pair list (ids, minimum-image vectors, flags) of the
configuration displaced by ANY common vector, each particle wrapped back by any number of box lengths, is the same list. -/
theorem C13_shift_brute {cfg : Config} (hg : cfg.grid.OK) (hp : FullyPeriodic cfg.grid) (a : V3 Rat)
    (k c : Particle → V3 Int) (col1 col2 : Nat) :
    brute (shiftCfg cfg a k c) col1 col2 = brute cfg col1 col2 := by
  unfold brute bruteRc shiftCfg
  simp only [filter_colour_map]
  split
  · exact forSame_map _ _ (bruteF_shift hg hp a k c _) _
  · exact forDifferent_map _ _ (bruteF_shift hg hp a k c _) _ _

theorem idsNodup_shift {cfg : Config} (hid : IdsNodup cfg) (a : V3 Rat) (k c : Particle → V3 Int) :
    IdsNodup (shiftCfg cfg a k c) := by
  unfold IdsNodup shiftCfg
  rw [List.pairwise_map]
  exact hid

/-- **shift, linked-cell list**: fully periodic box, every shifted particle registered in the cell that contains it
(`Registered … 0`; supplied by C09 for the code), any admissible link list for each run: the pair list of the shifted
system equals that of the original system up to the order of the entries and the orientation of each entry.  Particles
may have crossed any number of cell and box faces. -/
theorem C13_shift {cfg : Config} (hg : cfg.grid.OK) (hp : FullyPeriodic cfg.grid) (hid : IdsNodup cfg)
    (hreg : Registered cfg 0) (a : V3 Rat) (k c : Particle → V3 Int)
    (hreg' : Registered (shiftCfg cfg a k c) 0) {col1 col2 : Nat} (hc : CutOK cfg.grid (cfg.cut col1 col2))
    {links links' : List Link} (hl : LinkSetOK cfg.grid links) (hl' : LinkSetOK cfg.grid links') :
    ((cellPairs (shiftCfg cfg a k c) links' col1 col2).map Pair.canon).Perm
      ((cellPairs cfg links col1 col2).map Pair.canon) := by
  have h1 := cellPairs_perm_brute (cfg := shiftCfg cfg a k c) hg (idsNodup_shift hid a k c) hreg' (a := col1) (b := col2) hc hl'
  have h2 := cellPairs_perm_brute hg hid hreg hc hl
  rw [C13_shift_brute hg hp] at h1
  exact h1.trans h2.symm

/-! ## renumbering -/

theorem idsNodup_perm {cfg cfg' : Config} (hid : IdsNodup cfg) (hperm : cfg'.parts.Perm cfg.parts) : IdsNodup cfg' := by
  unfold IdsNodup at *
  exact (hperm.pairwise_iff (fun {a b} h => fun e => h e.symm)).2 hid

theorem inBrute_perm {cfg cfg' : Config} (hgrid : cfg'.grid = cfg.grid) (hperm : cfg'.parts.Perm cfg.parts)
    {rc : Rat} {a b : Nat} {p q : Particle} (h : InBrute cfg' rc a b p q) : InBrute cfg rc a b p q := by
  obtain ⟨hp, hq, hne, ca, cb, hfr, n⟩ := h
  exact ⟨hperm.subset hp, hperm.subset hq, hne, ca, cb, hfr, by rw [← hgrid]; exact n⟩

/-- **renumbering, reference list**: for any reordering of the particle list the reference pair lists agree up to the order
of the entries and the orientation of each entry (for equal colours the first partner is the earlier one in the list). -/
theorem C13_perm_brute {cfg cfg' : Config} (hg : cfg.grid.OK) (hid : IdsNodup cfg) (hgrid : cfg'.grid = cfg.grid)
    (hcut : cfg'.cut = cfg.cut) (hperm : cfg'.parts.Perm cfg.parts) {a b : Nat} (hc : CutOK cfg.grid (cfg.cut a b)) :
    ((brute cfg' a b).map Pair.canon).Perm ((brute cfg a b).map Pair.canon) := by
  have hid' := idsNodup_perm hid hperm
  have hg' : cfg'.grid.OK := by rw [hgrid]; exact hg
  have hc' : CutOK cfg'.grid (cfg'.cut a b) := by rw [hgrid, hcut]; exact hc
  refine (List.perm_ext_iff_of_nodup (nodup_map_canon (bruteRc_pairwise hid' _ a b))
    (nodup_map_canon (bruteRc_pairwise hid _ a b))).2 (fun x => ⟨?_, ?_⟩)
  · intro hx
    obtain ⟨e, he, rfl⟩ := List.mem_map.1 hx
    obtain ⟨p, q, hb, rfl⟩ := bruteRc_sound hid' he
    have hb2 : InBrute cfg (cfg.cut a b) a b p q := by
      have := inBrute_perm hgrid hperm hb
      rw [hcut] at this; exact this
    rw [hgrid]
    rcases bruteRc_complete hg hb2 with h | ⟨_, h⟩
    · exact List.mem_map.2 ⟨_, h, rfl⟩
    · exact List.mem_map.2 ⟨_, h, canon_mkPair_swap hg hc hb2.2.2.1 hb2.2.2.2.2.2.2⟩
  · intro hx
    obtain ⟨e, he, rfl⟩ := List.mem_map.1 hx
    obtain ⟨p, q, hb, rfl⟩ := bruteRc_sound hid he
    have hb2 : InBrute cfg' (cfg'.cut a b) a b p q := by
      have := inBrute_perm hgrid.symm hperm.symm (cfg := cfg') (cfg' := cfg) hb
      rw [hcut]; exact this
    rw [← hgrid]
    rcases bruteRc_complete hg' hb2 with h | ⟨_, h⟩
    · exact List.mem_map.2 ⟨_, h, rfl⟩
    · exact List.mem_map.2 ⟨_, h, canon_mkPair_swap hg' hc' hb2.2.2.1 hb2.2.2.2.2.2.2⟩

/-- **renumbering, linked-cell list**: reordering the particles (file order, slots, order inside the cell lists) changes the
pair list handed to forces and pair symbols only by the order of its entries and the orientation of each entry; the
separation vector of each physical pair is the same (negated when the orientation flips). -/
theorem C13_perm {cfg cfg' : Config} (hg : cfg.grid.OK) (hid : IdsNodup cfg) (hreg : Registered cfg 0)
    (hgrid : cfg'.grid = cfg.grid) (hcut : cfg'.cut = cfg.cut) (hperm : cfg'.parts.Perm cfg.parts)
    {a b : Nat} (hc : CutOK cfg.grid (cfg.cut a b)) {links links' : List Link}
    (hl : LinkSetOK cfg.grid links) (hl' : LinkSetOK cfg.grid links') :
    ((cellPairs cfg' links' a b).map Pair.canon).Perm ((cellPairs cfg links a b).map Pair.canon) := by
  have hreg' : Registered cfg' 0 := by
    intro p hp
    rw [hgrid]
    exact hreg p (hperm.subset hp)
  have h1 := cellPairs_perm_brute (cfg := cfg') (by rw [hgrid]; exact hg) (idsNodup_perm hid hperm) hreg'
    (a := a) (b := b) (by rw [hgrid, hcut]; exact hc) (by rw [hgrid]; exact hl')
  have h2 := cellPairs_perm_brute hg hid hreg hc hl
  exact (h1.trans (C13_perm_brute hg hid hgrid hcut hperm hc)).trans h2.symm

/-! ## non-vacuity: a fully periodic 2×3×2 box, two species, one frozen particle, a shift that carries particles through box
faces (different wrap numbers per particle) and a reordering of the particle list -/
namespace Example

def grid : Grid := ⟨⟨1, 2, true⟩, ⟨1, 3, true⟩, ⟨3/2, 2, true⟩⟩

def cfg : Config :=
  { grid := grid
    parts := [⟨0, 0, false, ⟨1/10, 1/2, 1/2⟩, ⟨0, 0, 0⟩⟩, ⟨1, 0, false, ⟨19/10, 1/2, 1/2⟩, ⟨1, 0, 0⟩⟩,
              ⟨2, 1, true, ⟨1/10, 6/5, 1/2⟩, ⟨0, 1, 0⟩⟩, ⟨3, 1, false, ⟨3/10, 29/10, 1/2⟩, ⟨0, 2, 0⟩⟩]
    cut := fun _ _ => 4/5 }

/-- common displacement -/
def a : V3 Rat := ⟨3/2, 5/2, 11/4⟩
/-- box lengths each particle is wrapped back by (they differ from particle to particle) -/
def k (p : Particle) : V3 Int := match p.id with
  | 0 => ⟨0, 1, 1⟩ | 1 => ⟨1, 1, 1⟩ | 2 => ⟨0, 1, 1⟩ | _ => ⟨0, 1, 1⟩
/-- the cell that contains the shifted particle -/
def c (p : Particle) : V3 Int := grid.cellOf (shiftR grid a (k p) p.r)

example : cfg.grid.OK ∧ FullyPeriodic cfg.grid ∧ IdsNodup cfg ∧ CutOK cfg.grid (cfg.cut 0 1) := by
  refine ⟨by decide +kernel, by decide +kernel, by decide +kernel, by decide +kernel⟩

example : Registered cfg 0 := by
  apply registered_of_cellOf (by decide +kernel)
  decide +kernel

example : Registered (shiftCfg cfg a k c) 0 := by
  apply registered_of_cellOf (by decide +kernel)
  decide +kernel

/-- the shifted positions really lie in other cells / across box faces, the lists are non-empty and equal as sets -/
example : (shiftCfg cfg a k c).parts.map (·.r) = [⟨8/5, 0, 1/4⟩, ⟨7/5, 0, 1/4⟩, ⟨8/5, 7/10, 1/4⟩, ⟨9/5, 12/5, 1/4⟩] ∧
    (shiftCfg cfg a k c).parts.map (·.cell) = [⟨1, 0, 0⟩, ⟨1, 0, 0⟩, ⟨1, 0, 0⟩, ⟨1, 2, 0⟩] ∧
    brute cfg 0 1 = [⟨0, 2, ⟨0, -7/10, 0⟩, true, false⟩, ⟨0, 3, ⟨-1/5, 3/5, 0⟩, true, true⟩, ⟨1, 2, ⟨-1/5, -7/10, 0⟩, true, false⟩,
                     ⟨1, 3, ⟨-2/5, 3/5, 0⟩, true, true⟩] ∧
    brute (shiftCfg cfg a k c) 0 1 = brute cfg 0 1 ∧
    ((cellPairs (shiftCfg cfg a k c) grid.allLinks 0 1).map Pair.canon).Perm ((cellPairs cfg grid.allLinks 0 1).map Pair.canon) := by
  decide +kernel

/-- a reordered particle list (and the orientation of the same-colour pair flips in the reference list) -/
def cfgR : Config :=
  { cfg with parts := [⟨3, 1, false, ⟨3/10, 29/10, 1/2⟩, ⟨0, 2, 0⟩⟩, ⟨1, 0, false, ⟨19/10, 1/2, 1/2⟩, ⟨1, 0, 0⟩⟩,
                       ⟨0, 0, false, ⟨1/10, 1/2, 1/2⟩, ⟨0, 0, 0⟩⟩, ⟨2, 1, true, ⟨1/10, 6/5, 1/2⟩, ⟨0, 1, 0⟩⟩] }

example : cfgR.parts.Perm cfg.parts ∧ brute cfgR 0 0 = [⟨1, 0, ⟨-1/5, 0, 0⟩, true, true⟩] ∧
    brute cfg 0 0 = [⟨0, 1, ⟨1/5, 0, 0⟩, true, true⟩] ∧
    ((cellPairs cfgR grid.allLinks 0 0).map Pair.canon).Perm ((cellPairs cfg grid.allLinks 0 0).map Pair.canon) := by
  decide +kernel

end Example

end Sympler.C13
