import Sympler.Entropy
/-!
# C12 — without `randomize`, a simulation is exactly reproducible: the seed/entropy logic

PARTIAL (see DESIGN.md): the theorems cover the decision logic over the table of ALL entropy sites of the source
(regenerated on every run).  Use of uninitialised memory and iteration order of pointer-keyed containers are run-time
behaviours; they are reached only by the two-process comparison of the check.
-/
namespace Sympler.Entropy
open Sympler.Gen.Entropy

/-- every entropy site of the source is non-semantic, guarded by `randomize = true`, or made deterministic -/
theorem C12_sites : ∀ s ∈ sites, siteOk sites s = true := by decide

/-- with `randomize = false` no seed depends on the environment (process id, clock) -/
theorem C12_seed_const : ∀ s ∈ sites, ∀ env env' : Env, seedOf sites false env s = seedOf sites false env' s := by
  have h : ∀ s ∈ sites, (s.kind == "pid-seed" → s.guard == "randomize") ∧
      (s.kind == "time-seed" → (s.guard == "randomize" ∨ (s.func == "main" ∧ randReseeded sites = true))) := by decide
  intro s hs env env'
  obtain ⟨h1, h2⟩ := h s hs
  unfold seedOf
  by_cases hp : s.kind == "pid-seed"
  · have := h1 hp
    simp [hp, this]
  · by_cases ht : s.kind == "time-seed"
    · rcases h2 ht with hg | ⟨hm, hr⟩
      · simp [hp, ht, hg]
      · by_cases hg : s.guard == "randomize"
        · simp [hp, ht, hg]
        · simp_all
    · simp [hp, ht]

/-- the table is not empty and contains the seeds of the simulation-wide generator and of `rand()` (non-vacuity) -/
example : (sites.any fun s => s.kind == "pid-seed" && s.func == "Simulation::setup") = true ∧
    (sites.any fun s => s.kind == "time-seed" && s.func == "main") = true ∧ randReseeded sites = true := by decide

/-- sensitivity: without the re-seed in `Simulation::setup` the clock seed of `rand()` in `main` is not acceptable -/
example : siteOk (sites.filter fun s => s.kind != "const-srand") ⟨"src/main.cpp", "main", "time-seed", "none"⟩ = false := by decide

end Sympler.Entropy
