import Sympler.Bonds
/-!
# C19 — bonded interactions act on exactly the listed bonds, with the current minimum-image separation

The per-component treatment is the GENERATED `Sympler.Gen.Bonds.bondWrapUpdate / bondWrapInit / bondWrapInitWrite`
(from colour_pair.cpp).  Dropping the periodicity guard again (the defect repaired by commit 976f114) makes
`C19_current_nonperiodic` fail.
-/
namespace Sympler.Bonds
open Sympler.Gen.Bonds

/-- the shape all three generated functions must have in a periodic direction -/
private theorem wrap_cases (L c : Rat) (w : Rat)
    (hw : w = (let c1 := if c > (((1 : Rat) / 2) * L) then c - L else c
               let c2 := if c1 < (-(((1 : Rat) / 2) * L)) then c1 + L else c1
               c2))
    (hL : 0 < L) (_h1 : -L < c) (_h2 : c < L) :
    (c > (1/2 : Rat) * L ∧ w = c - L) ∨ (c < -((1/2 : Rat) * L) ∧ w = c + L) ∨
      (¬ c > (1/2 : Rat) * L ∧ ¬ c < -((1/2 : Rat) * L) ∧ w = c) := by
  subst hw
  by_cases ha : c > (1/2 : Rat) * L
  · left
    have : ¬ (c - L < -((1/2 : Rat) * L)) := by grind
    simp [ha, this]
  · by_cases hb : c < -((1/2 : Rat) * L)
    · right; left; simp [ha, hb]
    · right; right; simp [ha, hb]

private theorem minimage_of_cases (L c w : Rat) (hL : 0 < L) (h1 : -L < c) (h2 : c < L)
    (key : (c > (1/2 : Rat) * L ∧ w = c - L) ∨ (c < -((1/2 : Rat) * L) ∧ w = c + L) ∨
      (¬ c > (1/2 : Rat) * L ∧ ¬ c < -((1/2 : Rat) * L) ∧ w = c)) :
    (∃ k : Int, (k = -1 ∨ k = 0 ∨ k = 1) ∧ w = c + k * L) ∧ (-(L / 2) ≤ w ∧ w ≤ L / 2) ∧
    (∀ n : Int, n ≠ 0 → L / 2 ≤ w + n * L ∨ w + n * L ≤ -(L / 2)) := by
  have hrange : -(L / 2) ≤ w ∧ w ≤ L / 2 := by grind
  refine ⟨?_, hrange, ?_⟩
  · rcases key with ⟨_, h⟩ | ⟨_, h⟩ | ⟨_, _, h⟩
    · exact ⟨-1, Or.inl rfl, by rw [h]; grind⟩
    · exact ⟨1, Or.inr (Or.inr rfl), by rw [h]; grind⟩
    · exact ⟨0, Or.inr (Or.inl rfl), by rw [h]; grind⟩
  · intro n hn
    rcases Int.lt_or_gt_of_ne hn with hneg | hpos
    · right
      have hn1 : (n : Rat) ≤ -1 := by
        have h : n ≤ -1 := by omega
        simpa using Rat.intCast_le_intCast.mpr h
      have : (n : Rat) * L ≤ (-1) * L := Rat.mul_le_mul_of_nonneg_right hn1 (Rat.le_of_lt hL)
      grind
    · left
      have hn1 : (1 : Rat) ≤ (n : Rat) := by
        have h : 1 ≤ n := by omega
        simpa using Rat.intCast_le_intCast.mpr h
      have : 1 * L ≤ (n : Rat) * L := Rat.mul_le_mul_of_nonneg_right hn1 (Rat.le_of_lt hL)
      grind

/-- **current separation, periodic direction**: for two positions in `[0, L)` (difference in `(-L, L)`), the refreshed
component is `c + k L` with `k ∈ {-1,0,1}`, lies in `[-L/2, L/2]` and no other image is nearer: the minimum image. -/
theorem C19_current_periodic (L c : Rat) (hL : 0 < L) (h1 : -L < c) (h2 : c < L) :
    (∃ k : Int, (k = -1 ∨ k = 0 ∨ k = 1) ∧ bondWrapUpdate true L c = c + k * L) ∧
    (-(L / 2) ≤ bondWrapUpdate true L c ∧ bondWrapUpdate true L c ≤ L / 2) ∧
    (∀ n : Int, n ≠ 0 → L / 2 ≤ bondWrapUpdate true L c + n * L ∨ bondWrapUpdate true L c + n * L ≤ -(L / 2)) :=
  minimage_of_cases L c _ hL h1 h2 (wrap_cases L c _ (by simp [bondWrapUpdate]) hL h1 h2)

/-- **current separation, non-periodic direction**: the plain difference, however long the bond is
(no wrap through a wall) — for the refresh and for both creation paths. -/
theorem C19_current_nonperiodic (L c : Rat) :
    bondWrapUpdate false L c = c ∧ bondWrapInit false L c = c ∧ bondWrapInitWrite false L c = c := by
  simp [bondWrapUpdate, bondWrapInit, bondWrapInitWrite]

/-- creation and refresh treat a component identically (the initial vector is the one the first refresh would give) -/
theorem C19_init_eq_update (p : Bool) (L c : Rat) :
    bondWrapInit p L c = bondWrapUpdate p L c ∧ bondWrapInitWrite p L c = bondWrapUpdate p L c := by
  cases p <;> simp [bondWrapUpdate, bondWrapInit, bondWrapInitWrite]

/-- **exactly the listed bonds, once**: one pass evaluates the pair factor on the bonds of the list, in list order,
each as often as it is listed (a duplicate-free list ⇒ exactly once) and on no other pair -/
theorem C19_once (b : Box) (pos : Nat → V3) (bonds : List Bond) :
    evaluations (refreshList b pos bonds) = bonds ∧ (bonds.Nodup → (evaluations (refreshList b pos bonds)).Nodup) := by
  have h : evaluations (refreshList b pos bonds) = bonds := by
    simp [evaluations, refreshList, List.map_map, Function.comp_def]
  exact ⟨h, fun hn => by rw [h]; exact hn⟩

/-- **current positions**: the vector used for a bond is a function of the CURRENT positions of its two particles and of the
box only: two position maps that agree on the two partners give the same vector (no memory of the previous step, no
dependence on other particles, the cutoff, the cell grid or the pair creator: none of them is an argument) -/
theorem C19_independent (b : Box) (pos pos' : Nat → V3) (bonds : List Bond)
    (h : ∀ bd ∈ bonds, pos bd.first = pos' bd.first ∧ pos bd.second = pos' bd.second) :
    refreshList b pos bonds = refreshList b pos' bonds := by
  simp only [refreshList]
  apply List.map_congr_left
  intro bd hbd
  obtain ⟨h1, h2⟩ := h bd hbd
  simp [h1, h2]

/-- non-vacuity / regression: walled x direction of length 10, particles at x = 1 and x = 9: separation −8 (the old code gave 2);
    periodic y direction of length 8: 1/2 and 15/2 are neighbours across the face: separation 1 -/
example : refreshVec ⟨(10, 8, 8), (false, true, true)⟩ (1, 1/2, 4) (9, 15/2, 4) = (-8, 1, 0) := by decide +kernel

end Sympler.Bonds
