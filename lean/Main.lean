import Sympler

/-! Line-protocol driver `symdrv`: first stdin line `model <name>`, rest goes to the model's driver. -/

partial def readAll (h : IO.FS.Stream) (acc : Array String) : IO (Array String) := do
  let line ← h.getLine
  if line.isEmpty then return acc
  readAll h (acc.push (line.dropRightWhile (· == '\n')))

def dispatch (name : String) (lines : List String) : Option (List String) :=
  match name with
  | "funccompile" => some (Sympler.FuncCompile.driver lines)
  | "smartlist" => some (Sympler.SmartList.driver lines)
  | "verlet" => some (Sympler.Verlet.driver lines)
  | "stages" => some (Sympler.Stages.driver lines)
  | _ => none

def main : IO UInt32 := do
  let all ← readAll (← IO.getStdin) #[]
  match all.toList with
  | [] => IO.eprintln "symdrv: empty input"; return 2
  | hd :: rest =>
    match Sympler.words hd with
    | ["model", name] =>
      match dispatch name rest with
      | some out =>
        for l in out do IO.println l
        return 0
      | none => IO.eprintln s!"symdrv: unknown model {name}"; return 2
    | _ => IO.eprintln "symdrv: first line must be `model <name>`"; return 2
