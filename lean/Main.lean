import Sympler.FuncCompile
import Sympler.SmartList
import Sympler.Verlet
import Sympler.KernelsDrv
import Sympler.HitTimeDrv
import Sympler.IntegLambda
import Sympler.DataFormatDriver
import Sympler.Bonds
import Sympler.Validate
import Sympler.Stages
import Sympler.DynDriver
import Sympler.PairSearch
import Sympler.Collide
import Sympler.Restart
import Sympler.Threads
import Sympler.Expr

/-! Imports: model and driver modules ONLY (no lemma files), so that a proof broken by a regenerated table of one property
    never keeps the driver of another property from building.

Line-protocol driver `symdrv`: first stdin line `model <name>`, rest goes to the model's driver. -/

partial def readAll (h : IO.FS.Stream) (acc : Array String) : IO (Array String) := do
  let line ← h.getLine
  if line.isEmpty then return acc
  readAll h (acc.push (line.dropRightWhile (· == '\n')))

def dispatch (name : String) (lines : List String) : Option (List String) :=
  match name with
  | "funccompile" => some (Sympler.FuncCompile.driver lines)
  | "smartlist" => some (Sympler.SmartList.driver lines)
  | "verlet" => some (Sympler.Verlet.driver lines)
  | "kernels" => some (Sympler.KernelsDrv.driver lines)
  | "hittime" => some (Sympler.HitTimeDrv.driver lines)
  | "integlambda" => some (Sympler.IntegLambda.driver lines)
  | "dataformat" => some (Sympler.DataFormat.driver lines)
  | "bonds" => some (Sympler.Bonds.driver lines)
  | "validate" => some (Sympler.Validate.driver lines)
  | "stages" => some (Sympler.Stages.driver lines)
  | "dyn" => some (Sympler.Dyn.driver lines)
  | "grid" => some (Sympler.PairSearch.driver lines)
  | "collide" => some (Sympler.Collide.driver lines)
  | "restart" => some (Sympler.Restart.driver lines)
  | "threads" => some (Sympler.Threads.driver lines)
  | "expr" => some (Sympler.Expr.driver lines)
  | _ => none

def main : IO UInt32 := do
  let all ← readAll (← IO.getStdin) #[]
  match all.toList with
  | [] => IO.eprintln "symdrv: empty input"; return 2
  | hd :: rest =>
    match Sympler.words hd with
    | ["model", name] =>
      match dispatch name [] with
      | none => IO.eprintln s!"symdrv: unknown model {name}"; return 2
      | some _ =>
        if rest.any (·.startsWith "###") then
          -- multi-case input: every case starts with a `###` line
          let mut cur : Array String := #[]
          let mut started := false
          for l in rest do
            if l.startsWith "###" then
              if started then
                for o in (dispatch name cur.toList).getD [] do IO.println o
              IO.println l
              cur := #[]
              started := true
            else
              cur := cur.push l
          if started then
            for o in (dispatch name cur.toList).getD [] do IO.println o
          return 0
        else
          for l in (dispatch name rest).getD [] do IO.println l
          return 0
    | _ => IO.eprintln "symdrv: first line must be `model <name>`"; return 2
