import Props.C01
import Props.C02
import Props.C06
import Props.C11
import Props.C12
import Props.C14
import Props.C15
import Props.C19
