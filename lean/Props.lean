import Props.C06
import Props.C11
