import Sympler.Basic
