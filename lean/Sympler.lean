import Sympler.Basic
import Sympler.Gen.FuncCompileGen
import Sympler.FuncCompile
import Sympler.FuncCompileLemmas
import Sympler.Stages
import Sympler.StagesLemmas
