#!/bin/bash
# runs every claimed check (tier $1, default quick) on the current tree, one after the other; prints one line per check
cd /verif
T="${1:-quick}"
if [ -n "$(git -C /repo status --porcelain --untracked-files=no)" ]; then echo "run_all: /repo has uncommitted changes" >&2; exit 2; fi
for p in $(python3 -c "import json; print(' '.join(c['property_id'] for c in json.load(open('MANIFEST.json'))['checks']))"); do
  s=$(date +%s); out=$(./check $p $T 2>/dev/null | grep "^VIOLATION\|^OK\|^KNOWN" | cut -c1-160 | tr '\n' '|'); echo "$p $(( $(date +%s) - s ))s $out"
done
python3-vt tools/validate.py
