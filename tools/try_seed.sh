#!/bin/bash
# usage: try_seed.sh <seeded/dir> <Cxx> [tier]  — confirm the seeded change, then run the check on the patched /repo (reverted afterwards)
D="$1"; P="$2"; T="${3:-quick}"
cd /verif
tools/confirm_seed.sh "$D" 2>&1 | grep -v "^$\|CMake\|VERSION\|policies\|Compatibility\|Update\|to work" > "$D/confirm.log"; tail -1 "$D/confirm.log"
tools/with_patch.sh "$D/patch.diff" ./check $P $T > "$D/check_on_patched.log" 2>&1; echo "check exit $?" >> "$D/check_on_patched.log"
grep "VIOLATION\|^OK\|check exit" "$D/check_on_patched.log"
