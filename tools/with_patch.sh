#!/bin/bash
# usage: with_patch.sh <patch.diff> <command...>   — applies the patch to /repo, runs the command, ALWAYS reverts.
P="$(readlink -f "$1")"; shift
cd /repo || exit 2
if [ -n "$(git status --porcelain --untracked-files=no)" ]; then echo "with_patch: /repo has uncommitted changes" >&2; exit 2; fi
# ALWAYS revert, and rebuild the hooked binary from the clean tree so that no later stand-alone run uses a patched build
trap 'git -C /repo checkout -- . ; git -C /repo clean -fdq -- source 2>/dev/null; cmake --build /verif/.work/build-hooks -j16 --target sympler >/dev/null 2>&1; [ -d /verif/.work/build-omp ] && cmake --build /verif/.work/build-omp -j16 --target sympler >/dev/null 2>&1' EXIT
git apply "$P" || { echo "with_patch: patch does not apply" >&2; exit 2; }
cd /verif
"$@"
