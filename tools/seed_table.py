#!/usr/bin/env python3
"""writes seeded/<id>/meta.json for every seeded change from the table below and prints the markdown table used in DESIGN.md"""
import json, os
HERE = os.path.dirname(os.path.dirname(os.path.abspath(__file__)))
SRC = "independent sub-agent given only the property text and a scratch worktree of /repo (nothing from /verif)"
CONF = "tools/confirm_seed.sh in a scratch worktree (/tmp/confirm-wt): clean tree builds, symplerTest prints OK (36), demo exits 0; patched tree builds, OK (36), demo exits non-zero"
T = [
 # dir, property, needs, first result, what was strengthened, final result
 ("C01-frozen-list-colour-typo", "C01", "two species with a cross-species pair module; frozen particles of the lower colour (or of the higher one) near free particles of the higher colour, partners in different cells, the frozen one in the link's second cell",
  "caught by the pair-list correspondence but no failing input (the brute-force oracle was skipped on states where model and code differ)", "sim/corr_grid.py applies the oracle to EVERY dumped state", "VIOLATION with a concrete scenario (C01; also C13's relabel check does not see it, C04/C10 flag oracle does)"),
 ("C02-scan-reset-per-species", "C02", "see README.md", "caught (previous round)", "multi-species scenarios, scan-state scope in the translator", "VIOLATION with a concrete scenario"),
 ("C03-negative-int-power-loop-bound", "C03", "compiled x^(-n) with a constant integer exponent <= -2", "caught as emitter mismatch but no failing input (the comparison stopped at the first differing C text)",
  "sim/diff_expr.py continues with the implementation-side checks (compiled vs interpreter, documented meaning) after an emitter mismatch", "VIOLATION with the expression as replay"),
 ("C04-frozen-free-same-cell-flags", "C04", "frozen species registered first, cross-species pair force, frozen and free partner in the same cell", "MISSED at the first quick budget (48 scenarios)",
  "quick budget 144 scenarios; acts-on-flag oracle on linked-cell runs added to C04 and C10", "VIOLATION with a concrete scenario (C04, C10, C01)"),
 ("C05-scalar-unprotect-wraparound", "C05", "IntegratorScalarLambda with lambda != 1/2, at least 2 steps", "caught without a failing input: persistence flags of the force accumulators differ from the model after the first step (correspondence)",
  "implementation-side oracle for IntegratorScalarLambda (constant rate, all lambdas) in vlib/c05.py", "VIOLATION with a concrete scenario"),
 ("C06-pc-stage-not-reset", "C06", "see README.md", "caught (previous round)", "-", "VIOLATION with a concrete scenario"),
 ("C07-allpairs-second-slot-first-colour", "C07", "allPairs=\"yes\", three species, different tag layouts of the second and third species", "MISSED (no allPairs scenarios)",
  "allPairs groups in sim/corr_dyn.py (generator, model driver `psumall`, grouped oracle)", "VIOLATION with a concrete scenario"),
 ("C08-hit-time-not-reset-per-pass", "C08", "two wall hits in one step with the second leg at least as long as the first", "caught", "-", "VIOLATION with a concrete scenario (+ correspondence)"),
 ("C09-deactivate-head-prev-pointer", "C09", "the two most recently activated cells both vacated in one update", "caught", "-", "VIOLATION with a concrete scenario"),
 ("C10-frozen-first-cell-link-flags", "C10", "frozen species of lower colour, cross-species pair module, partners in different cells", "caught", "-", "VIOLATION with a concrete scenario"),
 ("C11-fallback-name-ppid", "C11", "see README.md", "caught (previous round)", "stale-file scenarios", "VIOLATION with a schedule"),
 ("C12-reflector-rng-seed-swapped", "C12", "stochastic reflector, real walls, a wall hit, different pids", "caught (entropy-site table: guard polarity; two-process runs differ)", "-", "VIOLATION with a concrete scenario"),
 ("C13-maxcutoff-from-last-colour-pair", "C13", "two colour pairs with different cutoffs, the smaller registered last, pairs with a cell in between", "MISSED by C13 (sparse scenarios), caught by C01",
  "dense multi-cutoff family and more shift variants in sim/corr_relabel.py", "VIOLATION with a concrete scenario (C13 and C01)"),
 ("C14-vector-tensor-copy-case", "C14", "VECTOR_TENSOR attribute in a record that is copied or assigned", "caught without a failing input: the regenerated container table makes C14_gen_tables / heap lemmas fail and the run stopped there",
  "the model driver is built on its own before the proofs; the copy/assign/clear oracle families cover all four container types", "VIOLATION with a concrete op sequence"),
 ("C15-free-slot-back", "C15", "see README.md", "caught (previous round)", "-", "VIOLATION with an op sequence"),
 ("C16-lucy-weight-prefactor-exponent", "C16", "Lucy kernel, cutoff != 1, gradient weight used", "caught: regenerated definition breaks the HasDerivAt proof; sampled validation gives the input", "-", "VIOLATION with a concrete evaluation"),
 ("C17-atoi-19char-branch", "C17", "INT attribute, malformed value of exactly 19 characters", "MISSED", "19-character malformed INT mutants; translator t_validate + theorem C17_conversion_sites_strict (every conversion site strict)", "VIOLATION with a concrete input; the proof obligation breaks as well"),
 ("C18-stage0-cache-overwrite-test-inverted", "C18", "persistent quantity post-processed by a stage-0 Symbol with overwrite=yes", "MISSED", "overwriting identity Symbols (stage 0/1/2) on persistent scalars in sim/corr_restart.py", "VIOLATION with a concrete system"),
 ("C19-bonded-maxstage-vs-nonbonded", "C19", "bonded symbol of stage >= 1 and a non-bonded symbol chain of at least that depth on the same species pair", "MISSED", "staged bonded and non-bonded symbol chains with a brute-force oracle in sim/corr_bonds.py", "VIOLATION with a concrete scenario"),
 ("C01b-deactivate-link-next-and-prev", "C01", "the head link of the active-link list and the link that becomes the new head both deactivated in the same step", "caught (round 2)", "-", "VIOLATION with a concrete scenario; t_celllists also rejects the changed condition"),
 ("C02b-frozen-pairs-not-cleared-on-rebuild", "C02", "Verlet creator, frozen particles near free ones, a second list rebuild", "MISSED (no frozen particles in the Verlet scenarios)",
  "frozen particles in sim/corr_verlet.py (generator, exactly-once oracle over free/frozen pairs)", "VIOLATION with a concrete scenario"),
 ("C04b-peters-thermostat-second-guard", "C04", "ThermostatPetersIso with frozen partners", "would be missed: thermostats are outside the exact model",
  "translate/t_pairguards.py + theorem C04_guards_table over EVERY write to a pair partner in the tree; sim/oracle_pairmods.py (FDPD, LJ, ThermostatPetersIso: frozen untouched, momentum)", "VIOLATION with a concrete scenario; the guard-table theorem breaks as well"),
 ("C05b-random-frozen-pairs-wrong-buffer", "C05", "<Phase randomPairs=yes>, frozen partners, a pair force", "MISSED (randomPairs never generated)",
  "randomPairs in a third of the dyn scenarios (this exposed a genuine defect, fixed in 04b1d30); lambda oracle applied more often", "VIOLATION with a concrete scenario"),
 ("C06b-second-factor-symbols-not-reported", "C06", "a pair sum reading a derived symbol only through particleFactor_j", "MISSED",
  "one-sided-factor symbol chains in the dyn generator; C06 also compares required vs assigned stages on multi-species dyn runs and runs the pair-sum oracle when stages differ", "VIOLATION with a concrete scenario"),
 ("C07b-vector-second-guard-actsOnFirst", "C07", "PairParticleVector, frozen partners, frozen species registered first", "caught (round 2)", "-", "VIOLATION with a concrete scenario; Bridge_pair_guards breaks as well"),
 ("C09b-leave-offset-upper-face-strict", "C09", "a coordinate exactly on the upper face of the cell while another direction crosses", "caught without a failing input (the model follows the regenerated comparison; lemmas about it fail)",
  "oracle: PARTICLEFLEWTOOFAR although no particle moves farther than one cell", "VIOLATION with a concrete scenario"),
 ("C10b-stage0-caches-loop-over-frozen", "C10", "per-particle expression with stage 0 or 2 on a species with frozen particles", "MISSED",
  "overwriting per-particle expressions of stage 0/1/2 in sim/oracle_pairmods.py", "VIOLATION with a concrete scenario"),
 ("C11b-pid-counter-concatenated", "C11", "pids p and 10p+k, counters 10..19 and 0..9, both probes before either open", "caught by the correspondence (file names differ from the model's)",
  "translator extracts the separator between pid and counter; theorem C11_name_format; then: harness/h_compiler_proc.cpp overrides getpid() (VERIF_FAKE_PID) and name-collision candidates (pid 2 counter 10 / pid 21 counter 0, pid 1 counter 11 / pid 11 counter 1) run on real processes in the race-witness patterns", "VIOLATION with a concrete schedule and process ids; the name-format theorem breaks as well"),
 ("C03b-collision-name-counter-order", "C03", "a left-over temporary file with the process's own id and a counter it reaches; a second expression compiled afterwards in the same process",
  "MISSED by C03 (the harness compiled one expression per forked process); caught by C11 with a concrete schedule (stale files, two functions in one process)",
  "harness/h_parser.cpp `group` mode: 3-5 expressions compiled in ONE process and kept alive, with and without a left-over file; oracle in vlib/c03.py: every compiled function computes what it computes alone", "VIOLATION with the expression group as replay (C03 and C11)"),
 ("C08b-receding-particle-no-hit-shortcut", "C08", "force towards a wall, velocity away from it, wall reached within the step", "MISSED (force runs never had a receding particle close to a wall)",
  "scenario family `pullback` in sim/corr_walls.py; translate/t_hittime.py + PropsR/C08Force.lean (statement-level translation of solveHitTimeEquation, completeness / first-crossing theorems) + bit-for-bit validation against the real member function",
  "VIOLATION with a concrete scenario; the translated definition changes and C08F_complete / C08F_first_crossing no longer build"),
 ("C12b-srand48-instead-of-srand", "C12", "uran() in a runtime-compiled expression; runs started in different seconds", "caught (round 2)", "-", "VIOLATION with a concrete scenario; the entropy-site table theorem C12_sites breaks as well"),
 ("C14b-record-addattribute-type-conflict-shortcut", "C14", "existing name requested with another type through a RECORD (Data::addAttribute)", "caught by the correspondence but no failing input (the conflict oracle only asked through the format)",
  "conflict family of the property oracle alternates between DataFormat::addAttribute and Data::addAttribute", "VIOLATION with a concrete op sequence"),
 ("C16b-square-static-cutoff-power", "C16", "two Square kernels with different cutoffs set up in one process", "caught without a failing input (the translator rejects the function-local static; the numerical oracle used one process per cutoff)",
  "numerical oracle always runs, all kernel objects of all cutoffs in ONE process in shuffled order", "VIOLATION with a concrete evaluation (kernel, cutoff, objects created before)"),
 ("C13b-samecell-free-frozen-colour-typo", "C13", "two species, frozen particles of the later-declared species, a free/frozen pair of the two species inside one cell", "caught (round 2); one worker of sim/corr_relabel.py crashed on a pair naming a non-existent particle",
  "the pair-list comparison reports such a pair instead of raising", "VIOLATION with a concrete scenario (shifted run differs from the base run)"),
 ("C17b-result-size-check-too-many-entries", "C17", "an expression with MORE entries than the module expects (vector for scalar, tensor for vector)", "caught (round 2): wrong-type expression mutants of sim/corr_invalid.py", "-", "VIOLATION with a concrete input"),
 ("C18b-readnext-plus-sign-dropped", "C18", "a persistent scalar with |value| >= 1e6 (written with a signed exponent)", "caught (round 2): translator t_restart regenerates the token alphabet, C18_tokens / C18_tokens_plus_occurs no longer build; run B fails / restores other values", "-", "VIOLATION with a concrete system"),
 ("C19b-minimum-image-break-instead-of-continue", "C19", "a non-periodic direction before a periodic one, a bond across that later periodic face", "caught (round 2): translator t_bonds regenerates the wrap loop, C19_current_periodic no longer builds; vectors differ on the real runs", "-", "VIOLATION with a concrete scenario"),
 ("C20b-fpairvels-forceslot-first-second", "C20", "cross-species FPairVels naming its species in reverse colour order AND another integrator listed before the species' velocity-Verlet integrator", "MISSED (the velocity-Verlet integrator was always the first integrator of its species)",
  "sim/corr_dyn.py lists another integrator before the velocity-Verlet one in a third of the cases; sim/corr_omp.py `slot_stress` rewrites every second scenario into that layout with reversed cross-species forces", "VIOLATION with a concrete scenario (copy vectors not zero / serial vs OpenMP)"),
 ("C15b-clear-keeps-free-slots", "C15", "delete, clear, refill to exactly the capacity, delete, new", "the check itself crashed on the aborted harness output (reported as no-failing-input-found)",
  "the reference oracle treats an assertion / abort of the real class as the failure it is", "VIOLATION with a concrete op sequence"),
 ("C20-mergecopies-second-slot-index", "C20", "OpenMP build, PairParticleScalar on a mixed species pair, differing per-species copy-slot counters", "caught", "-", "VIOLATION with a concrete scenario (serial vs OpenMP)"),
]
rows = ["| seeded change | property | first result | strengthened | now |", "|---|---|---|---|---|"]
for d, pid, needs, first, strength, final in T:
    p = os.path.join(HERE, "seeded", d)
    if not os.path.isdir(p):
        print("missing", d); continue
    json.dump({"property": pid, "source": SRC, "needs_to_manifest": needs, "confirmed": CONF,
               "first_result_of_./check": first, "strengthening": strength, "result_now": final,
               "ran": "tools/try_seed.sh seeded/%s %s  (= tools/confirm_seed.sh + tools/with_patch.sh patch.diff ./check %s quick; /repo reverted afterwards)" % (d, pid, pid)},
              open(os.path.join(p, "meta.json"), "w"), indent=1)
    rows.append("| `%s` | %s | %s | %s | %s |" % (d, pid, first, strength, final))
print("\n".join(rows))
