#!/usr/bin/env python3
"""Regenerates /verif/MANIFEST.json from the table below (single source of truth for what is claimed)."""
import json
import os

HERE = os.path.dirname(os.path.dirname(os.path.abspath(__file__)))
IDS = [json.loads(l)["id"] for l in open(os.path.join(HERE, "properties.jsonl"))]

BASE_NOTE = ("Trusted: Lean 4.33 kernel; axioms propext/Classical.choice/Quot.sound only (audited every run; no native_decide, no sorry); "
             "the Lean statements; the translator(s) and the correspondence harness named in the technique; compilers, libc, the OS. ")

CLAIMS = {
    "C01": dict(
        level="proof", design="DESIGN.md section 3, C01",
        technique="Lean 4 proofs (core Rat) that the link-wise pair generation is a permutation of the brute-force minimum-image set, for every grid with >= 2 cells per direction and all periodicities; tables and per-direction kernels of addPair/cellDist regenerated from cell.h/cell.cpp/manager_cell.h and proved equal to the functions of the theorems (bridge); correspondence of every cell, link and pair list with the real binary; brute-force oracle on the dumps",
        text="C01_exact/sound/nodup/complete: for every grid (incl. exactly two cells, where two links join the same cells), cutoff <= cell width, and registered particle placement, the generated pairs are exactly the unordered pairs with minimum-image separation below the colour pair's cutoff, each once, with vector r_first - r_second - k L and acts-on flags = free flags; C01_eps states the 2 eps sliver; C01_gen_tables_ok and C01_bridge_* tie offsets, OFFSET2NEIGHBOR, INV_NEIGHBOR, addPair, cellDist and the cutoff test to the source; the real pair lists equal the model's and the brute-force set on every explored state.",
        note=BASE_NOTE + "The general theorem is about the canonical link list of Sympler/Geom.lean; that the model of cellSubdivide builds such a list is kernel-checked (decide) for 2x2x2 and 3x2x2 grids in all periodicities and evaluated natively for every grid of the correspondence. Hypothesis `Registered` is C09's invariant. Not modelled: inlets/outlets, smartCells, several regions; rounding at rc +- ulp."),
    "C09": dict(
        level="proof", design="DESIGN.md section 3, C09",
        technique="Lean 4 invariant proof over ALL histories of move/commit/erase operations of a statement-level model of Cell::updatePositions / checkNewPosition / commitInjections / activate / deactivate (doubly linked active lists, link counters); tables and leave-offset / re-entry kernels regenerated from the source; correspondence of the complete cell/link state with the real binary after every step; positional oracle",
        text="C09_inv_reachable: in every reachable state each particle is in exactly one list, counters equal list lengths, the active-cell list holds exactly the occupied cells once, link counters equal their active ends and the active-link list holds exactly the links with two occupied cells; C09_iteration_visits_all covers self-removal during the sweep; C09_pos_reachable: every particle lies in its cell; C09_wrap_exact: crossing periodic faces shifts by exactly -+L in the crossed directions; C09_count_conserved: no particle is lost in a periodic or wall-closed box.",
        note=BASE_NOTE + "Per-step displacement below one cell (else model and code both stop with PARTICLEFLEWTOOFAR, compared). g_geom_eps slack is a model parameter (1e-10 as a rational). Not modelled: inlet cells, particle creation during the run."),
    "C08": dict(
        level="proof", design="DESIGN.md section 3, C08 (PARTIAL: accelerated flight, rounding-decided geometry)",
        technique="Lean 4 + Mathlib proofs over the reals of the reflection laws for the reflector definitions regenerated from reflector_{mirror,bounce_back,stochastic}.h by symbolic execution; Lean 4 proofs (core Rat) about a model of the collision loop (Cell::doCollision, checkForHit, WallTriangle::hit, checkNewPosition) for force-free flight in a cuboid: termination, earliest hit, confinement and constant particle number over any number of steps under a no-exact-edge-hit hypothesis, witness of the exact-edge defect; correspondence of outcome, velocity (exact), position and cell with the real binary; oracles for all reflectors with and without forces",
        text="Mirror reverses exactly the normal velocity component and keeps the tangential ones and the speed; bounce-back reverses v; the stochastic reflector keeps the speed and re-emits inward for every pair of random numbers; r' = hit + eps n lies inside (all over R, for the generated definitions). C08_confined_cuboid / C08_count_run: force-free particles stay strictly between the walls and their number is constant for every step count, or the documented error is raised, provided no hit is exactly on an edge; C08_edge_witness shows that an exact edge hit with ReflectorMirror loses the particle - reproduced on the binary and recorded as known finding. PARTIAL: accelerated flight, c_wt_dist_eps decisions in doubles, STL walls, the stochastic reflector inside the loop are covered by the oracles only.",
        note=BASE_NOTE + "The collision-loop model is hand-written; translate/t_collide.py regenerates its decisions (loop bound, per-pass reset of the earliest-hit search, strictness of the time comparisons, linear hit time, hitPos, epsilons) and Props/CollideBridge.lean proves them equal to the model's; the reflector laws are about regenerated definitions (translator + rat-instance bridge theorems); plus the correspondence. eps/delta/geps enter the model as the exact rational values of the C++ doubles."),
    "C20": dict(
        level="proof", design="DESIGN.md section 3, C20 (PARTIAL: freedom from data races)",
        technique="Lean 4 proofs about a model of the OpenMP build (round-robin link->thread assignment over any activation history, per-thread pair lists, per-thread copy cells, accumulation as ANY interleaving of atomic +=, serial merge that zeroes the copies, slot reuse across stages): partition, commutation, merge = serial sum, no leak, independence of the thread count; correspondence of the real OpenMP binary's link->thread assignment and per-thread pair lists with the model; serial-vs-OpenMP bit-identity runs for T in {1,2,4,8,16}",
        text="C20_assignment/round_robin, C20_partition_links/pairs, C20_run_independent (every interleaving of the threads' accumulation steps gives the same copies), C20_merge(_pointwise), C20_steps(_every), C20_equal, C20_thread_count_independent, C20_layout_disjoint; the real OpenMP flavour assigns links as the model says, its per-thread lists partition the serial list, and every particle datum equals the serial flavour's bit for bit (exact-arithmetic regime) for every explored scenario, thread count and repetition. PARTIAL: that real threads touch only their own copies (no data race) is assumed by the model; only the repeated identical runs speak for it.",
        note=BASE_NOTE + "Hand-written model; translate/t_threads.py regenerates the round-robin counter of activateCellLink and the shape of the mergeCopies statements from the OpenMP branch of the source (Props/ThreadsBridge.lean); plus the correspondence with a second build flavour (-fopenmp) of the same tree. Module kinds outside the scenario generator (thermostats, DPD, tensor symbols) are not covered."),
    "C03": dict(
        level="proof", design="DESIGN.md section 3, C03 (PARTIAL: clashing variable names; gcc/libm trusted)",
        technique="Lean 4 proofs about an executable model of the expression language (character-level parser driven by the operator table regenerated from the source in registration order, interpreter over Rat, C emitter producing the same strings as toC(), reader/evaluator for the emitted C subset): emitter soundness against the interpreter for every well-formed tree, absence of integer-typed divisions in emitted text, totality of the parser, usual precedence/associativity with redundant parentheses, documented meaning of every operator and function; correspondence of parse trees, types, every emitted C string, interpreter values and gcc-compiled values with the real code; independent reference evaluator as oracle",
        text="C03_emit_sound(_parsed): for every well-formed tree, component and environment the value of the emitted C text equals the interpreter's value; C03_emit_no_int_division / never_int_error: compiled code cannot silently truncate; C03_total: every string is parsed to a tree or rejected with an error (no hang, no crash); C03_parse_render(_value): usual precedence, left-associative - and /, unary minus, any redundant parentheses; C03_denote_meaning_*: the interpreter computes the documented meaning of each operator and function. On every generated expression the real parser, emitter (textually), interpreter and gcc-compiled code agree with the model and with an independent reference evaluator. PARTIAL: variable names containing operator or function names are excluded from the parse theorem (decidable predicate; malformed stream only).",
        note=BASE_NOTE + "parseC/evalC is the specification of gcc's reading of the emitted text (trusted, validated against gcc on every emitted text). libm functions are oracles. Rounding of double operations is outside (exact regime; rounded cases are counted separately)."),
    "C13": dict(
        level="proof", design="DESIGN.md section 3, C13",
        technique="Lean 4 proofs (core Rat) over the configuration model of C01: periodicity of the minimum image, invariance of the reference pair list under a common displacement with arbitrary wraps, and equality up to order and orientation of the linked-cell pair lists of shifted or reordered configurations (via C01_exact); tie through the regenerated addPair/cellDist kernels (bridge theorems) and relabel runs of the real binary compared by physical identity (pair lists in canonical orientation and all particle data, bit for bit)",
        text="C13_mi_periodic / C13_sepV_shift: minimum-image separations are unchanged by a common shift followed by any wrap into the box (faces, edges, corners, several box lengths); C13_shift_brute: the reference pair list is literally the same; C13_shift / C13_perm: the pair list delivered to forces and pair symbols by the cell search for the shifted (re-registered) or reordered particle system equals the original up to order and orientation, with the same vector per physical pair. On the real binary the permuted and shifted runs reproduce pair lists, forces and derived quantities of every physical particle bit for bit inside the exact horizon.",
        note=BASE_NOTE + "Statements are at the level of the pair list; forces and pair sums being order-independent sums over that list is the exact-arithmetic regime plus C04/C07. Shift invariance only for expressions not reading absolute positions, fully periodic boxes."),
    "C04": dict(
        level="proof", design="DESIGN.md section 3, C04",
        technique="Lean 4 proofs about the shared one-step model Sympler/Dyn.lean (pair kernel with acts-on guards, own cutoff, symmetry factor): reciprocity, free-only, own cutoff, momentum invariance for every step count; correspondence of both force buffers of every particle with the real binary after every step in the exact-arithmetic regime; momentum oracle on the real runs",
        text="C04_reciprocal(_op): the contribution to the second partner is symmetry * (factor_j o F) and equals minus the first under the symmetry premise; C04_free_only: nothing is accumulated on a frozen particle; C04_own_cutoff(_exact): a module contributes iff the pair is inside ITS cutoff even when the list cutoff is larger; C04_momentum: with reciprocal pair forces, all free, fully periodic, total momentum is invariant under step for all step counts. Real force buffers equal the model's exactly on every explored scenario.",
        note=BASE_NOTE + "The model is hand-written; translate/t_dyn.py regenerates the kernels (increments, guards, own-cutoff test) of FPairVels/FPairScalar/FPairVector/PairParticleScalar/PairParticleVector from the source and Props/DynBridge.lean proves them equal to the model's (Bridge_pair_*); plus the exact correspondence. DPD/LJ/thermostat kernels (sqrt, random numbers) are not instantiated by scenarios. Neighbour relation in this model is the brute-force set (C01/C02 connect it to the lists)."),
    "C05": dict(
        level="proof", design="DESIGN.md section 3, C05 (PARTIAL: order of convergence)",
        technique="Lean 4 proofs about the shared one-step model (Controller::integrate order, two force buffers with index flip, protect/unprotect of tag forces, clear of non-persistent data, velocity-Verlet with lambda, Euler integrators): force freshness by induction over steps, textbook velocity-Verlet map, lambda independence, exact reversibility, exact constant-acceleration and constant-rate solutions; exact correspondence of r, v, forces, integrated quantities with the real binary; analytic / metamorphic oracles",
        text="C05_force_fresh(_run): after every step the current force buffer holds each registered force exactly once, evaluated on the updated state, nothing surviving from earlier steps; C05_vv_textbook / lambda_independent / vv_reversible / vv_const_accel / const_forces / euler_const_rate as named. PARTIAL: second-order convergence is the classical theorem about the textbook map to which C05_vv_textbook reduces the code; it is not proved in Lean.",
        note=BASE_NOTE + "The model is hand-written; the velocity-Verlet / Euler kernels and the call order of Controller::integrate are regenerated by translate/t_dyn.py and proved equal to the model's (Bridge_vv_step1/2, Bridge_euler_step1, Bridge_step_order); plus the exact correspondence; IntegratorScalarLambda is covered by an implementation-side oracle only. Walls are excluded here (C08). Beyond the exact horizon states are compared approximately and never counted."),
    "C07": dict(
        level="proof", design="DESIGN.md section 3, C07",
        technique="Lean 4 proofs about the shared one-step model: a pair-summed symbol equals the sum over all partners (free or frozen) inside the module's own cutoff at the current minimum-image positions, independent of its previous value; exact correspondence of every symbol with the real binary after every step; brute-force re-summation oracle",
        text="C07_sum / C07_current_positions / C07_memoryless / C07_own_cutoff for every module list of the modelled kinds; real values equal the model's exactly on every explored scenario (several calculators with different cutoffs sharing one list, free/frozen partners, several steps).",
        note=BASE_NOTE + "Hand-written model tied by the regenerated pair-sum kernels (translate/t_dyn.py + Bridge_pair_* theorems) and the exact correspondence (incl. allPairs). ValCalculatorRho with kernels (sqrt) is not instantiated. The list is the brute-force set in this model (C01/C02)."),
    "C10": dict(
        level="proof", design="DESIGN.md section 3, C10",
        technique="Lean 4 proofs about the shared one-step model: step leaves position, velocity, colour, flag and every tag attribute of every frozen particle unchanged and their number constant, for every module list of the modelled kinds; frozen partners do contribute to free particles; exact correspondence of every field of every frozen particle; snapshot oracle on the real runs",
        text="C10_frozen_fixed, C10_frozen_count, C10_felt; on the real binary every frozen particle is bit-identical to its initial state after every step of every explored scenario while contributing to the sums and forces of free partners.",
        note=BASE_NOTE + "The guards of the modelled pair modules are regenerated from the source (Bridge_pair_guards). Force accumulators are scratch storage outside the property's state (ConnectBasic writes both bond partners unguarded; recorded in DESIGN.md). Module kinds not instantiated by the scenarios are not covered."),
    "C18": dict(
        level="proof", design="DESIGN.md section 3, C18 (PARTIAL: decimal rounding)",
        technique="Lean 4 proofs about a token-level model of Phase::writeRestartFile and ParticleCreatorFile (readNext with the character class regenerated from pc_file.cpp, %g formatting on the exact domain, header/column mapping): tokens never split, exact-domain round trip is the identity, columns restore every persistent attribute to the right particle; correspondence of the real file text and of the system the real reader holds with the model; write/read oracle A vs B",
        text="C18_tokens(_alphabet), C18_exact_domain(_number), C18_columns(_identity/_count/_attr), C18_partial, witnesses for the class without '+'. PARTIAL: six significant digits for arbitrary doubles is libc's rounding (trusted); on the exact domain the real round trip is compared for equality.",
        note=BASE_NOTE + "The model reads the correctly rounded decimals (Python) of run A's doubles; force accumulator columns are zeroed by every run and not compared."),
    "C15": dict(
        level="proof", design="DESIGN.md section 3, C15",
        technique="Lean 4 refinement proof of a statement-by-statement SmartList model to an abstract list (all op sequences, all chunk sizes 2^k); macros regenerated from smart_list.h by a translator; differential correspondence model vs real header (bounded-exhaustive + random + production chunk size, ASan/UBSan)",
        text="Theorems C15_refines/links/size/slots/no_fault/address/delete_untouched hold for every create/delete/clear sequence across capacity growth and slot reuse; the model is tied to the source by regenerated macros and by exact line-by-line agreement of the model driver with the real SmartList on every explored sequence.",
        note=BASE_NOTE + "Modelled, not verified: that std::vector<T*>::push_back leaves chunks in place (checked by the harness through recorded addresses); deleteEntry on a non-live entry is outside the precondition."),
    "C16": dict(
        level="proof", design="DESIGN.md section 3, C16",
        technique="Lean 4 + Mathlib real analysis (interval integrals, HasDerivAt) about kernel definitions regenerated from the C++ by symbolic execution (translator t_kernels); sampled differential validation of the translator against the real member functions",
        text="For all rc>0: Lucy, Square, Linear are non-negative on [0,rc], vanish at rc, integrate (4 pi r^2 W) to one, self value = W(0); Lucy and Square weight = -W'(r)/r (HasDerivAt). The definitions the theorems speak about are regenerated from wf_*.h/.cpp on every run, so a changed prefactor/exponent/branch breaks a proof; the translator is validated against the compiled functions.",
        note=BASE_NOTE + "Modelled, not verified: floating-point rounding of the kernel evaluation; M_PI = pi; r->abs() is the Euclidean norm. Linear::weight and Square::weight(NULL) throw (no gradient weight provided) - checked on the real code."),
    "C11": dict(
        level="proof", design="DESIGN.md section 3, C11",
        technique="Lean 4 invariant proof over ALL schedules of an abstract process/file-system model (any number of processes, arbitrary stale files); naming flag and step order regenerated from function_compiler.cpp; correspondence by forcing interleavings of real processes through guarded scheduling points",
        text="C11_isolation: for every schedule every process is bound to code from its own expressions, none fails, and when all are done the directory equals the initial one; C11_progress shows the hypotheses are satisfiable. Tied to the source by the generated naming flag/step order and by exact agreement of model and real processes on forced interleavings (incl. the race witnesses of the old naming).",
        note=BASE_NOTE + "Modelled, not verified: atomicity of stat/open(O_TRUNC)/unlink and of gcc writing its output (OS contract); distinct pids of live processes; the two stat calls of the probe are one step in the real-process harness (the Lean model also has the finer two-step probe, C11_coarse_refines)."),
    "C02": dict(
        level="proof", design="DESIGN.md section 3, C02",
        technique="Lean 4 proofs (core Rat + one Mathlib normed-space file) about the scan loop body, counter-mode decision, refresh wrap and list cutoff regenerated from verlet_creator.cpp by an SSA translator; correspondence of rebuild decisions and refreshed distances with the real binary through the observer; Verlet-vs-linked-cell equivalence runs",
        text="C02_scan_sound/iff: no rebuild is skipped when two different particles together moved the skin, for every storage order; C02_scan_keeps_close_pairs + verlet_geometric: then every pair now inside rc was inside rc+skin at the last rebuild; refresh gives the minimum image and never reports a false close pair (sharp box condition); counter mode rebuilds exactly every 'every' calls. Generated definitions tie the theorems to the source; the real binary's decisions and distances equal the model's on every explored scenario.",
        note=BASE_NOTE + "Composition with C01 (rebuilt list exact for rc+skin) is by hypothesis here and checked by the oracle. Fixed-interval mode: 'within the safe interval' is the user's premise. Modelled, not verified: rounding at rc +- ulp; colours without position integrator are assumed immobile; particles created after the first step (inlets)."),
    "C06": dict(
        level="proof", design="DESIGN.md section 3, C06",
        technique="Lean 4 proofs about a transcription of Symbol::findStage / setSymbolStages / runSymbols order (stage correctness, uniqueness under permutation, cycle => error, termination bound, value order-independence); correspondence on random dependency graphs x module orders on the real binary (stages, execution trace, all values exact)",
        text="For every symbol list: a successful stage assignment puts every symbol strictly after all other producers of what it reads, equals the longest-path level and is therefore the same for every module order; cycles always end in the stageIterations error; acyclic graphs of depth < stageIterations succeed in every order; scheduled evaluation never reads a stale value. The model's stages equal the real binary's for every explored graph and order, and the real values equal a direct evaluation in all orders.",
        note=BASE_NOTE + "The model is hand-written; translate/t_stages.py regenerates the producer-update rule from ALL its sites in symbol.cpp (uniform form, self exclusion) and the stageIterations default/bound, and Props/StagesBridge.lean proves the rule equal to the model's `visit`; plus the correspondence. Triplet/quintet and bonded calculators and the '_0' table are treated as further producers but not generated in scenarios; a candidate defect outside C06's statement (triplet calculators staged above every particle/pair stage are never run) is recorded in DESIGN.md."),
    "C14": dict(
        level="proof", design="DESIGN.md section 3, C14",
        technique="Lean 4 invariant/frame proofs over ALL op sequences of a DataFormat/Data model with an explicit refcounted heap; tables (enum, sizeof/alignof by compiled probe, alignment rule, container and text case tables, fall-through flag) regenerated from data_format.h/.cpp; differential correspondence on random op sequences (ASan/UBSan/LSan harness); property-level oracle families on the real classes",
        text="Layout invariant (cumulative offsets, disjointness, 8-byte alignment after alignDataFor), add preserves/idempotent/conflict, deep copy with exact refcounts for containers, clear zeroes exactly the non-persistent attributes, text round trip for INT/DOUBLE/POINT/TENSOR/STRING - for every op sequence. Three genuine defects about STRING and container attributes are recorded as known findings (witness theorems + real replays) and reported as KNOWN-FINDING.",
        note=BASE_NOTE + "Hypothesis of the text round trip: libc %g/atof/atoi are inverse on the <= 6 significant digit domain (validated against libc by the correspondence, proved for the executable codec on a finite table). Operations the model classifies as undefined behaviour (stale block, null format, misaligned without alignDataFor) end a case."),
    "C12": dict(
        level="proof", design="DESIGN.md section 3, C12 (PARTIAL)",
        technique="Lean 4 `decide` theorems over the table of ALL entropy sites (getpid/time/clock/srand/rand/...) regenerated from the source with their randomize guards; two-process byte-identity runs of stochastic scenarios under different pid, start second, TMP, cwd, environment",
        text="C12_sites: every entropy site is non-semantic (timing, temp-file name), reached only with randomize=true, or made deterministic (rand() re-seeded in Simulation::setup); C12_seed_const: with randomize off no seed depends on pid or clock. PARTIAL: non-interference through uninitialised memory or address-ordered containers is a run-time fact; it is covered only by the two-process comparison (byte-identical observer dumps).",
        note=BASE_NOTE + "PARTIAL as stated. The site classifier of the translator (enclosing function, if/else randomize guard) is heuristic text analysis; a site it cannot classify is reported as unguarded, which fails C12_sites."),
    "C19": dict(
        level="proof", design="DESIGN.md section 3, C19",
        technique="Lean 4 proofs about the per-component treatment of bonded pairs regenerated from the three sites of colour_pair.cpp (with their periodicity guard) and a model of the connected-list refresh and the bonded force loop; correspondence of every listed bond vector with the real binary; property oracle on the dumps",
        text="C19_current_periodic: the refreshed component is the minimum image (k in {-1,0,1}, range [-L/2,L/2], no nearer image); C19_current_nonperiodic: in a walled direction it is the plain difference however long the bond; creation = refresh; each listed bond is evaluated exactly once per pass and no other pair; the vector depends only on the current positions of the two partners and the box (not on cutoff, grid or pair creator).",
        note=BASE_NOTE + "Hypothesis: partners lie inside the box (C09). The iteration over the SmartList is the one verified under C15. Bit growth beyond 53 bits in multi-step runs: bonds whose plain difference is not exactly representable are compared by the oracle with a 2^-36 slack and left out of the exact model comparison (counted in the evidence)."),
    "C17": dict(
        level="proof", design="DESIGN.md section 3, C17 (PARTIAL)",
        technique="Lean 4 proofs about a model of the input-validation decision chain (strict strtol/strtod syntax proved equal to an independent number grammar, unknown names, booleans, constraints, expression/size checks, box check, every single compile-step fault, error => non-zero exit); correspondence on ALL single mutations of three base inputs and on compile-step faults (gcc shims, unusable TMP) against the real binary; scanners compared with glibc",
        text="C17_malformed_number: INT/DOUBLE attribute text is accepted iff it is a complete number (old prefix parser: witness); C17_unknown/bool/constraint/expr/size/box/compile/exit: each modelled invalid input or compile-step fault ends in an error and a non-zero exit with the time loop not started. PARTIAL: per-module setup() checks are not modelled and 'no signal, no hang' is observed only (oracle on 949 mutants).",
        note=BASE_NOTE + "Hand-written model: the tie is the correspondence (verdict per mutant) plus the glibc comparison of the scanners; attribute tables are read from `sympler --help` at run time."),
}


def main():
    checks = []
    for pid in IDS:
        if pid not in CLAIMS:
            continue
        c = CLAIMS[pid]
        checks.append({
            "property_id": pid,
            "quick_cmd": "./check %s quick" % pid,
            "thorough_cmd": "./check %s thorough" % pid,
            "evidence_file": "evidence/%s.json" % pid,
            "replay_cmd_template": "./check %s quick --replay {path}" % pid,
            "engine": "lean4+correspondence",
            "level_claimed": {"category": c["level"], "text": c["text"], "design_ref": c["design"]},
            "level_note": c["note"],
            "technique": c["technique"],
        })
    na = [{"property_id": p, "reason": "no check built for this property"} for p in IDS if p not in CLAIMS]
    man = {
        "version": 1,
        "setup_cmd": "./setup.sh",
        "hooks": {
            "guard": "KAUZLARI_SYMPLER_VERIF",
            "enable": "cmake -G Ninja -S /repo -B /verif/.work/build-hooks -DCMAKE_BUILD_TYPE=RelWithDebInfo '-DCMAKE_CXX_FLAGS=-Wno-error -DKAUZLARI_SYMPLER_VERIF' (done by ./check; harnesses add -DVERIF_CHUNK_SH=<n>)",
            "baseline_off_cmd": "cmake -G Ninja -S /repo -B /verif/.work/build-base -DCMAKE_BUILD_TYPE=RelWithDebInfo -DCMAKE_CXX_FLAGS=-Wno-error >/dev/null && cmake --build /verif/.work/build-base -j16 >/dev/null && /verif/.work/build-base/symplerTest",
            "source_commits": [l.strip() for l in os.popen("git -C /repo log --format=%H --grep='^verif hook:'").read().split()],
            "add_only": True,
        },
        "engines": [{"name": "lean4+correspondence", "path": "check", "serves_properties": sorted(CLAIMS), "kind_free_text": "Lean 4 theorems about executable models (lean/), translators (translate/) regenerating model parts from the source, correspondence harnesses (harness/, sim/) diffing model and real code"}],
        "checks": checks,
        "not_applicable": na,
        "notes": "All checks: ./check <Cxx> quick|thorough. Known findings: known_findings.json. Design: DESIGN.md.",
    }
    json.dump(man, open(os.path.join(HERE, "MANIFEST.json"), "w"), indent=1)
    print("claimed:", sorted(CLAIMS), "not claimed:", len(na))


if __name__ == "__main__":
    main()
