#!/usr/bin/env python3
"""Regenerates /verif/MANIFEST.json from the table below (single source of truth for what is claimed)."""
import json
import os

HERE = os.path.dirname(os.path.dirname(os.path.abspath(__file__)))
IDS = [json.loads(l)["id"] for l in open(os.path.join(HERE, "properties.jsonl"))]

BASE_NOTE = ("Trusted: Lean 4.33 kernel; axioms propext/Classical.choice/Quot.sound only (audited every run; no native_decide, no sorry); "
             "the Lean statements; the translator(s) and the correspondence harness named in the technique; compilers, libc, the OS. ")

CLAIMS = {
    "C15": dict(
        level="proof", design="DESIGN.md section 3, C15",
        technique="Lean 4 refinement proof of a statement-by-statement SmartList model to an abstract list (all op sequences, all chunk sizes 2^k); macros regenerated from smart_list.h by a translator; differential correspondence model vs real header (bounded-exhaustive + random + production chunk size, ASan/UBSan)",
        text="Theorems C15_refines/links/size/slots/no_fault/address/delete_untouched hold for every create/delete/clear sequence across capacity growth and slot reuse; the model is tied to the source by regenerated macros and by exact line-by-line agreement of the model driver with the real SmartList on every explored sequence.",
        note=BASE_NOTE + "Modelled, not verified: that std::vector<T*>::push_back leaves chunks in place (checked by the harness through recorded addresses); deleteEntry on a non-live entry is outside the precondition."),
}


def main():
    checks = []
    for pid in IDS:
        if pid not in CLAIMS:
            continue
        c = CLAIMS[pid]
        checks.append({
            "property_id": pid,
            "quick_cmd": "./check %s quick" % pid,
            "thorough_cmd": "./check %s thorough" % pid,
            "evidence_file": "evidence/%s.json" % pid,
            "replay_cmd_template": "./check %s quick --replay {path}" % pid,
            "engine": "lean4+correspondence",
            "level_claimed": {"category": c["level"], "text": c["text"], "design_ref": c["design"]},
            "level_note": c["note"],
            "technique": c["technique"],
        })
    na = [{"property_id": p, "reason": "check not built yet (construction in progress; DESIGN.md section 6 gives the order)"} for p in IDS if p not in CLAIMS]
    man = {
        "version": 1,
        "setup_cmd": "./setup.sh",
        "hooks": {
            "guard": "KAUZLARI_SYMPLER_VERIF",
            "enable": "cmake -G Ninja -S /repo -B /verif/.work/build-hooks -DCMAKE_BUILD_TYPE=RelWithDebInfo '-DCMAKE_CXX_FLAGS=-Wno-error -DKAUZLARI_SYMPLER_VERIF' (done by ./check; harnesses add -DVERIF_CHUNK_SH=<n>)",
            "baseline_off_cmd": "cmake -G Ninja -S /repo -B /verif/.work/build-base -DCMAKE_BUILD_TYPE=RelWithDebInfo -DCMAKE_CXX_FLAGS=-Wno-error >/dev/null && cmake --build /verif/.work/build-base -j16 >/dev/null && /verif/.work/build-base/symplerTest",
            "source_commits": [l.strip() for l in os.popen("git -C /repo log --format=%H --grep='^verif hook:'").read().split()],
            "add_only": True,
        },
        "engines": [{"name": "lean4+correspondence", "path": "check", "serves_properties": sorted(CLAIMS), "kind_free_text": "Lean 4 theorems about executable models (lean/), translators (translate/) regenerating model parts from the source, correspondence harnesses (harness/, sim/) diffing model and real code"}],
        "checks": checks,
        "not_applicable": na,
        "notes": "All checks: ./check <Cxx> quick|thorough. Known findings: known_findings.json. Design: DESIGN.md.",
    }
    json.dump(man, open(os.path.join(HERE, "MANIFEST.json"), "w"), indent=1)
    print("claimed:", sorted(CLAIMS), "not claimed:", len(na))


if __name__ == "__main__":
    main()
