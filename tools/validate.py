#!/usr/bin/env python3-vt
"""validates MANIFEST.json and every evidence file against the schemas in /root/.vp"""
import json, glob, sys, jsonschema
ok = True
m = json.load(open('/verif/MANIFEST.json'))
jsonschema.validate(m, json.load(open('/root/.vp/MANIFEST.schema.json')))
s = json.load(open('/root/.vp/EVIDENCE.schema.json'))
claimed = {c['property_id'] for c in m['checks']}
for f in sorted(glob.glob('/verif/evidence/*.json')):
    try:
        jsonschema.validate(json.load(open(f)), s)
    except Exception as e:
        ok = False
        print(f, 'INVALID', str(e)[:300])
have = {f.split('/')[-1][:-5] for f in glob.glob('/verif/evidence/*.json')}
print('manifest ok; evidence files:', len(have), 'missing for claimed:', sorted(claimed - have))
sys.exit(0 if ok else 1)
