#!/bin/bash
# usage: confirm_seed.sh <seeded/dir>  — confirms a seeded change in a scratch worktree of /repo (outside /repo and /verif):
#   clean tree: builds, 36 tests pass, demo exits 0;  patched tree: builds, 36 tests pass, demo exits non-zero.
# The scratch worktree /tmp/confirm-wt is reused between calls (incremental builds); remove it with
#   git -C /repo worktree remove --force /tmp/confirm-wt
D="$(readlink -f "$1")"; W=/tmp/confirm-wt
if [ ! -d $W ]; then git -C /repo worktree add --detach $W HEAD -q || exit 2; fi
git -C $W checkout -q --detach "$(git -C /repo rev-parse HEAD)" && git -C $W checkout -q -- . || exit 2
OMP=""; case "$(basename "$D")" in C20*) OMP=$W/_bomp;; esac   # C20 demos take <serial-build-dir> <openmp-build-dir>
build() { if [ -n "$OMP" ]; then cmake -G Ninja -S $W -B $OMP -DCMAKE_BUILD_TYPE=RelWithDebInfo "-DCMAKE_CXX_FLAGS=-Wno-error -fopenmp" >/dev/null && cmake --build $OMP -j16 --target sympler 2>&1 | tail -1 >/dev/null; fi; cmake -G Ninja -S $W -B $W/_b -DCMAKE_BUILD_TYPE=RelWithDebInfo -DCMAKE_CXX_FLAGS=-Wno-error >/dev/null && cmake --build $W/_b -j16 2>&1 | tail -3 >/dev/null; $W/_b/symplerTest 2>&1 | tail -1; }
echo "== clean tree"; T0=$(build); echo "tests: $T0"
rm -rf $W/_seed; mkdir -p $W/_seed; cp -r "$D/demo" $W/_seed/demo   # the demos may locate the sources relative to their own path
( cd $W/_seed/demo && bash ./run.sh $W/_b $OMP >/tmp/confirm-demo-clean.log 2>&1 ); R0=$?; echo "demo exit on clean tree: $R0"
git -C $W apply "$D/patch.diff" || { echo "patch does not apply"; exit 2; }
echo "== patched tree"; T1=$(build); echo "tests: $T1"
( cd $W/_seed/demo && bash ./run.sh $W/_b $OMP >/tmp/confirm-demo-patched.log 2>&1 ); R1=$?; echo "demo exit on patched tree: $R1"
git -C $W checkout -q -- .
if [[ "$T0" == *"OK (36)"* && "$T1" == *"OK (36)"* && $R0 == 0 && $R1 != 0 ]]; then echo "CONFIRMED"; exit 0; else echo "NOT CONFIRMED"; exit 1; fi
