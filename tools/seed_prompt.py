#!/usr/bin/env python3
"""prints the prompt for an independent mutation agent: property text + scratch worktree only (nothing from /verif)"""
import json, sys
pid, wt = sys.argv[1], sys.argv[2]
p = [json.loads(l) for l in open('/verif/properties.jsonl') if json.loads(l)['id'] == pid][0]
print(f"""You are a careful C++ engineer acting as an ADVERSARY for a verification effort. You work ONLY inside the scratch git worktree {wt} (a checkout of the particle simulator SYMPLER, kauzlari/sympler). Do not read or write anything under /verif or /repo, and do not look at other directories under /tmp.

The property under attack (this is all you get):
  id: {p['id']}
  title: {p['title']}
  statement: {p['statement']}
  it must hold: {p['quantifier']['text']}
  files where the behaviour lives: {', '.join(p['anchors']['files'])}

YOUR JOB: make ONE small source change in {wt} (a realistic slip a developer could make and a reviewer could miss: an off-by-one, a wrong comparison, a dropped/misplaced statement, a wrong index or sign, two sites that each look fine alone, a fast path that skips a step, ...) that BREAKS this property while
  (a) the project still compiles, and
  (b) the existing unit tests still pass: build with `cmake -G Ninja -S {wt} -B {wt}/_b -DCMAKE_BUILD_TYPE=RelWithDebInfo -DCMAKE_CXX_FLAGS=-Wno-error && cmake --build {wt}/_b -j8` (about 2-3 minutes the first time; the build itself runs the 36 CppUnit tests and prints `OK (36)`; you can also run `{wt}/_b/symplerTest`), and
  (c) the breakage needs something SPECIFIC to manifest — a particular sequence of operations, an unusual but legal input, a particular interleaving/schedule, a boundary situation, a multi-step history, two cooperating conditions — not something every ordinary run would expose at once.
Do not touch the tests, build files, or anything guarded by `#ifdef KAUZLARI_SYMPLER_VERIF` (verification hooks). Keep the diff minimal (ideally 1-5 lines).

Then write a DEMONSTRATION that fails with your change and passes without it: either a small C++ program compiled against the headers / the static libraries in {wt}/_b/source/src (link line: see how {wt}/source/src/CMakeLists.txt links `sympler`: all lib*.a inside -Wl,--start-group ... -Wl,--end-group plus -lgsl -lgslcblas -ldl -lxml2 -lm -pthread, include dirs = every directory under {wt}/source/include, plus -I/usr/include/libxml2), or an input (XML + particle files) for the simulator binary {wt}/_b/sympler together with a script that checks its output (`{wt}/_b/sympler --help` and `--help <Category>` document the input format; {wt}/testsuite/TSTIN and {wt}/examples contain inputs). The demonstration must exit 0 on the unmodified tree and non-zero on the modified tree; verify both yourself (use `git -C {wt} stash` / `stash pop` or a second build dir to compare).

DELIVER in the directory {wt}/_seed/ :
  - patch.diff   (`git -C {wt} diff` of your change only, applicable with `git apply` to the unmodified tree)
  - demo/        (the demonstration: sources/inputs and a `run.sh <path-to-build-dir>` that exits 0 = property holds, non-zero = broken; it may assume the build dir contains `sympler` and `source/src/lib*.a` built from the tree under test)
  - README.md    (what you changed, why it breaks the property, exactly what is needed for it to manifest, and the commands you ran with their results on both trees)
Finish by leaving the worktree with your change APPLIED and built, and report in a few lines: the diff, what it needs to manifest, and the demo results on both trees. If your first idea turns out to be caught by the 36 tests or does not break the property, try another one.""")
