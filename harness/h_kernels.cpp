// Validation harness for the kernel translator (C16): evaluates the REAL Lucy/Square/Linear functions.
// Protocol: `eval <K>_<fn>[_self] <rc> <r>` -> IEEE-754 bit pattern of the double as a decimal integer,
// `throws` when the real function throws, `err:name` for unknown names.
#include <cstdio>
#include <cstring>
#include <iostream>
#include <sstream>
#include <string>
#include <stdint.h>
#include "wf_lucy.h"
#include "wf_square.h"
#include "wf_linear.h"
#include "pairdist.h"

template <class W> struct Open : public W {
  Open(double rc) : W((Node*) NULL) { this->m_cutoff = rc; this->setup(); }
  double member(const std::string& m);
};
template <> double Open<Lucy>::member(const std::string& m) { if (m == "factor_i") return m_factor_i; if (m == "factor_w") return m_factor_w; throw 1; }
template <> double Open<Square>::member(const std::string& m) { if (m == "factor") return m_factor; throw 1; }
template <> double Open<Linear>::member(const std::string& m) { if (m == "factor") return m_factor; throw 1; }

static void out(double v) { uint64_t b; memcpy(&b, &v, 8); printf("%llu\n", (unsigned long long) b); }

template <class W> void run(const std::string& fn, double rc, double r) {
  Open<W> w(rc);
  point_t p = {{{0, 0, 0}}};
  Pairdist pd;
  pd.m_distance.abs = r; pd.m_distance.abs_square = r * r;
  try {
    if (fn == "interpolate") out(w.interpolate(&pd, p));
    else if (fn == "interpolate_self") out(w.interpolate(NULL, p));
    else if (fn == "weight") out(w.weight(&pd, p));
    else if (fn == "weight_self") out(w.weight(NULL, p));
    else out(w.member(fn));
  } catch (gError&) { printf("throws\n"); } catch (int) { printf("err:name\n"); }
}

int main() {
  std::string line;
  while (std::getline(std::cin, line)) {
    std::istringstream is(line); std::string cmd, name; double rc, r;
    is >> cmd >> name >> rc >> r;
    if (cmd != "eval") { if (cmd != "") printf("err:parse\n"); continue; }
    size_t us = name.find('_');
    std::string K = name.substr(0, us), fn = name.substr(us + 1);
    if (K == "Lucy") run<Lucy>(fn, rc, r);
    else if (K == "Square") run<Square>(fn, rc, r);
    else if (K == "Linear") run<Linear>(fn, rc, r);
    else printf("err:name\n");
  }
  return 0;
}
